(* Component model of restart recovery (property C12), definitions only.
   Go sources: pkg/scheduler/partition.go UpdateAllocation ("new allocation already assigned" branch:
   queue.IncAllocatedResource without limit check, node.AddAllocation(force), app.RecoverAllocationAsk,
   app.AddAllocation incl. user usage; "new request" branch: app.AddAllocationAsk), handleForeignAllocation
   (new key: node.AddAllocation -> occupied), AddApplication, addNode.

   What is modelled: a ledger of totals keyed by (kind, id, id2) - per node allocated and occupied, per queue
   allocated and pending (every queue on the path of the application's queue), per application allocated /
   placeholder / pending, per (user, queue of the path) usage - and the replay operations of the shim. Each
   operation checks what the code checks on that branch (application known, node known, resources strictly
   positive, key not seen before) and then POSTS its resource to the ledger entries the code updates, with the
   saturating addition of Base/Res.v (addTo).
   NOT modelled: placement of the re-submitted application (its queue path is part of the knowledge; the oracle
   compares the observed queue), application state changes, quota checks (there are none on these branches -
   that is the point of "regardless of quotas"), the update branches of UpdateAllocation for a key seen before
   (a replay has distinct keys), reservations, preemption bookkeeping. *)
From Coq Require Import List ZArith NArith Bool.
From YK Require Import Base.Int64 Base.Res Core.Obs.
Import ListNotations.
Open Scope N_scope.

Definition key := (N * (N * N))%type.
Definition key_eqb (a b : key) : bool := (fst a =? fst b) && (fst (snd a) =? fst (snd b)) && (snd (snd a) =? snd (snd b)).
Definition K_NODE_ALLOC := 1. Definition K_NODE_OCC := 2. Definition K_QUEUE_ALLOC := 3. Definition K_QUEUE_PEND := 4.
Definition K_APP_ALLOC := 5. Definition K_APP_PH := 6. Definition K_APP_PEND := 7. Definition K_USER := 8.
Definition posting := (key * res)%type.
Definition mk1 (kind id : N) : key := (kind, (id, 0)).

(* ---- the ledger ---- *)
Definition totals := list posting.
Fixpoint post1 (t : totals) (p : posting) : totals :=
  match t with
  | [] => [(fst p, addTo [] (snd p))]
  | (k, r) :: rest => if key_eqb k (fst p) then (k, addTo r (snd p)) :: rest else (k, r) :: post1 rest p
  end.
Definition post_all (ps : list posting) (t : totals) : totals := fold_left post1 ps t.
Fixpoint lookup (t : totals) (k : key) (ty : tid) : Z :=
  match t with
  | [] => 0%Z
  | (k', r) :: rest => if key_eqb k' k then getz r ty else lookup rest k ty
  end.

(* ---- what the shim knows ---- *)
Record kapp := mkKA { ka_id : N; ka_chain : list N (* the application's queue and its ancestors *); ka_user : N }.
Inductive rop :=
| RNode (id : N)
| RApp (a : kapp)
| RBound (k app node : N) (r : res) (ph : bool)
| RForeign (k node : N) (r : res)
| RAsk (k app : N) (r : res).

Record knowledge := mkK {
  k_nodes : list N; k_apps : list kapp;
  k_bound : list (N * N * N * res * bool);   (* key, app, node, resource, placeholder *)
  k_foreign : list (N * N * res);            (* key, node, resource *)
  k_asks : list (N * N * res) }.             (* key, app, resource *)

Definition replay_ops (K : knowledge) : list rop :=
  map RNode (k_nodes K) ++ map RApp (k_apps K) ++
  map (fun b => match b with (k, a, n, r, ph) => RBound k a n r ph end) (k_bound K) ++
  map (fun f => match f with (k, n, r) => RForeign k n r end) (k_foreign K) ++
  map (fun s => match s with (k, a, r) => RAsk k a r end) (k_asks K).

(* ---- the small state and the step of a fresh core ---- *)
Record rstate := mkRS { rs_nodes : list N; rs_apps : list kapp; rs_keys : list N; rs_tot : totals }.
Definition rinit : rstate := mkRS [] [] [] [].
Definition find_kapp (apps : list kapp) (id : N) : option kapp := find (fun a => ka_id a =? id) apps.

Definition bound_postings (a : kapp) (node : N) (r : res) (ph : bool) : list posting :=
  map (fun q => (mk1 K_QUEUE_ALLOC q, r)) (ka_chain a) ++
  [(mk1 K_NODE_ALLOC node, r); (mk1 (if ph then K_APP_PH else K_APP_ALLOC) (ka_id a), r)] ++
  map (fun q => ((K_USER, (ka_user a, q)), r)) (ka_chain a).
Definition ask_postings (a : kapp) (r : res) : list posting :=
  (mk1 K_APP_PEND (ka_id a), r) :: map (fun q => (mk1 K_QUEUE_PEND q, r)) (ka_chain a).
Definition foreign_postings (node : N) (r : res) : list posting := [(mk1 K_NODE_OCC node, r)].

(* the postings of an operation, given the applications known when it is processed *)
Definition postings_of (apps : list kapp) (op : rop) : list posting :=
  match op with
  | RBound _ app node r ph => match find_kapp apps app with Some a => bound_postings a node r ph | None => [] end
  | RForeign _ node r => foreign_postings node r
  | RAsk _ app r => match find_kapp apps app with Some a => ask_postings a r | None => [] end
  | _ => []
  end.

Definition valid_res (r : res) : bool := StrictlyGreaterThanZero (Some r).   (* not zero and no negative value *)

Definition accepts (s : rstate) (op : rop) : bool :=
  match op with
  | RNode id => negb (memN id (rs_nodes s))
  | RApp a => match find_kapp (rs_apps s) (ka_id a) with None => true | Some _ => false end
  | RBound k app node r _ =>
      match find_kapp (rs_apps s) app with None => false | Some _ => memN node (rs_nodes s) && valid_res r && negb (memN k (rs_keys s)) end
  | RForeign k node r => memN node (rs_nodes s) && negb (memN k (rs_keys s))
  | RAsk k app r =>
      match find_kapp (rs_apps s) app with None => false | Some _ => valid_res r && negb (memN k (rs_keys s)) end
  end.
Definition op_key (op : rop) : list N :=
  match op with RBound k _ _ _ _ => [k] | RForeign k _ _ => [k] | RAsk k _ _ => [k] | _ => [] end.
Definition rstep (s : rstate) (op : rop) : option rstate :=
  if accepts s op then
    Some (mkRS (match op with RNode id => id :: rs_nodes s | _ => rs_nodes s end)
               (match op with RApp a => a :: rs_apps s | _ => rs_apps s end)
               (op_key op ++ rs_keys s)
               (post_all (postings_of (rs_apps s) op) (rs_tot s)))
  else None.
Fixpoint run (s : rstate) (ops : list rop) : option rstate :=
  match ops with
  | [] => Some s
  | op :: rest => match rstep s op with Some s' => run s' rest | None => None end
  end.

(* ---- totals computed from the knowledge: the sum of the postings of every known item ---- *)
Definition contrib (ps : list posting) (k : key) (ty : tid) : Z :=
  fold_right (fun p acc => ((if key_eqb (fst p) k then getz (snd p) ty else 0) + acc)%Z) 0%Z ps.
Definition knowledge_postings (K : knowledge) : list posting := flat_map (postings_of (k_apps K)) (replay_ops K).
Definition totals_from_knowledge (K : knowledge) (k : key) (ty : tid) : Z := contrib (knowledge_postings K) k ty.

(* ---- the shim's knowledge read from an observed state ---- *)
Fixpoint chain_of (fuel : nat) (qs : list oqueue) (q : N) : list N :=
  match fuel with
  | O => []
  | S f => if q =? 0 then [] else
           q :: match find (fun x => q_id x =? q) qs with Some x => chain_of f qs (q_parent x) | None => [] end
  end.
Definition kapp_of (s : ostate) (a : oapp) : kapp := mkKA (ap_id a) (chain_of (S (length (s_queues s))) (s_queues s) (ap_queue a)) (ap_user a).
Definition bound_of (a : oapp) : list (N * N * N * res * bool) :=
  map (fun al => (oa_key al, ap_id a, oa_node al, oa_res al, oa_ph al)) (ap_allocs a).
(* asks the shim has no binding for: requests that are not among the allocations *)
Definition asks_of (a : oapp) : list (N * N * res) :=
  map (fun r => (oa_key r, ap_id a, oa_res r))
      (filter (fun r => negb (existsb (fun al => oa_key al =? oa_key r) (ap_allocs a))) (ap_requests a)).
(* foreign pods: what the live nodes list *)
Definition foreign_of (s : ostate) : list (N * N * res) :=
  flat_map (fun n => map (fun f => (oa_key f, on_id n, oa_res f)) (on_foreign n)) (s_nodes s).
Definition shim_knowledge (s : ostate) : knowledge :=
  mkK (map on_id (s_nodes s)) (map (kapp_of s) (s_apps s)) (flat_map bound_of (s_apps s))
      (foreign_of s) (flat_map asks_of (s_apps s)).

(* the old core's own view of what is pending: requests not marked allocated *)
Definition pending_asks_of (a : oapp) : list (N * N * res) :=
  map (fun r => (oa_key r, ap_id a, oa_res r)) (filter (fun r => negb (oa_allocated r)) (ap_requests a)).
Definition own_view (s : ostate) : knowledge :=
  mkK (map on_id (s_nodes s)) (map (kapp_of s) (s_apps s)) (flat_map bound_of (s_apps s))
      (foreign_of s) (flat_map pending_asks_of (s_apps s)).
(* crash points without an in-flight placeholder swap: every request is either pending or among the allocations *)
Definition no_inflight (s : ostate) : bool :=
  forallb (fun a => forallb (fun r => Bool.eqb (oa_allocated r) (existsb (fun al => oa_key al =? oa_key r) (ap_allocs a))) (ap_requests a)) (s_apps s).

(* ---- observed totals as a function of the key ---- *)
Definition obs_total (s : ostate) (k : key) (ty : tid) : Z :=
  let kind := fst k in let id := fst (snd k) in let id2 := snd (snd k) in
  if kind =? K_NODE_ALLOC then match find_node s id with Some n => getz (on_allocated n) ty | None => 0%Z end
  else if kind =? K_NODE_OCC then match find_node s id with Some n => getz (on_occupied n) ty | None => 0%Z end
  else if kind =? K_QUEUE_ALLOC then match find_queue s id with Some q => getz (q_alloc q) ty | None => 0%Z end
  else if kind =? K_QUEUE_PEND then match find_queue s id with Some q => getz (q_pending q) ty | None => 0%Z end
  else if kind =? K_APP_ALLOC then match find_app s id with Some a => getz (ap_allocated a) ty | None => 0%Z end
  else if kind =? K_APP_PH then match find_app s id with Some a => getz (ap_phalloc a) ty | None => 0%Z end
  else if kind =? K_APP_PEND then match find_app s id with Some a => getz (ap_pending a) ty | None => 0%Z end
  else if kind =? K_USER then
    match find (fun u => negb (u_group u) && (u_who u =? id) && (u_path u =? id2)) (s_ugm s) with Some u => getz (u_usage u) ty | None => 0%Z end
  else 0%Z.
Definition obs_keys (s : ostate) : list key :=
  flat_map (fun n => [mk1 K_NODE_ALLOC (on_id n); mk1 K_NODE_OCC (on_id n)]) (s_nodes s) ++
  flat_map (fun q => [mk1 K_QUEUE_ALLOC (q_id q); mk1 K_QUEUE_PEND (q_id q)]) (s_queues s) ++
  flat_map (fun a => [mk1 K_APP_ALLOC (ap_id a); mk1 K_APP_PH (ap_id a); mk1 K_APP_PEND (ap_id a)]) (s_apps s) ++
  map (fun u => (K_USER, (u_who u, u_path u))) (filter (fun u => negb (u_group u)) (s_ugm s)).
(* the old core's books agree with its own allocations and asks (the conservation property C03, as a hypothesis) *)
Definition types123 : list tid := [1; 2; 3].
Definition books_agree_on (tys : list tid) (s : ostate) : bool :=
  forallb (fun k => forallb (fun ty => Z.eqb (obs_total s k ty) (totals_from_knowledge (own_view s) k ty)) tys) (obs_keys s).

(* ---- projections of an operation list and boolean forms of the hypotheses of recover_totals
   (soundness in Core/RecoverProofs.v) ---- *)
Definition node1 (op : rop) : list N := match op with RNode id => [id] | _ => [] end.
Definition app1 (op : rop) : list kapp := match op with RApp a => [a] | _ => [] end.
Definition nodes_of (ops : list rop) : list N := flat_map node1 ops.
Definition apps_of (ops : list rop) : list kapp := flat_map app1 ops.
Definition keys_of (ops : list rop) : list N := flat_map op_key ops.
Definition all_postings (apps : list kapp) (ops : list rop) : list posting := flat_map (postings_of apps) ops.
Fixpoint nodupN (l : list N) : bool := match l with [] => true | x :: t => negb (memN x t) && nodupN t end.
Definition rokb (r : res) : bool := nodupN (keys r) && forallb (fun kv => (0 <=? snd kv)%Z && (snd kv <=? MAX)%Z) r.
Definition op_okb (op : rop) : bool :=
  match op with
  | RBound _ _ _ r _ => valid_res r && rokb r
  | RAsk _ _ r => valid_res r && rokb r
  | RForeign _ _ r => rokb r
  | _ => true
  end.
Definition replay_wfb (R : list rop) : bool :=
  nodupN (nodes_of R) && nodupN (map ka_id (apps_of R)) && nodupN (keys_of R) && forallb op_okb R.
Definition needsb (op : rop) (pre : list rop) : bool :=
  match op with
  | RBound _ app node _ _ => memN app (map ka_id (apps_of pre)) && memN node (nodes_of pre)
  | RForeign _ node _ => memN node (nodes_of pre)
  | RAsk _ app _ => memN app (map ka_id (apps_of pre))
  | _ => true
  end.
Fixpoint admissible_from (pre rest : list rop) : bool :=
  match rest with [] => true | op :: r => needsb op pre && admissible_from (pre ++ [op]) r end.
Definition admissibleb (ops : list rop) : bool := admissible_from [] ops.
Definition sumvals (r : res) : Z := fold_right (fun kv acc => (snd kv + acc)%Z) 0%Z r.
Definition sumall (ps : list posting) : Z := fold_right (fun p acc => (sumvals (snd p) + acc)%Z) 0%Z ps.
Definition boundedb (R : list rop) : bool := (sumall (all_postings (apps_of R) R) <=? MAX)%Z.
