(* Fourth fragment of the operational model: reservations, required-node (daemon set) asks and the ledger effects of
   preemption.  A model state IS an [ostate] (Core/Obs.v).  [m_step_resv] handles the steps that [m_step2]
   (Core/Model2.v) rejects because an application / node / queue holds reservations, because the scheduling cycle
   reserved, unreserved or allocated a reserved or required-node ask, or because allocations are marked preempted.
   Definitions only; proofs are in Core/Model4Proofs*.v.

   Go code transcribed (pkg/scheduler): objects/application.go (reserveInternal, canAllocationReserve, UnReserve,
   unReserveInternal, removeAsksInternal, unReserveAllocatedAsk, tryReservedAllocate, tryRequiredNode,
   cancelReservations, tryNodes, tryNodesNoReserve, tryNode, RemoveAllAllocations), objects/node.go (Reserve, unReserve,
   preAllocateCheck), objects/queue.go (Reserve, UnReserve, IncPreemptingResource, DecPreemptingResource,
   RemoveApplication), partition.go (allocate: Reserved / Unreserved / AllocatedReserved / CancelledReservations,
   reserve, unReserve, removeNode, removeApplication, removeAllocation), objects/preemption.go,
   required_node_preemptor.go, quota_preemptor.go only as far as their effect on the ledgers (MarkPreempted,
   IncPreemptingResource, the PREEMPTED_BY_SCHEDULER release event).

   Nondeterminism: the scheduler's decisions are never predicted.  What a scheduling cycle decided is read from the
   step: the allocation from [ENewAlloc], the victims from [ERelease _ _ TT_Preempted], the reservations that were
   created / given up from the application view of the observed post-state.  Every decision is validated against the
   guards of the code path that can produce it and then applied by the transcribed writers; the node view, the queue
   counters, the partition counter and all ledgers are the model's own result.

   The ledger part of releases, application removal, node removal and in-place updates is the frozen function of
   Model.v / Model2.v itself, run with the reservation list of the application (node) hidden - those functions refuse
   applications with reservations only because they do not model them - and put back afterwards. *)
From Coq Require Import List ZArith NArith Bool.
From YK Require Import Base.Int64 Base.Res Core.Obs Core.Model Core.Model2 Core.Ledger.
Import ListNotations.
Open Scope N_scope.

Definition nilb {A} (l : list A) : bool := match l with [] => true | _ => false end.
Definition is_some {A} (o : option A) : bool := match o with Some _ => true | None => false end.

(* ---------- record updaters for the fields the earlier fragments never write ---------- *)
Definition n_set_res (n : onode) (l : list (N * N)) : onode :=
  mkON (on_id n) (on_total n) (on_occupied n) (on_allocated n) (on_available n) (on_sched n) (on_allocs n) (on_foreign n) l.
Definition ap_set_res (a : oapp) (l : list (N * N)) : oapp :=
  mkOApp (ap_id a) (ap_queue a) (ap_state a) (ap_user a) (ap_pending a) (ap_allocated a) (ap_phalloc a) (ap_phask a)
         (ap_requests a) (ap_allocs a) l (ap_phdata a) (ap_statelog a) (ap_phtimer a) (ap_statetimer a) (ap_forced a) (ap_hasph a).
Definition q_set_reserved (q : oqueue) (l : list (N * N)) : oqueue :=
  mkOQ (q_id q) (q_parent q) (q_leaf q) (q_managed q) (q_state q) (q_max q) (q_guar q) (q_alloc q) (q_pending q) (q_preempting q)
       (q_running q) (q_maxrunning q) (q_allocating q) l (q_apps q).
Definition q_set_preempting (q : oqueue) (r : res) : oqueue :=
  mkOQ (q_id q) (q_parent q) (q_leaf q) (q_managed q) (q_state q) (q_max q) (q_guar q) (q_alloc q) (q_pending q) r
       (q_running q) (q_maxrunning q) (q_allocating q) (q_reserved q) (q_apps q).
Definition add_nres (s : ostate) (d : Z) : ostate :=
  mkOS (s_nodes s) (s_apps s) (s_queues s) (s_total s) (s_nallocs s) (s_nph s) (s_nres s + d)%Z (s_foreign s) (s_completed s)
       (s_rejected s) (s_ugm s).

Definition key_is (k : N) (p : N * N) : bool := snd p =? k.
Definition drop_key (k : N) (l : list (N * N)) : list (N * N) := filter (fun p => negb (key_is k p)) l.

(* the reservation list of an application hidden / put back (see the header) *)
Definition hide_res (s : ostate) (id : N) : ostate := upd_app s id (fun a => ap_set_res a []).
Definition show_res (s : ostate) (id : N) (l : list (N * N)) : ostate := upd_app s id (fun a => ap_set_res a l).

(* ---------- Queue.Reserve / Queue.UnReserve (reservedApps of the application's leaf queue) ---------- *)
Definition qr_reserve (aid : N) (l : list (N * N)) : list (N * N) :=
  if existsb (fun x => fst x =? aid) l then map (fun x => if fst x =? aid then (fst x, snd x + 1) else x) l else l ++ [(aid, 1)].
Definition qr_unreserve (aid num : N) (l : list (N * N)) : list (N * N) :=
  match find (fun x => fst x =? aid) l with
  | None => l
  | Some x => if snd x <=? num then filter (fun y => negb (fst y =? aid)) l
              else map (fun y => if fst y =? aid then (fst y, snd y - num) else y) l
  end.
Definition r_queue_reserve (s : ostate) (qid aid : N) : ostate :=
  upd_queues s (fun q => if q_id q =? qid then q_set_reserved q (qr_reserve aid (q_reserved q)) else q).
Definition r_queue_unreserve (s : ostate) (qid aid num : N) : ostate :=
  upd_queues s (fun q => if q_id q =? qid then q_set_reserved q (qr_unreserve aid num (q_reserved q)) else q).

(* ---------- Application.unReserveInternal: Node.unReserve (the node map is keyed by the allocation key), then the
   application map; the result is the number removed from the application ---------- *)
Definition r_unreserve_internal (s : ostate) (aid nid k : N) : ostate * N :=
  let s1 := upd_node s nid (fun n => n_set_res n (drop_key k (on_reservations n))) in
  match find_app s1 aid with
  | Some a => if existsb (key_is k) (ap_reservations a)
              then (upd_app s1 aid (fun b => ap_set_res b (drop_key k (ap_reservations b))), 1)
              else (s1, 0)
  | None => (s1, 0)
  end.

(* unReserveInternal for the reservation the application stores under the key + Queue.UnReserve; the partition counter is
   NOT touched: removeAsksInternal(key), unReserveAllocatedAsk, cancelReservations per entry, the wait-timeout branch of
   tryReservedAllocate, preemption's cancellation *)
Definition r_cancel (s : ostate) (aid k : N) : ostate * N :=
  match find_app s aid with
  | None => (s, 0)
  | Some a =>
      match find (key_is k) (ap_reservations a) with
      | None => (s, 0)
      | Some p => let '(s1, num) := r_unreserve_internal s aid (fst p) k in
                  (r_queue_unreserve s1 (ap_queue a) aid num, num)
      end
  end.
(* PartitionContext.unReserve: Application.UnReserve, Queue.UnReserve, decReservationCount *)
Definition r_part_unreserve (s : ostate) (aid k : N) : ostate :=
  let '(s1, num) := r_cancel s aid k in add_nres s1 (- Z.of_N num).
(* removeAsksInternal(""): every reservation of the application, then ONE Queue.UnReserve with the total *)
Definition r_cancel_all (s : ostate) (a : oapp) : ostate :=
  let '(s1, tot) := fold_left (fun acc p => let '(s', n) := r_unreserve_internal (fst acc) (ap_id a) (fst p) (snd p) in (s', snd acc + n))
                              (ap_reservations a) (s, 0) in
  r_queue_unreserve s1 (ap_queue a) (ap_id a) tot.

(* ---------- Node.Reserve / Application.reserveInternal / PartitionContext.reserve ---------- *)
(* is the ask behind a reservation (app, key) listed by a node a required-node ask? None: the ask is not in the state *)
Definition res_required (s : ostate) (p : N * N) : option bool :=
  match find_ask s (fst p) (snd p) with Some x => Some (negb (oa_reqnode x =? 0)) | None => None end.
(* Node.Reserve: a normal reservation only on an unreserved node, a required-node one only next to required-node ones;
   the ask must fit the empty node *)
Definition r_node_reserve_ok (s : ostate) (n : onode) (ask : oalloc) : option bool :=
  if oa_reqnode ask =? 0 then Some (nilb (on_reservations n) && FitIn (Some (on_total n)) (Some (oa_res ask)))
  else if forallb (fun p => is_some (res_required s p)) (on_reservations n)
       then Some (forallb (fun p => match res_required s p with Some b => b | None => false end) (on_reservations n)
                  && FitIn (Some (on_total n)) (Some (oa_res ask)))
       else None.
(* PartitionContext.reserve for an ask that holds no reservation yet: Application.Reserve (canAllocationReserve,
   Node.Reserve), Queue.Reserve, incReservationCount; a refused reservation leaves everything unchanged *)
Definition r_part_reserve (s : ostate) (a : oapp) (n : onode) (ask : oalloc) : option ostate :=
  if oa_allocated ask then Some s else
  match r_node_reserve_ok s n ask with
  | None => None
  | Some false => Some s
  | Some true =>
      let s1 := upd_node s (on_id n) (fun m => n_set_res m (drop_key (oa_key ask) (on_reservations m) ++ [(ap_id a, oa_key ask)])) in
      let s2 := upd_app s1 (ap_id a) (fun b => ap_set_res b (ap_reservations b ++ [(on_id n, oa_key ask)])) in
      Some (add_nres (r_queue_reserve s2 (ap_queue a) (ap_id a)) 1)
  end.

(* ---------- the preempting ledger (all ancestors) ---------- *)
Definition q_inc_preempting (s : ostate) (leaf : N) (r : res) : ostate :=
  on_path s (path_ids s leaf) (fun q => q_set_preempting q (Add (Some (q_preempting q)) (Some r))).
Definition q_dec_preempting (s : ostate) (leaf : N) (r : res) : ostate :=
  on_path s (path_ids s leaf) (fun q => q_set_preempting q (Prune (Sub (Some (q_preempting q)) (Some r)))).

(* Allocation.MarkPreempted: the allocation object is shared by the request map, the allocation map and the node;
   the object is identified by (application, key) *)
Definition oa_mark (x : oalloc) : oalloc :=
  mkOA (oa_key x) (oa_app x) (oa_node x) (oa_res x) (oa_ph x) (oa_tg x) (oa_allocated x) (oa_released x) true
       (oa_release x) (oa_reqnode x) (oa_prio x) (oa_foreign x) (oa_orig x) (oa_preemptself x) (oa_preemptother x).
Definition mark_fn (aid k : N) (y : oalloc) : oalloc := if (oa_key y =? k) && (oa_app y =? aid) then oa_mark y else y.
Definition relabel (f : oalloc -> oalloc) (s : ostate) : ostate :=
  mkOS (map (fun n => n_with n (on_occupied n) (on_allocated n) (on_available n) (map f (on_allocs n)) (on_foreign n)) (s_nodes s))
       (map (fun a => ap_with a (ap_state a) (ap_pending a) (ap_allocated a) (ap_phalloc a) (map f (ap_requests a)) (map f (ap_allocs a))
                              (ap_statelog a)) (s_apps s))
       (s_queues s) (s_total s) (s_nallocs s) (s_nph s) (s_nres s) (s_foreign s) (s_completed s) (s_rejected s) (s_ugm s).
(* a victim announced by the step: allocated by its application, not released, not yet preempted; the object is
   marked and the victim's queue and all its ancestors count it as preempting *)
Definition m_mark_victim (s : ostate) (aid k : N) : option ostate :=
  match find_app s aid with
  | None => None
  | Some a =>
      match find_alloc (ap_allocs a) k with
      | None => None
      | Some x => if oa_released x || oa_preempted x then None
                  else Some (q_inc_preempting (relabel (mark_fn aid k) s) (ap_queue a) (oa_res x))
      end
  end.
Fixpoint m_mark_victims (s : ostate) (l : list (N * N)) : option ostate :=   (* (key, app) *)
  match l with
  | [] => Some s
  | p :: t => match m_mark_victim s (snd p) (fst p) with Some s1 => m_mark_victims s1 t | None => None end
  end.

(* ---------- tryNode + partition.allocate for a pending ask ---------- *)
(* Node.preAllocateCheck + preAllocateConditions *)
Definition try_node_guard (deny : list (N * N)) (n : onode) (ask : oalloc) : bool :=
  StrictlyGreaterThanZero (Some (oa_res ask))
  && (nilb (on_reservations n) || existsb (key_is (oa_key ask)) (on_reservations n))
  && FitIn (Some (on_available n)) (Some (oa_res ask))
  && negb (existsb (fun p => (fst p =? oa_key ask) && (snd p =? on_id n)) deny).
(* which code path can have picked node [n] for the ask:
   - the node the ask holds a reservation on: tryReservedAllocate, tryNode on reserve.node without any other test;
   - an ask with a required node: tryRequiredNode, tryNode on that node without any other test;
   - otherwise an iterator path (tryNodes / tryNodesNoReserve): the iterator yields unreserved nodes only, the node
     must be schedulable and the ask must fit the node at all *)
Definition sched_path_ok (a : oapp) (n : onode) (ask : oalloc) : bool :=
  if existsb (fun p => (fst p =? on_id n) && (snd p =? oa_key ask)) (ap_reservations a) then true
  else if negb (oa_reqnode ask =? 0) then oa_reqnode ask =? on_id n
  else on_sched n && FitIn (Some (on_total n)) (Some (oa_res ask)) && nilb (on_reservations n).
(* the ledger updates of tryNode + allocate, as in m_sched_alloc of Model.v *)
Definition m_bind (s : ostate) (a : oapp) (ask : oalloc) (n : onode) (nid : N) : option ostate :=
  match n_add n (oa_bound ask nid) false with
  | None => None
  | Some n' =>
      match q_try_inc s (ap_queue a) (oa_res ask) with
      | None => None
      | Some s1 =>
          let s2 := upd_node s1 nid (fun _ => n') in
          let s3 := q_dec_pending s2 (ap_queue a) (oa_res ask) in
          let a1 := ap_event a (fsm_run (ap_state a)) in
          let x := oa_bound ask nid in
          let a2 := ap_with a1 (ap_state a1) (Prune (Sub (Some (ap_pending a1)) (Some (oa_res ask))))
                            (Add (Some (ap_allocated a1)) (Some (oa_res ask))) (ap_phalloc a1)
                            (put_alloc x (ap_requests a1)) (put_alloc x (ap_allocs a1)) (ap_statelog a1) in
          Some (add_counts (upd_app s3 (ap_id a) (fun _ => a2)) 1 0)
      end
  end.
(* a scheduling decision (Allocated or AllocatedReserved): the reservation the ask holds - on this node or on another
   one - is removed through PartitionContext.unReserve *)
Definition m_sched_alloc4 (deny : list (N * N)) (s : ostate) (a : oapp) (k nid : N) : option ostate :=
  match find_alloc (ap_requests a) k, find_node s nid with
  | Some ask, Some n =>
      if oa_allocated ask || oa_ph ask then None else
      if negb (sched_path_ok a n ask && try_node_guard deny n ask) then None else
      match m_bind s a ask n nid with
      | None => None
      | Some s1 => Some (r_part_unreserve s1 (ap_id a) k)
      end
  | _, _ => None
  end.

(* ---------- the scheduling cycle ---------- *)
Definition res_triples (s : ostate) : list (N * N * N) :=      (* (application, node, key) *)
  flat_map (fun a => map (fun p => (ap_id a, fst p, snd p)) (ap_reservations a)) (s_apps s).
Definition trip_eqb (x y : N * N * N) : bool :=
  (fst (fst x) =? fst (fst y)) && (snd (fst x) =? snd (fst y)) && (snd x =? snd y).
Definition removed_res (pre post : ostate) : list (N * N * N) :=
  filter (fun t => negb (existsb (trip_eqb t) (res_triples post))) (res_triples pre).
Definition added_res (pre post : ostate) : list (N * N * N) :=
  filter (fun t => negb (existsb (trip_eqb t) (res_triples pre))) (res_triples post).
(* a reservation that was given up AND made again in the same cycle (wait timeout in tryReservedAllocate, then tryNodes
   reserves the same node for the ask again): invisible in the application view; the evidence is the preReserveConditions
   call - predicate call with allocate = false, answered yes - that tryNodes makes only for an ask that holds NO
   reservation at that moment *)
Definition rereserved (pre : ostate) (st : ostep) : list (N * N * N) :=
  filter (fun t => existsb (trip_eqb t) (res_triples (st_obs st)) &&
                   existsb (fun pc : opred => (fst (fst (fst pc)) =? snd t) && (snd (fst (fst pc)) =? snd (fst t)) && negb (snd (fst pc)) && snd pc) (st_preds st))
         (res_triples pre).
Definition sched_removed (pre : ostate) (st : ostep) : list (N * N * N) := removed_res pre (st_obs st) ++ rereserved pre st.
Definition sched_added (pre : ostate) (st : ostep) : list (N * N * N) := added_res pre (st_obs st) ++ rereserved pre st.
Definition new_allocs (evs : list oevent) : list (N * N * N * bool) :=    (* (key, app, node, placeholder) *)
  flat_map (fun e => match e with ENewAlloc k a n _ ph => [(k, a, n, ph)] | _ => [] end) evs.
Definition victims_of (evs : list oevent) : list (N * N) :=               (* (key, app) *)
  flat_map (fun e => match e with ERelease k a t => if t =? TT_Preempted then [(k, a)] else [] | _ => [] end) evs.

(* some application holds a pending ask that requires node [nid]: tryRequiredNode cancels every reservation on that node
   whose ask does not require it (Application.cancelReservations) *)
Definition req_trigger (s : ostate) (nid : N) : bool :=
  existsb (fun b => existsb (fun x => negb (oa_allocated x) && (oa_reqnode x =? nid)) (ap_requests b)) (s_apps s).

(* why a reservation (aid, nid, k) can have been given up in a cycle without its ask being allocated:
   1 the ask is gone or allocated: Unreserved result of tryReservedAllocate, PartitionContext.unReserve (counted);
   2 a pending ask that does not require a node, on a node some pending ask requires: cancelReservations, counted
     through AllocationResult.CancelledReservations - or, indistinguishable from the pre-state, 3;
   3 any other pending ask: wait timeout / preemption's cancellation, the partition counter is NOT decremented *)
Definition removal_kind (s0 : ostate) (t : N * N * N) : N :=
  match find_ask s0 (fst (fst t)) (snd t) with
  | None => 1
  | Some x => if oa_allocated x then 1
              else if (oa_reqnode x =? 0) && req_trigger s0 (snd (fst t)) then 2 else 3
  end.
(* [cnt]: removals of kind 2 are counted (cancelReservations) or not (wait timeout).
   [moved t]: the ask of the removed reservation is the one that gets a new reservation in this cycle and the cycle
   preempted: PartitionContext.reserve found the ask reserved on another node ("fixing reservations") and removed the old
   reservation through PartitionContext.unReserve (counted).  Only the preemptor returns a Reserved result for an ask
   that is reserved already (tryNodes reserves only when [reserved == nil], tryRequiredNode returns nil). *)
Definition m_cancel_one (s0 : ostate) (cnt : bool) (moved : N * N * N -> bool) (s : ostate) (t : N * N * N) : ostate :=
  let k := removal_kind s0 t in
  if (k =? 1) || ((k =? 2) && cnt) || moved t then r_part_unreserve s (fst (fst t)) (snd t) else fst (r_cancel s (fst (fst t)) (snd t)).
Definition m_cancel_phase (s0 : ostate) (cnt : bool) (moved : N * N * N -> bool) (l : list (N * N * N)) : ostate :=
  fold_left (m_cancel_one s0 cnt moved) l s0.
Definition is_moved (add : list (N * N * N)) (t : N * N * N) : bool :=
  existsb (fun u => (fst (fst u) =? fst (fst t)) && (snd u =? snd t)) add.

(* a Reserved result: which node, for which ask.  Decision paths: tryRequiredNode (the required node itself, no other
   test), tryNodes (schedulable node the ask fits at all, preReserveConditions = the predicate table), preemption
   (schedulable, fits at all; no predicate call).  Then PartitionContext.reserve. *)
Definition m_reserve4 (deny : list (N * N)) (s : ostate) (preempting : bool) (aid nid k : N) : option ostate :=
  match find_app s aid, find_node s nid with
  | Some a, Some n =>
      match find_alloc (ap_requests a) k with
      | None => None
      | Some ask =>
          if existsb (key_is k) (ap_reservations a) then None else
          if negb (if negb (oa_reqnode ask =? 0) then oa_reqnode ask =? nid
                   else on_sched n && FitIn (Some (on_total n)) (Some (oa_res ask))
                        && (preempting || negb (existsb (fun p => (fst p =? k) && (snd p =? nid)) deny))) then None
          else r_part_reserve s a n ask
      end
  | _, _ => None
  end.

Definition m_sched_with (deny : list (N * N)) (s : ostate) (st : ostep) (cnt fx : bool) : option ostate :=
  let o := st_obs st in
  let evs := st_events st in
  if existsb (fun e => match e with ERelease _ _ t => negb (t =? TT_Preempted) | _ => false end) evs then None else
  let nas := new_allocs evs in
  let rem := sched_removed s st in
  let add := sched_added s st in
  (* one result per cycle; placeholder allocations belong to the gang fragment *)
  if (1 <? N.of_nat (length nas)) || existsb (fun x => snd x) nas || (1 <? N.of_nat (length add))
     || (negb (nilb nas) && negb (nilb add)) then None else
  (* at most one Unreserved result per cycle *)
  if 1 <? N.of_nat (length (filter (fun t => removal_kind s t =? 1) rem)) then None else
  let is_alloc t := existsb (fun x => (fst (fst (fst x)) =? snd t) && (snd (fst (fst x)) =? fst (fst t))) nas in
  (* 1. reservations given up without an allocation *)
  let s1 := m_cancel_phase s cnt (fun t => fx && negb (nilb (victims_of evs)) && is_moved add t) (filter (fun t => negb (is_alloc t)) rem) in
  (* 2. victims *)
  match m_mark_victims s1 (victims_of evs) with
  | None => None
  | Some s2 =>
      (* 3. the allocation *)
      match (match nas with
             | [(k, aid, nid, _)] => match find_app s2 aid with Some a => m_sched_alloc4 deny s2 a k nid | None => None end
             | _ => Some s2 end) with
      | None => None
      | Some s3 =>
          (* 4. the reservation *)
          match add with
          | [t] => m_reserve4 deny s3 (negb (nilb (victims_of evs))) (fst (fst t)) (snd (fst t)) (snd t)
          | _ => Some s3
          end
      end
  end.

(* which of the admitted alternatives happened (kind 2 counted or not, old reservation of a moved ask counted or not) is
   resolved with the observed partition counter: the alternatives differ in nothing but that counter *)
Definition pick_nres (target : Z) (l : list (option ostate)) (dflt : ostate) : ostate :=
  match find (fun o => match o with Some r => Z.eqb (s_nres r) target | None => false end) l with
  | Some (Some r) => r
  | _ => dflt
  end.
Definition m_sched4 (deny : list (N * N)) (s : ostate) (st : ostep) : option ostate :=
  match m_sched_with deny s st true false with
  | None => None
  | Some r0 => Some (pick_nres (s_nres (st_obs st))
                               [Some r0; m_sched_with deny s st false false; m_sched_with deny s st true true; m_sched_with deny s st false true] r0)
  end.

(* ---------- releases ---------- *)
(* removeAllocation for a bound allocation: the frozen ledger function, then DecPreemptingResource for a preempted
   allocation, then RemoveAllocationAsk(key) removes a reservation stored under the key *)
Definition m_release_alloc4 (s : ostate) (a : oapp) (x : oalloc) (ttype : N) : option ostate :=
  match m_release_alloc (hide_res s (ap_id a)) (ap_set_res a []) x ttype with
  | None => None
  | Some s1 =>
      let s2 := show_res s1 (ap_id a) (ap_reservations a) in
      let s3 := if oa_preempted x && StrictlyGreaterThanZero (Some (oa_res x)) then q_dec_preempting s2 (ap_queue a) (oa_res x) else s2 in
      Some (if ttype =? TT_Timeout then s3 else fst (r_cancel s3 (ap_id a) (oa_key x)))
  end.
(* removeAsksInternal(key) for a pending ask: its reservation first *)
Definition m_release_ask4 (s : ostate) (a : oapp) (x : oalloc) : option ostate :=
  let s1 := fst (r_cancel s (ap_id a) (oa_key x)) in
  match find_app s1 (ap_id a) with
  | None => None
  | Some a1 =>
      match m_release_ask (hide_res s1 (ap_id a)) (ap_set_res a1 []) x with
      | None => None
      | Some s2 => Some (show_res s2 (ap_id a) (ap_reservations a1))
      end
  end.

(* the state check at the end of removeAsksInternal *)
Definition ask_state_check (s : ostate) (aid : N) : ostate :=
  upd_app s aid (fun b =>
    if IsZero (Some (ap_pending b)) && IsZero (Some (ap_allocated b)) && negb (ap_state b =? ST_Failing)
       && negb (ap_state b =? ST_Completing) && negb (existsb oa_ph (ap_allocs b))
    then ap_event b (fsm_complete (ap_state b)) else b).
(* removeAsksInternal(""): nothing at all when the application has no requests *)
Definition m_remove_all_asks4 (s : ostate) (aid : N) : ostate :=
  match find_app s aid with
  | None => s
  | Some a =>
      if nilb (ap_requests a) then s else
      let s1 := r_cancel_all s a in
      let s2 := upd_app s1 aid (fun b => ap_with b (ap_state b) [] (ap_allocated b) (ap_phalloc b) [] (ap_allocs b) (ap_statelog b)) in
      ask_state_check (q_dec_pending s2 (ap_queue a) (ap_pending a)) aid
  end.

Definition alloc_on_node (s : ostate) (x : oalloc) : bool :=
  match find_node s (oa_node x) with
  | Some n => is_some (find_alloc (on_allocs n) (oa_key x)) || is_some (find_alloc (on_foreign n) (oa_key x))
  | None => false
  end.
(* removeAllocation with an empty allocation key: RemoveAllAllocations, every allocation leaves its node, the queues
   are decreased by the total of what the nodes really listed, preempting by what was marked; then (unless TIMEOUT)
   RemoveAllocationAsk("") *)
Definition m_release_all4 (s : ostate) (a : oapp) (ttype : N) : option ostate :=
  if negb (plain_allocs a) then None else
  let a1 := ap_event a (if IsZero (Some (ap_pending a)) then fsm_complete (ap_state a) else ap_state a) in
  let a2 := ap_with a1 (ap_state a1) (ap_pending a1) [] [] (ap_requests a1) [] (ap_statelog a1) in
  let s1 := upd_app s (ap_id a) (fun _ => a2) in
  let total := fold_left (fun t x => if alloc_on_node s x then addTo t (oa_res x) else t) (ap_allocs a) [] in
  let totalp := fold_left (fun t x => if is_some (find_node s (oa_node x)) && oa_preempted x then addTo t (oa_res x) else t) (ap_allocs a) [] in
  let s2 := remove_allocs_from_nodes s1 (ap_allocs a) in
  let s3 := if StrictlyGreaterThanZero (Some total) then q_dec s2 (ap_queue a) total else s2 in
  let s4 := if StrictlyGreaterThanZero (Some totalp) then q_dec_preempting s3 (ap_queue a) totalp else s3 in
  let s5 := add_counts s4 (- Z.of_nat (length (ap_allocs a))) 0 in
  Some (if ttype =? TT_Timeout then s5 else m_remove_all_asks4 s5 (ap_id a)).

Definition m_release4 (s : ostate) (app key ttype : N) : option ostate :=
  if app =? 0 then None else           (* foreign allocations: Model.v *)
  match find_app s app with
  | None => None
  | Some a =>
      (* PLACEHOLDER_REPLACED for an allocation that is no placeholder and has no replacement linked is a plain removal
         (Application.ReplaceAllocation returns the allocation itself); placeholders and linked allocations are
         refused by [m_release_alloc] / [plain_allocs] *)
      if key =? 0 then m_release_all4 s a ttype else
      match find_alloc (ap_allocs a) key with
      | Some x => m_release_alloc4 s a x ttype
      | None =>
          match find_alloc (ap_requests a) key with
          | Some x => if ttype =? TT_Timeout then Some s else m_release_ask4 s a x
          | None => Some s
          end
      end
  end.

(* ---------- removeApplication ---------- *)
Definition m_app_remove4 (s : ostate) (id : N) : option ostate :=
  match find_app s id with
  | None => Some s
  | Some a =>
      if negb (plain_allocs a) then None else
      (* RemoveAllocationAsk(""): the reservations (pending is handled by the frozen function) *)
      let s1 := if nilb (ap_requests a) then s else r_cancel_all s a in
      (* Queue.RemoveApplication: what the application's allocations count as preempting *)
      let pre := fold_left (fun t x => if oa_preempted x then addTo t (oa_res x) else t) (ap_allocs a) [] in
      let s2 := if IsZero (Some pre) then s1 else q_dec_preempting s1 (ap_queue a) pre in
      m_app_remove (hide_res s2 id) id
  end.

(* ---------- removeNode ---------- *)
Definition m_node_remove4 (s : ostate) (id : N) : option ostate :=
  match find_node s id with
  | None => Some s
  | Some n =>
      if negb (forallb (fun p => is_some (find_app s (fst p))) (on_reservations n)) then None else
      (* PartitionContext.unReserve for every reservation of the node *)
      let s1 := fold_left (fun acc p => r_part_unreserve acc (fst p) (snd p)) (on_reservations n) s in
      (* removeNodeAllocations: DecPreemptingResource for every removed allocation that was marked *)
      let s2 := fold_left (fun acc x =>
                  match find_app acc (oa_app x) with
                  | Some a => if oa_preempted x && is_some (find_alloc (ap_allocs a) (oa_key x))
                              then q_dec_preempting acc (ap_queue a) (oa_res x) else acc
                  | None => acc end) (on_allocs n) s1 in
      m_node_remove (upd_node s2 id (fun m => n_set_res m [])) id
  end.

(* ---------- UpdateAllocation for a key the application already holds ---------- *)
Definition m_alloc4 (s : ostate) (r : oreq) : option ostate :=
  if negb (rq_partition_ok r) || rq_foreign r then None else
  match find_app s (rq_app r) with
  | None => None
  | Some a =>
      if negb (rq_node r =? 0) && match find_node s (rq_node r) with None => true | _ => false end then None else
      if IsZero (rq_res r) || negb (StrictlyGreaterThanZero (rq_res r)) then None else
      match find_alloc (ap_requests a) (rq_key r) with
      | None => None
      | Some x =>
          match m_update_existing (hide_res s (ap_id a)) (ap_set_res a []) x r with
          | None => None
          | Some s1 =>
              let s2 := show_res s1 (ap_id a) (ap_reservations a) in
              (* AllocateAsk -> unReserveAllocatedAsk when the shim placed a pending ask *)
              Some (if negb (oa_allocated x) && negb (rq_node r =? 0) then fst (r_cancel s2 (ap_id a) (rq_key r)) else s2)
          end
      end
  end.

(* ---------- the step ---------- *)
Definition m_step_resv (deny : list (N * N)) (s : ostate) (st : ostep) : option ostate :=
  if st_panic st then None else
  match known_trigger s st with
  | Some _ => None
  | None =>
      match st_op st with
      | OpSched => m_sched4 deny s st
      | OpRelease app key ttype => m_release4 s app key ttype
      | OpAppRemove id => m_app_remove4 s id
      | OpNodeRemove id => m_node_remove4 s id
      | OpAlloc r => m_alloc4 s r
      | _ => None
      end
  end.

Definition m_step4 (deny : list (N * N)) (s : ostate) (st : ostep) : option ostate :=
  match m_step2 deny s st with
  | Some r => Some r
  | None => m_step_resv deny s st
  end.
