(* C09 bridge, part 4: two fields along the steps of the operational model.
   [cn s = (s_completed s, s_nres s)]: no function of Core/Model.v and Core/Model2.v writes the completed list or the partition
   reservation counter; no function of Core/Model4.v writes the completed list.  Hence the side condition [ComplClean]
   (completed applications hold no reservation: the C09 oracle collects the application view over [s_apps ++ s_completed]) is kept
   by every step of [m_step4] - the model does not move terminated applications to the completed list at all
   ([m_fire_state] drops them), so the list is the one of the initial state. *)
From Coq Require Import List ZArith NArith Bool Lia ZifyBool.
From YK Require Import Base.Int64 Base.Res Core.Obs Core.Model Core.Model2 Core.Ledger Core.Model4 Core.StepProofs.
Import ListNotations.
Open Scope N_scope.
Set Default Timeout 60.

Definition cn (s : ostate) : list oapp * Z := (s_completed s, s_nres s).

(* case analysis of a hypothesis [f ... = Some s'] down to its leaves *)
Ltac crush H :=
  cbv zeta in H;
  repeat match type of H with
  | Some _ = Some _ => apply Some_inj in H
  | None = Some _ => discriminate H
  | (match ?x with _ => _ end) = _ => destruct x eqn:?
  end.

(* ------------------------------------------------------------------ Core/Model.v *)
Lemma cn_upd_node s id f : cn (upd_node s id f) = cn s. Proof. reflexivity. Qed.
Lemma cn_upd_app s id f : cn (upd_app s id f) = cn s. Proof. reflexivity. Qed.
Lemma cn_upd_queues s f : cn (upd_queues s f) = cn s. Proof. reflexivity. Qed.
Lemma cn_set_nodes s l : cn (set_nodes s l) = cn s. Proof. reflexivity. Qed.
Lemma cn_set_apps s l : cn (set_apps s l) = cn s. Proof. reflexivity. Qed.
Lemma cn_set_total s t : cn (set_total s t) = cn s. Proof. reflexivity. Qed.
Lemma cn_set_foreign s l : cn (set_foreign s l) = cn s. Proof. reflexivity. Qed.
Lemma cn_add_counts s a b : cn (add_counts s a b) = cn s. Proof. reflexivity. Qed.
Lemma cn_on_path s p f : cn (on_path s p f) = cn s. Proof. reflexivity. Qed.
Lemma cn_q_inc s l r : cn (q_inc s l r) = cn s. Proof. reflexivity. Qed.
Lemma cn_q_dec s l r : cn (q_dec s l r) = cn s. Proof. unfold q_dec. destruct (forallb _ _); reflexivity. Qed.
Lemma cn_q_inc_pending s l r : cn (q_inc_pending s l r) = cn s. Proof. reflexivity. Qed.
Lemma cn_q_dec_pending s l r : cn (q_dec_pending s l r) = cn s. Proof. reflexivity. Qed.
Lemma cn_part_update_total s d : cn (part_update_total s d) = cn s. Proof. reflexivity. Qed.
Lemma cn_m_new_ask s a x : cn (m_new_ask s a x) = cn s. Proof. reflexivity. Qed.
#[export] Hint Rewrite cn_upd_node cn_upd_app cn_upd_queues cn_set_nodes cn_set_apps cn_set_total cn_set_foreign cn_add_counts cn_on_path
  cn_q_inc cn_q_dec cn_q_inc_pending cn_q_dec_pending cn_part_update_total cn_m_new_ask : cn.

Ltac gsplit := repeat (autorewrite with cn in *; try reflexivity; try congruence;
  match goal with |- context [match ?x with _ => _ end] => destruct x end).
Ltac fin H := crush H; subst; gsplit; autorewrite with cn in *; try reflexivity; try congruence.

Lemma cn_q_try_inc s l r s' : q_try_inc s l r = Some s' -> cn s' = cn s.
Proof. unfold q_try_inc. intros H. fin H. Qed.
Lemma cn_m_node_add s id cap d s' : m_node_add s id cap d = Some s' -> cn s' = cn s.
Proof. unfold m_node_add. intros H. fin H. Qed.
Lemma cn_m_node_update s id cap s' : m_node_update s id cap = Some s' -> cn s' = cn s.
Proof. unfold m_node_update. intros H. fin H. Qed.
Lemma cn_m_node_sched s id b s' : m_node_sched s id b = Some s' -> cn s' = cn s.
Proof. unfold m_node_sched. intros H. fin H. Qed.
Lemma cn_m_recovered s a n x s' : m_recovered s a n x = Some s' -> cn s' = cn s.
Proof. unfold m_recovered. intros H. fin H. Qed.
Lemma cn_m_sched_alloc deny s a k nid s' : m_sched_alloc deny s a k nid = Some s' -> cn s' = cn s.
Proof. unfold m_sched_alloc. intros H. crush H; subst; autorewrite with cn; try reflexivity.
  match goal with E : q_try_inc _ _ _ = Some _ |- _ => apply cn_q_try_inc in E; exact E end. Qed.
Lemma cn_m_release_alloc s a x t s' : m_release_alloc s a x t = Some s' -> cn s' = cn s.
Proof. unfold m_release_alloc. intros H. fin H. Qed.
Lemma cn_m_release_ask s a x s' : m_release_ask s a x = Some s' -> cn s' = cn s.
Proof. unfold m_release_ask. intros H. fin H. Qed.
Lemma cn_m_alloc s r s' : m_alloc s r = Some s' -> cn s' = cn s.
Proof. unfold m_alloc. intros H. crush H; subst; autorewrite with cn; try reflexivity.
  match goal with E : m_recovered _ _ _ _ = Some _ |- _ => apply cn_m_recovered in E; exact E end. Qed.
Lemma cn_m_release s app key t s' : m_release s app key t = Some s' -> cn s' = cn s.
Proof. unfold m_release. intros H. crush H; subst; autorewrite with cn; try reflexivity.
  - eapply cn_m_release_alloc; eassumption.
  - eapply cn_m_release_ask; eassumption. Qed.
Lemma cn_m_step deny s st s' : m_step deny s st = Some s' -> cn s' = cn s.
Proof. unfold m_step. intros H. destruct (st_panic st); [discriminate|]. destruct (st_op st); try discriminate.
  - eapply cn_m_node_add; eassumption.
  - eapply cn_m_node_update; eassumption.
  - eapply cn_m_node_sched; eassumption.
  - eapply cn_m_node_sched; eassumption.
  - eapply cn_m_alloc; eassumption.
  - eapply cn_m_release; eassumption.
  - crush H; subst; try reflexivity. eapply cn_m_sched_alloc; eassumption. Qed.

(* ------------------------------------------------------------------ Core/Model2.v *)
Lemma cn_remove_allocs_from_nodes l : forall s, cn (remove_allocs_from_nodes s l) = cn s.
Proof. induction l as [|x t IH]; intros s; [reflexivity|]. cbn [remove_allocs_from_nodes]. rewrite IH. destruct (find_node s (oa_node x)); reflexivity. Qed.
Lemma cn_remove_node_allocs l : forall s, cn (fst (remove_node_allocs s l)) = cn s.
Proof. induction l as [|x t IH]; intros s; [reflexivity|]. cbn [remove_node_allocs]. destruct (find_app s (oa_app x)) as [a|]; [|apply IH].
  destruct (find_alloc (ap_allocs a) (oa_key x)); [|apply IH]. cbv zeta.
  match goal with |- context [remove_node_allocs ?S t] => specialize (IH S); destruct (remove_node_allocs S t) as [s3 n] end.
  cbn [fst] in *. rewrite IH. autorewrite with cn. reflexivity. Qed.
#[export] Hint Rewrite cn_remove_allocs_from_nodes : cn.

Lemma cn_m_app_add s id q u f ng ph tm tx s' : m_app_add s id q u f ng ph tm tx = Some s' -> cn s' = cn s.
Proof. unfold m_app_add. intros H. fin H. Qed.
Lemma cn_m_app_remove s id s' : m_app_remove s id = Some s' -> cn s' = cn s.
Proof. unfold m_app_remove. intros H. fin H. Qed.
Lemma cn_m_node_remove s id s' : m_node_remove s id = Some s' -> cn s' = cn s.
Proof. unfold m_node_remove. intros H. crush H; subst; autorewrite with cn; try reflexivity.
  match goal with E : remove_node_allocs ?S ?L = (?s1, _) |- _ => pose proof (cn_remove_node_allocs L S) as X; rewrite E in X; cbn [fst] in X; rewrite X end.
  autorewrite with cn. reflexivity. Qed.
Lemma cn_m_fire_state s id s' : m_fire_state s id = Some s' -> cn s' = cn s.
Proof. unfold m_fire_state. intros H. fin H. Qed.
Lemma cn_m_update_existing s a x r s' : m_update_existing s a x r = Some s' -> cn s' = cn s.
Proof. unfold m_update_existing. intros H. cbv zeta in H.
  match type of H with (if ?c then _ else _) = _ => destruct c; [discriminate|] end.
  match type of H with (if ?c then _ else _) = _ => destruct c; [apply Some_inj in H; subst; reflexivity|] end.
  match type of H with context [find_app ?S1 (ap_id a)] => set (s1 := S1) in *; assert (E1 : cn s1 = cn s) end.
  { unfold s1. repeat match goal with |- context [if ?c then _ else _] => destruct c end;
      repeat match goal with |- context [match ?x with _ => _ end] => destruct x end; autorewrite with cn; reflexivity. }
  clearbody s1. crush H; subst; autorewrite with cn; auto. Qed.
Lemma cn_m_alloc2 s r s' : m_alloc2 s r = Some s' -> cn s' = cn s.
Proof. unfold m_alloc2. intros H. crush H. eapply cn_m_update_existing; eassumption. Qed.
Lemma cn_m_step2 deny s st s' : m_step2 deny s st = Some s' -> cn s' = cn s.
Proof. unfold m_step2. intros H. destruct (m_step deny s st) as [r|] eqn:E; [apply Some_inj in H; subst r; eapply cn_m_step; eassumption|].
  destruct (st_panic st); [discriminate|]. destruct (st_op st); try discriminate.
  - eapply cn_m_node_remove; eassumption.
  - eapply cn_m_app_add; eassumption.
  - eapply cn_m_app_remove; eassumption.
  - eapply cn_m_alloc2; eassumption.
  - crush H; subst; reflexivity.
  - eapply cn_m_fire_state; eassumption. Qed.

(* ------------------------------------------------------------------ Core/Model4.v: the completed list *)
Definition cp (s : ostate) : list oapp := s_completed s.
Lemma cp_of_cn s s' : cn s' = cn s -> cp s' = cp s.
Proof. unfold cn, cp. intros H. inversion H. reflexivity. Qed.

Lemma cp_upd_node s id f : cp (upd_node s id f) = cp s. Proof. reflexivity. Qed.
Lemma cp_upd_app s id f : cp (upd_app s id f) = cp s. Proof. reflexivity. Qed.
Lemma cp_upd_queues s f : cp (upd_queues s f) = cp s. Proof. reflexivity. Qed.
Lemma cp_add_counts s a b : cp (add_counts s a b) = cp s. Proof. reflexivity. Qed.
Lemma cp_on_path s p f : cp (on_path s p f) = cp s. Proof. reflexivity. Qed.
Lemma cp_q_dec s l r : cp (q_dec s l r) = cp s. Proof. apply cp_of_cn. apply cn_q_dec. Qed.
Lemma cp_q_dec_pending s l r : cp (q_dec_pending s l r) = cp s. Proof. reflexivity. Qed.
Lemma cp_remove_allocs_from_nodes l s : cp (remove_allocs_from_nodes s l) = cp s. Proof. apply cp_of_cn. apply cn_remove_allocs_from_nodes. Qed.
Lemma cp_add_nres s d : cp (add_nres s d) = cp s. Proof. reflexivity. Qed.
Lemma cp_hide_res s id : cp (hide_res s id) = cp s. Proof. reflexivity. Qed.
Lemma cp_show_res s id l : cp (show_res s id l) = cp s. Proof. reflexivity. Qed.
Lemma cp_r_queue_reserve s q a : cp (r_queue_reserve s q a) = cp s. Proof. reflexivity. Qed.
Lemma cp_r_queue_unreserve s q a n : cp (r_queue_unreserve s q a n) = cp s. Proof. reflexivity. Qed.
Lemma cp_q_inc_preempting s l r : cp (q_inc_preempting s l r) = cp s. Proof. reflexivity. Qed.
Lemma cp_q_dec_preempting s l r : cp (q_dec_preempting s l r) = cp s. Proof. reflexivity. Qed.
Lemma cp_relabel f s : cp (relabel f s) = cp s. Proof. reflexivity. Qed.
Lemma cp_ask_state_check s id : cp (ask_state_check s id) = cp s. Proof. reflexivity. Qed.
Lemma cp_r_unreserve_internal s aid nid k : cp (fst (r_unreserve_internal s aid nid k)) = cp s.
Proof. unfold r_unreserve_internal. cbv zeta. destruct (find_app _ aid) as [a|]; [destruct (existsb _ _)|]; reflexivity. Qed.
#[export] Hint Rewrite cp_upd_node cp_upd_app cp_upd_queues cp_add_counts cp_on_path cp_q_dec cp_q_dec_pending cp_remove_allocs_from_nodes cp_add_nres
  cp_hide_res cp_show_res cp_r_queue_reserve cp_r_queue_unreserve cp_q_inc_preempting cp_q_dec_preempting cp_relabel cp_ask_state_check
  cp_r_unreserve_internal : cp.
Lemma cp_r_cancel s aid k : cp (fst (r_cancel s aid k)) = cp s.
Proof. unfold r_cancel. destruct (find_app s aid) as [a|]; [|reflexivity]. destruct (find _ (ap_reservations a)) as [p|]; [|reflexivity].
  pose proof (cp_r_unreserve_internal s aid (fst p) k) as X. destruct (r_unreserve_internal s aid (fst p) k) as [s1 num]. cbn [fst] in *.
  autorewrite with cp. exact X. Qed.
Lemma cp_r_part_unreserve s aid k : cp (r_part_unreserve s aid k) = cp s.
Proof. unfold r_part_unreserve. pose proof (cp_r_cancel s aid k) as X. destruct (r_cancel s aid k) as [s1 num]. cbn [fst] in X. autorewrite with cp. exact X. Qed.
Lemma cp_r_cancel_all s a : cp (r_cancel_all s a) = cp s.
Proof. unfold r_cancel_all.
  assert (G : forall l acc, cp (fst (fold_left (fun acc p => let '(s', n) := r_unreserve_internal (fst acc) (ap_id a) (fst p) (snd p) in (s', snd acc + n)) l acc)) = cp (fst acc)).
  { induction l as [|p t IH]; intros acc; [reflexivity|]. cbn [fold_left]. rewrite IH.
    pose proof (cp_r_unreserve_internal (fst acc) (ap_id a) (fst p) (snd p)) as X. destruct (r_unreserve_internal _ _ _ _) as [s1 n]. exact X. }
  specialize (G (ap_reservations a) (s, 0)). destruct (fold_left _ _ _) as [s1 tot]. cbn [fst] in G. autorewrite with cp. exact G. Qed.
#[export] Hint Rewrite cp_r_cancel cp_r_part_unreserve cp_r_cancel_all : cp.
Lemma cp_m_cancel_one s0 cnt mv s t : cp (m_cancel_one s0 cnt mv s t) = cp s.
Proof. unfold m_cancel_one. cbv zeta. destruct (_ || _ || _); autorewrite with cp; reflexivity. Qed.
Lemma cp_m_cancel_phase s0 cnt mv l : cp (m_cancel_phase s0 cnt mv l) = cp s0.
Proof. unfold m_cancel_phase. generalize s0 at 2 3. induction l as [|t u IH]; intros s; [reflexivity|]. cbn [fold_left]. rewrite IH. apply cp_m_cancel_one. Qed.
Lemma cp_m_remove_all_asks4 s aid : cp (m_remove_all_asks4 s aid) = cp s.
Proof. unfold m_remove_all_asks4. destruct (find_app s aid) as [a|]; [|reflexivity]. destruct (nilb _); [reflexivity|]. autorewrite with cp. reflexivity. Qed.
#[export] Hint Rewrite cp_m_cancel_one cp_m_cancel_phase cp_m_remove_all_asks4 : cp.

Ltac gsplitp := repeat (autorewrite with cp in *; try reflexivity; try congruence;
  match goal with |- context [match ?x with _ => _ end] => destruct x end).
Ltac finp H := crush H; subst; gsplitp; autorewrite with cp in *; try reflexivity; try congruence.

Lemma cp_r_part_reserve s a n ask s' : r_part_reserve s a n ask = Some s' -> cp s' = cp s.
Proof. unfold r_part_reserve. intros H. finp H. Qed.
Lemma cp_m_mark_victim s aid k s' : m_mark_victim s aid k = Some s' -> cp s' = cp s.
Proof. unfold m_mark_victim. intros H. finp H. Qed.
Lemma cp_m_mark_victims l : forall s s', m_mark_victims s l = Some s' -> cp s' = cp s.
Proof. induction l as [|p t IH]; intros s s' H; cbn [m_mark_victims] in H; [apply Some_inj in H; subst; reflexivity|].
  destruct (m_mark_victim s (snd p) (fst p)) as [s1|] eqn:E; [|discriminate]. rewrite (IH _ _ H). eapply cp_m_mark_victim; eassumption. Qed.
Lemma cp_m_bind s a ask n nid s' : m_bind s a ask n nid = Some s' -> cp s' = cp s.
Proof. unfold m_bind. intros H. crush H; subst; autorewrite with cp.
  match goal with E : q_try_inc _ _ _ = Some _ |- _ => apply cn_q_try_inc, cp_of_cn in E; exact E end. Qed.
Lemma cp_m_sched_alloc4 deny s a k nid s' : m_sched_alloc4 deny s a k nid = Some s' -> cp s' = cp s.
Proof. unfold m_sched_alloc4. intros H. crush H; subst; autorewrite with cp. eapply cp_m_bind; eassumption. Qed.
Lemma cp_m_reserve4 deny s pre aid nid k s' : m_reserve4 deny s pre aid nid k = Some s' -> cp s' = cp s.
Proof. unfold m_reserve4. intros H. crush H. eapply cp_r_part_reserve; eassumption. Qed.
Lemma cp_m_sched_with deny s st cnt fx s' : m_sched_with deny s st cnt fx = Some s' -> cp s' = cp s.
Proof. unfold m_sched_with. intros H. cbv zeta in H.
  destruct (existsb _ (st_events st)); [discriminate|]. destruct (_ || _ || _ || _); [discriminate|]. destruct (1 <? _); [discriminate|].
  destruct (m_mark_victims _ _) as [s2|] eqn:E2; [|discriminate]. apply cp_m_mark_victims in E2. rewrite cp_m_cancel_phase in E2.
  match type of H with match ?X with _ => _ end = _ => destruct X as [s3|] eqn:E3; [|discriminate] end.
  assert (X3 : cp s3 = cp s2).
  { destruct (new_allocs (st_events st)) as [|[[[k aid] nid] ph] [|? ?]]; try (apply Some_inj in E3; subst; reflexivity).
    destruct (find_app s2 aid) as [a|]; [|discriminate]. eapply cp_m_sched_alloc4; eassumption. }
  destruct (sched_added s st) as [|t [|? ?]]; try (apply Some_inj in H; subst; congruence).
  apply cp_m_reserve4 in H. congruence. Qed.
Lemma cp_pick_nres target l dflt s : cp dflt = cp s -> (forall r, In (Some r) l -> cp r = cp s) -> cp (pick_nres target l dflt) = cp s.
Proof. intros Hd Hl. unfold pick_nres. destruct (find _ l) as [[r|]|] eqn:E; auto. apply find_some in E. destruct E as [E _]. auto. Qed.
Lemma cp_m_sched4 deny s st s' : m_sched4 deny s st = Some s' -> cp s' = cp s.
Proof. unfold m_sched4. intros H. destruct (m_sched_with deny s st true false) as [r0|] eqn:E0; [|discriminate]. apply Some_inj in H. subst s'.
  apply cp_pick_nres; [eapply cp_m_sched_with; eassumption|]. intros r Hr.
  destruct Hr as [Hr|[Hr|[Hr|[Hr|[]]]]]; [apply Some_inj in Hr; subst r; eapply cp_m_sched_with; eassumption| | |]; eapply cp_m_sched_with; eassumption. Qed.
Lemma cp_m_release_alloc4 s a x t s' : m_release_alloc4 s a x t = Some s' -> cp s' = cp s.
Proof. unfold m_release_alloc4. intros H. destruct (m_release_alloc _ _ x t) as [s1|] eqn:E; [|discriminate]. apply cn_m_release_alloc, cp_of_cn in E.
  apply Some_inj in H. subst s'. gsplitp; autorewrite with cp in *; congruence. Qed.
Lemma cp_m_release_ask4 s a x s' : m_release_ask4 s a x = Some s' -> cp s' = cp s.
Proof. unfold m_release_ask4. intros H. cbv zeta in H. destruct (find_app _ (ap_id a)) as [a1|]; [|discriminate].
  destruct (m_release_ask _ _ x) as [s2|] eqn:E; [|discriminate]. apply cn_m_release_ask, cp_of_cn in E. apply Some_inj in H. subst s'.
  autorewrite with cp in *. exact E. Qed.
Lemma cp_m_release_all4 s a t s' : m_release_all4 s a t = Some s' -> cp s' = cp s.
Proof. unfold m_release_all4. intros H. destruct (negb (plain_allocs a)); [discriminate|]. cbv zeta in H. apply Some_inj in H. subst s'. gsplitp. Qed.
Lemma cp_m_release4 s app key t s' : m_release4 s app key t = Some s' -> cp s' = cp s.
Proof. unfold m_release4. intros H. crush H; subst; try reflexivity.
  - eapply cp_m_release_all4; eassumption.
  - eapply cp_m_release_alloc4; eassumption.
  - eapply cp_m_release_ask4; eassumption. Qed.
Lemma cp_m_app_remove4 s id s' : m_app_remove4 s id = Some s' -> cp s' = cp s.
Proof. unfold m_app_remove4. intros H. destruct (find_app s id) as [a|]; [|apply Some_inj in H; subst; reflexivity].
  destruct (negb (plain_allocs a)); [discriminate|]. cbv zeta in H. apply cn_m_app_remove, cp_of_cn in H. rewrite H. gsplitp. Qed.
Lemma cp_m_node_remove4 s id s' : m_node_remove4 s id = Some s' -> cp s' = cp s.
Proof. unfold m_node_remove4. intros H. destruct (find_node s id) as [n|]; [|apply Some_inj in H; subst; reflexivity].
  destruct (negb _); [discriminate|]. cbv zeta in H. apply cn_m_node_remove, cp_of_cn in H. rewrite H. autorewrite with cp.
  assert (G2 : forall l acc, cp (fold_left (fun acc x => match find_app acc (oa_app x) with
                  | Some a => if oa_preempted x && is_some (find_alloc (ap_allocs a) (oa_key x)) then q_dec_preempting acc (ap_queue a) (oa_res x) else acc
                  | None => acc end) l acc) = cp acc).
  { induction l as [|x t IH]; intros acc; [reflexivity|]. cbn [fold_left]. rewrite IH. gsplitp. }
  rewrite G2.
  assert (G1 : forall l acc, cp (fold_left (fun acc p => r_part_unreserve acc (fst p) (snd p)) l acc) = cp acc).
  { induction l as [|x t IH]; intros acc; [reflexivity|]. cbn [fold_left]. rewrite IH. autorewrite with cp. reflexivity. }
  apply G1. Qed.
Lemma cp_m_alloc4 s r s' : m_alloc4 s r = Some s' -> cp s' = cp s.
Proof. unfold m_alloc4. intros H. crush H; subst;
  match goal with E : m_update_existing _ _ _ _ = Some _ |- _ => apply cn_m_update_existing, cp_of_cn in E end; autorewrite with cp in *; assumption. Qed.
Lemma cp_m_step_resv deny s st s' : m_step_resv deny s st = Some s' -> cp s' = cp s.
Proof. unfold m_step_resv. intros H. destruct (st_panic st); [discriminate|]. destruct (known_trigger s st); [discriminate|]. destruct (st_op st); try discriminate.
  - eapply cp_m_node_remove4; eassumption.
  - eapply cp_m_app_remove4; eassumption.
  - eapply cp_m_alloc4; eassumption.
  - eapply cp_m_release4; eassumption.
  - eapply cp_m_sched4; eassumption. Qed.
Theorem m_step4_completed deny s st s' : m_step4 deny s st = Some s' -> s_completed s' = s_completed s.
Proof. unfold m_step4. intros H. destruct (m_step2 deny s st) as [r|] eqn:E.
  - apply Some_inj in H. subst r. apply cn_m_step2, cp_of_cn in E. exact E.
  - apply cp_m_step_resv in H. exact H. Qed.
