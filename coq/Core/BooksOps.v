(* C03: every operation of the operational model (Core/Model.v) preserves the books and the invariant.
   Part 1: the queue ledger functions, AddAllocationAsk (m_new_ask) and removeAsksInternal (m_release_ask). *)
From Coq Require Import List ZArith NArith Bool Lia ZifyBool.
From YK Require Import Base.Int64 Base.Res Base.ResSpec Base.ResLemmas Base.ResLaws Base.ResLaws2 Base.ResLawsPred
  Core.Obs Core.Model Core.Ledger
  Core.BooksLemmas Core.BooksDefs Core.BooksTree Core.BooksQueue Core.BooksApp Core.BooksState Core.BooksDrain Core.BooksStep.
Import ListNotations.
Open Scope Z_scope.

(* an allocation key that no ask / allocation / foreign allocation of the partition uses *)
Definition KeyFresh (s : ostate) (key : N) : Prop :=
  (forall b z, In b (s_apps s) -> In z (ap_requests b) -> oa_key z <> key) /\
  (forall f, In f (s_foreign s) -> oa_key f <> key).

(* ------------------------------------------------------------------ the four queue ledger updates *)
Definition F_inc_pending (r : res) (q : oqueue) : oqueue := q_with q (q_max q) (q_alloc q) (Add (Some (q_pending q)) (Some r)).
Definition F_inc (r : res) (q : oqueue) : oqueue := q_with q (q_max q) (Add (Some (q_alloc q)) (Some r)) (q_pending q).
Definition F_dec (r : res) (q : oqueue) : oqueue := q_with q (q_max q) (Prune (Sub (Some (q_alloc q)) (Some r))) (q_pending q).
Definition F_dec_pending (r : res) (q : oqueue) : oqueue := q_with q (q_max q) (q_alloc q) (dec_pending_res (q_pending q) r).

Lemma on_path_queues s path f : s_queues (on_path s path f) = map (fun q => if memN (q_id q) path then f q else q) (s_queues s).
Proof. reflexivity. Qed.
Lemma q_dec_pending_queues s leaf r :
  s_queues (q_dec_pending s leaf r) = map (fun q => if memN (q_id q) (path_ids s leaf) then F_dec_pending r q else q) (s_queues s).
Proof. unfold q_dec_pending. rewrite on_path_queues. apply map_ext. intros q. destruct (memN _ _); [|reflexivity].
  unfold F_dec_pending, dec_pending_res. destruct (SubErrorNegative _ _). reflexivity. Qed.

(* what the on-path queues look like *)
Section PathFacts.
  Variables (s : ostate) (a : oapp).
  Hypothesis HI : Inv s.
  Hypothesis HB : Books0 s.
  Hypothesis HBd : Bounded s.
  Hypothesis Ha : In a (s_apps s).

  Lemma app_pending_dominated q k : In q (s_queues s) -> In (q_id q) (path_ids s (ap_queue a)) ->
    getz (ap_pending a) k <= getz (q_pending q) k.
  Proof. intros Hq Hin. destruct (inv_app_leaf s HI a Ha) as (lq & Elq & Hl). pose proof (inv_tree s HI) as HT.
    destruct (find_queue_some s _ lq Elq) as [Hlq Elid].
    apply (path_dom s HT q_pending (ap_queue a) lq (getz (ap_pending a) k) k Elq) with (c := q_id q).
    - rewrite (qb_leaf_pend s lq (bk_queues s HB lq Hlq) Hl k). apply sumz_ge_member.
      + intros r Hr. apply in_map_iff in Hr. destruct Hr as (b & <- & Hb). unfold apps_of_queue in Hb. apply filter_In in Hb.
        apply rnonneg_fnonneg. apply (ab_nn_pend b (bk_apps s HB b (proj1 Hb))).
      + apply in_map. unfold apps_of_queue. apply filter_In. split; [assumption|]. apply N.eqb_eq. congruence.
    - intros q0 Hq0. apply rnonneg_fnonneg. apply (qb_nn_pend s q0 (bk_queues s HB q0 Hq0)).
    - intros q0 Hq0 Hnl. apply (qb_parent_pend s q0 (bk_queues s HB q0 Hq0) Hnl k).
    - assumption.
    - apply (find_queue_in s q HT Hq). Qed.
  Lemma app_allocated_dominated q k : In q (s_queues s) -> In (q_id q) (path_ids s (ap_queue a)) ->
    getz (ap_allocated a) k <= getz (q_alloc q) k.
  Proof. intros Hq Hin. destruct (inv_app_leaf s HI a Ha) as (lq & Elq & Hl). pose proof (inv_tree s HI) as HT.
    destruct (find_queue_some s _ lq Elq) as [Hlq Elid].
    apply (path_dom s HT q_alloc (ap_queue a) lq (getz (ap_allocated a) k) k Elq) with (c := q_id q).
    - rewrite (qb_leaf_alloc s lq (bk_queues s HB lq Hlq) Hl k). unfold app_usage. rewrite sumz_app.
      assert (H1 : getz (ap_allocated a) k <= sumz (map ap_allocated (apps_of_queue s (q_id lq))) k).
      { apply sumz_ge_member.
        - intros r Hr. apply in_map_iff in Hr. destruct Hr as (b & <- & Hb). unfold apps_of_queue in Hb. apply filter_In in Hb.
          apply rnonneg_fnonneg. apply (ab_nn_alloc b (bk_apps s HB b (proj1 Hb))).
        - apply in_map. unfold apps_of_queue. apply filter_In. split; [assumption|]. apply N.eqb_eq. congruence. }
      assert (H2 : 0 <= sumz (map ap_phalloc (apps_of_queue s (q_id lq))) k).
      { apply sumz_nonneg. intros r Hr. apply in_map_iff in Hr. destruct Hr as (b & <- & Hb). unfold apps_of_queue in Hb. apply filter_In in Hb.
        apply rnonneg_fnonneg. apply (ab_nn_ph b (bk_apps s HB b (proj1 Hb))). }
      lia.
    - intros q0 Hq0. apply rnonneg_fnonneg. apply (qb_nn_alloc s q0 (bk_queues s HB q0 Hq0)).
    - intros q0 Hq0 Hnl. apply (qb_parent_alloc s q0 (bk_queues s HB q0 Hq0) Hnl k).
    - assumption.
    - apply (find_queue_in s q HT Hq). Qed.
End PathFacts.

(* ledger facts of the four updates on one queue *)
Section QueueFn.
  Variables (q : oqueue) (r : res).
  Hypothesis Wa : wf (q_alloc q).
  Hypothesis Wp : wf (q_pending q).
  Hypothesis Wr : wf r.
  Hypothesis Ba : rb (q_alloc q).
  Hypothesis Bp : rb (q_pending q).
  Hypothesis Br : rb r.
  Hypothesis Na : rnonneg (q_alloc q).
  Hypothesis Np : rnonneg (q_pending q).
  Hypothesis Nr : rnonneg r.

  Lemma F_inc_pending_facts :
    (wf (q_alloc (F_inc_pending r q)) /\ wf (q_pending (F_inc_pending r q))) /\
    (forall k, getz (q_alloc (F_inc_pending r q)) k = getz (q_alloc q) k + 0) /\
    (forall k, getz (q_pending (F_inc_pending r q)) k = getz (q_pending q) k + getz r k) /\
    (rnonneg (q_alloc (F_inc_pending r q)) /\ rnonneg (q_pending (F_inc_pending r q))).
  Proof. cbn [F_inc_pending q_with q_alloc q_pending].
    assert (W : wf (Add (Some (q_pending q)) (Some r))) by (apply Add_wf; assumption).
    assert (G : forall k, getz (Add (Some (q_pending q)) (Some r)) k = getz (q_pending q) k + getz r k) by (intros k; apply Add_exact; assumption).
    repeat split; auto; try (intros; lia).
    apply fnonneg_rnonneg; [assumption|]. intros k. rewrite G.
    pose proof (rnonneg_fnonneg _ Np k). pose proof (rnonneg_fnonneg _ Nr k). lia. Qed.
  Lemma F_inc_facts :
    (wf (q_alloc (F_inc r q)) /\ wf (q_pending (F_inc r q))) /\
    (forall k, getz (q_alloc (F_inc r q)) k = getz (q_alloc q) k + getz r k) /\
    (forall k, getz (q_pending (F_inc r q)) k = getz (q_pending q) k + 0) /\
    (rnonneg (q_alloc (F_inc r q)) /\ rnonneg (q_pending (F_inc r q))).
  Proof. cbn [F_inc q_with q_alloc q_pending].
    assert (W : wf (Add (Some (q_alloc q)) (Some r))) by (apply Add_wf; assumption).
    assert (G : forall k, getz (Add (Some (q_alloc q)) (Some r)) k = getz (q_alloc q) k + getz r k) by (intros k; apply Add_exact; assumption).
    repeat split; auto; try (intros; lia).
    apply fnonneg_rnonneg; [assumption|]. intros k. rewrite G.
    pose proof (rnonneg_fnonneg _ Na k). pose proof (rnonneg_fnonneg _ Nr k). lia. Qed.
  Lemma F_dec_facts : (forall k, getz r k <= getz (q_alloc q) k) ->
    (wf (q_alloc (F_dec r q)) /\ wf (q_pending (F_dec r q))) /\
    (forall k, getz (q_alloc (F_dec r q)) k = getz (q_alloc q) k + - getz r k) /\
    (forall k, getz (q_pending (F_dec r q)) k = getz (q_pending q) k + 0) /\
    (rnonneg (q_alloc (F_dec r q)) /\ rnonneg (q_pending (F_dec r q))).
  Proof. intros Hle. cbn [F_dec q_with q_alloc q_pending].
    assert (W : wf (Prune (Sub (Some (q_alloc q)) (Some r)))) by (apply Prune_wf, Sub_wf; assumption).
    assert (G : forall k, getz (Prune (Sub (Some (q_alloc q)) (Some r))) k = getz (q_alloc q) k - getz r k) by (intros k; apply PruneSub_exact; assumption).
    repeat split; auto; try (intros; rewrite ?G; lia).
    apply fnonneg_rnonneg; [assumption|]. intros k. rewrite G. specialize (Hle k). lia. Qed.
  Lemma F_dec_pending_facts : (forall k, getz r k <= getz (q_pending q) k) ->
    (wf (q_alloc (F_dec_pending r q)) /\ wf (q_pending (F_dec_pending r q))) /\
    (forall k, getz (q_alloc (F_dec_pending r q)) k = getz (q_alloc q) k + 0) /\
    (forall k, getz (q_pending (F_dec_pending r q)) k = getz (q_pending q) k + - getz r k) /\
    (rnonneg (q_alloc (F_dec_pending r q)) /\ rnonneg (q_pending (F_dec_pending r q))).
  Proof. intros Hle. cbn [F_dec_pending q_with q_alloc q_pending].
    assert (W : wf (dec_pending_res (q_pending q) r)) by (apply dec_pending_res_wf; assumption).
    assert (G : forall k, getz (dec_pending_res (q_pending q) r) k = getz (q_pending q) k - getz r k)
      by (intros k; apply dec_pending_res_getz; auto).
    repeat split; auto; try (intros; rewrite ?G; lia).
    apply fnonneg_rnonneg; [assumption|]. intros k. rewrite G. specialize (Hle k). lia. Qed.
End QueueFn.

(* replacing twice under the same key *)
Lemma updk_updk_const {A} (key : A -> N) l id a1 (f : A -> A) : key a1 = id ->
  updk key (updk key l id (fun _ => a1)) id f = updk key l id (fun _ => f a1).
Proof. intros E. unfold updk. rewrite map_map. apply map_ext. intros x. destruct (N.eqb_spec (key x) id) as [Ex|Ex].
  - rewrite E, N.eqb_refl. reflexivity.
  - destruct (N.eqb_spec (key x) id); [contradiction|reflexivity]. Qed.

(* ================================================================== AddAllocationAsk for a new key *)
Section NewAskOp.
  Variables (s : ostate) (a : oapp) (x : oalloc).
  Hypothesis HI : Inv s.
  Hypothesis HB : Books0 s.
  Hypothesis HBd : Bounded s.
  Hypothesis Ha : In a (s_apps s).
  Hypothesis Xok : AllocOK (ap_id a) x.
  Hypothesis Xb : rb (oa_res x).
  Hypothesis Xna : oa_allocated x = false.
  Hypothesis Xfresh : KeyFresh s (oa_key x).

  Lemma fresh_in_app b : In b (s_apps s) -> find_alloc (ap_requests b) (oa_key x) = None.
  Proof. intros Hb. apply find_alloc_none. intros C. unfold akeys in C. apply in_map_iff in C. destruct C as (z & E & Hz).
    apply (proj1 Xfresh b z Hb Hz E). Qed.

  Theorem new_ask_step : Inv (m_new_ask s a x) /\ Books (m_new_ask s a x).
  Proof.
    pose proof (inv_app_wf s HI a Ha) as W. pose proof (bk_apps s HB a Ha) as B. pose proof (bd_apps s HBd a Ha) as Bd.
    pose proof (fresh_in_app a Ha) as Xf.
    set (s' := m_new_ask s a x). set (a' := new_ask_app a x).
    assert (Eapps : s_apps s' = updk ap_id (s_apps s) (ap_id a) (fun _ => a')) by reflexivity.
    assert (Enodes : s_nodes s' = s_nodes s) by reflexivity.
    assert (Eq : s_queues s' = map (fun q => if memN (q_id q) (path_ids s (ap_queue a)) then F_inc_pending (oa_res x) q else q) (s_queues s)).
    { unfold s', m_new_ask, q_inc_pending. rewrite on_path_queues.
      rewrite (path_ids_ext (upd_app s (ap_id a) _) s (ap_queue a) eq_refl). reflexivity. }
    assert (QF : forall q, In q (s_queues s) ->
      (wf (q_alloc (F_inc_pending (oa_res x) q)) /\ wf (q_pending (F_inc_pending (oa_res x) q))) /\
      (forall k, getz (q_alloc (F_inc_pending (oa_res x) q)) k = getz (q_alloc q) k + 0) /\
      (forall k, getz (q_pending (F_inc_pending (oa_res x) q)) k = getz (q_pending q) k + getz (oa_res x) k) /\
      (rnonneg (q_alloc (F_inc_pending (oa_res x) q)) /\ rnonneg (q_pending (F_inc_pending (oa_res x) q)))).
    { intros q Hq. destruct (inv_q_wf s HI q Hq). destruct (bd_queues s HBd q Hq). pose proof (bk_queues s HB q Hq) as QB.
      apply F_inc_pending_facts; auto; [apply (ao_wf _ x Xok)|apply (qb_nn_alloc s q QB)|apply (qb_nn_pend s q QB)|apply (ao_nn _ x Xok)]. }
    apply (native_step s s' a a' (F_inc_pending (oa_res x)) (fun _ => 0) (fun k => getz (oa_res x) k) HI HB Ha Eapps Eq eq_refl);
      try reflexivity.
    - intros q Hq _. apply (QF q Hq).
    - intros q Hq _. apply (QF q Hq).
    - intros q Hq _. apply (QF q Hq).
    - intros q Hq _. apply (QF q Hq).
    - apply new_ask_id.
    - apply new_ask_queue.
    - apply new_ask_books; assumption.
    - apply new_ask_wf; assumption.
    - intros r' Hr'. unfold a' in Hr'. rewrite new_ask_requests in Hr'. apply in_put_alloc in Hr'.
      destruct Hr' as [->|[Hr' _]]; [right; exact Xfresh|left; exists r'; auto].
    - intros k. unfold a'. rewrite new_ask_allocated, new_ask_phalloc. lia.
    - intros k. apply new_ask_pending; assumption.
    - rewrite Enodes. apply (inv_node_ids s HI).
    - apply (nodes_ok_frame s s' HI).
      + intros b' Hb'. rewrite Eapps in Hb'. apply (in_updk_const ap_id) in Hb'; [|apply (inv_app_ids s HI)|assumption].
        destruct Hb' as [->|[Hb _]]; [exists a; split; [assumption|]; unfold a'; rewrite new_ask_allocs|exists b'; split; [assumption|]]; apply incl_refl.
      + intros m' Hm'. right. exists m'. rewrite Enodes in Hm'. auto.
    - apply (count_step s s' a a' 0 HI Ha Eapps); [unfold a'; rewrite new_ask_allocs; lia|].
      change (s_nallocs s') with (s_nallocs s). lia.
    - apply (member_frame s s'); [apply (apps_sim_upd s s' a a' HI Ha Eapps); [apply new_ask_id|apply new_ask_allocs]
                                 |apply nodes_sim_refl; assumption|apply (owned_P_of s HI), (bk_owned s HB)|apply onnode_P_of, (bk_onnode s HB)].
    - apply (member_frame s s'); [apply (apps_sim_upd s s' a a' HI Ha Eapps); [apply new_ask_id|apply new_ask_allocs]
                                 |apply nodes_sim_refl; assumption|apply (owned_P_of s HI), (bk_owned s HB)|apply onnode_P_of, (bk_onnode s HB)].
    - intros k. rewrite Enodes. lia.
  Qed.
End NewAskOp.

(* ================================================================== removeAsksInternal: a pending ask is removed *)
Section ReleaseAskOp.
  Variables (s s' : ostate) (a a' : oapp) (x : oalloc).
  Hypothesis HI : Inv s.
  Hypothesis HB : Books0 s.
  Hypothesis HBd : Bounded s.
  Hypothesis Ha : In a (s_apps s).
  Hypothesis Hx : In x (ap_requests a).
  Hypothesis Xna : oa_allocated x = false.
  Hypothesis SL : same_ledgers (release_ask_app a x) a'.
  Hypothesis Eapps : s_apps s' = updk ap_id (s_apps s) (ap_id a) (fun _ => a').
  Hypothesis Enodes : s_nodes s' = s_nodes s.
  Hypothesis Eq : s_queues s' = map (fun q => if memN (q_id q) (path_ids s (ap_queue a)) then F_dec_pending (oa_res x) q else q) (s_queues s).
  Hypothesis Ef : s_foreign s' = s_foreign s.
  Hypothesis Ec : s_nallocs s' = s_nallocs s.

  Lemma release_ask_core : Inv s' /\ Books s'.
  Proof.
    pose proof (inv_app_wf s HI a Ha) as W. pose proof (bk_apps s HB a Ha) as B. pose proof (bd_apps s HBd a Ha) as Bd.
    pose proof (aw_req a W x Hx) as Xok. pose proof (abd_req a Bd x Hx) as Xb.
    destruct SL as [S1 S2 S3 S4 S5 S6 S7]. cbn [release_ask_app ap_with ap_id ap_queue ap_pending ap_allocated ap_phalloc ap_requests ap_allocs] in *.
    assert (QF : forall q, In q (s_queues s) -> In (q_id q) (path_ids s (ap_queue a)) ->
      (wf (q_alloc (F_dec_pending (oa_res x) q)) /\ wf (q_pending (F_dec_pending (oa_res x) q))) /\
      (forall k, getz (q_alloc (F_dec_pending (oa_res x) q)) k = getz (q_alloc q) k + 0) /\
      (forall k, getz (q_pending (F_dec_pending (oa_res x) q)) k = getz (q_pending q) k + - getz (oa_res x) k) /\
      (rnonneg (q_alloc (F_dec_pending (oa_res x) q)) /\ rnonneg (q_pending (F_dec_pending (oa_res x) q)))).
    { intros q Hq Hin. destruct (inv_q_wf s HI q Hq). destruct (bd_queues s HBd q Hq). pose proof (bk_queues s HB q Hq) as QB.
      apply F_dec_pending_facts; auto; try apply (ao_wf _ x Xok); try apply (qb_nn_alloc s q QB); try apply (qb_nn_pend s q QB); try apply (ao_nn _ x Xok).
      intros k. pose proof (ask_le_pending a x W B Hx Xna k). pose proof (app_pending_dominated s a HI HB Ha q k Hq Hin). lia. }
    apply (native_step s s' a a' (F_dec_pending (oa_res x)) (fun _ => 0) (fun k => - getz (oa_res x) k) HI HB Ha Eapps Eq Ef);
      try reflexivity; auto.
    - intros q Hq Hin. apply (QF q Hq Hin).
    - intros q Hq Hin. apply (QF q Hq Hin).
    - intros q Hq Hin. apply (QF q Hq Hin).
    - intros q Hq Hin. apply (QF q Hq Hin).
    - apply (same_ledgers_books (release_ask_app a x) a'); [constructor; assumption|]. apply rel_ask_books; assumption.
    - apply (same_ledgers_wf (release_ask_app a x) a'); [constructor; assumption|]. apply rel_ask_wf; assumption.
    - intros r' Hr'. rewrite S6 in Hr'. apply in_del_alloc in Hr'. left. exists r'. tauto.
    - intros k. rewrite S4, S5. lia.
    - intros k. rewrite S3. pose proof (rel_ask_pending a x W Bd Hx k) as G. cbn [release_ask_app ap_with ap_pending] in G. rewrite G. lia.
    - rewrite Enodes. apply (inv_node_ids s HI).
    - apply (nodes_ok_frame s s' HI).
      + intros b' Hb'. rewrite Eapps in Hb'. apply (in_updk_const ap_id) in Hb'; [|apply (inv_app_ids s HI)|assumption].
        destruct Hb' as [->|[Hb _]]; [exists a; split; [assumption|]; rewrite S7|exists b'; split; [assumption|]]; apply incl_refl.
      + intros m' Hm'. right. exists m'. rewrite Enodes in Hm'. auto.
    - apply (count_step s s' a a' 0 HI Ha Eapps); [rewrite S7; lia|lia].
    - apply (member_frame s s'); [apply (apps_sim_upd s s' a a' HI Ha Eapps); assumption
                                 |apply nodes_sim_refl; assumption|apply (owned_P_of s HI), (bk_owned s HB)|apply onnode_P_of, (bk_onnode s HB)].
    - apply (member_frame s s'); [apply (apps_sim_upd s s' a a' HI Ha Eapps); assumption
                                 |apply nodes_sim_refl; assumption|apply (owned_P_of s HI), (bk_owned s HB)|apply onnode_P_of, (bk_onnode s HB)].
    - intros k. rewrite Enodes. lia.
  Qed.
End ReleaseAskOp.

Theorem release_ask_step s s' a x : Inv s -> Books0 s -> Bounded s -> In a (s_apps s) -> In x (ap_requests a) ->
  m_release_ask s a x = Some s' -> Inv s' /\ Books s'.
Proof. intros HI HB HBd Ha Hx H. unfold m_release_ask in H. destruct (oa_allocated x) eqn:Xna; [discriminate|]. cbn [orb] in H.
  destruct (negb match ap_reservations a with [] => true | _ :: _ => false end); [discriminate|].
  fold (release_ask_app a x) in H. set (a1 := release_ask_app a x) in *.
  set (s1 := q_dec_pending (upd_app s (ap_id a) (fun _ => a1)) (ap_queue a) (oa_res x)) in *.
  assert (Eq1 : s_queues s1 = map (fun q => if memN (q_id q) (path_ids s (ap_queue a)) then F_dec_pending (oa_res x) q else q) (s_queues s)).
  { unfold s1. rewrite q_dec_pending_queues. rewrite (path_ids_ext (upd_app s (ap_id a) _) s (ap_queue a) eq_refl). reflexivity. }
  match type of H with Some (if ?c then _ else _) = _ => destruct c end; inversion H; subst s'; clear H.
  - apply (release_ask_core s _ a (ap_event a1 (fsm_complete (ap_state a1))) x HI HB HBd Ha Hx Xna); try assumption; try reflexivity.
    + apply same_ledgers_event.
    + change (s_apps (upd_app s1 (ap_id a) (fun b => ap_event b (fsm_complete (ap_state b)))))
        with (updk ap_id (updk ap_id (s_apps s) (ap_id a) (fun _ => a1)) (ap_id a) (fun b => ap_event b (fsm_complete (ap_state b)))).
      apply (updk_updk_const ap_id (s_apps s) (ap_id a) a1 (fun b => ap_event b (fsm_complete (ap_state b)))). reflexivity.
  - apply (release_ask_core s s1 a a1 x HI HB HBd Ha Hx Xna); try assumption; try reflexivity. apply same_ledgers_refl.
Qed.
