(* C03 over the gang fragment (Core/Model3.v): the operations that bind an allocation to a node through the normal paths
   keep [InvG2] and [BooksG].
     [bind_op_step]        the common core: a record x WITHOUT in-flight link enters the allocation list of application a
                           and the list of node n, x (re)places the request under its key, the queue path moves by
                           (+x, dP); [LinkOK] is a frame ([bind_link1], [bind_link2]);
     [g_sched_ph_step]     a placeholder ask is scheduled (tryNodes / tryNode + partition.allocate), [g_sched_ph];
     [m_sched_alloc_stepG] a real ask is scheduled normally in a gang state, [m_sched_alloc] of Core/Model.v as used by
                           [g_sched] after placeholder cancellations;
     [g_recovered_step], [g_recovered_alloc_step]  a bound allocation reported by the shim for an unknown key, [g_recovered].
   Core/Model3ProofsO2b.v / O2c.v: UpdateAllocation for a key the application holds as a placeholder ([g_update_existing]). *)
From Coq Require Import List ZArith NArith Bool Lia ZifyBool.
From YK Require Import Base.Int64 Base.Res Base.ResSpec Base.ResLemmas Base.ResLaws Base.ResLaws2 Base.ResLawsPred
  Core.Obs Core.Model Core.Model2 Core.Model3 Core.Ledger
  Core.BooksLemmas Core.BooksDefs Core.BooksTree Core.BooksQueue Core.BooksApp Core.BooksState Core.BooksDrain Core.BooksOps
  Core.BooksOps2 Core.Model2ProofsB2 Core.Model3ProofsD Core.Model3ProofsD2 Core.Model3ProofsG1 Core.Model3ProofsG2
  Core.Model3ProofsG5 Core.Model3ProofsG6 Core.Model3ProofsA1 Core.Model3ProofsA2 Core.Model3ProofsA3.
Import ListNotations.
Open Scope Z_scope.
Set Default Timeout 30.

(* ------------------------------------------------------------------ small facts *)
(* Node.addAllocationInternal for a native allocation *)
Lemma n_add_native n x force n' : oa_foreign x = false -> n_add n x force = Some n' -> n' = node_bound n x.
Proof. unfold n_add. intros ->. destruct (_ || _); [|discriminate]. intros H. inversion H. reflexivity. Qed.
Lemma sgtz_positive r : StrictlyGreaterThanZero (Some r) = true -> positive r.
Proof. cbn [StrictlyGreaterThanZero]. rewrite andb_true_iff. intros [_ H]. apply existsb_exists in H. destruct H as (kv & Hin & Hv).
  exists kv. split; [assumption|lia]. Qed.
Lemma infl_nolink y : oa_release y = 0%N -> infl y = false.
Proof. intros E. unfold infl. rewrite E. cbn. apply andb_false_r. Qed.
Lemma infl_ph y : oa_ph y = true -> infl y = false.
Proof. intros E. unfold infl. rewrite E. reflexivity. Qed.
Lemma in_akeys (l : list oalloc) y : In y l -> In (oa_key y) (akeys l). Proof. apply in_map. Qed.

(* ================================================================== the common core *)
Section BindOp.
  Variables (s s' : ostate) (a a' : oapp) (n : onode) (x : oalloc) (F : oqueue -> oqueue) (dP : tid -> Z).
  Hypothesis HI2 : InvG2 s.
  Hypothesis HB : BooksG s.
  Hypothesis HBd : Bounded3 s.
  Hypothesis Ha : In a (s_apps s).
  Hypothesis Hn : In n (s_nodes s).
  Hypothesis Xok : AllocOK3 (ap_id a) x.
  Hypothesis Xb : rb (oa_res x).
  Hypothesis Xnode : oa_node x = on_id n.
  (* x is not half of an in-flight replacement *)
  Hypothesis Xl : oa_release x = 0%N.
  (* no node lists x's key, a does not list it as an allocation, no placeholder of a is linked to it *)
  Hypothesis Xnodes : forall m y, In m (s_nodes s) -> In y (on_allocs m) -> oa_key y <> oa_key x.
  Hypothesis Xalloc : ~ In (oa_key x) (akeys (ap_allocs a)).
  Hypothesis Xu : unlinked (ap_allocs a) (oa_key x).
  (* x's key: a key of a, or new in the partition *)
  Hypothesis Xkey : (exists r, In r (app_records a) /\ oa_key r = oa_key x) \/ KeyFresh3 s (oa_key x).
  Hypothesis Eapps : s_apps s' = updk ap_id (s_apps s) (ap_id a) (fun _ => a').
  Hypothesis Enodes : s_nodes s' = updk on_id (s_nodes s) (on_id n) (fun _ => node_bound n x).
  Hypothesis Eq : s_queues s' = path_map s (ap_queue a) F.
  Hypothesis Ef : s_foreign s' = s_foreign s.
  Hypothesis Ec : s_nallocs s' = s_nallocs s + 1.
  Hypothesis Fid : forall q, q_id (F q) = q_id q.
  Hypothesis Fpar : forall q, q_parent (F q) = q_parent q.
  Hypothesis Fleaf : forall q, q_leaf (F q) = q_leaf q.
  Hypothesis QF : forall q, In q (s_queues s) -> In (q_id q) (path_ids s (ap_queue a)) -> QFacts q (F q) (getz (oa_res x)) dP.
  Hypothesis Eid : ap_id a' = ap_id a.
  Hypothesis Equeue : ap_queue a' = ap_queue a.
  Hypothesis Ba' : AppBooks a'.
  Hypothesis Wa' : AppWF3 a'.
  Hypothesis Ealloc : ap_allocs a' = put_alloc x (ap_allocs a).
  Hypothesis Ereq : ap_requests a' = put_alloc x (ap_requests a).
  Hypothesis HdA : forall k, getz (ap_allocated a') k + getz (ap_phalloc a') k =
                             getz (ap_allocated a) k + getz (ap_phalloc a) k + getz (oa_res x) k.
  Hypothesis HdP : forall k, getz (ap_pending a') k = getz (ap_pending a) k + dP k.

  Let HI : InvG s := ig2_inv s HI2.
  Let HL : LinkOK s := ig2_link s HI2.
  Let n' := node_bound n x.
  Let Enid : on_id n' = on_id n := eq_refl.
  Let Enalloc : on_allocs n' = put_alloc x (on_allocs n) := eq_refl.

  (* x's key belongs to no other application *)
  Lemma bo_key_other b z : In b (s_apps s) -> ap_id b <> ap_id a -> In z (app_records b) -> oa_key z <> oa_key x.
  Proof using HI2 Ha Xkey. intros Hb Hne Hz E. destruct Xkey as [(r & Hr & Er)|[Fr _]].
    - apply Hne. f_equal. apply (g_key_owner s b a z r HI Hb Ha Hz Hr). congruence.
    - apply (Fr b z Hb Hz E). Qed.

  Lemma bo_inv : InvG s' /\ BooksG s'.
  Proof using HI2 HB HBd Ha Hn Xok Xb Xnode Xl Xnodes Xalloc Xkey Eapps Enodes Eq Ef Ec Fid Fpar Fleaf QF Eid Equeue Ba' Wa' Ealloc Ereq HdA HdP.
    assert (Hkeys : RecKeysOK s a a').
    { intros r' Hr'. apply in_records in Hr'. rewrite Ealloc, Ereq in Hr'.
      assert (G : r' = x \/ In r' (app_records a)).
      { destruct Hr' as [Hr'|Hr']; apply in_put_alloc in Hr'; destruct Hr' as [->|[Hr' _]]; auto; right; apply in_records; auto. }
      destruct G as [->|G]; [|left; exists r'; auto]. destruct Xkey as [(r & Hr & Er)|Fr]; [left; exists r; auto|right; exact Fr]. }
    apply (gang_step s s' a a' F (getz (oa_res x)) dP HI HB Ha Eapps Eq Ef Fid Fpar Fleaf QF Eid Equeue Ba' Wa' Hkeys HdA HdP).
    - apply (mg_node_ids s s' n n' HI Enodes Enid).
    - apply (bind_nodes_ok s s' n n' HI Hn Enodes Enid x Enalloc Xnode Xnodes).
      + apply addTo_wf. apply (k3_wf n (ig_nodes s HI n Hn)).
      + intros k. apply addTo_getz; [apply (a3_wf _ x Xok)|apply (bd_nodes s (b3_base s HBd) n Hn)|exact Xb].
    - apply (bind_owned s s' a a' n n' HI Ha Hn Eapps Enodes Eid x Ealloc); auto; [|apply (a3_app _ x Xok)].
      intros y Hy Hne. rewrite Ereq. apply in_put_alloc. auto.
    - apply (bind_onnode s s' a a' n n' HI Ha Hn Eapps Enodes Enid x Ealloc Enalloc Xnode Xnodes).
    - apply (bind_count s s' a a' HI Ha Eapps x Ealloc Xalloc Ec).
    - intros k. rewrite (bind_ninfl s s' n n' HI Hn Enodes Enid x Enalloc Xnodes k). unfold ninfl. rewrite (infl_nolink x Xl). reflexivity. Qed.

  (* L1: the new node record is not the real half of a replacement; the placeholders of the old ones are kept *)
  Lemma bind_link1 : LinkL1 s'.
  Proof using HI2 Ha Hn Xl Xalloc Eapps Enodes Eid Ealloc.
    intros m' y Hm' Hy Hi.
    assert (Hold : forall m, In m (s_nodes s) -> In y (on_allocs m) ->
              exists b ph, In b (s_apps s') /\ ap_id b = oa_app y /\ In ph (ap_allocs b) /\ oa_ph ph = true /\
                           oa_key ph = oa_release y /\ oa_release ph = oa_key y /\ oa_node ph <> oa_node y).
    { intros m Hm Hym. destruct (lk_1 s HL m y Hm Hym Hi) as (b & ph & Hb & Eb & Hph & Pph & Ek & Er & Hnn).
      destruct (N.eq_dec (ap_id b) (ap_id a)) as [E|E].
      - assert (b = a) by (apply (g_same_app s a b HI Ha Hb E)). subst b. exists a', ph. split; [apply (g_in_apps' s s' a a' HI Ha Eapps); auto|].
        split; [congruence|]. split; [|repeat split; assumption]. rewrite Ealloc. apply in_put_alloc. right. split; [assumption|].
        intros C. apply Xalloc. rewrite <- C. apply in_akeys. assumption.
      - exists b, ph. split; [apply (g_in_apps' s s' a a' HI Ha Eapps); auto|repeat split; assumption]. }
    apply (g_in_nodes' s s' n n' HI Hn Enodes) in Hm'. destruct Hm' as [->|[Hm _]]; [|apply (Hold m' Hm Hy)].
    rewrite Enalloc in Hy. apply in_put_alloc in Hy. destruct Hy as [->|[Hy _]]; [|apply (Hold n Hn Hy)].
    rewrite (infl_nolink x Xl) in Hi. discriminate. Qed.

  (* L2: the linked pairs are untouched; the new node record has another key than every linked real request *)
  Lemma bind_link2 : LinkL2 s'.
  Proof using HI2 Ha Hn Xl Xnodes Xu Xkey Eapps Enodes Ealloc Ereq.
    assert (Tr : forall b ph r, In b (s_apps s) -> In ph (ap_allocs b) -> oa_ph ph = true -> oa_release ph <> 0%N ->
               In r (ap_requests b) -> oa_key r = oa_release ph -> oa_ph r = false -> oa_allocated r = true -> oa_key r <> oa_key x ->
               oa_release r = oa_key ph /\ (forall k, getz (oa_res r) k <= getz (oa_res ph) k) /\
               (oa_node r = oa_node ph -> forall m y, In m (s_nodes s') -> In y (on_allocs m) -> oa_key y <> oa_key r) /\
               (oa_node r <> oa_node ph -> exists m, In m (s_nodes s') /\ on_id m = oa_node r /\ In r (on_allocs m))).
    { intros b ph r Hb Hph Pph Hl Hr Ek Pr Ar Hne. destruct (lk_2 s HL b ph r Hb Hph Pph Hl Hr Ek Pr Ar) as (C1 & C2 & C3 & C4).
      split; [exact C1|]. split; [exact C2|]. split.
      - intros E m' y Hm' Hy. apply (g_in_nodes' s s' n n' HI Hn Enodes) in Hm'. destruct Hm' as [->|[Hm _]]; [|apply (C3 E m' y Hm Hy)].
        rewrite Enalloc in Hy. apply in_put_alloc in Hy. destruct Hy as [->|[Hy _]]; [congruence|apply (C3 E n y Hn Hy)].
      - intros E. destruct (C4 E) as (m & Hm & Em & Hrm).
        destruct (g_record_kept s s' n n' HI Hn Enodes Enid m r Hm Hrm) as (m' & Hm' & Em' & Hrm').
        { intros ->. rewrite Enalloc. apply in_put_alloc. auto. }
        exists m'. split; [assumption|]. split; [congruence|assumption]. }
    intros b ph r Hb Hph Pph Hl Hr Ek Pr Ar. apply (g_in_apps' s s' a a' HI Ha Eapps) in Hb. destruct Hb as [->|[Hb Hne]].
    - rewrite Ealloc in Hph. apply in_put_alloc in Hph. destruct Hph as [->|[Hph _]]; [contradiction|].
      pose proof (Xu ph Hph Pph Hl) as Hk. rewrite Ereq in Hr. apply in_put_alloc in Hr. destruct Hr as [->|[Hr Hrk]]; [congruence|].
      apply (Tr a ph r Ha Hph Pph Hl Hr Ek Pr Ar Hrk).
    - apply (Tr b ph r Hb Hph Pph Hl Hr Ek Pr Ar). apply (bo_key_other b r Hb Hne). apply in_records. auto. Qed.

  Theorem bind_op_step : InvG2 s' /\ BooksG s'.
  Proof using HI2 HB HBd Ha Hn Xok Xb Xnode Xl Xnodes Xalloc Xu Xkey Eapps Enodes Eq Ef Ec Fid Fpar Fleaf QF Eid Equeue Ba' Wa' Ealloc Ereq HdA HdP.
    destruct bo_inv as [I B]. split; [|exact B]. constructor; [exact I|]. constructor; [apply bind_link1|apply bind_link2]. Qed.
End BindOp.

(* ================================================================== a scheduling decision: tryNodes / tryNode + partition.allocate *)
(* the record of Core/Model.v [m_sched_alloc] (BooksApp.sched_app) and the record of [g_sched_ph] agree on every field
   the books read when the ask is a real one *)
Lemma sched_app_same a ask nid : oa_ph ask = false -> same_ledgers (sched_ph_app a ask nid) (sched_app a ask nid).
Proof. intros Hph. unfold sched_ph_app. constructor.
  - rewrite sched_id, app_add_alloc_id. reflexivity.
  - rewrite sched_queue, app_add_alloc_queue. reflexivity.
  - rewrite sched_pending_eq, app_add_alloc_pending. reflexivity.
  - rewrite sched_allocated_eq, app_add_alloc_allocated. cbn [oa_bound oa_ph oa_res]. rewrite Hph. reflexivity.
  - rewrite sched_phalloc, app_add_alloc_phalloc. cbn [oa_bound oa_ph oa_res]. rewrite Hph. reflexivity.
  - rewrite sched_requests, app_add_alloc_requests. reflexivity.
  - rewrite sched_allocs, app_add_alloc_allocs. reflexivity. Qed.

(* a pending ask is not larger than the pending ledger of any queue on the application's path *)
Lemma sched_le s a ask q : InvG s -> BooksG s -> In a (s_apps s) -> In ask (ap_requests a) -> oa_allocated ask = false ->
  In q (s_queues s) -> In (q_id q) (path_ids s (ap_queue a)) -> forall k, getz (oa_res ask) k <= getz (q_pending q) k.
Proof. intros HI HB Ha Hin Hna Hq Hp k. pose proof (g_ask_le_pending a ask k (ig_app_wf s HI a Ha) (bg_apps s HB a Ha) Hin Hna).
  pose proof (g_pending_dominated s a HI HB Ha q k Hq Hp). lia. Qed.
Lemma sched_qf_di s a ask q : InvG s -> BooksG s -> Bounded3 s -> In a (s_apps s) -> In ask (ap_requests a) -> oa_allocated ask = false ->
  In q (s_queues s) -> In (q_id q) (path_ids s (ap_queue a)) ->
  QFacts q (F_dec_pending (oa_res ask) (F_inc (oa_res ask) q)) (getz (oa_res ask)) (fun k => - getz (oa_res ask) k).
Proof. intros HI HB HBd Ha Hin Hna Hq Hp. pose proof (w3_req a (ig_app_wf s HI a Ha) ask Hin) as Aok.
  apply F_dec_pending_inc_Q; [apply (g_qok s q HI HB HBd Hq)|apply (a3_wf _ _ Aok)|apply (abd_req a (bd_apps s (b3_base s HBd) a Ha) ask Hin)|apply (a3_nn _ _ Aok)|].
  apply (sched_le s a ask q HI HB Ha Hin Hna Hq Hp). Qed.
Lemma sched_qf_id s a ask q : InvG s -> BooksG s -> Bounded3 s -> In a (s_apps s) -> In ask (ap_requests a) -> oa_allocated ask = false ->
  In q (s_queues s) -> In (q_id q) (path_ids s (ap_queue a)) ->
  QFacts q (F_inc (oa_res ask) (F_dec_pending (oa_res ask) q)) (getz (oa_res ask)) (fun k => - getz (oa_res ask) k).
Proof. intros HI HB HBd Ha Hin Hna Hq Hp. pose proof (w3_req a (ig_app_wf s HI a Ha) ask Hin) as Aok.
  apply F_inc_dec_pending_Q; [apply (g_qok s q HI HB HBd Hq)|apply (a3_wf _ _ Aok)|apply (abd_req a (bd_apps s (b3_base s HBd) a Ha) ask Hin)|apply (a3_nn _ _ Aok)|].
  apply (sched_le s a ask q HI HB Ha Hin Hna Hq Hp). Qed.

Section SchedCore.
  Variables (s s' : ostate) (a a' : oapp) (n : onode) (ask : oalloc) (F : oqueue -> oqueue).
  Hypothesis HI2 : InvG2 s.
  Hypothesis HB : BooksG s.
  Hypothesis HBd : Bounded3 s.
  Hypothesis Ha : In a (s_apps s).
  Hypothesis Hn : In n (s_nodes s).
  Hypothesis Hin : In ask (ap_requests a).
  Hypothesis Hna : oa_allocated ask = false.
  Hypothesis Hl : oa_release ask = 0%N.
  Hypothesis Hu : unlinked (ap_allocs a) (oa_key ask).
  Let x := oa_bound ask (on_id n).
  Let r := oa_res ask.
  Hypothesis Sa' : same_ledgers (sched_ph_app a ask (on_id n)) a'.
  Hypothesis Eapps : s_apps s' = updk ap_id (s_apps s) (ap_id a) (fun _ => a').
  Hypothesis Enodes : s_nodes s' = updk on_id (s_nodes s) (on_id n) (fun _ => node_bound n x).
  (* the queue path: pending -> allocated, in either order (F_dec_pending_inc_Q, F_inc_dec_pending_Q with [sched_le]) *)
  Hypothesis Eq : s_queues s' = path_map s (ap_queue a) F.
  Hypothesis Fid : forall q, q_id (F q) = q_id q.
  Hypothesis Fpar : forall q, q_parent (F q) = q_parent q.
  Hypothesis Fleaf : forall q, q_leaf (F q) = q_leaf q.
  Hypothesis QF : forall q, In q (s_queues s) -> In (q_id q) (path_ids s (ap_queue a)) -> QFacts q (F q) (getz r) (fun k => - getz r k).
  Hypothesis Ef : s_foreign s' = s_foreign s.
  Hypothesis Ec : s_nallocs s' = s_nallocs s + 1.

  Theorem sched_core_step : InvG2 s' /\ BooksG s'.
  Proof. pose proof (ig2_inv s HI2) as HI. pose proof (ig_app_wf s HI a Ha) as W. pose proof (bg_apps s HB a Ha) as B.
    assert (Bd3 : AppBounded3 a) by (split; [apply (bd_apps s (b3_base s HBd) a Ha)|apply (b3_ph s HBd a Ha)]).
    pose proof (w3_req a W ask Hin) as Aok. pose proof (abd_req a (proj1 Bd3) ask Hin) as Ab.
    destruct (sched_ph_ok a ask (on_id n) W B Bd3 Hin Hna Hl Hu) as (B1 & W1 & _ & E1 & E2 & E3 & E4 & D).
    destruct Sa' as [S1 S2 S3 S4 S5 S6 S7].
    apply (bind_op_step s s' a a' n x F (fun k => - getz r k) HI2 HB HBd Ha Hn); try reflexivity; auto.
    - apply AllocOK3_bound. exact Aok.
    - apply (pending_key_not_on_node s a ask HI Ha Hin Hna).
    - apply (w3_pending_fresh a W ask Hin Hna).
    - left. exists ask. split; [apply in_records; auto|reflexivity].
    - rewrite S1. exact E1.
    - rewrite S2. exact E2.
    - apply (same_ledgers_books _ a' (mkSL _ _ S1 S2 S3 S4 S5 S6 S7) B1).
    - apply (same_ledgers_wf3 _ a' (mkSL _ _ S1 S2 S3 S4 S5 S6 S7) W1).
    - rewrite S7. exact E4.
    - rewrite S6. exact E3.
    - intros k. rewrite S4, S5. destruct (D k) as (_ & D2 & D3). rewrite D2, D3. cbn [x oa_bound oa_res]. destruct (oa_ph ask); lia.
    - intros k. rewrite S3. destruct (D k) as (D1 & _). rewrite D1. reflexivity. Qed.
End SchedCore.

(* a pending placeholder ask is scheduled.
   Side hypotheses (about the pre-state, decidable):
   - the pending ask carries no link ([oa_release = 0]): [InvG2] speaks about the links of ALLOCATED requests only; a pending ask
     with a link never occurs (the link of a real ask is set together with its allocated flag and cleared before the ask is
     given back), but nothing in the invariant says so.  Needed: the new allocation would be a linked placeholder without partner.
   - no placeholder of the application is linked to the ask's key ([unlinked]): clause w3_link of AppWF3 ("the ask a
     placeholder is linked to is not an allocation yet") and clause L2 of LinkOK would break otherwise.  A stale link to a
     key that was removed and re-used is the only way to violate it. *)
Theorem g_sched_ph_step deny s s' a k nid : InvG2 s -> BooksG s -> Bounded3 s -> In a (s_apps s) ->
  (forall ask, find_alloc (ap_requests a) k = Some ask -> oa_release ask = 0%N) ->
  unlinked (ap_allocs a) k ->
  g_sched_ph deny s a k nid = Some s' -> InvG2 s' /\ BooksG s'.
Proof. intros HI2 HB HBd Ha Hlk Hu H. pose proof (ig2_inv s HI2) as HI. rewrite g_sched_ph_eq in H.
  destruct (find_alloc (ap_requests a) k) as [ask|] eqn:Eask; [|discriminate].
  destruct (find_node s nid) as [n|] eqn:En; [|discriminate].
  pose proof (Hlk ask eq_refl) as Hl. apply find_alloc_some in Eask. destruct Eask as [Hin Ek]. apply find_node_some in En. destruct En as [Hn Enid].
  destruct (oa_allocated ask) eqn:Hna; [discriminate|]. cbn [orb] in H.
  match type of H with (if ?c then None else _) = _ => destruct c; [discriminate|] end.
  match type of H with (if ?c then None else _) = _ => destruct c; [discriminate|] end.
  destruct (n_add n (oa_bound ask nid) false) as [n'|] eqn:Eadd; [|discriminate].
  destruct (q_try_inc s (ap_queue a) (oa_res ask)) as [s1|] eqn:Etry; [|discriminate].
  pose proof (w3_req a (ig_app_wf s HI a Ha) ask Hin) as Aok.
  apply n_add_native in Eadd; [|apply (a3_native _ _ Aok)]. subst n' nid k.
  inversion H; subst s'; clear H.
  apply (sched_core_step s _ a (sched_ph_app a ask (on_id n)) n ask (fun q => F_dec_pending (oa_res ask) (F_inc (oa_res ask) q))
           HI2 HB HBd Ha Hn Hin Hna Hl Hu (same_ledgers_refl _)); try reflexivity.
  - rewrite (q_try_inc_some _ _ _ _ Etry). reflexivity.
  - rewrite (q_try_inc_some _ _ _ _ Etry). reflexivity.
  - cbn [add_counts upd_app s_queues]. apply q_dec_pending_after; [|reflexivity|reflexivity].
    cbn [upd_node s_queues]. apply (g_q_try_inc_queues s s _ _ eq_refl _ Etry).
  - intros q Hq Hp. apply (sched_qf_di s a ask q HI HB HBd Ha Hin Hna Hq Hp).
  - rewrite (q_try_inc_some _ _ _ _ Etry). reflexivity.
  - rewrite (q_try_inc_some _ _ _ _ Etry). reflexivity. Qed.

(* a pending REAL ask is scheduled normally in a gang state ([g_sched] after placeholder cancellations); same side
   hypotheses as [g_sched_ph_step]; here a linked pending ask would become a real allocation with a link (w3_real_nolink) *)
Theorem m_sched_alloc_stepG deny s s' a k nid : InvG2 s -> BooksG s -> Bounded3 s -> In a (s_apps s) ->
  (forall ask, find_alloc (ap_requests a) k = Some ask -> oa_release ask = 0%N) ->
  unlinked (ap_allocs a) k ->
  m_sched_alloc deny s a k nid = Some s' -> InvG2 s' /\ BooksG s'.
Proof. intros HI2 HB HBd Ha Hlk Hu H. pose proof (ig2_inv s HI2) as HI. unfold m_sched_alloc in H.
  destruct (find_alloc (ap_requests a) k) as [ask|] eqn:Eask; [|discriminate].
  destruct (find_node s nid) as [n|] eqn:En; [|discriminate].
  pose proof (Hlk ask eq_refl) as Hl. apply find_alloc_some in Eask. destruct Eask as [Hin Ek]. apply find_node_some in En. destruct En as [Hn Enid].
  destruct (oa_allocated ask) eqn:Hna; [discriminate|]. destruct (oa_ph ask) eqn:Hph; [discriminate|]. cbn [orb] in H.
  match type of H with (if ?c then None else _) = _ => destruct c; [discriminate|] end.
  match type of H with (if ?c then None else _) = _ => destruct c; [discriminate|] end.
  destruct (n_add n (oa_bound ask nid) false) as [n'|] eqn:Eadd; [|discriminate].
  destruct (q_try_inc s (ap_queue a) (oa_res ask)) as [s1|] eqn:Etry; [|discriminate].
  pose proof (w3_req a (ig_app_wf s HI a Ha) ask Hin) as Aok.
  apply n_add_native in Eadd; [|apply (a3_native _ _ Aok)]. subst n' nid k.
  fold (sched_app a ask (on_id n)) in H. inversion H; subst s'; clear H.
  apply (sched_core_step s _ a (sched_app a ask (on_id n)) n ask (fun q => F_dec_pending (oa_res ask) (F_inc (oa_res ask) q))
           HI2 HB HBd Ha Hn Hin Hna Hl Hu (sched_app_same a ask (on_id n) Hph)); try reflexivity.
  - rewrite (q_try_inc_some _ _ _ _ Etry). reflexivity.
  - rewrite (q_try_inc_some _ _ _ _ Etry). reflexivity.
  - cbn [add_counts upd_app s_queues]. apply q_dec_pending_after; [|reflexivity|reflexivity].
    cbn [upd_node s_queues]. apply (g_q_try_inc_queues s s _ _ eq_refl _ Etry).
  - intros q Hq Hp. apply (sched_qf_di s a ask q HI HB HBd Ha Hin Hna Hq Hp).
  - rewrite (q_try_inc_some _ _ _ _ Etry). reflexivity.
  - rewrite (q_try_inc_some _ _ _ _ Etry). reflexivity. Qed.

(* ================================================================== a bound allocation for a key the application does not know *)
(* "new allocation already assigned" branch of UpdateAllocation.  Stated for any native record x without link (the model
   calls it for placeholders).  Side hypothesis: no placeholder of the application is linked to the new key ([unlinked];
   KeyFresh3 speaks about the keys of records, not about link fields - a stale link to a removed key is possible). *)
Theorem g_recovered_step s s' a n x : InvG2 s -> BooksG s -> Bounded3 s -> In a (s_apps s) -> In n (s_nodes s) ->
  AllocOK3 (ap_id a) x -> rb (oa_res x) -> oa_allocated x = true -> oa_node x = on_id n -> oa_release x = 0%N ->
  KeyFresh3 s (oa_key x) -> unlinked (ap_allocs a) (oa_key x) ->
  g_recovered s a n x = Some s' -> InvG2 s' /\ BooksG s'.
Proof. intros HI2 HB HBd Ha Hn Xok Xb Xal Xnode Xl Xfresh Xu H. pose proof (ig2_inv s HI2) as HI. rewrite g_recovered_eq in H.
  destruct (n_add n x true) as [n'|] eqn:Eadd; [|discriminate]. apply n_add_native in Eadd; [|apply (a3_native _ _ Xok)]. subst n'.
  inversion H; subst s'; clear H.
  pose proof (ig_app_wf s HI a Ha) as W. pose proof (bg_apps s HB a Ha) as B.
  assert (Bd3 : AppBounded3 a) by (split; [apply (bd_apps s (b3_base s HBd) a Ha)|apply (b3_ph s HBd a Ha)]).
  assert (Xfr : ~ In (oa_key x) (akeys (ap_requests a))).
  { intros C. unfold akeys in C. apply in_map_iff in C. destruct C as (z & E & Hz). apply (proj1 Xfresh a z Ha); [apply in_records; auto|assumption]. }
  assert (Xfa : ~ In (oa_key x) (akeys (ap_allocs a))).
  { intros C. unfold akeys in C. apply in_map_iff in C. destruct C as (z & E & Hz). apply (proj1 Xfresh a z Ha); [apply in_records; auto|assumption]. }
  destruct (recovered3_ok a x W B Bd3 Xok Xb Xal Xfr Xfa Xl Xu) as (B1 & W1 & E1 & E2 & E3 & E4 & E5 & D).
  apply (bind_op_step s _ a (recovered_app3 a x) n x (F_inc (oa_res x)) zero3 HI2 HB HBd Ha Hn Xok Xb Xnode Xl); try reflexivity; auto.
  - apply (fresh_key_not_on_node s (oa_key x) HI Xfresh).
  - intros q Hq _. apply F_inc_Q_nn; [apply (g_qok s q HI HB HBd Hq)|apply (a3_wf _ _ Xok)|exact Xb|apply (a3_nn _ _ Xok)].
  - intros k. destruct (D k) as (D2 & D3). rewrite D2, D3. destruct (oa_ph x); lia.
  - intros k. rewrite E5. unfold zero3. lia. Qed.

(* the record NewAllocationFromSI builds, under the guards of [g_alloc] *)
Lemma alloc_of_req_ok3 s r a : ReqOK3 s r -> rq_foreign r = false -> ap_id a = rq_app r ->
  StrictlyGreaterThanZero (rq_res r) = true -> AllocOK3 (ap_id a) (alloc_of_req r) /\ rb (oa_res (alloc_of_req r)).
Proof. intros (Hw & Hb & _) Hfo Eid Hs. destruct (rq_res r) as [rr|] eqn:Er; [|discriminate]. cbn [oget] in *.
  split; [constructor|]; cbn [alloc_of_req oa_res oa_app oa_foreign]; rewrite ?Er; cbn [oget]; auto.
  - apply sgtz_rnonneg. assumption.
  - apply sgtz_positive. assumption. Qed.

(* the branch of [g_alloc] that reaches [g_recovered]: unknown key, node reported *)
Theorem g_recovered_alloc_step s s' r a n : InvG2 s -> BooksG s -> Bounded3 s -> ReqOK3 s r ->
  rq_foreign r = false -> find_app s (rq_app r) = Some a -> find_alloc (ap_requests a) (rq_key r) = None ->
  (rq_node r =? 0)%N = false -> find_node s (rq_node r) = Some n -> StrictlyGreaterThanZero (rq_res r) = true ->
  unlinked (ap_allocs a) (rq_key r) ->
  g_recovered s a n (alloc_of_req r) = Some s' -> InvG2 s' /\ BooksG s'.
Proof. intros HI2 HB HBd RO Hfo Ea Ereq Enode En Hs Hu H. destruct (find_app_some s _ a Ea) as [Ha Eid].
  apply find_node_some in En. destruct En as [Hn Enid].
  destruct (alloc_of_req_ok3 s r a RO Hfo Eid Hs) as [Xok Xb].
  apply (g_recovered_step s s' a n (alloc_of_req r) HI2 HB HBd Ha Hn Xok Xb); auto.
  - cbn [alloc_of_req oa_allocated]. rewrite Enode. reflexivity.
  - apply (proj2 (proj2 RO) a Ea Ereq). Qed.
