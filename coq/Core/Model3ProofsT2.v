(* C03 over the gang fragment: the final step theorem.  [Model3ProofsT.v] proves the step theorem with the node-removal
   operation as a parameter; here it is instantiated with [g_node_remove_step] (Core/Model3ProofsO5d.v) and the
   boolean forms are assembled.
   [gang_step_books] is `_partial` in exactly one respect: for OpNodeRemove the hypothesis [NodeRemoveOK3] asks that
   no application terminates inside removeNodeAllocations ([PLoop] = Bounded3 + NoTerminal in every state of the walk);
   the full statement would drop [NoTerminal] (and use [TermOK] as the release theorems do). *)
From Coq Require Import List ZArith NArith Bool Lia ZifyBool.
From YK Require Import Base.Int64 Base.Res Base.ResSpec Base.ResLemmas Core.Obs Core.Model Core.Model2 Core.Model3 Core.Ledger
  Core.BooksLemmas Core.BooksDefs Core.BooksCheck Core.Model3ProofsD Core.Model3ProofsD2 Core.Model3ProofsG1 Core.Model3ProofsC1
  Core.Model3ProofsEx Core.Model3ProofsO5b Core.Model3ProofsO5d Core.Model3ProofsO5x Core.Model3ProofsT Core.Model3ProofsC2 Oracles.CoreC01.
Import ListNotations.
Open Scope Z_scope.

(* removeNode: release announcements name distinct keys; in every state the walk over the node's allocations visits:
   int64 head-room ([Bounded3]: DeallocateAsk raises pending ledgers), no application terminates ([NoTerminal]) and, when
   a placeholder on the removed node is confirmed against a smaller real allocation on another node, the negative
   TryIncAllocatedResource succeeds ([QuotaOK]: it is refused when the queue is above a maximum; the code ignores that) *)
Definition NodeRemoveOK3 (s : ostate) (st : ostep) (id : N) : Prop :=
  NoDup (release_keys (st_events st)) /\
  forall n order, find_node s id = Some n -> node_remove_order (st_events st) (on_allocs n) = Some order ->
    rna_ok PLoop QuotaOK (set_nodes s (filter (fun m => negb (on_id m =? id)%N) (s_nodes s))) order.

Definition node_remove_ok3_b (s : ostate) (st : ostep) (id : N) : bool := node_remove_ok_b s (st_events st) id.
Lemma node_remove_ok3_b_spec s st id : node_remove_ok3_b s st id = true -> NodeRemoveOK3 s st id.
Proof. unfold node_remove_ok3_b, node_remove_ok_b. rewrite !andb_true_iff. intros [[_ H2] H3]. split; [apply nodupN_spec; exact H2|].
  intros n order En Eo. rewrite En, Eo in H3. apply rna_ok_b_spec. exact H3. Qed.

Lemma node_remove_step3 s st id s' : InvG2 s -> BooksG s -> Bounded3 s -> StateOK3 s ->
  (forall a, In a (s_apps s) -> TermOK a) -> NodeRemoveOK3 s st id ->
  g_node_remove s (st_events st) id = Some s' -> InvG2 s' /\ BooksG s'.
Proof. intros HI HB HBd [_ Hnz] _ [Hnd Hok] H. apply (g_node_remove_step s (st_events st) id s' HI HB HBd); assumption. Qed.

Definition StepOK3g : ostate -> ostep -> Prop := StepOK3x NodeRemoveOK3.
Definition step_ok3g_b : ostate -> ostep -> bool := step_ok3x_b node_remove_ok3_b.
Lemma step_ok3g_b_spec s st : step_ok3g_b s st = true -> StepOK3g s st.
Proof. apply (step_ok3x_b_spec NodeRemoveOK3 node_remove_ok3_b node_remove_ok3_b_spec). Qed.

(* every step of the gang fragment preserves the invariant and the books *)
Theorem gang_step_G deny s st s' : InvG2 s -> BooksG s -> Bounded3 s -> StepOK3g s st ->
  m_step_gang deny s st = Some s' -> InvG2 s' /\ BooksG s'.
Proof. apply (m_step_gang_G NodeRemoveOK3 node_remove_step3). Qed.

Theorem gang_step_books deny s st s' : InvG2 s -> Books s -> Bounded3 s -> StepOK3g s st ->
  m_step_gang deny s st = Some s' -> InvG2 s' /\ Books s'.
Proof. apply (m_step_gang_books NodeRemoveOK3 node_remove_step3). Qed.

(* the same with every hypothesis decided by vm_compute, and the conclusion in the oracle's terms *)
Theorem gang_step_books_b deny s st s' : invg2_b s = true -> c03_state s = [] -> bounded3_b s = true -> step_ok3g_b s st = true ->
  m_step_gang deny s st = Some s' -> InvG2 s' /\ c03_state s' = [].
Proof. apply (m_step_gang_books_b NodeRemoveOK3 node_remove_ok3_b node_remove_ok3_b_spec node_remove_step3). Qed.

(* a step of m_step3 that the gang fragment answers *)
Theorem m_step3_gang_books deny s st s' : InvG2 s -> Books s -> Bounded3 s -> StepOK3g s st ->
  m_step2 deny s st = None -> m_step3 deny s st = Some s' -> InvG2 s' /\ Books s'.
Proof. intros HI HB HBd Hok E2 H. unfold m_step3 in H. rewrite E2 in H. eapply gang_step_books; eassumption. Qed.

(* the hypotheses are satisfiable on the worked histories (Core/Model3ProofsEx.v): every visited state satisfies
   InvG2 and the books, every step satisfies Bounded3, StepOK3g (node removal included) and StepOK2 where m_step2 answers *)
Definition run3g_ok_b := run3x_ok_b node_remove_ok3_b.
Theorem ex3_run_okg : run3g_ok_b ex3_deny ex3_s0 ex3_steps = true.
Proof. vm_compute. reflexivity. Qed.
Theorem to3_run_okg : run3g_ok_b [] ex3_s0 to3_steps = true.
Proof. vm_compute. reflexivity. Qed.
Theorem nr3_run_okg : run3g_ok_b ex3_deny ex3_s0 nr3_steps = true.
Proof. vm_compute. reflexivity. Qed.
Theorem ex3_hypotheses : InvG2 ex3_s0 /\ Books ex3_s0 /\ RunOK3x NodeRemoveOK3 ex3_deny ex3_s0 ex3_steps /\
  m_run3_len ex3_deny ex3_s0 ex3_steps = length ex3_steps /\ InvG2 (m_run3 ex3_deny ex3_s0 ex3_steps) /\ Books (m_run3 ex3_deny ex3_s0 ex3_steps).
Proof. pose proof ex3_run_okg as H. split; [apply ex3_invg2_0|]. split; [apply ex3_books0|].
  split; [apply (run3x_ok_b_spec NodeRemoveOK3 node_remove_ok3_b node_remove_ok3_b_spec ex3_deny ex3_steps ex3_s0 H)|].
  split; [apply ex3_covered|]. apply ex3_end. Qed.

(* ------------------------------------------------------------------ the hypothesis "a linked placeholder is not resized"
   (UpdOK3, size clause of LinkL2) is necessary: the first nine steps of [ex3_steps] (placeholder 10 {100,2} on node 1,
   real ask 20 {60,1}, replacement started on the same node), then the shim shrinks the placeholder to {40,1} — below the
   real ask — and confirms: every step is covered by m_step3, the books hold up to the confirmation and are broken by
   it (302 leaf queue <> sum of its applications, 305 root <> sum of the nodes).  Reproduced on the real scheduler
   (notes/m3gang.md, finding 8): the model mirrors the code. *)
Definition rz_steps : list ostep :=
  firstn 9 ex3_steps ++
  [ g_step (OpAlloc (g_req 10 1 [(1%N, 40); (2%N, 1)] true 1)) [];
    g_step (OpRelease 1 10 TT_PlaceholderReplaced) [] ].
Theorem linked_placeholder_resize_refuted :
  exists deny s0 steps, invg2_b s0 = true /\ c03_state s0 = [] /\
    m_run3_len deny s0 steps = length steps /\
    run3g_ok_b deny s0 (firstn 9 steps) = true /\
    (let s9 := m_run3 deny s0 (firstn 9 steps) in
     step_ok3_b s9 (nth 9 steps (g_step OpSched [])) = true /\ step_ok3g_b s9 (nth 9 steps (g_step OpSched [])) = false) /\
    c03_state (m_run3 deny s0 (firstn 10 steps)) = [] /\
    c03_state (m_run3 deny s0 steps) = [302%N; 305%N].
Proof. exists ex3_deny, ex3_s0, rz_steps. vm_compute. repeat split; reflexivity. Qed.
