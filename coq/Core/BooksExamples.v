(* C03: the hypotheses of the theorems are satisfiable.  A partition with a three level queue tree and two
   applications; a history of eleven steps (two nodes registered, a new ask, a recovered allocation, a scheduling
   decision, a foreign allocation, a second ask, its removal, release of the scheduled allocation, removal of the
   foreign allocation, a drain) covered completely by the model.  [Books], [Inv] hold initially; [RunOK] holds
   along the run (checked by vm_compute through the sound boolean forms); the theorems then give [Books] and
   the empty oracle verdict at the end, which vm_compute confirms independently. Also: the environment
   assumption "allocation keys are unique" cannot be dropped ([books_reachable_dup_keys_refuted]). *)
From Coq Require Import List ZArith NArith Bool Lia ZifyBool.
From YK Require Import Base.Int64 Base.Res Base.ResSpec Base.ResLemmas Core.Obs Core.Model Core.Ledger
  Core.BooksLemmas Core.BooksDefs Core.BooksTree Core.BooksDrain Core.BooksOps Core.BooksOps4 Core.BooksProofs Core.BooksCheck
  Oracles.CoreC01.
Import ListNotations.
Open Scope Z_scope.

Definition ex_queue (id parent : N) (leaf : bool) : oqueue :=
  mkOQ id parent leaf true QS_Active None None [] [] [] 0%N 0%N [] [] [].
Definition ex_queues : list oqueue :=
  [ex_queue 1 0 false; ex_queue 2 1 false; ex_queue 3 2 true; ex_queue 4 1 true].
Definition ex_app (id queue : N) : oapp :=
  mkOApp id queue ST_New 1%N [] [] [] [] [] [] [] [] [] false false false false.
Definition ex_s0 : ostate := mkOS [] [ex_app 1 3; ex_app 2 4] ex_queues None 0 0 0 [] [] [] [].

Definition ex_req (key app node : N) (r : res) (foreign : bool) : oreq :=
  mkReq key app node (Some r) 0 false 0%N 0%N foreign false false false true.
Definition ex_step (o : oop) (evs : list oevent) : ostep := mkStep o false evs [] false false ex_s0.
Definition ex_steps : list ostep :=
  [ ex_step (OpNodeAdd 1 [(1%N, 1000); (2%N, 16)] false) [];
    ex_step (OpNodeAdd 2 [(1%N, 500); (2%N, 8)] false) [];
    ex_step (OpAlloc (ex_req 10 1 0 [(1%N, 100); (2%N, 2)] false)) [];
    ex_step (OpAlloc (ex_req 11 2 2 [(1%N, 50)] false)) [];
    ex_step OpSched [ENewAlloc 10 1 1 [(1%N, 100); (2%N, 2)] false];
    ex_step (OpAlloc (ex_req 20 0 1 [(1%N, 10)] true)) [];
    ex_step (OpAlloc (ex_req 12 1 0 [(2%N, 1)] false)) [];
    ex_step (OpRelease 1 12 TT_StoppedByRM) [];
    ex_step (OpRelease 1 10 TT_StoppedByRM) [];
    ex_step (OpRelease 0 20 TT_Unknown) [];
    ex_step (OpNodeDrain 2) [] ].

(* the model covers the whole history *)
Example ex_covered : m_run_len [] ex_s0 ex_steps = length ex_steps.
Proof. vm_compute. reflexivity. Qed.

Example ex_tree : TreeOK ex_s0.
Proof. constructor.
  - cbn. repeat constructor; cbn; intuition discriminate.
  - intros q Hq. cbn in Hq. intuition (subst; discriminate).
  - intros q1 q2 H1 H2. cbn in H1, H2. intuition (subst; cbn in *; try discriminate; reflexivity).
  - intros q Hq. cbn in Hq. unfold complete.
    destruct Hq as [<-|[<-|[<-|[<-|[]]]]]; vm_compute; (split; [repeat constructor; cbn; intuition discriminate|reflexivity]).
  - intros c p Hc Hp. cbn in Hc, Hp.
    destruct Hc as [<-|[<-|[<-|[<-|[]]]]]; destruct Hp as [<-|[<-|[<-|[<-|[]]]]]; cbn; intros E; try discriminate; reflexivity. Qed.

Example ex_inv0 : Inv ex_s0.
Proof. constructor.
  - cbn. repeat constructor; cbn; intuition discriminate.
  - constructor.
  - exact ex_tree.
  - intros a Ha. cbn in Ha. destruct Ha as [<-|[<-|[]]]; eexists; split; vm_compute; reflexivity.
  - intros a Ha. cbn in Ha. destruct Ha as [<-|[<-|[]]]; constructor; cbn; try constructor; try (intros; contradiction).
  - intros q Hq. cbn in Hq. destruct Hq as [<-|[<-|[<-|[<-|[]]]]]; split; apply wf_nil.
  - intros a1 a2 x1 x2 H1 H2 Hx. cbn in H1. destruct H1 as [<-|[<-|[]]]; contradiction.
  - intros f a x [].
  - intros n [].
  - reflexivity. Qed.

Example ex_books0 : Books ex_s0.
Proof. apply books_reflect. vm_compute. reflexivity. Qed.

Example ex_run_ok : RunOK [] ex_s0 ex_steps.
Proof. apply run_ok_b_spec. vm_compute. reflexivity. Qed.

(* the theorems apply ... *)
Example ex_books_end : Books (m_run [] ex_s0 ex_steps) /\ Inv (m_run [] ex_s0 ex_steps).
Proof. apply (books_reachable [] ex_steps ex_s0 ex_books0 ex_inv0 ex_run_ok). Qed.
(* ... and agree with the direct evaluation of the oracle on the final state, which is not trivial:
   one allocation is left, the root holds what node 2 holds *)
Example ex_oracle_end : c03_state (m_run [] ex_s0 ex_steps) = [].
Proof. vm_compute. reflexivity. Qed.
Example ex_end_values :
  s_nallocs (m_run [] ex_s0 ex_steps) = 1 /\
  option_map q_alloc (root_queue (m_run [] ex_s0 ex_steps)) = Some [(1%N, 50)] /\
  map on_allocated (s_nodes (m_run [] ex_s0 ex_steps)) = [[]; [(1%N, 50)]] /\
  map ap_pending (s_apps (m_run [] ex_s0 ex_steps)) = [[]; []].
Proof. vm_compute. auto. Qed.
(* an intermediate state with a pending ask, two bound allocations and a foreign allocation *)
Example ex_mid_values :
  let s := m_run [] ex_s0 (firstn 7 ex_steps) in
  s_nallocs s = 2 /\ option_map q_alloc (root_queue s) = Some [(1%N, 150); (2%N, 2)] /\
  option_map q_pending (root_queue s) = Some [(2%N, 1)] /\ length (s_foreign s) = 1%nat /\ c03_state s = [].
Proof. vm_compute. auto. Qed.

(* [drain_to_zero] on a state without applications but with ledgers to check: the tree, two nodes *)
Definition ex_empty : ostate := m_run [] (init_state ex_queues) (firstn 2 ex_steps).
Example ex_empty_drained : Books ex_empty /\ Inv ex_empty /\ s_apps ex_empty = [] /\ length (s_nodes ex_empty) = 2%nat.
Proof.
  assert (Hz : forall q, In q ex_queues -> q_alloc q = [] /\ q_pending q = []).
  { intros q Hq. cbn in Hq. destruct Hq as [<-|[<-|[<-|[<-|[]]]]]; auto. }
  assert (HT : TreeOK (init_state ex_queues)).
  { destruct ex_tree as [T1 T2 T3 T4 T5]. constructor; assumption. }
  assert (HR : RunOK [] (init_state ex_queues) (firstn 2 ex_steps)) by (apply run_ok_b_spec; vm_compute; reflexivity).
  destruct (books_reachable [] (firstn 2 ex_steps) (init_state ex_queues) (books_init ex_queues Hz) (inv_init ex_queues HT Hz) HR) as [B I].
  split; [exact B|]. split; [exact I|]. vm_compute. auto. Qed.

(* ------------------------------------------------------------------ the key uniqueness assumption is needed:
   application 2 is handed an already bound allocation under the key application 1 uses on the same node;
   when application 1's allocation is then released the node drops application 2's record: the books of the
   model no longer agree (304 allocation not on its node, 305 root vs nodes). *)
Definition dup_steps : list ostep :=
  [ ex_step (OpNodeAdd 1 [(1%N, 1000); (2%N, 16)] false) [];
    ex_step (OpAlloc (ex_req 10 1 1 [(1%N, 100)] false)) [];
    ex_step (OpAlloc (ex_req 10 2 1 [(1%N, 30)] false)) [];
    ex_step (OpRelease 1 10 TT_StoppedByRM) [] ].
Theorem books_reachable_dup_keys_refuted :
  exists s0 steps, Books s0 /\ Inv s0 /\ m_run_len [] s0 steps = length steps /\
    (forall n, bounded_b (m_run [] s0 (firstn n steps)) = true) /\ c03_state (m_run [] s0 steps) <> [].
Proof. exists ex_s0, dup_steps. split; [exact ex_books0|]. split; [exact ex_inv0|]. split; [vm_compute; reflexivity|]. split.
  - intros n. do 5 (destruct n as [|n]; [vm_compute; reflexivity|]). vm_compute. reflexivity.
  - vm_compute. discriminate. Qed.
