(* The hypotheses of C03d and C09d are satisfiable on a non-trivial history, completely covered by [m_step4], in which the
   fourth fragment is exercised: from the EMPTY partition (queue tree of Core/BooksExamples.v) - node 1 of capacity 10, an
   application, an ask of 8 that is scheduled, an ask of 5 that does not fit any more and gets node 1 RESERVED (handled by
   [m_step_resv]: [m_step] rejects the cycle), the release of the first allocation while the application holds the
   reservation ([m_release_alloc4]), the cycle that allocates the reserved ask on its node (AllocatedReserved: reservation
   removed through PartitionContext.unReserve), removal of the application.  Sound boolean forms of the run hypotheses. *)
From Coq Require Import List ZArith NArith Bool Lia ZifyBool.
From YK Require Import Base.Int64 Base.Res Base.ResSpec Base.ResLemmas Core.Obs Core.Model Core.Model2 Core.Ledger Core.Model4
  Core.BooksLemmas Core.BooksDefs Core.BooksTree Core.BooksDrain Core.BooksOps Core.BooksOps4 Core.BooksProofs Core.BooksCheck
  Core.BooksExamples Core.Model2ProofsB1 Core.Model2ProofsB3 Core.Model2ProofsB6 Core.Model2ProofsB7
  Core.Model4ProofsF Core.Model4ProofsB Core.Model4ProofsB2 Core.Model4ProofsR1 Core.Model4ProofsR7 Core.Model4ProofsR8 Core.Model4ProofsR10 Core.Model4ProofsR12 Core.Model4ProofsR9 Oracles.CoreC01.
Import ListNotations.
Open Scope Z_scope.

(* ------------------------------------------------------------------ boolean forms of the hypotheses *)
Definition step_ok4_b (s : ostate) (st : ostep) : bool :=
  match st_op st with
  | OpAlloc r => req_ok_b s r && upd_ok_b (hide_res s (rq_app r)) r
  | OpRelease _ key _ => negb (key =? 0)%N
  | _ => true
  end.
Lemma step_ok4_b_spec s st : step_ok4_b s st = true -> StepOK4 s st.
Proof. unfold step_ok4_b, StepOK4. destruct (st_op st); auto.
  - rewrite andb_true_iff. intros [H1 H2]. split; [apply req_ok_b_spec; assumption|apply upd_ok_b_spec; assumption].
  - intros H. apply negb_true_iff, N.eqb_neq in H. exact H. Qed.

Definition no_res_app_b (s : ostate) (id : N) : bool := match find_app s id with Some a => nilb (ap_reservations a) | None => true end.
Lemma no_res_app_b_spec s id : no_res_app_b s id = true -> forall a, find_app s id = Some a -> ap_reservations a = [].
Proof. unfold no_res_app_b. intros H a Ea. rewrite Ea in H. destruct (ap_reservations a); [reflexivity|discriminate]. Qed.
Definition step_ok9_b (s : ostate) (st : ostep) : bool :=
  match st_op st with
  | OpFireState id => no_res_app_b s id
  | OpAlloc r => no_res_app_b s (rq_app r)
  | OpRelease app key _ =>
      match find_app s app with
      | Some a => match find_alloc (ap_allocs a) key with Some _ => forallb (fun p => negb (snd p =? key)%N) (ap_reservations a) | None => true end
      | None => true end
  | _ => true
  end.
Lemma step_ok9_b_spec s st : step_ok9_b s st = true -> step_ok9' s st.
Proof. unfold step_ok9_b. intros H. constructor; unfold fire_ok9, release_ok9, alloc_ok9; destruct (st_op st); auto.
  - apply no_res_app_b_spec. exact H.
  - intros a x Ea Ex p Hp. rewrite Ea, Ex in H. rewrite forallb_forall in H.
    specialize (H p Hp). apply negb_true_iff, N.eqb_neq in H. exact H.
  - apply no_res_app_b_spec. exact H. Qed.

Fixpoint run_ok4_b (deny : list (N * N)) (s : ostate) (steps : list ostep) : bool :=
  match steps with
  | [] => true
  | st :: t => bounded_b s && step_ok2_b s st && step_ok4_b s st && step_ok9_b s st &&
               match m_step4 deny s st with Some s' => run_ok4_b deny s' t | None => true end
  end.
Lemma run_ok4_b_spec deny : forall steps s, run_ok4_b deny s steps = true -> RunOK4 deny s steps /\ Run9 deny s steps.
Proof. induction steps as [|st t IH]; intros s H; [split; exact I|]. cbn [run_ok4_b RunOK4 Run9] in *. rewrite !andb_true_iff in H.
  destruct H as [[[[H1 H2] H3] H4] H5].
  assert (Hrest : match m_step4 deny s st with Some s' => RunOK4 deny s' t /\ Run9 deny s' t | None => True end) by (destruct (m_step4 deny s st); auto).
  split.
  - split; [apply bounded_b_spec; assumption|]. split; [apply step_ok2_b_spec; assumption|]. split; [apply step_ok4_b_spec; assumption|].
    destruct (m_step4 deny s st); [apply Hrest|exact I].
  - split; [apply step_ok9_b_spec; assumption|]. destruct (m_step4 deny s st); [apply Hrest|exact I]. Qed.

Fixpoint m_run4_len (deny : list (N * N)) (s : ostate) (steps : list ostep) : nat :=
  match steps with
  | [] => O
  | st :: t => match m_step4 deny s st with Some s' => S (m_run4_len deny s' t) | None => O end
  end.

(* ------------------------------------------------------------------ the history *)
Definition e4_s0 : ostate := init_state ex_queues.
(* what a scheduling cycle of the fourth fragment reads from the observation: the application view of the reservations and
   the partition counter *)
Definition e4_obs (res : list (N * N)) (nres : Z) : ostate :=
  mkOS [] [mkOApp 1 3 ST_Running 1%N [] [] [] [] [] [] res [] [] false false false false] [] None 0 0 nres [] [] [] [].
Definition e4_step (o : oop) (evs : list oevent) (obs : ostate) : ostep := mkStep o false evs [] false false obs.
Definition e4_steps : list ostep :=
  [ e4_step (OpNodeAdd 1 [(1%N, 10)] false) [] e4_s0;
    e4_step (OpAppAdd 1 3 1 false false None false 0 None) [] e4_s0;
    e4_step (OpAlloc (e2_req 9 1 0 [(1%N, 8)])) [] e4_s0;
    e4_step OpSched [ENewAlloc 9 1 1 [(1%N, 8)] false] (e4_obs [] 0);
    e4_step (OpAlloc (e2_req 10 1 0 [(1%N, 5)])) [] e4_s0;
    e4_step OpSched [] (e4_obs [(1%N, 10%N)] 1);                              (* node 1 reserved for ask 10 *)
    e4_step (OpRelease 1 9 TT_StoppedByRM) [] e4_s0;                          (* release while a reservation is held *)
    e4_step OpSched [ENewAlloc 10 1 1 [(1%N, 5)] false] (e4_obs [] 0);        (* AllocatedReserved on the reserved node *)
    e4_step (OpAppRemove 1) [] e4_s0 ].

Example e4_books0 : Books e4_s0.
Proof. apply (books_init ex_queues e2_zero). Qed.
Example e4_inv0 : Inv e4_s0.
Proof. apply (inv_init ex_queues); [|exact e2_zero]. destruct ex_tree as [T1 T2 T3 T4 T5]. constructor; assumption. Qed.
Example e4_rinv0 : RInv e4_s0.
Proof. constructor; cbn [e4_s0 init_state s_apps s_nodes s_queues ex_queues]; try (intros; contradiction).
  - intros q en Hq Hen. destruct Hq as [<-|[<-|[<-|[<-|[]]]]]; destruct Hen.
  - intros q Hq. destruct Hq as [<-|[<-|[<-|[<-|[]]]]]; constructor. Qed.

Example e4_covered : m_run4_len [] e4_s0 e4_steps = length e4_steps.
Proof. vm_compute. reflexivity. Qed.
(* steps 6, 7 and 8 are outside [m_step2]: they are handled by [m_step_resv] *)
Example e4_uses_fragment :
  let s5 := m_run4 [] e4_s0 (firstn 5 e4_steps) in let s6 := m_run4 [] e4_s0 (firstn 6 e4_steps) in let s7 := m_run4 [] e4_s0 (firstn 7 e4_steps) in
  m_step2 [] s5 (nth 5 e4_steps (e4_step OpSched [] e4_s0)) = None /\ m_step2 [] s6 (nth 6 e4_steps (e4_step OpSched [] e4_s0)) = None /\
  m_step2 [] s7 (nth 7 e4_steps (e4_step OpSched [] e4_s0)) = None /\
  map ap_reservations (s_apps s6) = [[(1%N, 10%N)]] /\ map on_reservations (s_nodes s6) = [[(1%N, 10%N)]] /\ s_nres s6 = 1 /\
  map ap_reservations (s_apps (m_run4 [] e4_s0 (firstn 8 e4_steps))) = [[]] /\ s_nres (m_run4 [] e4_s0 (firstn 8 e4_steps)) = 0.
Proof. vm_compute. repeat split; reflexivity. Qed.
Example e4_run_ok : RunOK4 [] e4_s0 e4_steps /\ Run9 [] e4_s0 e4_steps.
Proof. apply run_ok4_b_spec. vm_compute. reflexivity. Qed.

(* the theorems apply ... *)
Example e4_end : RInv (m_run4 [] e4_s0 e4_steps) /\ Books (m_run4 [] e4_s0 e4_steps) /\ Inv (m_run4 [] e4_s0 e4_steps).
Proof. apply (rinv_reachable4_partial [] e4_steps e4_s0 e4_books0 e4_inv0 e4_rinv0 (proj1 e4_run_ok) (proj2 e4_run_ok)). Qed.
Example e4_mid : RInv (m_run4 [] e4_s0 (firstn 6 e4_steps)).
Proof. assert (H : run_ok4_b [] e4_s0 (firstn 6 e4_steps) = true) by (vm_compute; reflexivity). apply run_ok4_b_spec in H.
  apply (rinv_reachable4_partial [] (firstn 6 e4_steps) e4_s0 e4_books0 e4_inv0 e4_rinv0 (proj1 H) (proj2 H)). Qed.
(* ... and agree with the direct evaluation of the books oracle on every state of the run *)
Example e4_oracle_all : forallb (fun n => match c03_state (m_run4 [] e4_s0 (firstn n e4_steps)) with [] => true | _ => false end) (seq 0 10) = true.
Proof. vm_compute. reflexivity. Qed.

Lemma e4_hyps : Books e4_s0 /\ Inv e4_s0 /\ RInv e4_s0 /\ RunOK4 [] e4_s0 e4_steps /\ Run9 [] e4_s0 e4_steps /\
  m_run4_len [] e4_s0 e4_steps = length e4_steps.
Proof. exact (conj e4_books0 (conj e4_inv0 (conj e4_rinv0 (conj (proj1 e4_run_ok) (conj (proj2 e4_run_ok) e4_covered))))). Qed.

(* ------------------------------------------------------------------ a second history for C09d alone ([rinv_run_ids], identifiers checked per state):
   the application releases ALL its allocations (empty key) while it holds the reservation: removeAsksInternal("") removes the
   reservation from the application, the node and the queue; then node 1 is removed *)
Definition e5_steps : list ostep :=
  firstn 6 e4_steps ++
  [ e4_step (OpRelease 1 0 TT_StoppedByRM) [] e4_s0;
    e4_step (OpNodeRemove 1) [] e4_s0 ].
Example e5_covered : m_run4_len [] e4_s0 e5_steps = length e5_steps.
Proof. vm_compute. reflexivity. Qed.
Example e5_run_ok : Run9i [] e4_s0 e5_steps.
Proof. apply (run9i_b_sound step_ok9_b [] step_ok9_b_spec). vm_compute. reflexivity. Qed.
Example e5_end : RInv (m_run4s [] e4_s0 e5_steps).
Proof. apply (rinv_run_ids [] e5_steps e4_s0 e4_rinv0 e5_run_ok). Qed.
Example e5_effect :
  map ap_reservations (s_apps (m_run4s [] e4_s0 (firstn 6 e5_steps))) = [[(1%N, 10%N)]] /\
  map ap_reservations (s_apps (m_run4s [] e4_s0 (firstn 7 e5_steps))) = [[]] /\
  map on_reservations (s_nodes (m_run4s [] e4_s0 (firstn 7 e5_steps))) = [[]] /\
  map q_reserved (s_queues (m_run4s [] e4_s0 (firstn 7 e5_steps))) = [[]; []; []; []] /\
  s_nodes (m_run4s [] e4_s0 e5_steps) = [].
Proof. vm_compute. repeat split; reflexivity. Qed.
Lemma e5_hyps : RInv e4_s0 /\ Run9i [] e4_s0 e5_steps /\ m_run4_len [] e4_s0 e5_steps = length e5_steps.
Proof. exact (conj e4_rinv0 (conj e5_run_ok e5_covered)). Qed.
