(* C03 over the fourth fragment, continued: removals, in-place updates, the step and run theorems for [m_step_resv] and
   [m_step4]. *)
From Coq Require Import List ZArith NArith Bool Lia ZifyBool.
From YK Require Import Base.Int64 Base.Res Base.ResSpec Base.ResLemmas Base.ResLaws Base.ResLaws2 Base.ResLawsPred
  Core.Obs Core.Model Core.Model2 Core.Ledger Core.Model4
  Core.BooksLemmas Core.BooksDefs Core.BooksTree Core.BooksQueue Core.BooksApp Core.BooksState Core.BooksDrain Core.BooksStep
  Core.BooksOps Core.BooksOps2 Core.BooksOps3 Core.BooksOps4 Core.BooksProofs
  Core.Model2ProofsB1 Core.Model2ProofsB2 Core.Model2ProofsB3 Core.Model2ProofsB4 Core.Model2ProofsB5 Core.Model2ProofsB6
  Core.Model4ProofsF Core.Model4ProofsG Core.Model4ProofsB Oracles.CoreC01.
Import ListNotations.
Open Scope Z_scope.
Set Default Timeout 60.

(* ------------------------------------------------------------------ removals *)
Lemma m_app_remove4_step s s' id : Inv s -> Books s -> Bounded s -> m_app_remove4 s id = Some s' -> Inv s' /\ Books s'.
Proof. unfold m_app_remove4. intros HI HB HBd H. destruct (find_app s id) as [a|]; [|inversion H; subst; split; assumption].
  destruct (negb (plain_allocs a)); [discriminate|]. cbv zeta in H.
  match type of H with m_app_remove (hide_res ?S2 _) _ = _ => assert (F : LFrame s (hide_res S2 id)) end.
  { eapply LFrame_trans; [|apply LFrame_hide]. eapply LFrame_trans.
    - instantiate (1 := if nilb (ap_requests a) then s else r_cancel_all s a). destruct (nilb _); [apply LFrame_refl|apply LFrame_cancel_all].
    - destruct (IsZero _); [apply LFrame_refl|apply LFrame_dec_preempting]. }
  destruct (LFrame_all _ _ F (conj HI HB)) as [HI1 HB1]. eapply app_remove_step; [exact HI1|exact HB1|eapply LFrame_bounded3; eassumption|exact H]. Qed.

Lemma m_node_remove4_step s s' id : Inv s -> Books s -> Bounded s -> m_node_remove4 s id = Some s' -> Inv s' /\ Books s'.
Proof. unfold m_node_remove4. intros HI HB HBd H. destruct (find_node s id) as [n|]; [|inversion H; subst; split; assumption].
  destruct (negb _); [discriminate|]. cbv zeta in H.
  match type of H with m_node_remove ?S3 _ = _ => assert (F : LFrame s S3) end.
  { eapply LFrame_trans; [|apply LFrame_upd_node; apply (n_set_res_only (fun _ => []))].
    eapply LFrame_trans; [apply (LFrame_fold (fun acc p => r_part_unreserve acc (fst p) (snd p))); intros s0 p; apply LFrame_part_unreserve|].
    match goal with |- LFrame _ (fold_left ?stp _ _) => apply (LFrame_fold stp) end.
    intros s0 x. destruct (find_app s0 (oa_app x)) as [a|]; [|apply LFrame_refl].
    destruct (_ && _); [apply LFrame_dec_preempting|apply LFrame_refl]. }
  destruct (LFrame_all _ _ F (conj HI HB)) as [HI1 HB1]. eapply node_remove_step; [exact HI1|exact HB1|eapply LFrame_bounded3; eassumption|exact H]. Qed.

(* ------------------------------------------------------------------ in-place update / placement of an existing key *)
(* [UpdOK] (Core/Model2ProofsB3.v) is stated for the state with the reservation list of the application hidden *)
Definition UpdOK4 (s : ostate) (r : oreq) : Prop := UpdOK (hide_res s (rq_app r)) r.

Lemma m_alloc4_step s s' r : Inv s -> Books s -> Bounded s -> ReqOK s r -> UpdOK4 s r -> m_alloc4 s r = Some s' -> Inv s' /\ Books s'.
Proof. intros HI HB HBd RO UO H. unfold m_alloc4 in H. destruct (negb (rq_partition_ok r) || rq_foreign r); [discriminate|].
  destruct (find_app s (rq_app r)) as [a|] eqn:Ea; [|discriminate]. destruct (negb (rq_node r =? 0)%N && _); [discriminate|].
  destruct (IsZero (rq_res r) || negb (StrictlyGreaterThanZero (rq_res r))) eqn:Ez; [discriminate|].
  apply orb_false_iff in Ez. destruct Ez as [_ Ez]. apply negb_false_iff in Ez.
  destruct (find_alloc (ap_requests a) (rq_key r)) as [x|] eqn:Ex; [|discriminate].
  destruct (find_app_some _ _ _ Ea) as [Ha Eid]. rewrite Eid in H.
  destruct (m_update_existing (hide_res s (rq_app r)) (ap_set_res a []) x r) as [s1|] eqn:E; [|discriminate]. inversion H; subst s'; clear H.
  destruct (hidden_all s (rq_app r) HI HB HBd) as (HI0 & HB0 & HBd0).
  destruct (UO (ap_set_res a []) x (hide_find _ _ _ Ea) Ex) as [U1 U2]. destruct (find_alloc_some _ _ _ Ex) as [Hx _].
  assert (H1 : Inv s1 /\ Books s1).
  { apply (update_existing_step (hide_res s (rq_app r)) s1 (ap_set_res a []) x r HI0 HB0 HBd0 (ro_wf s r RO) (ro_b s r RO) Ez
             (hide_in _ _ _ Ea) Hx U1 U2 E). }
  assert (H2 : Inv (show_res s1 (rq_app r) (ap_reservations a)) /\ Books (show_res s1 (rq_app r) (ap_reservations a))) by (eapply LFrame_all; [apply LFrame_show|exact H1]).
  destruct (_ && _); [eapply LFrame_all; [apply LFrame_cancel|exact H2]|exact H2]. Qed.

(* ------------------------------------------------------------------ releases *)
Lemma m_release4_step s s' app key ttype : Inv s -> Books s -> Bounded s -> key <> 0%N -> m_release4 s app key ttype = Some s' -> Inv s' /\ Books s'.
Proof. unfold m_release4. intros HI HB HBd Hk H. destruct (app =? 0)%N; [discriminate|].
  destruct (find_app s app) as [a|] eqn:Ea; [|discriminate]. destruct (find_app_some _ _ _ Ea) as [Hina Eid]. subst app.
  destruct (key =? 0)%N eqn:Ek; [apply N.eqb_eq in Ek; contradiction|].
  destruct (find_alloc (ap_allocs a) key) as [x|] eqn:Ex.
  - destruct (find_alloc_some _ _ _ Ex) as [Hx _]. eapply m_release_alloc4_step; eassumption.
  - destruct (find_alloc (ap_requests a) key) as [x|] eqn:Er; [|inversion H; subst; split; assumption].
    destruct (ttype =? TT_Timeout)%N; [inversion H; subst; split; assumption|].
    destruct (find_alloc_some _ _ _ Er) as [Hx _]. eapply m_release_ask4_step; eassumption. Qed.

(* ------------------------------------------------------------------ C03d.1 (partial): the step hypotheses *)
(* Full statement: every step [m_step_resv] accepts preserves [Books] and [Inv] under [ReqOK] / [UpdOK4] for OpAlloc.
   Proved with the additional side condition that a release names an allocation key ([key <> 0]): the release of ALL
   allocations of an application at once ([m_release_all4]) is covered by the correspondence and by C01d, its books proof
   is not done. *)
Definition StepOK4 (s : ostate) (st : ostep) : Prop :=
  match st_op st with
  | OpAlloc r => ReqOK s r /\ UpdOK4 s r
  | OpRelease _ key _ => key <> 0%N
  | _ => True
  end.

Theorem m_step_resv_preserves_partial deny s st s' : Books s -> Inv s -> Bounded s -> StepOK4 s st ->
  m_step_resv deny s st = Some s' -> Inv s' /\ Books s'.
Proof. unfold m_step_resv, StepOK4. intros HB HI HBd HS H. destruct (st_panic st); [discriminate|].
  destruct (known_trigger s st); [discriminate|]. destruct (st_op st) eqn:Eop; try discriminate.
  - eapply m_node_remove4_step; eassumption.
  - eapply m_app_remove4_step; eassumption.
  - destruct HS. eapply m_alloc4_step; eassumption.
  - eapply m_release4_step; eassumption.
  - eapply m_sched4_step; eassumption. Qed.

Theorem m_step4_preserves_partial deny s st s' : Books s -> Inv s -> Bounded s -> StepOK2 s st -> StepOK4 s st ->
  m_step4 deny s st = Some s' -> Inv s' /\ Books s'.
Proof. unfold m_step4. intros HB HI HBd HS2 HS4 H. destruct (m_step2 deny s st) as [s1|] eqn:E.
  - inversion H; subst s1. eapply m_step2_preserves; eassumption.
  - eapply m_step_resv_preserves_partial; eassumption. Qed.

(* ------------------------------------------------------------------ histories *)
Fixpoint m_run4 (deny : list (N * N)) (s : ostate) (steps : list ostep) : ostate :=
  match steps with
  | [] => s
  | st :: t => match m_step4 deny s st with Some s' => m_run4 deny s' t | None => s end
  end.
Fixpoint RunOK4 (deny : list (N * N)) (s : ostate) (steps : list ostep) : Prop :=
  match steps with
  | [] => True
  | st :: t => Bounded s /\ StepOK2 s st /\ StepOK4 s st /\ match m_step4 deny s st with Some s' => RunOK4 deny s' t | None => True end
  end.

Theorem books_reachable4_partial deny : forall steps s0, Books s0 -> Inv s0 -> RunOK4 deny s0 steps ->
  Books (m_run4 deny s0 steps) /\ Inv (m_run4 deny s0 steps).
Proof. induction steps as [|st t IH]; intros s0 HB HI HR; [auto|]. cbn [m_run4 RunOK4] in *. destruct HR as (HBd & HS2 & HS4 & HR).
  destruct (m_step4 deny s0 st) as [s1|] eqn:E; [|auto].
  destruct (m_step4_preserves_partial deny s0 st s1 HB HI HBd HS2 HS4 E) as [HI1 HB1]. apply IH; assumption. Qed.

Theorem c03_run4_oracle_partial deny steps s0 : Books s0 -> Inv s0 -> RunOK4 deny s0 steps -> c03_state (m_run4 deny s0 steps) = [].
Proof. intros HB HI HR. apply books_reflect. apply (books_reachable4_partial deny steps s0 HB HI HR). Qed.
