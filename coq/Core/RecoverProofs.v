(* Proofs about the recovery model (Core/Recover.v).
   recover_totals: replaying the shim's items in ANY admissible order on a fresh core is accepted item by item
   and ends with exactly the totals computed from the knowledge (each item contributes additively).
   recover_matches_old: for a crash point without an in-flight swap whose own books agree, those totals are the
   old core's totals; with a swap in flight only the pending totals can differ. *)
From Coq Require Import List ZArith NArith Bool Lia Permutation.
From YK Require Import Base.Int64 Base.Int64Laws Base.Res Base.ResSpec Base.ResLemmas Core.Obs Core.Recover.
Import ListNotations.
Open Scope Z_scope.

(* ---- keys ---- *)
Lemma key_eqb_eq a b : key_eqb a b = true <-> a = b.
Proof.
  destruct a as [a1 [a2 a3]], b as [b1 [b2 b3]]. unfold key_eqb. cbn [fst snd].
  rewrite !andb_true_iff, !N.eqb_eq. split.
  - intros [[-> ->] ->]. reflexivity.
  - intros H. inversion H. auto.
Qed.
Lemma key_eqb_spec a b : reflect (a = b) (key_eqb a b).
Proof. destruct (key_eqb a b) eqn:E; constructor; [apply key_eqb_eq; assumption|]. intros H. apply key_eqb_eq in H. congruence. Qed.
Lemma key_eqb_refl a : key_eqb a a = true. Proof. apply key_eqb_eq. reflexivity. Qed.

(* ---- one vector addition, per type ---- *)
Lemma getz_addTo r : forall l ty, wf r ->
  getz (addTo l r) ty = match get r ty with Some y => addVal (getz l ty) y | None => getz l ty end.
Proof.
  unfold addTo. induction r as [|[k' v] t IH]; intros l ty Hwf; [reflexivity|].
  unfold wf in Hwf. cbn [keys map fst] in Hwf. inversion Hwf as [|? ? Hni Hwt]; subst.
  cbn [fold_left fst snd]. rewrite IH by exact Hwt. rewrite get_cons.
  destruct (N.eqb_spec ty k') as [->|Hne].
  - assert (get t k' = None) as -> by (apply get_none_iff; exact Hni).
    unfold getz at 1. rewrite get_set_same. reflexivity.
  - unfold getz. rewrite get_set_other by assumption. reflexivity.
Qed.

(* ---- the ledger ---- *)
Fixpoint entry (t : totals) (k : key) : res :=
  match t with [] => [] | (k', r) :: rest => if key_eqb k' k then r else entry rest k end.
Lemma lookup_entry t k ty : lookup t k ty = getz (entry t k) ty.
Proof. induction t as [|[k' r] rest IH]; [reflexivity|]. cbn. destruct (key_eqb k' k); [reflexivity|exact IH]. Qed.
Lemma post1_entry t p k : entry (post1 t p) k = if key_eqb (fst p) k then addTo (entry t (fst p)) (snd p) else entry t k.
Proof.
  induction t as [|[k' r] rest IH]; cbn [post1 entry].
  - destruct (key_eqb (fst p) k); reflexivity.
  - destruct (key_eqb_spec k' (fst p)) as [He|Hne]; cbn [entry].
    + subst k'. destruct (key_eqb (fst p) k); reflexivity.
    + rewrite IH. destruct (key_eqb_spec k' k) as [Hk|Hk].
      * subst k. destruct (key_eqb_spec (fst p) k') as [H|H]; [symmetry in H; contradiction|reflexivity].
      * reflexivity.
Qed.

(* a posting the code can make: a resource map (no duplicate types) with non-negative int64 values *)
Definition rok (r : res) : Prop := wf r /\ Forall (fun kv => 0 <= snd kv <= MAX) r.
Definition pok (p : posting) : Prop := rok (snd p).
Lemma rok_getz r ty : rok r -> 0 <= getz r ty <= MAX.
Proof.
  intros [_ Hv]. unfold getz. destruct (get r ty) as [v|] eqn:E; [|unfold MAX; lia].
  apply get_some_in in E. rewrite Forall_forall in Hv. apply (Hv (ty, v) E).
Qed.
Lemma in_range_nonneg z : 0 <= z <= MAX -> in_range z.
Proof. unfold in_range, MIN, MAX. lia. Qed.

Lemma post1_lookup t p k ty : pok p -> 0 <= lookup t k ty <= MAX ->
  (key_eqb (fst p) k = true -> lookup t k ty + getz (snd p) ty <= MAX) ->
  lookup (post1 t p) k ty = lookup t k ty + (if key_eqb (fst p) k then getz (snd p) ty else 0).
Proof.
  intros Hp Hl Hb. rewrite !lookup_entry, post1_entry. destruct (key_eqb_spec (fst p) k) as [He|Hne]; [|lia].
  subst k. rewrite lookup_entry in Hl, Hb. specialize (Hb eq_refl). destruct Hp as [Hwf Hv].
  rewrite getz_addTo by exact Hwf. pose proof (rok_getz (snd p) ty (conj Hwf Hv)) as Hr.
  assert (Hg : getz (snd p) ty = match get (snd p) ty with Some y => y | None => 0 end) by reflexivity.
  rewrite Hg in *. destruct (get (snd p) ty) as [y|]; [|lia].
  apply addVal_exact; apply in_range_nonneg; lia.
Qed.

Lemma contrib_cons p ps k ty : contrib (p :: ps) k ty = (if key_eqb (fst p) k then getz (snd p) ty else 0) + contrib ps k ty.
Proof. reflexivity. Qed.
Lemma contrib_app a b k ty : contrib (a ++ b) k ty = contrib a k ty + contrib b k ty.
Proof. induction a as [|p a IH]; [reflexivity|]. cbn [app]. rewrite !contrib_cons, IH. lia. Qed.
Lemma contrib_nonneg ps k ty : Forall pok ps -> 0 <= contrib ps k ty.
Proof.
  induction ps as [|p ps IH]; intros H; [cbn; lia|]. inversion H as [|? ? Hp Hps]; subst.
  rewrite contrib_cons. specialize (IH Hps). pose proof (rok_getz (snd p) ty Hp). destruct (key_eqb (fst p) k); lia.
Qed.
Lemma contrib_perm ps ps' k ty : Permutation ps ps' -> contrib ps k ty = contrib ps' k ty.
Proof. induction 1; rewrite ?contrib_cons; lia. Qed.

Lemma post_all_lookup ps : forall t, Forall pok ps ->
  (forall k ty, 0 <= lookup t k ty /\ lookup t k ty + contrib ps k ty <= MAX) ->
  forall k ty, lookup (post_all ps t) k ty = lookup t k ty + contrib ps k ty.
Proof.
  induction ps as [|p ps IH]; intros t Hok Hb k ty; [cbn; lia|].
  inversion Hok as [|? ? Hp Hps]; subst. unfold post_all. cbn [fold_left]. fold (post_all ps (post1 t p)).
  assert (Hstep : forall k ty, lookup (post1 t p) k ty = lookup t k ty + (if key_eqb (fst p) k then getz (snd p) ty else 0)).
  { intros k0 ty0. destruct (Hb k0 ty0) as [H0 H1]. rewrite contrib_cons in H1.
    pose proof (contrib_nonneg ps k0 ty0 Hps). pose proof (rok_getz (snd p) ty0 Hp).
    apply post1_lookup; [exact Hp| |].
    - destruct (key_eqb (fst p) k0); lia.
    - intros E. rewrite E in H1. lia. }
  rewrite IH; [rewrite Hstep, contrib_cons; lia|exact Hps|].
  intros k0 ty0. rewrite Hstep. destruct (Hb k0 ty0) as [H0 H1]. rewrite contrib_cons in H1.
  pose proof (rok_getz (snd p) ty0 Hp). destruct (key_eqb (fst p) k0); lia.
Qed.

(* ---- projections of an operation list ---- *)
Lemma flat_map_split {A B} (f : A -> list B) pre x rest : flat_map f (pre ++ x :: rest) = flat_map f pre ++ f x ++ flat_map f rest.
Proof. rewrite flat_map_app. reflexivity. Qed.
Lemma flat_map_snoc {A B} (f : A -> list B) pre x : flat_map f (pre ++ [x]) = flat_map f pre ++ f x.
Proof. rewrite flat_map_app. cbn. rewrite app_nil_r. reflexivity. Qed.

(* resources of an operation are what UpdateAllocation accepts, and int64 *)
Definition op_ok (op : rop) : Prop :=
  match op with
  | RBound _ _ _ r _ => valid_res r = true /\ rok r
  | RAsk _ _ r => valid_res r = true /\ rok r
  | RForeign _ _ r => rok r
  | _ => True
  end.
(* what an operation needs to have been replayed before it *)
Definition needs (op : rop) (pre : list rop) : Prop :=
  match op with
  | RBound _ app node _ _ => In app (map ka_id (apps_of pre)) /\ In node (nodes_of pre)
  | RForeign _ node _ => In node (nodes_of pre)
  | RAsk _ app _ => In app (map ka_id (apps_of pre))
  | _ => True
  end.
Definition admissible (ops : list rop) : Prop := forall pre op rest, ops = pre ++ op :: rest -> needs op pre.
(* the replayed set: distinct node ids, application ids and allocation keys, acceptable resources *)
Definition replay_wf (R : list rop) : Prop :=
  NoDup (nodes_of R) /\ NoDup (map ka_id (apps_of R)) /\ NoDup (keys_of R) /\ Forall op_ok R.
(* every total stays within int64 *)
Definition bounded (R : list rop) : Prop := forall k ty, contrib (all_postings (apps_of R) R) k ty <= MAX.

Lemma NoDup_app_l {A} (a b : list A) : NoDup (a ++ b) -> NoDup a.
Proof. induction a as [|x a IH]; intros H; [constructor|]. cbn in H. inversion H as [|? ? Hn Hr]; subst.
  constructor; [|apply IH; assumption]. intros Hx. apply Hn. apply in_or_app. left. assumption. Qed.
Lemma find_kapp_unique l a : NoDup (map ka_id l) -> In a l -> find_kapp l (ka_id a) = Some a.
Proof.
  unfold find_kapp. induction l as [|b l IH]; intros Hnd Hin; [contradiction|]. cbn [map] in Hnd.
  inversion Hnd as [|? ? Hni Hnl]; subst. cbn [find]. destruct Hin as [->|Hin].
  - rewrite N.eqb_refl. reflexivity.
  - destruct (N.eqb_spec (ka_id b) (ka_id a)) as [He|Hne]; [|apply IH; assumption].
    exfalso. apply Hni. rewrite He. apply in_map. assumption.
Qed.
Lemma find_kapp_id l id a : find_kapp l id = Some a -> In a l /\ ka_id a = id.
Proof. unfold find_kapp. intros H. apply find_some in H as [H1 H2]. apply N.eqb_eq in H2. split; assumption. Qed.
Lemma in_ids_find l id : NoDup (map ka_id l) -> In id (map ka_id l) -> exists a, find_kapp l id = Some a.
Proof. intros Hnd Hin. apply in_map_iff in Hin as (a & <- & Ha). exists a. apply find_kapp_unique; assumption. Qed.

Lemma postings_ok apps op : op_ok op -> Forall pok (postings_of apps op).
Proof.
  destruct op as [id|a|k app node r ph|k node r|k app r]; cbn [postings_of op_ok]; intros H; try constructor.
  - destruct (find_kapp apps app) as [a|]; [|constructor]. destruct H as [_ Hr]. unfold bound_postings.
    apply Forall_forall. intros p Hp. unfold pok. repeat (apply in_app_or in Hp as [Hp|Hp]).
    + apply in_map_iff in Hp as (q & <- & _). exact Hr.
    + destruct Hp as [<-|[<-|[]]]; exact Hr.
    + apply in_map_iff in Hp as (q & <- & _). exact Hr.
  - exact H.
  - constructor.
  - destruct (find_kapp apps app) as [a|]; [|constructor]. destruct H as [_ Hr]. unfold ask_postings.
    constructor; [exact Hr|]. apply Forall_forall. intros p Hp. apply in_map_iff in Hp as (q & <- & _). exact Hr.
Qed.
Lemma all_postings_ok apps ops : Forall op_ok ops -> Forall pok (all_postings apps ops).
Proof.
  intros H. apply Forall_forall. intros p Hp. unfold all_postings in Hp. apply in_flat_map in Hp as (op & Hop & Hp).
  rewrite Forall_forall in H. pose proof (postings_ok apps op (H op Hop)) as Hf. rewrite Forall_forall in Hf. apply Hf. assumption.
Qed.

(* the same application record is found in the running core's table and in the replayed set *)
Lemma postings_same R pre op : NoDup (map ka_id (apps_of R)) -> incl (apps_of pre) (apps_of R) ->
  NoDup (map ka_id (apps_of pre)) -> needs op pre ->
  postings_of (rev (apps_of pre)) op = postings_of (apps_of R) op.
Proof.
  intros HndR Hincl Hndp Hneeds.
  assert (Hfind : forall app, In app (map ka_id (apps_of pre)) ->
            find_kapp (rev (apps_of pre)) app = find_kapp (apps_of R) app).
  { intros app Hin. apply in_map_iff in Hin as (a & <- & Ha).
    rewrite (find_kapp_unique (apps_of R) a HndR (Hincl a Ha)).
    apply find_kapp_unique; [rewrite map_rev; apply NoDup_rev; assumption|apply in_rev in Ha; assumption]. }
  destruct op as [id|a|k app node r ph|k node r|k app r]; cbn [postings_of needs] in *; try reflexivity.
  - destruct Hneeds as [Ha _]. rewrite (Hfind app Ha). reflexivity.
  - rewrite (Hfind app Hneeds). reflexivity.
Qed.

(* ---- the invariant of a replay in progress ---- *)
Definition Inv (R : list rop) (s : rstate) (pre : list rop) : Prop :=
  rs_nodes s = rev (nodes_of pre) /\ rs_apps s = rev (apps_of pre) /\ rs_keys s = rev (keys_of pre) /\
  forall k ty, lookup (rs_tot s) k ty = contrib (all_postings (apps_of R) pre) k ty.

Lemma memN_in x l : memN x l = true <-> In x l.
Proof.
  unfold memN. rewrite existsb_exists. split.
  - intros (y & Hy & He). apply N.eqb_eq in He. subst. assumption.
  - intros Hx. exists x. split; [assumption|apply N.eqb_refl].
Qed.
Lemma memN_notin x l : ~ In x l -> memN x l = false.
Proof. intros H. destruct (memN x l) eqn:E; [|reflexivity]. apply memN_in in E. contradiction. Qed.

Section Replay.
  Variable R : list rop.
  Variable ops : list rop.
  Hypothesis Hwf : replay_wf R.
  Hypothesis Hperm : Permutation ops R.
  Hypothesis Hadm : admissible ops.
  Hypothesis Hbound : bounded R.

  Let HndN : NoDup (nodes_of ops).
  Proof. destruct Hwf as (H & _). eapply Permutation_NoDup; [|exact H]. symmetry. apply Permutation_flat_map. exact Hperm. Qed.
  Let HndA : NoDup (map ka_id (apps_of ops)).
  Proof. destruct Hwf as (_ & H & _). eapply Permutation_NoDup; [|exact H]. symmetry. apply Permutation_map, Permutation_flat_map. exact Hperm. Qed.
  Let HndK : NoDup (keys_of ops).
  Proof. destruct Hwf as (_ & _ & H & _). eapply Permutation_NoDup; [|exact H]. symmetry. apply Permutation_flat_map. exact Hperm. Qed.
  Let HokO : Forall op_ok ops.
  Proof. destruct Hwf as (_ & _ & _ & H). eapply Permutation_Forall; [|exact H]. symmetry. exact Hperm. Qed.

  Lemma step_ok pre op rest s : ops = pre ++ op :: rest -> Inv R s pre ->
    exists s', rstep s op = Some s' /\ Inv R s' (pre ++ [op]).
  Proof.
    intros Hops (In1 & In2 & In3 & In4).
    pose proof (Hadm pre op rest Hops) as Hneeds.
    assert (Hop : op_ok op). { rewrite Forall_forall in HokO. apply HokO. rewrite Hops. apply in_or_app. right. left. reflexivity. }
    assert (HnodesSplit : nodes_of ops = nodes_of pre ++ node1 op ++ nodes_of rest).
    { rewrite Hops. apply flat_map_split. }
    assert (HappsSplit : apps_of ops = apps_of pre ++ app1 op ++ apps_of rest).
    { rewrite Hops. apply flat_map_split. }
    assert (HkeysSplit : keys_of ops = keys_of pre ++ op_key op ++ keys_of rest).
    { rewrite Hops. apply flat_map_split. }
    assert (Hkeyfresh : forall k, op_key op = [k] -> memN k (rs_keys s) = false).
    { intros k Hk. apply memN_notin. rewrite In3. intros Hin. apply in_rev in Hin.
      rewrite HkeysSplit, Hk in HndK. cbn [app] in HndK. apply NoDup_remove_2 in HndK. apply HndK. apply in_or_app. left. exact Hin. }
    assert (HndPre : NoDup (map ka_id (apps_of pre))).
    { rewrite HappsSplit, map_app in HndA. apply NoDup_app_l in HndA. exact HndA. }
    assert (Hincl : incl (apps_of pre) (apps_of R)).
    { intros a Ha. apply (Permutation_in (l := apps_of ops)); [apply Permutation_flat_map; exact Hperm|].
      rewrite HappsSplit. apply in_or_app. left. exact Ha. }
    assert (HndR : NoDup (map ka_id (apps_of R))) by (destruct Hwf as (_ & H & _); exact H).
    assert (Hacc : accepts s op = true).
    { destruct op as [id|a|k app node r ph|k node r|k app r]; cbn [accepts].
      - apply negb_true_iff, memN_notin. rewrite In1. intros Hin. apply in_rev in Hin.
        rewrite HnodesSplit in HndN. cbn in HndN. apply NoDup_remove_2 in HndN. apply HndN. apply in_or_app. left. exact Hin.
      - destruct (find_kapp (rs_apps s) (ka_id a)) as [b|] eqn:Hf; [|reflexivity]. exfalso.
        apply find_kapp_id in Hf as [Hb Hid]. rewrite In2 in Hb. apply in_rev in Hb.
        rewrite HappsSplit, map_app in HndA. cbn in HndA. apply NoDup_remove_2 in HndA. apply HndA.
        apply in_or_app. left. rewrite <- Hid. apply in_map. exact Hb.
      - cbn [needs] in Hneeds. destruct Hneeds as [Ha Hn]. cbn [op_ok] in Hop. destruct Hop as [Hv _].
        destruct (in_ids_find (rev (apps_of pre)) app) as (a & Hfa).
        { rewrite map_rev. apply NoDup_rev. exact HndPre. }
        { rewrite map_rev. apply in_rev in Ha. exact Ha. }
        rewrite In2, Hfa, Hv, (Hkeyfresh k eq_refl). rewrite In1.
        assert (memN node (rev (nodes_of pre)) = true) as -> by (apply memN_in; apply in_rev in Hn; exact Hn). reflexivity.
      - cbn [needs] in Hneeds. rewrite (Hkeyfresh k eq_refl), In1.
        assert (memN node (rev (nodes_of pre)) = true) as -> by (apply memN_in; apply in_rev in Hneeds; exact Hneeds). reflexivity.
      - cbn [needs] in Hneeds. cbn [op_ok] in Hop. destruct Hop as [Hv _].
        destruct (in_ids_find (rev (apps_of pre)) app) as (a & Hfa).
        { rewrite map_rev. apply NoDup_rev. exact HndPre. }
        { rewrite map_rev. apply in_rev in Hneeds. exact Hneeds. }
        rewrite In2, Hfa, Hv, (Hkeyfresh k eq_refl). reflexivity. }
    unfold rstep. rewrite Hacc. eexists. split; [reflexivity|]. unfold Inv. cbn [rs_nodes rs_apps rs_keys rs_tot].
    split; [|split; [|split]].
    - unfold nodes_of. rewrite flat_map_snoc, rev_app_distr, In1. destruct op; reflexivity.
    - unfold apps_of. rewrite flat_map_snoc, rev_app_distr, In2. destruct op; reflexivity.
    - unfold keys_of. rewrite flat_map_snoc, rev_app_distr, In3. destruct op; reflexivity.
    - intros k ty. rewrite In2, (postings_same R pre op HndR Hincl HndPre Hneeds).
      unfold all_postings. rewrite flat_map_snoc, contrib_app.
      fold (all_postings (apps_of R) pre). rewrite <- In4.
      apply post_all_lookup; [apply postings_ok; exact Hop|].
      intros k0 ty0. rewrite In4.
      assert (HokPre : Forall pok (all_postings (apps_of R) pre)).
      { apply all_postings_ok. rewrite Hops in HokO. apply Forall_app in HokO as [H _]. exact H. }
      assert (HokRest : Forall pok (all_postings (apps_of R) rest)).
      { apply all_postings_ok. rewrite Hops in HokO. apply Forall_app in HokO as [_ H]. inversion H; assumption. }
      split; [apply contrib_nonneg; exact HokPre|].
      pose proof (Hbound k0 ty0) as Hb.
      rewrite <- (contrib_perm (all_postings (apps_of R) ops) _ k0 ty0) in Hb
        by (apply Permutation_flat_map; exact Hperm).
      rewrite Hops in Hb. unfold all_postings in Hb. rewrite flat_map_split in Hb.
      rewrite !contrib_app in Hb. pose proof (contrib_nonneg _ k0 ty0 HokRest). unfold all_postings in *. lia.
  Qed.

  Lemma run_ok : forall rest pre s, ops = pre ++ rest -> Inv R s pre -> exists s', run s rest = Some s' /\ Inv R s' ops.
  Proof.
    induction rest as [|op rest IH]; intros pre s Hops Hinv.
    - rewrite app_nil_r in Hops. subst pre. exists s. split; [reflexivity|exact Hinv].
    - destruct (step_ok pre op rest s Hops Hinv) as (s1 & Hs1 & Hinv1). cbn [run]. rewrite Hs1.
      apply (IH (pre ++ [op])); [rewrite <- app_assoc; exact Hops|exact Hinv1].
  Qed.

  Theorem recover_totals_ops : exists s', run rinit ops = Some s' /\
    forall k ty, lookup (rs_tot s') k ty = contrib (all_postings (apps_of R) R) k ty.
  Proof.
    destruct (run_ok ops [] rinit eq_refl) as (s' & Hrun & (_ & _ & _ & Htot)).
    { repeat split. }
    exists s'. split; [exact Hrun|]. intros k ty. rewrite Htot. apply contrib_perm. apply Permutation_flat_map. exact Hperm.
  Qed.
End Replay.

(* ---- instantiation with the knowledge ---- *)
Lemma apps_of_app a b : apps_of (a ++ b) = apps_of a ++ apps_of b.
Proof. unfold apps_of. apply flat_map_app. Qed.
Lemma apps_of_none {A} (f : A -> rop) l : (forall x, match f x with RApp _ => False | _ => True end) -> apps_of (map f l) = [].
Proof. intros H. induction l as [|x l IH]; [reflexivity|]. cbn [map]. unfold apps_of in *. cbn [flat_map]. rewrite IH.
  specialize (H x). destruct (f x); try reflexivity. contradiction. Qed.
Lemma apps_of_replay K : apps_of (replay_ops K) = k_apps K.
Proof.
  unfold replay_ops. rewrite !apps_of_app.
  rewrite (apps_of_none RNode) by (intros; exact I).
  rewrite (apps_of_none (fun b => match b with (k, a, n, r, ph) => RBound k a n r ph end)) by (intros [[[[? ?] ?] ?] ?]; exact I).
  rewrite (apps_of_none (fun f => match f with (k, n, r) => RForeign k n r end)) by (intros [[? ?] ?]; exact I).
  rewrite (apps_of_none (fun s => match s with (k, a, r) => RAsk k a r end)) by (intros [[? ?] ?]; exact I).
  cbn [app]. rewrite app_nil_r. unfold apps_of. induction (k_apps K) as [|a l IH]; [reflexivity|]. cbn. rewrite IH. reflexivity.
Qed.

Theorem recover_totals_thm K ops :
  replay_wf (replay_ops K) -> bounded (replay_ops K) ->
  Permutation ops (replay_ops K) -> admissible ops ->
  exists s', run rinit ops = Some s' /\ forall k ty, lookup (rs_tot s') k ty = totals_from_knowledge K k ty.
Proof.
  intros Hwf Hb Hperm Hadm. destruct (recover_totals_ops (replay_ops K) ops Hwf Hperm Hadm Hb) as (s' & Hrun & Htot).
  exists s'. split; [exact Hrun|]. intros k ty. rewrite Htot. unfold totals_from_knowledge, knowledge_postings, all_postings.
  rewrite apps_of_replay. reflexivity.
Qed.

(* ---- the old core ---- *)
Lemma no_inflight_same_view s : no_inflight s = true -> shim_knowledge s = own_view s.
Proof.
  intros H. unfold shim_knowledge, own_view. f_equal. unfold no_inflight in H. rewrite forallb_forall in H.
  induction (s_apps s) as [|a l IH]; [reflexivity|]. cbn [flat_map]. rewrite IH by (intros x Hx; apply H; right; exact Hx). f_equal.
  unfold asks_of, pending_asks_of. f_equal. apply filter_ext_in. intros r Hr.
  specialize (H a (or_introl eq_refl)). rewrite forallb_forall in H. specialize (H r Hr).
  apply eqb_prop in H. rewrite H. reflexivity.
Qed.

Theorem recover_matches_old_thm tys s : no_inflight s = true -> books_agree_on tys s = true ->
  forall k ty, In k (obs_keys s) -> In ty tys -> totals_from_knowledge (shim_knowledge s) k ty = obs_total s k ty.
Proof.
  intros Hni Hb k ty Hk Hty. rewrite (no_inflight_same_view s Hni). unfold books_agree_on in Hb.
  rewrite forallb_forall in Hb. specialize (Hb k Hk). rewrite forallb_forall in Hb. specialize (Hb ty Hty).
  apply Z.eqb_eq in Hb. symmetry. exact Hb.
Qed.

(* with a swap in flight the knowledge differs from the old core's own view only in the asks, and asks post to
   the pending totals only *)
Definition pending_kind (k : key) : bool := (fst k =? K_QUEUE_PEND)%N || (fst k =? K_APP_PEND)%N.
Lemma ask_contrib_zero apps (asks : list (N * N * res)) k ty : pending_kind k = false ->
  contrib (flat_map (postings_of apps) (map (fun s => match s with (k, a, r) => RAsk k a r end) asks)) k ty = 0.
Proof.
  intros Hk. induction asks as [|[[ak aa] ar] l IH]; [reflexivity|]. cbn [map flat_map]. rewrite contrib_app, IH.
  cbn [postings_of]. destruct (find_kapp apps aa) as [a|]; [|reflexivity]. unfold ask_postings. rewrite contrib_cons.
  unfold pending_kind in Hk. apply orb_false_iff in Hk as [Hq Ha].
  assert (Hz : forall qs, contrib (map (fun q => (mk1 K_QUEUE_PEND q, ar)) qs) k ty = 0).
  { induction qs as [|q qs IHq]; [reflexivity|]. cbn [map]. rewrite contrib_cons, IHq.
    destruct (key_eqb_spec (fst (mk1 K_QUEUE_PEND q, ar)) k) as [E|E]; [|reflexivity].
    subst k. cbn in Hq. discriminate. }
  rewrite Hz. destruct (key_eqb_spec (fst (mk1 K_APP_PEND (ka_id a), ar)) k) as [E|E]; [|reflexivity].
  subst k. cbn in Ha. discriminate.
Qed.
Theorem recover_inflight_only_pending_thm s k ty : pending_kind k = false ->
  totals_from_knowledge (shim_knowledge s) k ty = totals_from_knowledge (own_view s) k ty.
Proof.
  intros Hk. unfold totals_from_knowledge, knowledge_postings, replay_ops, shim_knowledge, own_view.
  cbn [k_nodes k_apps k_bound k_foreign k_asks]. rewrite !flat_map_app, !contrib_app.
  rewrite !(ask_contrib_zero _ _ k ty Hk). reflexivity.
Qed.

(* ---- the hypotheses are satisfiable on a non-trivial knowledge ---- *)
Open Scope N_scope.
Definition ex_K : knowledge :=
  mkK [1; 2] [mkKA 10 [21; 20] 30; mkKA 11 [22; 20] 31]
      [(40, 10, 1, [(1, 3%Z); (2, 5%Z)], false); (41, 10, 2, [(1, 2%Z)], true); (42, 11, 1, [(2, 4%Z)], false)]
      [(50, 2, [(1, 1%Z)])] [(43, 11, [(1, 7%Z)])].
Definition ex_order : list rop :=
  [RApp (mkKA 11 [22; 20] 31); RNode 2; RForeign 50 2 [(1, 1%Z)]; RAsk 43 11 [(1, 7%Z)]; RNode 1; RBound 42 11 1 [(2, 4%Z)] false;
   RApp (mkKA 10 [21; 20] 30); RBound 41 10 2 [(1, 2%Z)] true; RBound 40 10 1 [(1, 3%Z); (2, 5%Z)] false].
Example ex_replay :
  match run rinit ex_order with
  | Some s' => lookup (rs_tot s') (mk1 K_QUEUE_ALLOC 20) 1 = 5%Z /\ lookup (rs_tot s') (mk1 K_NODE_ALLOC 1) 2 = 9%Z /\
               lookup (rs_tot s') (mk1 K_APP_PH 10) 1 = 2%Z /\ lookup (rs_tot s') (mk1 K_NODE_OCC 2) 1 = 1%Z /\
               lookup (rs_tot s') (K_USER, (30, 20)) 1 = 5%Z /\ lookup (rs_tot s') (mk1 K_QUEUE_PEND 20) 1 = 7%Z
  | None => False
  end /\ totals_from_knowledge ex_K (mk1 K_QUEUE_ALLOC 20) 1 = 5%Z.
Proof. vm_compute. repeat split. Qed.

(* ---- boolean checkers for the hypotheses of recover_totals (sound), used for the example below and by the
   oracle to confirm that observed cases satisfy them ---- *)
Lemma nodupN_sound l : nodupN l = true -> NoDup l.
Proof.
  induction l as [|x t IH]; intros H; [constructor|]. cbn in H. apply andb_prop in H as [H1 H2].
  constructor; [|apply IH; exact H2]. intros Hin. apply memN_in in Hin. rewrite Hin in H1. discriminate.
Qed.
Lemma rokb_sound r : rokb r = true -> rok r.
Proof.
  unfold rokb, rok. intros H. apply andb_prop in H as [H1 H2]. split; [apply nodupN_sound; exact H1|].
  apply Forall_forall. intros kv Hkv. rewrite forallb_forall in H2. specialize (H2 kv Hkv).
  apply andb_prop in H2 as [Ha Hb]. apply Z.leb_le in Ha, Hb. lia.
Qed.
Lemma op_okb_sound op : op_okb op = true -> op_ok op.
Proof.
  destruct op; cbn; intros H; try exact I.
  - apply andb_prop in H as [H1 H2]. split; [exact H1|apply rokb_sound; exact H2].
  - apply rokb_sound. exact H.
  - apply andb_prop in H as [H1 H2]. split; [exact H1|apply rokb_sound; exact H2].
Qed.
Lemma replay_wfb_sound R : replay_wfb R = true -> replay_wf R.
Proof.
  unfold replay_wfb, replay_wf. intros H. repeat (apply andb_prop in H as [H ?]).
  repeat split; try (apply nodupN_sound; assumption).
  apply Forall_forall. intros op Hop. apply op_okb_sound. rewrite forallb_forall in H0. apply H0. exact Hop.
Qed.

Lemma needsb_sound op pre : needsb op pre = true -> needs op pre.
Proof.
  destruct op; cbn; intros H; try exact I.
  - apply andb_prop in H as [H1 H2]. split; apply memN_in; assumption.
  - apply memN_in. exact H.
  - apply memN_in. exact H.
Qed.
Lemma admissible_from_sound rest : forall pre0, admissible_from pre0 rest = true ->
  forall pre op r, rest = pre ++ op :: r -> needs op (pre0 ++ pre).
Proof.
  induction rest as [|x rest IH]; intros pre0 H pre op r Hsplit; [destruct pre; discriminate|].
  cbn in H. apply andb_prop in H as [H1 H2]. destruct pre as [|y pre]; cbn in Hsplit; inversion Hsplit; subst.
  - rewrite app_nil_r. apply needsb_sound. exact H1.
  - specialize (IH (pre0 ++ [y]) H2 pre op r eq_refl). rewrite <- app_assoc in IH. exact IH.
Qed.
Lemma admissibleb_sound ops : admissibleb ops = true -> admissible ops.
Proof. intros H pre op rest Hs. apply (admissible_from_sound ops [] H pre op rest Hs). Qed.

(* sufficient for bounded: the sum of every value of every posting stays within int64 *)
Lemma getz_le_sumvals r ty : Forall (fun kv => (0 <= snd kv <= MAX)%Z) r -> (getz r ty <= sumvals r)%Z /\ (0 <= sumvals r)%Z.
Proof.
  induction r as [|[k v] t IH]; intros H; [cbn; lia|]. inversion H as [|? ? Hv Ht]; subst. cbn [snd] in Hv.
  destruct (IH Ht) as [I1 I2]. unfold getz in *. cbn [get sumvals fold_right snd]. fold (sumvals t).
  destruct (N.eqb ty k); [lia|]. destruct (get t ty); lia.
Qed.
Lemma contrib_le_sumall ps k ty : Forall pok ps -> (contrib ps k ty <= sumall ps)%Z /\ (0 <= sumall ps)%Z.
Proof.
  induction ps as [|p ps IH]; intros H; [cbn; lia|]. inversion H as [|? ? Hp Hps]; subst.
  destruct (IH Hps) as [I1 I2]. rewrite contrib_cons. cbn [sumall fold_right]. fold (sumall ps).
  pose proof (rok_getz (snd p) ty Hp) as G0.
  destruct Hp as [_ Hv]. destruct (getz_le_sumvals (snd p) ty Hv) as [G1 G2].
  destruct (key_eqb (fst p) k); lia.
Qed.
Lemma boundedb_sound R : Forall op_ok R -> boundedb R = true -> bounded R.
Proof.
  intros Hok H k ty. apply Z.leb_le in H. pose proof (contrib_le_sumall _ k ty (all_postings_ok (apps_of R) R Hok)) as [H1 _]. lia.
Qed.

Example ex_hypotheses :
  replay_wf (replay_ops ex_K) /\ bounded (replay_ops ex_K) /\ admissible (replay_ops ex_K) /\
  Permutation (replay_ops ex_K) (replay_ops ex_K) /\ admissible ex_order.
Proof.
  assert (Hwf : replay_wf (replay_ops ex_K)) by (apply replay_wfb_sound; vm_compute; reflexivity).
  split; [exact Hwf|]. split; [apply boundedb_sound; [apply Hwf|vm_compute; reflexivity]|].
  split; [apply admissibleb_sound; vm_compute; reflexivity|]. split; [apply Permutation_refl|].
  apply admissibleb_sound. vm_compute. reflexivity.
Qed.
