(* Tie theorems (C02): Queue.allocatedResFits, the per-queue step of Queue.TryIncAllocatedResource (fit check, then
   increment) and Queue.internalHeadRoom GENERATED from pkg/scheduler/objects/queue.go (Generated/GoObjects.v) equal
   q_fits and the per-queue step of q_try_inc of Core/Model.v (the recursion over the ancestors is the model's
   forallb / on_path over path_ids; the skipped parent recursion is pinned). internalHeadRoom has no hand-written
   counterpart: characterisation. An error result is `true`. *)
From Coq Require Import String List ZArith NArith Bool Lia.
From YK Require Import Base.Int64 Base.F64 Base.Res Base.ResSpec Base.ResLemmas Core.Obs Core.Model
  Generated.GoPrelude Generated.GoResources Generated.GoObjects Base.GoTieLib Base.GoTieRep Base.GoTieClone Base.GoTieRes Base.GoTieFit Base.GoTieCw Core.GoTieQ.
Import ListNotations.
Open Scope Z_scope.

Theorem gotie_isRoot sq q : qres_rep sq q -> GoObjects.isRoot sq = (q_parent q =? 0)%N.
Proof. intros (_ & _ & _ & H). exact H. Qed.

Theorem gotie_allocatedResFits sq q r : qres_rep sq q -> wf r ->
  GoObjects.allocatedResFits sq (Some (mkR r)) = GOk (q_fits q r).
Proof.
  intros (Hm & Ha & Hp & Hr) Hw. unfold GoObjects.allocatedResFits, q_fits. cbv zeta.
  unfold GoObjects.isRoot. rewrite Hr, Hm, Ha.
  pose proof (gotie_AddOnlyExisting (Some r) (Some (q_alloc q)) Hw) as E. cbn [toR option_map] in E. rewrite E.
  cbn [gbind].
  destruct (q_parent q =? 0)%N.
  - rewrite (gotie_FitIn (q_max q) (Res.AddOnlyExisting (Some r) (Some (q_alloc q)))). reflexivity.
  - rewrite (gotie_FitInMaxUndef (q_max q) (Res.AddOnlyExisting (Some r) (Some (q_alloc q)))). reflexivity.
Qed.

(* one queue of q_try_inc: checked against its own pre-state, then allocated := Add allocated r *)
Definition q_inc_step (q : oqueue) (r : res) : oqueue := q_with q (q_max q) (Res.Add (Some (q_alloc q)) (Some r)) (q_pending q).

Theorem gotie_TryIncAllocatedResource_step sq q r : qres_rep sq q -> wf r -> wf (q_alloc q) ->
  exists sq', GoObjects.TryIncAllocatedResource_step sq (Some (mkR r)) = GOk (sq', negb (q_fits q r)) /\
              qres_rep sq' (if q_fits q r then q_inc_step q r else q).
Proof.
  intros Hrep Hw Hwa. unfold GoObjects.TryIncAllocatedResource_step.
  rewrite (gotie_allocatedResFits sq q r Hrep Hw). cbn [gbind].
  destruct Hrep as (Hm & Ha & Hp & Hr).
  destruct (q_fits q r); cbn [negb].
  - rewrite Ha. pose proof (gotie_Add (Some (q_alloc q)) (Some r) Hwa) as E. cbn [toR option_map] in E. rewrite E.
    cbn [gbind]. unfold GoObjects.updateAllocatedResourceMetrics.
    destruct sq; cbn in *. eexists; split; [reflexivity|]. unfold qres_rep, q_inc_step, q_with; cbn. auto.
  - eexists; split; [reflexivity|]. unfold qres_rep; auto.
Qed.

Example TryIncAllocatedResource_skipped_pinned : GoObjects.TryIncAllocatedResource_step_skipped =
"if sq.parent != nil {
	if err := sq.parent.TryIncAllocatedResource(alloc); err != nil {
		if sq.isLeaf {
		}
		return err
	}
}"%string.
Proof. reflexivity. Qed.

(* internalHeadRoom: no max: the parent's headroom; otherwise max - allocated on the types of max, limited by the parent's *)
Theorem gotie_internalHeadRoom sq q parent : qres_rep sq q -> owf (q_max q) -> owf parent ->
  owf (Res.SubOnlyExisting (q_max q) (Some (q_alloc q))) ->
  GoObjects.internalHeadRoom sq (toR parent) =
  GOk (toR (match q_max q with
            | None => parent
            | Some _ => let h := Res.SubOnlyExisting (q_max q) (Some (q_alloc q)) in
                        match parent with None => h | Some _ => Res.ComponentWiseMin h parent end
            end)).
Proof.
  intros (Hm & Ha & Hp & Hr) Hwm Hwp Hwh. unfold GoObjects.internalHeadRoom. cbv zeta. rewrite Hm, Ha.
  destruct (q_max q) as [m|] eqn:Em; cbn [toR option_map is_nil]; [|reflexivity].
  pose proof (gotie_SubOnlyExisting (Some m) (Some (q_alloc q)) Hwm) as E. cbn [toR option_map] in E. rewrite E.
  cbn [gbind]. destruct parent as [p|]; cbn [toR option_map is_nil]; [|reflexivity].
  change (Some (mkR p)) with (toR (Some p)).
  change (option_map mkR (Res.SubOnlyExisting (Some m) (Some (q_alloc q)))) with (toR (Res.SubOnlyExisting (Some m) (Some (q_alloc q)))).
  rewrite (gotie_ComponentWiseMin _ (Some p) Hwh Hwp). reflexivity.
Qed.
