(* C09 bridge, part 1: from the structured reservation invariant [RInv] over an [ostate] (Core/Model4ProofsR1.v, kept by
   the runs of [m_step4]: Props/C09d.v) to the flattened boolean predicates of the component model Core/Reserve.v that the
   C09 oracle (Oracles/CoreC09.v) evaluates on [proj09 s].

   Side conditions [WF9 s] (none of them is a reservation fact):
     w_ids    unique application / node / queue identifiers, allocation keys unique ([Ids], part of [Inv] of C03);
     w_compl  applications in the completed list hold no reservation ([proj09] collects the application view over
              [s_apps ++ s_completed], [RInv] speaks about [s_apps] only);
     w_queue  the queue of every live application is registered ([inv_app_leaf] of [Inv]).
   This file: general list lemmas, the shape of [proj09 s], clauses 901 (views_app_node), 904 (one_per_ask),
   905 (only_outstanding), 908 (cleanup).  Part 2: 902 (views_queue), 906 (one_per_node_unless_required), the summary. *)
From Coq Require Import List ZArith NArith Bool Lia ZifyBool.
From YK Require Import Base.Res Core.Obs Core.Reserve Oracles.CoreC09 Core.Model4ProofsR1.
Import ListNotations.
Open Scope N_scope.
Set Default Timeout 30.

(* ------------------------------------------------------------------ reflection of the boolean helpers *)
Lemma rres_eqb_eq x y : rres_eqb x y = true <-> x = y.
Proof. destruct x as [a k n], y as [a' k' n']. unfold rres_eqb. cbn [r_app r_key r_node]. rewrite !andb_true_iff, !N.eqb_eq. split.
  - intros [[-> ->] ->]. reflexivity.
  - intros H. inversion H. auto. Qed.
Lemma memR_in x l : memR x l = true <-> In x l.
Proof. unfold memR. rewrite existsb_exists. split.
  - intros (y & Hy & E). apply rres_eqb_eq in E. subst. exact Hy.
  - intros H. exists x. split; [exact H|apply rres_eqb_eq; reflexivity]. Qed.
Lemma subR_incl a b : subR a b = true <-> incl a b.
Proof. unfold subR, incl. rewrite forallb_forall. split; intros H x Hx; apply memR_in; apply H; exact Hx. Qed.
Lemma memN_in9 x l : memN x l = true <-> In x l.
Proof. unfold memN. rewrite existsb_exists. split.
  - intros (y & Hy & E). apply N.eqb_eq in E. subst. exact Hy.
  - intros H. exists x. split; [exact H|apply N.eqb_refl]. Qed.

(* ------------------------------------------------------------------ lists *)
Lemma flat_map_nil {A B} (g : A -> list B) l : (forall a, In a l -> g a = []) -> flat_map g l = [].
Proof. induction l as [|h t IH]; intros H; [reflexivity|]. cbn [flat_map]. rewrite (H h (or_introl eq_refl)). apply IH. intros a Ha. apply H. right. exact Ha. Qed.
Lemma map_flat_map9 {A B C} (f : B -> C) (g : A -> list B) l : map f (flat_map g l) = flat_map (fun a => map f (g a)) l.
Proof. induction l as [|h t IH]; [reflexivity|]. cbn [flat_map]. rewrite map_app, IH. reflexivity. Qed.
Lemma find_append {A} (p : A -> bool) l1 l2 : find p (l1 ++ l2) = match find p l1 with Some x => Some x | None => find p l2 end.
Proof. induction l1 as [|h t IH]; [reflexivity|]. cbn [app find]. destruct (p h); [reflexivity|exact IH]. Qed.
Lemma find_flat_map_some {A B} (p : B -> bool) (g : A -> list B) l e : find p (flat_map g l) = Some e -> exists q, In q l /\ find p (g q) = Some e.
Proof. induction l as [|h t IH]; cbn [flat_map find]; [discriminate|]. rewrite find_append. destruct (find p (g h)) eqn:E.
  - intros H. inversion H; subst. exists h. split; [left; reflexivity|exact E].
  - intros H. destruct (IH H) as (q & Hq & Eq). exists q. split; [right; exact Hq|exact Eq]. Qed.
Lemma find_flat_map_none {A B} (p : B -> bool) (g : A -> list B) l : find p (flat_map g l) = None -> forall q, In q l -> find p (g q) = None.
Proof. induction l as [|h t IH]; cbn [flat_map]; [intros _ q []|]. rewrite find_append. destruct (find p (g h)) eqn:E; [discriminate|].
  intros H q [<-|Hq]; [exact E|apply IH; assumption]. Qed.
Lemma filter_none {A} (p : A -> bool) l : (forall x, In x l -> p x = false) -> filter p l = [].
Proof. induction l as [|h t IH]; intros H; [reflexivity|]. cbn [filter]. rewrite (H h (or_introl eq_refl)). apply IH. intros x Hx. apply H. right. exact Hx. Qed.
Lemma filter_all {A} (p : A -> bool) l : (forall x, In x l -> p x = true) -> filter p l = l.
Proof. induction l as [|h t IH]; intros H; [reflexivity|]. cbn [filter]. rewrite (H h (or_introl eq_refl)). f_equal. apply IH. intros x Hx. apply H. right. exact Hx. Qed.
(* the elements of a flattened list that carry the key of one generator *)
Lemma filter_flat_map_key {A B} (key : A -> N) (g : A -> list B) (sel : B -> N) l a :
  NoDup (map key l) -> In a l -> (forall b x, In x (g b) -> sel x = key b) ->
  filter (fun x => sel x =? key a) (flat_map g l) = g a.
Proof. intros Hn Ha Hs. induction l as [|h t IH]; [contradiction|]. cbn [map] in Hn. inversion Hn as [|? ? Hh Ht]; subst.
  cbn [flat_map]. rewrite filter_app. destruct Ha as [->|Ha].
  - rewrite filter_all; [|intros x Hx; rewrite (Hs a x Hx); apply N.eqb_refl].
    rewrite filter_none; [apply app_nil_r|]. intros x Hx. apply in_flat_map in Hx. destruct Hx as (b & Hb & Hx). rewrite (Hs b x Hx).
    apply N.eqb_neq. intros C. apply Hh. rewrite <- C. apply in_map. exact Hb.
  - rewrite filter_none; [cbn [app]; apply IH; assumption|]. intros x Hx. rewrite (Hs h x Hx). apply N.eqb_neq. intros C. apply Hh. rewrite C. apply in_map. exact Ha. Qed.
Lemma NoDup_map_inj {A B} (f : A -> B) l : (forall x y, In x l -> In y l -> f x = f y -> x = y) -> NoDup l -> NoDup (map f l).
Proof. induction l as [|h t IH]; intros Hi Hn; [constructor|]. inversion Hn as [|? ? Hh Ht]; subst. cbn [map]. constructor.
  - intros C. apply in_map_iff in C. destruct C as (y & E & Hy). assert (y = h) by (apply Hi; [right; exact Hy|left; reflexivity|exact E]). subst y. contradiction.
  - apply IH; [|exact Ht]. intros x y Hx Hy. apply Hi; right; assumption. Qed.
Lemma NoDup_flat_map9 {A B} (h : A -> list B) l :
  NoDup l -> (forall a, In a l -> NoDup (h a)) -> (forall a1 a2 k, In a1 l -> In a2 l -> In k (h a1) -> In k (h a2) -> a1 = a2) -> NoDup (flat_map h l).
Proof. induction l as [|a t IH]; intros Hn He Hc; [constructor|]. inversion Hn as [|? ? Ha Ht]; subst. cbn [flat_map].
  assert (IHt : NoDup (flat_map h t)). { apply IH; [exact Ht|intros b Hb; apply He; right; exact Hb|]. intros a1 a2 k H1 H2. apply Hc; right; assumption. }
  assert (Hd : forall k, In k (h a) -> ~ In k (flat_map h t)).
  { intros k Hk C. apply in_flat_map in C. destruct C as (b & Hb & Hkb). assert (a = b) by (apply (Hc a b k); [left; reflexivity|right; exact Hb|exact Hk|exact Hkb]). subst b. contradiction. }
  specialize (He a (or_introl eq_refl)). revert He Hd. generalize (h a) as la. induction la as [|x u IHu]; intros He Hd; [exact IHt|]. cbn [app].
  inversion He as [|? ? Hx Hu]; subst. constructor.
  - intros C. apply in_app_or in C. destruct C as [C|C]; [contradiction|]. apply (Hd x); [left; reflexivity|exact C].
  - apply IHu; [exact Hu|]. intros k Hk. apply Hd. right. exact Hk. Qed.
Lemma NoDup_of_map {A B} (f : A -> B) l : NoDup (map f l) -> NoDup l.
Proof. induction l as [|h t IH]; intros H; [constructor|]. cbn [map] in H. inversion H as [|? ? Hh Ht]; subst. constructor; [|auto].
  intros C. apply Hh. apply in_map. exact C. Qed.

(* ------------------------------------------------------------------ [nodup_ask] is NoDup of the (application, key) pairs *)
Definition rk (x : rres) : N * N := (r_app x, r_key x).
Lemma is_res_rk a k x : is_res a k x = true <-> rk x = (a, k).
Proof. unfold is_res, rk. rewrite andb_true_iff, !N.eqb_eq. split; [intros [-> ->]; reflexivity|intros H; inversion H; auto]. Qed.
Lemma nodup_ask_spec l : nodup_ask l = true <-> NoDup (map rk l).
Proof. induction l as [|x t IH]; cbn [nodup_ask map]; [split; [constructor|reflexivity]|].
  rewrite andb_true_iff, negb_true_iff, IH. split.
  - intros [H1 H2]. constructor; [|exact H2]. intros C. apply in_map_iff in C. destruct C as (y & E & Hy).
    assert (X : existsb (is_res (r_app x) (r_key x)) t = true); [|congruence]. apply existsb_exists. exists y. split; [exact Hy|apply is_res_rk; exact E].
  - intros H. inversion H as [|? ? Hx Ht]; subst. split; [|exact Ht]. destruct (existsb _ t) eqn:E; [|reflexivity]. exfalso. apply Hx.
    apply existsb_exists in E. destruct E as (y & Hy & E). apply is_res_rk in E. apply in_map_iff. exists y. split; assumption. Qed.

(* ------------------------------------------------------------------ the shape of the projection *)
Definition app_tr (a : oapp) : list rres := map (fun p => mkR (ap_id a) (snd p) (fst p)) (ap_reservations a).
Definition node_tr (n : onode) : list rres := map (fun p => mkR (fst p) (snd p) (on_id n)) (on_reservations n).
Definition app_asks (a : oapp) : list rask := map (fun r => mkRA (ap_id a) (oa_key r) (oa_allocated r) (oa_reqnode r)) (ap_requests a).

Definition ComplClean (s : ostate) : Prop := forall a, In a (s_completed s) -> ap_reservations a = [].
Definition QueuesReg (s : ostate) : Prop := forall a, In a (s_apps s) -> exists q, In q (s_queues s) /\ q_id q = ap_queue a.
Record WF9 (s : ostate) : Prop := mkWF9 { w_ids : Ids s; w_compl : ComplClean s; w_queue : QueuesReg s }.

Lemma rv_app_live s : ComplClean s -> rv_app (proj09 s) = flat_map app_tr (s_apps s).
Proof. intros Hc. unfold proj09. cbn [rv_app]. rewrite flat_map_app.
  rewrite (flat_map_nil _ (s_completed s)); [apply app_nil_r|]. intros a Ha. rewrite (Hc a Ha). reflexivity. Qed.
Lemma rv_node_eq s : rv_node (proj09 s) = flat_map node_tr (s_nodes s). Proof. reflexivity. Qed.
Lemma rv_asks_eq s : rv_asks (proj09 s) = flat_map app_asks (s_apps s). Proof. reflexivity. Qed.
Lemma rv_queue_eq s : rv_queue (proj09 s) = flat_map q_reserved (s_queues s). Proof. reflexivity. Qed.

Lemma in_app_tr l x : In x (flat_map app_tr l) <-> exists a nid k, In a l /\ In (nid, k) (ap_reservations a) /\ x = mkR (ap_id a) k nid.
Proof. rewrite in_flat_map. unfold app_tr. split.
  - intros (a & Ha & Hx). apply in_map_iff in Hx. destruct Hx as ([nid k] & E & Hp). exists a, nid, k. cbn [fst snd] in E. auto.
  - intros (a & nid & k & Ha & Hp & ->). exists a. split; [exact Ha|]. apply in_map_iff. exists (nid, k). auto. Qed.
Lemma in_node_tr l x : In x (flat_map node_tr l) <-> exists n aid k, In n l /\ In (aid, k) (on_reservations n) /\ x = mkR aid k (on_id n).
Proof. rewrite in_flat_map. unfold node_tr. split.
  - intros (n & Hn & Hx). apply in_map_iff in Hx. destruct Hx as ([aid k] & E & Hp). exists n, aid, k. cbn [fst snd] in E. auto.
  - intros (n & aid & k & Hn & Hp & ->). exists n. split; [exact Hn|]. apply in_map_iff. exists (aid, k). auto. Qed.

(* the ask the component model finds under (application, key) is the request of the operational state *)
Lemma find_ask_proj_some s aid k y : find_ask (proj09 s) aid k = Some y ->
  exists a x, In a (s_apps s) /\ In x (ap_requests a) /\ ap_id a = aid /\ oa_key x = k /\ y = mkRA aid k (oa_allocated x) (oa_reqnode x).
Proof. unfold find_ask. rewrite rv_asks_eq. intros H. apply find_some in H. destruct H as [Hy E]. apply in_flat_map in Hy. destruct Hy as (a & Ha & Hy).
  unfold app_asks in Hy. apply in_map_iff in Hy. destruct Hy as (x & <- & Hx). unfold is_ask in E. cbn [ra_app ra_key] in E.
  apply andb_true_iff in E. destruct E as [E1 E2]. apply N.eqb_eq in E1, E2. subst. exists a, x. auto. Qed.
Lemma find_ask_proj s a x : Ids s -> In a (s_apps s) -> In x (ap_requests a) ->
  find_ask (proj09 s) (ap_id a) (oa_key x) = Some (mkRA (ap_id a) (oa_key x) (oa_allocated x) (oa_reqnode x)).
Proof. intros HI Ha Hx. destruct (find_ask (proj09 s) (ap_id a) (oa_key x)) as [y|] eqn:E.
  - destruct (find_ask_proj_some _ _ _ _ E) as (a' & x' & Ha' & Hx' & E1 & E2 & ->).
    assert (a' = a) by (apply (nodup_key_eq ap_id (s_apps s)); auto; apply (id_apps s HI)). subst a'.
    assert (x' = x) by (apply (nodup_key_eq oa_key (ap_requests a)); auto; apply (id_reqkeys s HI a Ha)). subst x'. reflexivity.
  - exfalso. unfold find_ask in E. rewrite rv_asks_eq in E.
    pose proof (find_none _ _ E (mkRA (ap_id a) (oa_key x) (oa_allocated x) (oa_reqnode x))) as C.
    unfold is_ask in C. cbn [ra_app ra_key] in C. rewrite !N.eqb_refl in C. cbn in C. assert (true = false); [|discriminate]. apply C.
    apply in_flat_map. exists a. split; [exact Ha|]. unfold app_asks. apply in_map_iff. exists x. split; [reflexivity|exact Hx]. Qed.

(* ------------------------------------------------------------------ 901: application view = node view *)
Theorem rinv_views_app_node s : RInv s -> ComplClean s -> views_app_node (proj09 s) = true.
Proof. intros HR Hc. unfold views_app_node. rewrite andb_true_iff, !subR_incl, (rv_app_live s Hc), rv_node_eq. split; intros x Hx.
  - apply in_app_tr in Hx. destruct Hx as (a & nid & k & Ha & Hp & ->). destruct (r_an _ s HR a nid k Ha Hp) as (n & Hn & <- & Hin).
    apply in_node_tr. exists n, (ap_id a), k. auto.
  - apply in_node_tr in Hx. destruct Hx as (n & aid & k & Hn & Hp & ->). destruct (r_na _ s HR n aid k Hn Hp) as (a & Ha & <- & Hin).
    apply in_app_tr. exists a, (on_id n), k. auto. Qed.

(* ------------------------------------------------------------------ 908: no dangling application / node *)
Theorem rinv_cleanup s : RInv s -> ComplClean s -> cleanup (proj09 s) = true.
Proof. intros HR Hc. unfold cleanup. rewrite andb_true_iff, !forallb_forall, (rv_app_live s Hc), rv_node_eq.
  assert (L : forall a n, In a (s_apps s) -> In n (s_nodes s) -> res_live (proj09 s) (mkR (ap_id a) 0 (on_id n)) = true).
  { intros a n Ha Hn. unfold res_live. cbn [r_app r_node proj09 rv_apps rv_nodes]. rewrite andb_true_iff, !memN_in9. split; apply in_map; assumption. }
  split; intros x Hx.
  - apply in_app_tr in Hx. destruct Hx as (a & nid & k & Ha & Hp & ->). destruct (r_an _ s HR a nid k Ha Hp) as (n & Hn & <- & Hin). exact (L a n Ha Hn).
  - apply in_node_tr in Hx. destruct Hx as (n & aid & k & Hn & Hp & ->). destruct (r_na _ s HR n aid k Hn Hp) as (a & Ha & <- & Hin). exact (L a n Ha Hn). Qed.

(* ------------------------------------------------------------------ 904: one reservation per ask, in both views *)
Lemma nodup_app_view s : Ids0 s -> RInv s -> NoDup (map rk (flat_map app_tr (s_apps s))).
Proof. intros HI HR. rewrite map_flat_map9. apply NoDup_flat_map9.
  - apply (NoDup_of_map ap_id). apply (id0_apps s HI).
  - intros a Ha. unfold app_tr. rewrite map_map. unfold rk. cbn [r_app r_key].
    rewrite <- (map_map snd (fun k => (ap_id a, k))). apply NoDup_map_inj; [intros x y _ _ E; inversion E; reflexivity|apply (r_akeys _ s HR a Ha)].
  - intros a1 a2 k H1 H2 K1 K2. apply (nodup_key_eq ap_id (s_apps s)); auto; [apply (id0_apps s HI)|].
    unfold app_tr in K1, K2. rewrite map_map in K1, K2. apply in_map_iff in K1, K2. destruct K1 as (p1 & E1 & _), K2 as (p2 & E2 & _).
    unfold rk in E1, E2. cbn [r_app r_key] in E1, E2. rewrite <- E2 in E1. inversion E1. auto. Qed.
Lemma nodup_node_view s : Ids0 s -> RInv s -> NoDup (map rk (flat_map node_tr (s_nodes s))).
Proof. intros HI HR. rewrite map_flat_map9. apply NoDup_flat_map9.
  - apply (NoDup_of_map on_id). apply (id0_nodes s HI).
  - intros n Hn. unfold node_tr. rewrite map_map. unfold rk. cbn [r_app r_key].
    apply NoDup_map_inj; [|apply (NoDup_of_map snd); apply (r_nkeys _ s HR n Hn)]. intros [a1 k1] [a2 k2] _ _ E. exact E.
  - intros n1 n2 p H1 H2 K1 K2. unfold node_tr in K1, K2. rewrite map_map in K1, K2. apply in_map_iff in K1, K2.
    destruct K1 as ([aid k] & E1 & P1), K2 as ([aid2 k2] & E2 & P2). unfold rk in E1, E2. cbn [r_app r_key fst snd] in E1, E2. subst p. inversion E2. subst aid2 k2.
    destruct (r_na _ s HR n1 aid k H1 P1) as (a1 & Ha1 & Ea1 & R1). destruct (r_na _ s HR n2 aid k H2 P2) as (a2 & Ha2 & Ea2 & R2).
    assert (a2 = a1) by (apply (nodup_key_eq ap_id (s_apps s)); auto; [apply (id0_apps s HI)|congruence]). subst a2.
    assert (E : (on_id n1, k) = (on_id n2, k)) by (apply (nodup_key_eq snd (ap_reservations a1)); auto; apply (r_akeys _ s HR a1 Ha1)).
    inversion E. apply (nodup_key_eq on_id (s_nodes s)); auto. apply (id0_nodes s HI). Qed.
Theorem rinv_one_per_ask s : RInv s -> Ids0 s -> ComplClean s -> one_per_ask (proj09 s) = true.
Proof. intros HR HI Hc. unfold one_per_ask. rewrite andb_true_iff, !nodup_ask_spec, (rv_app_live s Hc), rv_node_eq.
  split; [apply nodup_app_view|apply nodup_node_view]; assumption. Qed.

(* ------------------------------------------------------------------ 905: only outstanding asks hold reservations *)
Lemma outstanding_of s a nid k : Ids s -> In a (s_apps s) -> outstanding_at a nid k -> outstanding (proj09 s) (ap_id a) k = true.
Proof. intros HI Ha (x & Hx & <- & Eal & _). unfold outstanding. rewrite (find_ask_proj s a x HI Ha Hx). cbn [ra_allocated]. rewrite Eal. reflexivity. Qed.
Theorem rinv_only_outstanding s : RInv s -> Ids s -> ComplClean s -> only_outstanding (proj09 s) = true.
Proof. intros HR HI Hc. unfold only_outstanding. rewrite andb_true_iff, !forallb_forall, (rv_app_live s Hc), rv_node_eq. split; intros x Hx.
  - apply in_app_tr in Hx. destruct Hx as (a & nid & k & Ha & Hp & ->). cbn [r_app r_key].
    apply (outstanding_of s a nid k HI Ha). apply (r_out _ s HR a nid k Ha Hp). apply exempt_none.
  - apply in_node_tr in Hx. destruct Hx as (n & aid & k & Hn & Hp & ->). cbn [r_app r_key].
    destruct (r_na _ s HR n aid k Hn Hp) as (a & Ha & <- & Hin).
    apply (outstanding_of s a (on_id n) k HI Ha). apply (r_out _ s HR a (on_id n) k Ha Hin). apply exempt_none. Qed.
