(* C09 over the operational model, part 2: removing and adding ONE reservation (application map, node map, queue
   counter) preserves [RInv]; the writers of Core/Model4.v are these two transformers. *)
From Coq Require Import List ZArith NArith Bool Lia ZifyBool ZifyN.
From YK Require Import Base.Int64 Base.Res Core.Obs Core.Model Core.Model2 Core.Ledger Core.Model4 Core.Model4ProofsF Core.Model4ProofsR1.
From YK Require Core.Reserve Core.ReserveLemmas.
Import ListNotations.
Open Scope N_scope.
Set Default Timeout 30.

(* the queue counters are those of the component model Core/Reserve.v *)
Lemma qr_unreserve_eq a n l : qr_unreserve a n l = Reserve.q_unreserve a n l. Proof. reflexivity. Qed.
Lemma qr_reserve_eq a l : qr_reserve a l = Reserve.q_reserve a l. Proof. reflexivity. Qed.
Lemma qcount_eq l a : qcount l a = Reserve.queue_count l a. Proof. reflexivity. Qed.

Lemma qr_unreserve_src a n l en : In en (qr_unreserve a n l) -> exists y, In y l /\ fst y = fst en.
Proof. unfold qr_unreserve. destruct (find _ l) as [x|]; [|eauto]. destruct (snd x <=? n).
  - intros H. apply filter_In in H. exists en. tauto.
  - intros H. apply in_map_iff in H. destruct H as (y & E & Hy). exists y. split; [exact Hy|]. destruct (fst y =? a); subst en; reflexivity. Qed.
Lemma qr_reserve_src a l en : In en (qr_reserve a l) -> (exists y, In y l /\ fst y = fst en) \/ fst en = a.
Proof. unfold qr_reserve. destruct (existsb _ l).
  - intros H. apply in_map_iff in H. destruct H as (y & E & Hy). left. exists y. split; [exact Hy|]. destruct (fst y =? a); subst en; reflexivity.
  - intros H. apply in_app_or in H. destruct H as [H|[<-|[]]]; [left; eauto|right; reflexivity]. Qed.

Lemma in_drop_key k l p : In p (drop_key k l) <-> In p l /\ snd p <> k.
Proof. unfold drop_key, key_is. rewrite filter_In, negb_true_iff, N.eqb_neq. tauto. Qed.
Lemma NoDup_map_filter' {A B} (f : A -> B) (p : A -> bool) l : NoDup (map f l) -> NoDup (map f (filter p l)).
Proof. apply ReserveLemmas.NoDup_map_filter. Qed.
Lemma drop_key_cons k h t : drop_key k (h :: t) = if negb (snd h =? k) then h :: drop_key k t else drop_key k t.
Proof. reflexivity. Qed.
Lemma drop_key_length k l nid : NoDup (map snd l) -> In (nid, k) l -> (length (drop_key k l) + 1 = length l)%nat.
Proof. induction l as [|h t IH]; intros Hn Hin; [contradiction|]. cbn [map] in Hn. inversion Hn as [|? ? Hh Ht]; subst.
  rewrite drop_key_cons. destruct Hin as [->|Hin].
  - cbn [snd]. rewrite N.eqb_refl. cbn [negb length].
    assert (E : drop_key k t = t). { apply ReserveLemmas.filter_all_true. intros x Hx. unfold key_is. apply negb_true_iff, N.eqb_neq. intros C. apply Hh. cbn [snd]. rewrite <- C. apply in_map. exact Hx. }
    rewrite E. lia.
  - assert (Hne : snd h <> k). { intros C. apply Hh. rewrite C. change k with (snd (nid, k)). apply in_map. exact Hin. }
    apply N.eqb_neq in Hne. rewrite Hne. cbn [negb length]. specialize (IH Ht Hin). lia. Qed.

(* ------------------------------------------------------------------ removing one reservation *)
Definition rm_state (s : ostate) (aid nid k qid : N) : ostate :=
  r_queue_unreserve (upd_app (upd_node s nid (fun n => n_set_res n (drop_key k (on_reservations n)))) aid
                             (fun b => ap_set_res b (drop_key k (ap_reservations b)))) qid aid 1.

Lemma r_cancel_rm s a nid k : find_app s (ap_id a) = Some a -> In (nid, k) (ap_reservations a) -> NoDup (map snd (ap_reservations a)) ->
  r_cancel s (ap_id a) k = (rm_state s (ap_id a) nid k (ap_queue a), 1).
Proof. intros Ea Hin Hnd. unfold r_cancel. rewrite Ea.
  assert (Ef : find (key_is k) (ap_reservations a) = Some (nid, k)).
  { change (key_is k) with (fun y : N * N => snd y =? snd (nid, k)). apply (find_in_nodup snd); assumption. }
  rewrite Ef. cbn [fst]. unfold r_unreserve_internal.
  change (find_app (upd_node s nid (fun n => n_set_res n (drop_key k (on_reservations n)))) (ap_id a)) with (find_app s (ap_id a)). rewrite Ea.
  assert (Ex : existsb (key_is k) (ap_reservations a) = true). { apply existsb_exists. exists (nid, k). split; [exact Hin|]. unfold key_is. cbn. apply N.eqb_refl. }
  rewrite Ex. reflexivity. Qed.

Section Rm.
  Variables (e e' : option (N * N)) (s : ostate) (a : oapp) (nid k : N).
  Hypothesis HI : Ids0 s.
  Hypothesis HR : RInvE e s.
  Hypothesis Ha : In a (s_apps s).
  Hypothesis Hin : In (nid, k) (ap_reservations a).
  Hypothesis Hex : forall a0 k0, exempt e a0 k0 -> exempt e' a0 k0 \/ (a0 = ap_id a /\ k0 = k).

  Let s' := rm_state s (ap_id a) nid k (ap_queue a).
  Let fa := fun b => if ap_id b =? ap_id a then ap_set_res b (drop_key k (ap_reservations b)) else b.
  Let fn := fun n => if on_id n =? nid then n_set_res n (drop_key k (on_reservations n)) else n.
  Let fq := fun q => if q_id q =? ap_queue a then q_set_reserved q (qr_unreserve (ap_id a) 1 (q_reserved q)) else q.

  Lemma rm_apps : s_apps s' = map fa (s_apps s). Proof. reflexivity. Qed.
  Lemma rm_nodes : s_nodes s' = map fn (s_nodes s). Proof. reflexivity. Qed.
  Lemma rm_queues : s_queues s' = map fq (s_queues s). Proof. reflexivity. Qed.

  Lemma rm_same_app b : In b (s_apps s) -> ap_id b = ap_id a -> b = a.
  Proof. intros Hb E. apply (nodup_key_eq ap_id (s_apps s)); auto. apply (id0_apps s HI). Qed.
  Lemma rm_fa_id b : ap_id (fa b) = ap_id b /\ ap_queue (fa b) = ap_queue b /\ ap_requests (fa b) = ap_requests b.
  Proof. unfold fa. destruct (ap_id b =? ap_id a); auto. Qed.
  Lemma rm_fn_id n : on_id (fn n) = on_id n. Proof. unfold fn. destruct (on_id n =? nid); reflexivity. Qed.
  Lemma rm_fq_id q : q_id (fq q) = q_id q. Proof. unfold fq. destruct (q_id q =? ap_queue a); reflexivity. Qed.

  (* the node that carries the removed reservation *)
  Lemma rm_node : exists n, In n (s_nodes s) /\ on_id n = nid /\ In (ap_id a, k) (on_reservations n).
  Proof. apply (r_an e s HR a nid k Ha Hin). Qed.

  Lemma rm_fa_res b nk : In b (s_apps s) -> (In nk (ap_reservations (fa b)) <-> In nk (ap_reservations b) /\ (ap_id b = ap_id a -> snd nk <> k)).
  Proof. intros Hb. unfold fa. destruct (N.eqb_spec (ap_id b) (ap_id a)) as [E|E].
    - cbn [ap_set_res ap_reservations]. rewrite in_drop_key. tauto.
    - tauto. Qed.
  Lemma rm_fn_res n p : In p (on_reservations (fn n)) <-> In p (on_reservations n) /\ (on_id n = nid -> snd p <> k).
  Proof. unfold fn. destruct (N.eqb_spec (on_id n) nid) as [E|E].
    - cbn [n_set_res on_reservations]. rewrite in_drop_key. tauto.
    - tauto. Qed.

  Theorem rm_rinv : RInvE e' s'.
  Proof. destruct HR as [H1 H2 H3 H4 H5 H6 H7 H8 H9]. destruct rm_node as (na & Hna & Ena & Hka).
    assert (IA : forall b', In b' (s_apps s') -> exists b, In b (s_apps s) /\ b' = fa b).
    { intros b' Hb'. rewrite rm_apps in Hb'. apply in_map_iff in Hb'. destruct Hb' as (b & <- & Hb). eauto. }
    assert (IN : forall n', In n' (s_nodes s') -> exists n, In n (s_nodes s) /\ n' = fn n).
    { intros n' Hn'. rewrite rm_nodes in Hn'. apply in_map_iff in Hn'. destruct Hn' as (n & <- & Hn). eauto. }
    assert (IQ : forall q', In q' (s_queues s') -> exists q, In q (s_queues s) /\ q' = fq q).
    { intros q' Hq'. rewrite rm_queues in Hq'. apply in_map_iff in Hq'. destruct Hq' as (q & <- & Hq). eauto. }
    assert (Hreq : forall p, required_ask s p -> required_ask s' p).
    { intros p (b & x & Hb & E1 & Hx & E2 & E3). exists (fa b), x. destruct (rm_fa_id b) as (F1 & F2 & F3). rewrite rm_apps, F1, F3.
      split; [apply in_map; exact Hb|auto]. }
    constructor.
    - (* r_an *) intros b' n0 k0 Hb' Hr. destruct (IA b' Hb') as (b & Hb & ->). apply (rm_fa_res b (n0, k0) Hb) in Hr. destruct Hr as [Hr Hk].
      destruct (rm_fa_id b) as (F1 & _). rewrite F1. destruct (H1 b n0 k0 Hb Hr) as (n & Hn & En & Hnk).
      exists (fn n). rewrite rm_nodes, rm_fn_id. split; [apply in_map; exact Hn|]. split; [exact En|]. apply rm_fn_res. split; [exact Hnk|].
      intros Enid. cbn [snd]. intros ->.
      (* the node nid lists (a, k) and (b, k): same entry *)
      assert (n = na) by (apply (nodup_key_eq on_id (s_nodes s)); auto; [apply (id0_nodes s HI)|congruence]). subst n.
      assert (Ep : (ap_id b, k) = (ap_id a, k)) by (apply (nodup_key_eq snd (on_reservations na)); auto).
      inversion Ep as [Eid]. apply (Hk Eid). reflexivity.
    - (* r_na *) intros n' aid0 k0 Hn' Hr. destruct (IN n' Hn') as (n & Hn & ->). apply rm_fn_res in Hr. destruct Hr as [Hr Hk]. rewrite rm_fn_id.
      destruct (H2 n aid0 k0 Hn Hr) as (b & Hb & Eb & Hbk). exists (fa b). destruct (rm_fa_id b) as (F1 & _). rewrite rm_apps, F1.
      split; [apply in_map; exact Hb|]. split; [exact Eb|]. apply (rm_fa_res b _ Hb). split; [exact Hbk|]. intros Eid. cbn [snd]. intros ->.
      assert (b = a) by (apply rm_same_app; assumption). subst b.
      assert (Ep : (on_id n, k) = (nid, k)) by (apply (nodup_key_eq snd (ap_reservations a)); auto).
      inversion Ep as [En]. apply (Hk En). reflexivity.
    - intros b' Hb'. destruct (IA b' Hb') as (b & Hb & ->). unfold fa. destruct (ap_id b =? ap_id a); [|auto].
      cbn [ap_set_res ap_reservations]. apply NoDup_map_filter'. auto.
    - intros n' Hn'. destruct (IN n' Hn') as (n & Hn & ->). unfold fn. destruct (on_id n =? nid); [|auto].
      cbn [n_set_res on_reservations]. apply NoDup_map_filter'. auto.
    - (* r_out *) intros b' n0 k0 Hb' Hr Hne. destruct (IA b' Hb') as (b & Hb & ->). apply (rm_fa_res b (n0, k0) Hb) in Hr. destruct Hr as [Hr Hk].
      destruct (rm_fa_id b) as (F1 & F2 & F3). rewrite F1 in Hne.
      assert (Ho : outstanding_at b n0 k0).
      { apply (H5 b n0 k0 Hb Hr). intros C. destruct (Hex _ _ C) as [C'|[C1 C2]]; [contradiction|]. apply (Hk C1). exact C2. }
      destruct Ho as (x & Hx & E1 & E2 & E3). exists x. rewrite F3. auto.
    - (* r_qcount *) intros b' q' Hb' Hq' Eid. destruct (IA b' Hb') as (b & Hb & ->). destruct (IQ q' Hq') as (q & Hq & ->).
      destruct (rm_fa_id b) as (F1 & F2 & F3). rewrite rm_fq_id, F2 in Eid. rewrite F1. pose proof (H6 b q Hb Hq Eid) as H6b.
      unfold fq, fa. destruct (N.eqb_spec (ap_id b) (ap_id a)) as [Eb|Eb].
      + assert (b = a) by (apply rm_same_app; assumption). subst b. rewrite Eid, N.eqb_refl. cbn [q_set_reserved q_reserved ap_set_res ap_reservations].
        pose proof (drop_key_length k (ap_reservations a) nid (H3 a Ha) Hin) as Hl.
        rewrite qcount_eq, qr_unreserve_eq, ReserveLemmas.q_unreserve_count, N.eqb_refl by (rewrite <- qcount_eq, H6b; lia).
        rewrite <- qcount_eq, H6b. lia.
      + destruct (N.eqb_spec (q_id q) (ap_queue a)) as [Eq0|Eq0]; [|exact H6b]. cbn [q_set_reserved q_reserved].
        pose proof (H6 a q Ha Hq Eq0) as H6a. pose proof (drop_key_length k (ap_reservations a) nid (H3 a Ha) Hin) as Hl.
        rewrite qcount_eq, qr_unreserve_eq, ReserveLemmas.q_unreserve_count by (rewrite <- qcount_eq, H6a; lia).
        apply N.eqb_neq in Eb. rewrite Eb. rewrite <- qcount_eq. exact H6b.
    - (* r_qhome *) intros q' en Hq' Hen. destruct (IQ q' Hq') as (q & Hq & ->). rewrite rm_fq_id.
      assert (Hsrc : exists y, In y (q_reserved q) /\ fst y = fst en).
      { unfold fq in Hen. destruct (q_id q =? ap_queue a); [apply qr_unreserve_src in Hen; exact Hen|eauto]. }
      split.
      + unfold fq in Hen. destruct (q_id q =? ap_queue a); [|apply (H7 q en Hq Hen)]. cbn [q_set_reserved q_reserved] in Hen.
        rewrite qr_unreserve_eq in Hen. apply (ReserveLemmas.q_unreserve_pos (ap_id a) 1 (q_reserved q) (H8 q Hq)); [|exact Hen].
        intros y Hy. apply (H7 q y Hq Hy).
      + destruct Hsrc as (y & Hy & Ey). destruct (H7 q y Hq Hy) as (_ & b & Hb & E1 & E2). exists (fa b).
        destruct (rm_fa_id b) as (F1 & F2 & F3). rewrite rm_apps, F1, F2. split; [apply in_map; exact Hb|]. split; congruence.
    - intros q' Hq'. destruct (IQ q' Hq') as (q & Hq & ->). unfold fq. destruct (q_id q =? ap_queue a); [|auto].
      cbn [q_set_reserved q_reserved]. rewrite qr_unreserve_eq. apply ReserveLemmas.q_unreserve_nodup. auto.
    - intros n' p1 p2 Hn' Hp1 Hp2 Hne. destruct (IN n' Hn') as (n & Hn & ->). apply rm_fn_res in Hp1, Hp2.
      apply Hreq. apply (H9 n p1 p2 Hn (proj1 Hp1) (proj1 Hp2) Hne). Qed.
End Rm.

(* a cancellation through the writers of Model4.v, whatever the state: either nothing is stored under the key, or exactly
   one reservation is removed *)
Theorem r_cancel_rinv e s aid k : Ids0 s -> RInvE e s -> RInvE e (fst (r_cancel s aid k)).
Proof. intros HI HR. destruct (find_app s aid) as [a|] eqn:Ea; [|unfold r_cancel; rewrite Ea; exact HR].
  destruct (find_app_in _ _ _ Ea) as [Ha Eid]. subst aid.
  destruct (find (key_is k) (ap_reservations a)) as [p|] eqn:Ef; [|unfold r_cancel; rewrite Ea, Ef; exact HR].
  apply find_some in Ef. destruct Ef as [Hp Ek]. unfold key_is in Ek. apply N.eqb_eq in Ek. destruct p as [nid k']. cbn [snd] in Ek. subst k'.
  rewrite (r_cancel_rm s a nid k Ea Hp (r_akeys e s HR a Ha)). cbn [fst].
  apply (rm_rinv e e s a nid k HI HR Ha Hp). intros a0 k0 C. left. exact C. Qed.
(* ... removing the exempted reservation clears the exemption *)
Theorem r_cancel_rinv_exempt s a k : Ids0 s -> In a (s_apps s) -> RInvE (Some (ap_id a, k)) s -> RInvE None (fst (r_cancel s (ap_id a) k)).
Proof. intros HI Ha HR. pose proof (find_app_of s a HI Ha) as Ea.
  destruct (find (key_is k) (ap_reservations a)) as [p|] eqn:Ef.
  - apply find_some in Ef. destruct Ef as [Hp Ek]. unfold key_is in Ek. apply N.eqb_eq in Ek. destruct p as [nid k']. cbn [snd] in Ek. subst k'.
    rewrite (r_cancel_rm s a nid k Ea Hp (r_akeys _ s HR a Ha)). cbn [fst].
    apply (rm_rinv (Some (ap_id a, k)) None s a nid k HI HR Ha Hp). intros a0 k0 [C1 C2]. right. cbn [fst snd] in *. auto.
  - unfold r_cancel. rewrite Ea, Ef. cbn [fst]. destruct HR as [H1 H2 H3 H4 H5 H6 H7 H8 H9]. constructor; auto.
    intros b nid k0 Hb Hr _. apply (H5 b nid k0 Hb Hr). intros [C1 C2]. cbn [fst snd] in *.
    assert (b = a) by (apply (nodup_key_eq ap_id (s_apps s)); auto; apply (id0_apps s HI)). subst b k0.
    pose proof (find_none _ _ Ef (nid, k) Hr) as C. unfold key_is in C. cbn [snd] in C. rewrite N.eqb_refl in C. discriminate. Qed.

(* ------------------------------------------------------------------ adding one reservation *)
Definition add_state (s : ostate) (a : oapp) (n : onode) (k : N) : ostate :=
  r_queue_reserve (upd_app (upd_node s (on_id n) (fun m => n_set_res m (drop_key k (on_reservations m) ++ [(ap_id a, k)]))) (ap_id a)
                           (fun b => ap_set_res b (ap_reservations b ++ [(on_id n, k)]))) (ap_queue a) (ap_id a).

Section Add.
  Variables (s : ostate) (a : oapp) (n : onode) (ask : oalloc).
  Hypothesis HI : Ids s.
  Hypothesis HR : RInv s.
  Hypothesis Ha : In a (s_apps s).
  Hypothesis Hn : In n (s_nodes s).
  Hypothesis Hask : In ask (ap_requests a).
  Hypothesis Hna : oa_allocated ask = false.
  Hypothesis Hreqn : oa_reqnode ask = 0 \/ oa_reqnode ask = on_id n.
  Hypothesis Hnew : forall p, In p (ap_reservations a) -> snd p <> oa_key ask.
  (* Node.Reserve *)
  Hypothesis Hnode : if oa_reqnode ask =? 0 then on_reservations n = [] else forall p, In p (on_reservations n) -> required_ask s p.

  Let k := oa_key ask.
  Let s' := add_state s a n k.
  Let fa := fun b => if ap_id b =? ap_id a then ap_set_res b (ap_reservations b ++ [(on_id n, k)]) else b.
  Let fn := fun m => if on_id m =? on_id n then n_set_res m (drop_key k (on_reservations m) ++ [(ap_id a, k)]) else m.
  Let fq := fun q => if q_id q =? ap_queue a then q_set_reserved q (qr_reserve (ap_id a) (q_reserved q)) else q.

  Lemma add_same_app b : In b (s_apps s) -> ap_id b = ap_id a -> b = a.
  Proof. intros Hb E. apply (nodup_key_eq ap_id (s_apps s)); auto. apply (id_apps s HI). Qed.
  Lemma add_same_node m : In m (s_nodes s) -> on_id m = on_id n -> m = n.
  Proof. intros Hm E. apply (nodup_key_eq on_id (s_nodes s)); auto. apply (id_nodes s HI). Qed.
  Lemma add_fa_id b : ap_id (fa b) = ap_id b /\ ap_queue (fa b) = ap_queue b /\ ap_requests (fa b) = ap_requests b.
  Proof. unfold fa. destruct (ap_id b =? ap_id a); auto. Qed.
  Lemma add_fn_id m : on_id (fn m) = on_id m. Proof. unfold fn. destruct (on_id m =? on_id n); reflexivity. Qed.
  Lemma add_fq_id q : q_id (fq q) = q_id q. Proof. unfold fq. destruct (q_id q =? ap_queue a); reflexivity. Qed.

  (* the node lists nothing under the key yet: such an entry would belong to an application that holds an ask with this key *)
  Lemma add_node_fresh p : In p (on_reservations n) -> snd p <> k.
  Proof. intros Hp Ek. destruct p as [bid k0]. cbn [snd] in Ek. subst k0.
    destruct (r_na _ s HR n bid k Hn Hp) as (b & Hb & Eb & Hbk).
    destruct (r_out _ s HR b (on_id n) k Hb Hbk (exempt_none _ _)) as (x & Hx & E1 & _).
    assert (E : ap_id b = ap_id a) by (apply (id_keys s HI b a x ask Hb Ha Hx Hask); exact E1).
    assert (b = a) by (apply add_same_app; assumption). subst b. apply (Hnew _ Hbk). reflexivity. Qed.

  Lemma add_fa_res b nk : In nk (ap_reservations (fa b)) <-> In nk (ap_reservations b) \/ (ap_id b = ap_id a /\ nk = (on_id n, k)).
  Proof. unfold fa. destruct (N.eqb_spec (ap_id b) (ap_id a)) as [E|E].
    - cbn [ap_set_res ap_reservations]. rewrite in_app_iff. cbn [In]. intuition.
    - intuition. Qed.
  Lemma add_fn_res m p : In m (s_nodes s) -> (In p (on_reservations (fn m)) <-> In p (on_reservations m) \/ (on_id m = on_id n /\ p = (ap_id a, k))).
  Proof. intros Hm. unfold fn. destruct (N.eqb_spec (on_id m) (on_id n)) as [E|E].
    - assert (m = n) by (apply add_same_node; assumption). subst m. cbn [n_set_res on_reservations]. rewrite in_app_iff, in_drop_key. cbn [In].
      split; [intros [[H _]|[<-|[]]]; auto|intros [H|[_ ->]]; [left; split; [exact H|apply add_node_fresh; exact H]|auto]].
    - intuition. Qed.

  Theorem add_rinv : RInv s'.
  Proof. destruct HR as [H1 H2 H3 H4 H5 H6 H7 H8 H9].
    assert (Ea' : s_apps s' = map fa (s_apps s)) by reflexivity.
    assert (En' : s_nodes s' = map fn (s_nodes s)) by reflexivity.
    assert (Eq' : s_queues s' = map fq (s_queues s)) by reflexivity.
    assert (IA : forall b', In b' (s_apps s') -> exists b, In b (s_apps s) /\ b' = fa b).
    { intros b' Hb'. rewrite Ea' in Hb'. apply in_map_iff in Hb'. destruct Hb' as (b & <- & Hb). eauto. }
    assert (IN : forall n', In n' (s_nodes s') -> exists m, In m (s_nodes s) /\ n' = fn m).
    { intros n' Hn'. rewrite En' in Hn'. apply in_map_iff in Hn'. destruct Hn' as (m & <- & Hm). eauto. }
    assert (IQ : forall q', In q' (s_queues s') -> exists q, In q (s_queues s) /\ q' = fq q).
    { intros q' Hq'. rewrite Eq' in Hq'. apply in_map_iff in Hq'. destruct Hq' as (q & <- & Hq). eauto. }
    assert (Hreq : forall p, required_ask s p -> required_ask s' p).
    { intros p (b & x & Hb & E1 & Hx & E2 & E3). exists (fa b), x. destruct (add_fa_id b) as (F1 & F2 & F3). rewrite Ea', F1, F3.
      split; [apply in_map; exact Hb|auto]. }
    constructor.
    - (* r_an *) intros b' n0 k0 Hb' Hr. destruct (IA b' Hb') as (b & Hb & ->). destruct (add_fa_id b) as (F1 & _). rewrite F1.
      apply add_fa_res in Hr. destruct Hr as [Hr|[Eb Er]].
      + destruct (H1 b n0 k0 Hb Hr) as (m & Hm & Em & Hmk). exists (fn m). rewrite En', add_fn_id. split; [apply in_map; exact Hm|]. split; [exact Em|].
        apply (add_fn_res m _ Hm). left. exact Hmk.
      + inversion Er; subst n0 k0. exists (fn n). rewrite En', add_fn_id. split; [apply in_map; exact Hn|]. split; [reflexivity|].
        apply (add_fn_res n _ Hn). right. rewrite Eb. auto.
    - (* r_na *) intros n' aid0 k0 Hn' Hr. destruct (IN n' Hn') as (m & Hm & ->). rewrite add_fn_id. apply (add_fn_res m _ Hm) in Hr. destruct Hr as [Hr|[Em Er]].
      + destruct (H2 m aid0 k0 Hm Hr) as (b & Hb & Eb & Hbk). exists (fa b). destruct (add_fa_id b) as (F1 & _). rewrite Ea', F1.
        split; [apply in_map; exact Hb|]. split; [exact Eb|]. apply add_fa_res. left. exact Hbk.
      + inversion Er; subst aid0 k0. exists (fa a). destruct (add_fa_id a) as (F1 & _). rewrite Ea', F1. split; [apply in_map; exact Ha|]. split; [reflexivity|].
        apply add_fa_res. right. rewrite Em. auto.
    - (* r_akeys *) intros b' Hb'. destruct (IA b' Hb') as (b & Hb & ->). unfold fa. destruct (N.eqb_spec (ap_id b) (ap_id a)) as [E|E]; [|auto].
      assert (b = a) by (apply add_same_app; assumption). subst b. cbn [ap_set_res ap_reservations]. rewrite map_app. cbn [map snd].
      apply ReserveLemmas.NoDup_snoc; [auto|]. intros C. apply in_map_iff in C. destruct C as (p & Ep & Hp). apply (Hnew p Hp). exact Ep.
    - (* r_nkeys *) intros n' Hn'. destruct (IN n' Hn') as (m & Hm & ->). unfold fn. destruct (N.eqb_spec (on_id m) (on_id n)) as [E|E]; [|auto].
      cbn [n_set_res on_reservations]. rewrite map_app. cbn [map snd]. apply ReserveLemmas.NoDup_snoc; [apply NoDup_map_filter'; auto|].
      intros C. apply in_map_iff in C. destruct C as (p & Ep & Hp). apply in_drop_key in Hp. apply (proj2 Hp). exact Ep.
    - (* r_out *) intros b' n0 k0 Hb' Hr _. destruct (IA b' Hb') as (b & Hb & ->). destruct (add_fa_id b) as (F1 & F2 & F3).
      apply add_fa_res in Hr. destruct Hr as [Hr|[Eb Er]].
      + destruct (H5 b n0 k0 Hb Hr (exempt_none _ _)) as (x & Hx & E1 & E2 & E3). exists x. rewrite F3. auto.
      + inversion Er; subst n0 k0. assert (b = a) by (apply add_same_app; assumption). subst b. exists ask. rewrite F3. auto.
    - (* r_qcount *) intros b' q' Hb' Hq' Eid. destruct (IA b' Hb') as (b & Hb & ->). destruct (IQ q' Hq') as (q & Hq & ->).
      destruct (add_fa_id b) as (F1 & F2 & F3). rewrite add_fq_id, F2 in Eid. rewrite F1. pose proof (H6 b q Hb Hq Eid) as H6b.
      unfold fq, fa. destruct (N.eqb_spec (ap_id b) (ap_id a)) as [Eb|Eb].
      + assert (b = a) by (apply add_same_app; assumption). subst b. rewrite Eid, N.eqb_refl. cbn [q_set_reserved q_reserved ap_set_res ap_reservations].
        rewrite qcount_eq, qr_reserve_eq, ReserveLemmas.q_reserve_count, N.eqb_refl, <- qcount_eq, H6b, app_length. cbn [length]. lia.
      + destruct (q_id q =? ap_queue a); [|exact H6b]. cbn [q_set_reserved q_reserved].
        rewrite qcount_eq, qr_reserve_eq, ReserveLemmas.q_reserve_count. apply N.eqb_neq in Eb. rewrite Eb, <- qcount_eq, H6b. lia.
    - (* r_qhome *) intros q' en Hq' Hen. destruct (IQ q' Hq') as (q & Hq & ->). rewrite add_fq_id. unfold fq in Hen.
      destruct (N.eqb_spec (q_id q) (ap_queue a)) as [Eq0|Eq0].
      + cbn [q_set_reserved q_reserved] in Hen. split.
        * rewrite qr_reserve_eq in Hen. apply (ReserveLemmas.q_reserve_pos (ap_id a) (q_reserved q)); [|exact Hen]. intros y Hy. apply (H7 q y Hq Hy).
        * apply qr_reserve_src in Hen. destruct Hen as [(y & Hy & Ey)|Ey].
          -- destruct (H7 q y Hq Hy) as (_ & b & Hb & E1 & E2). exists (fa b). destruct (add_fa_id b) as (F1 & F2 & F3). rewrite Ea', F1, F2.
             split; [apply in_map; exact Hb|]. split; congruence.
          -- exists (fa a). destruct (add_fa_id a) as (F1 & F2 & F3). rewrite Ea', F1, F2. split; [apply in_map; exact Ha|]. split; congruence.
      + destruct (H7 q en Hq Hen) as (Hp & b & Hb & E1 & E2). split; [exact Hp|]. exists (fa b). destruct (add_fa_id b) as (F1 & F2 & F3). rewrite Ea', F1, F2.
        split; [apply in_map; exact Hb|auto].
    - intros q' Hq'. destruct (IQ q' Hq') as (q & Hq & ->). unfold fq. destruct (q_id q =? ap_queue a); [|auto].
      cbn [q_set_reserved q_reserved]. rewrite qr_reserve_eq. apply ReserveLemmas.q_reserve_nodup. auto.
    - (* r_nrule *) intros n' p1 p2 Hn' Hp1 Hp2 Hne. destruct (IN n' Hn') as (m & Hm & ->).
      apply (add_fn_res m _ Hm) in Hp1. apply (add_fn_res m _ Hm) in Hp2.
      destruct Hp1 as [Hp1|[Em1 E1]].
      + destruct Hp2 as [Hp2|[Em2 E2]]; [apply Hreq; apply (H9 m p1 p2 Hm Hp1 Hp2 Hne)|].
        assert (m = n) by (apply add_same_node; assumption). subst m. apply Hreq.
        destruct (oa_reqnode ask =? 0) eqn:Er; [rewrite Hnode in Hp1; contradiction|apply (Hnode p1 Hp1)].
      + destruct Hp2 as [Hp2|[Em2 E2]]; [|congruence].
        assert (m = n) by (apply add_same_node; assumption). subst m p1. apply Hreq.
        destruct (oa_reqnode ask =? 0) eqn:Er; [rewrite Hnode in Hp2; contradiction|].
        exists a, ask. cbn [fst snd]. apply N.eqb_neq in Er. auto. Qed.
End Add.
