(* C03 over the gang fragment (Core/Model3.v): releases that are not the confirmation of a replacement, part 1.
   Two building blocks, both stated for states described field by field (ready for the composite operations of
   Core/Model3ProofsO4b.v / O4c.v):
     [unbind_step]     an allocation x without in-flight partner leaves its application and its node, the queue path gives
                       its resource back (the application record after the step is any record with the right lists and
                       ledgers: the FSM state is irrelevant for InvG2 / BooksG / Bounded3);
     [terminate_step]  moveTerminatedApp ([terminate_if_done]) for an application whose record in the real state s5 is
                       terminated, compared with a state sv that satisfies the invariants and differs from s5 only in the
                       record of that application (same ledgers, no allocation): the pending ledger is given back on the
                       path, the application leaves the live list.
   Helpers: [link_drop], [link_unbind] (LinkOK is a frame), [bounded3_shrink] (ledgers that only shrink stay bounded). *)
From Coq Require Import List ZArith NArith Bool Lia ZifyBool.
From YK Require Import Base.Int64 Base.Res Base.ResSpec Base.ResLemmas Base.ResLaws Base.ResLaws2 Base.ResLawsPred
  Core.Obs Core.Model Core.Model2 Core.Model3 Core.Ledger
  Core.BooksLemmas Core.BooksDefs Core.BooksTree Core.BooksQueue Core.BooksApp Core.BooksState Core.BooksDrain Core.BooksOps
  Core.BooksOps2 Core.BooksOps3 Core.Model2ProofsB1 Core.Model2ProofsB2 Core.Model2ProofsB4 Core.Model3ProofsD Core.Model3ProofsD2
  Core.Model3ProofsG1 Core.Model3ProofsG2 Core.Model3ProofsG3 Core.Model3ProofsG4 Core.Model3ProofsG5 Core.Model3ProofsG6
  Core.Model3ProofsA1 Core.Model3ProofsA2.
Import ListNotations.
Open Scope Z_scope.
Set Default Timeout 30.

(* ================================================================== 1. small tools *)
(* r' is between 0 and r, component-wise *)
Definition ResLe (r' r : res) : Prop := forall k, 0 <= getz r' k <= getz r k.
Lemma ResLe_rb r' r : ResLe r' r -> rb r -> rb r'.
Proof. intros H B k. specialize (B k). specialize (H k). unfold bnd in *. lia. Qed.
Lemma ResLe_refl r : rnonneg r -> ResLe r r.
Proof. intros N k. pose proof (rnonneg_fnonneg _ N k). lia. Qed.

Lemma updk_updk_const {A} (key : A -> N) l id (a1 a2 : A) : key a1 = id ->
  updk key (updk key l id (fun _ => a1)) id (fun _ => a2) = updk key l id (fun _ => a2).
Proof. intros E. unfold updk. rewrite map_map. apply map_ext. intros b. destruct (N.eqb_spec (key b) id) as [Eb|Eb].
  - rewrite E, N.eqb_refl. reflexivity.
  - destruct (N.eqb_spec (key b) id); [contradiction|reflexivity]. Qed.

Lemma two_filters_nil {A} (P : A -> bool) l : filter P l = [] -> filter (fun y => negb (P y)) l = [] -> l = [].
Proof. destruct l as [|y t]; [reflexivity|]. cbn [filter]. destruct (P y); cbn [negb]; discriminate. Qed.

(* the node ledger is not negative *)
Lemma g_node_ledger_nonneg s n k : InvG s -> In n (s_nodes s) -> 0 <= getz (on_allocated n) k.
Proof. intros HI Hn. rewrite (k3_ledger n (ig_nodes s HI n Hn) k). apply asum_nonneg. intros y Hy.
  destruct (ig_owned s HI n y Hn Hy) as (b & Hb & _ & Ho). apply (a3_nn _ y (g_record_ok s b y HI Hb (ownedby_record b y Ho))). Qed.

(* an application without allocations: both usage ledgers are zero *)
Lemma no_allocs_zero a : AppBooks a -> ap_allocs a = [] ->
  (forall k, getz (ap_allocated a) k = 0) /\ (forall k, getz (ap_phalloc a) k = 0).
Proof. intros B E. split; intros k; [rewrite (ab_alloc a B k); unfold real_allocs|rewrite (ab_ph a B k); unfold ph_allocs]; rewrite E; reflexivity. Qed.

(* ================================================================== 2. LinkOK is a frame *)
(* an application that no node record names leaves the live list *)
Lemma link_drop s s' id : LinkOK s -> s_nodes s' = s_nodes s ->
  (forall b, In b (s_apps s') <-> In b (s_apps s) /\ ap_id b <> id) ->
  (forall n y, In n (s_nodes s) -> In y (on_allocs n) -> oa_app y <> id) -> LinkOK s'.
Proof. intros [L1 L2] En Hin Hno. split.
  - intros n y Hn Hy Hi. rewrite En in Hn. destruct (L1 n y Hn Hy Hi) as (a & ph & Ha & Ea & R). exists a, ph. split; [|auto].
    apply Hin. split; [assumption|]. rewrite Ea. apply (Hno n y Hn Hy).
  - intros a ph r Ha Hph Pph Lph Hr Kr Pr Ar. apply Hin in Ha. destruct Ha as [Ha _]. rewrite En. apply (L2 a ph r Ha Hph Pph Lph Hr Kr Pr Ar). Qed.

(* an allocation x that is not the placeholder of an in-flight replacement whose real half a node lists leaves its
   application and its node *)
Section LinkUnbind.
  Variables (s s' : ostate) (a a' : oapp) (n n' : onode) (x : oalloc).
  Hypothesis HI : InvG s.
  Hypothesis HL : LinkOK s.
  Hypothesis Ha : In a (s_apps s).
  Hypothesis Hn : In n (s_nodes s).
  Hypothesis Eapps : s_apps s' = updk ap_id (s_apps s) (ap_id a) (fun _ => a').
  Hypothesis Enodes : s_nodes s' = updk on_id (s_nodes s) (on_id n) (fun _ => n').
  Hypothesis Eid : ap_id a' = ap_id a.
  Hypothesis Enid : on_id n' = on_id n.
  Hypothesis Hx : In x (ap_allocs a).
  Hypothesis Ealloc : ap_allocs a' = del_alloc (oa_key x) (ap_allocs a).
  Hypothesis Hreq : incl (ap_requests a') (ap_requests a).
  Hypothesis Enalloc : on_allocs n' = del_alloc (oa_key x) (on_allocs n).
  (* no node lists the real half of a replacement of x *)
  Hypothesis NoPartner : forall m y, In m (s_nodes s) -> In y (on_allocs m) -> infl y = true -> oa_app y = ap_id a -> oa_release y <> oa_key x.

  Lemma lu_old_record m' y : In m' (s_nodes s') -> In y (on_allocs m') -> exists m, In m (s_nodes s) /\ In y (on_allocs m).
  Proof. intros Hm' Hy. apply (g_in_nodes' s s' n n' HI Hn Enodes) in Hm'. destruct Hm' as [->|[Hm _]]; [|eauto].
    rewrite Enalloc in Hy. apply in_del_alloc in Hy. exists n. tauto. Qed.

  Lemma link_unbind : LinkOK s'.
  Proof. destruct HL as [L1 L2]. split.
    - intros m' y Hm' Hy Hi. destruct (lu_old_record m' y Hm' Hy) as (m & Hm & Hym).
      destruct (L1 m y Hm Hym Hi) as (a0 & ph & Ha0 & Ea0 & Hph & R).
      destruct (N.eq_dec (ap_id a0) (ap_id a)) as [E|E].
      + assert (a0 = a) by (apply (g_same_app s a a0 HI Ha Ha0 E)). subst a0. exists a', ph.
        split; [apply (g_in_apps' s s' a a' HI Ha Eapps); auto|]. split; [congruence|]. split; [|exact R].
        rewrite Ealloc. apply in_del_alloc. split; [assumption|]. destruct R as (_ & Ek & _). rewrite Ek.
        apply (NoPartner m y Hm Hym Hi). congruence.
      + exists a0, ph. split; [apply (g_in_apps' s s' a a' HI Ha Eapps); auto|]. auto.
    - intros a0 ph r Ha0 Hph Pph Lph Hr Kr Pr Ar. apply (g_in_apps' s s' a a' HI Ha Eapps) in Ha0. destruct Ha0 as [->|[Ha0 Hne]].
      + rewrite Ealloc in Hph. apply in_del_alloc in Hph. destruct Hph as [Hph _]. apply Hreq in Hr.
        destruct (L2 a ph r Ha Hph Pph Lph Hr Kr Pr Ar) as (R1 & R2 & R3 & R4). split; [exact R1|]. split; [exact R2|]. split.
        * intros En' m' y Hm' Hy. destruct (lu_old_record m' y Hm' Hy) as (m & Hm & Hym). apply (R3 En' m y Hm Hym).
        * intros En'. destruct (R4 En') as (m & Hm & Em & Hrm).
          destruct (g_record_kept s s' n n' HI Hn Enodes Enid m r Hm Hrm) as (m' & Hm' & Em' & Hrm').
          { intros ->. rewrite Enalloc. apply in_del_alloc. split; [assumption|]. rewrite Kr. intros C.
            apply (w3_link a (ig_app_wf s HI a Ha) ph Hph Pph Lph). rewrite C. apply in_map. exact Hx. }
          exists m'. split; [assumption|]. split; [congruence|assumption].
      + destruct (L2 a0 ph r Ha0 Hph Pph Lph Hr Kr Pr Ar) as (R1 & R2 & R3 & R4). split; [exact R1|]. split; [exact R2|]. split.
        * intros En' m' y Hm' Hy. destruct (lu_old_record m' y Hm' Hy) as (m & Hm & Hym). apply (R3 En' m y Hm Hym).
        * intros En'. destruct (R4 En') as (m & Hm & Em & Hrm).
          destruct (g_record_kept s s' n n' HI Hn Enodes Enid m r Hm Hrm) as (m' & Hm' & Em' & Hrm').
          { intros ->. rewrite Enalloc. apply in_del_alloc. split; [assumption|]. intros C. apply Hne.
            apply (ig_keys s HI a0 a r x Ha0 Ha); [apply in_records; auto|apply in_records; auto|exact C]. }
          exists m'. split; [assumption|]. split; [congruence|assumption]. Qed.
End LinkUnbind.

(* ================================================================== 3. ledgers that only shrink stay bounded *)
Record AppLe (b' b : oapp) : Prop := mkALe {
  le_pending : ResLe (ap_pending b') (ap_pending b);
  le_allocated : ResLe (ap_allocated b') (ap_allocated b);
  le_phalloc : ResLe (ap_phalloc b') (ap_phalloc b);
  le_requests : incl (ap_requests b') (ap_requests b);
  le_allocs : incl (ap_allocs b') (ap_allocs b) }.
Lemma AppLe_refl b : AppBooks b -> AppLe b b.
Proof. intros [_ _ _ N1 N2 N3]. constructor; try apply ResLe_refl; try apply incl_refl; assumption. Qed.

Lemma bounded3_shrink s s' : Bounded3 s ->
  (forall b', In b' (s_apps s') -> exists b, In b (s_apps s) /\ AppLe b' b) ->
  (forall q', In q' (s_queues s') -> exists q, In q (s_queues s) /\ ResLe (q_alloc q') (q_alloc q) /\ ResLe (q_pending q') (q_pending q)) ->
  (forall n', In n' (s_nodes s') -> exists n, In n (s_nodes s) /\ ResLe (on_allocated n') (on_allocated n)) ->
  Bounded3 s'.
Proof. intros [[B1 B2 B3] B4] HA HQ HN. constructor; [constructor|].
  - intros b' Hb'. destruct (HA b' Hb') as (b & Hb & [L1 L2 L3 L4 L5]). destruct (B1 b Hb) as [D1 D2 D3 D4]. constructor.
    + apply (ResLe_rb _ _ L1 D1).
    + apply (ResLe_rb _ _ L2 D2).
    + intros y Hy. apply D3, L4, Hy.
    + intros y Hy. apply D4, L5, Hy.
  - intros q' Hq'. destruct (HQ q' Hq') as (q & Hq & L1 & L2). destruct (B2 q Hq) as [D1 D2].
    split; [apply (ResLe_rb _ _ L1 D1)|apply (ResLe_rb _ _ L2 D2)].
  - intros n' Hn'. destruct (HN n' Hn') as (n & Hn & L). apply (ResLe_rb _ _ L (B3 n Hn)).
  - intros b' Hb'. destruct (HA b' Hb') as (b & Hb & [L1 L2 L3 L4 L5]). apply (ResLe_rb _ _ L3 (B4 b Hb)). Qed.

(* the queue list is a path map whose function moves the ledgers down *)
Lemma queues_shrink s s' leaf F dA dP : InvG s -> BooksG s -> s_queues s' = path_map s leaf F ->
  (forall q, In q (s_queues s) -> In (q_id q) (path_ids s leaf) -> QFacts q (F q) dA dP) ->
  (forall k, dA k <= 0) -> (forall k, dP k <= 0) ->
  forall q', In q' (s_queues s') -> exists q, In q (s_queues s) /\ ResLe (q_alloc q') (q_alloc q) /\ ResLe (q_pending q') (q_pending q).
Proof. intros HI HB Eq FQ HA HP q' Hq'. rewrite Eq in Hq'. unfold path_map in Hq'. apply in_map_iff in Hq'. destruct Hq' as (q & <- & Hq).
  exists q. split; [assumption|]. pose proof (bg_queues s HB q Hq) as QB.
  destruct (memN (q_id q) (path_ids s leaf)) eqn:Em.
  - apply memN_in in Em. destruct (FQ q Hq Em) as (_ & A & P & N1 & N2).
    split; intros k; [rewrite A; pose proof (rnonneg_fnonneg _ N1 k) as H; rewrite A in H; specialize (HA k)
                     |rewrite P; pose proof (rnonneg_fnonneg _ N2 k) as H; rewrite P in H; specialize (HP k)]; lia.
  - split; apply ResLe_refl; [apply (qb_nn_alloc s q QB)|apply (qb_nn_pend s q QB)]. Qed.

(* ================================================================== 4. an allocation leaves its application and its node *)
Section UnbindStep.
  Variables (s s' : ostate) (a a1 : oapp) (n : onode) (x : oalloc).
  Hypothesis HI2 : InvG2 s.
  Hypothesis HB : BooksG s.
  Hypothesis HBd : Bounded3 s.
  Hypothesis Ha : In a (s_apps s).
  Hypothesis Hn : In n (s_nodes s).
  Hypothesis Hx : In x (ap_allocs a).
  Hypothesis Xnode : oa_node x = on_id n.
  (* no node lists the real half of a replacement of x *)
  Hypothesis NoPartner : forall m y, In m (s_nodes s) -> In y (on_allocs m) -> infl y = true -> oa_app y = ap_id a -> oa_release y <> oa_key x.
  (* the state after the step: application record, Node.RemoveAllocation, DecAllocatedResource, allocation counter *)
  Hypothesis Eapps : s_apps s' = updk ap_id (s_apps s) (ap_id a) (fun _ => a1).
  Hypothesis Enodes : s_nodes s' = updk on_id (s_nodes s) (on_id n) (fun _ => n_remove n (oa_key x)).
  Hypothesis Eq : s_queues s' = path_map s (ap_queue a) (F_dec (oa_res x)).
  Hypothesis Ef : s_foreign s' = s_foreign s.
  Hypothesis Ec : s_nallocs s' = s_nallocs s + -1.
  (* the new record: x left the allocation list, its resource left the ledger it was booked on, requests under other
     keys are kept, no request appears *)
  Hypothesis Eid : ap_id a1 = ap_id a.
  Hypothesis Equeue : ap_queue a1 = ap_queue a.
  Hypothesis Ealloc : ap_allocs a1 = del_alloc (oa_key x) (ap_allocs a).
  Hypothesis Hreq_in : incl (ap_requests a1) (ap_requests a).
  Hypothesis Hreq_keep : forall y, In y (ap_requests a) -> oa_key y <> oa_key x -> In y (ap_requests a1).
  Hypothesis B1 : AppBooks a1.
  Hypothesis W1 : AppWF3 a1.
  Hypothesis Dal : forall k, getz (ap_allocated a1) k = getz (ap_allocated a) k - (if oa_ph x then 0 else getz (oa_res x) k).
  Hypothesis Dph : forall k, getz (ap_phalloc a1) k = getz (ap_phalloc a) k - (if oa_ph x then getz (oa_res x) k else 0).
  Hypothesis Dpe : ap_pending a1 = ap_pending a.

  Let HI := ig2_inv s HI2.
  Let W := ig_app_wf s HI a Ha.
  Let B := bg_apps s HB a Ha.
  Let n' := n_remove n (oa_key x).

  Lemma ub_x_on_n : In x (on_allocs n). Proof. apply (unbind_x_on_n s a n HI Ha Hn x Hx Xnode). Qed.
  Lemma ub_n' : n' = node_unbound n x.
  Proof. unfold n', n_remove. rewrite (g_find_node_alloc_in s n x HI Hn ub_x_on_n). reflexivity. Qed.
  Lemma ub_nid : on_id n' = on_id n. Proof. rewrite ub_n'. reflexivity. Qed.
  Lemma ub_nallocs : on_allocs n' = del_alloc (oa_key x) (on_allocs n). Proof. rewrite ub_n'. reflexivity. Qed.
  Lemma ub_xres : wf (oa_res x) /\ rnonneg (oa_res x) /\ rb (oa_res x).
  Proof. destruct (w3_alloc a W x Hx) as [X1 X2 _ _ _]. split; [exact X1|]. split; [exact X2|].
    apply (abd_alloc a (bd_apps s (b3_base s HBd) a Ha) x Hx). Qed.
  Lemma ub_nledger : wf (on_allocated n') /\ forall k, getz (on_allocated n') k = getz (on_allocated n) k - getz (oa_res x) k.
  Proof. destruct ub_xres as (X1 & X2 & X3). pose proof (k3_wf n (ig_nodes s HI n Hn)) as Wn. rewrite ub_n'.
    cbn [node_unbound n_with on_allocated]. split; [apply Prune_wf, subFrom_wf; exact Wn|]. intros k.
    rewrite Prune_getz by (apply subFrom_wf; exact Wn). apply subFrom_getz; [exact X1|apply (bd_nodes s (b3_base s HBd) n Hn)|exact X3]. Qed.
  (* x's resource is below the application's usage, hence below every queue ledger on the path *)
  Lemma ub_x_le_app k : getz (oa_res x) k <= getz (ap_allocated a) k + getz (ap_phalloc a) k.
  Proof. pose proof (rnonneg_fnonneg _ (ab_nn_alloc a B) k). pose proof (rnonneg_fnonneg _ (ab_nn_ph a B) k).
    destruct (oa_ph x) eqn:Eph; [pose proof (g_ph_le_phalloc a x k W B Hx Eph)|pose proof (g_alloc_le_allocated a x k W B Hx Eph)]; lia. Qed.
  Lemma ub_x_le_queue q k : In q (s_queues s) -> In (q_id q) (path_ids s (ap_queue a)) -> getz (oa_res x) k <= getz (q_alloc q) k.
  Proof. intros Hq Hin. pose proof (g_usage_dominated s a HI HB Ha q k Hq Hin). pose proof (ub_x_le_app k). lia. Qed.
  Lemma ub_qfacts q : In q (s_queues s) -> In (q_id q) (path_ids s (ap_queue a)) ->
    QFacts q (F_dec (oa_res x) q) (fun k => - getz (oa_res x) k) zero3.
  Proof. intros Hq Hin. destruct ub_xres as (X1 & X2 & X3). apply F_dec_Q; [apply (g_qok s q HI HB HBd Hq)|exact X1|exact X3|].
    intros k. apply (ub_x_le_queue q k Hq Hin). Qed.

  Lemma unbind_inv : InvG s' /\ BooksG s'.
  Proof. pose proof ub_nid as Enid. pose proof ub_nallocs as Enalloc. destruct ub_nledger as [Wn' Ln'].
    apply (gang_step s s' a a1 (F_dec (oa_res x)) (fun k => - getz (oa_res x) k) zero3 HI HB Ha Eapps Eq Ef); try reflexivity; auto.
    - exact ub_qfacts.
    - apply rec_keys_incl. unfold app_records, akeys. rewrite !map_app. apply incl_app.
      + apply incl_appl. apply incl_map. exact Hreq_in.
      + apply incl_appr. apply incl_map. rewrite Ealloc. apply incl_filter.
    - intros k. rewrite Dal, Dph. destruct (oa_ph x); lia.
    - intros k. rewrite Dpe. unfold zero3. lia.
    - apply (mg_node_ids s s' n n' HI Enodes Enid).
    - apply (unbind_nodes_ok s s' a n n' HI Ha Hn Enodes Enid x Hx Enalloc Xnode Wn' Ln').
    - apply (unbind_owned s s' a a1 n n' HI Ha Hn Eapps Enodes Eid x Hx Ealloc Hreq_keep Enalloc Xnode).
    - apply (unbind_onnode s s' a a1 n n' HI Ha Hn Eapps Enodes Enid x Hx Ealloc Enalloc Xnode).
    - apply (unbind_count s s' a a1 HI Ha Eapps x Hx Ealloc Ec).
    - intros k. rewrite (unbind_ninfl s s' a n n' HI Ha Hn Enodes Enid x Hx Enalloc Xnode k). lia. Qed.

  Lemma unbind_link : LinkOK s'.
  Proof. apply (link_unbind s s' a a1 n n' x HI (ig2_link s HI2) Ha Hn Eapps Enodes Eid ub_nid Hx Ealloc Hreq_in ub_nallocs NoPartner). Qed.

  Lemma unbind_bounded : Bounded3 s'.
  Proof. destruct unbind_inv as [HI' HB']. apply (bounded3_shrink s s' HBd).
    - intros b' Hb'. apply (g_in_apps' s s' a a1 HI Ha Eapps) in Hb'. destruct Hb' as [->|[Hb _]].
      + exists a. split; [exact Ha|]. destruct ub_xres as (_ & X2 & _). constructor.
        * rewrite Dpe. apply ResLe_refl. apply (ab_nn_pend a B).
        * intros k. pose proof (rnonneg_fnonneg _ (ab_nn_alloc a1 B1) k) as H. rewrite Dal in *. pose proof (rnonneg_fnonneg _ X2 k). destruct (oa_ph x); lia.
        * intros k. pose proof (rnonneg_fnonneg _ (ab_nn_ph a1 B1) k) as H. rewrite Dph in *. pose proof (rnonneg_fnonneg _ X2 k). destruct (oa_ph x); lia.
        * exact Hreq_in.
        * rewrite Ealloc. apply incl_filter.
      + exists b'. split; [exact Hb|]. apply AppLe_refl. apply (bg_apps s HB b' Hb).
    - apply (queues_shrink s s' (ap_queue a) (F_dec (oa_res x)) (fun k => - getz (oa_res x) k) zero3 HI HB Eq ub_qfacts).
      + intros k. destruct ub_xres as (_ & X2 & _). pose proof (rnonneg_fnonneg _ X2 k). lia.
      + intros k. unfold zero3. lia.
    - intros m' Hm'. pose proof (g_node_ledger_nonneg s' m') as Nn. apply (g_in_nodes' s s' n n' HI Hn Enodes) in Hm' as Hm''.
      destruct Hm'' as [E|[Hm _]].
      + exists n. split; [exact Hn|]. intros k. specialize (Nn k HI' Hm'). subst m'. destruct ub_nledger as [_ L]. rewrite L in *.
        destruct ub_xres as (_ & X2 & _). pose proof (rnonneg_fnonneg _ X2 k). lia.
      + exists m'. split; [exact Hm|]. intros k. specialize (Nn k HI' Hm'). lia. Qed.

  Theorem unbind_step : InvG2 s' /\ BooksG s' /\ Bounded3 s'.
  Proof. destruct unbind_inv as [HI' HB']. split; [constructor; [exact HI'|exact unbind_link]|]. split; [exact HB'|exact unbind_bounded]. Qed.
End UnbindStep.

(* ================================================================== 5. moveTerminatedApp *)
Lemma terminate_live s id a : find_app s id = Some a -> is_terminal (ap_state a) = false -> terminate_if_done s id = s.
Proof. intros E T. unfold terminate_if_done. rewrite E, T. reflexivity. Qed.
Lemma terminate_none s id : find_app s id = None -> terminate_if_done s id = s.
Proof. intros E. unfold terminate_if_done. rewrite E. reflexivity. Qed.

Section Terminate.
  (* sv: a state that satisfies the invariants, av: its record of the application, which lists no allocation;
     s5: the real state, which differs from sv in the record of this application only; a5: that record, terminated,
     with the ledgers of av (its lists are irrelevant: cleanupAsks emptied the request map without touching pending) *)
  Variables (sv s5 : ostate) (av a5 : oapp).
  Hypothesis HI2 : InvG2 sv.
  Hypothesis HB : BooksG sv.
  Hypothesis HBd : Bounded3 sv.
  Hypothesis Hav : In av (s_apps sv).
  Hypothesis Eal : ap_allocs av = [].
  Hypothesis Hfind : find_app s5 (ap_id av) = Some a5.
  Hypothesis Hrest : filter (fun b => negb (ap_id b =? ap_id av)%N) (s_apps s5) = filter (fun b => negb (ap_id b =? ap_id av)%N) (s_apps sv).
  Hypothesis En : s_nodes s5 = s_nodes sv.
  Hypothesis Eq : s_queues s5 = s_queues sv.
  Hypothesis Ef : s_foreign s5 = s_foreign sv.
  Hypothesis Ec : s_nallocs s5 = s_nallocs sv.
  Hypothesis Tq : ap_queue a5 = ap_queue av.
  Hypothesis Tp : ap_pending a5 = ap_pending av.
  Hypothesis Ta : ap_allocated a5 = ap_allocated av.
  Hypothesis Th : ap_phalloc a5 = ap_phalloc av.
  Hypothesis Tt : is_terminal (ap_state a5) = true.

  Let HI := ig2_inv sv HI2.
  Let W := ig_app_wf sv HI av Hav.
  Let B := bg_apps sv HB av Hav.
  Let id := ap_id av.

  (* no node lists a record of the application: it has no allocation, and the real half of a replacement would need its placeholder *)
  Lemma tm_norec : forall n y, In n (s_nodes sv) -> In y (on_allocs n) -> oa_app y <> id.
  Proof. intros n y Hn Hy E. unfold id in E. destruct (g_owner sv n y av HI Hn Hy Hav (eq_sym E)) as [Ho|(Hi & _)].
    - rewrite Eal in Ho. contradiction.
    - destruct (lk_1 sv (ig2_link sv HI2) n y Hn Hy Hi) as (a0 & ph & Ha0 & Ea0 & Hph & _).
      assert (a0 = av) by (apply (g_same_app sv av a0 HI Hav Ha0); congruence). subst a0. rewrite Eal in Hph. contradiction. Qed.

  Definition tm_Fp : oqueue -> oqueue := if IsZero (Some (ap_pending av)) then (fun q => q) else F_dec_pending (ap_pending av).
  Definition tm_s1 : ostate := if IsZero (Some (ap_pending av)) then s5 else q_dec_pending s5 (ap_queue av) (ap_pending av).
  Definition tm_final : ostate :=
    set_completed (set_apps tm_s1 (filter (fun b => negb (ap_id b =? id)%N) (s_apps tm_s1))) (s_completed tm_s1 ++ [a5]).

  Lemma tm_eq : terminate_if_done s5 id = tm_final.
  Proof. destruct (no_allocs_zero av B Eal) as [Za Zp]. unfold terminate_if_done, id. rewrite Hfind, Tt, Tq, Tp, Ta, Th. cbn [negb].
    rewrite (proj2 (IsZero_iff _ (w3_allocated av W)) Za), (proj2 (IsZero_iff _ (w3_phalloc av W)) Zp). reflexivity. Qed.

  Lemma tm_s1_fields : s_queues tm_s1 = path_map sv (ap_queue av) tm_Fp /\ s_apps tm_s1 = s_apps s5 /\ s_nodes tm_s1 = s_nodes sv /\
    s_foreign tm_s1 = s_foreign sv /\ s_nallocs tm_s1 = s_nallocs sv.
  Proof. unfold tm_s1, tm_Fp. destruct (IsZero (Some (ap_pending av))).
    - rewrite path_map_id. auto.
    - destruct (q_dec_pending_same s5 (ap_queue av) (ap_pending av)) as [S1 S2 _ S4 _ _ S7 _ _ _]. rewrite S1, S2, S4, S7.
      split; [apply (g_q_dec_pending_queues sv s5 _ _ Eq)|auto]. Qed.

  Lemma tm_Fp_keep q : q_id (tm_Fp q) = q_id q /\ q_parent (tm_Fp q) = q_parent q /\ q_leaf (tm_Fp q) = q_leaf q.
  Proof. unfold tm_Fp. destruct (IsZero _); auto. Qed.
  Lemma tm_qfacts q : In q (s_queues sv) -> In (q_id q) (path_ids sv (ap_queue av)) ->
    QFacts q (tm_Fp q) zero3 (fun k => - getz (ap_pending av) k).
  Proof. intros Hq Hin. pose proof (g_qok sv q HI HB HBd Hq) as Q. unfold tm_Fp. destruct (IsZero (Some (ap_pending av))) eqn:Ez.
    - pose proof (IsZero_getz _ Ez) as Z. apply (QFacts_ext q q zero3 zero3); [reflexivity|intros k; rewrite Z; reflexivity|apply QFacts_id; exact Q].
    - apply F_dec_pending_Q; [exact Q|apply (w3_pending av W)|apply (abd_pending av (bd_apps sv (b3_base sv HBd) av Hav))|].
      intros k. apply (g_pending_dominated sv av HI HB Hav q k Hq Hin). Qed.

  Theorem terminate_step : InvG2 (terminate_if_done s5 id) /\ BooksG (terminate_if_done s5 id).
  Proof. rewrite tm_eq. destruct tm_s1_fields as (Q1 & A1 & N1 & F1 & C1). destruct (no_allocs_zero av B Eal) as [Za Zp].
    set (av0 := ap_set_lists (ap_set_ledgers av [] (ap_allocated av) (ap_phalloc av)) [] []).
    set (sm := mkOS (s_nodes sv) (updk ap_id (s_apps sv) (ap_id av) (fun _ => av0)) (s_queues tm_s1) (s_total sv)
                    (s_nallocs sv) (s_nph sv) (s_nres sv) (s_foreign sv) (s_completed sv) (s_rejected sv) (s_ugm sv)).
    assert (Eapps : s_apps sm = updk ap_id (s_apps sv) (ap_id av) (fun _ => av0)) by reflexivity.
    assert (Enodes : s_nodes sm = s_nodes sv) by reflexivity.
    assert (Hmid : InvG sm /\ BooksG sm).
    { apply (gang_step sv sm av av0 tm_Fp zero3 (fun k => - getz (ap_pending av) k) HI HB Hav Eapps Q1 eq_refl);
        try (intros q; apply tm_Fp_keep); try reflexivity.
      - exact tm_qfacts.
      - destruct B as [B1 B2 B3 B4 B5 B6]. constructor.
        + intros k. unfold real_allocs, av0. apc. rewrite Za. reflexivity.
        + intros k. unfold ph_allocs, av0. apc. rewrite Zp. reflexivity.
        + intros k. reflexivity.
        + exact B4.
        + exact B5.
        + apply rnonneg_nil.
      - destruct W as [W1 W2 W3 W4 W5 W6 W7 W8 W9 W10]. constructor; unfold av0; apc; try assumption; try apply NoDup_nil;
          try (intros ? []); constructor.
      - apply rec_keys_incl. intros k []. 
      - intros k. unfold av0, zero3. apc. lia.
      - intros k. unfold av0. apc. rewrite getz_nil. lia.
      - rewrite Enodes. apply (ig_node_ids sv HI).
      - rewrite Enodes. apply (ig_nodes sv HI).
      - apply (owned_nodes_same sv sm av av0 HI Hav Eapps eq_refl Enodes). intros n y Hn Hy Ho. exfalso.
        apply (tm_norec n y Hn Hy). apply (g_record_app sv av y HI Hav (ownedby_record av y Ho)).
      - apply (onnode_nodes_same sv sm av av0 HI Hav Eapps Enodes). unfold av0. apc. intros z [].
      - apply (g_count_step sv sm av av0 HI Hav Eapps 0); [unfold av0; apc; rewrite Eal; reflexivity|cbn; lia].
      - intros k. rewrite (node_records_same sv sm Enodes). unfold zero3. lia. }
    destruct Hmid as [HIm HBm].
    assert (Ea : s_apps tm_final = filter (fun b => negb (ap_id b =? id)%N) (s_apps sm)).
    { cbn [tm_final set_completed set_apps s_apps]. rewrite A1. unfold id. rewrite Hrest, Eapps. symmetry. apply filter_updk_out. intros b _. reflexivity. }
    assert (Hnorec : forall n y, In n (s_nodes sm) -> In y (on_allocs n) -> oa_app y <> id) by exact tm_norec.
    assert (Hdrop : InvG tm_final /\ BooksG tm_final).
    { apply (drop_app_stepG sm tm_final id HIm HBm Ea); try assumption; try reflexivity.
      intros b Hb Eb. apply (g_in_apps' sv sm av av0 HI Hav Eapps) in Hb. destruct Hb as [->|[_ Hne]]; [|contradiction].
      constructor; unfold av0; apc; auto. }
    destruct Hdrop as [HIf HBf]. split; [constructor; [exact HIf|]|exact HBf].
    apply (link_drop sv tm_final id (ig2_link sv HI2)); [exact N1| |exact tm_norec].
    intros b. rewrite Ea, filter_In, Eapps. split.
    - intros [Hb Hne]. apply negb_true_iff, N.eqb_neq in Hne. split; [|exact Hne].
      apply (in_updk_const ap_id (s_apps sv) av av0 b (ig_app_ids sv HI) Hav) in Hb. destruct Hb as [->|[Hb _]]; [contradiction Hne; reflexivity|exact Hb].
    - intros [Hb Hne]. split; [|apply negb_true_iff, N.eqb_neq; exact Hne].
      apply (in_updk_const ap_id (s_apps sv) av av0 b (ig_app_ids sv HI) Hav). right. auto. Qed.
End Terminate.
