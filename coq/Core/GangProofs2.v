(* C06 - proofs about the component model Core/Gang.v, part 2: effect of a confirmed swap on the ledgers,
   end of the Failing / Resuming paths, application removal. *)
From Coq Require Import List ZArith NArith Bool Lia ZifyBool ZifyNat ZifyN.
From YK Require Import Base.Res Base.ResSpec Base.ResLemmas.
From YK Require Import Core.Obs Core.GangPred Core.MaxApps Core.Gang Core.GangProofs.
Import ListNotations.
Open Scope N_scope.
Set Default Timeout 60.

(* ---------- ledger frames of the helpers ---------- *)
Definition same_ledgers (s s' : gst) : Prop :=
  gs_queue s' = gs_queue s /\ gs_user s' = gs_user s /\ gs_nodeuse s' = gs_nodeuse s /\ gs_nodes s' = gs_nodes s.

Lemma gfire_ledgers s e s' evs : gfire s e = (s', evs) -> same_ledgers s s'.
Proof. intro H. destruct (gfire_frame _ _ _ _ H) as [_ [H1 [H2 [H3 [H4 _]]]]]. unfold same_ledgers. auto. Qed.

Lemma gfire_opt_ledgers s e s' evs : gfire_opt s e = (s', evs) -> same_ledgers s s'.
Proof.
  destruct e as [ev|]; cbn [gfire_opt]; intro H; [eapply gfire_ledgers; eauto|]. inversion H; subst. unfold same_ledgers. auto.
Qed.

Lemma asks_check_ledgers s s' evs : asks_state_check s = (s', evs) -> same_ledgers s s'.
Proof.
  unfold asks_state_check. destruct (_ && _); intro H; [eapply gfire_ledgers; eauto|]. inversion H; subst. unfold same_ledgers. auto.
Qed.

Lemma remove_ask_ledgers s k s' evs : remove_ask s k = (s', evs) -> same_ledgers s s'.
Proof.
  unfold remove_ask. destruct (negb (existsb g_req (gs_objs s))); intro H.
  - inversion H; subst. unfold same_ledgers. auto.
  - apply asks_check_ledgers in H. exact H.
Qed.

Lemma rai_ledgers s k ty s' evs o :
  remove_alloc_internal s k ty = (s', evs, Some o) ->
  find_obj s k = Some o /\ g_alloc o = true /\
  gs_queue s' = gs_queue s /\ gs_nodeuse s' = gs_nodeuse s /\ gs_nodes s' = gs_nodes s /\
  gs_user s' = lsub (gs_user s) (g_res o).
Proof.
  unfold remove_alloc_internal. destruct (find_obj s k) as [x|] eqn:Ef; [|intro H; inversion H].
  destruct (g_alloc x) eqn:Ea; cbn [negb]; [|intro H; inversion H].
  destruct (g_ph x).
  - match goal with |- context [existsb ?f ?l] => destruct (existsb f l) end;
    (match goal with |- context [gfire_opt ?a ?b] => destruct (gfire_opt a b) as [s4 ev4] eqn:E4 end;
     intro H; inversion H; subst; apply gfire_opt_ledgers in E4; destruct E4 as [Q [U [NU ND]]];
     cbn [set_objs set_ledgers set_timers set_pd gs_queue gs_user gs_nodeuse gs_nodes] in *; rewrite Q, U, NU, ND;
     repeat split; first [reflexivity|assumption]).
  - match goal with |- context [gfire_opt ?a ?b] => destruct (gfire_opt a b) as [s4 ev4] eqn:E4 end.
    intro H. inversion H; subst. apply gfire_opt_ledgers in E4. destruct E4 as [Q [U [NU ND]]].
    cbn [set_objs set_ledgers gs_queue gs_user gs_nodeuse gs_nodes] in *. rewrite Q, U, NU, ND. repeat split; first [reflexivity|assumption].
Qed.

Lemma aai_ledgers s b o full s' evs :
  add_alloc_internal s b o full = (s', evs) ->
  gs_queue s' = gs_queue s /\ gs_nodeuse s' = gs_nodeuse s /\ gs_nodes s' = gs_nodes s /\
  gs_user s' = ladd (gs_user s) (g_res o).
Proof.
  unfold add_alloc_internal. destruct (g_ph o).
  - destruct full.
    + intro H. apply gfire_ledgers in H. destruct H as [Q [U [NU ND]]]. cbn in Q, U, NU, ND.
      rewrite Q, U, NU, ND. destruct (negb (has_ph_alloc s) && negb (gs_phtimer s) && (gs_state s =? ST_Accepted)); auto.
    + intro H. inversion H; subst. cbn. destruct (negb (has_ph_alloc s) && negb (gs_phtimer s) && (gs_state s =? ST_Accepted)); auto.
  - destruct (negb b || has_real_alloc s || (gs_state s =? ST_Completing)).
    + destruct (gfire s EvRun) as [s1 ev] eqn:E. intro H. inversion H; subst. apply gfire_ledgers in E.
      destruct E as [Q [U [NU ND]]]. cbn. rewrite Q, U, NU, ND. auto.
    + intro H. inversion H; subst. cbn. auto.
Qed.

(* ---------- the arithmetic of the queue adjustment ---------- *)
Lemma getz_notin (x : res) t : ~ In t (keys x) -> getz x t = 0%Z.
Proof. intro H. rewrite getz_get. apply get_none_iff in H. rewrite H. reflexivity. Qed.

Lemma res_le_all r p : res_le r p = true -> forall t, (getz r t <= getz p t)%Z.
Proof.
  intros H t. unfold res_le in H. rewrite forallb_forall in H.
  destruct (in_dec N.eq_dec t (keys r ++ keys p)) as [Hi|Hn].
  - apply Z.leb_le. apply H. exact Hi.
  - rewrite (getz_notin r t), (getz_notin p t); [lia| |]; intro X; apply Hn; apply in_or_app; auto.
Qed.

Lemma queue_adjust (q : ledger) r p t :
  res_le r p = true ->
  let ks := all_keys r p in
  let delta := fun t => (getz r t - getz p t)%Z in
  (if existsb (fun t => (delta t <? 0)%Z) ks && forallb (fun t => (delta t <=? 0)%Z) ks
   then (fun t => (q t + delta t)%Z) else q) t = (q t - getz p t + getz r t)%Z.
Proof.
  intros Hle ks delta. pose proof (res_le_all r p Hle) as Hall.
  destruct (existsb (fun t0 => (delta t0 <? 0)%Z) ks) eqn:E1; cbn [andb].
  - assert (forallb (fun t0 => (delta t0 <=? 0)%Z) ks = true) as E2.
    { apply forallb_forall. intros x _. apply Z.leb_le. unfold delta. specialize (Hall x). lia. }
    rewrite E2. unfold delta. lia.
  - (* no component is smaller: with real <= placeholder they are equal *)
    assert (delta t = 0%Z) as D; [|unfold delta in D; lia].
    destruct (in_dec N.eq_dec t ks) as [Hi|Hn].
    + assert ((delta t <? 0)%Z = false) as X.
      { destruct (delta t <? 0)%Z eqn:E; [|reflexivity].
        assert (existsb (fun t0 => (delta t0 <? 0)%Z) ks = true) as Y; [|congruence].
        apply existsb_exists. exists t. auto. }
      unfold delta in *. specialize (Hall t). lia.
    + unfold delta, ks, all_keys in *. rewrite (getz_notin r t), (getz_notin p t); [lia| |]; intro X; apply Hn; apply in_or_app; auto.
Qed.

(* ---------- tracking an object through the list transformations ---------- *)
Lemma find_upd_other k k' (f : gal -> gal) l :
  k' <> k -> (forall x, g_key (f x) = g_key x) ->
  find (fun o => g_key o =? k') (upd_obj k f l) = find (fun o => g_key o =? k') l.
Proof.
  intros Hne Hf. unfold upd_obj. induction l as [|h t IH]; cbn [upd_first find]; [reflexivity|].
  destruct (g_key h =? k) eqn:E; cbn [find].
  - rewrite Hf. apply N.eqb_eq in E. assert (g_key h =? k' = false) as X by (apply N.eqb_neq; congruence). rewrite X. reflexivity.
  - destruct (g_key h =? k'); [reflexivity|exact IH].
Qed.

Lemma find_map_req k l :
  find (fun o => g_key o =? k) (map (o_set_req false) l) = option_map (o_set_req false) (find (fun o => g_key o =? k) l).
Proof.
  induction l as [|h t IH]; cbn [map find option_map]; [reflexivity|].
  change (g_key (o_set_req false h)) with (g_key h). destruct (g_key h =? k); [reflexivity|exact IH].
Qed.

(* the real ask as the placeholder removal leaves it: same key, resources, node and kind *)
Lemma rai_other s k ty s' evs o k' x :
  remove_alloc_internal s k ty = (s', evs, Some o) -> k' <> k -> find_obj s k' = Some x ->
  exists x', find_obj s' k' = Some x' /\ g_key x' = g_key x /\ g_res x' = g_res x /\ g_node x' = g_node x /\ g_ph x' = g_ph x.
Proof.
  unfold remove_alloc_internal. destruct (find_obj s k) as [y|] eqn:Ef; [|intro H; inversion H].
  destruct (g_alloc y) eqn:Ea; cbn [negb]; [|intro H; inversion H].
  assert (G : forall s3 ev s4 ev4, gfire_opt s3 ev = (s4, ev4) -> gs_objs s3 = gs_objs s -> k' <> k -> find_obj s k' = Some x ->
              exists x', find_obj (set_objs s4 (upd_obj k (o_set_alloc false) (gs_objs s4))) k' = Some x' /\
                         g_key x' = g_key x /\ g_res x' = g_res x /\ g_node x' = g_node x /\ g_ph x' = g_ph x).
  { intros s3 ev s4 ev4 E4 E3 Hne Hx. unfold find_obj. cbn [set_objs gs_objs]. rewrite find_upd_other; [|exact Hne|reflexivity].
    assert (gs_objs s4 = gs_objs s3 \/ gs_objs s4 = map (o_set_req false) (gs_objs s3)) as Ho.
    { destruct ev as [e|]; cbn [gfire_opt] in E4; [exact (proj2 (proj2 (proj2 (proj2 (proj2 (proj2 (gfire_frame _ _ _ _ E4)))))))|].
      inversion E4; subst. left. reflexivity. }
    unfold find_obj in Hx. destruct Ho as [Ho|Ho]; rewrite Ho, E3.
    - exists x. auto.
    - rewrite find_map_req, Hx. cbn [option_map]. eexists. split; [reflexivity|]. auto. }
  destruct (g_ph y).
  - match goal with |- context [gfire_opt ?a ?b] => destruct (gfire_opt a b) as [s4 ev4] eqn:E4 end.
    intros H Hne Hx. inversion H; subst. eapply G; eauto. cbn. destruct (existsb _ _); reflexivity.
  - match goal with |- context [gfire_opt ?a ?b] => destruct (gfire_opt a b) as [s4 ev4] eqn:E4 end.
    intros H Hne Hx. inversion H; subst. eapply G; eauto.
Qed.

(* ---------- swap_effect ---------- *)
(* After the shim confirmed the swap of placeholder p (linked to the real ask r, r <= p):
   queue and user usage are (before - placeholder + real), hence not more than before; on the placeholder's
   node usage is (before - placeholder + real) when the real allocation stays there, (before - placeholder)
   when it went to another node, whose usage does not change at the confirmation; the placeholder's node no
   longer lists it; the real allocation is announced. *)
Lemma swap_effect_l s pk p r s' evs :
  find_obj s pk = Some p -> g_alloc p = true -> g_ph p = true -> g_link p = g_key r -> g_link p <> 0 ->
  find_obj s (g_key r) = Some r -> g_ph r = false ->
  res_le (g_res r) (g_res p) = true -> (forall t, (0 <= getz (g_res p) t)%Z) ->
  release_step s pk TT_PlaceholderReplaced = (s', evs) ->
  (forall t, gs_queue s' t = (gs_queue s t - getz (g_res p) t + getz (g_res r) t)%Z /\ (gs_queue s' t <= gs_queue s t)%Z) /\
  (forall t, gs_user s' t = (gs_user s t - getz (g_res p) t + getz (g_res r) t)%Z /\ (gs_user s' t <= gs_user s t)%Z) /\
  (forall t, if g_node r =? g_node p
             then gs_nodeuse s' (g_node p) t = (gs_nodeuse s (g_node p) t - getz (g_res p) t + getz (g_res r) t)%Z
             else gs_nodeuse s' (g_node p) t = (gs_nodeuse s (g_node p) t - getz (g_res p) t)%Z /\
                  gs_nodeuse s' (g_node r) t = gs_nodeuse s (g_node r) t) /\
  (forall t n, (gs_nodeuse s' n t <= gs_nodeuse s n t)%Z) /\
  on_node s' (g_node p) pk = false /\
  In (GNew (g_key r) (g_node r)) evs.
Proof.
  intros Hp Hpa Hpp Hlink Hl0 Hr Hrp Hle Hpos. pose proof (res_le_all _ _ Hle) as Hall.
  assert (Hne : g_key r <> pk).
  { intro E. rewrite E in Hr. rewrite Hp in Hr. inversion Hr; subst. congruence. }
  unfold release_step. change (TT_PlaceholderReplaced =? TT_PlaceholderReplaced) with true. cbn iota.
  destruct (remove_alloc_internal s pk TT_PlaceholderReplaced) as [[sa eva] ph] eqn:Ea.
  assert (ph = Some p) as Eph.
  { unfold remove_alloc_internal in Ea. rewrite Hp, Hpa, Hpp in Ea. cbn [negb] in Ea.
    match type of Ea with context [gfire_opt ?a ?b] => destruct (gfire_opt a b) end. inversion Ea. reflexivity. }
  subst ph. destruct (rai_ledgers _ _ _ _ _ _ Ea) as [_ [_ [Qa [NUa [NDa Ua]]]]].
  destruct (rai_other _ _ _ _ _ _ (g_key r) r Ea Hne Hr) as [r' [Hr' [Rk [Rres [Rnode Rph]]]]].
  assert (g_link p =? 0 = false) as El0 by (apply N.eqb_neq; exact Hl0). rewrite El0.
  rewrite Hlink, Hr'. rewrite Rph, Hrp.
  destruct (add_alloc_internal sa true r' false) as [sb evb] eqn:Eb.
  destruct (aai_ledgers _ _ _ _ _ _ Eb) as [Qb [NUb [NDb Ub]]].
  rewrite ?El0. cbn [negb andb]. rewrite ?Hlink, Hr. rewrite Hrp.
  set (ks := all_keys (g_res r) (g_res p)).
  set (delta := fun t => (getz (g_res r) t - getz (g_res p) t)%Z).
  set (s1 := set_objs sb (upd_obj (g_key r') (o_set_link 0) (gs_objs sb))).
  assert (Q1 : gs_queue s1 = gs_queue s) by (cbn; congruence).
  assert (U1 : gs_user s1 = ladd (lsub (gs_user s) (g_res p)) (g_res r)) by (cbn; rewrite Ub, Ua, Rres; reflexivity).
  assert (NU1 : gs_nodeuse s1 = gs_nodeuse s) by (cbn; congruence).
  assert (ND1 : gs_nodes s1 = gs_nodes s) by (cbn; congruence).
  change (TT_PlaceholderReplaced =? TT_Timeout) with false. cbn iota.
  destruct (g_node r =? g_node p) eqn:En.
  - match goal with |- context [remove_ask ?a ?b] => destruct (remove_ask a b) as [s3 ev3] eqn:E3 end.
    intro H. inversion H; subst s' evs. clear H. apply remove_ask_ledgers in E3. destruct E3 as [Q3 [U3 [NU3 ND3]]].
    cbn [set_ledgers gs_queue gs_user gs_nodeuse gs_nodes] in Q3, U3, NU3, ND3.
    split; [|split; [|split; [|split; [|split]]]].
    + intro t. rewrite Q3, Q1. pose proof (queue_adjust (gs_queue s) (g_res r) (g_res p) t Hle) as QA. cbn zeta in QA.
      unfold ks, delta. rewrite QA. specialize (Hall t). lia.
    + intro t. rewrite U3, U1. unfold ladd, lsub. specialize (Hall t). lia.
    + intro t. rewrite NU3, NU1, N.eqb_refl. unfold delta. lia.
    + intros t n. rewrite NU3, NU1. destruct (n =? g_node p); [unfold delta; specialize (Hall t); lia|lia].
    + unfold on_node. rewrite ND3, ND1. cbn [existsb fst snd]. rewrite N.eqb_refl. cbn [andb].
      assert (g_key r =? pk = false) as X by (apply N.eqb_neq; exact Hne). rewrite X. cbn [orb].
      unfold node_del. destruct (existsb _ (filter _ _)) eqn:E; [|reflexivity].
      apply existsb_exists in E. destruct E as [q [Hq Eq]]. apply filter_In in Hq. destruct Hq as [_ Hq]. rewrite Eq in Hq. discriminate.
    + apply in_or_app. right. left. reflexivity.
  - match goal with |- context [remove_ask ?a ?b] => destruct (remove_ask a b) as [s3 ev3] eqn:E3 end.
    intro H. inversion H; subst s' evs. clear H. apply remove_ask_ledgers in E3. destruct E3 as [Q3 [U3 [NU3 ND3]]].
    cbn [set_ledgers gs_queue gs_user gs_nodeuse gs_nodes] in Q3, U3, NU3, ND3.
    split; [|split; [|split; [|split; [|split]]]].
    + intro t. rewrite Q3, Q1. pose proof (queue_adjust (gs_queue s) (g_res r) (g_res p) t Hle) as QA. cbn zeta in QA.
      unfold ks, delta. rewrite QA. specialize (Hall t). lia.
    + intro t. rewrite U3, U1. unfold ladd, lsub. specialize (Hall t). lia.
    + intro t. rewrite NU3, NU1. unfold nsub, lsub. rewrite N.eqb_refl, En. split; reflexivity.
    + intros t n. rewrite NU3, NU1. unfold nsub, lsub. destruct (n =? g_node p); [|lia].
      specialize (Hpos t). lia.
    + unfold on_node. rewrite ND3, ND1. unfold node_del. destruct (existsb _ (filter _ _)) eqn:E; [|reflexivity].
      apply existsb_exists in E. destruct E as [q [Hq Eq]]. apply filter_In in Hq. destruct Hq as [_ Hq]. rewrite Eq in Hq. discriminate.
    + apply in_or_app. right. left. reflexivity.
Qed.

(* ---------- end of the Failing / Resuming paths ---------- *)
(* when the shim confirms the release of the last allocated placeholder of a Failing application it becomes
   Failed; a Resuming application goes back to Accepted *)
Lemma gfire_some s e st' s' evs :
  fsm (gs_state s) e = Some st' -> (st' =? gs_state s) = false -> gfire s e = (s', evs) ->
  gs_state s' = st' /\ evs = [GState st'] /\ gs_phtimer s' = (if st' =? ST_Completed then false else gs_phtimer s).
Proof.
  intros Hf Hne. unfold gfire. rewrite Hf, Hne. destruct ((st' =? ST_Completed) || (st' =? ST_Failed)); intro H; inversion H; subst; cbn; auto.
Qed.

Lemma rai_last s k ty p (st want : N) (ev : mev) :
  (st = ST_Failing /\ want = ST_Failed /\ ev = EvFail) \/ (st = ST_Resuming /\ want = ST_Accepted /\ ev = EvRun) ->
  gs_state s = st -> find_obj s k = Some p -> g_alloc p = true -> g_ph p = true ->
  existsb (fun x => g_alloc x && g_ph x && negb (g_key x =? k)) (gs_objs s) = false ->
  exists sa eva, remove_alloc_internal s k ty = (sa, eva, Some p) /\
    gs_state sa = want /\ In (GState want) eva /\ gs_phtimer sa = false.
Proof.
  intros Hcase Hst Hp Hpa Hpp Hlast. unfold remove_alloc_internal. rewrite Hp, Hpa, Hpp. cbn [negb].
  cbn [set_pd gs_objs]. rewrite Hlast. cbn [set_timers set_pd gs_state gs_statetimer]. rewrite Hst.
  assert (Hf : fsm st ev = Some want) by (destruct Hcase as [[E1 [E2 E3]]|[E1 [E2 E3]]]; subst; reflexivity).
  assert (W1 : (want =? ST_Completed) = false) by (destruct Hcase as [[E1 [E2 E3]]|[E1 [E2 E3]]]; subst; reflexivity).
  assert (Hsel : forall b1 b2 : bool,
            (if b1 || (st =? ST_Failing) || (st =? ST_Resuming) || b2
             then Some (if st =? ST_Failing then EvFail else if st =? ST_Resuming then EvRun else EvComplete) else None) = Some ev).
  { intros b1 b2. destruct Hcase as [[E1 [E2 E3]]|[E1 [E2 E3]]]; subst st ev; destruct b1, b2; reflexivity. }
  rewrite Hsel. cbn [gfire_opt].
  match goal with |- context [gfire ?x ev] => destruct (gfire x ev) as [s4 ev4] eqn:Eg end.
  apply gfire_some with (st' := want) in Eg; [|cbn [set_ledgers set_timers set_pd gs_state]; rewrite Hst; exact Hf|
    cbn [set_ledgers set_timers set_pd gs_state]; rewrite Hst; destruct Hcase as [[E1 [E2 E3]]|[E1 [E2 E3]]]; subst; reflexivity].
  destruct Eg as [G1 [G2 G3]]. eexists. eexists. split; [reflexivity|]. cbn [set_objs gs_state gs_phtimer].
  split; [exact G1|]. split; [rewrite G2; left; reflexivity|]. rewrite G3, W1. reflexivity.
Qed.

Lemma last_placeholder_path s k p s' evs (st want : N) (ev : mev) :
  (st = ST_Failing /\ want = ST_Failed /\ ev = EvFail) \/ (st = ST_Resuming /\ want = ST_Accepted /\ ev = EvRun) ->
  gs_state s = st -> find_obj s k = Some p -> g_alloc p = true -> g_ph p = true ->
  existsb (fun x => g_alloc x && g_ph x && negb (g_key x =? k)) (gs_objs s) = false ->
  release_step s k TT_Timeout = (s', evs) ->
  gs_state s' = want /\ In (GState want) evs /\ gs_phtimer s' = false.
Proof.
  intros Hcase Hst Hp Hpa Hpp Hlast.
  destruct (rai_last s k TT_Timeout p st want ev Hcase Hst Hp Hpa Hpp Hlast) as [sa [eva [Ea [S1 [S2 S3]]]]].
  unfold release_step. change (TT_Timeout =? TT_PlaceholderReplaced) with false. cbn iota. rewrite Ea.
  cbn [andb]. change (TT_Timeout =? TT_Timeout) with true. cbn iota.
  destruct (on_node sa (g_node p) k); intro H; inversion H; subst s' evs; cbn [set_ledgers gs_state gs_phtimer];
  (split; [exact S1|split; [apply in_or_app; left; exact S2|exact S3]]).
Qed.

(* ---------- application removal ---------- *)
Lemma gfire_alloc_flags s e s' evs o' :
  gfire s e = (s', evs) -> In o' (gs_objs s') -> exists o, In o (gs_objs s) /\ g_alloc o' = g_alloc o /\ g_key o' = g_key o /\ g_node o' = g_node o.
Proof.
  intros H Ho. destruct (gfire_frame _ _ _ _ H) as [_ [_ [_ [_ [_ [_ [E|E]]]]]]]; rewrite E in Ho.
  - exists o'. auto.
  - apply in_map_iff in Ho. destruct Ho as [o [Eo Hi]]. exists o. subst o'. auto.
Qed.

(* no_placeholder_outlives_app, removal: after partition.removeApplication nothing of the application is
   allocated any more and the nodes no longer list any of its allocations (placeholders included) *)
Lemma remove_app_clean s s' evs :
  (forall o, In o (gs_objs s) -> g_alloc o = true -> on_node s (g_node o) (g_key o) = true) ->
  remove_app_step s = (s', evs) ->
  (forall o, In o (gs_objs s') -> g_alloc o = false) /\ has_ph_alloc s' = false /\
  (forall n k o, In (n, k) (gs_nodes s') -> In o (gs_objs s) -> g_alloc o = true -> g_key o = k -> g_node o = n -> False).
Proof.
  intros Hon. unfold remove_app_step.
  destruct (remove_all_asks_g s) as [s1 ev1] eqn:E1.
  assert (H1 : forall o, In o (gs_objs s) -> exists o1, In o1 (gs_objs s1) /\ g_alloc o1 = g_alloc o /\ g_key o1 = g_key o /\ g_node o1 = g_node o).
  { unfold remove_all_asks_g in E1. destruct (negb (existsb g_req (gs_objs s))).
    - inversion E1; subst. intros o Ho. exists o. auto.
    - unfold asks_state_check in E1. cbn [set_objs gs_objs] in E1.
      match type of E1 with (if ?c then _ else _) = _ => destruct c end.
      + intros o Ho. destruct (gfire_frame _ _ _ _ E1) as [_ [_ [_ [_ [_ [_ [E|E]]]]]]]; cbn [set_objs gs_objs] in E; rewrite E.
        * exists (o_set_req false o). split; [apply in_map; exact Ho|auto].
        * exists (o_set_req false (o_set_req false o)). split; [apply in_map; apply in_map; exact Ho|auto].
      + inversion E1; subst. intros o Ho. exists (o_set_req false o). split; [cbn; apply in_map; exact Ho|auto]. }
  assert (N1 : gs_nodes s1 = gs_nodes s).
  { unfold remove_all_asks_g in E1. destruct (negb (existsb g_req (gs_objs s))); [inversion E1; reflexivity|].
    apply asks_check_ledgers in E1. destruct E1 as [_ [_ [_ E]]]. exact E. }
  set (allocs := filter g_alloc (gs_objs s1)).
  match goal with |- context [if negb (has_pending ?x) then gfire ?x EvComplete else (?x, [])] =>
    destruct (if negb (has_pending x) then gfire x EvComplete else (x, [])) as [s3 ev3] eqn:E3 end.
  intro H. inversion H; subst s' evs. clear H. cbn [set_ledgers set_timers gs_objs gs_nodes].
  assert (H3 : forall o, In o (gs_objs s3) -> g_alloc o = false).
  { intros o Ho. match type of E3 with (if ?c then _ else _) = _ => destruct c end.
    - destruct (gfire_alloc_flags _ _ _ _ _ E3 Ho) as [o0 [Ho0 [Ea _]]]. cbn [set_pd set_objs gs_objs] in Ho0.
      apply in_map_iff in Ho0. destruct Ho0 as [x [Ex _]]. subst o0. rewrite Ea. reflexivity.
    - inversion E3; subst. cbn [set_pd set_objs gs_objs] in Ho. apply in_map_iff in Ho. destruct Ho as [x [Ex _]]. subst o. reflexivity. }
  assert (N3 : gs_nodes s3 = gs_nodes s).
  { match type of E3 with (if ?c then _ else _) = _ => destruct c end.
    - apply gfire_ledgers in E3. destruct E3 as [_ [_ [_ E]]]. cbn in E. congruence.
    - inversion E3; subst. cbn. exact N1. }
  split; [exact H3|]. split.
  - unfold has_ph_alloc. cbn [set_ledgers set_timers gs_objs]. destruct (existsb _ (gs_objs s3)) eqn:E; [|reflexivity].
    apply existsb_exists in E. destruct E as [o [Ho Eo]]. rewrite (H3 o Ho) in Eo. discriminate.
  - intros n k o Hin Ho Ha Ek En. apply filter_In in Hin. destruct Hin as [_ Hin]. cbn [fst snd] in Hin.
    destruct (H1 o Ho) as [o1 [Ho1 [A1 [K1 ND1]]]].
    assert (existsb (fun x => (g_key x =? k) && (g_node x =? n)) allocs = true) as X.
    { apply existsb_exists. exists o1. split; [apply filter_In; split; [exact Ho1|congruence]|].
      rewrite K1, ND1, Ek, En, !N.eqb_refl. reflexivity. }
    rewrite X in Hin. discriminate.
Qed.
