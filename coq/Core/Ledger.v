(* Predicates of properties C01 (node capacity), C02 (queue maxima), C03 (conservation), as boolean
   functions over observed states / steps (Core/Obs.v). The same definitions are used
   (a) as oracles on the implementation's observations (Oracles/CoreC0x.v) and
   (b) as the statements proved about the operational model (Core/ModelInv*.v). *)
From Coq Require Import List ZArith NArith Bool.
From YK Require Import Base.Int64 Base.Res Core.Obs.
Import ListNotations.
Open Scope N_scope.

(* ---------- generic helpers ---------- *)
Definition allkeys3 (a b c : res) : list tid := keys a ++ keys b ++ keys c.

(* what is free on a node according to its ledgers: total - allocated - occupied *)
Definition node_free (n : onode) (k : tid) : Z :=
  (getz (on_total n) k - getz (on_allocated n) k - getz (on_occupied n) k)%Z.

(* ---------- C01: node ledger ---------- *)
Definition node_ledger_ok (n : onode) : bool :=
  res_is_sum (on_allocated n) (map oa_res (on_allocs n)) &&
  res_is_sum (on_occupied n) (map oa_res (on_foreign n)) &&
  forallb (fun k => Z.eqb (getz (on_available n) k) (node_free n k))
          (keys (on_available n) ++ keys (on_total n) ++ keys (on_allocated n) ++ keys (on_occupied n)).

Definition nodes_ledger_ok (s : ostate) : bool := forallb node_ledger_ok (s_nodes s).

(* window of known finding C01-foreign-moved: a foreign allocation update that names another node than the one
   the allocation lives on is stored on that node without accounting. The ledger is judged without the foreign
   allocations for which the partition's foreign map has no entry on this node. *)
Definition foreign_owned_here (s : ostate) (n : onode) (x : oalloc) : bool :=
  match find_alloc (s_foreign s) (oa_key x) with
  | Some f => oa_node f =? on_id n
  | None => false
  end.
Definition node_ledger_ok_known (s : ostate) (n : onode) : bool :=
  negb (forallb (foreign_owned_here s n) (on_foreign n)) &&
  node_ledger_ok (mkON (on_id n) (on_total n) (on_occupied n) (on_allocated n) (on_available n) (on_sched n)
                       (on_allocs n) (filter (foreign_owned_here s n) (on_foreign n)) (on_reservations n)).

(* ask r fits in what is free on n (negative free counts as 0, a type the node lacks as 0) *)
Definition fits_free (n : onode) (r : res) : bool :=
  forallb (fun kv => (snd kv <=? Z.max 0 (node_free n (fst kv)))%Z) r.

Definition node_has_negative (n : onode) : bool :=
  existsb (fun kv => (snd kv <? 0)%Z) (on_available n).

(* the pending ask with key k of application a in state s *)
Definition find_ask (s : ostate) (a k : N) : option oalloc :=
  match find_app s a with
  | Some ap => find_alloc (ap_requests ap) k
  | None => None
  end.

Definition reserved_for (n : onode) (a k : N) : bool :=
  existsb (fun p => (fst p =? a) && (snd p =? k)) (on_reservations n).

Inductive bind_verdict := BindOk | BindBad (why : N) | BindKnown (why : N).

(* the reservations of node n that stand in the way of an ask: all of them for an ordinary ask; for an ask that
   REQUIRES this node only the reservations of other required-node asks, because tryRequiredNode first cancels every
   reservation on the node whose ask does not require it (Application.cancelReservations) *)
Definition blocking_reservations (pre : ostate) (n : onode) (nid reqnode : N) : list (N * N) :=
  if negb (reqnode =? 0) && (reqnode =? nid)
  then filter (fun p => match find_app pre (fst p) with
                        | Some ap => match find_alloc (ap_requests ap) (snd p) with
                                     | Some x => negb (oa_reqnode x =? 0)
                                     | None => true end
                        | None => true end) (on_reservations n)
  else on_reservations n.

(* the checks the property lists for a binding of ask (a,k) with resource r to node nid decided by the
   scheduler, judged on the pre-state.  why: 2 unregistered node, 3 does not fit, 4 reserved for another ask,
   5 not the required node, 6 predicate denied, 7 unschedulable node;
   known 50: unschedulable node reached through the reservation / required-node path (finding C01-reserved-drained) *)
Definition bind_check (deny : list (N * N)) (pre : ostate) (a k nid : N) (r : res) (reqnode : N) : bind_verdict :=
  match find_node pre nid with
  | None => BindBad 2
  | Some n =>
      if negb (fits_free n r) then BindBad 3
      else if negb (match blocking_reservations pre n nid reqnode with [] => true
                          | rs => existsb (fun p => (fst p =? a) && (snd p =? k)) rs end) then BindBad 4
      else if negb ((reqnode =? 0) || (reqnode =? nid)) then BindBad 5
      else if existsb (fun p => (fst p =? k) && (snd p =? nid)) deny then BindBad 6
      else if negb (on_sched n) then
        (if reserved_for n a k || (reqnode =? nid) then BindKnown 50 else BindBad 7)
      else BindOk
  end.

(* ---------- C02: queue maxima ---------- *)
Fixpoint ancestors_fuel (fuel : nat) (s : ostate) (q : N) : list oqueue :=
  match fuel with
  | O => []
  | S f => match find_queue s q with
           | None => []
           | Some oq => oq :: (if q_parent oq =? 0 then [] else ancestors_fuel f s (q_parent oq))
           end
  end.
(* the queue and all its ancestors up to the root *)
Definition ancestors (s : ostate) (q : N) : list oqueue := ancestors_fuel (S (length (s_queues s))) s q.

(* usage of q exceeds its maximum on type k (only types the maximum defines; root: its max is the cluster size) *)
Definition over_max_at (q : oqueue) (k : tid) : bool :=
  match q_max q with
  | None => false
  | Some m => match get m k with Some v => (v <? getz (q_alloc q) k)%Z | None => false end
  end.
Definition over_max_types (q : oqueue) : list tid := filter (over_max_at q) (keys (q_alloc q)).

(* the same judged on what the applications below the queue actually hold (real + placeholder allocations),
   independent of the queue's own ledger: a decision that is not charged to the queue still uses the quota *)
Definition apps_under (s : ostate) (q : N) : list oapp :=
  filter (fun a => existsb (fun anc => q_id anc =? q) (ancestors s (ap_queue a))) (s_apps s).
Definition held_under (s : ostate) (q : N) (k : tid) : Z :=
  (sumz (map ap_allocated (apps_under s q)) k + sumz (map ap_phalloc (apps_under s q)) k)%Z.
Definition over_max_held_at (s : ostate) (q : oqueue) (k : tid) : bool :=
  match q_max q with
  | None => false
  | Some m => match get m k with Some v => (v <? held_under s (q_id q) k)%Z | None => false end
  end.
Definition held_keys (s : ostate) (q : N) : list tid :=
  res_keys (map ap_allocated (apps_under s q)) ++ res_keys (map ap_phalloc (apps_under s q)).

(* after a scheduling decision for an ask with resource r placed in leaf queue qid: no ancestor is above its
   maximum on a type the ask requests; at the root every requested type must be provided by some node *)
Definition queue_max_ok_after (post : ostate) (qid : N) (r : res) : bool :=
  forallb (fun q => forallb (fun kv => negb ((0 <? snd kv)%Z && over_max_at q (fst kv))) r) (ancestors post qid) &&
  match find (fun q => q_parent q =? 0) (ancestors post qid) with
  | Some root => match q_max root with
                 | Some m => forallb (fun kv => negb (0 <? snd kv)%Z || has m (fst kv)) r
                 | None => false
                 end
  | None => false
  end.

(* ---------- C03: the books agree ---------- *)
Definition real_allocs (a : oapp) : list oalloc := filter (fun x => negb (oa_ph x)) (ap_allocs a).
Definition ph_allocs (a : oapp) : list oalloc := filter oa_ph (ap_allocs a).
Definition pending_asks (a : oapp) : list oalloc := filter (fun x => negb (oa_allocated x)) (ap_requests a).

Definition app_books_ok (a : oapp) : bool :=
  res_is_sum (ap_allocated a) (map oa_res (real_allocs a)) &&
  res_is_sum (ap_phalloc a) (map oa_res (ph_allocs a)) &&
  res_is_sum (ap_pending a) (map oa_res (pending_asks a)) &&
  res_nonneg (ap_allocated a) && res_nonneg (ap_phalloc a) && res_nonneg (ap_pending a).

Definition apps_of_queue (s : ostate) (q : N) : list oapp := filter (fun a => ap_queue a =? q) (s_apps s).
Definition children_of (s : ostate) (q : N) : list oqueue := filter (fun c => q_parent c =? q) (s_queues s).

Definition queue_books_ok (s : ostate) (q : oqueue) : bool :=
  res_nonneg (q_alloc q) && res_nonneg (q_pending q) &&
  if q_leaf q then
    res_is_sum (q_alloc q) (map ap_allocated (apps_of_queue s (q_id q)) ++ map ap_phalloc (apps_of_queue s (q_id q))) &&
    res_is_sum (q_pending q) (map ap_pending (apps_of_queue s (q_id q)))
  else
    res_is_sum (q_alloc q) (map q_alloc (children_of s (q_id q))) &&
    res_is_sum (q_pending q) (map q_pending (children_of s (q_id q))).

(* an allocation the node lists that is the real half of an in-flight swap: bound on the node already,
   not yet in the application's allocation list *)
Definition inflight_real (s : ostate) (x : oalloc) : bool :=
  negb (oa_ph x) && negb (oa_release x =? 0) &&
  match find_app s (oa_app x) with
  | Some ap => match find_alloc (ap_allocs ap) (oa_key x) with
               | Some _ => false
               | None => match find_alloc (ap_requests ap) (oa_key x) with Some r => oa_allocated r | None => false end
               end
  | None => false
  end.

(* every allocation a node lists belongs to a live application that lists it (or is an in-flight real half) *)
Definition node_alloc_owned (s : ostate) (x : oalloc) : bool :=
  match find_app s (oa_app x) with
  | Some ap => match find_alloc (ap_allocs ap) (oa_key x) with Some _ => true | None => inflight_real s x end
  | None => false
  end.
(* every allocation an application lists is on the node it names *)
Definition app_alloc_on_node (s : ostate) (x : oalloc) : bool :=
  match find_node s (oa_node x) with
  | Some n => existsb (fun y => oa_key y =? oa_key x) (on_allocs n)
  | None => false
  end.

Definition root_queue (s : ostate) : option oqueue := find (fun q => q_parent q =? 0) (s_queues s).

Definition root_matches_nodes (s : ostate) : bool :=
  match root_queue s with
  | None => true
  | Some r =>
      let inflight := filter (inflight_real s) (flat_map on_allocs (s_nodes s)) in
      forallb (fun k => Z.eqb (getz (q_alloc r) k + sumz (map oa_res inflight) k)%Z (sumz (map on_allocated (s_nodes s)) k))
              (keys (q_alloc r) ++ res_keys (map on_allocated (s_nodes s)) ++ res_keys (map oa_res inflight))
  end.

Definition all_zero (r : res) : bool := forallb (fun kv => Z.eqb (snd kv) 0) r.
(* nothing leaks: with no application left every application-driven ledger is zero *)
Definition drained_ok (s : ostate) : bool :=
  match s_apps s with
  | [] => forallb (fun q => all_zero (q_alloc q) && all_zero (q_pending q)) (s_queues s) &&
          forallb (fun n => all_zero (on_allocated n) && match on_allocs n with [] => true | _ => false end) (s_nodes s) &&
          Z.eqb (s_nallocs s) 0
  | _ => true
  end.

(* ---------- triggers of recorded known findings that corrupt the books of a history ----------
   Once one of these steps has happened, later accounting failures in the same history are consequences of it.
   1: resource update (si.Allocation with a changed resource) for the real ask of an in-flight placeholder swap
      (allocated flag set, not yet in the allocation list): the delta is booked on application, queue and node.
   2: the shim releases (not PLACEHOLDER_REPLACED) a placeholder whose swap is in flight: the real ask stays
      allocated for ever (DESIGN finding #17).
   3: the swap confirmation arrives for an application that is Completing with its state timer already cleared:
      the application completes and the real allocation is added afterwards (DESIGN finding #13). *)
Definition is_inflight_real_req (a : oapp) (x : oalloc) : bool :=
  negb (oa_ph x) && negb (oa_release x =? 0) && oa_allocated x &&
  match find_alloc (ap_allocs a) (oa_key x) with Some _ => false | None => true end.

(* 4: an application becomes terminated (moves to the completed list) while it still lists allocations, e.g. a
      Hard gang application goes Failing -> Failed when its last placeholder is removed although a real allocation
      whose TIMEOUT release the shim has not confirmed yet is still bound: the node keeps it for ever *)
Definition terminated_with_allocs (pre : ostate) (st : ostep) : bool :=
  existsb (fun a => match ap_allocs a with [] => false | _ => true end &&
                    negb (existsb (fun b => (ap_id b =? ap_id a) && match ap_allocs b with [] => false | _ => true end) (s_completed pre)))
          (s_completed (st_obs st)).

(* 5: while the real half of a placeholder swap is bound on ANOTHER node than its placeholder and the swap is not
      confirmed yet (the real ask is on that node but not in the application's allocation list), the application is
      removed, all its allocations are released (empty key) or the shim releases that real ask: every removal path
      walks the application's allocation list only, so the real allocation stays on the other node for ever. *)
Definition xnode_inflight_reals (a : oapp) : list oalloc :=
  filter (fun x => is_inflight_real_req a x &&
                   match find_alloc (ap_allocs a) (oa_release x) with
                   | Some ph => negb (oa_node ph =? oa_node x)
                   | None => true end) (ap_requests a).

Definition xnode_removal_trigger (pre : ostate) (st : ostep) : bool :=
  match st_op st with
  | OpAppRemove id =>
      match find_app pre id with Some a => match xnode_inflight_reals a with [] => false | _ => true end | None => false end
  | OpRelease app key ttype =>
      match find_app pre app with
      | Some a =>
          if key =? 0 then match xnode_inflight_reals a with [] => false | _ => true end
          else negb (ttype =? TT_PlaceholderReplaced) && existsb (fun x => oa_key x =? key) (xnode_inflight_reals a)
      | None => false
      end
  | _ => false
  end.

(* 6: a request stays in the application's request map with the allocated flag set although no allocation exists
      any more (left behind by a release with termination type TIMEOUT, which skips RemoveAllocationAsk, or by node
      removal) and is then addressed by an si.Allocation with a changed resource: UpdateAllocationResources takes the
      allocated branch and books the delta on application, queue and node although nothing is allocated.
      (found as a refutation of the books invariant over Core/Model2.v, confirmed on the real code) *)
Definition stale_allocated_update (pre : ostate) (st : ostep) : bool :=
  match st_op st with
  | OpAlloc r =>
      match find_app pre (rq_app r) with
      | Some a => match find_alloc (ap_requests a) (rq_key r) with
                  | Some x => oa_allocated x && (oa_release x =? 0) &&
                              match find_alloc (ap_allocs a) (oa_key x) with Some _ => false | None => true end &&
                              negb (res_eqz (oa_res x) (oget (rq_res r)))
                  | None => false end
      | None => false
      end
  | _ => false
  end.

Definition known_trigger (pre : ostate) (st : ostep) : option N :=
  if terminated_with_allocs pre st then Some 4 else
  if xnode_removal_trigger pre st then Some 5 else
  if stale_allocated_update pre st then Some 6 else
  match st_op st with
  | OpAlloc r =>
      match find_app pre (rq_app r) with
      | Some a => match find_alloc (ap_requests a) (rq_key r) with
                  | Some x => if is_inflight_real_req a x && negb (res_eqz (oa_res x) (oget (rq_res r))) then Some 1 else None
                  | None => None end
      | None => None
      end
  | OpRelease app key ttype =>
      match find_app pre app with
      | Some a =>
          match find_alloc (ap_allocs a) key with
          | Some x =>
              if oa_ph x && negb (oa_release x =? 0) then
                (if negb (ttype =? TT_PlaceholderReplaced) then Some 2
                 else if (ap_state a =? ST_Completing) && negb (ap_statetimer a) then Some 3 else None)
              else None
          | None => None
          end
      | None => None
      end
  | _ => None
  end.
