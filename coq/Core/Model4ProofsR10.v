(* C09 over the operational model, part 10: removeNode in a state with reservations.  The loop PartitionContext.unReserve over
   the reservations of the node leaves the node without reservations; then the node is removed. *)
From Coq Require Import List ZArith NArith Bool Lia ZifyBool ZifyN.
From YK Require Import Base.Int64 Base.Res Core.Obs Core.Model Core.Model2 Core.Ledger Core.Model4 Core.NodeProofs Core.QueueProofs Core.StepProofs
  Core.Model4ProofsF Core.Model4ProofsR1 Core.Model4ProofsR2 Core.Model4ProofsR3 Core.Model4ProofsR4 Core.Model4ProofsR5 Core.Model4ProofsR6
  Core.Model4ProofsR7 Core.Model4ProofsR8.
Import ListNotations.
Open Scope N_scope.
Set Default Timeout 30.

(* reservation lists only shrink along cancellations *)
Definition res_shrink (s s' : ostate) : Prop :=
  (forall b', In b' (s_apps s') -> exists b, In b (s_apps s) /\ ap_id b = ap_id b' /\ incl (ap_reservations b') (ap_reservations b)) /\
  (forall n', In n' (s_nodes s') -> exists n, In n (s_nodes s) /\ on_id n = on_id n' /\ incl (on_reservations n') (on_reservations n)).
Lemma res_shrink_refl s : res_shrink s s.
Proof. split; [intros b Hb; exists b|intros n Hn; exists n]; auto using incl_refl. Qed.
Lemma res_shrink_trans s1 s2 s3 : res_shrink s1 s2 -> res_shrink s2 s3 -> res_shrink s1 s3.
Proof. intros [A1 N1] [A2 N2]. split.
  - intros b3 Hb3. destruct (A2 b3 Hb3) as (b2 & Hb2 & E2 & I2). destruct (A1 b2 Hb2) as (b1 & Hb1 & E1 & I1). exists b1. split; [exact Hb1|]. split; [congruence|eapply incl_tran; eassumption].
  - intros n3 Hn3. destruct (N2 n3 Hn3) as (n2 & Hn2 & E2 & I2). destruct (N1 n2 Hn2) as (n1 & Hn1 & E1 & I1). exists n1. split; [exact Hn1|]. split; [congruence|eapply incl_tran; eassumption]. Qed.
Lemma incl_drop_key k l : incl (drop_key k l) l.
Proof. intros p Hp. apply in_drop_key in Hp. apply Hp. Qed.

Lemma r_cancel_shrink s aid k : res_shrink s (fst (r_cancel s aid k)).
Proof. unfold r_cancel. destruct (find_app s aid) as [a|]; [|apply res_shrink_refl]. destruct (find (key_is k) (ap_reservations a)) as [p|]; [|apply res_shrink_refl].
  unfold r_unreserve_internal.
  change (find_app (upd_node s (fst p) (fun n => n_set_res n (drop_key k (on_reservations n)))) aid) with (find_app s aid).
  destruct (find_app s aid) as [a0|]; [destruct (existsb (key_is k) (ap_reservations a0))|]; cbn [fst r_queue_unreserve upd_queues upd_app upd_node s_apps s_nodes]; split.
  - intros b' Hb'. apply in_map_iff in Hb'. destruct Hb' as (b & <- & Hb). exists b. split; [exact Hb|].
    destruct (ap_id b =? aid); cbn [ap_set_res ap_id ap_reservations]; split; auto using incl_refl, incl_drop_key.
  - intros n' Hn'. apply in_map_iff in Hn'. destruct Hn' as (n & <- & Hn). exists n. split; [exact Hn|].
    destruct (on_id n =? fst p); cbn [n_set_res on_id on_reservations]; split; auto using incl_refl, incl_drop_key.
  - intros b Hb. exists b. auto using incl_refl.
  - intros n' Hn'. apply in_map_iff in Hn'. destruct Hn' as (n & <- & Hn). exists n. split; [exact Hn|].
    destruct (on_id n =? fst p); cbn [n_set_res on_id on_reservations]; split; auto using incl_refl, incl_drop_key.
  - intros b Hb. exists b. auto using incl_refl.
  - intros n' Hn'. apply in_map_iff in Hn'. destruct Hn' as (n & <- & Hn). exists n. split; [exact Hn|].
    destruct (on_id n =? fst p); cbn [n_set_res on_id on_reservations]; split; auto using incl_refl, incl_drop_key. Qed.
Lemma r_part_unreserve_shrink s aid k : res_shrink s (r_part_unreserve s aid k).
Proof. unfold r_part_unreserve. pose proof (r_cancel_shrink s aid k) as H. destruct (r_cancel s aid k) as [s1 num]. exact H. Qed.

(* after the cancellation no application with this identifier holds a reservation under the key *)
Lemma r_part_unreserve_gone s aid k : Ids0 s -> RInv s -> forall b p, In b (s_apps (r_part_unreserve s aid k)) -> ap_id b = aid -> In p (ap_reservations b) -> snd p <> k.
Proof. intros HI HR b p Hb Eb Hp. subst aid. assert (Hb' : In b (s_apps (fst (r_cancel s (ap_id b) k)))) by (unfold r_part_unreserve in Hb; destruct (r_cancel s (ap_id b) k); exact Hb).
  assert (HI' : Ids0 (fst (r_cancel s (ap_id b) k))) by (eapply LFrame_ids0; [apply LFrame_cancel|exact HI]).
  apply (r_cancel_no_key s (ap_id b) k b HI HR); [|exact Hp]. apply find_app_of; assumption. Qed.

(* the loop of removeNode *)
Lemma unreserve_loop l : forall s, Ids0 s -> RInv s ->
  let s' := fold_left (fun acc p => r_part_unreserve acc (fst p) (snd p)) l s in
  Ids0 s' /\ RInv s' /\ res_shrink s s' /\
  (forall p b q, In p l -> In b (s_apps s') -> ap_id b = fst p -> In q (ap_reservations b) -> snd q <> snd p).
Proof. induction l as [|p t IH]; intros s HI HR; cbn [fold_left].
  - split; [exact HI|]. split; [exact HR|]. split; [apply res_shrink_refl|]. intros p b q [].
  - set (s1 := r_part_unreserve s (fst p) (snd p)).
    assert (HI1 : Ids0 s1) by (eapply LFrame_ids0; [apply LFrame_part_unreserve|exact HI]).
    assert (HR1 : RInv s1) by (apply r_part_unreserve_rinv; assumption).
    destruct (IH s1 HI1 HR1) as (HI2 & HR2 & Sh & G). cbv zeta in *. split; [exact HI2|]. split; [exact HR2|].
    split; [eapply res_shrink_trans; [apply r_part_unreserve_shrink|exact Sh]|].
    intros p0 b q [<-|Hp0] Hb Eb Hq; [|apply (G p0 b q Hp0 Hb Eb Hq)].
    destruct (proj1 Sh b Hb) as (b1 & Hb1 & E1 & I1). apply (r_part_unreserve_gone s (fst p) (snd p) HI HR b1 q Hb1); [congruence|apply I1; exact Hq]. Qed.

Lemma preempt_fold_nf l : forall s, NF None None s
  (fold_left (fun acc x => match find_app acc (oa_app x) with
                           | Some a => if oa_preempted x && is_some (find_alloc (ap_allocs a) (oa_key x)) then q_dec_preempting acc (ap_queue a) (oa_res x) else acc
                           | None => acc end) l s).
Proof. induction l as [|x t IH]; intros s; [apply NF_refl|]. cbn [fold_left]. eapply NF_trans; [|apply IH].
  destruct (find_app s (oa_app x)) as [a|]; [|apply NF_refl]. destruct (_ && _); [apply NF_dec_preempting|apply NF_refl]. Qed.

(* C09d.6: removeNode, whatever reservations the node carries *)
Theorem m_node_remove4_rinv s id s' : Ids s -> RInv s -> m_node_remove4 s id = Some s' -> RInv s'.
Proof. intros HI HR H. unfold m_node_remove4 in H. destruct (find_node s id) as [n|] eqn:En; [|apply Some_inj in H; subst; exact HR].
  destruct (negb _); [discriminate|]. cbv zeta in H. destruct (find_node_in _ _ _ En) as [Hn Enid].
  destruct (unreserve_loop (on_reservations n) s (ids_ids0 _ HI) HR) as (HI1 & HR1 & Sh & G). cbv zeta in HI1, HR1, Sh, G.
  set (s1 := fold_left (fun acc p => r_part_unreserve acc (fst p) (snd p)) (on_reservations n) s) in *.
  match type of H with m_node_remove (upd_node ?S2 id _) id = _ => set (s2 := S2) in * end.
  assert (F2 : NF None None s1 s2) by apply preempt_fold_nf.
  pose proof (NF_rinv _ _ _ _ F2 HR1) as HR2. pose proof (NF_ids0 _ _ _ _ F2 HI1) as HI2.
  (* the node has no reservation left in s1, hence in s2 *)
  assert (Hnil : forall m, In m (s_nodes s1) -> on_id m = id -> on_reservations m = []).
  { intros m Hm Em. destruct (on_reservations m) as [|[aid k] t] eqn:Er; [reflexivity|]. exfalso.
    destruct (r_na _ s1 HR1 m aid k Hm) as (b & Hb & Eb & Hbk); [rewrite Er; left; reflexivity|].
    destruct (proj2 Sh m Hm) as (m0 & Hm0 & E0 & I0).
    assert (m0 = n) by (apply (nodup_key_eq on_id (s_nodes s)); auto; [apply (id_nodes s HI)|congruence]). subst m0.
    assert (Hin : In (aid, k) (on_reservations n)) by (apply I0; rewrite Er; left; reflexivity).
    apply (G (aid, k) b (on_id m, k) Hin Hb Eb Hbk). reflexivity. }
  assert (Hnil2 : forall m, In m (s_nodes s2) -> on_id m = id -> on_reservations m = []).
  { destruct F2 as (fa & fn & fq & F2). intros m Hm Em. rewrite (nf_nodes _ _ _ _ _ _ _ F2) in Hm. apply in_map_iff in Hm. destruct Hm as (m1 & <- & Hm1).
    rewrite (nf_nres _ _ _ _ _ _ _ F2 m1 Hm1). apply (Hnil m1 Hm1). rewrite <- (nf_nid _ _ _ _ _ _ _ F2 m1 Hm1). exact Em. }
  set (s3 := upd_node s2 id (fun m => n_set_res m [])) in *.
  assert (F3 : NF None None s2 s3).
  { unfold s3. apply NF_upd_node. intros m Hm Em. split; [reflexivity|]. cbn [n_set_res on_reservations]. symmetry. apply (Hnil2 m Hm Em). }
  pose proof (NF_rinv _ _ _ _ F3 HR2) as HR3.
  (* identifiers and keys of s3: every step so far was a frame *)
  assert (HI3 : Ids s3).
  { eapply LFrame_ids; [|exact HI]. unfold s3, s2, s1.
    eapply LFrame_trans; [|apply LFrame_upd_node; apply (n_set_res_only (fun _ => []))].
    eapply LFrame_trans; [apply (LFrame_fold (fun acc p => r_part_unreserve acc (fst p) (snd p))); intros s0 p; apply LFrame_part_unreserve|].
    match goal with |- LFrame _ (fold_left ?stp _ _) => apply (LFrame_fold stp) end.
    intros s0 x. destruct (find_app s0 (oa_app x)) as [a|]; [|apply LFrame_refl]. destruct (_ && _); [apply LFrame_dec_preempting|apply LFrame_refl]. }
  eapply m_node_remove_rinv; eassumption. Qed.

(* the step hypotheses of C09d: [fire_ok9], [release_ok9] (both consequences of the C03 invariants, see Core/Model4ProofsR7.v) and
   [resv_ok9] (the side condition of the partial result) *)
Record step_ok9 (s : ostate) (st : ostep) : Prop := mkSO9 { so9_fire : fire_ok9 s st; so9_release : release_ok9 s st; so9_resv : resv_ok9 s st }.

Theorem m_step4_rinv_partial deny s st s' : m_step4 deny s st = Some s' -> Ids s -> RInv s -> step_ok9 s st -> RInv s'.
Proof. unfold m_step4. intros H HI HR [Hf Hrel Hres]. destruct (m_step2 deny s st) as [s1|] eqn:E2.
  - apply Some_inj in H. subst s1. eapply m_step2_rinv; eassumption.
  - unfold m_step_resv in H. destruct (st_panic st) eqn:Hp; [discriminate|]. destruct (known_trigger s st); [discriminate|].
    unfold resv_ok9, release_ok9 in *. destruct (st_op st) eqn:Eop; try discriminate.
    + eapply m_node_remove4_rinv; eassumption.
    + exfalso. eapply m_app_remove4_contra; eassumption.
    + exfalso. eapply m_alloc4_contra; try eassumption. apply ids_ids0. exact HI.
    + unfold m_release4 in H. destruct (app =? 0); [discriminate|]. destruct (find_app s app) as [a|] eqn:Ea; [|discriminate].
      destruct (find_app_in _ _ _ Ea) as [Ha Eid]. subst app. destruct (N.eqb_spec key 0) as [Ek|Ek].
      * eapply m_release_all4_none; try eassumption. apply (Hres Ek a eq_refl).
      * destruct (find_alloc (ap_allocs a) key) as [x|] eqn:Ex.
        -- apply find_alloc_some in Ex as Ex'. destruct Ex' as [_ Ekx]. eapply m_release_alloc4_rinv; try eassumption. rewrite Ekx. apply (Hrel a x eq_refl Ex).
        -- destruct (find_alloc (ap_requests a) key) as [x|]; [|apply Some_inj in H; subst; exact HR].
           destruct (ttype =? TT_Timeout); [apply Some_inj in H; subst; exact HR|]. eapply m_release_ask4_rinv; eassumption.
    + eapply m_sched4_rinv; eassumption. Qed.
