(* C03 over mixed runs of [m_step3] (Core/Model3.v): the steps answered by the frozen fragments [m_step] / [m_step2]
   (Core/Model.v, Model2.v) re-proved under the GANG invariant [InvG2] (Core/Model3ProofsD.v, D2.v) instead of the old [Inv].
   Part 1: operations that leave every application untouched -
     [frame_nodesG]       node records change, not their identifiers / allocation lists / allocated ledgers (new empty nodes may
                          appear); the queues change by a function that keeps identifiers, parents, leaf flags and ledgers;
     [node_add_stepG], [node_sched_stepG], [node_update_stepG]                 processNodes CREATE, drain / undrain, UPDATE;
     [foreign_alloc_stepG], [foreign_release_stepG]                            handleForeignAllocation, removeForeignAllocation.
   Nothing here needs a hypothesis beyond [InvG2] and [BooksG] except the freshness of a new foreign key ([ForeignFresh3]). *)
From Coq Require Import List ZArith NArith Bool Lia ZifyBool.
From YK Require Import Base.Int64 Base.Res Base.ResSpec Base.ResLemmas Base.ResLaws Base.ResLaws2 Base.ResLawsPred
  Core.Obs Core.Model Core.Model2 Core.Model3 Core.Ledger
  Core.BooksLemmas Core.BooksDefs Core.BooksTree Core.BooksQueue Core.BooksApp Core.BooksState Core.BooksDrain Core.BooksOps
  Core.BooksOps2 Core.BooksOps3 Core.BooksOps4 Core.Model3ProofsD Core.Model3ProofsD2 Core.Model3ProofsG1 Core.Model3ProofsG2.
Import ListNotations.
Open Scope Z_scope.
Set Default Timeout 60.

Lemma flat_map_allocs_same (h : onode -> onode) l : (forall n, In n l -> on_allocs (h n) = on_allocs n) ->
  flat_map on_allocs (map h l) = flat_map on_allocs l.
Proof. induction l as [|n t IH]; intros H; [reflexivity|]. cbn [map flat_map]. rewrite (H n (or_introl eq_refl)), IH; [reflexivity|].
  intros m Hm. apply H. right. assumption. Qed.

Section FrameNodesG.
  Variables (s s' : ostate) (g : oqueue -> oqueue).
  Hypothesis HI2 : InvG2 s.
  Hypothesis HB : BooksG s.
  Hypothesis Ea : s_apps s' = s_apps s.
  Hypothesis Eq : s_queues s' = map g (s_queues s).
  Hypothesis Ec : s_nallocs s' = s_nallocs s.
  Hypothesis G1 : forall q, q_id (g q) = q_id q.
  Hypothesis G2 : forall q, q_parent (g q) = q_parent q.
  Hypothesis G3 : forall q, q_leaf (g q) = q_leaf q.
  Hypothesis G4 : forall q, q_alloc (g q) = q_alloc q.
  Hypothesis G5 : forall q, q_pending (g q) = q_pending q.
  Hypothesis Hf : forall f a x, In f (s_foreign s') -> In a (s_apps s) -> In x (app_records a) -> oa_key f <> oa_key x.
  Hypothesis Hnid : NoDup (map on_id (s_nodes s')).
  (* every node of s' is a new empty node or a node of s with the same identifier, allocation list and allocated ledger *)
  Hypothesis Hfrom : forall n', In n' (s_nodes s') ->
    (on_allocs n' = [] /\ on_allocated n' = []) \/
    (exists n, In n (s_nodes s) /\ on_id n' = on_id n /\ on_allocs n' = on_allocs n /\ on_allocated n' = on_allocated n).
  Hypothesis Hto : forall n, In n (s_nodes s) -> exists n', In n' (s_nodes s') /\ on_id n' = on_id n /\ on_allocs n' = on_allocs n.
  Hypothesis Hrec : node_records s' = node_records s.

  Let HI : InvG s := ig2_inv s HI2.
  Let HL : LinkOK s := ig2_link s HI2.

  Lemma fn_from n' y : In n' (s_nodes s') -> In y (on_allocs n') -> exists n, In n (s_nodes s) /\ on_id n' = on_id n /\ In y (on_allocs n).
  Proof. intros Hn' Hy. destruct (Hfrom n' Hn') as [[E _]|(n & Hn & E1 & E2 & _)]; [rewrite E in Hy; contradiction|].
    exists n. rewrite <- E2. auto. Qed.

  Lemma fn_inv : InvG s' /\ BooksG s'.
  Proof. apply (gang_frame_step s s' g HI HB Ea Eq G1 G2 G3 G4 G5 Hf Hnid).
    - intros n' Hn'. destruct (Hfrom n' Hn') as [[E1 E2]|(n & Hn & E1 & E2 & E3)].
      + constructor; rewrite ?E1, ?E2; [constructor|intros y []|reflexivity|constructor].
      + destruct (ig_nodes s HI n Hn) as [K1 K2 K3 K4]. constructor; rewrite ?E1, ?E2, ?E3; assumption.
    - intros n' y Hn' Hy. destruct (fn_from n' y Hn' Hy) as (n & Hn & _ & Hyn). rewrite Ea. apply (ig_owned s HI n y Hn Hyn).
    - intros a x Ha Hx. rewrite Ea in Ha. destruct (ig_onnode s HI a x Ha Hx) as (n & Hn & En & Hxn).
      destruct (Hto n Hn) as (n' & Hn' & E1 & E2). exists n'. split; [assumption|]. split; [congruence|]. rewrite E2. assumption.
    - rewrite Ec, (ig_count s HI). unfold all_allocs. rewrite Ea. reflexivity.
    - intros k. rewrite Hrec. reflexivity. Qed.

  Lemma fn_link : LinkOK s'.
  Proof. constructor.
    - intros n' y Hn' Hy Hi. destruct (fn_from n' y Hn' Hy) as (n & Hn & _ & Hyn). rewrite Ea. apply (lk_1 s HL n y Hn Hyn Hi).
    - intros a ph r Ha Hph Pph Hl Hr Ek Pr Ar. rewrite Ea in Ha. destruct (lk_2 s HL a ph r Ha Hph Pph Hl Hr Ek Pr Ar) as (C1 & C2 & C3 & C4).
      split; [exact C1|]. split; [exact C2|]. split.
      + intros E n' y Hn' Hy. destruct (fn_from n' y Hn' Hy) as (n & Hn & _ & Hyn). apply (C3 E n y Hn Hyn).
      + intros E. destruct (C4 E) as (n & Hn & En & Hrn). destruct (Hto n Hn) as (n' & Hn' & E1 & E2).
        exists n'. split; [assumption|]. split; [congruence|]. rewrite E2. assumption. Qed.

  Theorem frame_nodesG : InvG2 s' /\ BooksG s'.
  Proof. destruct fn_inv as [I B]. split; [|exact B]. constructor; [exact I|exact fn_link]. Qed.
End FrameNodesG.

(* one node record is replaced by a function that keeps identifier, allocation list and allocated ledger *)
Section FrameNodeUpdG.
  Variables (s s' : ostate) (g : oqueue -> oqueue) (id : N) (f : onode -> onode).
  Hypothesis HI2 : InvG2 s.
  Hypothesis HB : BooksG s.
  Hypothesis Ea : s_apps s' = s_apps s.
  Hypothesis Eq : s_queues s' = map g (s_queues s).
  Hypothesis Ec : s_nallocs s' = s_nallocs s.
  Hypothesis G1 : forall q, q_id (g q) = q_id q.
  Hypothesis G2 : forall q, q_parent (g q) = q_parent q.
  Hypothesis G3 : forall q, q_leaf (g q) = q_leaf q.
  Hypothesis G4 : forall q, q_alloc (g q) = q_alloc q.
  Hypothesis G5 : forall q, q_pending (g q) = q_pending q.
  Hypothesis En : s_nodes s' = updk on_id (s_nodes s) id f.
  Hypothesis Hcore : forall m, In m (s_nodes s) -> on_id m = id ->
    on_id (f m) = on_id m /\ on_allocs (f m) = on_allocs m /\ on_allocated (f m) = on_allocated m.
  Hypothesis Hf : forall x a y, In x (s_foreign s') -> In a (s_apps s) -> In y (app_records a) -> oa_key x <> oa_key y.

  Let h := fun m : onode => if (on_id m =? id)%N then f m else m.
  Lemma fnu_core m : In m (s_nodes s) -> on_id (h m) = on_id m /\ on_allocs (h m) = on_allocs m /\ on_allocated (h m) = on_allocated m.
  Proof. intros Hm. unfold h. destruct (N.eqb_spec (on_id m) id) as [E|E]; [apply (Hcore m Hm E)|auto]. Qed.

  Theorem frame_node_updG : InvG2 s' /\ BooksG s'.
  Proof. pose proof (ig2_inv s HI2) as HI.
    apply (frame_nodesG s s' g HI2 HB Ea Eq Ec G1 G2 G3 G4 G5 Hf).
    - rewrite En. unfold updk. rewrite map_map. erewrite map_ext_in; [apply (ig_node_ids s HI)|]. intros m Hm. apply (fnu_core m Hm).
    - intros m' Hm'. right. rewrite En in Hm'. apply in_updk in Hm'. destruct Hm' as (m & Hm & ->). exists m. split; [assumption|].
      apply (fnu_core m Hm).
    - intros m Hm. exists (h m). split; [rewrite En; apply in_updk; exists m; auto|]. destruct (fnu_core m Hm) as (A & B & _). auto.
    - unfold node_records. rewrite En. apply flat_map_allocs_same. intros m Hm. apply (fnu_core m Hm). Qed.
End FrameNodeUpdG.

Lemma foreign_oldG s : InvG s -> forall x a y, In x (s_foreign s) -> In a (s_apps s) -> In y (app_records a) -> oa_key x <> oa_key y.
Proof. intros HI x a y. apply (ig_foreign s HI). Qed.

(* ================================================================== node operations *)
Theorem node_add_stepG s s' id cap drain : InvG2 s -> BooksG s -> m_node_add s id cap drain = Some s' -> InvG2 s' /\ BooksG s'.
Proof. intros HI2 HB H. pose proof (ig2_inv s HI2) as HI. unfold m_node_add in H. destruct (find_node s id) as [n|] eqn:En.
  - inversion H; subst s'. split; assumption.
  - inversion H; subst s'; clear H.
    destruct (part_update_total_queues (set_nodes s (s_nodes s ++ [new_node id cap drain])) cap) as [t Et].
    apply (frame_nodesG s _ (g_total t) HI2 HB); try reflexivity; try assumption;
      try apply g_total_id; try apply g_total_par; try apply g_total_leaf; try apply g_total_alloc; try apply g_total_pend.
    + apply (foreign_oldG s HI).
    + change (NoDup (map on_id (s_nodes s ++ [new_node id cap drain]))). rewrite map_app. apply NoDup_snoc; [apply (ig_node_ids s HI)|].
      apply (findk_none on_id). exact En.
    + intros m' Hm'. change (In m' (s_nodes s ++ [new_node id cap drain])) in Hm'. apply in_app_or in Hm'.
      destruct Hm' as [Hm|[<-|[]]]; [right; exists m'; auto|left; auto].
    + intros m Hm. exists m. split; [|auto]. change (In m (s_nodes s ++ [new_node id cap drain])). apply in_or_app. auto.
    + change (flat_map on_allocs (s_nodes s ++ [new_node id cap drain]) = flat_map on_allocs (s_nodes s)).
      rewrite flat_map_app. cbn. apply app_nil_r. Qed.

Theorem node_sched_stepG s s' id b : InvG2 s -> BooksG s -> m_node_sched s id b = Some s' -> InvG2 s' /\ BooksG s'.
Proof. intros HI2 HB H. unfold m_node_sched in H. inversion H; subst s'; clear H.
  apply (frame_node_updG s _ (fun q => q) id (fun n => mkON (on_id n) (on_total n) (on_occupied n) (on_allocated n) (on_available n) b
                                      (on_allocs n) (on_foreign n) (on_reservations n)) HI2 HB); try reflexivity.
  - symmetry. apply map_id.
  - intros m _ _. auto.
  - apply (foreign_oldG s (ig2_inv s HI2)). Qed.

Theorem node_update_stepG s s' id cap : InvG2 s -> BooksG s -> m_node_update s id cap = Some s' -> InvG2 s' /\ BooksG s'.
Proof. intros HI2 HB H. pose proof (ig2_inv s HI2) as HI. unfold m_node_update in H.
  destruct (find_node s id) as [n|] eqn:En; [|inversion H; subst s'; split; assumption].
  destruct cap as [c|]; [|inversion H; subst s'; split; assumption].
  apply find_node_some in En. destruct En as [Hn Eid].
  assert (Hcore : forall n' d, n_set_capacity n c = (n', d) -> forall m, In m (s_nodes s) -> on_id m = id ->
            on_id ((fun _ => n') m) = on_id m /\ on_allocs ((fun _ => n') m) = on_allocs m /\ on_allocated ((fun _ => n') m) = on_allocated m).
  { intros n' d E m Hm Em. assert (m = n) by (apply (g_same_node s n m HI Hn Hm); congruence). subst m.
    unfold n_set_capacity in E. destruct (Equals (Some (on_total n)) (Some c)); inversion E; subst; auto. }
  destruct (n_set_capacity n c) as [n' delta] eqn:Ecap. specialize (Hcore n' delta eq_refl).
  destruct delta as [d|]; inversion H; subst s'; clear H.
  - destruct (part_update_total_queues (upd_node s id (fun _ => n')) d) as [t Et].
    apply (frame_node_updG s _ (g_total t) id (fun _ => n') HI2 HB); try reflexivity; try assumption;
      try apply g_total_id; try apply g_total_par; try apply g_total_leaf; try apply g_total_alloc; try apply g_total_pend.
    apply (foreign_oldG s HI).
  - apply (frame_node_updG s _ (fun q => q) id (fun _ => n') HI2 HB); try reflexivity; try assumption.
    + symmetry. apply map_id.
    + apply (foreign_oldG s HI). Qed.

(* ================================================================== foreign allocations *)
(* a foreign key is not listed as a native allocation on any node *)
Lemma foreign_key_not_nativeG s f n : InvG s -> In f (s_foreign s) -> In n (s_nodes s) -> find_alloc (on_allocs n) (oa_key f) = None.
Proof. intros HI Hf Hn. apply find_alloc_none. intros C. unfold akeys in C. apply in_map_iff in C. destruct C as (y & E & Hy).
  destruct (ig_owned s HI n y Hn Hy) as (a & Ha & Ea & Ho). apply (ig_foreign s HI f a y Hf Ha); [|congruence].
  apply (ownedby_record a y). exact Ho. Qed.

(* a foreign allocation under a key the foreign map does not know: the key is new among the records of every application *)
Definition ForeignFresh3 (s : ostate) (r : oreq) : Prop :=
  rq_foreign r = true -> find_alloc (s_foreign s) (rq_key r) = None ->
  forall a y, In a (s_apps s) -> In y (app_records a) -> oa_key y <> rq_key r.

Theorem foreign_alloc_stepG s s' r : InvG2 s -> BooksG s -> ForeignFresh3 s r -> rq_partition_ok r = true -> rq_foreign r = true ->
  m_alloc s r = Some s' -> InvG2 s' /\ BooksG s'.
Proof. intros HI2 HB RO Hp Hfo H. pose proof (ig2_inv s HI2) as HI. unfold m_alloc in H. rewrite Hp, Hfo in H. cbn [negb] in H.
  destruct (rq_node r =? 0)%N; [inversion H; subst s'; split; assumption|].
  destruct (find_node s (rq_node r)) as [n|] eqn:En; [|inversion H; subst s'; split; assumption].
  apply find_node_some in En. destruct En as [Hn Eid].
  destruct (find_alloc (s_foreign s) (rq_key r)) as [old|] eqn:Eold.
  - inversion H; subst s'; clear H.
    apply (frame_node_updG s _ (fun q => q) (on_id n) (fun _ => n_update_foreign n (alloc_of_req r)) HI2 HB); try reflexivity.
    + symmetry. apply map_id.
    + intros m Hm Em. pose proof (g_same_node s n m HI Hn Hm Em). subst m. apply n_update_foreign_core.
    + apply (foreign_oldG s HI).
  - destruct (n_add n (alloc_of_req r) true) as [n'|] eqn:Eadd; [|discriminate]. inversion H; subst s'; clear H.
    apply (frame_node_updG s _ (fun q => q) (on_id n) (fun _ => n') HI2 HB); try reflexivity.
    + symmetry. apply map_id.
    + intros m Hm Em. pose proof (g_same_node s n m HI Hn Hm Em). subst m. apply (n_add_foreign_core n (alloc_of_req r) n' true); [exact Hfo|exact Eadd].
    + intros x a y Hx Ha Hy. change (In x (s_foreign s ++ [alloc_of_req r])) in Hx. apply in_app_or in Hx.
      destruct Hx as [Hx|[<-|[]]]; [apply (ig_foreign s HI x a y Hx Ha Hy)|].
      cbn [alloc_of_req oa_key]. intros C. apply (RO Hfo Eold a y Ha Hy). congruence. Qed.

Theorem foreign_release_stepG s s' key ttype : InvG2 s -> BooksG s -> m_release s 0%N key ttype = Some s' -> InvG2 s' /\ BooksG s'.
Proof. intros HI2 HB H. pose proof (ig2_inv s HI2) as HI. unfold m_release in H. cbn [N.eqb] in H.
  destruct (find_alloc (s_foreign s) key) as [f|] eqn:Ef; [|inversion H; subst s'; split; assumption].
  apply find_alloc_some in Ef. destruct Ef as [Hf Ek]. subst key.
  assert (Hsub : forall x a y, In x (del_alloc (oa_key f) (s_foreign s)) -> In a (s_apps s) -> In y (app_records a) -> oa_key x <> oa_key y).
  { intros x a y Hx. apply in_del_alloc in Hx. apply (ig_foreign s HI x a y). tauto. }
  change (find_node (set_foreign s (del_alloc (oa_key f) (s_foreign s))) (oa_node f)) with (find_node s (oa_node f)) in H.
  destruct (find_node s (oa_node f)) as [n|] eqn:En; inversion H; subst s'; clear H.
  - apply find_node_some in En. destruct En as [Hn Eid].
    apply (frame_node_updG s _ (fun q => q) (on_id n) (fun _ => n_remove n (oa_key f)) HI2 HB); try reflexivity.
    + symmetry. apply map_id.
    + intros m Hm Em. pose proof (g_same_node s n m HI Hn Hm Em). subst m. apply n_remove_foreign_core.
      apply (foreign_key_not_nativeG s f n HI Hf Hn).
    + exact Hsub.
  - apply (frame_node_updG s _ (fun q => q) 0%N (fun m => m) HI2 HB); try reflexivity.
    + symmetry. apply map_id.
    + change (s_nodes s = updk on_id (s_nodes s) 0%N (fun m => m)). unfold updk. rewrite <- (map_id (s_nodes s)) at 1.
      apply map_ext. intros m. destruct (on_id m =? 0)%N; reflexivity.
    + intros m _ _. auto.
    + exact Hsub. Qed.
