(* Observation format of the core engine: what the harness records from the real scheduler
   (yunikorn-core ClusterContext driven synchronously) after every step of a history.
   All names are interned to positive numbers per history; 0 means "none".
   This file contains data definitions and projections only. *)
From Coq Require Import List ZArith NArith Bool.
From YK Require Import Base.Res.
Import ListNotations.
Open Scope N_scope.

(* application states (iota order of application_state.go + 1) *)
Definition ST_New := 1. Definition ST_Accepted := 2. Definition ST_Running := 3.
Definition ST_Rejected := 4. Definition ST_Completing := 5. Definition ST_Completed := 6.
Definition ST_Failing := 7. Definition ST_Failed := 8. Definition ST_Expired := 9.
Definition ST_Resuming := 10.
(* queue states *)
Definition QS_Active := 1. Definition QS_Draining := 2. Definition QS_Stopped := 3.
(* si.TerminationType *)
Definition TT_Unknown := 0. Definition TT_StoppedByRM := 1. Definition TT_Timeout := 2.
Definition TT_Preempted := 3. Definition TT_PlaceholderReplaced := 4.

Record oalloc := mkOA {
  oa_key : N; oa_app : N; oa_node : N; oa_res : res; oa_ph : bool; oa_tg : N;
  oa_allocated : bool; oa_released : bool; oa_preempted : bool;
  oa_release : N;          (* key of the linked allocation of an in-flight swap, 0 = none *)
  oa_reqnode : N; oa_prio : Z; oa_foreign : bool; oa_orig : bool;
  oa_preemptself : bool; oa_preemptother : bool }.

Record onode := mkON {
  on_id : N; on_total : res; on_occupied : res; on_allocated : res; on_available : res;
  on_sched : bool;
  on_allocs : list oalloc;     (* the yunikorn allocations the node lists *)
  on_foreign : list oalloc;    (* the foreign allocations the node lists *)
  on_reservations : list (N * N) (* (app, allocation key) *) }.

Record oapp := mkOApp {
  ap_id : N; ap_queue : N; ap_state : N; ap_user : N;
  ap_pending : res; ap_allocated : res; ap_phalloc : res; ap_phask : res;
  ap_requests : list oalloc;   (* the requests map: asks, pending or satisfied *)
  ap_allocs : list oalloc;     (* the allocations map *)
  ap_reservations : list (N * N);  (* (node, allocation key) *)
  ap_phdata : list (N * (Z * (Z * Z)));  (* task group, (count, (replaced, timed out)) *)
  ap_statelog : list N;
  ap_phtimer : bool; ap_statetimer : bool; ap_forced : bool; ap_hasph : bool }.

Record oqueue := mkOQ {
  q_id : N; q_parent : N; q_leaf : bool; q_managed : bool; q_state : N;
  q_max : ores; q_guar : ores;
  q_alloc : res; q_pending : res; q_preempting : res;
  q_running : N; q_maxrunning : N;
  q_allocating : list N;
  q_reserved : list (N * N);   (* (app, number of reservations) *)
  q_apps : list N }.

Record ougm := mkOU {
  u_who : N; u_group : bool; u_path : N; u_usage : res; u_max : ores; u_maxapps : N; u_running : list N }.

Record ostate := mkOS {
  s_nodes : list onode; s_apps : list oapp; s_queues : list oqueue;
  s_total : ores;
  s_nallocs : Z; s_nph : Z; s_nres : Z;   (* partition counters *)
  s_foreign : list oalloc;
  s_completed : list oapp;     (* applications in the completed list *)
  s_rejected : list N;
  s_ugm : list ougm }.

Inductive oevent :=
| ENewAlloc (key app node : N) (r : res) (ph : bool)
| ERelease (key app : N) (ttype : N)
| EAppAccepted (app : N) | EAppRejected (app : N) | EAppUpdated (app state : N)
| ENodeAccepted (node : N) | ENodeRejected (node : N)
| EAllocRejected (key app : N).

(* an si.Allocation as sent by the shim *)
Record oreq := mkReq {
  rq_key : N; rq_app : N; rq_node : N; rq_res : ores; rq_prio : Z; rq_ph : bool; rq_tg : N;
  rq_reqnode : N; rq_foreign : bool; rq_preemptself : bool; rq_preemptother : bool; rq_orig : bool;
  rq_partition_ok : bool }.

Inductive oop :=
| OpNodeAdd (id : N) (cap : res) (drain : bool)
| OpNodeUpdate (id : N) (cap : ores)
| OpNodeDrain (id : N) | OpNodeUndrain (id : N) | OpNodeRemove (id : N)
| OpAppAdd (id queue user : N) (forced nougi : bool) (phask : ores) (hard : bool) (tagmaxapps : N) (tagmax : ores)
| OpAppRemove (id : N)
| OpAlloc (r : oreq)
| OpRelease (app key : N) (ttype : N)
| OpSched
| OpFirePh (app : N) | OpFireState (app : N)
| OpReload (conf : N)
| OpClean.

(* predicate plugin call made during the step: key, node, allocate flag, answer *)
Definition opred := (N * N * bool * bool)%type.

Record ostep := mkStep {
  st_op : oop; st_malformed : bool; st_events : list oevent; st_preds : list opred;
  st_panic : bool; st_err : bool; st_obs : ostate }.

Record ohistory := mkHist {
  h_resdelay : bool;            (* reservations enabled *)
  h_preddeny : list (N * N);    (* (key,node) pairs the predicate table denies, restricted to names of the history *)
  h_init : ostate; h_steps : list ostep;
  h_reswait : bool              (* the reservation wait timeout is crossed immediately *) }.

(* ---- small projections used by all oracles ---- *)
Definition find_node (s : ostate) (id : N) : option onode := find (fun n => on_id n =? id) (s_nodes s).
Definition find_app (s : ostate) (id : N) : option oapp := find (fun a => ap_id a =? id) (s_apps s).
Definition find_queue (s : ostate) (id : N) : option oqueue := find (fun q => q_id q =? id) (s_queues s).
Definition find_alloc (l : list oalloc) (k : N) : option oalloc := find (fun a => oa_key a =? k) l.
Definition all_allocs (s : ostate) : list oalloc := flat_map ap_allocs (s_apps s).
Definition all_requests (s : ostate) : list oalloc := flat_map ap_requests (s_apps s).
Definition memN (x : N) (l : list N) : bool := existsb (N.eqb x) l.

(* component-wise sum of a list of vectors, as a function of the type id *)
Definition sumz (l : list res) (k : tid) : Z := fold_right (fun r acc => (getz r k + acc)%Z) 0%Z l.
Definition res_keys (l : list res) : list tid := flat_map keys l.
(* r equals the sum of l as functions tid -> Z *)
Definition res_is_sum (r : res) (l : list res) : bool :=
  forallb (fun k => Z.eqb (getz r k) (sumz l k)) (keys r ++ res_keys l).
Definition res_nonneg (r : res) : bool := forallb (fun kv => (0 <=? snd kv)%Z) r.

(* pairs (pre-state, step) of a history *)
Fixpoint with_pre (pre : ostate) (l : list ostep) : list (ostate * ostep) :=
  match l with [] => [] | s :: t => (pre, s) :: with_pre (st_obs s) t end.
Definition hist_pairs (h : ohistory) : list (ostate * ostep) := with_pre (h_init h) (h_steps h).
