(* C03 over the gang fragment (Core/Model3.v), generic layer, part 1.
   - basic consequences of [InvG] (Core/Model3ProofsD.v);
   - [books_G]: under [InvG] the oracle's statement [Books] (Core/BooksDefs.v) is exactly [BooksG];
   - the queue clause for one application + its ancestor path ([queue_books_stepG], the proof of
     Core/BooksQueue.v with the three facts it really uses as hypotheses);
   - domination of an application's ledgers along its path ([g_pending_dominated], [g_usage_dominated] ...);
   - the queue ledger functions of Core/Model.v ([q_inc], [q_inc_pending], [q_dec], [q_dec_pending], [q_try_inc]) as
     path maps with their fact groups, and compositions of two updates on the same path. *)
From Coq Require Import List ZArith NArith Bool Lia ZifyBool.
From YK Require Import Base.Int64 Base.Res Base.ResSpec Base.ResLemmas Base.ResLaws Base.ResLaws2 Base.ResLawsPred
  Core.Obs Core.Model Core.Model2 Core.Model3 Core.Ledger
  Core.BooksLemmas Core.BooksDefs Core.BooksTree Core.BooksQueue Core.BooksApp Core.BooksState Core.BooksDrain Core.BooksOps
  Core.Model2ProofsB2 Core.Model3ProofsD.
Import ListNotations.
Open Scope Z_scope.
Set Default Timeout 30.

(* ================================================================== 1. basic consequences of InvG *)
Lemma g_find_app_in s a : InvG s -> In a (s_apps s) -> find_app s (ap_id a) = Some a.
Proof. intros HI Ha. apply (findk_in ap_id); [apply (ig_app_ids s HI)|assumption]. Qed.
Lemma g_find_node_in s n : InvG s -> In n (s_nodes s) -> find_node s (on_id n) = Some n.
Proof. intros HI Hn. apply (findk_in on_id); [apply (ig_node_ids s HI)|assumption]. Qed.
Lemma g_find_queue_in s q : InvG s -> In q (s_queues s) -> find_queue s (q_id q) = Some q.
Proof. intros HI Hq. apply find_queue_in; [apply (ig_tree s HI)|assumption]. Qed.
Lemma g_same_app s a b : InvG s -> In a (s_apps s) -> In b (s_apps s) -> ap_id b = ap_id a -> b = a.
Proof. intros HI Ha Hb E. apply (nodup_key_inj ap_id (s_apps s)); auto. apply (ig_app_ids s HI). Qed.
Lemma g_same_node s n m : InvG s -> In n (s_nodes s) -> In m (s_nodes s) -> on_id m = on_id n -> m = n.
Proof. intros HI Hn Hm E. apply (nodup_key_inj on_id (s_nodes s)); auto. apply (ig_node_ids s HI). Qed.
Lemma g_same_queue s q p : InvG s -> In q (s_queues s) -> In p (s_queues s) -> q_id p = q_id q -> p = q.
Proof. intros HI Hq Hp E. apply (nodup_key_inj q_id (s_queues s)); auto. apply (tk_ids s (ig_tree s HI)). Qed.
Lemma g_find_app_id s id a : InvG s -> In a (s_apps s) -> ap_id a = id -> find_app s id = Some a.
Proof. intros HI Ha <-. apply g_find_app_in; assumption. Qed.
Lemma g_find_node_id s id n : InvG s -> In n (s_nodes s) -> on_id n = id -> find_node s id = Some n.
Proof. intros HI Hn <-. apply g_find_node_in; assumption. Qed.

(* the queue of a live application is a registered leaf *)
Lemma g_app_leaf s a : InvG s -> In a (s_apps s) ->
  exists lq, find_queue s (ap_queue a) = Some lq /\ q_leaf lq = true /\ In lq (s_queues s) /\ q_id lq = ap_queue a.
Proof. intros HI Ha. destruct (ig_app_leaf s HI a Ha) as (lq & E & L). exists lq. destruct (find_queue_some s _ lq E). auto. Qed.
Lemma g_leaf_on_path s a : InvG s -> In a (s_apps s) -> In (ap_queue a) (path_ids s (ap_queue a)).
Proof. intros HI Ha. destruct (g_app_leaf s a HI Ha) as (lq & E & _). destruct (path_ids_head s _ lq E) as [t ->]. left. reflexivity. Qed.
Lemma g_path_member s l c : In c (path_ids s l) -> exists oc, find_queue s c = Some oc /\ In oc (s_queues s) /\ q_id oc = c.
Proof. apply path_member. Qed.

(* records of an application *)
Lemma in_records a x : In x (app_records a) <-> In x (ap_requests a) \/ In x (ap_allocs a).
Proof. unfold app_records. apply in_app_iff. Qed.
Lemma g_record_ok s a x : InvG s -> In a (s_apps s) -> In x (app_records a) -> AllocOK3 (ap_id a) x.
Proof. intros HI Ha Hx. pose proof (ig_app_wf s HI a Ha) as W. apply in_records in Hx. destruct Hx; [apply (w3_req a W)|apply (w3_alloc a W)]; assumption. Qed.
Lemma g_record_app s a x : InvG s -> In a (s_apps s) -> In x (app_records a) -> oa_app x = ap_id a.
Proof. intros HI Ha Hx. apply (a3_app _ x (g_record_ok s a x HI Ha Hx)). Qed.
(* the owner of a key is unique *)
Lemma g_key_owner s a b x y : InvG s -> In a (s_apps s) -> In b (s_apps s) -> In x (app_records a) -> In y (app_records b) ->
  oa_key x = oa_key y -> a = b.
Proof. intros HI Ha Hb Hx Hy E. symmetry. apply (g_same_app s a b HI Ha Hb). symmetry. apply (ig_keys s HI a b x y); assumption. Qed.
Lemma g_find_alloc_in s a x : InvG s -> In a (s_apps s) -> In x (ap_allocs a) -> find_alloc (ap_allocs a) (oa_key x) = Some x.
Proof. intros HI Ha Hx. apply find_alloc_in; [apply (w3_alloc_keys a (ig_app_wf s HI a Ha))|assumption]. Qed.
Lemma g_find_req_in s a x : InvG s -> In a (s_apps s) -> In x (ap_requests a) -> find_alloc (ap_requests a) (oa_key x) = Some x.
Proof. intros HI Ha Hx. apply find_alloc_in; [apply (w3_req_keys a (ig_app_wf s HI a Ha))|assumption]. Qed.
Lemma g_find_node_alloc_in s n y : InvG s -> In n (s_nodes s) -> In y (on_allocs n) -> find_alloc (on_allocs n) (oa_key y) = Some y.
Proof. intros HI Hn Hy. apply find_alloc_in; [apply (k3_keys n (ig_nodes s HI n Hn))|assumption]. Qed.

(* [Owned] with the disjunction named *)
Definition OwnedBy (a : oapp) (y : oalloc) : Prop :=
  In y (ap_allocs a) \/
  (infl y = true /\ In y (ap_requests a) /\ oa_allocated y = true /\ ~ In (oa_key y) (akeys (ap_allocs a))).
Lemma owned_by s : Owned s <-> forall n y, In n (s_nodes s) -> In y (on_allocs n) ->
  exists a, In a (s_apps s) /\ ap_id a = oa_app y /\ OwnedBy a y.
Proof. reflexivity. Qed.
Lemma ownedby_record a y : OwnedBy a y -> In y (app_records a).
Proof. intros [H|(_ & H & _)]; apply in_records; auto. Qed.
(* the owner of a node record is the live application the record names, and it holds the record *)
Lemma g_owner s n y a : InvG s -> In n (s_nodes s) -> In y (on_allocs n) -> In a (s_apps s) -> ap_id a = oa_app y -> OwnedBy a y.
Proof. intros HI Hn Hy Ha E. destruct (ig_owned s HI n y Hn Hy) as (b & Hb & Eb & Ho).
  assert (b = a) by (apply (g_same_app s a b HI Ha Hb); congruence). subst b. exact Ho. Qed.
Lemma g_node_record_app s n y : InvG s -> In n (s_nodes s) -> In y (on_allocs n) ->
  exists a, In a (s_apps s) /\ ap_id a = oa_app y /\ OwnedBy a y /\ AllocOK3 (ap_id a) y.
Proof. intros HI Hn Hy. destruct (ig_owned s HI n y Hn Hy) as (a & Ha & E & Ho). exists a. split; [assumption|]. split; [assumption|]. split; [assumption|].
  apply (g_record_ok s a y HI Ha). apply ownedby_record. exact Ho. Qed.
(* an allocation an application lists is found on the node it names, as the same record *)
Lemma g_alloc_on_node s a x : InvG s -> In a (s_apps s) -> In x (ap_allocs a) ->
  exists n, In n (s_nodes s) /\ on_id n = oa_node x /\ In x (on_allocs n) /\ find_node s (oa_node x) = Some n /\
            find_alloc (on_allocs n) (oa_key x) = Some x.
Proof. intros HI Ha Hx. destruct (ig_onnode s HI a x Ha Hx) as (n & Hn & E & Hxn). exists n. split; [assumption|]. split; [assumption|]. split; [assumption|]. split.
  - apply (g_find_node_id s _ n HI Hn E).
  - apply (g_find_node_alloc_in s n x HI Hn Hxn). Qed.
(* a record with a given key occurs on at most one node *)
Lemma g_record_one_node s n m y z : InvG s -> In n (s_nodes s) -> In m (s_nodes s) -> In y (on_allocs n) -> In z (on_allocs m) ->
  oa_key y = oa_key z -> y = z /\ n = m.
Proof. intros HI Hn Hm Hy Hz E.
  destruct (ig_owned s HI n y Hn Hy) as (a & Ha & Ea & Hoa). destruct (ig_owned s HI m z Hm Hz) as (b & Hb & Eb & Hob).
  assert (a = b) by (apply (g_key_owner s a b y z HI Ha Hb); auto using ownedby_record). subst b.
  pose proof (ig_app_wf s HI a Ha) as W.
  assert (Eyz : y = z).
  { destruct Hoa as [H1|(_ & H1 & _ & N1)], Hob as [H2|(_ & H2 & _ & N2)].
    - apply (nodup_key_inj oa_key (ap_allocs a)); auto. apply (w3_alloc_keys a W).
    - exfalso. apply N2. rewrite <- E. apply in_map. assumption.
    - exfalso. apply N1. rewrite E. apply in_map. assumption.
    - apply (nodup_key_inj oa_key (ap_requests a)); auto. apply (w3_req_keys a W). }
  split; [assumption|]. subst z. symmetry. apply (g_same_node s n m HI Hn Hm).
  rewrite <- (k3_node n (ig_nodes s HI n Hn) y Hy), <- (k3_node m (ig_nodes s HI m Hm) y Hz). reflexivity. Qed.

(* ================================================================== 2. Books <-> BooksG *)
Lemma infl_ninfl y : ninfl y = negb (infl y). Proof. reflexivity. Qed.
Lemma asum_app l1 l2 k : asum (l1 ++ l2) k = asum l1 k + asum l2 k.
Proof. unfold asum. rewrite map_app. apply sumz_app. Qed.
Lemma asum_split (P : oalloc -> bool) l k : asum l k = asum (filter P l) k + asum (filter (fun y => negb (P y)) l) k.
Proof. induction l as [|y t IH]; [reflexivity|]. cbn [filter]. destruct (P y); cbn [negb]; rewrite !asum_cons, IH; lia. Qed.
Lemma asum_infl_split l k : asum l k = asum (filter infl l) k + asum (filter ninfl l) k.
Proof. apply (asum_split infl). Qed.
Lemma filter_ext_in' {A} (P Q : A -> bool) l : (forall x, In x l -> P x = Q x) -> filter P l = filter Q l.
Proof. induction l as [|x t IH]; intros H; [reflexivity|]. cbn [filter]. rewrite (H x (or_introl eq_refl)), IH; [reflexivity|].
  intros y Hy. apply H. right. assumption. Qed.
Lemma in_node_records s y : In y (node_records s) <-> exists n, In n (s_nodes s) /\ In y (on_allocs n).
Proof. unfold node_records. apply in_flat_map. Qed.
Lemma nodes_ledger_sum (l : list onode) k : (forall n, In n l -> getz (on_allocated n) k = asum (on_allocs n) k) ->
  sumz (map on_allocated l) k = asum (flat_map on_allocs l) k.
Proof. induction l as [|n t IH]; intros H; [reflexivity|]. cbn [map flat_map]. rewrite sumz_cons, asum_app, (H n (or_introl eq_refl)), IH; [reflexivity|].
  intros m Hm. apply H. right. assumption. Qed.
Lemma g_nodes_ledger_sum s k : InvG s -> sumz (map on_allocated (s_nodes s)) k = asum (node_records s) k.
Proof. intros HI. apply nodes_ledger_sum. intros n Hn. apply (k3_ledger n (ig_nodes s HI n Hn)). Qed.

(* on the records the nodes list, the oracle's test for "real half of an in-flight replacement" is the local test *)
Lemma inflight_real_infl s y : InvG s -> In y (node_records s) -> inflight_real s y = infl y.
Proof. intros HI Hy. apply in_node_records in Hy. destruct Hy as (n & Hn & Hy).
  destruct (ig_owned s HI n y Hn Hy) as (a & Ha & E & Ho). pose proof (ig_app_wf s HI a Ha) as W.
  unfold inflight_real. rewrite <- E, (g_find_app_in s a HI Ha). fold (infl y). destruct Ho as [H|(Hi & Hr & Hal & Hk)].
  - rewrite (g_find_alloc_in s a y HI Ha H), andb_false_r. unfold infl. destruct (oa_ph y) eqn:Ep; [reflexivity|].
    rewrite (w3_real_nolink a W y H Ep). reflexivity.
  - apply find_alloc_none in Hk. rewrite Hk, (g_find_req_in s a y HI Ha Hr), Hal, Hi. reflexivity. Qed.

Lemma g_node_owned s : InvG s -> NodeOwned s.
Proof. intros HI n y Hn Hy. destruct (ig_owned s HI n y Hn Hy) as (a & Ha & E & Ho).
  unfold node_alloc_owned. rewrite <- E, (g_find_app_in s a HI Ha). destruct Ho as [H|(Hi & Hr & Hal & Hk)].
  - rewrite (g_find_alloc_in s a y HI Ha H). reflexivity.
  - pose proof Hk as Hk'. apply find_alloc_none in Hk'. rewrite Hk'.
    rewrite (inflight_real_infl s y HI); [assumption|]. apply in_node_records. eauto. Qed.
Lemma g_app_on_node s : InvG s -> AppOnNode s.
Proof. intros HI a x Ha Hx. destruct (g_alloc_on_node s a x HI Ha Hx) as (n & Hn & E & Hxn & Ef & _).
  apply (onnode_intro s x n Ef). apply in_map. assumption. Qed.

Lemma root_matches_G s : InvG s ->
  (root_matches_nodes s = true <->
   forall r, root_queue s = Some r -> forall k, getz (q_alloc r) k = asum (filter ninfl (node_records s)) k).
Proof. intros HI. unfold root_matches_nodes. fold (node_records s).
  rewrite (filter_ext_in' (inflight_real s) infl (node_records s)) by (intros y Hy; apply inflight_real_infl; assumption).
  destruct (root_queue s) as [r|]; [|split; [intros _ r' C; discriminate|reflexivity]].
  rewrite forallb_forall. fold (asum (filter infl (node_records s))).
  assert (G : forall k, sumz (map on_allocated (s_nodes s)) k = asum (filter infl (node_records s)) k + asum (filter ninfl (node_records s)) k).
  { intros k. rewrite (g_nodes_ledger_sum s k HI). apply asum_infl_split. }
  split.
  - intros H r' E k. inversion E; subst r'. clear E.
    destruct (in_dec N.eq_dec k (keys (q_alloc r) ++ res_keys (map on_allocated (s_nodes s)) ++ res_keys (map oa_res (filter infl (node_records s))))) as [Hin|Hni].
    + specialize (H k Hin). specialize (G k). unfold asum in *. lia.
    + specialize (G k). unfold asum in G.
      assert (Z1 : getz (q_alloc r) k = 0) by (apply getz_notin; intros C; apply Hni; apply in_or_app; auto).
      assert (Z2 : sumz (map on_allocated (s_nodes s)) k = 0)
        by (apply sumz_notin; intros C; apply Hni; apply in_or_app; right; apply in_or_app; auto).
      assert (Z3 : sumz (map oa_res (filter infl (node_records s))) k = 0)
        by (apply sumz_notin; intros C; apply Hni; apply in_or_app; right; apply in_or_app; auto).
      unfold asum. lia.
  - intros H k _. specialize (H r eq_refl k). specialize (G k). unfold asum in *. lia. Qed.

Lemma g_drained s : InvG s -> (forall q, In q (s_queues s) -> QueueBooks s q) -> drained_ok s = true.
Proof. intros HI B2. unfold drained_ok. destruct (s_apps s) as [|a0 t] eqn:Hno; [|reflexivity].
  rewrite !andb_true_iff. split; [split|].
  - apply forallb_forall. intros q Hq. destruct (queues_zero s (ig_tree s HI) B2 Hno q Hq) as [Z1 Z2].
    destruct (ig_q_wf s HI q Hq) as [W1 W2]. rewrite !all_zero_of_getz; auto.
  - apply forallb_forall. intros n Hn. pose proof (ig_nodes s HI n Hn) as K.
    assert (E : on_allocs n = []).
    { destruct (on_allocs n) as [|y l] eqn:E; [reflexivity|]. exfalso.
      assert (Hy : In y (on_allocs n)) by (rewrite E; left; reflexivity).
      destruct (ig_owned s HI n y Hn Hy) as (ap & Hap & _). rewrite Hno in Hap. contradiction. }
    rewrite E. rewrite andb_true_r. apply all_zero_of_getz; [apply (k3_wf n K)|]. intros k.
    rewrite (k3_ledger n K k), E. reflexivity.
  - rewrite (ig_count s HI). unfold all_allocs. rewrite Hno. reflexivity. Qed.

Theorem books_G s : InvG s -> (Books s <-> BooksG s).
Proof. intros HI. split.
  - intros [[B1 B2 B3 B4 B5] _]. constructor; auto. apply (root_matches_G s HI). assumption.
  - intros [B1 B2 B3]. split; [|apply g_drained; assumption]. constructor; auto.
    + apply g_node_owned; assumption.
    + apply g_app_on_node; assumption.
    + apply (root_matches_G s HI). assumption. Qed.
Corollary books_of_G s : InvG s -> BooksG s -> Books s. Proof. intros HI. apply (books_G s HI). Qed.
Corollary G_of_books s : InvG s -> Books s -> BooksG s. Proof. intros HI. apply (books_G s HI). Qed.
(* pointwise "nothing leaks" *)
Theorem g_drain_pointwise s : InvG s -> BooksG s -> s_apps s = [] ->
  (forall q, In q (s_queues s) -> forall k, getz (q_alloc q) k = 0 /\ getz (q_pending q) k = 0) /\
  (forall n, In n (s_nodes s) -> on_allocs n = [] /\ forall k, getz (on_allocated n) k = 0) /\
  s_nallocs s = 0.
Proof. intros HI HB Hno. split; [|split].
  - intros q Hq k. destruct (queues_zero s (ig_tree s HI) (bg_queues s HB) Hno q Hq) as [Z1 Z2]. auto.
  - intros n Hn. assert (E : on_allocs n = []).
    { destruct (on_allocs n) as [|y l] eqn:E; [reflexivity|]. exfalso.
      assert (Hy : In y (on_allocs n)) by (rewrite E; left; reflexivity).
      destruct (ig_owned s HI n y Hn Hy) as (ap & Hap & _). rewrite Hno in Hap. contradiction. }
    split; [assumption|]. intros k. rewrite (k3_ledger n (ig_nodes s HI n Hn) k), E. reflexivity.
  - rewrite (ig_count s HI). unfold all_allocs. rewrite Hno. reflexivity. Qed.
(* ================================================================== 3. the queue clause *)
(* Core/BooksQueue.v [queue_books_step] with the three facts of [Inv] it uses as hypotheses *)
Section QueueStepG.
  Variables (s s' : ostate) (a a' : oapp) (F : oqueue -> oqueue) (dA dP : tid -> Z).
  Hypothesis HT : TreeOK s.
  Hypothesis Hids : NoDup (map ap_id (s_apps s)).
  Hypothesis Hleaf : exists lq, find_queue s (ap_queue a) = Some lq /\ q_leaf lq = true.
  Hypothesis HB : forall q, In q (s_queues s) -> QueueBooks s q.
  Hypothesis Ha : In a (s_apps s).
  Hypothesis Eapps : s_apps s' = updk ap_id (s_apps s) (ap_id a) (fun _ => a').
  Hypothesis Equeues : s_queues s' =
    map (fun q => if memN (q_id q) (path_ids s (ap_queue a)) then F q else q) (s_queues s).
  Hypothesis Fid : forall q, q_id (F q) = q_id q.
  Hypothesis Fpar : forall q, q_parent (F q) = q_parent q.
  Hypothesis Fleaf : forall q, q_leaf (F q) = q_leaf q.
  Hypothesis Eq : ap_queue a' = ap_queue a.
  Hypothesis HdA : forall k, getz (ap_allocated a') k + getz (ap_phalloc a') k =
                             getz (ap_allocated a) k + getz (ap_phalloc a) k + dA k.
  Hypothesis HdP : forall k, getz (ap_pending a') k = getz (ap_pending a) k + dP k.
  Hypothesis FA : forall q, In q (s_queues s) -> In (q_id q) (path_ids s (ap_queue a)) ->
                  forall k, getz (q_alloc (F q)) k = getz (q_alloc q) k + dA k.
  Hypothesis FP : forall q, In q (s_queues s) -> In (q_id q) (path_ids s (ap_queue a)) ->
                  forall k, getz (q_pending (F q)) k = getz (q_pending q) k + dP k.
  Hypothesis Fnn : forall q, In q (s_queues s) -> In (q_id q) (path_ids s (ap_queue a)) ->
                   rnonneg (q_alloc (F q)) /\ rnonneg (q_pending (F q)).

  Let path := path_ids s (ap_queue a).
  Let g := fun q => if memN (q_id q) path then F q else q.

  Lemma qg_queues : s_queues s' = map g (s_queues s). Proof. exact Equeues. Qed.
  Lemma qg_id q : q_id (g q) = q_id q. Proof. unfold g. destruct (memN _ _); auto. Qed.
  Lemma qg_par q : q_parent (g q) = q_parent q. Proof. unfold g. destruct (memN _ _); auto. Qed.
  Lemma qg_leaf q : q_leaf (g q) = q_leaf q. Proof. unfold g. destruct (memN _ _); auto. Qed.

  Lemma qg_apps_of_queue id :
    apps_of_queue s' id = updk ap_id (apps_of_queue s id) (ap_id a) (fun _ => a').
  Proof. unfold apps_of_queue. rewrite Eapps. unfold updk. apply filter_map_comm_in. intros b Hb.
    destruct (N.eqb_spec (ap_id b) (ap_id a)) as [E|E]; [|reflexivity].
    assert (b = a) by (apply (nodup_key_inj ap_id (s_apps s)); auto). subst b. rewrite Eq. reflexivity. Qed.
  Lemma qg_children id : children_of s' id = map g (children_of s id).
  Proof. unfold children_of. rewrite qg_queues. apply filter_map_comm. intros x. rewrite qg_par. reflexivity. Qed.
  Lemma qg_apps_nodup id : NoDup (map ap_id (apps_of_queue s id)).
  Proof. apply NoDup_map_filter. exact Hids. Qed.

  Theorem queue_books_step_gen : forall q', In q' (s_queues s') -> QueueBooks s' q'.
  Proof.
    intros q' Hq'. rewrite qg_queues in Hq'. apply in_map_iff in Hq'. destruct Hq' as (q & Eg & Hq). subst q'.
    destruct Hleaf as (lq & Elq & Hlq).
    destruct (path_facts s HT _ lq Elq) as (Hch & Hcomp & Hnd & t & Ep).
    pose proof (HB q Hq) as [B1 B2 B3 B4 B5 B6].
    constructor.
    - unfold g. destruct (memN (q_id q) path) eqn:Em; [|assumption]. apply memN_in in Em. apply (Fnn q Hq Em).
    - unfold g. destruct (memN (q_id q) path) eqn:Em; [|assumption]. apply memN_in in Em. apply (Fnn q Hq Em).
    - (* leaf, allocated *)
      rewrite qg_leaf, qg_id. intros Hl k. unfold app_usage. rewrite qg_apps_of_queue, sumz_app.
      destruct (N.eq_dec (q_id q) (ap_queue a)) as [E|E].
      + assert (Hin : In a (apps_of_queue s (q_id q))).
        { unfold apps_of_queue. apply filter_In. split; [assumption|]. apply N.eqb_eq. congruence. }
        rewrite !(sumz_updk ap_id _ _ _ _ a k (qg_apps_nodup _) Hin eq_refl).
        assert (Em : In (q_id q) path) by (unfold path; rewrite Ep, E; left; reflexivity).
        unfold g. rewrite (proj2 (memN_in _ _) Em). rewrite (FA q Hq Em k), (B3 Hl k). unfold app_usage. rewrite sumz_app.
        specialize (HdA k). lia.
      + assert (Hni : ~ In (ap_id a) (map ap_id (apps_of_queue s (q_id q)))).
        { intros C. apply in_map_iff in C. destruct C as (b & Eb & Hb). unfold apps_of_queue in Hb. apply filter_In in Hb.
          destruct Hb as [Hb Eqb]. apply N.eqb_eq in Eqb.
          assert (b = a) by (apply (nodup_key_inj ap_id (s_apps s)); auto). subst b. congruence. }
        rewrite (updk_fresh ap_id _ _ _ Hni).
        assert (Em : ~ In (q_id q) path) by (intros C; apply E; apply (leaf_only_head s HT q _ Hq Hl C)).
        unfold g. rewrite (proj2 (memN_false _ _) Em). rewrite (B3 Hl k). unfold app_usage. rewrite sumz_app. reflexivity.
    - (* leaf, pending *)
      rewrite qg_leaf, qg_id. intros Hl k. rewrite qg_apps_of_queue.
      destruct (N.eq_dec (q_id q) (ap_queue a)) as [E|E].
      + assert (Hin : In a (apps_of_queue s (q_id q))).
        { unfold apps_of_queue. apply filter_In. split; [assumption|]. apply N.eqb_eq. congruence. }
        rewrite (sumz_updk ap_id _ _ _ _ a k (qg_apps_nodup _) Hin eq_refl).
        assert (Em : In (q_id q) path) by (unfold path; rewrite Ep, E; left; reflexivity).
        unfold g. rewrite (proj2 (memN_in _ _) Em). rewrite (FP q Hq Em k), (B4 Hl k).
        specialize (HdP k). lia.
      + assert (Hni : ~ In (ap_id a) (map ap_id (apps_of_queue s (q_id q)))).
        { intros C. apply in_map_iff in C. destruct C as (b & Eb & Hb). unfold apps_of_queue in Hb. apply filter_In in Hb.
          destruct Hb as [Hb Eqb]. apply N.eqb_eq in Eqb.
          assert (b = a) by (apply (nodup_key_inj ap_id (s_apps s)); auto). subst b. congruence. }
        rewrite (updk_fresh ap_id _ _ _ Hni).
        assert (Em : ~ In (q_id q) path) by (intros C; apply E; apply (leaf_only_head s HT q _ Hq Hl C)).
        unfold g. rewrite (proj2 (memN_false _ _) Em). apply (B4 Hl k).
    - (* parent, allocated *)
      rewrite qg_leaf, qg_id. intros Hl k. rewrite qg_children.
      destruct (in_dec N.eq_dec (q_id q) path) as [Em|Em].
      + destruct (child_on_path s HT _ lq q Elq Hlq Hq Hl Em) as (c0 & Hc0 & Hc0p & Huniq).
        unfold g at 2. rewrite (sumz_map_cond_one (fun c => memN (q_id c) path) F q_alloc (children_of s (q_id q)) c0 k).
        * unfold g. rewrite (proj2 (memN_in _ _) Em). apply in_children in Hc0.
          rewrite (FA q Hq Em k), (FA c0 (proj1 Hc0) Hc0p k), (B5 Hl k). lia.
        * apply (nodup_map_nodup q_id). apply (children_nodup s HT).
        * assumption.
        * apply memN_in. assumption.
        * intros c Hc Pc. apply memN_in in Pc. apply Huniq; assumption.
      + unfold g at 2. rewrite map_cond_none.
        * unfold g. rewrite (proj2 (memN_false _ _) Em). apply (B5 Hl k).
        * intros c Hc. apply memN_false. apply (child_off_path s HT _ lq q c Elq Hq Em Hc).
    - (* parent, pending *)
      rewrite qg_leaf, qg_id. intros Hl k. rewrite qg_children.
      destruct (in_dec N.eq_dec (q_id q) path) as [Em|Em].
      + destruct (child_on_path s HT _ lq q Elq Hlq Hq Hl Em) as (c0 & Hc0 & Hc0p & Huniq).
        unfold g at 2. rewrite (sumz_map_cond_one (fun c => memN (q_id c) path) F q_pending (children_of s (q_id q)) c0 k).
        * unfold g. rewrite (proj2 (memN_in _ _) Em). apply in_children in Hc0.
          rewrite (FP q Hq Em k), (FP c0 (proj1 Hc0) Hc0p k), (B6 Hl k). lia.
        * apply (nodup_map_nodup q_id). apply (children_nodup s HT).
        * assumption.
        * apply memN_in. assumption.
        * intros c Hc Pc. apply memN_in in Pc. apply Huniq; assumption.
      + unfold g at 2. rewrite map_cond_none.
        * unfold g. rewrite (proj2 (memN_false _ _) Em). apply (B6 Hl k).
        * intros c Hc. apply memN_false. apply (child_off_path s HT _ lq q c Elq Hq Em Hc).
  Qed.
End QueueStepG.

(* the same for InvG / BooksG *)
Lemma queue_books_stepG s s' a a' F dA dP : InvG s -> BooksG s -> In a (s_apps s) ->
  s_apps s' = updk ap_id (s_apps s) (ap_id a) (fun _ => a') ->
  s_queues s' = map (fun q => if memN (q_id q) (path_ids s (ap_queue a)) then F q else q) (s_queues s) ->
  (forall q, q_id (F q) = q_id q) -> (forall q, q_parent (F q) = q_parent q) -> (forall q, q_leaf (F q) = q_leaf q) ->
  ap_queue a' = ap_queue a ->
  (forall k, getz (ap_allocated a') k + getz (ap_phalloc a') k = getz (ap_allocated a) k + getz (ap_phalloc a) k + dA k) ->
  (forall k, getz (ap_pending a') k = getz (ap_pending a) k + dP k) ->
  (forall q, In q (s_queues s) -> In (q_id q) (path_ids s (ap_queue a)) -> forall k, getz (q_alloc (F q)) k = getz (q_alloc q) k + dA k) ->
  (forall q, In q (s_queues s) -> In (q_id q) (path_ids s (ap_queue a)) -> forall k, getz (q_pending (F q)) k = getz (q_pending q) k + dP k) ->
  (forall q, In q (s_queues s) -> In (q_id q) (path_ids s (ap_queue a)) -> rnonneg (q_alloc (F q)) /\ rnonneg (q_pending (F q))) ->
  forall q', In q' (s_queues s') -> QueueBooks s' q'.
Proof. intros HI HB Ha. apply (queue_books_step_gen s s' a a' F dA dP (ig_tree s HI) (ig_app_ids s HI) (ig_app_leaf s HI a Ha) (bg_queues s HB) Ha). Qed.

(* ------------------------------------------------------------------ domination along the path *)
Section PathFactsG.
  Variables (s : ostate) (a : oapp).
  Hypothesis HI : InvG s.
  Hypothesis HB : BooksG s.
  Hypothesis Ha : In a (s_apps s).

  Lemma g_pending_dominated q k : In q (s_queues s) -> In (q_id q) (path_ids s (ap_queue a)) ->
    getz (ap_pending a) k <= getz (q_pending q) k.
  Proof. intros Hq Hin. destruct (ig_app_leaf s HI a Ha) as (lq & Elq & Hl). pose proof (ig_tree s HI) as HT.
    destruct (find_queue_some s _ lq Elq) as [Hlq Elid].
    apply (path_dom s HT q_pending (ap_queue a) lq (getz (ap_pending a) k) k Elq) with (c := q_id q).
    - rewrite (qb_leaf_pend s lq (bg_queues s HB lq Hlq) Hl k). apply sumz_ge_member.
      + intros r Hr. apply in_map_iff in Hr. destruct Hr as (b & <- & Hb). unfold apps_of_queue in Hb. apply filter_In in Hb.
        apply rnonneg_fnonneg. apply (ab_nn_pend b (bg_apps s HB b (proj1 Hb))).
      + apply in_map. unfold apps_of_queue. apply filter_In. split; [assumption|]. apply N.eqb_eq. congruence.
    - intros q0 Hq0. apply rnonneg_fnonneg. apply (qb_nn_pend s q0 (bg_queues s HB q0 Hq0)).
    - intros q0 Hq0 Hnl. apply (qb_parent_pend s q0 (bg_queues s HB q0 Hq0) Hnl k).
    - assumption.
    - apply (find_queue_in s q HT Hq). Qed.
  (* real + placeholder usage *)
  Lemma g_usage_dominated q k : In q (s_queues s) -> In (q_id q) (path_ids s (ap_queue a)) ->
    getz (ap_allocated a) k + getz (ap_phalloc a) k <= getz (q_alloc q) k.
  Proof. intros Hq Hin. destruct (ig_app_leaf s HI a Ha) as (lq & Elq & Hl). pose proof (ig_tree s HI) as HT.
    destruct (find_queue_some s _ lq Elq) as [Hlq Elid].
    apply (path_dom s HT q_alloc (ap_queue a) lq (getz (ap_allocated a) k + getz (ap_phalloc a) k) k Elq) with (c := q_id q).
    - rewrite (qb_leaf_alloc s lq (bg_queues s HB lq Hlq) Hl k). unfold app_usage. rewrite sumz_app.
      assert (Hmem : In a (apps_of_queue s (q_id lq))).
      { unfold apps_of_queue. apply filter_In. split; [assumption|]. apply N.eqb_eq. congruence. }
      assert (H1 : getz (ap_allocated a) k <= sumz (map ap_allocated (apps_of_queue s (q_id lq))) k).
      { apply sumz_ge_member; [|apply in_map; assumption].
        intros r Hr. apply in_map_iff in Hr. destruct Hr as (b & <- & Hb). unfold apps_of_queue in Hb. apply filter_In in Hb.
        apply rnonneg_fnonneg. apply (ab_nn_alloc b (bg_apps s HB b (proj1 Hb))). }
      assert (H2 : getz (ap_phalloc a) k <= sumz (map ap_phalloc (apps_of_queue s (q_id lq))) k).
      { apply sumz_ge_member; [|apply in_map; assumption].
        intros r Hr. apply in_map_iff in Hr. destruct Hr as (b & <- & Hb). unfold apps_of_queue in Hb. apply filter_In in Hb.
        apply rnonneg_fnonneg. apply (ab_nn_ph b (bg_apps s HB b (proj1 Hb))). }
      lia.
    - intros q0 Hq0. apply rnonneg_fnonneg. apply (qb_nn_alloc s q0 (bg_queues s HB q0 Hq0)).
    - intros q0 Hq0 Hnl. apply (qb_parent_alloc s q0 (bg_queues s HB q0 Hq0) Hnl k).
    - assumption.
    - apply (find_queue_in s q HT Hq). Qed.
  Lemma g_allocated_dominated q k : In q (s_queues s) -> In (q_id q) (path_ids s (ap_queue a)) ->
    getz (ap_allocated a) k <= getz (q_alloc q) k.
  Proof. intros Hq Hin. pose proof (g_usage_dominated q k Hq Hin).
    pose proof (rnonneg_fnonneg _ (ab_nn_ph a (bg_apps s HB a Ha)) k). lia. Qed.
  Lemma g_phalloc_dominated q k : In q (s_queues s) -> In (q_id q) (path_ids s (ap_queue a)) ->
    getz (ap_phalloc a) k <= getz (q_alloc q) k.
  Proof. intros Hq Hin. pose proof (g_usage_dominated q k Hq Hin).
    pose proof (rnonneg_fnonneg _ (ab_nn_alloc a (bg_apps s HB a Ha)) k). lia. Qed.
End PathFactsG.
(* what one record contributes is below the application's ledger *)
Lemma g_ask_le_pending a x k : AppWF3 a -> AppBooks a -> In x (ap_requests a) -> oa_allocated x = false ->
  getz (oa_res x) k <= getz (ap_pending a) k.
Proof. intros W B Hx Xna. rewrite (ab_pend a B k). apply asum_ge_member.
  - intros y Hy. unfold pending_asks in Hy. apply filter_In in Hy. apply (a3_nn _ y (w3_req a W y (proj1 Hy))).
  - unfold pending_asks. apply filter_In. split; [assumption|]. rewrite Xna. reflexivity. Qed.
Lemma g_alloc_le_allocated a x k : AppWF3 a -> AppBooks a -> In x (ap_allocs a) -> oa_ph x = false ->
  getz (oa_res x) k <= getz (ap_allocated a) k.
Proof. intros W B Hx Xph. rewrite (ab_alloc a B k). apply asum_ge_member.
  - intros y Hy. unfold real_allocs in Hy. apply filter_In in Hy. apply (a3_nn _ y (w3_alloc a W y (proj1 Hy))).
  - unfold real_allocs. apply filter_In. split; [assumption|]. rewrite Xph. reflexivity. Qed.
Lemma g_ph_le_phalloc a x k : AppWF3 a -> AppBooks a -> In x (ap_allocs a) -> oa_ph x = true ->
  getz (oa_res x) k <= getz (ap_phalloc a) k.
Proof. intros W B Hx Xph. rewrite (ab_ph a B k). apply asum_ge_member.
  - intros y Hy. unfold ph_allocs in Hy. apply filter_In in Hy. apply (a3_nn _ y (w3_alloc a W y (proj1 Hy))).
  - unfold ph_allocs. apply filter_In. split; assumption. Qed.

(* ================================================================== 4. the queue ledger functions *)
(* everything but the queue list is untouched *)
Record same_but_queues (s s' : ostate) : Prop := mkSBQ {
  sq_nodes : s_nodes s' = s_nodes s; sq_apps : s_apps s' = s_apps s; sq_total : s_total s' = s_total s;
  sq_nallocs : s_nallocs s' = s_nallocs s; sq_nph : s_nph s' = s_nph s; sq_nres : s_nres s' = s_nres s;
  sq_foreign : s_foreign s' = s_foreign s; sq_completed : s_completed s' = s_completed s;
  sq_rejected : s_rejected s' = s_rejected s; sq_ugm : s_ugm s' = s_ugm s }.
Lemma on_path_same s path f : same_but_queues s (on_path s path f). Proof. constructor; reflexivity. Qed.
Lemma q_inc_same s l r : same_but_queues s (q_inc s l r). Proof. apply on_path_same. Qed.
Lemma q_inc_pending_same s l r : same_but_queues s (q_inc_pending s l r). Proof. apply on_path_same. Qed.
Lemma q_dec_pending_same s l r : same_but_queues s (q_dec_pending s l r). Proof. apply on_path_same. Qed.
Lemma q_dec_same s l r : same_but_queues s (q_dec s l r).
Proof. unfold q_dec. destruct (forallb _ _); [apply on_path_same|constructor; reflexivity]. Qed.
Lemma q_try_inc_some s l r s1 : q_try_inc s l r = Some s1 -> s1 = q_inc s l r.
Proof. unfold q_try_inc. destruct (forallb _ _); [|discriminate]. intros H. inversion H. reflexivity. Qed.
Lemma q_try_inc_same s l r s1 : q_try_inc s l r = Some s1 -> same_but_queues s s1.
Proof. intros H. rewrite (q_try_inc_some s l r s1 H). apply q_inc_same. Qed.

Definition path_map (s : ostate) (leaf : N) (F : oqueue -> oqueue) : list oqueue :=
  map (fun q => if memN (q_id q) (path_ids s leaf) then F q else q) (s_queues s).
Lemma path_map_unfold s leaf F :
  path_map s leaf F = map (fun q => if memN (q_id q) (path_ids s leaf) then F q else q) (s_queues s).
Proof. reflexivity. Qed.
Lemma path_map_id s leaf : path_map s leaf (fun q => q) = s_queues s.
Proof. unfold path_map. rewrite <- (map_id (s_queues s)) at 2. apply map_ext. intros q. destruct (memN _ _); reflexivity. Qed.
Lemma path_map_ext s leaf F G : (forall q, In q (s_queues s) -> In (q_id q) (path_ids s leaf) -> F q = G q) ->
  path_map s leaf F = path_map s leaf G.
Proof. intros H. unfold path_map. apply map_ext_in. intros q Hq. destruct (memN (q_id q) (path_ids s leaf)) eqn:Em; [|reflexivity].
  apply H; [assumption|]. apply memN_in. assumption. Qed.

(* the all-or-nothing guard of DecAllocatedResource passes when every queue on the path holds at least r *)
Definition dominated (s : ostate) (leaf : N) (r : res) : Prop :=
  forall c oc, In c (path_ids s leaf) -> find_queue s c = Some oc -> forall k, getz r k <= getz (q_alloc oc) k.
Lemma q_dec_guard s leaf r : wf r -> dominated s leaf r ->
  forallb (fun qid => match find_queue s qid with
                      | Some q => FitInActual (Some (q_alloc q)) (Some r) | None => false end) (path_ids s leaf) = true.
Proof. intros Wr Hd. apply forallb_forall. intros qid Hqid. destruct (g_path_member s leaf qid Hqid) as (oc & Eoc & Hoc & Eid).
  rewrite Eoc. apply FitInActual_spec; [exact Wr|]. cbn [oget]. intros k v l Ev El.
  pose proof (Hd qid oc Hqid Eoc k) as D. unfold getz in D. rewrite Ev, El in D. exact D. Qed.
Lemma q_dec_eq s leaf r : wf r -> dominated s leaf r -> q_dec s leaf r = on_path s (path_ids s leaf) (F_dec r).
Proof. intros Wr Hd. unfold q_dec. rewrite (q_dec_guard s leaf r Wr Hd). reflexivity. Qed.
Lemma dominated_ext s s2 leaf r : s_queues s2 = s_queues s -> dominated s leaf r -> dominated s2 leaf r.
Proof. intros E Hd c oc Hc Ec. rewrite (path_ids_ext s2 s leaf E) in Hc. rewrite (find_queue_ext s2 s c E) in Ec. apply (Hd c oc Hc Ec). Qed.

(* the five functions applied to a state with the queue list of s *)
Section QueueOps.
  Variables (s s2 : ostate) (leaf : N) (r : res).
  Hypothesis E2 : s_queues s2 = s_queues s.
  Lemma g_q_inc_queues : s_queues (q_inc s2 leaf r) = path_map s leaf (F_inc r).
  Proof. rewrite q_inc_queues, (path_ids_ext s2 s leaf E2), E2. reflexivity. Qed.
  Lemma g_q_inc_pending_queues : s_queues (q_inc_pending s2 leaf r) = path_map s leaf (F_inc_pending r).
  Proof. rewrite q_inc_pending_queues, (path_ids_ext s2 s leaf E2), E2. reflexivity. Qed.
  Lemma g_q_dec_pending_queues : s_queues (q_dec_pending s2 leaf r) = path_map s leaf (F_dec_pending r).
  Proof. rewrite q_dec_pending_queues, (path_ids_ext s2 s leaf E2), E2. reflexivity. Qed.
  Lemma g_q_dec_queues : wf r -> dominated s leaf r -> s_queues (q_dec s2 leaf r) = path_map s leaf (F_dec r).
  Proof. intros Wr Hd. rewrite (q_dec_eq s2 leaf r Wr (dominated_ext s s2 leaf r E2 Hd)).
    rewrite on_path_queues, (path_ids_ext s2 s leaf E2), E2. reflexivity. Qed.
  Lemma g_q_try_inc_queues s3 : q_try_inc s2 leaf r = Some s3 -> s_queues s3 = path_map s leaf (F_inc r).
  Proof. intros H. rewrite (q_try_inc_some _ _ _ _ H). apply g_q_inc_queues. Qed.
End QueueOps.

(* ... and to a state whose queue list already is a path map of s (second update on the same path) *)
Section QueueOpsAfter.
  Variables (s s2 : ostate) (leaf : N) (F1 : oqueue -> oqueue) (r : res).
  Hypothesis E2 : s_queues s2 = path_map s leaf F1.
  Hypothesis F1id : forall q, q_id (F1 q) = q_id q.
  Hypothesis F1par : forall q, q_parent (F1 q) = q_parent q.
  Lemma after_path : path_ids s2 leaf = path_ids s leaf.
  Proof. apply (path_ids_map s s2 (fun q => if memN (q_id q) (path_ids s leaf) then F1 q else q) leaf E2);
    intros q; destruct (memN _ _); auto. Qed.
  Lemma after_on_path F2 : s_queues (on_path s2 (path_ids s2 leaf) F2) = path_map s leaf (fun q => F2 (F1 q)).
  Proof. rewrite on_path_queues, after_path, E2. unfold path_map. rewrite map_map. apply map_ext. intros q.
    destruct (memN (q_id q) (path_ids s leaf)) eqn:Em; [rewrite F1id|]; rewrite Em; reflexivity. Qed.
  Lemma after_find c oc2 : In c (path_ids s leaf) -> find_queue s2 c = Some oc2 ->
    exists oc, find_queue s c = Some oc /\ In oc (s_queues s) /\ q_id oc = c /\ oc2 = F1 oc.
  Proof. intros Hc E. rewrite (find_queue_map s s2 (fun q => if memN (q_id q) (path_ids s leaf) then F1 q else q) c E2) in E
      by (intros q; destruct (memN _ _); auto).
    destruct (find_queue s c) as [oc|] eqn:Eoc; [|discriminate]. cbn [option_map] in E. destruct (find_queue_some s c oc Eoc) as [Hoc Eid].
    exists oc. split; [reflexivity|]. split; [assumption|]. split; [assumption|].
    rewrite Eid, (proj2 (memN_in _ _) Hc) in E. inversion E. reflexivity. Qed.
  Lemma q_inc_after : s_queues (q_inc s2 leaf r) = path_map s leaf (fun q => F_inc r (F1 q)).
  Proof. apply (after_on_path (F_inc r)). Qed.
  Lemma q_inc_pending_after : s_queues (q_inc_pending s2 leaf r) = path_map s leaf (fun q => F_inc_pending r (F1 q)).
  Proof. apply (after_on_path (F_inc_pending r)). Qed.
  Lemma q_dec_pending_after : s_queues (q_dec_pending s2 leaf r) = path_map s leaf (fun q => F_dec_pending r (F1 q)).
  Proof. rewrite <- (after_on_path (F_dec_pending r)). rewrite q_dec_pending_queues, on_path_queues. reflexivity. Qed.
  Lemma q_dec_after : wf r ->
    (forall q, In q (s_queues s) -> In (q_id q) (path_ids s leaf) -> forall k, getz r k <= getz (q_alloc (F1 q)) k) ->
    s_queues (q_dec s2 leaf r) = path_map s leaf (fun q => F_dec r (F1 q)).
  Proof. intros Wr Hd. rewrite q_dec_eq; [apply (after_on_path (F_dec r))|exact Wr|].
    intros c oc2 Hc E k. rewrite after_path in Hc. destruct (after_find c oc2 Hc E) as (oc & _ & Hoc & Eid & ->).
    apply Hd; [assumption|]. rewrite Eid. assumption. Qed.
  Lemma q_try_inc_after s3 : q_try_inc s2 leaf r = Some s3 -> s_queues s3 = path_map s leaf (fun q => F_inc r (F1 q)).
  Proof. intros H. rewrite (q_try_inc_some _ _ _ _ H). apply q_inc_after. Qed.
End QueueOpsAfter.

(* ------------------------------------------------------------------ the fact groups *)
(* a queue as the invariants describe it *)
Record QOK (q : oqueue) : Prop := mkQOK {
  qk_wfa : wf (q_alloc q); qk_wfp : wf (q_pending q); qk_ba : rb (q_alloc q); qk_bp : rb (q_pending q);
  qk_na : rnonneg (q_alloc q); qk_np : rnonneg (q_pending q) }.
(* q' is q with allocated changed by dA and pending by dP: the four groups [gang_step] asks for *)
Definition QFacts (q q' : oqueue) (dA dP : tid -> Z) : Prop :=
  (wf (q_alloc q') /\ wf (q_pending q')) /\
  (forall k, getz (q_alloc q') k = getz (q_alloc q) k + dA k) /\
  (forall k, getz (q_pending q') k = getz (q_pending q) k + dP k) /\
  (rnonneg (q_alloc q') /\ rnonneg (q_pending q')).
Definition zero3 : tid -> Z := fun _ => 0.

Lemma g_qok s q : InvG s -> BooksG s -> Bounded3 s -> In q (s_queues s) -> QOK q.
Proof. intros HI HB [HBd _] Hq. destruct (ig_q_wf s HI q Hq). destruct (bd_queues s HBd q Hq). pose proof (bg_queues s HB q Hq) as QB.
  constructor; auto; [apply (qb_nn_alloc s q QB)|apply (qb_nn_pend s q QB)]. Qed.
Lemma QFacts_id q : QOK q -> QFacts q q zero3 zero3.
Proof. intros [? ? ? ? ? ?]. unfold QFacts, zero3. repeat split; auto; intros; lia. Qed.
Lemma QFacts_trans q q1 q2 dA1 dP1 dA2 dP2 : QFacts q q1 dA1 dP1 -> QFacts q1 q2 dA2 dP2 ->
  QFacts q q2 (fun k => dA1 k + dA2 k) (fun k => dP1 k + dP2 k).
Proof. intros (_ & A1 & P1 & _) (W & A2 & P2 & Nn). split; [exact W|]. split; [|split; [|exact Nn]].
  - intros k. rewrite A2, A1. lia.
  - intros k. rewrite P2, P1. lia. Qed.
Lemma QFacts_ext q q' dA dP dA' dP' : (forall k, dA k = dA' k) -> (forall k, dP k = dP' k) -> QFacts q q' dA dP -> QFacts q q' dA' dP'.
Proof. intros EA EP (W & A & P & Nn). split; [exact W|]. split; [|split; [|exact Nn]]; intros k; rewrite <- ?EA, <- ?EP; auto. Qed.

Section QueueFnG.
  Variables (q : oqueue) (r : res).
  Hypothesis Q : QOK q.
  Hypothesis Wr : wf r.
  Hypothesis Br : rb r.
  (* signed r: the result must stay non-negative *)
  Lemma F_inc_Q : (forall k, 0 <= getz (q_alloc q) k + getz r k) -> QFacts q (F_inc r q) (getz r) zero3.
  Proof. destruct Q. apply F_inc_signed; assumption. Qed.
  Lemma F_inc_pending_Q : (forall k, 0 <= getz (q_pending q) k + getz r k) -> QFacts q (F_inc_pending r q) zero3 (getz r).
  Proof. destruct Q. apply F_inc_pending_signed; assumption. Qed.
  Lemma F_inc_Q_nn : rnonneg r -> QFacts q (F_inc r q) (getz r) zero3.
  Proof. intros Nr. apply F_inc_Q. intros k. pose proof (rnonneg_fnonneg _ (qk_na q Q) k). pose proof (rnonneg_fnonneg _ Nr k). lia. Qed.
  Lemma F_inc_pending_Q_nn : rnonneg r -> QFacts q (F_inc_pending r q) zero3 (getz r).
  Proof. intros Nr. apply F_inc_pending_Q. intros k. pose proof (rnonneg_fnonneg _ (qk_np q Q) k). pose proof (rnonneg_fnonneg _ Nr k). lia. Qed.
  Lemma F_dec_Q : (forall k, getz r k <= getz (q_alloc q) k) -> QFacts q (F_dec r q) (fun k => - getz r k) zero3.
  Proof. destruct Q. apply F_dec_facts; assumption. Qed.
  Lemma F_dec_pending_Q : (forall k, getz r k <= getz (q_pending q) k) -> QFacts q (F_dec_pending r q) zero3 (fun k => - getz r k).
  Proof. destruct Q. apply F_dec_pending_facts; assumption. Qed.
  (* the updated queue is again as the invariants describe it (for a second update) *)
  Lemma F_dec_QOK : rnonneg r -> (forall k, getz r k <= getz (q_alloc q) k) -> QOK (F_dec r q).
  Proof. intros Nr Hle. destruct (F_dec_Q Hle) as ((W1 & W2) & A & P & N1 & N2). pose proof Q as [? ? Ba ? ? ?].
    constructor; auto. intros k. rewrite A. specialize (Ba k). specialize (Hle k). pose proof (rnonneg_fnonneg _ Nr k). unfold bnd in *. lia. Qed.
  Lemma F_dec_pending_QOK : rnonneg r -> (forall k, getz r k <= getz (q_pending q) k) -> QOK (F_dec_pending r q).
  Proof. intros Nr Hle. destruct (F_dec_pending_Q Hle) as ((W1 & W2) & A & P & N1 & N2). pose proof Q as [? ? ? Bp ? ?].
    constructor; auto. intros k. rewrite P. specialize (Bp k). specialize (Hle k). pose proof (rnonneg_fnonneg _ Nr k). unfold bnd in *. lia. Qed.
  Lemma F_inc_QOK : (forall k, 0 <= getz (q_alloc q) k + getz r k) -> (forall k, bnd (getz (q_alloc q) k + getz r k)) -> QOK (F_inc r q).
  Proof. intros Hnn Hb. destruct (F_inc_Q Hnn) as ((W1 & W2) & A & P & N1 & N2). pose proof Q as [? ? ? ? ? ?].
    constructor; auto. intros k. rewrite A. apply Hb. Qed.
  Lemma F_inc_pending_QOK : (forall k, 0 <= getz (q_pending q) k + getz r k) -> (forall k, bnd (getz (q_pending q) k + getz r k)) -> QOK (F_inc_pending r q).
  Proof. intros Hnn Hb. destruct (F_inc_pending_Q Hnn) as ((W1 & W2) & A & P & N1 & N2). pose proof Q as [? ? ? ? ? ?].
    constructor; auto. intros k. rewrite P. apply Hb. Qed.
End QueueFnG.

(* two updates of one queue: pending -> allocated, in both orders (allocateAsk + IncAllocatedResource) *)
Lemma F_inc_dec_pending_Q q r : QOK q -> wf r -> rb r -> rnonneg r -> (forall k, getz r k <= getz (q_pending q) k) ->
  QFacts q (F_inc r (F_dec_pending r q)) (getz r) (fun k => - getz r k).
Proof. intros Q Wr Br Nr Hle.
  apply (QFacts_ext q _ (fun k => zero3 k + getz r k) (fun k => - getz r k + zero3 k)); try (intros k; unfold zero3; lia).
  apply (QFacts_trans q (F_dec_pending r q)); [apply F_dec_pending_Q; assumption|].
  apply F_inc_Q_nn; auto. apply F_dec_pending_QOK; assumption. Qed.
Lemma F_dec_pending_inc_Q q r : QOK q -> wf r -> rb r -> rnonneg r -> (forall k, getz r k <= getz (q_pending q) k) ->
  QFacts q (F_dec_pending r (F_inc r q)) (getz r) (fun k => - getz r k).
Proof. intros Q Wr Br Nr Hle. pose proof Q as [Wa Wp Ba Bp Na Np].
  destruct (F_inc_Q_nn q r Q Wr Br Nr) as ((I1 & I2) & I3 & I4 & I5 & I6).
  destruct (F_dec_pending_facts (F_inc r q) r I1 I2 Wr Bp Br I5 Hle) as ((D1 & D2) & D3 & D4 & D5 & D6).
  split; [split; assumption|]. split; [|split; [|split; assumption]].
  - intros k. rewrite D3, I3. unfold zero3. lia.
  - intros k. rewrite D4. reflexivity. Qed.
