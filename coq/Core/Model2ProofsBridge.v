(* The C01 step hypothesis [update_listed] (Core/Model2ProofsN.v: the allocated ask that is updated in place is listed
   by its node with the same resource) follows from the C03 invariants [Inv], [Books0] and the C03 step hypothesis
   [UpdOK] (the ask is backed by the allocation record the application lists): node and application share the record. *)
From Coq Require Import List ZArith NArith Bool.
From YK Require Import Base.Res Core.Obs Core.Model Core.Model2 Core.Ledger
  Core.BooksLemmas Core.BooksDefs Core.BooksState Core.BooksOps3 Core.Model2ProofsB3.
From YK Require Core.Model2ProofsN.
Import ListNotations.

Theorem update_listed_of_books s st : Inv s -> Books0 s ->
  (forall r, st_op st = OpAlloc r -> UpdOK s r) -> Model2ProofsN.update_listed s st.
Proof. intros HI HB HU. unfold Model2ProofsN.update_listed. destruct (st_op st) eqn:Eop; try exact I.
  intros Hu a x n Ee En. specialize (HU r eq_refl). unfold Model2ProofsN.existing_ask in Ee.
  destruct (find_app s (rq_app r)) as [a0|] eqn:Ea; [|discriminate].
  destruct (find_alloc (ap_requests a0) (rq_key r)) as [x0|] eqn:Ex; [|discriminate]. inversion Ee; subst a0 x0.
  destruct (Model2ProofsN.upd_allocated_true s r Hu) as (_ & a' & x' & Ee' & Hal).
  unfold Model2ProofsN.existing_ask in Ee'. rewrite Ea, Ex in Ee'. inversion Ee'; subst a' x'.
  destruct (HU a x Ea Ex) as [Hback _]. destruct (find_app_some s _ a Ea) as [Ha _]. destruct (find_alloc_some _ _ _ Ex) as [_ Ek].
  destruct (alloc_on_its_node s a x n HI HB Ha (Hback Hal) En) as (_ & _ & Hf). exists x. rewrite <- Ek. auto. Qed.
