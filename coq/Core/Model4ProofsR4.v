(* C09 over the operational model, part 4: neutral steps compose; the ledger writers of Core/Model.v / Model2.v (application
   record replaced, node record replaced, queue ledgers, counters) are neutral for the reservation invariant as long as
   they keep the outstanding asks of reserved keys; dropping / adding an application or a node without reservations. *)
From Coq Require Import List ZArith NArith Bool Lia ZifyBool ZifyN.
From YK Require Import Base.Int64 Base.Res Core.Obs Core.Model Core.Model2 Core.Ledger Core.Model4 Core.NodeProofs Core.StepProofs
  Core.Model4ProofsF Core.Model4ProofsR1 Core.Model4ProofsR2 Core.Model4ProofsR3.
Import ListNotations.
Open Scope N_scope.
Set Default Timeout 30.

Definition NF (e e' : option (N * N)) (s s' : ostate) : Prop := exists fa fn fq, NFrame e e' s s' fa fn fq.
Theorem NF_rinv e e' s s' : NF e e' s s' -> RInvE e s -> RInvE e' s'.
Proof. intros (fa & fn & fq & H). eapply NFrame_rinv; exact H. Qed.

Lemma NF_refl e s : NF e e s s.
Proof. exists (fun a => a), (fun n => n), (fun q => q). constructor; auto; symmetry; apply map_id. Qed.

Theorem NF_trans e1 e2 e3 s1 s2 s3 : NF e1 e2 s1 s2 -> NF e2 e3 s2 s3 -> NF e1 e3 s1 s3.
Proof. intros (fa & fn & fq & [A1 A2 A3 A4 A5 A6 A7 A8 A9 A10 A11 A12 A13]) (ga & gn & gq & [B1 B2 B3 B4 B5 B6 B7 B8 B9 B10 B11 B12 B13]).
  assert (IA : forall a, In a (s_apps s1) -> In (fa a) (s_apps s2)) by (intros a Ha; rewrite A1; apply in_map; exact Ha).
  assert (IN : forall n, In n (s_nodes s1) -> In (fn n) (s_nodes s2)) by (intros n Hn; rewrite A2; apply in_map; exact Hn).
  assert (IQ : forall q, In q (s_queues s1) -> In (fq q) (s_queues s2)) by (intros q Hq; rewrite A3; apply in_map; exact Hq).
  exists (fun a => ga (fa a)), (fun n => gn (fn n)), (fun q => gq (fq q)). constructor.
  - rewrite B1, A1. apply map_map. - rewrite B2, A2. apply map_map. - rewrite B3, A3. apply map_map.
  - intros a Ha. rewrite (B4 _ (IA a Ha)). auto. - intros a Ha. rewrite (B5 _ (IA a Ha)). auto. - intros a Ha. rewrite (B6 _ (IA a Ha)). auto.
  - intros n Hn. rewrite (B7 _ (IN n Hn)). auto. - intros n Hn. rewrite (B8 _ (IN n Hn)). auto.
  - intros q Hq. rewrite (B9 _ (IQ q Hq)). auto. - intros q Hq. rewrite (B10 _ (IQ q Hq)). auto.
  - intros a nid k Ha Hr Hne Ho. apply (B11 (fa a) nid k (IA a Ha)); [rewrite (A6 a Ha); exact Hr|rewrite (A4 a Ha); exact Hne|].
    apply (A11 a nid k Ha Hr); [|exact Ho]. intros C. apply Hne. apply B12. exact C.
  - intros a k C. apply B12, A12. exact C.
  - intros p Hp (a & nid & Ha & Eid & Hr). apply B13; [apply A13; [exact Hp|eauto]|].
    exists (fa a), nid. rewrite (A4 a Ha), (A6 a Ha). auto. Qed.

(* ------------------------------------------------------------------ primitive neutral writers *)
Definition QKeep (g : oqueue -> oqueue) : Prop := forall q, q_id (g q) = q_id q /\ q_reserved (g q) = q_reserved q.

Lemma NF_same e s s' : s_apps s' = s_apps s -> s_nodes s' = s_nodes s -> s_queues s' = s_queues s -> NF e e s s'.
Proof. intros Ea En Eq. exists (fun a => a), (fun n => n), (fun q => q). constructor; auto; rewrite ?Ea, ?En, ?Eq; try (symmetry; apply map_id).
  intros p (a & x & Ha & R) _. exists a, x. rewrite Ea. auto. Qed.
Lemma NF_queues e s s' g : s_apps s' = s_apps s -> s_nodes s' = s_nodes s -> s_queues s' = map g (s_queues s) -> QKeep g -> NF e e s s'.
Proof. intros Ea En Eq G. exists (fun a => a), (fun n => n), g. constructor; auto; rewrite ?Ea, ?En; try (symmetry; apply map_id); try (intros q _; apply G).
  intros p (a & x & Ha & R) _. exists a, x. rewrite Ea. auto. Qed.
Lemma NF_upd_node e s id g : (forall m, In m (s_nodes s) -> on_id m = id -> on_id (g m) = on_id m /\ on_reservations (g m) = on_reservations m) ->
  NF e e s (upd_node s id g).
Proof. intros Hg. exists (fun a => a), (fun m => if on_id m =? id then g m else m), (fun q => q).
  constructor; auto; try (symmetry; apply map_id); try reflexivity.
  - intros m Hm. destruct (N.eqb_spec (on_id m) id) as [E|E]; [apply (Hg m Hm E)|reflexivity].
  - intros m Hm. destruct (N.eqb_spec (on_id m) id) as [E|E]; [apply (Hg m Hm E)|reflexivity]. Qed.

(* an application record is replaced: identity, queue, reservations kept; outstanding asks of reserved keys (other than the
   exempted one) kept; required-node asks of reserved keys kept *)
Definition app_keeps (e' : option (N * N)) (b b' : oapp) : Prop :=
  ap_id b' = ap_id b /\ ap_queue b' = ap_queue b /\ ap_reservations b' = ap_reservations b /\
  (forall nid k, In (nid, k) (ap_reservations b) -> ~ exempt e' (ap_id b) k -> outstanding_at b nid k -> outstanding_at b' nid k) /\
  (forall x nid, In x (ap_requests b) -> oa_reqnode x <> 0 -> In (nid, oa_key x) (ap_reservations b) ->
     exists x', In x' (ap_requests b') /\ oa_key x' = oa_key x /\ oa_reqnode x' <> 0).
Lemma NF_upd_app e e' s id g : Ids s -> (forall b, In b (s_apps s) -> ap_id b = id -> app_keeps e' b (g b)) -> (forall a k, exempt e a k -> exempt e' a k) ->
  NF e e' s (upd_app s id g).
Proof. intros HI Hg Hex. exists (fun b => if ap_id b =? id then g b else b), (fun n => n), (fun q => q).
  constructor; auto; try (symmetry; apply map_id); try reflexivity.
  - intros b Hb. destruct (N.eqb_spec (ap_id b) id) as [E|E]; [apply (Hg b Hb E)|reflexivity].
  - intros b Hb. destruct (N.eqb_spec (ap_id b) id) as [E|E]; [apply (Hg b Hb E)|reflexivity].
  - intros b Hb. destruct (N.eqb_spec (ap_id b) id) as [E|E]; [apply (Hg b Hb E)|reflexivity].
  - intros b nid k Hb Hr Hne Ho. destruct (N.eqb_spec (ap_id b) id) as [E|E]; [|exact Ho]. destruct (Hg b Hb E) as (_ & _ & _ & K & _). apply K; assumption.
  - intros p (b & x & Hb & E1 & Hx & E2 & E3) (b0 & nid & Hb0 & E4 & Hr).
    assert (b0 = b) by (apply (nodup_key_eq ap_id (s_apps s)); auto; [apply (id_apps s HI)|congruence]). subst b0.
    destruct (N.eqb_spec (ap_id b) id) as [E|E].
    + destruct (Hg b Hb E) as (G1 & _ & _ & _ & K). rewrite <- E2 in Hr. destruct (K x nid Hx E3 Hr) as (x' & Hx' & Ek & Er).
      exists (g b), x'. cbn [upd_app s_apps]. split; [apply in_map_iff; exists b; apply N.eqb_eq in E; rewrite E; auto|]. rewrite G1. split; [exact E1|]. split; [exact Hx'|]. split; congruence.
    + exists b, x. cbn [upd_app s_apps]. split; [apply in_map_iff; exists b; apply N.eqb_neq in E; rewrite E; auto|auto]. Qed.

(* a record with the same identity, queue, reservations and requests *)
Lemma app_keeps_same_requests e' b b' : ap_id b' = ap_id b -> ap_queue b' = ap_queue b -> ap_reservations b' = ap_reservations b ->
  ap_requests b' = ap_requests b -> app_keeps e' b b'.
Proof. intros E1 E2 E3 E4. unfold app_keeps, outstanding_at. rewrite E4. repeat (split; [assumption|]). split; [auto|]. intros x nid Hx Hr _. exists x. auto. Qed.
(* requests lose only allocated asks or asks with an exempted / unreserved key *)
Lemma app_keeps_sub e' b b' : ap_id b' = ap_id b -> ap_queue b' = ap_queue b -> ap_reservations b' = ap_reservations b ->
  (forall x, In x (ap_requests b) -> (exists nid, In (nid, oa_key x) (ap_reservations b)) -> ~ exempt e' (ap_id b) (oa_key x) ->
     exists x', In x' (ap_requests b') /\ oa_key x' = oa_key x /\ oa_allocated x' = oa_allocated x /\ oa_reqnode x' = oa_reqnode x) ->
  (forall x nid, In x (ap_requests b) -> oa_reqnode x <> 0 -> In (nid, oa_key x) (ap_reservations b) ->
     exists x', In x' (ap_requests b') /\ oa_key x' = oa_key x /\ oa_reqnode x' <> 0) ->
  app_keeps e' b b'.
Proof. intros E1 E2 E3 K R. unfold app_keeps. repeat (split; [assumption|]). split; [|exact R].
  intros nid k Hr Hne (x & Hx & Ek & Ea & Eq). subst k. destruct (K x Hx (ex_intro _ nid Hr) Hne) as (x' & Hx' & F1 & F2 & F3).
  exists x'. rewrite F2, F3. auto. Qed.

(* ------------------------------------------------------------------ dropping an application / a node without reservations *)
Lemma drop_app_rinv s s' id : Ids0 s -> RInv s -> s_apps s' = filter (fun b => negb (ap_id b =? id)) (s_apps s) -> s_nodes s' = s_nodes s -> s_queues s' = s_queues s ->
  (forall a, In a (s_apps s) -> ap_id a = id -> ap_reservations a = []) -> RInv s'.
Proof. intros HI [H1 H2 H3 H4 H5 H6 H7 H8 H9] Ea En Eq Hnil.
  assert (IA : forall b, In b (s_apps s') <-> In b (s_apps s) /\ ap_id b <> id).
  { intros b. rewrite Ea, filter_In, negb_true_iff, N.eqb_neq. tauto. }
  assert (Keep : forall b nk, In b (s_apps s) -> In nk (ap_reservations b) -> In b (s_apps s')).
  { intros b nk Hb Hr. apply IA. split; [exact Hb|]. intros C. rewrite (Hnil b Hb C) in Hr. contradiction. }
  constructor; rewrite ?En, ?Eq.
  - intros a nid k Ha Hr. apply IA in Ha. apply (H1 a nid k (proj1 Ha) Hr).
  - intros n aid k Hn Hr. destruct (H2 n aid k Hn Hr) as (a & Ha & E1 & Hin). exists a. split; [eapply Keep; eassumption|auto].
  - intros a Ha. apply IA in Ha. apply H3, Ha.
  - exact H4.
  - intros a nid k Ha Hr Hne. apply IA in Ha. apply (H5 a nid k (proj1 Ha) Hr Hne).
  - intros a q Ha Hq E. apply IA in Ha. apply (H6 a q (proj1 Ha) Hq E).
  - intros q en Hq Hen. destruct (H7 q en Hq Hen) as (Hp & a & Ha & E1 & E2). split; [exact Hp|]. exists a. split; [|auto].
    apply IA. split; [exact Ha|]. intros C.
    (* the dropped application has no reservation, so its counter on its queue is 0; but the entry is positive *)
    pose proof (H6 a q Ha Hq (eq_sym E2)) as Hc. rewrite (Hnil a Ha C) in Hc. cbn [length] in Hc.
    assert (Hq2 : qcount (q_reserved q) (ap_id a) = snd en).
    { unfold qcount. rewrite E1. rewrite (find_in_nodup fst (q_reserved q) en (H8 q Hq) Hen). reflexivity. }
    lia.
  - exact H8.
  - intros n p1 p2 Hn Hp1 Hp2 Hne. destruct (H9 n p1 p2 Hn Hp1 Hp2 Hne) as (a & x & Ha & E1 & R). exists a, x. split; [|auto].
    destruct p1 as [aid k]. destruct (H2 n aid k Hn Hp1) as (b & Hb & E2 & Hin).
    assert (b = a) by (apply (nodup_key_eq ap_id (s_apps s)); auto; [apply (id0_apps s HI)|cbn [fst] in E1; congruence]). subst b. eapply Keep; eassumption. Qed.

Lemma drop_node_rinv s s' id : RInv s -> s_apps s' = s_apps s -> s_nodes s' = filter (fun m => negb (on_id m =? id)) (s_nodes s) -> s_queues s' = s_queues s ->
  (forall n, In n (s_nodes s) -> on_id n = id -> on_reservations n = []) -> RInv s'.
Proof. intros [H1 H2 H3 H4 H5 H6 H7 H8 H9] Ea En Eq Hnil.
  assert (IN : forall m, In m (s_nodes s') <-> In m (s_nodes s) /\ on_id m <> id).
  { intros m. rewrite En, filter_In, negb_true_iff, N.eqb_neq. tauto. }
  unfold required_ask in *. constructor; rewrite ?Ea, ?Eq.
  - intros a nid k Ha Hr. destruct (H1 a nid k Ha Hr) as (n & Hn & E1 & Hin). exists n. split; [|auto]. apply IN. split; [exact Hn|].
    intros C. rewrite (Hnil n Hn C) in Hin. contradiction.
  - intros n aid k Hn Hr. apply IN in Hn. apply (H2 n aid k (proj1 Hn) Hr).
  - exact H3.
  - intros n Hn. apply IN in Hn. apply H4, Hn.
  - exact H5.
  - exact H6.
  - exact H7.
  - exact H8.
  - intros n p1 p2 Hn Hp1 Hp2 Hne. apply IN in Hn. destruct (H9 n p1 p2 (proj1 Hn) Hp1 Hp2 Hne) as (a & x & Ha & R). exists a, x. rewrite Ea. auto. Qed.

Lemma add_app_rinv s s' a0 : RInv s -> s_apps s' = s_apps s ++ [a0] -> s_nodes s' = s_nodes s -> s_queues s' = s_queues s ->
  ap_reservations a0 = [] -> (forall q, In q (s_queues s) -> q_id q = ap_queue a0 -> qcount (q_reserved q) (ap_id a0) = 0) -> RInv s'.
Proof. intros [H1 H2 H3 H4 H5 H6 H7 H8 H9] Ea En Eq Hnil Hq0.
  assert (IA : forall b, In b (s_apps s') <-> In b (s_apps s) \/ b = a0) by (intros b; rewrite Ea, in_app_iff; cbn [In]; intuition).
  unfold required_ask in *. constructor; rewrite ?En, ?Eq.
  - intros a nid k Ha Hr. apply IA in Ha. destruct Ha as [Ha| ->]; [apply (H1 a nid k Ha Hr)|rewrite Hnil in Hr; contradiction].
  - intros n aid k Hn Hr. destruct (H2 n aid k Hn Hr) as (a & Ha & R). exists a. split; [apply IA; auto|auto].
  - intros a Ha. apply IA in Ha. destruct Ha as [Ha| ->]; [auto|rewrite Hnil; constructor].
  - exact H4.
  - intros a nid k Ha Hr Hne. apply IA in Ha. destruct Ha as [Ha| ->]; [apply (H5 a nid k Ha Hr Hne)|rewrite Hnil in Hr; contradiction].
  - intros a q Ha Hq E. apply IA in Ha. destruct Ha as [Ha| ->]; [auto|]. rewrite Hnil. cbn [length]. apply Hq0; assumption.
  - intros q en Hq Hen. destruct (H7 q en Hq Hen) as (Hp & a & Ha & R). split; [exact Hp|]. exists a. split; [apply IA; auto|auto].
  - exact H8.
  - intros n p1 p2 Hn Hp1 Hp2 Hne. destruct (H9 n p1 p2 Hn Hp1 Hp2 Hne) as (a & x & Ha & R). exists a, x. split; [apply IA; auto|auto]. Qed.

Lemma add_node_rinv s s' n0 : RInv s -> s_apps s' = s_apps s -> s_nodes s' = s_nodes s ++ [n0] -> s_queues s' = s_queues s -> on_reservations n0 = [] -> RInv s'.
Proof. intros [H1 H2 H3 H4 H5 H6 H7 H8 H9] Ea En Eq Hnil.
  assert (IN : forall m, In m (s_nodes s') <-> In m (s_nodes s) \/ m = n0) by (intros m; rewrite En, in_app_iff; cbn [In]; intuition).
  unfold required_ask in *. constructor; rewrite ?Ea, ?Eq.
  - intros a nid k Ha Hr. destruct (H1 a nid k Ha Hr) as (n & Hn & R). exists n. split; [apply IN; auto|auto].
  - intros n aid k Hn Hr. apply IN in Hn. destruct Hn as [Hn| ->]; [apply (H2 n aid k Hn Hr)|rewrite Hnil in Hr; contradiction].
  - exact H3.
  - intros n Hn. apply IN in Hn. destruct Hn as [Hn| ->]; [auto|rewrite Hnil; constructor].
  - exact H5.
  - exact H6.
  - exact H7.
  - exact H8.
  - intros n p1 p2 Hn Hp1 Hp2 Hne. apply IN in Hn. destruct Hn as [Hn| ->]; [|rewrite Hnil in Hp1; contradiction].
    destruct (H9 n p1 p2 Hn Hp1 Hp2 Hne) as (a & x & Ha & R). exists a, x. rewrite Ea. auto. Qed.

(* ------------------------------------------------------------------ steps that do not write the reservation views, non-positionally:
   every record that holds reservations survives with the same identity and reservations and keeps the outstanding asks of
   its reserved keys; every record of the new state holds no reservation or comes from such a record *)
Record Neutral (s s' : ostate) : Prop := mkNt {
  nt_app_fw : forall b, In b (s_apps s) -> ap_reservations b <> [] ->
    exists b', In b' (s_apps s') /\ ap_id b' = ap_id b /\ ap_queue b' = ap_queue b /\ ap_reservations b' = ap_reservations b /\
      (forall nid k, In (nid, k) (ap_reservations b) -> outstanding_at b nid k -> outstanding_at b' nid k) /\
      (forall x nid, In x (ap_requests b) -> oa_reqnode x <> 0 -> In (nid, oa_key x) (ap_reservations b) ->
         exists x', In x' (ap_requests b') /\ oa_key x' = oa_key x /\ oa_reqnode x' <> 0);
  nt_app_bw : forall b', In b' (s_apps s') -> ap_reservations b' = [] \/
    exists b, In b (s_apps s) /\ ap_id b = ap_id b' /\ ap_queue b = ap_queue b' /\ ap_reservations b = ap_reservations b';
  nt_node_fw : forall n, In n (s_nodes s) -> on_reservations n <> [] ->
    exists n', In n' (s_nodes s') /\ on_id n' = on_id n /\ on_reservations n' = on_reservations n;
  nt_node_bw : forall n', In n' (s_nodes s') -> on_reservations n' = [] \/
    exists n, In n (s_nodes s) /\ on_id n = on_id n' /\ on_reservations n = on_reservations n';
  nt_q_bw : forall q', In q' (s_queues s') -> exists q, In q (s_queues s) /\ q_id q = q_id q' /\ q_reserved q = q_reserved q' }.

Theorem neutral_rinv s s' : Ids0 s -> Ids0 s' -> Neutral s s' -> RInv s -> RInv s'.
Proof. intros HI HI' [A1 A2 N1 N2 Q2] [H1 H2 H3 H4 H5 H6 H7 H8 H9].
  assert (Ua : forall b1 b2, In b1 (s_apps s') -> In b2 (s_apps s') -> ap_id b1 = ap_id b2 -> b1 = b2)
    by (intros b1 b2 Hb1 Hb2 E; apply (nodup_key_eq ap_id (s_apps s')); auto; apply (id0_apps s' HI')).
  assert (Ua0 : forall b1 b2, In b1 (s_apps s) -> In b2 (s_apps s) -> ap_id b1 = ap_id b2 -> b1 = b2)
    by (intros b1 b2 Hb1 Hb2 E; apply (nodup_key_eq ap_id (s_apps s)); auto; apply (id0_apps s HI)).
  assert (Un : forall n1 n2, In n1 (s_nodes s') -> In n2 (s_nodes s') -> on_id n1 = on_id n2 -> n1 = n2)
    by (intros n1 n2 Hn1 Hn2 E; apply (nodup_key_eq on_id (s_nodes s')); auto; apply (id0_nodes s' HI')).
  (* a record of s' with reservations and its origin *)
  assert (OA : forall b' p, In b' (s_apps s') -> In p (ap_reservations b') ->
            exists b, In b (s_apps s) /\ ap_id b = ap_id b' /\ ap_queue b = ap_queue b' /\ ap_reservations b = ap_reservations b').
  { intros b' p Hb' Hp. destruct (A2 b' Hb') as [E|R]; [rewrite E in Hp; contradiction|exact R]. }
  assert (ON : forall n' p, In n' (s_nodes s') -> In p (on_reservations n') ->
            exists n, In n (s_nodes s) /\ on_id n = on_id n' /\ on_reservations n = on_reservations n').
  { intros n' p Hn' Hp. destruct (N2 n' Hn') as [E|R]; [rewrite E in Hp; contradiction|exact R]. }
  assert (FA : forall b p, In b (s_apps s) -> In p (ap_reservations b) -> exists b', In b' (s_apps s') /\ ap_id b' = ap_id b /\ ap_queue b' = ap_queue b /\ ap_reservations b' = ap_reservations b /\
            (forall nid k, In (nid, k) (ap_reservations b) -> outstanding_at b nid k -> outstanding_at b' nid k) /\
            (forall x nid, In x (ap_requests b) -> oa_reqnode x <> 0 -> In (nid, oa_key x) (ap_reservations b) ->
               exists x', In x' (ap_requests b') /\ oa_key x' = oa_key x /\ oa_reqnode x' <> 0)).
  { intros b p Hb Hp. apply (A1 b Hb). intros C. rewrite C in Hp. contradiction. }
  assert (FN : forall n p, In n (s_nodes s) -> In p (on_reservations n) -> exists n', In n' (s_nodes s') /\ on_id n' = on_id n /\ on_reservations n' = on_reservations n).
  { intros n p Hn Hp. apply (N1 n Hn). intros C. rewrite C in Hp. contradiction. }
  constructor.
  - intros b' nid k Hb' Hr. destruct (OA b' _ Hb' Hr) as (b & Hb & E1 & E2 & E3). rewrite <- E3 in Hr. destruct (H1 b nid k Hb Hr) as (n & Hn & En & Hin).
    destruct (FN n _ Hn Hin) as (n' & Hn' & F1 & F2). exists n'. rewrite F1, F2, <- E1. auto.
  - intros n' aid k Hn' Hr. destruct (ON n' _ Hn' Hr) as (n & Hn & E1 & E2). rewrite <- E2 in Hr. destruct (H2 n aid k Hn Hr) as (b & Hb & Eb & Hin).
    destruct (FA b _ Hb Hin) as (b' & Hb' & F1 & F2 & F3 & _). exists b'. rewrite F1, F3, <- E1. auto.
  - intros b' Hb'. destruct (A2 b' Hb') as [E|(b & Hb & _ & _ & E)]; [rewrite E; constructor|rewrite <- E; auto].
  - intros n' Hn'. destruct (N2 n' Hn') as [E|(n & Hn & _ & E)]; [rewrite E; constructor|rewrite <- E; auto].
  - intros b' nid k Hb' Hr _. destruct (OA b' _ Hb' Hr) as (b & Hb & E1 & E2 & E3). rewrite <- E3 in Hr.
    destruct (FA b _ Hb Hr) as (b'' & Hb'' & F1 & F2 & F3 & F4 & _). assert (b'' = b') by (apply Ua; auto; congruence). subst b''.
    apply (F4 nid k Hr). apply (H5 b nid k Hb Hr (exempt_none _ _)).
  - intros b' q' Hb' Hq' Eid. destruct (Q2 q' Hq') as (q & Hq & G1 & G2). rewrite <- G2.
    destruct (A2 b' Hb') as [E|(b & Hb & E1 & E2 & E3)].
    + rewrite E. cbn [length]. unfold qcount. destruct (find (fun x => fst x =? ap_id b') (q_reserved q)) as [en|] eqn:Ef; [|reflexivity]. exfalso.
      apply find_some in Ef. destruct Ef as [Hen Een]. apply N.eqb_eq in Een. destruct (H7 q en Hq Hen) as (Hp & b0 & Hb0 & F1 & F2).
      pose proof (H6 b0 q Hb0 Hq (eq_sym F2)) as Hc.
      assert (Hq2 : qcount (q_reserved q) (ap_id b0) = snd en) by (unfold qcount; rewrite F1, (find_in_nodup fst (q_reserved q) en (H8 q Hq) Hen); reflexivity).
      destruct (ap_reservations b0) as [|p0 t0] eqn:Er; [cbn [length] in Hc; lia|].
      destruct (FA b0 p0 Hb0) as (b0' & Hb0' & K1 & _ & K3 & _); [rewrite Er; left; reflexivity|].
      assert (b0' = b') by (apply Ua; auto; congruence). subst b0'. rewrite E, Er in K3. discriminate.
    + rewrite <- E1, <- E3. apply (H6 b q Hb Hq). congruence.
  - intros q' en Hq' Hen. destruct (Q2 q' Hq') as (q & Hq & G1 & G2). rewrite <- G2 in Hen. destruct (H7 q en Hq Hen) as (Hp & b0 & Hb0 & F1 & F2).
    split; [exact Hp|]. pose proof (H6 b0 q Hb0 Hq (eq_sym F2)) as Hc.
    assert (Hq2 : qcount (q_reserved q) (ap_id b0) = snd en) by (unfold qcount; rewrite F1, (find_in_nodup fst (q_reserved q) en (H8 q Hq) Hen); reflexivity).
    destruct (ap_reservations b0) as [|p0 t0] eqn:Er; [cbn [length] in Hc; lia|].
    destruct (FA b0 p0 Hb0) as (b0' & Hb0' & K1 & K2 & _); [rewrite Er; left; reflexivity|]. exists b0'. rewrite K1, K2, <- G1. auto.
  - intros q' Hq'. destruct (Q2 q' Hq') as (q & Hq & G1 & G2). rewrite <- G2. auto.
  - intros n' p1 p2 Hn' Hp1 Hp2 Hne. destruct (ON n' _ Hn' Hp1) as (n & Hn & E1 & E2). rewrite <- E2 in Hp1, Hp2.
    destruct (H9 n p1 p2 Hn Hp1 Hp2 Hne) as (b & x & Hb & F1 & Hx & F2 & F3). destruct p1 as [aid k]. cbn [fst snd] in F1, F2.
    destruct (H2 n aid k Hn Hp1) as (b0 & Hb0 & G1 & Hin). assert (b0 = b) by (apply Ua0; auto; congruence). subst b0.
    destruct (FA b _ Hb Hin) as (b' & Hb' & K1 & _ & _ & _ & K5). rewrite <- F2 in Hin. destruct (K5 x (on_id n) Hx F3 Hin) as (x' & Hx' & L1 & L2).
    exists b', x'. cbn [fst snd]. split; [exact Hb'|]. split; [congruence|]. split; [exact Hx'|]. split; congruence. Qed.
