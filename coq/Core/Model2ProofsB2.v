(* C03 over the second fragment, part 2: UpdateAllocation for a key the application already holds
   (Core/Model2.v [m_update_existing]): the resource of a pending ask changes in place (pending of the application
   and of every ancestor queue moves by new - old); the resource of a bound allocation changes in place
   (allocated of application, queues, node, and the record both maps and the node share).  Application records. *)
From Coq Require Import List ZArith NArith Bool Lia ZifyBool.
From YK Require Import Base.Int64 Base.Res Base.ResSpec Base.ResLemmas Base.ResLaws Base.ResLaws2 Base.ResLawsPred
  Core.Obs Core.Model Core.Model2 Core.Ledger
  Core.BooksLemmas Core.BooksDefs Core.BooksTree Core.BooksQueue Core.BooksApp Core.BooksState Core.BooksDrain Core.BooksStep
  Core.BooksOps Core.BooksOps2 Core.BooksOps3 Core.BooksOps4 Core.Model2ProofsB1.
Import ListNotations.
Open Scope Z_scope.
Set Default Timeout 30.

(* ------------------------------------------------------------------ changing the resource stored under a key *)
Definition img (key : N) (nr : res) (y : oalloc) : oalloc := if (oa_key y =? key)%N then oa_with_res y nr else y.
Definition set_res (key : N) (nr : res) (l : list oalloc) : list oalloc := map (img key nr) l.
Lemma set_res_updk key nr l : set_res key nr l = updk oa_key l key (fun y => oa_with_res y nr).
Proof. reflexivity. Qed.

Lemma img_key key nr y : oa_key (img key nr y) = oa_key y. Proof. unfold img. destruct (_ =? _)%N; reflexivity. Qed.
Lemma img_allocated key nr y : oa_allocated (img key nr y) = oa_allocated y. Proof. unfold img. destruct (_ =? _)%N; reflexivity. Qed.
Lemma img_ph key nr y : oa_ph (img key nr y) = oa_ph y. Proof. unfold img. destruct (_ =? _)%N; reflexivity. Qed.
Lemma img_node key nr y : oa_node (img key nr y) = oa_node y. Proof. unfold img. destruct (_ =? _)%N; reflexivity. Qed.
Lemma img_app key nr y : oa_app (img key nr y) = oa_app y. Proof. unfold img. destruct (_ =? _)%N; reflexivity. Qed.
Lemma img_release key nr y : oa_release (img key nr y) = oa_release y. Proof. unfold img. destruct (_ =? _)%N; reflexivity. Qed.
Lemma img_other key nr y : oa_key y <> key -> img key nr y = y.
Proof. intros H. unfold img. destruct (N.eqb_spec (oa_key y) key); [contradiction|reflexivity]. Qed.
Lemma img_ok id key nr y : wf nr -> rnonneg nr -> AllocOK id y -> AllocOK id (img key nr y).
Proof. intros Wn Nn [H1 H2 H3 H4 H5]. unfold img. destruct (_ =? _)%N; constructor; assumption. Qed.

Lemma in_set_res key nr l y' : In y' (set_res key nr l) <-> exists y, In y l /\ y' = img key nr y.
Proof. unfold set_res. rewrite in_map_iff. split; intros (y & H1 & H2); exists y; auto. Qed.
Lemma akeys_set_res key nr l : akeys (set_res key nr l) = akeys l.
Proof. unfold akeys, set_res. rewrite map_map. apply map_ext. intros y. apply img_key. Qed.
Lemma set_res_fresh key nr l : ~ In key (akeys l) -> set_res key nr l = l.
Proof. intros H. rewrite set_res_updk. apply updk_fresh. exact H. Qed.
Lemma asum_set_res key nr l x k : NoDup (akeys l) -> In x l -> oa_key x = key ->
  asum (set_res key nr l) k = asum l k + (getz nr k - getz (oa_res x) k).
Proof. intros Hnd Hx Ek. unfold asum. rewrite set_res_updk.
  rewrite (sumz_updk oa_key oa_res l key (fun y => oa_with_res y nr) x k Hnd Hx Ek). reflexivity. Qed.
Lemma filter_set_res (P : oalloc -> bool) key nr l : (forall y, P (img key nr y) = P y) ->
  filter P (set_res key nr l) = set_res key nr (filter P l).
Proof. intros H. unfold set_res. apply filter_map_comm. exact H. Qed.
Lemma length_set_res key nr l : length (set_res key nr l) = length l.
Proof. apply map_length. Qed.

(* ------------------------------------------------------------------ the delta of an update *)
Definition delta_of (nr : res) (x : oalloc) : res := Prune (Sub (Some nr) (Some (oa_res x))).

Section Delta.
  Variables (a : oapp) (x : oalloc) (nr : res).
  Hypothesis W : AppWF a.
  Hypothesis B : AppBooks a.
  Hypothesis Bd : AppBounded a.
  Hypothesis Hx : In x (ap_requests a).
  Hypothesis Wn : wf nr.
  Hypothesis Bn : rb nr.
  Hypothesis Nn : rnonneg nr.
  Let Xok := aw_req a W x Hx.
  Let Xb := abd_req a Bd x Hx.
  Let delta := delta_of nr x.

  Lemma delta_getz k : getz delta k = getz nr k - getz (oa_res x) k.
  Proof. apply PruneSub_exact; [exact Wn|apply (ao_wf _ x Xok)|exact Bn|exact Xb]. Qed.
  Lemma delta_wf : wf delta. Proof. apply Prune_wf, Sub_wf. exact Wn. Qed.
  Lemma delta_rb : rb delta.
  Proof. intros k. rewrite delta_getz. pose proof (Bn k). pose proof (Xb k). pose proof (rnonneg_fnonneg _ Nn k).
    pose proof (rnonneg_fnonneg _ (ao_nn _ x Xok) k). bn. Qed.

  (* ---- a pending ask changes size ---- *)
  Definition upd_pending_app : oapp :=
    ap_with a (ap_state a) (Prune (Add (Some (ap_pending a)) (Some delta))) (ap_allocated a) (ap_phalloc a)
            (set_res (oa_key x) nr (ap_requests a)) (ap_allocs a) (ap_statelog a).

  Lemma upd_wf_common reqs allocs' pend alloc' :
    reqs = set_res (oa_key x) nr (ap_requests a) -> (allocs' = ap_allocs a \/ allocs' = set_res (oa_key x) nr (ap_allocs a)) ->
    wf pend -> wf alloc' ->
    AppWF (ap_with a (ap_state a) pend alloc' (ap_phalloc a) reqs allocs' (ap_statelog a)).
  Proof. intros -> Hal Wp Wa. destruct W as [W1 W2 W3 W4 W5 W6 W7]. constructor; cbn [ap_with ap_requests ap_allocs ap_id ap_pending ap_allocated]; auto.
    - rewrite akeys_set_res. assumption.
    - destruct Hal as [->| ->]; [|rewrite akeys_set_res]; assumption.
    - intros y Hy. apply in_set_res in Hy. destruct Hy as (y0 & Hy0 & ->). apply img_ok; auto.
    - destruct Hal as [->| ->]; [assumption|]. intros y Hy. apply in_set_res in Hy. destruct Hy as (y0 & Hy0 & ->). apply img_ok; auto.
    - intros y Hy.
      assert (Hy0 : exists y0, In y0 (ap_allocs a) /\ oa_key y = oa_key y0).
      { destruct Hal as [->| ->]; [exists y; auto|]. apply in_set_res in Hy. destruct Hy as (y0 & Hy0 & ->). exists y0. split; [assumption|apply img_key]. }
      destruct Hy0 as (y0 & Hy0 & Ek). destruct (W5 y0 Hy0) as (r & Hr & E & Hal'). exists (img (oa_key x) nr r).
      split; [apply in_set_res; exists r; auto|]. rewrite img_key, img_allocated. split; [congruence|assumption]. Qed.

  Section Pending.
    Hypothesis Xna : oa_allocated x = false.

    Lemma upd_pending_pending k : getz (ap_pending upd_pending_app) k = getz (ap_pending a) k + getz delta k.
    Proof. cbn [upd_pending_app ap_with ap_pending]. apply PruneAdd_exact; [apply (aw_pending a W)|apply delta_wf|apply (abd_pending a Bd)|apply delta_rb]. Qed.

    Lemma upd_pending_books : AppBooks upd_pending_app.
    Proof. pose proof (ask_le_pending a x W B Hx Xna) as Hle. destruct B as [B1 B2 B3 B4 B5 B6]. constructor; auto.
      - intros k. rewrite upd_pending_pending, delta_getz. unfold pending_asks. cbn [upd_pending_app ap_with ap_requests].
        rewrite filter_set_res by (intros y; rewrite img_allocated; reflexivity).
        rewrite (asum_set_res _ nr _ x k); [rewrite (B3 k); unfold pending_asks; lia| | |reflexivity].
        + apply akeys_filter_nodup, (aw_req_keys a W).
        + apply filter_In. split; [assumption|]. rewrite Xna. reflexivity.
      - apply fnonneg_rnonneg.
        + cbn [upd_pending_app ap_with ap_pending]. apply Prune_wf, Add_wf. apply (aw_pending a W).
        + intros k. rewrite upd_pending_pending, delta_getz. specialize (Hle k). pose proof (rnonneg_fnonneg _ Nn k). lia. Qed.

    Lemma upd_pending_wf : AppWF upd_pending_app.
    Proof. apply upd_wf_common; auto; [apply Prune_wf, Add_wf, (aw_pending a W)|apply (aw_allocated a W)]. Qed.
  End Pending.

  (* ---- a bound allocation changes size ---- *)
  Definition upd_alloc_app : oapp :=
    ap_with a (ap_state a) (ap_pending a) (Prune (Add (Some (ap_allocated a)) (Some delta))) (ap_phalloc a)
            (set_res (oa_key x) nr (ap_requests a)) (set_res (oa_key x) nr (ap_allocs a)) (ap_statelog a).

  Section Allocated.
    Hypothesis Xal : oa_allocated x = true.
    Hypothesis Xph : oa_ph x = false.
    Hypothesis Hxa : In x (ap_allocs a).

    Lemma upd_alloc_allocated k : getz (ap_allocated upd_alloc_app) k = getz (ap_allocated a) k + getz delta k.
    Proof. cbn [upd_alloc_app ap_with ap_allocated]. apply PruneAdd_exact; [apply (aw_allocated a W)|apply delta_wf|apply (abd_allocated a Bd)|apply delta_rb]. Qed.

    Lemma key_only_x (P : oalloc -> bool) l : NoDup (akeys l) -> In x l -> P x = false -> ~ In (oa_key x) (akeys (filter P l)).
    Proof. intros Hnd Hin HP C. unfold akeys in C. apply in_map_iff in C. destruct C as (y & Ek & Hy). apply filter_In in Hy.
      assert (y = x) by (apply (nodup_key_inj oa_key l); tauto). subst y. destruct Hy. congruence. Qed.

    Lemma upd_alloc_books : AppBooks upd_alloc_app.
    Proof. pose proof (alloc_le_allocated a x W B Hxa Xph) as Hle. destruct B as [B1 B2 B3 B4 B5 B6]. constructor; auto.
      - intros k. rewrite upd_alloc_allocated, delta_getz. unfold real_allocs. cbn [upd_alloc_app ap_with ap_allocs].
        rewrite filter_set_res by (intros y; rewrite img_ph; reflexivity).
        rewrite (asum_set_res _ nr _ x k); [rewrite (B1 k); unfold real_allocs; lia| | |reflexivity].
        + apply akeys_filter_nodup, (aw_alloc_keys a W).
        + apply filter_In. split; [assumption|]. rewrite Xph. reflexivity.
      - intros k. unfold ph_allocs. cbn [upd_alloc_app ap_with ap_allocs ap_phalloc].
        rewrite filter_set_res by (intros y; rewrite img_ph; reflexivity).
        rewrite set_res_fresh; [apply B2|]. apply key_only_x; [apply (aw_alloc_keys a W)|assumption|assumption].
      - intros k. unfold pending_asks. cbn [upd_alloc_app ap_with ap_requests ap_pending].
        rewrite filter_set_res by (intros y; rewrite img_allocated; reflexivity).
        rewrite set_res_fresh; [apply B3|]. apply key_only_x; [apply (aw_req_keys a W)|assumption|]. rewrite Xal. reflexivity.
      - apply fnonneg_rnonneg.
        + cbn [upd_alloc_app ap_with ap_allocated]. apply Prune_wf, Add_wf. apply (aw_allocated a W).
        + intros k. rewrite upd_alloc_allocated, delta_getz. specialize (Hle k). pose proof (rnonneg_fnonneg _ Nn k). lia. Qed.

    Lemma upd_alloc_wf : AppWF upd_alloc_app.
    Proof. apply upd_wf_common; auto; [apply (aw_pending a W)|apply Prune_wf, Add_wf, (aw_allocated a W)]. Qed.
  End Allocated.

  Lemma upd_keys_ok s a' : ap_requests a' = set_res (oa_key x) nr (ap_requests a) -> ReqKeysOK s a a'.
  Proof. intros E r' Hr'. rewrite E in Hr'. apply in_set_res in Hr'. destruct Hr' as (r0 & Hr0 & ->). left. exists r0.
    split; [assumption|]. symmetry. apply img_key. Qed.
End Delta.

(* ------------------------------------------------------------------ queue updates by a signed vector *)
Section QueueSigned.
  Variables (q : oqueue) (r : res).
  Hypothesis Wa : wf (q_alloc q).
  Hypothesis Wp : wf (q_pending q).
  Hypothesis Wr : wf r.
  Hypothesis Ba : rb (q_alloc q).
  Hypothesis Bp : rb (q_pending q).
  Hypothesis Br : rb r.
  Hypothesis Na : rnonneg (q_alloc q).
  Hypothesis Np : rnonneg (q_pending q).

  Lemma F_inc_pending_signed : (forall k, 0 <= getz (q_pending q) k + getz r k) ->
    (wf (q_alloc (F_inc_pending r q)) /\ wf (q_pending (F_inc_pending r q))) /\
    (forall k, getz (q_alloc (F_inc_pending r q)) k = getz (q_alloc q) k + 0) /\
    (forall k, getz (q_pending (F_inc_pending r q)) k = getz (q_pending q) k + getz r k) /\
    (rnonneg (q_alloc (F_inc_pending r q)) /\ rnonneg (q_pending (F_inc_pending r q))).
  Proof. intros Hnn. cbn [F_inc_pending q_with q_alloc q_pending].
    assert (W : wf (Add (Some (q_pending q)) (Some r))) by (apply Add_wf; assumption).
    assert (G : forall k, getz (Add (Some (q_pending q)) (Some r)) k = getz (q_pending q) k + getz r k) by (intros k; apply Add_exact; assumption).
    repeat split; auto; try (intros; lia).
    apply fnonneg_rnonneg; [assumption|]. intros k. rewrite G. apply Hnn. Qed.
  Lemma F_inc_signed : (forall k, 0 <= getz (q_alloc q) k + getz r k) ->
    (wf (q_alloc (F_inc r q)) /\ wf (q_pending (F_inc r q))) /\
    (forall k, getz (q_alloc (F_inc r q)) k = getz (q_alloc q) k + getz r k) /\
    (forall k, getz (q_pending (F_inc r q)) k = getz (q_pending q) k + 0) /\
    (rnonneg (q_alloc (F_inc r q)) /\ rnonneg (q_pending (F_inc r q))).
  Proof. intros Hnn. cbn [F_inc q_with q_alloc q_pending].
    assert (W : wf (Add (Some (q_alloc q)) (Some r))) by (apply Add_wf; assumption).
    assert (G : forall k, getz (Add (Some (q_alloc q)) (Some r)) k = getz (q_alloc q) k + getz r k) by (intros k; apply Add_exact; assumption).
    repeat split; auto; try (intros; lia).
    apply fnonneg_rnonneg; [assumption|]. intros k. rewrite G. apply Hnn. Qed.
End QueueSigned.

Lemma q_inc_pending_queues s leaf r :
  s_queues (q_inc_pending s leaf r) = map (fun q => if memN (q_id q) (path_ids s leaf) then F_inc_pending r q else q) (s_queues s).
Proof. reflexivity. Qed.
Lemma q_inc_queues s leaf r :
  s_queues (q_inc s leaf r) = map (fun q => if memN (q_id q) (path_ids s leaf) then F_inc r q else q) (s_queues s).
Proof. reflexivity. Qed.

(* ================================================================== a pending ask changes size *)
Definition upd_pending_state (s : ostate) (a : oapp) (x : oalloc) (nr : res) : ostate :=
  q_inc_pending (upd_app s (ap_id a) (fun _ => upd_pending_app a x nr)) (ap_queue a) (delta_of nr x).

Section UpdPendingOp.
  Variables (s : ostate) (a : oapp) (x : oalloc) (nr : res).
  Hypothesis HI : Inv s.
  Hypothesis HB : Books0 s.
  Hypothesis HBd : Bounded s.
  Hypothesis Ha : In a (s_apps s).
  Hypothesis Hx : In x (ap_requests a).
  Hypothesis Xna : oa_allocated x = false.
  Hypothesis Wn : wf nr.
  Hypothesis Bn : rb nr.
  Hypothesis Nn : rnonneg nr.

  Theorem upd_pending_step : Inv (upd_pending_state s a x nr) /\ Books (upd_pending_state s a x nr).
  Proof.
    pose proof (inv_app_wf s HI a Ha) as W. pose proof (bk_apps s HB a Ha) as B. pose proof (bd_apps s HBd a Ha) as Bd.
    set (s' := upd_pending_state s a x nr). set (a' := upd_pending_app a x nr). set (d := delta_of nr x).
    pose proof (delta_getz a x nr W Bd Hx Wn Bn) as Gd. pose proof (delta_wf x nr Wn) as Wd.
    pose proof (delta_rb a x nr W Bd Hx Wn Bn Nn) as Bdl. fold d in Gd, Wd, Bdl.
    assert (Eapps : s_apps s' = updk ap_id (s_apps s) (ap_id a) (fun _ => a')) by reflexivity.
    assert (Enodes : s_nodes s' = s_nodes s) by reflexivity.
    assert (Eq : s_queues s' = map (fun q => if memN (q_id q) (path_ids s (ap_queue a)) then F_inc_pending d q else q) (s_queues s)).
    { unfold s', upd_pending_state. rewrite q_inc_pending_queues.
      rewrite (path_ids_ext (upd_app s (ap_id a) _) s (ap_queue a) eq_refl). reflexivity. }
    assert (QF : forall q, In q (s_queues s) -> In (q_id q) (path_ids s (ap_queue a)) ->
      (wf (q_alloc (F_inc_pending d q)) /\ wf (q_pending (F_inc_pending d q))) /\
      (forall k, getz (q_alloc (F_inc_pending d q)) k = getz (q_alloc q) k + 0) /\
      (forall k, getz (q_pending (F_inc_pending d q)) k = getz (q_pending q) k + getz d k) /\
      (rnonneg (q_alloc (F_inc_pending d q)) /\ rnonneg (q_pending (F_inc_pending d q)))).
    { intros q Hq Hin. destruct (inv_q_wf s HI q Hq). destruct (bd_queues s HBd q Hq). pose proof (bk_queues s HB q Hq) as QB.
      apply F_inc_pending_signed; auto; [apply (qb_nn_alloc s q QB)|].
      intros k. rewrite Gd. pose proof (ask_le_pending a x W B Hx Xna k). pose proof (app_pending_dominated s a HI HB Ha q k Hq Hin).
      pose proof (rnonneg_fnonneg _ Nn k). lia. }
    assert (Hsim : apps_sim s s') by (apply (apps_sim_upd s s' a a' HI Ha Eapps); reflexivity).
    apply (native_step s s' a a' (F_inc_pending d) (fun _ => 0) (fun k => getz d k) HI HB Ha Eapps Eq eq_refl);
      try reflexivity.
    - intros q Hq Hin. apply (QF q Hq Hin).
    - intros q Hq Hin. apply (QF q Hq Hin).
    - intros q Hq Hin. apply (QF q Hq Hin).
    - intros q Hq Hin. apply (QF q Hq Hin).
    - apply upd_pending_books; assumption.
    - apply upd_pending_wf; assumption.
    - apply (upd_keys_ok a x nr). reflexivity.
    - intros k. unfold a'. cbn [upd_pending_app ap_with ap_allocated ap_phalloc]. lia.
    - intros k. apply upd_pending_pending; assumption.
    - rewrite Enodes. apply (inv_node_ids s HI).
    - apply (nodes_ok_frame s s' HI).
      + intros b' Hb'. rewrite Eapps in Hb'. apply (in_updk_const ap_id) in Hb'; [|apply (inv_app_ids s HI)|assumption].
        destruct Hb' as [->|[Hb _]]; [exists a|exists b']; (split; [assumption|apply incl_refl]).
      + intros m' Hm'. right. exists m'. rewrite Enodes in Hm'. auto.
    - apply (count_step s s' a a' 0 HI Ha Eapps); [cbn; lia|]. change (s_nallocs s') with (s_nallocs s). lia.
    - apply (member_frame s s' Hsim); [apply nodes_sim_refl; assumption|apply (owned_P_of s HI), (bk_owned s HB)|apply onnode_P_of, (bk_onnode s HB)].
    - apply (member_frame s s' Hsim); [apply nodes_sim_refl; assumption|apply (owned_P_of s HI), (bk_owned s HB)|apply onnode_P_of, (bk_onnode s HB)].
    - intros k. rewrite Enodes. lia.
  Qed.
End UpdPendingOp.
