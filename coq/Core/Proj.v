(* Projection of an observed core state to its accounting, and equality of two such projections.
   Used by C04 ("a rejected item leaves no trace") and C13 ("an invalid item leaves node, queue, application,
   user and reservation accounting exactly as it was").
   Ledger vectors are compared as functions type -> amount (zero entries are invisible), limits exactly
   (missing differs from zero), lists element-wise (the harness sorts them). Lazily created empty user/group
   trackers (no usage, no running application) are dropped. Definitions only. *)
From Coq Require Import List ZArith NArith Bool.
From YK Require Import Base.Res Core.Obs.
Import ListNotations.
Open Scope N_scope.

Fixpoint list_eqb {A} (eq : A -> A -> bool) (a b : list A) : bool :=
  match a, b with
  | [], [] => true
  | x :: t, y :: u => eq x y && list_eqb eq t u
  | _, _ => false
  end.
Definition pairN_eqb (a b : N * N) : bool := (fst a =? fst b) && (snd a =? snd b).

Definition oalloc_eqb (a b : oalloc) : bool :=
  (oa_key a =? oa_key b) && (oa_app a =? oa_app b) && (oa_node a =? oa_node b) && res_eqz (oa_res a) (oa_res b) &&
  Bool.eqb (oa_ph a) (oa_ph b) && (oa_tg a =? oa_tg b) && Bool.eqb (oa_allocated a) (oa_allocated b) &&
  Bool.eqb (oa_released a) (oa_released b) && Bool.eqb (oa_preempted a) (oa_preempted b) && (oa_release a =? oa_release b) &&
  (oa_reqnode a =? oa_reqnode b) && Z.eqb (oa_prio a) (oa_prio b) && Bool.eqb (oa_foreign a) (oa_foreign b).

Definition onode_eqb (a b : onode) : bool :=
  (on_id a =? on_id b) && res_eqz (on_total a) (on_total b) && res_eqz (on_occupied a) (on_occupied b) &&
  res_eqz (on_allocated a) (on_allocated b) && res_eqz (on_available a) (on_available b) && Bool.eqb (on_sched a) (on_sched b) &&
  list_eqb oalloc_eqb (on_allocs a) (on_allocs b) && list_eqb oalloc_eqb (on_foreign a) (on_foreign b) &&
  list_eqb pairN_eqb (on_reservations a) (on_reservations b).

(* application accounting; `with_state` also compares the life-cycle state, the state log and the timers *)
Definition oapp_eqb (with_state : bool) (a b : oapp) : bool :=
  (ap_id a =? ap_id b) && (ap_queue a =? ap_queue b) && (ap_user a =? ap_user b) &&
  res_eqz (ap_pending a) (ap_pending b) && res_eqz (ap_allocated a) (ap_allocated b) && res_eqz (ap_phalloc a) (ap_phalloc b) &&
  list_eqb oalloc_eqb (ap_requests a) (ap_requests b) && list_eqb oalloc_eqb (ap_allocs a) (ap_allocs b) &&
  list_eqb pairN_eqb (ap_reservations a) (ap_reservations b) &&
  list_eqb (fun x y => (fst x =? fst y) && Z.eqb (fst (snd x)) (fst (snd y)) && Z.eqb (fst (snd (snd x))) (fst (snd (snd y))) &&
                       Z.eqb (snd (snd (snd x))) (snd (snd (snd y)))) (ap_phdata a) (ap_phdata b) &&
  (negb with_state ||
   ((ap_state a =? ap_state b) && list_eqb N.eqb (ap_statelog a) (ap_statelog b) &&
    Bool.eqb (ap_phtimer a) (ap_phtimer b) && Bool.eqb (ap_statetimer a) (ap_statetimer b))).

(* with_limits: the configured limits (max, guaranteed, max running applications) are compared too *)
Definition oqueue_eqb_gen (with_limits : bool) (a b : oqueue) : bool :=
  (q_id a =? q_id b) && (q_parent a =? q_parent b) && Bool.eqb (q_leaf a) (q_leaf b) && Bool.eqb (q_managed a) (q_managed b) &&
  (q_state a =? q_state b) &&
  (negb with_limits || (ores_eqb (q_max a) (q_max b) && ores_eqb (q_guar a) (q_guar b) && (q_maxrunning a =? q_maxrunning b))) &&
  res_eqz (q_alloc a) (q_alloc b) && res_eqz (q_pending a) (q_pending b) && res_eqz (q_preempting a) (q_preempting b) &&
  (q_running a =? q_running b) && list_eqb N.eqb (q_allocating a) (q_allocating b) &&
  list_eqb pairN_eqb (q_reserved a) (q_reserved b) && list_eqb N.eqb (q_apps a) (q_apps b).
Definition oqueue_eqb := oqueue_eqb_gen true.

(* trackers that carry information: some usage or some running application *)
Definition ugm_live (u : ougm) : bool :=
  negb (IsZero (Some (u_usage u))) || match u_running u with [] => false | _ => true end.
Definition ougm_eqb (a b : ougm) : bool :=
  (u_who a =? u_who b) && Bool.eqb (u_group a) (u_group b) && (u_path a =? u_path b) && res_eqz (u_usage a) (u_usage b) &&
  list_eqb N.eqb (u_running a) (u_running b).

(* accounting of two observed states is identical; with_state: application life-cycle state too;
   with_rejected: the rejected-application list too; with_limits: configured queue limits too *)
Definition acct_eqb_gen (with_state with_rejected with_limits : bool) (a b : ostate) : bool :=
  list_eqb onode_eqb (s_nodes a) (s_nodes b) &&
  list_eqb (oapp_eqb with_state) (s_apps a) (s_apps b) &&
  list_eqb (oqueue_eqb_gen with_limits) (s_queues a) (s_queues b) &&
  ores_eqb (s_total a) (s_total b) &&
  Z.eqb (s_nallocs a) (s_nallocs b) && Z.eqb (s_nph a) (s_nph b) && Z.eqb (s_nres a) (s_nres b) &&
  list_eqb oalloc_eqb (s_foreign a) (s_foreign b) &&
  list_eqb (oapp_eqb with_state) (s_completed a) (s_completed b) &&
  (negb with_rejected || list_eqb N.eqb (s_rejected a) (s_rejected b)) &&
  list_eqb ougm_eqb (filter ugm_live (s_ugm a)) (filter ugm_live (s_ugm b)).
Definition acct_eqb (with_state with_rejected : bool) := acct_eqb_gen with_state with_rejected true.
