(* C03, application clause: what each operation of the model does to the application record, and that the
   application's books (allocated / placeholder / pending = sums over its allocation and ask lists, nothing
   negative) and its well-formedness survive it. *)
From Coq Require Import List ZArith NArith Bool Lia ZifyBool.
From YK Require Import Base.Int64 Base.Res Base.ResSpec Base.ResLemmas Base.ResLaws Base.ResLaws2 Core.Obs Core.Model Core.Ledger
  Core.BooksLemmas Core.BooksDefs.
Import ListNotations.
Open Scope Z_scope.

(* ------------------------------------------------------------------ state changes do not touch the ledgers *)
Lemma ap_event_id a st : ap_id (ap_event a st) = ap_id a. Proof. unfold ap_event. destruct (st =? ap_state a)%N; reflexivity. Qed.
Lemma ap_event_queue a st : ap_queue (ap_event a st) = ap_queue a. Proof. unfold ap_event. destruct (st =? ap_state a)%N; reflexivity. Qed.
Lemma ap_event_pending a st : ap_pending (ap_event a st) = ap_pending a. Proof. unfold ap_event. destruct (st =? ap_state a)%N; reflexivity. Qed.
Lemma ap_event_allocated a st : ap_allocated (ap_event a st) = ap_allocated a. Proof. unfold ap_event. destruct (st =? ap_state a)%N; reflexivity. Qed.
Lemma ap_event_phalloc a st : ap_phalloc (ap_event a st) = ap_phalloc a. Proof. unfold ap_event. destruct (st =? ap_state a)%N; reflexivity. Qed.
Lemma ap_event_requests a st : ap_requests (ap_event a st) = ap_requests a. Proof. unfold ap_event. destruct (st =? ap_state a)%N; reflexivity. Qed.
Lemma ap_event_allocs a st : ap_allocs (ap_event a st) = ap_allocs a. Proof. unfold ap_event. destruct (st =? ap_state a)%N; reflexivity. Qed.
Global Hint Rewrite ap_event_id ap_event_queue ap_event_pending ap_event_allocated ap_event_phalloc ap_event_requests ap_event_allocs : apf.

(* two application records with the same ledgers *)
Record same_ledgers (a b : oapp) : Prop := mkSL {
  sl_id : ap_id b = ap_id a; sl_queue : ap_queue b = ap_queue a;
  sl_pending : ap_pending b = ap_pending a; sl_allocated : ap_allocated b = ap_allocated a; sl_phalloc : ap_phalloc b = ap_phalloc a;
  sl_requests : ap_requests b = ap_requests a; sl_allocs : ap_allocs b = ap_allocs a }.
Lemma same_ledgers_event a st : same_ledgers a (ap_event a st).
Proof. constructor; autorewrite with apf; reflexivity. Qed.
Lemma same_ledgers_refl a : same_ledgers a a. Proof. constructor; reflexivity. Qed.
Lemma same_ledgers_trans a b c : same_ledgers a b -> same_ledgers b c -> same_ledgers a c.
Proof. intros [] []. constructor; congruence. Qed.
Lemma same_ledgers_books a b : same_ledgers a b -> AppBooks a -> AppBooks b.
Proof. intros [H1 H2 H3 H4 H5 H6 H7] [B1 B2 B3 B4 B5 B6].
  constructor; unfold real_allocs, ph_allocs, pending_asks in *; rewrite ?H3, ?H4, ?H5, ?H6, ?H7; assumption. Qed.
Lemma same_ledgers_wf a b : same_ledgers a b -> AppWF a -> AppWF b.
Proof. intros [H1 H2 H3 H4 H5 H6 H7] [W1 W2 W3 W4 W5 W6 W7]. constructor; rewrite ?H1, ?H3, ?H4, ?H6, ?H7; assumption. Qed.
Lemma same_ledgers_bounded a b : same_ledgers a b -> AppBounded a -> AppBounded b.
Proof. intros [H1 H2 H3 H4 H5 H6 H7] [W1 W2 W3 W4]. constructor; rewrite ?H3, ?H4, ?H6, ?H7; assumption. Qed.

(* ------------------------------------------------------------------ consequences of AppWF / AppBooks *)
Lemma asum_ge_member l x k : (forall y, In y l -> rnonneg (oa_res y)) -> In x l -> getz (oa_res x) k <= asum l k.
Proof. intros Hnn Hin. unfold asum. apply sumz_ge_member; [|apply in_map; assumption].
  intros r Hr. apply in_map_iff in Hr. destruct Hr as (y & <- & Hy). apply rnonneg_fnonneg. auto. Qed.
Lemma asum_nonneg l k : (forall y, In y l -> rnonneg (oa_res y)) -> 0 <= asum l k.
Proof. intros Hnn. unfold asum. apply sumz_nonneg. intros r Hr. apply in_map_iff in Hr. destruct Hr as (y & <- & Hy).
  apply rnonneg_fnonneg. auto. Qed.

Lemma alloc_key_in_requests a y : AppWF a -> In y (ap_allocs a) -> In (oa_key y) (akeys (ap_requests a)).
Proof. intros W Hy. destruct (aw_allocreq a W y Hy) as (r & Hr & E & _). rewrite <- E. apply in_map. assumption. Qed.
Lemma alloc_fresh a key : AppWF a -> find_alloc (ap_requests a) key = None -> find_alloc (ap_allocs a) key = None.
Proof. intros W H. apply find_alloc_none. intros C. apply find_alloc_none in H. apply H. unfold akeys in C.
  apply in_map_iff in C. destruct C as (y & <- & Hy). apply alloc_key_in_requests; assumption. Qed.
(* the request stored under the key of a listed allocation is marked allocated *)
Lemma alloc_request_allocated a y r : AppWF a -> In y (ap_allocs a) -> find_alloc (ap_requests a) (oa_key y) = Some r -> oa_allocated r = true.
Proof. intros W Hy Hr. destruct (aw_allocreq a W y Hy) as (r' & Hr' & E & Hal).
  rewrite <- E, (find_alloc_in _ r' (aw_req_keys a W) Hr') in Hr. congruence. Qed.
Lemma pending_ask_not_listed a ask : AppWF a -> In ask (ap_requests a) -> oa_allocated ask = false ->
  find_alloc (ap_allocs a) (oa_key ask) = None.
Proof. intros W Hin Hna. destruct (find_alloc (ap_allocs a) (oa_key ask)) as [y|] eqn:E; [|reflexivity]. exfalso.
  apply find_alloc_some in E. destruct E as [Hy Ek].
  assert (Hr : find_alloc (ap_requests a) (oa_key y) = Some ask) by (rewrite Ek; apply find_alloc_in; [apply (aw_req_keys a W)|assumption]).
  pose proof (alloc_request_allocated a y ask W Hy Hr). congruence. Qed.

Lemma rnonneg_Prune r : rnonneg r -> rnonneg (Prune r).
Proof. intros H kv Hin. unfold Prune in Hin. apply filter_In in Hin. apply H. tauto. Qed.

(* ------------------------------------------------------------------ AddAllocationAsk (new key) *)
Definition new_ask_app (a : oapp) (x : oalloc) : oapp :=
  let st' := if (ap_state a =? ST_New)%N || (ap_state a =? ST_Completing)%N then fsm_run (ap_state a) else ap_state a in
  let a1 := ap_event a st' in
  ap_with a1 (ap_state a1) (Prune (Add (Some (ap_pending a1)) (Some (oa_res x)))) (ap_allocated a1) (ap_phalloc a1)
          (put_alloc x (ap_requests a1)) (ap_allocs a1) (ap_statelog a1).

Section NewAsk.
  Variables (a : oapp) (x : oalloc).
  Hypothesis W : AppWF a.
  Hypothesis B : AppBooks a.
  Hypothesis Bd : AppBounded a.
  Hypothesis Xok : AllocOK (ap_id a) x.
  Hypothesis Xb : rb (oa_res x).
  Hypothesis Xna : oa_allocated x = false.
  Hypothesis Xfresh : find_alloc (ap_requests a) (oa_key x) = None.

  Lemma new_ask_id : ap_id (new_ask_app a x) = ap_id a. Proof. unfold new_ask_app. cbn. apply ap_event_id. Qed.
  Lemma new_ask_queue : ap_queue (new_ask_app a x) = ap_queue a. Proof. unfold new_ask_app. cbn. apply ap_event_queue. Qed.
  Lemma new_ask_allocs : ap_allocs (new_ask_app a x) = ap_allocs a. Proof. unfold new_ask_app. cbn. apply ap_event_allocs. Qed.
  Lemma new_ask_requests : ap_requests (new_ask_app a x) = put_alloc x (ap_requests a).
  Proof. unfold new_ask_app. cbn. rewrite ap_event_requests. reflexivity. Qed.
  Lemma new_ask_allocated : ap_allocated (new_ask_app a x) = ap_allocated a. Proof. unfold new_ask_app. cbn. apply ap_event_allocated. Qed.
  Lemma new_ask_phalloc : ap_phalloc (new_ask_app a x) = ap_phalloc a. Proof. unfold new_ask_app. cbn. apply ap_event_phalloc. Qed.
  Lemma new_ask_pending_eq : ap_pending (new_ask_app a x) = Prune (Add (Some (ap_pending a)) (Some (oa_res x))).
  Proof. unfold new_ask_app. cbn. rewrite ap_event_pending. reflexivity. Qed.
  Lemma new_ask_pending k : getz (ap_pending (new_ask_app a x)) k = getz (ap_pending a) k + getz (oa_res x) k.
  Proof. rewrite new_ask_pending_eq. apply PruneAdd_exact; [apply (aw_pending a W)|apply (ao_wf _ x Xok)|apply (abd_pending a Bd)|exact Xb]. Qed.

  Lemma new_ask_books : AppBooks (new_ask_app a x).
  Proof. destruct B as [B1 B2 B3 B4 B5 B6]. constructor.
    - intros k. unfold real_allocs. rewrite new_ask_allocated, new_ask_allocs. apply B1.
    - intros k. unfold ph_allocs. rewrite new_ask_phalloc, new_ask_allocs. apply B2.
    - intros k. rewrite new_ask_pending. unfold pending_asks. rewrite new_ask_requests.
      rewrite (asum_filter_put (fun y => negb (oa_allocated y))) by apply (aw_req_keys a W).
      rewrite Xfresh, Xna. cbn [negb]. rewrite (B3 k). unfold pending_asks. lia.
    - rewrite new_ask_allocated. assumption.
    - rewrite new_ask_phalloc. assumption.
    - apply fnonneg_rnonneg.
      + rewrite new_ask_pending_eq. apply Prune_wf, Add_wf. apply (aw_pending a W).
      + intros k. rewrite new_ask_pending. pose proof (rnonneg_fnonneg _ B6 k). pose proof (rnonneg_fnonneg _ (ao_nn _ x Xok) k). lia. Qed.

  Lemma new_ask_wf : AppWF (new_ask_app a x).
  Proof. destruct W as [W1 W2 W3 W4 W5 W6 W7]. constructor; rewrite ?new_ask_id, ?new_ask_requests, ?new_ask_allocs.
    - apply akeys_put_nodup. assumption.
    - assumption.
    - intros y Hy. apply in_put_alloc in Hy. destruct Hy as [->|[Hy _]]; auto.
    - assumption.
    - intros y Hy. destruct (W5 y Hy) as (r & Hr & E & Hal). exists r. split; [|auto]. apply in_put_alloc. right. split; [assumption|].
      intros C. apply find_alloc_none in Xfresh. apply Xfresh. rewrite <- C. apply in_map. assumption.
    - rewrite new_ask_pending_eq. apply Prune_wf, Add_wf. assumption.
    - rewrite new_ask_allocated. assumption. Qed.
End NewAsk.

(* ------------------------------------------------------------------ recovered (already bound) allocation *)
Definition recovered_app (a : oapp) (x : oalloc) : oapp :=
  let st1 := if (ap_state a =? ST_New)%N then fsm_run (ap_state a) else ap_state a in
  let a1 := ap_event a st1 in
  let a2 := ap_event a1 (fsm_run (ap_state a1)) in
  ap_with a2 (ap_state a2) (ap_pending a2) (Add (Some (ap_allocated a2)) (Some (oa_res x))) (ap_phalloc a2)
          (put_alloc x (ap_requests a2)) (put_alloc x (ap_allocs a2)) (ap_statelog a2).

Section Recovered.
  Variables (a : oapp) (x : oalloc).
  Hypothesis W : AppWF a.
  Hypothesis B : AppBooks a.
  Hypothesis Bd : AppBounded a.
  Hypothesis Xok : AllocOK (ap_id a) x.
  Hypothesis Xb : rb (oa_res x).
  Hypothesis Xal : oa_allocated x = true.
  Hypothesis Xph : oa_ph x = false.
  Hypothesis Xfresh : find_alloc (ap_requests a) (oa_key x) = None.

  Lemma recovered_id : ap_id (recovered_app a x) = ap_id a. Proof. unfold recovered_app. cbn. autorewrite with apf. reflexivity. Qed.
  Lemma recovered_queue : ap_queue (recovered_app a x) = ap_queue a. Proof. unfold recovered_app. cbn. autorewrite with apf. reflexivity. Qed.
  Lemma recovered_allocs : ap_allocs (recovered_app a x) = put_alloc x (ap_allocs a).
  Proof. unfold recovered_app. cbn. autorewrite with apf. reflexivity. Qed.
  Lemma recovered_requests : ap_requests (recovered_app a x) = put_alloc x (ap_requests a).
  Proof. unfold recovered_app. cbn. autorewrite with apf. reflexivity. Qed.
  Lemma recovered_allocated_eq : ap_allocated (recovered_app a x) = Add (Some (ap_allocated a)) (Some (oa_res x)).
  Proof. unfold recovered_app. cbn. autorewrite with apf. reflexivity. Qed.
  Lemma recovered_phalloc : ap_phalloc (recovered_app a x) = ap_phalloc a. Proof. unfold recovered_app. cbn. autorewrite with apf. reflexivity. Qed.
  Lemma recovered_pending_eq : ap_pending (recovered_app a x) = ap_pending a. Proof. unfold recovered_app. cbn. autorewrite with apf. reflexivity. Qed.
  Lemma recovered_allocated k : getz (ap_allocated (recovered_app a x)) k = getz (ap_allocated a) k + getz (oa_res x) k.
  Proof. rewrite recovered_allocated_eq. apply Add_exact; [apply (ao_wf _ x Xok)|apply (abd_allocated a Bd)|exact Xb]. Qed.

  Lemma recovered_books : AppBooks (recovered_app a x).
  Proof. pose proof (alloc_fresh a _ W Xfresh) as Afresh. destruct B as [B1 B2 B3 B4 B5 B6]. constructor.
    - intros k. rewrite recovered_allocated. unfold real_allocs. rewrite recovered_allocs.
      rewrite (asum_filter_put (fun y => negb (oa_ph y))) by apply (aw_alloc_keys a W).
      rewrite Afresh, Xph. cbn [negb]. rewrite (B1 k). unfold real_allocs. lia.
    - intros k. rewrite recovered_phalloc. unfold ph_allocs. rewrite recovered_allocs.
      rewrite (asum_filter_put oa_ph) by apply (aw_alloc_keys a W). rewrite Afresh, Xph. rewrite (B2 k). unfold ph_allocs. lia.
    - intros k. rewrite recovered_pending_eq. unfold pending_asks. rewrite recovered_requests.
      rewrite (asum_filter_put (fun y => negb (oa_allocated y))) by apply (aw_req_keys a W).
      rewrite Xfresh, Xal. cbn [negb]. rewrite (B3 k). unfold pending_asks. lia.
    - apply fnonneg_rnonneg.
      + rewrite recovered_allocated_eq. apply Add_wf. apply (aw_allocated a W).
      + intros k. rewrite recovered_allocated. pose proof (rnonneg_fnonneg _ B4 k). pose proof (rnonneg_fnonneg _ (ao_nn _ x Xok) k). lia.
    - rewrite recovered_phalloc. assumption.
    - rewrite recovered_pending_eq. assumption. Qed.

  Lemma recovered_wf : AppWF (recovered_app a x).
  Proof. destruct W as [W1 W2 W3 W4 W5 W6 W7]. constructor; rewrite ?recovered_id, ?recovered_requests, ?recovered_allocs.
    - apply akeys_put_nodup. assumption.
    - apply akeys_put_nodup. assumption.
    - intros y Hy. apply in_put_alloc in Hy. destruct Hy as [->|[Hy _]]; auto.
    - intros y Hy. apply in_put_alloc in Hy. destruct Hy as [->|[Hy _]]; auto.
    - intros y Hy. apply in_put_alloc in Hy. destruct Hy as [->|[Hy Hne]].
      + exists x. split; [apply in_put_alloc; left; reflexivity|auto].
      + destruct (W5 y Hy) as (r & Hr & E & Hal). exists r. split; [|auto]. apply in_put_alloc. right. split; [assumption|congruence].
    - rewrite recovered_pending_eq. assumption.
    - rewrite recovered_allocated_eq. apply Add_wf. assumption. Qed.
End Recovered.

(* ------------------------------------------------------------------ a scheduling decision binds a pending ask *)
Definition sched_app (a : oapp) (ask : oalloc) (nid : N) : oapp :=
  let a1 := ap_event a (fsm_run (ap_state a)) in
  let x := oa_bound ask nid in
  ap_with a1 (ap_state a1) (Prune (Sub (Some (ap_pending a1)) (Some (oa_res ask))))
          (Add (Some (ap_allocated a1)) (Some (oa_res ask))) (ap_phalloc a1)
          (put_alloc x (ap_requests a1)) (put_alloc x (ap_allocs a1)) (ap_statelog a1).

Lemma oa_bound_ok id ask nid : AllocOK id ask -> AllocOK id (oa_bound ask nid).
Proof. intros [H1 H2 H3 H4 H5]. constructor; assumption. Qed.

Section Sched.
  Variables (a : oapp) (ask : oalloc) (nid : N).
  Hypothesis W : AppWF a.
  Hypothesis B : AppBooks a.
  Hypothesis Bd : AppBounded a.
  Hypothesis Hask : In ask (ap_requests a).
  Hypothesis Ana : oa_allocated ask = false.
  Hypothesis Aph : oa_ph ask = false.
  Let x := oa_bound ask nid.

  Lemma sched_id : ap_id (sched_app a ask nid) = ap_id a. Proof. unfold sched_app. cbn. autorewrite with apf. reflexivity. Qed.
  Lemma sched_queue : ap_queue (sched_app a ask nid) = ap_queue a. Proof. unfold sched_app. cbn. autorewrite with apf. reflexivity. Qed.
  Lemma sched_allocs : ap_allocs (sched_app a ask nid) = put_alloc x (ap_allocs a).
  Proof. unfold sched_app. cbn. autorewrite with apf. reflexivity. Qed.
  Lemma sched_requests : ap_requests (sched_app a ask nid) = put_alloc x (ap_requests a).
  Proof. unfold sched_app. cbn. autorewrite with apf. reflexivity. Qed.
  Lemma sched_allocated_eq : ap_allocated (sched_app a ask nid) = Add (Some (ap_allocated a)) (Some (oa_res ask)).
  Proof. unfold sched_app. cbn. autorewrite with apf. reflexivity. Qed.
  Lemma sched_phalloc : ap_phalloc (sched_app a ask nid) = ap_phalloc a. Proof. unfold sched_app. cbn. autorewrite with apf. reflexivity. Qed.
  Lemma sched_pending_eq : ap_pending (sched_app a ask nid) = Prune (Sub (Some (ap_pending a)) (Some (oa_res ask))).
  Proof. unfold sched_app. cbn. autorewrite with apf. reflexivity. Qed.
  Let Aok := aw_req a W ask Hask.
  Let Ab := abd_req a Bd ask Hask.
  Lemma sched_allocated k : getz (ap_allocated (sched_app a ask nid)) k = getz (ap_allocated a) k + getz (oa_res ask) k.
  Proof. rewrite sched_allocated_eq. apply Add_exact; [apply (ao_wf _ ask Aok)|apply (abd_allocated a Bd)|exact Ab]. Qed.
  Lemma sched_pending k : getz (ap_pending (sched_app a ask nid)) k = getz (ap_pending a) k - getz (oa_res ask) k.
  Proof. rewrite sched_pending_eq. apply PruneSub_exact; [apply (aw_pending a W)|apply (ao_wf _ ask Aok)|apply (abd_pending a Bd)|exact Ab]. Qed.
  Lemma ask_le_pending k : getz (oa_res ask) k <= getz (ap_pending a) k.
  Proof. rewrite (ab_pend a B k). apply asum_ge_member.
    - intros y Hy. unfold pending_asks in Hy. apply filter_In in Hy. apply (ao_nn _ y (aw_req a W y (proj1 Hy))).
    - unfold pending_asks. apply filter_In. split; [assumption|]. rewrite Ana. reflexivity. Qed.

  Lemma sched_books : AppBooks (sched_app a ask nid).
  Proof. pose proof (pending_ask_not_listed a ask W Hask Ana) as Afresh.
    pose proof (find_alloc_in _ ask (aw_req_keys a W) Hask) as Afind.
    destruct B as [B1 B2 B3 B4 B5 B6]. constructor.
    - intros k. rewrite sched_allocated. unfold real_allocs. rewrite sched_allocs.
      rewrite (asum_filter_put (fun y => negb (oa_ph y))) by apply (aw_alloc_keys a W).
      change (oa_key x) with (oa_key ask). change (oa_ph x) with (oa_ph ask). change (oa_res x) with (oa_res ask).
      rewrite Afresh, Aph. cbn [negb]. rewrite (B1 k). unfold real_allocs. lia.
    - intros k. rewrite sched_phalloc. unfold ph_allocs. rewrite sched_allocs.
      rewrite (asum_filter_put oa_ph) by apply (aw_alloc_keys a W).
      change (oa_key x) with (oa_key ask). change (oa_ph x) with (oa_ph ask). rewrite Afresh, Aph. rewrite (B2 k). unfold ph_allocs. lia.
    - intros k. rewrite sched_pending. unfold pending_asks. rewrite sched_requests.
      rewrite (asum_filter_put (fun y => negb (oa_allocated y))) by apply (aw_req_keys a W).
      change (oa_key x) with (oa_key ask). change (oa_allocated x) with true. rewrite Afind, Ana. cbn [negb].
      rewrite (B3 k). unfold pending_asks. lia.
    - apply fnonneg_rnonneg.
      + rewrite sched_allocated_eq. apply Add_wf. apply (aw_allocated a W).
      + intros k. rewrite sched_allocated. pose proof (rnonneg_fnonneg _ B4 k). pose proof (rnonneg_fnonneg _ (ao_nn _ ask Aok) k). lia.
    - rewrite sched_phalloc. assumption.
    - apply fnonneg_rnonneg.
      + rewrite sched_pending_eq. apply Prune_wf, Sub_wf. apply (aw_pending a W).
      + intros k. rewrite sched_pending. pose proof (ask_le_pending k). lia. Qed.

  Lemma sched_wf : AppWF (sched_app a ask nid).
  Proof. destruct W as [W1 W2 W3 W4 W5 W6 W7]. constructor; rewrite ?sched_id, ?sched_requests, ?sched_allocs.
    - apply akeys_put_nodup. assumption.
    - apply akeys_put_nodup. assumption.
    - intros y Hy. apply in_put_alloc in Hy. destruct Hy as [->|[Hy _]]; [apply oa_bound_ok|]; auto.
    - intros y Hy. apply in_put_alloc in Hy. destruct Hy as [->|[Hy _]]; [apply oa_bound_ok|]; auto.
    - intros y Hy. apply in_put_alloc in Hy. destruct Hy as [->|[Hy Hne]].
      + exists x. split; [apply in_put_alloc; left; reflexivity|auto].
      + destruct (W5 y Hy) as (r & Hr & E & Hal). exists r. split; [|auto]. apply in_put_alloc. right. split; [assumption|congruence].
    - rewrite sched_pending_eq. apply Prune_wf, Sub_wf. assumption.
    - rewrite sched_allocated_eq. apply Add_wf. assumption. Qed.
End Sched.

(* ------------------------------------------------------------------ removeAllocation of a real allocation *)
Definition release_alloc_app (a : oapp) (x : oalloc) (ttype : N) : oapp :=
  let allocated' := Prune (Sub (Some (ap_allocated a)) (Some (oa_res x))) in
  let zero := IsZero (Some (ap_pending a)) && IsZero (Some allocated') in
  let a1 := ap_event a (if zero then fsm_complete (ap_state a) else ap_state a) in
  let reqs := if (ttype =? TT_Timeout)%N then ap_requests a1 else del_alloc (oa_key x) (ap_requests a1) in
  ap_with a1 (ap_state a1) (ap_pending a1) allocated' (ap_phalloc a1) reqs (del_alloc (oa_key x) (ap_allocs a1)) (ap_statelog a1).

Section ReleaseAlloc.
  Variables (a : oapp) (x : oalloc) (ttype : N).
  Hypothesis W : AppWF a.
  Hypothesis B : AppBooks a.
  Hypothesis Bd : AppBounded a.
  Hypothesis Hx : In x (ap_allocs a).
  Hypothesis Xph : oa_ph x = false.

  Lemma rel_alloc_id : ap_id (release_alloc_app a x ttype) = ap_id a. Proof. unfold release_alloc_app. cbn. autorewrite with apf. reflexivity. Qed.
  Lemma rel_alloc_queue : ap_queue (release_alloc_app a x ttype) = ap_queue a. Proof. unfold release_alloc_app. cbn. autorewrite with apf. reflexivity. Qed.
  Lemma rel_alloc_allocs : ap_allocs (release_alloc_app a x ttype) = del_alloc (oa_key x) (ap_allocs a).
  Proof. unfold release_alloc_app. cbn. autorewrite with apf. reflexivity. Qed.
  Lemma rel_alloc_requests : ap_requests (release_alloc_app a x ttype) =
    if (ttype =? TT_Timeout)%N then ap_requests a else del_alloc (oa_key x) (ap_requests a).
  Proof. unfold release_alloc_app. cbn. autorewrite with apf. reflexivity. Qed.
  Lemma rel_alloc_allocated_eq : ap_allocated (release_alloc_app a x ttype) = Prune (Sub (Some (ap_allocated a)) (Some (oa_res x))).
  Proof. reflexivity. Qed.
  Lemma rel_alloc_phalloc : ap_phalloc (release_alloc_app a x ttype) = ap_phalloc a. Proof. unfold release_alloc_app. cbn. autorewrite with apf. reflexivity. Qed.
  Lemma rel_alloc_pending_eq : ap_pending (release_alloc_app a x ttype) = ap_pending a. Proof. unfold release_alloc_app. cbn. autorewrite with apf. reflexivity. Qed.
  Let Xok := aw_alloc a W x Hx.
  Let Xb := abd_alloc a Bd x Hx.
  Lemma rel_alloc_allocated k : getz (ap_allocated (release_alloc_app a x ttype)) k = getz (ap_allocated a) k - getz (oa_res x) k.
  Proof. rewrite rel_alloc_allocated_eq. apply PruneSub_exact; [apply (aw_allocated a W)|apply (ao_wf _ x Xok)|apply (abd_allocated a Bd)|exact Xb]. Qed.
  Lemma alloc_le_allocated k : getz (oa_res x) k <= getz (ap_allocated a) k.
  Proof. rewrite (ab_alloc a B k). apply asum_ge_member.
    - intros y Hy. unfold real_allocs in Hy. apply filter_In in Hy. apply (ao_nn _ y (aw_alloc a W y (proj1 Hy))).
    - unfold real_allocs. apply filter_In. split; [assumption|]. rewrite Xph. reflexivity. Qed.

  Lemma rel_alloc_books : AppBooks (release_alloc_app a x ttype).
  Proof. pose proof (find_alloc_in _ x (aw_alloc_keys a W) Hx) as Xfind.
    destruct B as [B1 B2 B3 B4 B5 B6]. constructor.
    - intros k. rewrite rel_alloc_allocated. unfold real_allocs. rewrite rel_alloc_allocs.
      rewrite (asum_filter_del (fun y => negb (oa_ph y))) by apply (aw_alloc_keys a W).
      rewrite Xfind, Xph. cbn [negb]. rewrite (B1 k). unfold real_allocs. lia.
    - intros k. rewrite rel_alloc_phalloc. unfold ph_allocs. rewrite rel_alloc_allocs.
      rewrite (asum_filter_del oa_ph) by apply (aw_alloc_keys a W). rewrite Xfind, Xph. rewrite (B2 k). unfold ph_allocs. lia.
    - intros k. rewrite rel_alloc_pending_eq. unfold pending_asks. rewrite rel_alloc_requests.
      destruct (ttype =? TT_Timeout)%N; [apply B3|].
      rewrite (asum_filter_del (fun y => negb (oa_allocated y))) by apply (aw_req_keys a W).
      destruct (find_alloc (ap_requests a) (oa_key x)) as [r|] eqn:Er.
      + rewrite (alloc_request_allocated a x r W Hx Er). cbn [negb]. rewrite (B3 k). unfold pending_asks. lia.
      + rewrite (B3 k). unfold pending_asks. lia.
    - apply fnonneg_rnonneg.
      + rewrite rel_alloc_allocated_eq. apply Prune_wf, Sub_wf. apply (aw_allocated a W).
      + intros k. rewrite rel_alloc_allocated. pose proof (alloc_le_allocated k). lia.
    - rewrite rel_alloc_phalloc. assumption.
    - rewrite rel_alloc_pending_eq. assumption. Qed.

  Lemma rel_alloc_wf : AppWF (release_alloc_app a x ttype).
  Proof. destruct W as [W1 W2 W3 W4 W5 W6 W7]. constructor; rewrite ?rel_alloc_id, ?rel_alloc_requests, ?rel_alloc_allocs.
    - destruct (ttype =? TT_Timeout)%N; [assumption|apply akeys_del_nodup; assumption].
    - apply akeys_del_nodup. assumption.
    - intros y Hy. destruct (ttype =? TT_Timeout)%N; [auto|]. apply in_del_alloc in Hy. apply W3. tauto.
    - intros y Hy. apply in_del_alloc in Hy. apply W4. tauto.
    - intros y Hy. apply in_del_alloc in Hy. destruct Hy as [Hy Hne]. destruct (W5 y Hy) as (r & Hr & E & Hal). exists r.
      split; [|auto]. destruct (ttype =? TT_Timeout)%N; [assumption|]. apply in_del_alloc. split; [assumption|congruence].
    - rewrite rel_alloc_pending_eq. assumption.
    - rewrite rel_alloc_allocated_eq. apply Prune_wf, Sub_wf. assumption. Qed.
End ReleaseAlloc.

(* ------------------------------------------------------------------ removal of a pending ask *)
Definition release_ask_app (a : oapp) (x : oalloc) : oapp :=
  ap_with a (ap_state a) (Prune (Sub (Some (ap_pending a)) (Some (oa_res x)))) (ap_allocated a) (ap_phalloc a)
          (del_alloc (oa_key x) (ap_requests a)) (ap_allocs a) (ap_statelog a).

Section ReleaseAsk.
  Variables (a : oapp) (x : oalloc).
  Hypothesis W : AppWF a.
  Hypothesis B : AppBooks a.
  Hypothesis Bd : AppBounded a.
  Hypothesis Hx : In x (ap_requests a).
  Hypothesis Xna : oa_allocated x = false.
  Let Xok := aw_req a W x Hx.
  Let Xb := abd_req a Bd x Hx.

  Lemma rel_ask_pending k : getz (ap_pending (release_ask_app a x)) k = getz (ap_pending a) k - getz (oa_res x) k.
  Proof. cbn [release_ask_app ap_with ap_pending]. apply PruneSub_exact; [apply (aw_pending a W)|apply (ao_wf _ x Xok)|apply (abd_pending a Bd)|exact Xb]. Qed.

  Lemma rel_ask_books : AppBooks (release_ask_app a x).
  Proof. pose proof (find_alloc_in _ x (aw_req_keys a W) Hx) as Xfind.
    pose proof (ask_le_pending a x W B Hx Xna) as Hle.
    destruct B as [B1 B2 B3 B4 B5 B6]. constructor.
    - exact B1.
    - exact B2.
    - intros k. rewrite rel_ask_pending. unfold pending_asks. cbn [release_ask_app ap_with ap_requests].
      rewrite (asum_filter_del (fun y => negb (oa_allocated y))) by apply (aw_req_keys a W).
      rewrite Xfind, Xna. cbn [negb]. rewrite (B3 k). unfold pending_asks. lia.
    - exact B4.
    - exact B5.
    - apply fnonneg_rnonneg.
      + cbn [release_ask_app ap_with ap_pending]. apply Prune_wf, Sub_wf. apply (aw_pending a W).
      + intros k. rewrite rel_ask_pending. specialize (Hle k). lia. Qed.

  Lemma rel_ask_wf : AppWF (release_ask_app a x).
  Proof. destruct W as [W1 W2 W3 W4 W5 W6 W7]. constructor; cbn [release_ask_app ap_with ap_requests ap_allocs ap_id ap_pending ap_allocated].
    - apply akeys_del_nodup. assumption.
    - assumption.
    - intros y Hy. apply in_del_alloc in Hy. apply W3. tauto.
    - assumption.
    - intros y Hy. destruct (W5 y Hy) as (r & Hr & E & Hal). exists r. split; [|auto]. apply in_del_alloc. split; [assumption|].
      intros C. assert (r = x) by (apply (nodup_key_inj oa_key (ap_requests a)); auto). congruence.
    - apply Prune_wf, Sub_wf. assumption.
    - assumption. Qed.
End ReleaseAsk.
