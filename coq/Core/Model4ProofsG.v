(* C03 along frames (Core/Model4ProofsF.v): the oracle [c03_state] - hence [Books] - the auxiliary invariant [Inv] and the
   bound [Bounded] of Core/BooksDefs.v do not depend on the reservation views, the reservation counter, the preempting
   ledger or the preempted marks. *)
From Coq Require Import List ZArith NArith Bool Lia ZifyBool.
From YK Require Import Base.Int64 Base.Res Base.ResSpec Core.Obs Core.Model Core.Model2 Core.Ledger Core.Model4
  Core.NodeProofs Core.BooksLemmas Core.BooksDefs Core.BooksState Core.Model4ProofsF Oracles.CoreC01.
Import ListNotations.
Open Scope Z_scope.
Set Default Timeout 30.

Lemma filter_map_comm {A B} (p : B -> bool) (g : A -> B) l : filter p (map g l) = map g (filter (fun x => p (g x)) l).
Proof. induction l as [|x t IH]; [reflexivity|]. cbn [map filter]. destruct (p (g x)); cbn [map]; rewrite IH; reflexivity. Qed.
Lemma flat_map_map_comm {A B C} (h : A -> list B) (g : B -> C) l : flat_map (fun a => map g (h a)) l = map g (flat_map h l).
Proof. induction l as [|x t IH]; [reflexivity|]. cbn [flat_map]. rewrite map_app, IH. reflexivity. Qed.
Lemma forallb_map {A B} (p : B -> bool) (g : A -> B) l : forallb p (map g l) = forallb (fun x => p (g x)) l.
Proof. induction l as [|x t IH]; [reflexivity|]. cbn [map forallb]. rewrite IH. reflexivity. Qed.
Lemma forallb_ext' {A} (p q : A -> bool) l : (forall x, p x = q x) -> forallb p l = forallb q l.
Proof. intros H. induction l as [|x t IH]; [reflexivity|]. cbn [forallb]. rewrite H, IH. reflexivity. Qed.
Lemma existsb_ext' {A} (p q : A -> bool) l : (forall x, p x = q x) -> existsb p l = existsb q l.
Proof. intros H. induction l as [|x t IH]; [reflexivity|]. cbn [existsb]. rewrite H, IH. reflexivity. Qed.
Lemma existsb_map {A B} (p : B -> bool) (g : A -> B) l : existsb p (map g l) = existsb (fun x => p (g x)) l.
Proof. induction l as [|x t IH]; [reflexivity|]. cbn [map existsb]. rewrite IH. reflexivity. Qed.

Section AlongG.
  Variables (s s' : ostate) (f : oalloc -> oalloc) (fa : oapp -> oapp) (fn : onode -> onode) (fq : oqueue -> oqueue).
  Hypothesis Hf : FP f.
  Hypothesis HA : forall a, asame f a (fa a).
  Hypothesis HN : forall n, nsame f n (fn n).
  Hypothesis HQ : forall q, qsame q (fq q).
  Hypothesis HL : LF fa fn fq s s'.

  Lemma Ea : s_apps s' = map fa (s_apps s). Proof. exact (lf_apps _ _ _ _ _ HL). Qed.
  Lemma En : s_nodes s' = map fn (s_nodes s). Proof. exact (lf_nodes _ _ _ _ _ HL). Qed.
  Lemma Eq : s_queues s' = map fq (s_queues s). Proof. exact (lf_queues _ _ _ _ _ HL). Qed.

  Lemma g_res l : map oa_res (map f l) = map oa_res l.
  Proof. rewrite map_map. apply map_ext. intros x. apply (fp_res f Hf). Qed.
  Lemma g_filter (p : oalloc -> bool) l : (forall x, p (f x) = p x) -> filter p (map f l) = map f (filter p l).
  Proof. intros Hp. rewrite filter_map_comm. f_equal. apply filter_ext. exact Hp. Qed.

  Lemma g_app_books a : app_books_ok (fa a) = app_books_ok a.
  Proof. destruct (HA a) as [E1 E2 E3 E4 E5 E6 E7 E8 E9 E10]. unfold app_books_ok, real_allocs, ph_allocs, pending_asks.
    rewrite E4, E5, E6, E7, E8.
    rewrite (g_filter (fun x => negb (oa_ph x))) by (intros x; rewrite (fp_ph f Hf); reflexivity).
    rewrite (g_filter oa_ph) by (intros x; apply (fp_ph f Hf)).
    rewrite (g_filter (fun x => negb (oa_allocated x))) by (intros x; rewrite (fp_allocated f Hf); reflexivity).
    rewrite !g_res. reflexivity. Qed.

  Lemma g_apps_of_queue q : apps_of_queue s' q = map fa (apps_of_queue s q).
  Proof. unfold apps_of_queue. rewrite Ea, filter_map_comm. f_equal. apply filter_ext. intros a. rewrite (as_queue _ _ _ (HA a)). reflexivity. Qed.
  Lemma g_children_of q : children_of s' q = map fq (children_of s q).
  Proof. unfold children_of. rewrite Eq, filter_map_comm. f_equal. apply filter_ext. intros c. rewrite (qs_parent _ _ (HQ c)). reflexivity. Qed.
  Lemma g_queue_books q : queue_books_ok s' (fq q) = queue_books_ok s q.
  Proof. destruct (HQ q) as [E1 E2 E3 E4 E5 E6 E7]. unfold queue_books_ok. rewrite E1, E3, E5, E6, g_apps_of_queue, g_children_of, !map_map.
    rewrite (map_ext (fun x => ap_allocated (fa x)) ap_allocated) by (intros a; apply (as_allocated _ _ _ (HA a))).
    rewrite (map_ext (fun x => ap_phalloc (fa x)) ap_phalloc) by (intros a; apply (as_phalloc _ _ _ (HA a))).
    rewrite (map_ext (fun x => ap_pending (fa x)) ap_pending) by (intros a; apply (as_pending _ _ _ (HA a))).
    rewrite (map_ext (fun x => q_alloc (fq x)) q_alloc) by (intros c; apply (qs_alloc _ _ (HQ c))).
    rewrite (map_ext (fun x => q_pending (fq x)) q_pending) by (intros c; apply (qs_pending _ _ (HQ c))). reflexivity. Qed.

  Lemma g_find_alloc l k : find_alloc (map f l) k = option_map f (find_alloc l k).
  Proof. apply (al_find_alloc f Hf). Qed.
  Lemma g_inflight x : inflight_real s' (f x) = inflight_real s x.
  Proof. unfold inflight_real. rewrite (fp_ph f Hf), (fp_release f Hf), (fp_app f Hf), (fp_key f Hf), (al_find_app s s' f fa fn fq HA HL).
    destruct (find_app s (oa_app x)) as [ap|]; cbn [option_map]; [|reflexivity].
    rewrite (as_allocs _ _ _ (HA ap)), (as_requests _ _ _ (HA ap)), !g_find_alloc.
    destruct (find_alloc (ap_allocs ap) (oa_key x)); cbn [option_map]; [reflexivity|].
    destruct (find_alloc (ap_requests ap) (oa_key x)); cbn [option_map]; [rewrite (fp_allocated f Hf)|]; reflexivity. Qed.
  Lemma g_owned x : node_alloc_owned s' (f x) = node_alloc_owned s x.
  Proof. unfold node_alloc_owned. rewrite (fp_app f Hf), (fp_key f Hf), (al_find_app s s' f fa fn fq HA HL).
    destruct (find_app s (oa_app x)) as [ap|] eqn:E; cbn [option_map]; [|reflexivity].
    rewrite (as_allocs _ _ _ (HA ap)), g_find_alloc. destruct (find_alloc (ap_allocs ap) (oa_key x)); cbn [option_map]; [reflexivity|]. apply g_inflight. Qed.
  Lemma g_onnode x : app_alloc_on_node s' (f x) = app_alloc_on_node s x.
  Proof. unfold app_alloc_on_node. rewrite (fp_node f Hf), (fp_key f Hf), (al_find_node s s' f fa fn fq HN HL).
    destruct (find_node s (oa_node x)) as [n|]; cbn [option_map]; [|reflexivity].
    rewrite (ns_allocs' _ _ _ (HN n)), existsb_map. apply existsb_ext'. intros y. rewrite (fp_key f Hf). reflexivity. Qed.

  Lemma g_root : root_matches_nodes s' = root_matches_nodes s.
  Proof. unfold root_matches_nodes.
    rewrite (root_queue_map s s' fq Eq (fun q => qs_parent _ _ (HQ q))).
    destruct (root_queue s) as [r|]; cbn [option_map]; [|reflexivity].
    assert (E1 : flat_map on_allocs (s_nodes s') = map f (flat_map on_allocs (s_nodes s))).
    { rewrite En. rewrite <- flat_map_map_comm. generalize (s_nodes s). intros l. induction l as [|n t IH]; [reflexivity|].
      cbn [map flat_map]. rewrite IH, (ns_allocs' _ _ _ (HN n)). reflexivity. }
    assert (E2 : map on_allocated (s_nodes s') = map on_allocated (s_nodes s)).
    { rewrite En, map_map. apply map_ext. intros n. apply (ns_allocated _ _ _ (HN n)). }
    rewrite E1, E2, (qs_alloc _ _ (HQ r)), filter_map_comm, g_res.
    rewrite (filter_ext (fun x => inflight_real s' (f x)) (inflight_real s)) by (intros x; apply g_inflight). reflexivity. Qed.

  Lemma g_drained : drained_ok s' = drained_ok s.
  Proof. unfold drained_ok. rewrite Ea. destruct (s_apps s) as [|a t]; [|reflexivity]. cbn [map].
    rewrite Eq, En, !forallb_map, (lf_nallocs _ _ _ _ _ HL). f_equal. f_equal.
    - apply forallb_ext'. intros q. rewrite (qs_alloc _ _ (HQ q)), (qs_pending _ _ (HQ q)). reflexivity.
    - apply forallb_ext'. intros n. rewrite (ns_allocated _ _ _ (HN n)), (ns_allocs' _ _ _ (HN n)). destruct (on_allocs n); reflexivity. Qed.

  Theorem g_c03_state : c03_state s' = c03_state s.
  Proof. unfold c03_state. rewrite g_root, g_drained. rewrite Ea, Eq, En, !forallb_map.
    rewrite (forallb_ext' (fun x => app_books_ok (fa x)) app_books_ok) by apply g_app_books.
    rewrite (forallb_ext' (fun x => queue_books_ok s' (fq x)) (queue_books_ok s)) by apply g_queue_books.
    rewrite (forallb_ext' (fun x => forallb (node_alloc_owned s') (on_allocs (fn x))) (fun n => forallb (node_alloc_owned s) (on_allocs n))).
    2: { intros n. rewrite (ns_allocs' _ _ _ (HN n)), forallb_map. apply forallb_ext'. apply g_owned. }
    rewrite (forallb_ext' (fun x => forallb (app_alloc_on_node s') (ap_allocs (fa x))) (fun a => forallb (app_alloc_on_node s) (ap_allocs a))).
    2: { intros a. rewrite (as_allocs _ _ _ (HA a)), forallb_map. apply forallb_ext'. apply g_onnode. }
    reflexivity. Qed.

  (* ---- Inv ---- *)
  Lemma g_alloc_ok id x : AllocOK id x -> AllocOK id (f x).
  Proof. intros [A1 A2 A3 A4 A5]. constructor; rewrite ?(fp_res f Hf), ?(fp_release f Hf), ?(fp_app f Hf), ?(fp_foreign f Hf); assumption. Qed.
  Lemma g_app_wf a : AppWF a -> AppWF (fa a).
  Proof. intros [W1 W2 W3 W4 W5 W6 W7]. destruct (HA a) as [E1 E2 E3 E4 E5 E6 E7 E8 E9 E10].
    constructor; rewrite ?E1, ?E4, ?E5, ?E7, ?E8, ?(al_akeys f Hf); try assumption.
    - intros x' Hx'. apply in_map_iff in Hx'. destruct Hx' as (x & <- & Hx). apply g_alloc_ok. auto.
    - intros x' Hx'. apply in_map_iff in Hx'. destruct Hx' as (x & <- & Hx). apply g_alloc_ok. auto.
    - intros y' Hy'. apply in_map_iff in Hy'. destruct Hy' as (y & <- & Hy). destruct (W5 y Hy) as (r & Hr & Ek & Eal).
      exists (f r). split; [apply in_map; exact Hr|]. rewrite !(fp_key f Hf), (fp_allocated f Hf). auto. Qed.

  Lemma g_in_apps a' : In a' (s_apps s') -> exists a, In a (s_apps s) /\ a' = fa a.
  Proof. rewrite Ea. intros H. apply in_map_iff in H. destruct H as (a & <- & Ha). eauto. Qed.
  Lemma g_in_nodes n' : In n' (s_nodes s') -> exists n, In n (s_nodes s) /\ n' = fn n.
  Proof. rewrite En. intros H. apply in_map_iff in H. destruct H as (n & <- & Hn). eauto. Qed.

  Lemma g_all_allocs : all_allocs s' = map f (all_allocs s).
  Proof. unfold all_allocs. rewrite Ea, <- flat_map_map_comm. generalize (s_apps s). intros l. induction l as [|a t IH]; [reflexivity|].
    cbn [map flat_map]. rewrite IH, (as_allocs _ _ _ (HA a)). reflexivity. Qed.

  Theorem g_inv : Inv s -> Inv s'.
  Proof. intros [I1 I2 I3 I4 I5 I6 I7 I8 I9 I10]. constructor.
    - rewrite Ea, map_map. erewrite map_ext; [exact I1|]. intros a. apply (as_id _ _ _ (HA a)).
    - rewrite En, map_map. erewrite map_ext; [exact I2|]. intros n. apply (ns_id _ _ _ (HN n)).
    - apply (tree_map s s' fq Eq (fun q => qs_id _ _ (HQ q)) (fun q => qs_parent _ _ (HQ q)) (fun q => qs_leaf _ _ (HQ q)) I3).
    - intros a' Ha'. destruct (g_in_apps a' Ha') as (a & Ha & ->). destruct (I4 a Ha) as (q & E & L). exists (fq q).
      rewrite (as_queue _ _ _ (HA a)), (al_find_queue s s' fa fn fq HQ HL), E, (qs_leaf _ _ (HQ q)). auto.
    - intros a' Ha'. destruct (g_in_apps a' Ha') as (a & Ha & ->). apply g_app_wf. auto.
    - intros q' Hq'. rewrite Eq in Hq'. apply in_map_iff in Hq'. destruct Hq' as (q & <- & Hq). rewrite (qs_alloc _ _ (HQ q)), (qs_pending _ _ (HQ q)). auto.
    - intros a1' a2' x1' x2' H1 H2 Hx1 Hx2 Ek. destruct (g_in_apps _ H1) as (a1 & Ha1 & ->). destruct (g_in_apps _ H2) as (a2 & Ha2 & ->).
      rewrite (as_requests _ _ _ (HA a1)) in Hx1. rewrite (as_requests _ _ _ (HA a2)) in Hx2. apply in_map_iff in Hx1, Hx2.
      destruct Hx1 as (x1 & <- & Hx1). destruct Hx2 as (x2 & <- & Hx2). rewrite !(fp_key f Hf) in Ek.
      rewrite (as_id _ _ _ (HA a1)), (as_id _ _ _ (HA a2)). eapply I7; eassumption.
    - intros x a' y' Hx Ha' Hy'. rewrite (lf_foreign _ _ _ _ _ HL) in Hx. destruct (g_in_apps _ Ha') as (a & Ha & ->).
      rewrite (as_requests _ _ _ (HA a)) in Hy'. apply in_map_iff in Hy'. destruct Hy' as (y & <- & Hy). rewrite (fp_key f Hf). eapply I8; eassumption.
    - intros n' Hn'. destruct (g_in_nodes _ Hn') as (n & Hn & ->). destruct (I9 n Hn) as [K1 K2 K3 K4 K5]. destruct (HN n) as [E1 E2 E3 E4 E5 E6 E7 E8].
      constructor; rewrite ?E1, ?E4, ?E7, ?(al_akeys f Hf); try assumption.
      + intros y' Hy'. apply in_map_iff in Hy'. destruct Hy' as (y & <- & Hy). rewrite (fp_node f Hf), (fp_release f Hf). auto.
      + intros y' a' x' Hy' Ha' Hx' Ek. apply in_map_iff in Hy'. destruct Hy' as (y & <- & Hy). destruct (g_in_apps _ Ha') as (a & Ha & ->).
        rewrite (as_allocs _ _ _ (HA a)) in Hx'. apply in_map_iff in Hx'. destruct Hx' as (x & <- & Hx). rewrite !(fp_key f Hf) in Ek.
        f_equal. eapply K3; eassumption.
      + intros k. rewrite (al_asum f Hf). apply K4.
    - rewrite (lf_nallocs _ _ _ _ _ HL), g_all_allocs, map_length. exact I10. Qed.

  Theorem g_bounded : Bounded s -> Bounded s'.
  Proof. intros [B1 B2 B3]. constructor.
    - intros a' Ha'. destruct (g_in_apps _ Ha') as (a & Ha & ->). destruct (B1 a Ha) as [A1 A2 A3 A4]. destruct (HA a) as [E1 E2 E3 E4 E5 E6 E7 E8 E9 E10].
      constructor; rewrite ?E4, ?E5, ?E7, ?E8; try assumption.
      + intros x' Hx'. apply in_map_iff in Hx'. destruct Hx' as (x & <- & Hx). rewrite (fp_res f Hf). auto.
      + intros x' Hx'. apply in_map_iff in Hx'. destruct Hx' as (x & <- & Hx). rewrite (fp_res f Hf). auto.
    - intros q' Hq'. rewrite Eq in Hq'. apply in_map_iff in Hq'. destruct Hq' as (q & <- & Hq). rewrite (qs_alloc _ _ (HQ q)), (qs_pending _ _ (HQ q)). auto.
    - intros n' Hn'. destruct (g_in_nodes _ Hn') as (n & Hn & ->). rewrite (ns_allocated _ _ _ (HN n)). auto. Qed.
End AlongG.

Theorem LFrame_c03_state s s' : LFrame s s' -> c03_state s' = c03_state s.
Proof. intros (f & fa & fn & fq & F & A & Nn & Q & L). eapply g_c03_state; eassumption. Qed.
Theorem LFrame_books s s' : LFrame s s' -> Books s -> Books s'.
Proof. intros HF HB. apply books_reflect. rewrite (LFrame_c03_state s s' HF). apply books_reflect. exact HB. Qed.
Theorem LFrame_inv s s' : LFrame s s' -> Inv s -> Inv s'.
Proof. intros (f & fa & fn & fq & F & A & Nn & Q & L). eapply g_inv; eassumption. Qed.
Theorem LFrame_bounded3 s s' : LFrame s s' -> Bounded s -> Bounded s'.
Proof. intros (f & fa & fn & fq & F & A & Nn & Q & L). eapply g_bounded; eassumption. Qed.
Theorem LFrame_all s s' : LFrame s s' -> Inv s /\ Books s -> Inv s' /\ Books s'.
Proof. intros HF [HI HB]. split; [eapply LFrame_inv|eapply LFrame_books]; eassumption. Qed.
