(* Executable checkers for the hypotheses of the C01 / C02 theorems (sound, not complete), and concrete non-trivial
   states and runs on which all hypotheses hold: the theorems are not vacuous. *)
From Coq Require Import List ZArith NArith Bool Lia ZifyBool.
From YK Require Import Base.Int64 Base.Res Base.ResSpec Base.ResLemmas Core.Obs Core.Model Core.Ledger
  Core.NodeProofs Core.QueueProofs Core.StepProofs Core.QueueStepProofs Oracles.CoreC01.
Import ListNotations.
Open Scope Z_scope.

Fixpoint nodup_b (l : list N) : bool := match l with [] => true | a :: t => negb (memN a t) && nodup_b t end.
Lemma nodup_b_sound l : nodup_b l = true -> NoDup l.
Proof. induction l as [|a t IH]; [constructor|]. cbn [nodup_b]. rewrite andb_true_iff, negb_true_iff. intros [H1 H2].
  constructor; [|auto]. intros C. apply memN_In in C. congruence. Qed.
Definition wf_b (r : res) : bool := nodup_b (keys r).
Lemma wf_b_sound r : wf_b r = true -> wf r.
Proof. apply nodup_b_sound. Qed.
Lemma res_small_b_sound r : res_small_b r = true -> rsmall r.
Proof. apply rsmall_check. Qed.

Definition node_wf_b (n : onode) : bool :=
  wf_b (on_total n) && wf_b (on_occupied n) && wf_b (on_allocated n) && wf_b (on_available n) &&
  forallb (fun x => wf_b (oa_res x)) (on_allocs n) && forallb (fun x => wf_b (oa_res x)) (on_foreign n) &&
  nodup_b (akeys (on_allocs n)) && nodup_b (akeys (on_foreign n)).
Lemma node_wf_b_sound n : node_wf_b n = true -> NodeWF n.
Proof. unfold node_wf_b. rewrite !andb_true_iff, !forallb_forall. intros [[[[[[[H1 H2] H3] H4] H5] H6] H7] H8].
  split; try (apply wf_b_sound; assumption); try (apply nodup_b_sound; assumption);
    intros x Hx; apply wf_b_sound; auto. Qed.
Definition node_small_b (n : onode) : bool :=
  res_small_b (on_total n) && res_small_b (on_occupied n) && res_small_b (on_allocated n) && res_small_b (on_available n) &&
  forallb (fun x => res_small_b (oa_res x)) (on_allocs n) && forallb (fun x => res_small_b (oa_res x)) (on_foreign n).
Lemma node_small_b_sound n : node_small_b n = true -> NodeSmall n.
Proof. unfold node_small_b. rewrite !andb_true_iff, !forallb_forall. intros [[[[[H1 H2] H3] H4] H5] H6].
  split; try (apply res_small_b_sound; assumption); intros x Hx; apply res_small_b_sound; auto. Qed.

Definition sinv_b (s : ostate) : bool :=
  nodes_ledger_ok s && forallb node_wf_b (s_nodes s) &&
  forallb (fun a => forallb (fun x => wf_b (oa_res x) && negb (oa_foreign x)) (ap_requests a)) (s_apps s).
Lemma sinv_b_sound s : sinv_b s = true -> SInv s.
Proof. unfold sinv_b. rewrite !andb_true_iff, !forallb_forall. intros [[H1 H2] H3]. split.
  - apply nodes_ledger_reflect. assumption.
  - intros n Hn. apply node_wf_b_sound. auto.
  - intros a x Ha Hx. specialize (H3 a Ha). rewrite forallb_forall in H3. specialize (H3 x Hx).
    apply andb_true_iff in H3. destruct H3 as [H3 H4]. split; [apply wf_b_sound; assumption|]. destruct (oa_foreign x); [discriminate|reflexivity]. Qed.
Definition bounded_b (s : ostate) : bool :=
  forallb node_small_b (s_nodes s) && forallb (fun a => forallb (fun x => res_small_b (oa_res x)) (ap_requests a)) (s_apps s) &&
  forallb (fun q => res_small_b (q_alloc q)) (s_queues s).
Lemma bounded_b_sound s : bounded_b s = true -> Bounded s.
Proof. unfold bounded_b. rewrite !andb_true_iff, !forallb_forall. intros [[H1 H2] H3]. split.
  - intros n Hn. apply node_small_b_sound. auto.
  - intros a x Ha Hx. specialize (H2 a Ha). rewrite forallb_forall in H2. apply res_small_b_sound. auto.
  - intros q Hq. apply res_small_b_sound. auto. Qed.

Definition key_in (l : list oalloc) (k : N) : bool := memN k (akeys l).
Definition step_ok_b (s : ostate) (st : ostep) : bool :=
  match st_op st with
  | OpNodeAdd _ cap _ => wf_b cap
  | OpNodeUpdate _ (Some cap) => wf_b cap && res_small_b cap
  | OpAlloc r =>
      wf_b (oget (rq_res r)) && res_small_b (oget (rq_res r)) &&
      match find_node s (rq_node r) with
      | None => true
      | Some n =>
          if rq_foreign r then
            match find_alloc (s_foreign s) (rq_key r) with
            | None => negb (key_in (on_foreign n) (rq_key r))
            | Some _ => key_in (on_foreign n) (rq_key r)
            end
          else negb (key_in (on_allocs n) (rq_key r))
      end
  | OpSched =>
      match is_new_alloc_for (st_events st) with
      | Some (k, _, nid) => match find_node s nid with Some n => negb (key_in (on_allocs n) k) | None => true end
      | None => true
      end
  | _ => true
  end.
Lemma key_in_false l k : negb (key_in l k) = true -> ~ In k (akeys l).
Proof. unfold key_in. rewrite negb_true_iff. intros H C. apply memN_In in C. congruence. Qed.
Lemma step_ok_b_sound s st : step_ok_b s st = true -> step_ok s st.
Proof. unfold step_ok_b. intros H. split; [unfold inputs_ok|unfold bind_key_fresh|unfold foreign_update_known];
  destruct (st_op st) as [id cap drain|id [cap|]|id|id|id| | |r|app key ttype| | | | |]; try exact I.
  - apply wf_b_sound. assumption.
  - apply andb_true_iff in H. destruct H. split; [apply wf_b_sound|apply res_small_b_sound]; assumption.
  - rewrite !andb_true_iff in H. destruct H as [[H1 H2] _]. split; [apply wf_b_sound|apply res_small_b_sound]; assumption.
  - rewrite !andb_true_iff in H. destruct H as [_ H]. intros n En. rewrite En in H. destruct (rq_foreign r).
    + intros Ef. rewrite Ef in H. apply key_in_false. assumption.
    + apply key_in_false. assumption.
  - intros k a nid n Enew En. rewrite Enew, En in H. apply key_in_false. assumption.
  - rewrite !andb_true_iff in H. destruct H as [_ H]. intros Efor n f En Ef. rewrite En, Efor, Ef in H. apply memN_In. exact H. Qed.

Fixpoint run_ok_b (deny : list (N * N)) (s : ostate) (steps : list ostep) : bool :=
  match steps with
  | [] => true
  | st :: t => bounded_b s && step_ok_b s st && match m_step deny s st with Some s' => run_ok_b deny s' t | None => true end
  end.
Lemma run_ok_b_sound deny steps : forall s, run_ok_b deny s steps = true -> run_ok deny s steps.
Proof. induction steps as [|st t IH]; intros s H; [exact I|]. cbn [run_ok_b run_ok] in *. rewrite !andb_true_iff in H.
  destruct H as [[H1 H2] H3]. split; [apply bounded_b_sound; assumption|]. split; [apply step_ok_b_sound; assumption|].
  destruct (m_step deny s st); [apply IH; assumption|exact I]. Qed.

Definition qinv_b (s : ostate) : bool :=
  forallb (fun q => wf_b (q_alloc q) && match q_max q with Some m => res_nonneg m | None => true end) (s_queues s) &&
  forallb (fun a => forallb (fun x => wf_b (oa_res x) && res_small_b (oa_res x)) (ap_allocs a)) (s_apps s).
Lemma qinv_b_sound s : qinv_b s = true -> QInv s.
Proof. unfold qinv_b. rewrite !andb_true_iff, !forallb_forall. intros [H1 H2]. split.
  - intros q Hq. specialize (H1 q Hq). apply andb_true_iff in H1. apply wf_b_sound. tauto.
  - intros q Hq m k l Em El. specialize (H1 q Hq). rewrite Em in H1. apply andb_true_iff in H1. destruct H1 as [_ H1].
    apply res_nonneg_sound in H1. specialize (H1 k). unfold getz in H1. rewrite El in H1. exact H1.
  - intros a x Ha Hx. specialize (H2 a Ha). rewrite forallb_forall in H2. specialize (H2 x Hx). apply andb_true_iff in H2.
    split; [apply wf_b_sound|apply res_small_b_sound]; tauto. Qed.
Definition allocs_nonneg_b (s : ostate) : bool :=
  forallb (fun n => forallb (fun x => res_nonneg (oa_res x)) (on_allocs n ++ on_foreign n)) (s_nodes s).
Lemma allocs_nonneg_b_sound s : allocs_nonneg_b s = true -> allocs_nonneg s.
Proof. unfold allocs_nonneg_b. rewrite forallb_forall. intros H n x Hn Hx. specialize (H n Hn). rewrite forallb_forall in H.
  apply res_nonneg_sound. apply H. apply in_or_app. assumption. Qed.

(* ------------------------------------------------------------------ a concrete cluster *)
Definition ex_ask (key : N) (r : res) : oalloc := mkOA key 1%N 0%N r false 0%N false false false 0%N 0%N 0 false false false false.
Definition ex_app : oapp :=
  mkOApp 1%N 3%N ST_Running 1%N [(1%N, 20); (2%N, 1)] [(1%N, 30); (2%N, 3)] [] []
         [ex_ask 13%N [(1%N, 20); (2%N, 1)]; ex_alloc 11%N [(1%N, 10); (2%N, 1)] false; ex_alloc 12%N [(1%N, 20); (2%N, 2)] false]
         [ex_alloc 11%N [(1%N, 10); (2%N, 1)] false; ex_alloc 12%N [(1%N, 20); (2%N, 2)] false]
         [] [] [ST_New; ST_Accepted; ST_Running] false false false false.
Definition ex_state : ostate :=
  mkOS [ex_node] [ex_app] (s_queues ex_qstate) (Some [(1%N, 100); (2%N, 8)]) 2 0 0 [ex_alloc 21%N [(1%N, 5)] true] [] [] [].

Definition ex_step (o : oop) (evs : list oevent) : ostep := mkStep o false evs [] false false ex_state.
Definition ex_req (key node : N) (r : res) (foreign : bool) : oreq :=
  mkReq key (if foreign then 0%N else 1%N) node (Some r) 0 false 0%N 0%N foreign false false false true.
Definition ex_steps : list ostep :=
  [ ex_step OpSched [ENewAlloc 13%N 1%N 1%N [(1%N, 20); (2%N, 1)] false];
    ex_step (OpRelease 1%N 11%N TT_StoppedByRM) [];
    ex_step (OpNodeUpdate 1%N (Some [(1%N, 90); (2%N, 8)])) [];
    ex_step (OpAlloc (ex_req 21%N 1%N [(1%N, 9)] true)) [];
    ex_step (OpAlloc (ex_req 22%N 1%N [(1%N, 2)] true)) [];
    ex_step (OpRelease 0%N 21%N 0%N) [];
    ex_step (OpNodeAdd 2%N [(1%N, 50)] false) [];
    ex_step (OpAlloc (ex_req 14%N 0%N [(1%N, 1)] false)) [];
    ex_step (OpAlloc (ex_req 15%N 2%N [(1%N, 60)] false)) [] ].

(* the hypotheses of m_run_nodes_ledger hold on a run that exercises scheduling, release, capacity update, foreign
   add / update / removal, node addition, a new ask and a recovered (forced) allocation that drives a node negative *)
Example ex_run_hyps : SInv ex_state /\ run_ok [] ex_state ex_steps /\ length (m_run [] ex_state ex_steps) = 9%nat.
Proof. split; [apply sinv_b_sound; vm_compute; reflexivity|]. split; [apply run_ok_b_sound; vm_compute; reflexivity|].
  vm_compute. reflexivity. Qed.
Example ex_run_ledger : forallb nodes_ledger_ok (m_run [] ex_state ex_steps) = true /\
  existsb (fun s => existsb node_has_negative (s_nodes s)) (m_run [] ex_state ex_steps) = true.
Proof. vm_compute. split; reflexivity. Qed.

(* hypotheses of sched_bind_safe / sched_queue_max_ok / negative_only_forced / over_max_only_forced on the same state *)
Example ex_sched_hyps :
  find_app ex_state (ap_id ex_app) = Some ex_app /\ In ex_app (s_apps ex_state) /\ Bounded ex_state /\
  PathOK ex_state (ap_queue ex_app) /\ QInv ex_state /\ allocs_nonneg ex_state /\ no_negative ex_state /\
  (exists s', m_sched_alloc [] ex_state ex_app 13%N 1%N = Some s').
Proof. split; [reflexivity|]. split; [left; reflexivity|]. split; [apply bounded_b_sound; vm_compute; reflexivity|].
  split; [apply path_ok_b_sound; vm_compute; reflexivity|]. split; [apply qinv_b_sound; vm_compute; reflexivity|].
  split; [apply allocs_nonneg_b_sound; vm_compute; reflexivity|]. split.
  - intros n [<-|[]]. vm_compute. reflexivity.
  - eexists. vm_compute. reflexivity. Qed.

(* the hypothesis [allocs_nonneg] of negative_only_forced is necessary: releasing a foreign allocation with a NEGATIVE
   resource (the RM may report one: DESIGN finding "negative foreign resources") lowers available in a step that is
   not a forced change *)
Definition neg_state : ostate :=
  mkOS [mkON 1%N [(1%N, 10)] [(1%N, -5)] [(1%N, 12)] [(1%N, 3)] true [ex_alloc 11%N [(1%N, 12)] false] [ex_alloc 21%N [(1%N, -5)] true] []]
       [] [] None 1 0 0 [ex_alloc 21%N [(1%N, -5)] true] [] [] [].
Theorem negative_only_forced_without_nonneg_refuted :
  exists s st s', m_step [] s st = Some s' /\ SInv s /\ Bounded s /\ forced_node_change (st_op st) = false /\
                  no_negative s /\ ~ no_negative s'.
Proof. exists neg_state, (ex_step (OpRelease 0%N 21%N 0%N) []). eexists. split; [vm_compute; reflexivity|].
  split; [apply sinv_b_sound; vm_compute; reflexivity|]. split; [apply bounded_b_sound; vm_compute; reflexivity|].
  split; [reflexivity|]. split.
  - intros n [<-|[]]. vm_compute. reflexivity.
  - intros C. specialize (C _ (or_introl eq_refl)). vm_compute in C. discriminate. Qed.

(* the freshness hypothesis of n_add_ledger / [bind_key_fresh] is necessary: the node's allocation map is keyed by the
   allocation key alone, a second allocation under a listed key replaces the entry while allocated is increased *)
Theorem n_add_existing_key_refuted :
  exists n x n', node_ledger_ok n = true /\ n_add n x false = Some n' /\ node_ledger_ok n' = false.
Proof. exists ex_node, (ex_alloc 11%N [(1%N, 1)] false). eexists. split; [vm_compute; reflexivity|].
  split; vm_compute; reflexivity. Qed.
