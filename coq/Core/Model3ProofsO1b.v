(* C03 over the gang fragment (Core/Model3.v), operations, part 1b: removeAsksInternal, the placeholder timer, the
   branches of g_alloc that bind nothing to a node.
   [RemoveAsksG]: the common shape of removeAsksInternal(key) and removeAsksInternal(""): the application's request list
   shrinks, its pending ledger and the pending ledgers on its queue path drop by [delta], then the state check
   ([asks_state_check], never terminal) runs.  Instances: [app_remove_ask_step2], [app_remove_all_asks_step2] (with
   [Bounded3] of the result, for the callers that continue).
   Side hypothesis of both: the removed request is not the in-flight real half of a replacement that a node lists
   (by [LinkL1]: a cross-node in-flight real ask).  Removing it leaves the node with a record that no application owns
   ([Owned] breaks; oracle kind 303): the known-finding family "ask removed while its replacement is in flight"
   (trigger 5 and its PLACEHOLDER_REPLACED sibling, notes/m3gang.md 5.9).  A same-node in-flight ask may be removed: the
   placeholder keeps a dangling link, [LinkL2] is vacuous for the pair, [w3_link] only talks about allocation keys.
   [g_fire_ph_step2]: timeoutPlaceholderProcessing, both cases.
   [g_alloc_step2_O1]: g_alloc in the branches selected by [g_alloc_branch_O1]; [g_alloc_guards] / [g_alloc_other]: what
   g_alloc returned in every branch, for the dispatcher. *)
From Coq Require Import List ZArith NArith Bool Lia ZifyBool.
From YK Require Import Base.Int64 Base.Res Base.ResSpec Base.ResLemmas Base.ResLaws Base.ResLaws2 Base.ResLawsPred
  Core.Obs Core.Model Core.Model2 Core.Model3 Core.Ledger
  Core.BooksLemmas Core.BooksDefs Core.BooksTree Core.BooksQueue Core.BooksApp Core.BooksState Core.BooksDrain Core.BooksOps
  Core.BooksOps2 Core.Model2ProofsB1 Core.Model2ProofsB2 Core.Model3ProofsD Core.Model3ProofsD2
  Core.Model3ProofsG1 Core.Model3ProofsG2 Core.Model3ProofsG3 Core.Model3ProofsG4 Core.Model3ProofsG5
  Core.Model3ProofsA1 Core.Model3ProofsA2 Core.Model3ProofsO1.
Import ListNotations.
Open Scope Z_scope.
Set Default Timeout 30.

Lemma in_path_map s leaf F q' : In q' (path_map s leaf F) <->
  exists q, In q (s_queues s) /\ q' = if memN (q_id q) (path_ids s leaf) then F q else q.
Proof. unfold path_map. rewrite in_map_iff. split; intros (q & H1 & H2); exists q; auto. Qed.

Section RemoveAsksG.
  Variables (s : ostate) (id : N) (a a1 : oapp) (delta : res).
  Hypothesis HI2 : InvG2 s.
  Hypothesis HB : BooksG s.
  Hypothesis HBd : Bounded3 s.
  Hypothesis Ea : find_app s id = Some a.
  Hypothesis A_id : ap_id a1 = ap_id a.
  Hypothesis A_queue : ap_queue a1 = ap_queue a.
  Hypothesis A_alloc : same_alloc a a1.
  Hypothesis A_incl : incl (ap_requests a1) (ap_requests a).
  Hypothesis A_books : PendBooks a1.
  Hypothesis A_wf : AppWF3 a1.
  Hypothesis A_bd : PendBd a1.
  Hypothesis A_delta : forall k, getz (ap_pending a1) k = getz (ap_pending a) k - getz delta k.
  Hypothesis D_wf : wf delta.
  Hypothesis D_b : rb delta.
  Hypothesis D_nn : rnonneg delta.
  Hypothesis D_le : forall k, getz delta k <= getz (ap_pending a) k.
  (* an in-flight real half that a node lists stays a request *)
  Hypothesis A_keep : forall r n, In r (ap_requests a) -> infl r = true -> oa_allocated r = true -> In n (s_nodes s) -> In r (on_allocs n) ->
    In r (ap_requests a1).

  Let a2 := asks_state_check a1.
  Let s' := upd_app (q_dec_pending (upd_app s id (fun _ => a1)) (ap_queue a) delta) id asks_state_check.
  Let HI := ig2_inv s HI2.

  Lemma rk_a : In a (s_apps s) /\ ap_id a = id. Proof. apply find_app_some. exact Ea. Qed.
  Lemma rk_a2 : same_ledgers a1 a2. Proof. apply same_ledgers_state_check. Qed.
  Lemma rk_apps : s_apps s' = updk ap_id (s_apps s) (ap_id a) (fun _ => a2).
  Proof. destruct rk_a as [_ E]. unfold s'. cbn [upd_app s_apps].
    rewrite (sq_apps _ _ (q_dec_pending_same (upd_app s id (fun _ => a1)) (ap_queue a) delta)). cbn [upd_app s_apps].
    fold (updk ap_id (s_apps s) id (fun _ => a1)).
    fold (updk ap_id (updk ap_id (s_apps s) id (fun _ => a1)) id asks_state_check).
    rewrite (updk_updk_const ap_id (s_apps s) id a1 asks_state_check) by congruence. rewrite E. reflexivity. Qed.
  Lemma rk_queues : s_queues s' = path_map s (ap_queue a) (F_dec_pending delta).
  Proof. unfold s'. cbn [upd_app s_queues]. apply g_q_dec_pending_queues. reflexivity. Qed.
  Lemma rk_nodes : s_nodes s' = s_nodes s.
  Proof. unfold s'. cbn [upd_app s_nodes]. rewrite (sq_nodes _ _ (q_dec_pending_same (upd_app s id (fun _ => a1)) (ap_queue a) delta)). reflexivity. Qed.
  Lemma rk_foreign : s_foreign s' = s_foreign s.
  Proof. unfold s'. cbn [upd_app s_foreign]. rewrite (sq_foreign _ _ (q_dec_pending_same (upd_app s id (fun _ => a1)) (ap_queue a) delta)). reflexivity. Qed.
  Lemma rk_nallocs : s_nallocs s' = s_nallocs s.
  Proof. unfold s'. cbn [upd_app s_nallocs]. rewrite (sq_nallocs _ _ (q_dec_pending_same (upd_app s id (fun _ => a1)) (ap_queue a) delta)). reflexivity. Qed.

  Lemma rk_qfacts q : In q (s_queues s) -> In (q_id q) (path_ids s (ap_queue a)) ->
    QFacts q (F_dec_pending delta q) zero3 (fun k => - getz delta k) /\ QOK (F_dec_pending delta q).
  Proof. intros Hq Hin. destruct rk_a as [Ha _]. pose proof (g_qok s q HI HB HBd Hq) as Q.
    assert (Hle : forall k, getz delta k <= getz (q_pending q) k).
    { intros k. pose proof (g_pending_dominated s a HI HB Ha q k Hq Hin). specialize (D_le k). lia. }
    split; [apply F_dec_pending_Q; assumption|apply F_dec_pending_QOK; assumption]. Qed.

  Theorem remove_asks_inv : InvG s' /\ BooksG s'.
  Proof. destruct rk_a as [Ha Eid]. pose proof rk_a2 as [S1 S2 S3 S4 S5 S6 S7]. destruct A_alloc as (E1 & E2 & E3).
    apply (gang_step s s' a a2 (F_dec_pending delta) zero3 (fun k => - getz delta k) HI HB Ha rk_apps rk_queues rk_foreign); try reflexivity.
    - intros q Hq Hin. apply (rk_qfacts q Hq Hin).
    - congruence.
    - congruence.
    - apply (same_ledgers_books a1 a2 rk_a2). apply (books_of_sides a a1 A_alloc (bg_apps s HB a Ha) A_books).
    - apply (same_ledgers_wf3 a1 a2 rk_a2 A_wf).
    - apply rec_keys_incl. unfold app_records, akeys. rewrite S6, S7, E3, !map_app. apply incl_app; [|apply incl_appr, incl_refl].
      apply incl_appl. intros k Hk. apply in_map_iff in Hk. destruct Hk as (r & <- & Hr). apply in_map. apply A_incl. assumption.
    - intros k. rewrite S4, S5, E1, E2. unfold zero3. lia.
    - intros k. rewrite S3. apply A_delta.
    - rewrite rk_nodes. apply (ig_node_ids s HI).
    - rewrite rk_nodes. apply (ig_nodes s HI).
    - apply (owned_nodes_same s s' a a2 HI Ha rk_apps (eq_trans S1 A_id) rk_nodes). intros n y Hn Hy.
      apply ownedby_reqs; [congruence|]. intros Hr Hi Hal. rewrite S6. apply (A_keep y n Hr Hi Hal Hn Hy).
    - apply (onnode_nodes_same s s' a a2 HI Ha rk_apps rk_nodes). rewrite S7, E3. apply incl_refl.
    - apply (g_count_step s s' a a2 HI Ha rk_apps 0); [rewrite S7, E3; lia|rewrite rk_nallocs; lia].
    - intros k. rewrite (node_records_same s s' rk_nodes). unfold zero3. lia. Qed.

  Theorem remove_asks_link : LinkOK s'.
  Proof. destruct rk_a as [Ha Eid]. pose proof rk_a2 as [S1 S2 S3 S4 S5 S6 S7]. destruct A_alloc as (E1 & E2 & E3).
    apply (linkok_app_upd s s' a a2 HI Ha rk_apps (eq_trans S1 A_id) rk_nodes); [congruence| |apply (ig2_link s HI2)].
    intros r Hr _ _. apply A_incl. rewrite <- S6. assumption. Qed.

  Theorem remove_asks_bounded : Bounded3 s'.
  Proof. destruct rk_a as [Ha Eid]. pose proof HBd as [[_ Bq Bn] _]. apply bounded3_intro.
    - intros b' Hb'. apply (g_in_apps' s s' a a2 HI Ha rk_apps) in Hb'. destruct Hb' as [->|[Hb _]]; [|apply (bounded3_app s b' HBd Hb)].
      apply (same_ledgers_bounded3 a1 a2 rk_a2). apply AppBounded3_sides. split; [|exact A_bd].
      apply (same_alloc_bd a a1 A_alloc). apply (proj1 (AppBounded3_sides a) (bounded3_app s a HBd Ha)).
    - intros q' Hq'. rewrite rk_queues in Hq'. apply in_path_map in Hq'. destruct Hq' as (q & Hq & ->).
      destruct (memN (q_id q) (path_ids s (ap_queue a))) eqn:Em; [|apply (Bq q Hq)]. apply memN_in in Em.
      destruct (rk_qfacts q Hq Em) as [_ Q]. split; [apply (qk_ba _ Q)|apply (qk_bp _ Q)].
    - rewrite rk_nodes. exact Bn. Qed.

  Theorem remove_asks_step2 : InvG2 s' /\ BooksG s' /\ Bounded3 s'.
  Proof. destruct remove_asks_inv as [H1 H2]. split; [split; [exact H1|exact remove_asks_link]|]. split; [exact H2|exact remove_asks_bounded]. Qed.
End RemoveAsksG.

(* ================================================================== removeAsksInternal(key) *)
Definition ra_app (a : oapp) (key : N) : oapp :=
  match find_alloc (ap_requests a) key with
  | None => a
  | Some x => ap_set_lists (ap_set_ledgers a (if oa_allocated x then ap_pending a else Prune (Sub (Some (ap_pending a)) (Some (oa_res x))))
                                           (ap_allocated a) (ap_phalloc a)) (del_alloc key (ap_requests a)) (ap_allocs a)
  end.
Definition ra_delta (a : oapp) (key : N) : res :=
  match find_alloc (ap_requests a) key with Some x => if oa_allocated x then [] else oa_res x | None => [] end.

Lemma app_remove_ask_eq s id key : app_remove_ask s id key =
  match find_app s id with
  | None => Some s
  | Some a => if negb (no_res a) then None else
              match ap_requests a with
              | [] => Some s
              | _ => Some (upd_app (q_dec_pending (upd_app s id (fun _ => ra_app a key)) (ap_queue a) (ra_delta a key)) id asks_state_check)
              end
  end.
Proof. unfold app_remove_ask, ra_app, ra_delta. destruct (find_app s id) as [a|]; [|reflexivity]. destruct (negb (no_res a)); [reflexivity|].
  destruct (ap_requests a) as [|r0 t] eqn:Er; [reflexivity|]. destruct (find_alloc (r0 :: t) key); reflexivity. Qed.

Section RemoveAsk.
  Variables (s : ostate) (key : N) (a : oapp).
  Hypothesis HI : InvG s.
  Hypothesis HB : BooksG s.
  Hypothesis HBd : Bounded3 s.
  Hypothesis Ha : In a (s_apps s).
  Let W := ig_app_wf s HI a Ha.
  Let B := bg_apps s HB a Ha.
  Let Bd := proj2 (proj1 (AppBounded3_sides a) (bounded3_app s a HBd Ha)).

  Lemma ra_id : ap_id (ra_app a key) = ap_id a. Proof. unfold ra_app. destruct (find_alloc _ _); reflexivity. Qed.
  Lemma ra_queue : ap_queue (ra_app a key) = ap_queue a. Proof. unfold ra_app. destruct (find_alloc _ _); reflexivity. Qed.
  Lemma ra_same_alloc : same_alloc a (ra_app a key). Proof. unfold ra_app. destruct (find_alloc _ _); repeat split. Qed.
  Lemma ra_requests : ap_requests (ra_app a key) = del_alloc key (ap_requests a).
  Proof. unfold ra_app. destruct (find_alloc _ _) eqn:E; [reflexivity|]. symmetry. apply del_alloc_fresh. apply find_alloc_none. assumption. Qed.
  Lemma ra_incl : incl (ap_requests (ra_app a key)) (ap_requests a).
  Proof. rewrite ra_requests. intros y Hy. apply in_del_alloc in Hy. tauto. Qed.
  Lemma ra_delta_ok : wf (ra_delta a key) /\ rb (ra_delta a key) /\ rnonneg (ra_delta a key) /\
    forall k, getz (ra_delta a key) k <= getz (ap_pending a) k.
  Proof. assert (Z : wf [] /\ rb [] /\ rnonneg [] /\ forall k, getz [] k <= getz (ap_pending a) k).
    { split; [apply wf_nil|]. split; [apply rb_nil|]. split; [apply rnonneg_nil|]. intros k. rewrite getz_nil.
      apply rnonneg_fnonneg. apply (ab_nn_pend a B). }
    unfold ra_delta. destruct (find_alloc _ _) as [x|] eqn:E; [|exact Z]. destruct (oa_allocated x) eqn:Al; [exact Z|].
    apply find_alloc_some in E. destruct E as [Hx _]. destruct (w3_req a W x Hx) as [Wx Nx _ _ _].
    split; [exact Wx|]. split; [apply (proj2 Bd x Hx)|]. split; [exact Nx|]. intros k. apply g_ask_le_pending; assumption. Qed.
  Lemma ra_ok : PendBooks (ra_app a key) /\ AppWF3 (ra_app a key) /\ PendBd (ra_app a key) /\
    forall k, getz (ap_pending (ra_app a key)) k = getz (ap_pending a) k - getz (ra_delta a key) k.
  Proof. pose proof (proj2 (proj1 (AppBooks_sides a) B)) as BP. pose proof (AppWF3_raw a W) as R. pose proof (w3_req_keys a W) as Hnd.
    assert (Hrb : forall y, In y (del_alloc key (ap_requests a)) -> rb (oa_res y)).
    { intros y Hy. apply in_del_alloc in Hy. apply (proj2 Bd y). tauto. }
    unfold ra_app, ra_delta. destruct (find_alloc (ap_requests a) key) as [x|] eqn:E.
    - apply find_alloc_some in E. destruct E as [Hx Ek]. destruct (w3_req a W x Hx) as [Wx Nx _ _ _]. destruct (oa_allocated x) eqn:Al; cbv iota.
      + assert (G : PendBooks (ap_set_lists (ap_set_ledgers a (ap_pending a) (ap_allocated a) (ap_phalloc a)) (del_alloc key (ap_requests a)) (ap_allocs a)) /\
                    AppWF3 (ap_set_lists (ap_set_ledgers a (ap_pending a) (ap_allocated a) (ap_phalloc a)) (del_alloc key (ap_requests a)) (ap_allocs a)) /\
                    PendBd (ap_set_lists (ap_set_ledgers a (ap_pending a) (ap_allocated a) (ap_phalloc a)) (del_alloc key (ap_requests a)) (ap_allocs a))).
        { apply (pend_same a); try assumption; try reflexivity; [repeat split| |apply WF3_del_req; assumption].
          intros k. apc. rewrite <- Ek, asum_filter_del_in by assumption. unfold is_pending. rewrite Al. cbn [negb]. lia. }
        destruct G as (G1 & G2 & G3). split; [exact G1|split; [exact G2|split; [exact G3|]]]. intros k. apc. rewrite getz_nil. lia.
      + apply (pend_psub a _ (oa_res x)); try assumption; try reflexivity; [repeat split|apply (proj2 Bd x Hx)| |apply WF3_del_req; assumption].
        intros k. apc. rewrite <- Ek, asum_filter_del_in by assumption. unfold is_pending. rewrite Al. reflexivity.
    - split; [exact BP|split; [exact W|split; [exact Bd|]]]. intros k. rewrite getz_nil. lia. Qed.
End RemoveAsk.

(* [Hnode]: the removed request is not the in-flight real half of a replacement that a node lists (see the header) *)
Theorem app_remove_ask_step2 s id key s' : InvG2 s -> BooksG s -> Bounded3 s ->
  (forall a r n, find_app s id = Some a -> In r (ap_requests a) -> oa_key r = key -> infl r = true -> oa_allocated r = true ->
     In n (s_nodes s) -> ~ In r (on_allocs n)) ->
  app_remove_ask s id key = Some s' -> InvG2 s' /\ BooksG s' /\ Bounded3 s'.
Proof. intros HI2 HB HBd Hnode H. rewrite app_remove_ask_eq in H. destruct (find_app s id) as [a|] eqn:Ea; [|inversion H; subst s'; auto].
  destruct (negb (no_res a)); [discriminate|]. destruct (ap_requests a) as [|r0 t] eqn:Er; [inversion H; subst s'; auto|].
  inversion H; subst s'; clear H. pose proof (ig2_inv s HI2) as HI. destruct (find_app_some s id a Ea) as [Ha Eid].
  destruct (ra_ok s key a HI HB HBd Ha) as (R1 & R2 & R3 & R4). destruct (ra_delta_ok s key a HI HB HBd Ha) as (D1 & D2 & D3 & D4).
  apply (remove_asks_step2 s id a (ra_app a key) (ra_delta a key) HI2 HB HBd Ea); auto.
  - apply ra_id.
  - apply ra_queue.
  - apply ra_same_alloc.
  - apply ra_incl.
  - intros r n Hr Hi Hal Hn Hrn. rewrite ra_requests. apply in_del_alloc. split; [assumption|]. intros E.
    apply (Hnode a r n eq_refl Hr E Hi Hal Hn Hrn). Qed.

(* ================================================================== removeAsksInternal("") *)
(* [Hnode]: no in-flight real request of the application is listed by a node (no cross-node replacement in flight).
   The model's callers: g_fire_ph checks [has_link]; for g_release_all / g_app_remove [known_trigger] excludes it. *)
Theorem app_remove_all_asks_step2 s id s' : InvG2 s -> BooksG s -> Bounded3 s ->
  (forall a r n, find_app s id = Some a -> In r (ap_requests a) -> infl r = true -> oa_allocated r = true -> In n (s_nodes s) -> ~ In r (on_allocs n)) ->
  app_remove_all_asks s id = Some s' -> InvG2 s' /\ BooksG s' /\ Bounded3 s'.
Proof. intros HI2 HB HBd Hnode H. unfold app_remove_all_asks in H. destruct (find_app s id) as [a|] eqn:Ea; [|inversion H; subst s'; auto].
  destruct (negb (no_res a)); [discriminate|]. destruct (ap_requests a) as [|r0 t] eqn:Er; [inversion H; subst s'; auto|].
  inversion H; subst s'; clear H. pose proof (ig2_inv s HI2) as HI. destruct (find_app_some s id a Ea) as [Ha Eid].
  pose proof (ig_app_wf s HI a Ha) as W. pose proof (bg_apps s HB a Ha) as B. pose proof (bounded3_app s a HBd Ha) as [Bd _].
  apply (remove_asks_step2 s id a _ (ap_pending a) HI2 HB HBd Ea); try reflexivity.
  - repeat split.
  - intros y [].
  - apply LBk_nil.
  - apply (WF3_wf_of a); try reflexivity; [assumption|repeat split| |apply wf_nil]. apply WF3_nil_req with (reqs := ap_requests a). apply AppWF3_raw. assumption.
  - split; [apply rb_nil|intros y []].
  - intros k. apc. rewrite getz_nil. lia.
  - apply (w3_pending a W).
  - apply (abd_pending a Bd).
  - apply (ab_nn_pend a B).
  - intros r n Hr Hi Hal Hn Hrn. exfalso. apply (Hnode a r n eq_refl Hr Hi Hal Hn Hrn). Qed.

(* ================================================================== timeoutPlaceholderProcessing *)
Lemma has_link_false l : has_link l = false -> forall x, In x l -> oa_release x = 0%N.
Proof. unfold has_link. intros H x Hx. destruct (N.eqb_spec (oa_release x) 0) as [E|E]; [assumption|]. exfalso.
  assert (C : existsb (fun x => negb (oa_release x =? 0)%N) l = true).
  { apply existsb_exists. exists x. split; [assumption|]. apply negb_true_iff. apply N.eqb_neq. assumption. }
  congruence. Qed.
(* the records the nodes list after the release marks: the old ones up to flags *)
Lemma release_marks_node_rec l : forall s app n' y', In n' (s_nodes (release_marks s app l)) -> In y' (on_allocs n') ->
  exists n y, In n (s_nodes s) /\ In y (on_allocs n) /\ oa_app y' = oa_app y /\ infl y' = infl y.
Proof. unfold release_marks. induction l as [|x t IH]; intros s app n' y' Hn' Hy'; [exists n', y'; auto|]. cbn [fold_left] in Hn'.
  destruct (oa_preempted x); [apply (IH s app n' y' Hn' Hy')|].
  destruct (IH _ app n' y' Hn' Hy') as (n1 & y1 & Hn1 & Hy1 & E1 & E2). rewrite obj_upd_nodes in Hn1. apply in_map_iff in Hn1.
  destruct Hn1 as (n & <- & Hn). cbn [rmap_node n_with on_allocs] in Hy1. apply in_map_iff in Hy1. destruct Hy1 as (y & <- & Hy).
  pose proof (flag_only_hk app (oa_key x) _ (flag_only_released true)) as F. exists n, y. split; [assumption|]. split; [assumption|].
  rewrite E1, E2, (fo_app _ F), (flag_only_infl _ y F). auto. Qed.

(* case 2 after the state change: everything is marked released, the placeholder data is updated, all asks are removed,
   the timer is cleared.  L1, L2, pd: whatever the model computes. *)
Lemma fire_ph_case2 s id a a1 L1 L2 pd s5 : InvG2 s -> BooksG s -> Bounded3 s -> find_app s id = Some a -> same_core a a1 ->
  has_link (ap_requests a) = false -> has_link (ap_allocs a) = false ->
  app_remove_all_asks (upd_app (release_marks (release_marks (upd_app s id (fun _ => a1)) id L1) id L2) id
                                (fun b => ap_with_ph b pd (ap_phtimer b) (ap_statetimer b) (ap_hasph b))) id = Some s5 ->
  InvG2 (upd_app s5 id (fun b => ap_with_ph b (ap_phdata b) false (ap_statetimer b) (ap_hasph b))) /\
  BooksG (upd_app s5 id (fun b => ap_with_ph b (ap_phdata b) false (ap_statetimer b) (ap_hasph b))).
Proof. intros HI2 HB HBd Ea S Hlr Hla H5. destruct (find_app_some s id a Ea) as [Ha Eid]. pose proof (ig2_inv s HI2) as HI.
  assert (C1 : forall b, In b (s_apps s) -> ap_id b = id -> same_core b a1).
  { intros b Hb Eb. assert (b = a) by (apply (g_same_app s a b HI Ha Hb); congruence). subst b. exact S. }
  destruct (core_upd_step2 s id (fun _ => a1) C1 HI2 HB) as [I1 B1]. pose proof (core_upd_bounded3 s id (fun _ => a1) C1 HBd) as D1.
  set (s1 := upd_app s id (fun _ => a1)) in *.
  destruct (release_marks_step2 L1 s1 id I1 B1) as [I2 B2]. pose proof (release_marks_bounded3 L1 s1 id (ig2_inv _ I1) B1 D1) as D2.
  set (s2 := release_marks s1 id L1) in *.
  destruct (release_marks_step2 L2 s2 id I2 B2) as [I3 B3]. pose proof (release_marks_bounded3 L2 s2 id (ig2_inv _ I2) B2 D2) as D3.
  set (s3 := release_marks s2 id L2) in *.
  assert (C4 : forall b, In b (s_apps s3) -> ap_id b = id -> same_core b (ap_with_ph b pd (ap_phtimer b) (ap_statetimer b) (ap_hasph b)))
    by (intros b _ _; apply ap_with_ph_core).
  destruct (core_upd_step2 s3 id _ C4 I3 B3) as [I4 B4]. pose proof (core_upd_bounded3 s3 id _ C4 D3) as D4.
  set (s4 := upd_app s3 id (fun b => ap_with_ph b pd (ap_phtimer b) (ap_statetimer b) (ap_hasph b))) in *.
  (* no node of s4 lists an in-flight real half of the application: the application had no link at all *)
  assert (Hnode : forall a4 r n, find_app s4 id = Some a4 -> In r (ap_requests a4) -> infl r = true -> oa_allocated r = true ->
                    In n (s_nodes s4) -> ~ In r (on_allocs n)).
  { intros a4 r n E4 Hr Hi _ Hn Hrn. destruct (find_app_some s4 id a4 E4) as [Ha4 Eid4].
    assert (Er : oa_app r = id) by (rewrite (g_record_app s4 a4 r (ig2_inv _ I4) Ha4); [assumption|apply in_records; auto]).
    change (s_nodes s4) with (s_nodes s3) in Hn.
    destruct (release_marks_node_rec L2 s2 id n r Hn Hrn) as (n2 & y2 & Hn2 & Hy2 & Ea2 & Ei2).
    destruct (release_marks_node_rec L1 s1 id n2 y2 Hn2 Hy2) as (n1 & y1 & Hn1 & Hy1 & Ea1 & Ei1).
    change (s_nodes s1) with (s_nodes s) in Hn1.
    assert (Hz : oa_release y1 = 0%N).
    { destruct (g_owner s n1 y1 a HI Hn1 Hy1 Ha) as [Ho|(_ & Ho & _)]; [congruence|apply (has_link_false _ Hla y1 Ho)|apply (has_link_false _ Hlr y1 Ho)]. }
    rewrite Ei2, Ei1 in Hi. unfold infl in Hi. rewrite Hz in Hi. cbn in Hi. rewrite andb_false_r in Hi. discriminate. }
  destruct (app_remove_all_asks_step2 s4 id s5 I4 B4 D4 Hnode H5) as (I5 & B5 & _).
  apply core_upd_step2; auto. intros b _ _. apply ap_with_ph_core. Qed.

(* [Hst]: a placeholder timeout of an application that is already Failing is not announced as a change to Failing.
   Otherwise the model fires Fail on a Failing application (Failing -> Failed: the request list is dropped by cleanupAsks
   while the pending ledger stays, and g_fire_ph does not move the terminated application out of the live list): the
   application's books break.  The Go scheduler cannot get there: Failing is only entered by this very timeout, which
   clears the timer. *)
Theorem g_fire_ph_step2 s evs id s' : InvG2 s -> BooksG s -> Bounded3 s ->
  (forall a, find_app s id = Some a -> ap_state a = ST_Failing -> has_state_event evs id ST_Failing = false) ->
  g_fire_ph s evs id = Some s' -> InvG2 s' /\ BooksG s'.
Proof. intros HI2 HB HBd Hst H. unfold g_fire_ph in H. destruct (find_app s id) as [a|] eqn:Ea; [|discriminate].
  destruct (negb (ap_phtimer a)); [discriminate|].
  destruct (((ap_state a =? ST_Running)%N || (ap_state a =? ST_Completing)%N) && negb (IsZero (Some (ap_phalloc a)))).
  - inversion H; subst s'. destruct (release_marks_step2 (filter (fun x => oa_ph x && negb (oa_released x)) (ap_allocs a)) s id HI2 HB) as [HI1 HB1].
    apply core_upd_step2; auto. intros b _ _. apply ap_with_ph_core.
  - destruct (negb (no_res a) || has_link (ap_requests a) || has_link (ap_allocs a)) eqn:Eg; [discriminate|].
    apply orb_false_iff in Eg. destruct Eg as [Eg Hla]. apply orb_false_iff in Eg. destruct Eg as [_ Hlr].
    cbv zeta in H.
    remember (if has_state_event evs id ST_Failing then Some AvFail else if has_state_event evs id ST_Resuming then Some AvResume else None) as ev eqn:Eev.
    match type of H with (if negb ?ok then _ else _) = _ => destruct (negb ok); [discriminate|] end.
    assert (S : same_core a (match ev with Some e => app_fire a e | None => a end)).
    { destruct (has_state_event evs id ST_Failing) eqn:Ef.
      - subst ev. apply app_fire_core. intros st' E. rewrite (fsm3_fail _ _ E). destruct (N.eqb_spec (ap_state a) ST_Failing) as [C|C]; [|reflexivity].
        specialize (Hst a eq_refl C). congruence.
      - destruct (has_state_event evs id ST_Resuming); subst ev; [apply app_fire_resume_core|apply same_core_refl]. }
    match type of H with (match app_remove_all_asks ?S4 id with _ => _ end) = _ => destruct (app_remove_all_asks S4 id) as [s5|] eqn:E5; [|discriminate] end.
    inversion H; subst s'. apply (fire_ph_case2 s id a _ _ _ _ s5 HI2 HB HBd Ea S Hlr Hla E5). Qed.

(* ================================================================== the branches of g_alloc that bind nothing to a node *)
(* [g_alloc_branch_O1 s r = true]: a placeholder without task group (rejected), a new ask (no node named), the real ask of
   an in-flight replacement addressed without a resource change.  The other branches (g_recovered, g_update_existing):
   [g_alloc_other]. *)
Definition inflight_unchanged (s : ostate) (r : oreq) (x0 : oalloc) : bool :=
  negb (oa_ph x0) && negb (oa_release x0 =? 0)%N && oa_allocated x0 && res_eqz (oa_res x0) (oget (rq_res r))
  && match find_node s (oa_node x0) with Some _ => true | None => false end.
Definition g_alloc_branch_O1 (s : ostate) (r : oreq) : bool :=
  (rq_ph r && (rq_tg r =? 0)%N) ||
  match find_app s (rq_app r) with
  | None => false
  | Some a => match find_alloc (ap_requests a) (rq_key r) with
              | None => (rq_node r =? 0)%N
              | Some x0 => inflight_unchanged s r x0
              end
  end.

Lemma alloc_of_req_ok3 s r a : ReqOK3 s r -> rq_foreign r = false -> ap_id a = rq_app r -> StrictlyGreaterThanZero (rq_res r) = true ->
  AllocOK3 (ap_id a) (alloc_of_req r) /\ rb (oa_res (alloc_of_req r)).
Proof. intros (Hw & Hb & _) Hfo Eid Hs. destruct (rq_res r) as [rr|] eqn:Er; [|discriminate]. cbn [oget] in *.
  split; [constructor|]; cbn [alloc_of_req oa_res oa_app oa_foreign]; rewrite ?Er; cbn [oget]; auto.
  - apply sgtz_rnonneg. assumption.
  - cbn [StrictlyGreaterThanZero] in Hs. apply andb_true_iff in Hs. destruct Hs as [_ Hs]. apply existsb_exists in Hs.
    destruct Hs as (kv & Hin & Hp). exists kv. split; [assumption|lia]. Qed.

(* what the guards of g_alloc give on every path behind the task-group check *)
Lemma g_alloc_guards s r s' : g_alloc s r = Some s' -> (rq_ph r && (rq_tg r =? 0)%N) = false ->
  rq_foreign r = false /\ exists a, find_app s (rq_app r) = Some a /\ StrictlyGreaterThanZero (rq_res r) = true /\ IsZero (rq_res r) = false /\
  match find_alloc (ap_requests a) (rq_key r) with
  | None => if (rq_node r =? 0)%N then s' = g_new_ask s a (alloc_of_req r)
            else rq_ph r = true /\ exists n, find_node s (rq_node r) = Some n /\ g_recovered s a n (alloc_of_req r) = Some s'
  | Some x0 => if inflight_unchanged s r x0 then s' = s else g_update_existing s a x0 r = Some s'
  end.
Proof. intros H Htg. unfold g_alloc in H. destruct (rq_foreign r); [rewrite orb_true_r in H; discriminate|].
  destruct (negb (rq_partition_ok r) || false); [discriminate|]. rewrite Htg in H. split; [reflexivity|].
  destruct (find_app s (rq_app r)) as [a|]; [|discriminate]. exists a. split; [reflexivity|].
  match type of H with (if ?c then None else _) = _ => destruct c; [discriminate|] end.
  destruct (IsZero (rq_res r) || negb (StrictlyGreaterThanZero (rq_res r))) eqn:Ez; [discriminate|]. apply orb_false_iff in Ez. destruct Ez as [Ez1 Ez2].
  apply negb_false_iff in Ez2. split; [assumption|]. split; [assumption|].
  destruct (find_alloc (ap_requests a) (rq_key r)) as [x0|].
  - fold (inflight_unchanged s r x0) in H. destruct (inflight_unchanged s r x0); [inversion H; reflexivity|exact H].
  - destruct (rq_node r =? 0)%N.
    + destruct (live_for_ask (ap_state a) && _); [inversion H; reflexivity|discriminate].
    + destruct (rq_ph r); [|discriminate]. split; [reflexivity|]. destruct (find_node s (rq_node r)) as [n|]; [|discriminate]. exists n. auto. Qed.

Theorem g_alloc_step2_O1 s r s' : InvG2 s -> BooksG s -> Bounded3 s -> ReqOK3 s r -> g_alloc_branch_O1 s r = true ->
  g_alloc s r = Some s' -> InvG2 s' /\ BooksG s'.
Proof. intros HI2 HB HBd RO Hbr H. destruct (rq_ph r && (rq_tg r =? 0)%N) eqn:Htg.
  - unfold g_alloc in H. destruct (negb (rq_partition_ok r) || rq_foreign r); [discriminate|]. rewrite Htg in H. inversion H; subst s'. auto.
  - destruct (g_alloc_guards s r s' H Htg) as (Hfo & a & Ea & Hs & Hz & Hm). unfold g_alloc_branch_O1 in Hbr. rewrite Htg, Ea in Hbr. cbn [orb] in Hbr.
    destruct (find_alloc (ap_requests a) (rq_key r)) as [x0|] eqn:Ex.
    + rewrite Hbr in Hm. subst s'. auto.
    + rewrite Hbr in Hm. subst s'. destruct (find_app_some s _ a Ea) as [Ha Eid].
      destruct (alloc_of_req_ok3 s r a RO Hfo Eid Hs) as [Xok Xb].
      apply (g_new_ask_step2 s a (alloc_of_req r) HI2 HB HBd Ha Xok Xb).
      * cbn [alloc_of_req oa_allocated]. rewrite Hbr. reflexivity.
      * destruct RO as (_ & _ & Hfr). apply (Hfr a Ea Ex). Qed.
(* the branches left to the other operation lemmas *)
Theorem g_alloc_other s r s' : g_alloc s r = Some s' -> g_alloc_branch_O1 s r = false ->
  rq_foreign r = false /\ exists a, find_app s (rq_app r) = Some a /\ StrictlyGreaterThanZero (rq_res r) = true /\ IsZero (rq_res r) = false /\
  ((find_alloc (ap_requests a) (rq_key r) = None /\ (rq_node r =? 0)%N = false /\ rq_ph r = true /\
    exists n, find_node s (rq_node r) = Some n /\ g_recovered s a n (alloc_of_req r) = Some s') \/
   (exists x0, find_alloc (ap_requests a) (rq_key r) = Some x0 /\ inflight_unchanged s r x0 = false /\ g_update_existing s a x0 r = Some s')).
Proof. intros H Hbr. unfold g_alloc_branch_O1 in Hbr. apply orb_false_iff in Hbr. destruct Hbr as [Htg Hbr].
  destruct (g_alloc_guards s r s' H Htg) as (Hfo & a & Ea & Hs & Hz & Hm). split; [assumption|]. exists a. rewrite Ea in Hbr.
  split; [assumption|]. split; [assumption|]. split; [assumption|].
  destruct (find_alloc (ap_requests a) (rq_key r)) as [x0|].
  - right. exists x0. rewrite Hbr in Hm. auto.
  - left. rewrite Hbr in Hm. destruct Hm as [Hp Hn]. auto. Qed.
