(* C01 over the fourth fragment of the operational model (Core/Model4.v, [m_step_resv] / [m_step4]): the node ledger
   invariant [SInv] of Core/StepProofs.v is preserved by every step the fragment accepts, hence holds in every state a
   run of [m_step4] reaches; bind safety of an admitted Allocated / AllocatedReserved decision.
   Reservation writers, the preempting ledger and the marks are frames (Core/Model4ProofsF.v); releases, application /
   node removal and in-place updates reuse the theorems of Core/StepProofs.v and Core/Model2ProofsN.v on the state with
   the reservation list hidden. *)
From Coq Require Import List ZArith NArith Bool Lia ZifyBool.
From YK Require Import Base.Int64 Base.Int64Laws Base.Res Base.ResSpec Base.ResLemmas Base.ResLaws Base.ResLaws2
  Base.ResLawsPred Core.Obs Core.Model Core.Model2 Core.Ledger Core.Model4 Core.NodeProofs Core.QueueProofs Core.StepProofs
  Core.Model2ProofsN Core.Model4ProofsF Oracles.CoreC01.
Import ListNotations.
Open Scope Z_scope.
Set Default Timeout 30.

(* ------------------------------------------------------------------ steps that keep the nodes and only shrink the requests *)
Definition Shrink (s s' : ostate) : Prop := s_nodes s' = s_nodes s /\ forall P : oalloc -> Prop, reqs_from P s -> reqs_from P s'.
Lemma Shrink_refl s : Shrink s s. Proof. split; auto. Qed.
Lemma Shrink_trans s1 s2 s3 : Shrink s1 s2 -> Shrink s2 s3 -> Shrink s1 s3.
Proof. intros [A1 A2] [B1 B2]. split; [congruence|auto]. Qed.
Lemma Shrink_same s s' : s_nodes s' = s_nodes s -> s_apps s' = s_apps s -> Shrink s s'.
Proof. intros En Ea. split; [exact En|]. intros P. apply reqs_same. exact Ea. Qed.
Lemma Shrink_upd_app s id g : (forall b x, In x (ap_requests (g b)) -> In x (ap_requests b)) -> Shrink s (upd_app s id g).
Proof. intros Hg. split; [reflexivity|]. intros P HR. apply reqs_upd_app; [exact HR|]. intros b x Hb _ Hx. eapply HR; [exact Hb|]. apply Hg. exact Hx. Qed.
Lemma Shrink_sinv s s' : Shrink s s' -> SInv s -> SInv s'.
Proof. intros [En HR] [H1 H2 H3]. split; [rewrite En; exact H1|rewrite En; exact H2|apply HR; exact H3]. Qed.
Lemma Shrink_q_dec s leaf r : Shrink s (q_dec s leaf r).
Proof. destruct (q_dec_frame s leaf r). apply Shrink_same; assumption. Qed.

(* ------------------------------------------------------------------ m_bind: the ledger part of a scheduling decision *)
Lemma m_bind_inv s a ask n nid s' : m_bind s a ask n nid = Some s' ->
  exists n' s1 a2,
    n_add n (oa_bound ask nid) false = Some n' /\ q_try_inc s (ap_queue a) (oa_res ask) = Some s1 /\
    s_nodes s' = set_node (s_nodes s) nid n' /\
    s_apps s' = s_apps (upd_app s (ap_id a) (fun _ => a2)) /\ ap_requests a2 = put_alloc (oa_bound ask nid) (ap_requests a).
Proof. unfold m_bind. intros H.
  destruct (n_add n (oa_bound ask nid) false) as [n'|] eqn:E7; [|discriminate].
  destruct (q_try_inc s (ap_queue a) (oa_res ask)) as [s1|] eqn:E8; [|discriminate].
  inversion H; subst s'; clear H.
  destruct (q_try_inc_only_path _ _ _ _ E8) as (_ & Hn1 & Ha1 & _).
  eexists n', s1, _. repeat (split; [first [reflexivity|assumption]|]).
  split; [cbn [add_counts upd_app q_dec_pending on_path upd_queues upd_node s_nodes]; rewrite Hn1; reflexivity|].
  split; [cbn [add_counts upd_app q_dec_pending on_path upd_queues upd_node s_apps]; rewrite Ha1; reflexivity|].
  cbn [ap_with ap_requests]. rewrite ap_event_requests. reflexivity. Qed.

Lemma m_bind_sinv s a ask n nid s' : m_bind s a ask n nid = Some s' -> In a (s_apps s) -> In ask (ap_requests a) ->
  find_node s nid = Some n -> SInv s -> Bounded s -> ~ In (oa_key ask) (akeys (on_allocs n)) -> SInv s'.
Proof. intros H Hina Hask En HI HB Hf.
  destruct (m_bind_inv _ _ _ _ _ _ H) as (n' & s1 & a2 & Eadd & _ & Enodes & Eapps & Ereq).
  destruct (find_node_some _ _ _ En) as [Hin Hid].
  assert (Rk : req_ok ask) by (eapply (si_reqs _ HI); eassumption). destruct Rk as [Wr Efor].
  assert (Sr : rsmall (oa_res ask)) by (eapply (bd_reqs _ HB); eassumption).
  eapply (SInv_set_node s _ nid n'); [exact Enodes| | | |exact HI].
  - eapply n_add_ledger; [exact Eadd|apply HI; assumption|apply HI; assumption|apply HB; assumption|exact Wr|exact Sr|].
    unfold alloc_list_of. cbn [oa_bound oa_foreign oa_key]. rewrite Efor. exact Hf.
  - eapply n_add_wf; [exact Eadd|apply HI; assumption|exact Wr].
  - eapply reqs_set_app; [exact Eapps| |apply HI]. intros y Hy. rewrite Ereq in Hy. apply in_put_alloc in Hy.
    destruct Hy as [->|Hy]; [split; [exact Wr|exact Efor]|]. eapply (si_reqs _ HI); eassumption. Qed.

Lemma m_sched_alloc4_inv deny s a k nid s' : m_sched_alloc4 deny s a k nid = Some s' ->
  exists ask n s1, find_alloc (ap_requests a) k = Some ask /\ find_node s nid = Some n /\ oa_allocated ask = false /\ oa_ph ask = false /\
    sched_path_ok a n ask = true /\ try_node_guard deny n ask = true /\ m_bind s a ask n nid = Some s1 /\
    s' = r_part_unreserve s1 (ap_id a) k.
Proof. unfold m_sched_alloc4. intros H.
  destruct (find_alloc (ap_requests a) k) as [ask|] eqn:Eask; [|discriminate].
  destruct (find_node s nid) as [n|] eqn:En; [|discriminate].
  destruct (oa_allocated ask) eqn:E1; [discriminate|]. destruct (oa_ph ask) eqn:E2; [discriminate|]. cbn [orb] in H.
  destruct (sched_path_ok a n ask && try_node_guard deny n ask) eqn:E3; [|discriminate]. cbn [negb] in H.
  destruct (m_bind s a ask n nid) as [s1|] eqn:E4; [|discriminate]. inversion H; subst s'; clear H.
  apply andb_true_iff in E3. destruct E3 as [E3 E5]. exists ask, n, s1. repeat (split; [first [reflexivity|assumption]|]). reflexivity. Qed.

Lemma m_sched_alloc4_sinv deny s a k nid s' : m_sched_alloc4 deny s a k nid = Some s' -> In a (s_apps s) ->
  SInv s -> Bounded s -> (forall n, find_node s nid = Some n -> ~ In k (akeys (on_allocs n))) -> SInv s'.
Proof. intros H Hina HI HB Hf. destruct (m_sched_alloc4_inv _ _ _ _ _ _ H) as (ask & n & s1 & Eask & En & _ & _ & _ & _ & Eb & ->).
  destruct (find_alloc_some _ _ _ Eask) as [Hask Ek].
  eapply LFrame_sinv; [apply LFrame_part_unreserve|]. eapply m_bind_sinv; try eassumption. rewrite Ek. apply Hf. exact En. Qed.

(* ------------------------------------------------------------------ C01d.2: bind safety of an admitted decision *)
(* the node is unreserved or carries a reservation under THIS allocation key *)
Definition reserved_ok (n : onode) (k : N) : Prop := on_reservations n = [] \/ exists p, In p (on_reservations n) /\ snd p = k.

Theorem sched4_bind_safe deny s a k nid s' : m_sched_alloc4 deny s a k nid = Some s' ->
  (forall n, In n (s_nodes s) -> NodeLedger n) ->
  exists ask n, find_alloc (ap_requests a) k = Some ask /\ find_node s nid = Some n /\
    oa_allocated ask = false /\
    fits_free n (oa_res ask) = true /\                                  (* fits capacity - occupied - allocated *)
    reserved_ok n k /\                                                  (* never a node reserved for other asks only *)
    existsb (fun p => (fst p =? k)%N && (snd p =? nid)%N) deny = false /\   (* the predicate admits the node *)
    (oa_reqnode ask = 0%N \/ oa_reqnode ask = nid \/ In (nid, k) (ap_reservations a)) /\
    (* an unschedulable node only through the reservation / required-node path (known finding C01-reserved-drained) *)
    (on_sched n = true \/ In (nid, k) (ap_reservations a) \/ oa_reqnode ask = nid).
Proof. intros H HL. destruct (m_sched_alloc4_inv _ _ _ _ _ _ H) as (ask & n & s1 & Eask & En & Ena & _ & Ep & Eg & Eb & _).
  exists ask, n. destruct (find_node_some _ _ _ En) as [Hin Hid]. destruct (find_alloc_some _ _ _ Eask) as [_ Ek].
  unfold m_bind in Eb. destruct (n_add n (oa_bound ask nid) false) as [n'|] eqn:Eadd; [|discriminate].
  assert (F : fits_free n (oa_res ask) = true) by (apply (n_add_fits n (oa_bound ask nid) n' Eadd); auto).
  unfold try_node_guard in Eg. rewrite !andb_true_iff in Eg. destruct Eg as [[[G1 G2] G3] G4].
  assert (Eown : existsb (fun p => (fst p =? on_id n)%N && (snd p =? oa_key ask)%N) (ap_reservations a) = true -> In (nid, k) (ap_reservations a)).
  { intros E. apply existsb_exists in E. destruct E as ([n0 k0] & Hp & E). cbn [fst snd] in E. apply andb_true_iff in E. destruct E as [E1 E2].
    apply N.eqb_eq in E1, E2. subst n0 k0. rewrite Hid, Ek in Hp. exact Hp. }
  repeat (split; [first [assumption|reflexivity]|]). split; [|split; [|split]].
  - apply orb_true_iff in G2. destruct G2 as [G2|G2].
    + left. destruct (on_reservations n); [reflexivity|discriminate].
    + right. apply existsb_exists in G2. destruct G2 as (p & Hp & E). exists p. split; [exact Hp|]. unfold key_is in E. apply N.eqb_eq in E. congruence.
  - apply negb_true_iff in G4. rewrite Ek, Hid in G4. exact G4.
  - unfold sched_path_ok in Ep. destruct (existsb _ (ap_reservations a)) eqn:Eo; [right; right; apply Eown; reflexivity|].
    destruct (oa_reqnode ask =? 0)%N eqn:Er; cbn [negb] in Ep; [left; apply N.eqb_eq; exact Er|]. right. left. apply N.eqb_eq in Ep. congruence.
  - unfold sched_path_ok in Ep. destruct (existsb _ (ap_reservations a)) eqn:Eo; [right; left; apply Eown; reflexivity|].
    destruct (oa_reqnode ask =? 0)%N eqn:Er; cbn [negb] in Ep; [|right; right; apply N.eqb_eq in Ep; congruence].
    left. rewrite !andb_true_iff in Ep. tauto. Qed.

(* in the terms of the oracle of C01 ([bind_check], Core/Ledger.v), under the reservation invariant of C09d that a
   reservation a node lists under a key belongs to the application that holds the ask *)
Theorem sched4_bind_check deny s a k nid s' : m_sched_alloc4 deny s a k nid = Some s' ->
  find_app s (ap_id a) = Some a -> (forall n, In n (s_nodes s) -> NodeLedger n) ->
  (forall n p, find_node s nid = Some n -> In p (on_reservations n) -> snd p = k -> fst p = ap_id a) ->
  (forall ask, find_alloc (ap_requests a) k = Some ask -> In (nid, k) (ap_reservations a) -> oa_reqnode ask = 0%N \/ oa_reqnode ask = nid) ->
  (forall n, find_node s nid = Some n -> In (nid, k) (ap_reservations a) -> In (ap_id a, k) (on_reservations n)) ->
  exists ask, find_ask s (ap_id a) k = Some ask /\
    (bind_check deny s (ap_id a) k nid (oa_res ask) (oa_reqnode ask) = BindOk \/
     bind_check deny s (ap_id a) k nid (oa_res ask) (oa_reqnode ask) = BindKnown 50).
Proof. intros H Ha HL Hown Hreq Hview. destruct (sched4_bind_safe _ _ _ _ _ _ H HL) as (ask & n & Eask & En & Ena & F & R & D & Q & S).
  exists ask. unfold find_ask. rewrite Ha. split; [exact Eask|]. unfold bind_check. rewrite En, F. cbn [negb].
  assert (Hq : oa_reqnode ask = 0%N \/ oa_reqnode ask = nid) by (destruct Q as [Q|[Q|Q]]; auto; apply (Hreq ask Eask Q)).
  assert (B : match blocking_reservations s n nid (oa_reqnode ask) with [] => true
              | rs => existsb (fun p => (fst p =? ap_id a)%N && (snd p =? k)%N) rs end = true).
  { destruct R as [R|(p & Hp & Ep)].
    - unfold blocking_reservations. rewrite R. destruct (_ && _); reflexivity.
    - assert (Hin : In p (blocking_reservations s n nid (oa_reqnode ask))).
      { unfold blocking_reservations. destruct (negb (oa_reqnode ask =? 0)%N && (oa_reqnode ask =? nid)%N) eqn:Eb; [|exact Hp].
        apply filter_In. split; [exact Hp|]. rewrite (Hown n p En Hp Ep), Ha, Ep, Eask.
        apply andb_true_iff in Eb. apply Eb. }
      destruct (blocking_reservations s n nid (oa_reqnode ask)) as [|p0 t] eqn:Eb; [reflexivity|]. rewrite <- Eb in *.
      apply existsb_exists. exists p. split; [exact Hin|]. rewrite (Hown n p En Hp Ep), Ep, !N.eqb_refl. reflexivity. }
  rewrite B. cbn [negb].
  assert (E5 : (oa_reqnode ask =? 0)%N || (oa_reqnode ask =? nid)%N = true) by (destruct Hq as [-> | ->]; rewrite ?N.eqb_refl, ?orb_true_r; reflexivity).
  rewrite E5, D. cbn [negb]. destruct (on_sched n) eqn:Es; cbn [negb]; [left; reflexivity|]. right.
  destruct S as [S|[S|S]]; [discriminate| |].
  - assert (Er : reserved_for n (ap_id a) k = true).
    { unfold reserved_for. apply existsb_exists. exists (ap_id a, k). split; [apply (Hview n En S)|]. cbn [fst snd]. rewrite !N.eqb_refl. reflexivity. }
    rewrite Er. reflexivity.
  - rewrite S, N.eqb_refl, orb_true_r. reflexivity. Qed.
