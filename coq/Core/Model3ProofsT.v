(* C03 over the gang fragment: the step theorem.  Every step [m_step_gang] accepts preserves the invariant [InvG2]
   (Core/Model3ProofsD.v, D2.v) and the books ([Books] of Core/BooksDefs.v = the oracle [c03_state s = []]).
   The operation lemmas are in Core/Model3ProofsO1..O5*.v; this file collects the step hypotheses ([StepOK3x]),
   dispatches, and gives the boolean (vm_compute) forms of the hypotheses. *)
From Coq Require Import List ZArith NArith Bool Lia ZifyBool.
From YK Require Import Base.Int64 Base.Res Base.ResSpec Base.ResLemmas Core.Obs Core.Model Core.Model2 Core.Model3 Core.Ledger
  Core.BooksLemmas Core.BooksDefs Core.Model3ProofsD Core.Model3ProofsD2 Core.Model3ProofsG1 Core.Model3ProofsA1 Core.Model3ProofsA2
  Core.Model3ProofsO1 Core.Model3ProofsO1b Core.Model3ProofsO2 Core.Model3ProofsO2b Core.Model3ProofsO3 Core.Model3ProofsO3c
  Core.Model3ProofsO4 Core.Model3ProofsO4b Core.Model3ProofsO4d Core.Model3ProofsO5.
Import ListNotations.
Open Scope Z_scope.
Set Default Timeout 60.

(* ------------------------------------------------------------------ per-state hypotheses (checkable, carried like Bounded3) *)
(* an application in the live list is not terminated (terminated applications are moved to the completed list
   before the step ends); no node lists a record with key 0 (0 encodes "no link": names are interned to positive
   numbers) *)
Definition LiveOK (s : ostate) : Prop := forall a, In a (s_apps s) -> is_terminal (ap_state a) = false.
Record StateOK3 (s : ostate) : Prop := mkSO3 { so3_live : LiveOK s; so3_keys : NodeKeysNZ s }.

(* ------------------------------------------------------------------ per-step hypotheses *)
(* release of one key:
   - [CompletingOK]: a Completing application does not hold real allocations and placeholders at the same time
     (removeAllocationInternal completes it when the last real allocation goes although placeholders remain);
   - [confirm_ok_b]: a replacement confirmation does not terminate the application (known finding: the real
     allocation would be added to an application that leaves the live list);
   - a key that is only a request is not the real half of a cross-node replacement a node already lists (known
     finding trigger 5 for every termination type but PLACEHOLDER_REPLACED; notes/m3gang.md finding 9 for that one) *)
Definition ReleaseOK3 (s : ostate) (app key ttype : N) : Prop :=
  forall a, find_app s app = Some a ->
    CompletingOK a /\ confirm_ok_b s app key ttype = true /\
    (find_alloc (ap_allocs a) key = None -> existsb (fun x => (oa_key x =? key)%N) (xnode_inflight_reals a) = false).

(* a scheduling cycle: after the cancellations (flags only)
   - a replacement start satisfies [SwapOK] (Core/Model3ProofsO3.v): placeholder key non-zero, the placeholder is not
     being replaced already, no other placeholder links to the chosen ask;
   - an ask that is bound (placeholder or real) carries no link and no allocated placeholder links to its key *)
Definition SchedOK3 (s : ostate) (st : ostep) : Prop :=
  let rels := releases_of (st_events st) in
  let touts := filter (fun p => (snd p =? TT_Timeout)%N) rels in
  let repl := filter (fun p => (snd p =? TT_PlaceholderReplaced)%N) rels in
  (forall phk app t, repl = [(phk, app, t)] -> SwapOK s (st_obs st) app phk) /\
  (forall s1 k app nid a, g_cancel_all s touts = Some s1 -> newallocs_of (st_events st) = [(k, app, nid)] ->
     find_app s1 app = Some a ->
     (forall ask, find_alloc (ap_requests a) k = Some ask -> oa_release ask = 0%N) /\ unlinked (ap_allocs a) k).

(* the placeholder timer of a Failing application is not announced as "Failing" again (cannot happen: Failing is
   entered by this very timeout, which clears the timer) *)
Definition FirePhOK (s : ostate) (evs : list oevent) (id : N) : Prop :=
  forall a, find_app s id = Some a -> ap_state a = ST_Failing -> has_state_event evs id ST_Failing = false.

Definition StepOK3x (NodeRemoveOK : ostate -> ostep -> N -> Prop) (s : ostate) (st : ostep) : Prop :=
  StepOK3 s st /\ StateOK3 s /\
  match st_op st with
  | OpAlloc r => UpdOK3 s r /\ RecOK3 s r
  | OpRelease app key ttype => ReleaseOK3 s app key ttype
  | OpSched => SchedOK3 s st
  | OpFirePh id => FirePhOK s (st_events st) id
  | OpNodeRemove id => NodeRemoveOK s st id
  | _ => True
  end.

(* ------------------------------------------------------------------ what [known_trigger s st = None] gives *)
Lemma trigger_none_xnode s st : known_trigger s st = None -> xnode_removal_trigger s st = false.
Proof. unfold known_trigger. destruct (terminated_with_allocs s st); [discriminate|].
  destruct (xnode_removal_trigger s st); [discriminate|reflexivity]. Qed.

Lemma trigger_none_app_remove s st id : known_trigger s st = None -> st_op st = OpAppRemove id ->
  forall a, find_app s id = Some a -> xnode_inflight_reals a = [].
Proof. intros H Eop a Ea. apply trigger_none_xnode in H. unfold xnode_removal_trigger in H. rewrite Eop, Ea in H.
  destruct (xnode_inflight_reals a); [reflexivity|discriminate]. Qed.

Lemma trigger_none_release_all s st app ttype : known_trigger s st = None -> st_op st = OpRelease app 0%N ttype ->
  forall a, find_app s app = Some a -> xnode_inflight_reals a = [].
Proof. intros H Eop a Ea. apply trigger_none_xnode in H. unfold xnode_removal_trigger in H. rewrite Eop, Ea in H.
  cbn [N.eqb] in H. destruct (xnode_inflight_reals a); [reflexivity|discriminate]. Qed.

(* a linked placeholder released with a termination type other than PLACEHOLDER_REPLACED is trigger 2 *)
Lemma trigger_none_linked s st app key ttype a x : known_trigger s st = None -> st_op st = OpRelease app key ttype ->
  find_app s app = Some a -> find_alloc (ap_allocs a) key = Some x -> oa_ph x = true -> oa_release x <> 0%N ->
  ttype = TT_PlaceholderReplaced.
Proof. intros H Eop Ea Ex Hph Hl. unfold known_trigger in H.
  destruct (terminated_with_allocs s st); [discriminate|]. destruct (xnode_removal_trigger s st); [discriminate|].
  destruct (stale_allocated_update s st); [discriminate|]. rewrite Eop, Ea, Ex, Hph in H.
  destruct (N.eqb_spec (oa_release x) 0) as [E|_]; [contradiction|]. cbn [negb andb] in H.
  destruct (N.eqb_spec ttype TT_PlaceholderReplaced) as [E|_]; [exact E|]. cbn [negb] in H. discriminate. Qed.

(* ------------------------------------------------------------------ g_alloc *)
Lemma g_alloc_step s r s' : InvG2 s -> BooksG s -> Bounded3 s -> ReqOK3 s r -> UpdOK3 s r -> RecOK3 s r ->
  g_alloc s r = Some s' -> InvG2 s' /\ BooksG s'.
Proof. intros HI HB HBd Hr Hu Hrec H. destruct (g_alloc_branch_O1 s r) eqn:Eb.
  - eapply g_alloc_step2_O1; eassumption.
  - destruct (g_alloc_other s r s' H Eb) as (_ & a & Ea & _ & _ & [(En & Enode & _ & _)|(x0 & Ex0 & _ & _)]).
    + eapply g_alloc_recovered_step; try eassumption. intros C. rewrite C in Enode. discriminate.
    + eapply g_alloc_update_step; eassumption. Qed.

(* ------------------------------------------------------------------ g_release *)
Lemma g_release_step s st app key ttype s' : InvG2 s -> BooksG s -> Bounded3 s -> StateOK3 s ->
  known_trigger s st = None -> st_op st = OpRelease app key ttype ->
  (forall a, find_app s app = Some a -> TermOK a) -> ReleaseOK3 s app key ttype ->
  g_release s app key ttype = Some s' -> InvG2 s' /\ BooksG s'.
Proof. intros HI HB HBd [Hlive Hnz] Htrig Eop Hterm Hrel H.
  destruct (find_app s app) as [a|] eqn:Ea; [|unfold g_release in H; rewrite Ea in H; discriminate].
  destruct (Hrel a Ea) as (Hcomp & Hconf & Hask). specialize (Hterm a eq_refl).
  destruct (find_app_some _ _ _ Ea) as [Ha _]. pose proof (Hlive a Ha) as Hl.
  destruct (find_alloc (ap_allocs a) key) as [x|] eqn:Ex.
  - destruct ((ttype =? TT_PlaceholderReplaced)%N && negb (oa_release x =? 0)%N) eqn:Ec.
    + destruct (g_release_confirm_step_b s app key ttype s' a x HI HB HBd Ea Ex Ec Hconf H) as (R1 & R2 & _). auto.
    + eapply (g_release_plain_step s app key ttype s' a); try eassumption.
      * intros x' Ex'. rewrite Ex in Ex'. inversion Ex'; subst x'; clear Ex'.
        destruct (find_alloc_some _ _ _ Ex) as [Hx _].
        destruct (oa_ph x) eqn:Hph.
        -- destruct (N.eq_dec (oa_release x) 0) as [E|E]; [exact E|]. exfalso.
           pose proof (trigger_none_linked s st app key ttype a x Htrig Eop Ea Ex Hph E) as Et. subst ttype.
           rewrite N.eqb_refl in Ec. cbn [andb] in Ec. apply negb_false_iff in Ec. apply N.eqb_eq in Ec. contradiction.
        -- apply (w3_real_nolink a (ig_app_wf s (ig2_inv s HI) a Ha) x Hx Hph).
      * intros C. rewrite Ex in C. discriminate.
  - eapply (g_release_plain_step s app key ttype s' a); try eassumption.
    + intros x' Ex'. rewrite Ex in Ex'. discriminate.
    + intros _. apply (release_ask_norec s app key a HI Ea Ex (Hask eq_refl)). Qed.

(* ------------------------------------------------------------------ g_sched *)
Lemma g_sched_step deny s st s' : InvG2 s -> BooksG s -> Bounded3 s -> SchedOK3 s st ->
  g_sched deny s st = Some s' -> InvG2 s' /\ BooksG s'.
Proof. intros HI HB HBd [Hswap Hbind] H. unfold g_sched in H. cbv zeta in H.
  set (rels := releases_of (st_events st)) in *.
  set (touts := filter (fun p => (snd p =? TT_Timeout)%N) rels) in *.
  set (repl := filter (fun p => (snd p =? TT_PlaceholderReplaced)%N) rels) in *.
  destruct (negb (Nat.eqb (length rels) (length touts + length repl))); [discriminate|].
  destruct (g_cancel_all s touts) as [s1|] eqn:Ec; [|discriminate].
  destruct (g_cancel_all_step2 touts s s1 HI HB Ec) as [HI1 HB1].
  pose proof (g_cancel_all_bounded3 touts s s1 HI HB HBd Ec) as HBd1.
  destruct repl as [|[[phk app] t] [|? ?]] eqn:Er.
  - destruct (newallocs_of (st_events st)) as [|[[k app] nid] [|? ?]] eqn:En.
    + destruct touts; [discriminate|]. destruct (Z.eqb _ _); [|discriminate]. inversion H; subst s'. auto.
    + destruct (find_app s1 app) as [a|] eqn:Ea; [|discriminate].
      destruct (find_alloc (ap_requests a) k) as [ask|] eqn:Eask; [|discriminate].
      destruct (Hbind s1 k app nid a eq_refl eq_refl Ea) as [Hl Hu]. destruct (find_app_some _ _ _ Ea) as [Ha _].
      destruct (oa_ph ask).
      * eapply g_sched_ph_step; eassumption.
      * destruct touts; [discriminate|]. eapply m_sched_alloc_stepG; eassumption.
    + discriminate.
  - destruct (newallocs_of (st_events st)); [|discriminate].
    eapply (g_sched_swap_step deny s (st_obs st) app phk touts s1 s'); try eassumption. apply (Hswap phk app t eq_refl).
  - discriminate. Qed.

(* ------------------------------------------------------------------ the step *)
Section Step.
  Variable NodeRemoveOK : ostate -> ostep -> N -> Prop.
  Hypothesis node_remove_step : forall s st id s', InvG2 s -> BooksG s -> Bounded3 s -> StateOK3 s ->
    (forall a, In a (s_apps s) -> TermOK a) -> NodeRemoveOK s st id ->
    g_node_remove s (st_events st) id = Some s' -> InvG2 s' /\ BooksG s'.

  Theorem m_step_gang_G deny s st s' : InvG2 s -> BooksG s -> Bounded3 s -> StepOK3x NodeRemoveOK s st ->
    m_step_gang deny s st = Some s' -> InvG2 s' /\ BooksG s'.
  Proof. intros HI HB HBd (Hok & Hst & Hx) H. unfold m_step_gang in H. destruct (st_panic st); [discriminate|].
    destruct (known_trigger s st) eqn:Etr; [discriminate|]. unfold StepOK3 in Hok.
    destruct (st_op st) eqn:Eop; try discriminate.
    - (* node remove *) eapply node_remove_step; eassumption.
    - (* app add *) eapply g_app_add_step2; eassumption.
    - (* app remove *) eapply g_app_remove_step; try eassumption. apply (trigger_none_app_remove s st id Etr Eop).
    - (* alloc *) destruct Hx as [Hu Hr]. eapply g_alloc_step; eassumption.
    - (* release *) destruct (app =? 0)%N; [discriminate|]. destruct (N.eqb_spec key 0) as [Ek|Ek].
      + subst key. destruct (find_app s app) as [a|] eqn:Ea; [|unfold g_release_all in H; rewrite Ea in H; discriminate].
        destruct (find_app_some _ _ _ Ea) as [Ha _].
        eapply (g_release_all_step s app ttype s' a); try eassumption.
        * apply (so3_live s Hst a Ha).
        * apply (trigger_none_release_all s st app ttype Etr Eop a Ea).
      + eapply g_release_step; eassumption.
    - (* sched *) eapply g_sched_step; eassumption.
    - (* placeholder timer *) destruct (find_app s app) as [a|] eqn:Ea.
      + eapply g_fire_ph_step2; try eassumption.
      + eapply g_fire_ph_dead_step2; eassumption.
    - (* state timer *) destruct (find_app s app) as [a|] eqn:Ea.
      + eapply g_fire_state_step2; eassumption.
      + eapply g_fire_state_dead_step2; eassumption. Qed.

  (* in the oracle's terms *)
  Theorem m_step_gang_books deny s st s' : InvG2 s -> Books s -> Bounded3 s -> StepOK3x NodeRemoveOK s st ->
    m_step_gang deny s st = Some s' -> InvG2 s' /\ Books s'.
  Proof. intros HI HB HBd Hok H. pose proof (G_of_books s (ig2_inv s HI) HB) as HG.
    destruct (m_step_gang_G deny s st s' HI HG HBd Hok H) as [HI' HG']. split; [exact HI'|].
    apply (books_of_G s' (ig2_inv s' HI') HG'). Qed.
End Step.
