(* Announcement logic of context.go / partition.go / application.go: which messages a handler sends to the shim,
   as a function of the observed pre-state, the request and (for decisions the model does not predict) the observed
   post-state. Correspondence kind 495 compares the messages of every step with this function.
     processNodes                         -> exp_node_add / exp_node_remove (removeNodeAllocations: released + confirmed)
     handleRMUpdateApplicationEvent       -> exp_app_add (one answer) / exp_app_remove (all allocations, STOPPED_BY_RM)
     processAllocations                   -> exp_alloc (rejection per Core/Guard.alloc_guard; echo of a newly bound allocation)
     processAllocationReleases            -> exp_release (echo STOPPED_BY_RM; confirmation of a swap -> new allocation of the real ask;
                                             TIMEOUT / PREEMPTED confirmations are silent)
     timeoutPlaceholderProcessing         -> exp_fire_ph
     timeoutStateTimer                    -> exp_fire_state
     schedule                             -> validated, not predicted (sched_ok): at most one result, every new allocation is in the
                                             post-state with the announced node/resource, a PLACEHOLDER_REPLACED release names a
                                             placeholder now marked released, preemption releases name allocations marked preempted
   Application state updates (EAppUpdated) belong to C10 and are ignored here. Definitions only. *)
From Coq Require Import List ZArith NArith Bool.
From YK Require Import Base.Res Core.Obs Core.Guard.
Import ListNotations.
Open Scope N_scope.

Definition ev_eqb (a b : oevent) : bool :=
  match a, b with
  | ENewAlloc k1 a1 n1 r1 p1, ENewAlloc k2 a2 n2 r2 p2 => (k1 =? k2) && (a1 =? a2) && (n1 =? n2) && res_eqz r1 r2 && Bool.eqb p1 p2
  | ERelease k1 a1 t1, ERelease k2 a2 t2 => (k1 =? k2) && (a1 =? a2) && (t1 =? t2)
  | EAppAccepted x, EAppAccepted y | EAppRejected x, EAppRejected y | ENodeAccepted x, ENodeAccepted y | ENodeRejected x, ENodeRejected y => x =? y
  | EAppUpdated x s, EAppUpdated y t => (x =? y) && (s =? t)
  | EAllocRejected k1 a1, EAllocRejected k2 a2 => (k1 =? k2) && (a1 =? a2)
  | _, _ => false
  end.
Definition count_ev (l : list oevent) (e : oevent) : nat := length (filter (ev_eqb e) l).
(* equal as multisets (map iteration order of the Go code is not fixed) *)
Definition evs_same (a b : list oevent) : bool :=
  Nat.eqb (length a) (length b) && forallb (fun e => Nat.eqb (count_ev a e) (count_ev b e)) a.
Definition not_update (e : oevent) : bool := match e with EAppUpdated _ _ => false | _ => true end.

Definition new_alloc_ev (x : oalloc) : oevent := ENewAlloc (oa_key x) (oa_app x) (oa_node x) (oa_res x) (oa_ph x).
Definition stopped_ev (x : oalloc) : oevent := ERelease (oa_key x) (oa_app x) TT_StoppedByRM.
Definition timeout_ev (x : oalloc) : oevent := ERelease (oa_key x) (oa_app x) TT_Timeout.

(* --- nodes --- *)
Definition exp_node_add (pre : ostate) (id : N) : list oevent :=
  match node_add_guard pre id with VReject => [ENodeRejected id] | _ => [ENodeAccepted id] end.
(* removeNodeAllocations: an allocation the node lists is released when its application is live and lists it too;
   a placeholder whose swap partner sits on ANOTHER node is released and the partner is confirmed *)
Definition exp_node_remove (pre : ostate) (id : N) : list oevent :=
  match find_node pre id with
  | None => []
  | Some n =>
      flat_map (fun x =>
        match find_app pre (oa_app x) with
        | None => []
        | Some a =>
            if negb (memN (oa_key x) (map oa_key (ap_allocs a))) then [] else
            if oa_ph x && negb (oa_release x =? 0) then
              match find_alloc (ap_requests a) (oa_release x) with
              | Some real => if oa_node real =? id then [stopped_ev x] else [stopped_ev x; new_alloc_ev real]
              | None => [stopped_ev x]
              end
            else [stopped_ev x]
        end) (on_allocs n)
  end.

(* --- applications --- *)
Definition exp_app_add (pre post : ostate) (id : N) (forced nougi : bool) : list oevent :=
  match app_add_guard pre id forced nougi with
  | VReject => [EAppRejected id]
  | _ => if app_known post id then [EAppAccepted id] else [EAppRejected id]   (* placement decides; exactly one answer *)
  end.
Definition exp_app_remove (pre : ostate) (id : N) : list oevent :=
  match find_app pre id with Some a => map stopped_ev (ap_allocs a) | None => [] end.

(* --- allocations --- *)
Definition exp_alloc (pre : ostate) (r : oreq) : list oevent :=
  match alloc_guard pre r with
  | VReject => [EAllocRejected (rq_key r) (rq_app r)]
  | _ =>
      if rq_foreign r || (rq_node r =? 0) then [] else
      match find_app pre (rq_app r) with
      | None => []
      | Some a =>
          match find_alloc (ap_requests a) (rq_key r) with
          | Some ex => if oa_allocated ex then []     (* update of something already allocated *)
                       else [ENewAlloc (rq_key r) (rq_app r) (rq_node r) (oget (rq_res r)) (rq_ph r)]   (* the shim binds its own ask:
                            the echo is built from the INCOMING message (size and placeholder flag as sent) *)
          | None => [ENewAlloc (rq_key r) (rq_app r) (rq_node r) (oget (rq_res r)) (rq_ph r)]    (* recovered allocation: echo *)
          end
      end
  end.

(* --- releases --- *)
Definition silent_type (ty : N) : bool := (ty =? TT_Timeout) || (ty =? TT_Preempted).
Definition exp_release (pre : ostate) (app key ty : N) : option (list oevent) :=
  if app =? 0 then Some [] else
  match find_app pre app with
  | None => Some []
  | Some a =>
      if key =? 0 then
        if ty =? TT_PlaceholderReplaced then None            (* release-all with a replacement type: not modelled *)
        else if silent_type ty then Some [] else Some (map stopped_ev (ap_allocs a))
      else
        match find_alloc (ap_allocs a) key with
        | None => Some []
        | Some x =>
            if (ty =? TT_PlaceholderReplaced) && negb (oa_release x =? 0) then
              match find_alloc (ap_requests a) (oa_release x) with
              | Some real => if node_known pre (oa_node x) then Some [new_alloc_ev real] else Some []
              | None => None
              end
            else if silent_type ty then Some [] else Some [stopped_ev x]
        end
  end.

(* --- timers --- *)
Definition exp_fire_ph (pre : ostate) (app : N) : list oevent :=
  match find_app pre app with
  | None => []
  | Some a =>
      if negb (ap_phtimer a) then [] else
      if ((ap_state a =? ST_Running) || (ap_state a =? ST_Completing)) && negb (IsZero (Some (ap_phalloc a))) then
        map timeout_ev (filter (fun x => oa_ph x && negb (oa_released x) && negb (oa_preempted x)) (ap_allocs a))
      else
        map timeout_ev (filter (fun x => negb (oa_preempted x)) (ap_allocs a)) ++
        map timeout_ev (filter (fun x => negb (oa_allocated x) && negb (oa_preempted x)) (ap_requests a))
  end.
Definition exp_fire_state (pre : ostate) (app : N) : list oevent :=
  match find_app pre app with
  | None => []
  | Some a =>
      if ap_statetimer a && (ap_state a =? ST_Completing) && negb (IsZero (Some (ap_phalloc a))) then
        map timeout_ev (filter (fun x => oa_ph x && negb (oa_released x) && negb (oa_preempted x)) (ap_allocs a))
      else []
  end.

(* --- scheduling cycle: validation of what was announced --- *)
Definition sched_ok (pre post : ostate) (evs : list oevent) : bool :=
  let results := filter (fun e => match e with ENewAlloc _ _ _ _ _ => true | ERelease _ _ ty => ty =? TT_PlaceholderReplaced | _ => false end) evs in
  (Nat.leb (length results) 1) &&
  forallb (fun e =>
    match e with
    | ENewAlloc k a n r p =>
        negb (memN k (map oa_key (all_allocs pre))) &&
        match find_app post a with
        | Some ap => match find_alloc (ap_allocs ap) k with
                     | Some x => (oa_node x =? n) && res_eqz (oa_res x) r && Bool.eqb (oa_ph x) p && node_known post n
                     | None => false end
        | None => false
        end
    | ERelease k a ty =>
        match find_app pre a with
        | Some ap => match find_alloc (ap_allocs ap) k with
                     | Some x =>
                         if ty =? TT_PlaceholderReplaced then
                           oa_ph x && negb (oa_released x) &&
                           match find_app post a with
                           | Some ap' => match find_alloc (ap_allocs ap') k with
                                         | Some x' => oa_released x' && negb (oa_release x' =? 0) | None => false end
                           | None => false end
                         else if ty =? TT_Timeout then
                           (* tryPlaceholderAllocate cancels a placeholder that is smaller than the real ask *)
                           oa_ph x && negb (oa_released x) &&
                           match find_app post a with
                           | Some ap' => match find_alloc (ap_allocs ap') k with Some x' => oa_released x' | None => false end
                           | None => false end
                         else if ty =? TT_Preempted then
                           match find_app post a with
                           | Some ap' => match find_alloc (ap_allocs ap') k with Some x' => oa_preempted x' | None => false end
                           | None => false end
                         else false
                     | None => false end
        | None => false
        end
    | _ => false
    end) evs.

Definition announce_ok (pre : ostate) (st : ostep) : bool :=
  let evs := filter not_update (st_events st) in
  let post := st_obs st in
  if st_panic st then true else
  match st_op st with
  | OpNodeAdd id _ _ => evs_same evs (exp_node_add pre id)
  | OpNodeRemove id => evs_same evs (exp_node_remove pre id)
  | OpNodeUpdate _ _ | OpNodeDrain _ | OpNodeUndrain _ => match evs with [] => true | _ => false end
  | OpAppAdd id _ _ forced nougi _ _ _ _ => evs_same evs (exp_app_add pre post id forced nougi)
  | OpAppRemove id => evs_same evs (exp_app_remove pre id)
  | OpAlloc r => evs_same evs (exp_alloc pre r)
  | OpRelease app key ty => match exp_release pre app key ty with Some l => evs_same evs l | None => true end
  | OpFirePh app => evs_same evs (exp_fire_ph pre app)
  | OpFireState app => evs_same evs (exp_fire_state pre app)
  | OpSched => sched_ok pre post evs
  | OpReload _ | OpClean => match evs with [] => true | _ => false end
  end.
