(* C09 - generic list / queue-counter lemmas used by Core/ReserveProofs.v *)
From Coq Require Import List ZArith NArith Bool Lia ZifyBool ZifyNat ZifyN.
From YK Require Import Core.Obs Core.Reserve.
Import ListNotations.
Open Scope N_scope.

(* ---------- lists ---------- *)
Lemma NoDup_map_filter {A B} (f : A -> B) (p : A -> bool) l : NoDup (map f l) -> NoDup (map f (filter p l)).
Proof.
  induction l as [|x t IH]; cbn [map filter]; intro H; [constructor|].
  inversion H as [|? ? Hn Ht]; subst. destruct (p x); cbn [map]; [|auto].
  constructor; [|auto]. intro Hi. apply Hn. apply in_map_iff in Hi. destruct Hi as [y [Hy Hi]].
  apply filter_In in Hi. apply in_map_iff. exists y. tauto.
Qed.

Lemma NoDup_map_inj {A B} (f : A -> B) l x y : NoDup (map f l) -> In x l -> In y l -> f x = f y -> x = y.
Proof.
  induction l as [|h t IH]; cbn [map]; intros H Hx Hy He; [contradiction|].
  inversion H as [|? ? Hn Ht]; subst. destruct Hx as [Hx|Hx]; destruct Hy as [Hy|Hy]; subst.
  - reflexivity.
  - exfalso. apply Hn. rewrite He. apply in_map. exact Hy.
  - exfalso. apply Hn. rewrite <- He. apply in_map. exact Hx.
  - apply IH; assumption.
Qed.

Lemma NoDup_map_NoDup {A B} (f : A -> B) l : NoDup (map f l) -> NoDup l.
Proof.
  induction l as [|h t IH]; cbn [map]; intro H; [constructor|].
  inversion H as [|? ? Hn Ht]; subst. constructor; [|auto]. intro Hi. apply Hn. apply in_map. exact Hi.
Qed.

Lemma NoDup_snoc {A} (l : list A) y : NoDup l -> ~ In y l -> NoDup (l ++ [y]).
Proof.
  induction l as [|h t IH]; cbn [app]; intros H Hn.
  - constructor; [intros []|constructor].
  - inversion H as [|? ? Hh Ht]; subst. constructor.
    + intro Hi. apply in_app_or in Hi. destruct Hi as [Hi|[Hi|[]]]; [contradiction|]. subst. apply Hn. left. reflexivity.
    + apply IH; [exact Ht|]. intro Hi. apply Hn. right. exact Hi.
Qed.

Lemma NoDup_map_snoc {A B} (f : A -> B) l x : NoDup (map f l) -> ~ In (f x) (map f l) -> NoDup (map f (l ++ [x])).
Proof.
  intros H Hn. rewrite map_app. cbn [map]. apply NoDup_snoc; assumption.
Qed.

Lemma filter_all_true {A} (p : A -> bool) l : (forall x, In x l -> p x = true) -> filter p l = l.
Proof.
  induction l as [|h t IH]; cbn [filter]; intro H; [reflexivity|].
  rewrite (H h (or_introl eq_refl)). rewrite IH; [reflexivity|]. intros x Hx. apply H. right. exact Hx.
Qed.

Lemma filter_all_false {A} (p : A -> bool) l : (forall x, In x l -> p x = false) -> filter p l = [].
Proof.
  induction l as [|h t IH]; cbn [filter]; intro H; [reflexivity|].
  rewrite (H h (or_introl eq_refl)). apply IH. intros x Hx. apply H. right. exact Hx.
Qed.

Lemma filter_filter {A} (p q : A -> bool) l : filter q (filter p l) = filter (fun x => p x && q x) l.
Proof.
  induction l as [|h t IH]; cbn [filter]; [reflexivity|].
  destruct (p h); cbn [filter andb]; [destruct (q h); rewrite IH; reflexivity|exact IH].
Qed.

Lemma filter_ext_in {A} (p q : A -> bool) l : (forall x, In x l -> p x = q x) -> filter p l = filter q l.
Proof.
  induction l as [|h t IH]; cbn [filter]; intro H; [reflexivity|].
  rewrite (H h (or_introl eq_refl)). rewrite IH; [reflexivity|]. intros x Hx. apply H. right. exact Hx.
Qed.

(* removing exactly one element x (the only one p rejects) from a duplicate-free list *)
Lemma filter_remove_one {A} (p q : A -> bool) l x :
  NoDup l -> In x l -> (forall y, In y l -> (p y = false <-> y = x)) ->
  (length (filter q (filter p l)) + (if q x then 1 else 0) = length (filter q l))%nat.
Proof.
  induction l as [|h t IH]; intros Hnd Hx Hp; [contradiction|].
  inversion Hnd as [|? ? Hn Ht]; subst. cbn [filter].
  destruct (p h) eqn:Eh.
  - assert (h <> x) as Hne. { intro E. subst. assert (p x = false) as X by (apply Hp; [left|]; reflexivity). congruence. }
    destruct Hx as [Hx|Hx]; [congruence|]. cbn [filter]. specialize (IH Ht Hx).
    assert (forall y, In y t -> (p y = false <-> y = x)) as Hp' by (intros y Hy; apply Hp; right; exact Hy).
    specialize (IH Hp'). destruct (q h); cbn [length]; lia.
  - assert (h = x) as E by (apply Hp; [left; reflexivity|exact Eh]). subst h.
    assert (filter p t = t) as Ft.
    { apply filter_all_true. intros y Hy. destruct (p y) eqn:Ey; [reflexivity|].
      assert (y = x) as E by (apply Hp; [right; exact Hy|exact Ey]). subst. contradiction. }
    rewrite Ft. destruct (q x); cbn [length]; lia.
Qed.

Lemma find_none_iff {A} (p : A -> bool) l : find p l = None <-> (forall x, In x l -> p x = false).
Proof.
  split; [apply find_none|]. induction l as [|h t IH]; cbn [find]; intro H; [reflexivity|].
  rewrite (H h (or_introl eq_refl)). apply IH. intros x Hx. apply H. right. exact Hx.
Qed.

Lemma find_app_l {A} (p : A -> bool) l1 l2 x : find p l1 = Some x -> find p (l1 ++ l2) = Some x.
Proof.
  induction l1 as [|h t IH]; cbn [find app]; intro H; [discriminate|]. destruct (p h); [exact H|auto].
Qed.

Lemma find_app_none {A} (p : A -> bool) l1 l2 : find p l1 = None -> find p (l1 ++ l2) = find p l2.
Proof.
  induction l1 as [|h t IH]; cbn [find app]; intro H; [reflexivity|]. destruct (p h); [discriminate|auto].
Qed.

(* searching with p in a list filtered by q, when everything p accepts is kept by q *)
Lemma find_filter_keep {A} (p q : A -> bool) l : (forall x, In x l -> p x = true -> q x = true) -> find p (filter q l) = find p l.
Proof.
  induction l as [|h t IH]; cbn [find filter]; intro H; [reflexivity|].
  assert (forall x, In x t -> p x = true -> q x = true) as H' by (intros x Hx; apply H; right; exact Hx).
  destruct (q h) eqn:Eq; cbn [find].
  - destruct (p h); [reflexivity|auto].
  - destruct (p h) eqn:Ep; [|auto]. rewrite (H h (or_introl eq_refl) Ep) in Eq. discriminate.
Qed.

Lemma find_map_same {A} (p : A -> bool) (f : A -> A) l :
  (forall x, p (f x) = p x) -> find p (map f l) = option_map f (find p l).
Proof.
  intro H. induction l as [|h t IH]; cbn [find map option_map]; [reflexivity|].
  rewrite H. destruct (p h); [reflexivity|exact IH].
Qed.

(* ---------- queue counters ---------- *)
Lemma qc_map a (g : N -> N) l b :
  queue_count (map (fun x => if fst x =? a then (fst x, g (snd x)) else x) l) b =
  if b =? a then match find (fun x => fst x =? a) l with Some x => g (snd x) | None => 0 end
  else queue_count l b.
Proof.
  unfold queue_count. induction l as [|h t IH]; cbn [map find]; [destruct (b =? a); reflexivity|].
  destruct (fst h =? a) eqn:Ea; cbn [fst snd].
  - apply N.eqb_eq in Ea. destruct (b =? a) eqn:Eb.
    + apply N.eqb_eq in Eb. subst b. rewrite Ea, N.eqb_refl. reflexivity.
    + assert (fst h =? b = false) as X by (apply N.eqb_neq; apply N.eqb_neq in Eb; congruence).
      rewrite X. rewrite IH. reflexivity.
  - destruct (b =? a) eqn:Eb.
    + apply N.eqb_eq in Eb. subst b. rewrite Ea. rewrite IH. reflexivity.
    + destruct (fst h =? b); [reflexivity|]. rewrite IH. reflexivity.
Qed.

Lemma qc_filter a l b :
  queue_count (filter (fun y => negb (fst y =? a)) l) b = if b =? a then 0 else queue_count l b.
Proof.
  unfold queue_count. induction l as [|h t IH]; cbn [filter find]; [destruct (b =? a); reflexivity|].
  destruct (fst h =? a) eqn:Ea; cbn [negb find].
  - apply N.eqb_eq in Ea. destruct (b =? a) eqn:Eb; [exact IH|].
    assert (fst h =? b = false) as X by (apply N.eqb_neq; apply N.eqb_neq in Eb; congruence).
    rewrite X. exact IH.
  - destruct (b =? a) eqn:Eb.
    + apply N.eqb_eq in Eb. subst b. rewrite Ea. exact IH.
    + destruct (fst h =? b); [reflexivity|exact IH].
Qed.

Lemma qc_snoc a c l b :
  find (fun x => fst x =? a) l = None ->
  queue_count (l ++ [(a, c)]) b = if b =? a then c else queue_count l b.
Proof.
  unfold queue_count. intro H. destruct (b =? a) eqn:Eb.
  - apply N.eqb_eq in Eb. subst b. rewrite find_app_none; [|exact H]. cbn [find fst snd]. rewrite N.eqb_refl. reflexivity.
  - destruct (find (fun x => fst x =? b) l) as [x|] eqn:E.
    + rewrite (find_app_l _ _ _ _ E). reflexivity.
    + rewrite find_app_none; [|exact E]. cbn [find fst]. rewrite N.eqb_sym, Eb. reflexivity.
Qed.

Lemma existsb_find_none {A} (p : A -> bool) l : existsb p l = false <-> find p l = None.
Proof.
  induction l as [|h t IH]; cbn [existsb find]; [tauto|]. destruct (p h); cbn [orb]; [split; discriminate|exact IH].
Qed.

Lemma q_reserve_count a l b : queue_count (q_reserve a l) b = queue_count l b + (if b =? a then 1 else 0).
Proof.
  unfold q_reserve. destruct (existsb (fun x => fst x =? a) l) eqn:E.
  - rewrite (qc_map a (fun c => c + 1)). destruct (b =? a) eqn:Eb; [|lia].
    apply N.eqb_eq in Eb. subst b. unfold queue_count. destruct (find (fun x => fst x =? a) l) eqn:F; [reflexivity|].
    apply existsb_find_none in F. congruence.
  - apply existsb_find_none in E. rewrite (qc_snoc a 1 l b E). destruct (b =? a) eqn:Eb; [|lia].
    apply N.eqb_eq in Eb. subst b. unfold queue_count. rewrite E. reflexivity.
Qed.

Lemma q_reserve_nodup a l : NoDup (map fst l) -> NoDup (map fst (q_reserve a l)).
Proof.
  intro H. unfold q_reserve. destruct (existsb (fun x => fst x =? a) l) eqn:E.
  - rewrite map_map. erewrite map_ext; [exact H|]. intro x. cbn. destruct (fst x =? a); reflexivity.
  - apply NoDup_map_snoc; [exact H|]. cbn [fst]. intro Hi. apply in_map_iff in Hi. destruct Hi as [y [Hy Hi]].
    assert (existsb (fun x => fst x =? a) l = true) as X; [|congruence].
    apply existsb_exists. exists y. split; [exact Hi|]. apply N.eqb_eq. exact Hy.
Qed.

Lemma q_reserve_pos a l : (forall e, In e l -> 0 < snd e) -> forall e, In e (q_reserve a l) -> 0 < snd e.
Proof.
  intros H e He. unfold q_reserve in He. destruct (existsb (fun x => fst x =? a) l).
  - apply in_map_iff in He. destruct He as [y [Hy Hi]]. specialize (H y Hi).
    destruct (fst y =? a); subst e; cbn [snd]; lia.
  - apply in_app_or in He. destruct He as [He|[He|[]]]; [auto|]. subst e. cbn. lia.
Qed.

Lemma q_unreserve_count a num l b :
  num <= queue_count l a ->
  queue_count (q_unreserve a num l) b = if b =? a then queue_count l a - num else queue_count l b.
Proof.
  intro Hle. unfold q_unreserve. destruct (find (fun x => fst x =? a) l) as [x|] eqn:F.
  - assert (queue_count l a = snd x) as Hc by (unfold queue_count; rewrite F; reflexivity).
    destruct (snd x <=? num) eqn:E.
    + rewrite qc_filter. destruct (b =? a); [lia|reflexivity].
    + rewrite (qc_map a (fun c => c - num)). rewrite F. destruct (b =? a); [lia|reflexivity].
  - destruct (b =? a) eqn:Eb; [|reflexivity]. apply N.eqb_eq in Eb. subst b.
    assert (queue_count l a = 0) as Hc by (unfold queue_count; rewrite F; reflexivity). lia.
Qed.

Lemma q_unreserve_nodup a num l : NoDup (map fst l) -> NoDup (map fst (q_unreserve a num l)).
Proof.
  intro H. unfold q_unreserve. destruct (find (fun x => fst x =? a) l) as [x|]; [|exact H].
  destruct (snd x <=? num).
  - apply NoDup_map_filter. exact H.
  - rewrite map_map. erewrite map_ext; [exact H|]. intro y. cbn. destruct (fst y =? a); reflexivity.
Qed.

Lemma q_unreserve_pos a num l :
  NoDup (map fst l) -> (forall e, In e l -> 0 < snd e) -> forall e, In e (q_unreserve a num l) -> 0 < snd e.
Proof.
  intros Hnd H e He. unfold q_unreserve in He. destruct (find (fun x => fst x =? a) l) as [x|] eqn:F; [|auto].
  destruct (snd x <=? num) eqn:E.
  - apply filter_In in He. apply H. tauto.
  - apply in_map_iff in He. destruct He as [y [Hy Hi]]. destruct (fst y =? a) eqn:Ea; [|subst; auto].
    subst e. cbn [snd]. apply find_some in F. destruct F as [Fx Fa]. apply N.eqb_eq in Fa, Ea.
    assert (y = x) as Eyx by (eapply (NoDup_map_inj fst); eauto; congruence). subst y. lia.
Qed.
