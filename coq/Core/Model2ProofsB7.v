(* C03 over the second fragment, part 7: the hypotheses are satisfiable, and one of them is necessary.
   A history of sixteen steps over the three level queue tree of Core/BooksExamples.v, starting from the EMPTY partition:
   two nodes, two applications added, an ask, its size changed while pending, a scheduling decision, the size of the
   bound allocation changed in place, a second ask resized and placed by the RM in one request, a third ask, the
   (disarmed) placeholder timer, removal of node 2 (application 2 loses its allocation and goes Completing), the
   (disarmed) state timer, removal of both applications.  Completely covered by [m_step2]; [RunOK2] holds; the
   theorems give [Books] in every state and all ledgers zero at the end, which vm_compute confirms independently.
   [update_stale_allocated_refuted]: without [UpdOK] the books of the model break (probable defect of the Go code). *)
From Coq Require Import List ZArith NArith Bool Lia ZifyBool.
From YK Require Import Base.Int64 Base.Res Base.ResSpec Base.ResLemmas Core.Obs Core.Model Core.Model2 Core.Ledger
  Core.BooksLemmas Core.BooksDefs Core.BooksTree Core.BooksDrain Core.BooksOps Core.BooksOps4 Core.BooksProofs Core.BooksCheck
  Core.BooksExamples Core.Model2ProofsB1 Core.Model2ProofsB3 Core.Model2ProofsB6 Oracles.CoreC01.
Import ListNotations.
Open Scope Z_scope.

Definition e2_s0 : ostate := init_state ex_queues.
Definition e2_req (key app node : N) (r : res) : oreq := mkReq key app node (Some r) 0 false 0%N 0%N false false false false true.
Definition e2_steps : list ostep :=
  [ ex_step (OpNodeAdd 1 [(1%N, 1000); (2%N, 16)] false) [];
    ex_step (OpNodeAdd 2 [(1%N, 500); (2%N, 8)] false) [];
    ex_step (OpAppAdd 1 3 1 false false None false 0 None) [];
    ex_step (OpAppAdd 2 4 1 false false None false 0 None) [];
    ex_step (OpAlloc (e2_req 10 1 0 [(1%N, 100); (2%N, 2)])) [];          (* new ask *)
    ex_step (OpAlloc (e2_req 10 1 0 [(1%N, 120); (2%N, 2)])) [];          (* pending ask resized *)
    ex_step OpSched [ENewAlloc 10 1 1 [(1%N, 120); (2%N, 2)] false];      (* scheduled on node 1 *)
    ex_step (OpAlloc (e2_req 10 1 1 [(1%N, 150); (2%N, 3)])) [];          (* bound allocation resized in place *)
    ex_step (OpAlloc (e2_req 11 2 0 [(1%N, 50)])) [];
    ex_step (OpAlloc (e2_req 11 2 2 [(1%N, 60); (2%N, 1)])) [];           (* resized and placed on node 2 by the RM *)
    ex_step (OpAlloc (e2_req 12 1 0 [(2%N, 1)])) [];
    ex_step (OpFirePh 1) [];
    ex_step (OpNodeRemove 2) [];
    ex_step (OpFireState 2) [];
    ex_step (OpAppRemove 1) [];
    ex_step (OpAppRemove 2) [] ].

Lemma e2_zero : forall q, In q ex_queues -> q_alloc q = [] /\ q_pending q = [].
Proof. intros q Hq. cbn in Hq. destruct Hq as [<-|[<-|[<-|[<-|[]]]]]; auto. Qed.
Example e2_books0 : Books e2_s0.
Proof. apply (books_init ex_queues e2_zero). Qed.
Example e2_inv0 : Inv e2_s0.
Proof. apply (inv_init ex_queues); [|exact e2_zero]. destruct ex_tree as [T1 T2 T3 T4 T5]. constructor; assumption. Qed.

Example e2_covered : m_run2_len [] e2_s0 e2_steps = length e2_steps.
Proof. vm_compute. reflexivity. Qed.
Example e2_run_ok : RunOK2 [] e2_s0 e2_steps.
Proof. apply run_ok2_b_spec. vm_compute. reflexivity. Qed.

(* the theorems apply ... *)
Example e2_books_end : Books (m_run2 [] e2_s0 e2_steps) /\ Inv (m_run2 [] e2_s0 e2_steps).
Proof. apply (books_reachable2 [] e2_steps e2_s0 e2_books0 e2_inv0 e2_run_ok). Qed.
Example e2_drained :
  let s := m_run2 [] e2_s0 e2_steps in
  (forall q, In q (s_queues s) -> forall k, getz (q_alloc q) k = 0 /\ getz (q_pending q) k = 0) /\
  (forall n, In n (s_nodes s) -> on_allocs n = [] /\ forall k, getz (on_allocated n) k = 0) /\ s_nallocs s = 0.
Proof. apply (books_reachable2_drained [] e2_steps e2_s0 e2_books0 e2_inv0 e2_run_ok). vm_compute. reflexivity. Qed.
(* ... and agree with the direct evaluation of the oracle on every state of the run *)
Example e2_oracle_all : forallb (fun n => match c03_state (m_run2 [] e2_s0 (firstn n e2_steps)) with [] => true | _ => false end) (seq 0 17) = true.
Proof. vm_compute. reflexivity. Qed.
(* the run is not trivial: after step 11 two allocations are bound (150/3 on node 1, 60/1 on node 2), one ask is pending;
   after the node removal application 2 holds nothing and is Completing; at the end nothing is left *)
Example e2_values :
  let s11 := m_run2 [] e2_s0 (firstn 11 e2_steps) in
  let s13 := m_run2 [] e2_s0 (firstn 13 e2_steps) in
  let s16 := m_run2 [] e2_s0 e2_steps in
  s_nallocs s11 = 2 /\ option_map q_alloc (root_queue s11) = Some [(1%N, 210); (2%N, 4)] /\
  option_map q_pending (root_queue s11) = Some [(2%N, 1)] /\
  map on_allocated (s_nodes s11) = [[(1%N, 150); (2%N, 3)]; [(1%N, 60); (2%N, 1)]] /\
  s_nallocs s13 = 1 /\ option_map q_alloc (root_queue s13) = Some [(1%N, 150); (2%N, 3)] /\
  map ap_state (s_apps s13) = [ST_Running; ST_Completing] /\ s_total s13 = Some [(1%N, 1000); (2%N, 16)] /\
  s_apps s16 = [] /\ s_nallocs s16 = 0 /\ map on_allocated (s_nodes s16) = [[]] /\
  map q_alloc (s_queues s16) = [[]; []; []; []] /\ map q_pending (s_queues s16) = [[]; []; []; []].
Proof. vm_compute. repeat split. Qed.

(* ------------------------------------------------------------------ the armed Completing timer *)
Definition fire_app : oapp := mkOApp 5 3 ST_Completing 1%N [] [] [] [] [] [] [] [] [ST_Accepted; ST_Running; ST_Completing] false true false false.
Definition fire_s0 : ostate := mkOS [] [fire_app] ex_queues None 0 0 0 [] [] [] [].
Example fire_inv0 : Inv fire_s0.
Proof. constructor.
  - cbn. repeat constructor; cbn; intuition discriminate.
  - constructor.
  - destruct ex_tree as [T1 T2 T3 T4 T5]. constructor; assumption.
  - intros a Ha. cbn in Ha. destruct Ha as [<-|[]]; eexists; split; vm_compute; reflexivity.
  - intros a Ha. cbn in Ha. destruct Ha as [<-|[]]; constructor; cbn; try constructor; try (intros; contradiction).
  - intros q Hq. cbn in Hq. destruct Hq as [<-|[<-|[<-|[<-|[]]]]]; split; apply wf_nil.
  - intros a1 a2 x1 x2 H1 H2 Hx. cbn in H1. destruct H1 as [<-|[]]; contradiction.
  - intros f a x [].
  - intros n [].
  - reflexivity. Qed.
Example fire_hyps : Books fire_s0 /\ Inv fire_s0 /\ StepOK2 fire_s0 (ex_step (OpFireState 5) []) /\
  option_map s_apps (m_step2 [] fire_s0 (ex_step (OpFireState 5) [])) = Some [].
Proof. split; [apply books_reflect; vm_compute; reflexivity|]. split; [exact fire_inv0|]. split; [apply step_ok2_b_spec; vm_compute; reflexivity|].
  vm_compute. reflexivity. Qed.

(* ------------------------------------------------------------------ [UpdOK] is necessary: the stale allocated ask *)
(* (a) the allocation is released with termination type TIMEOUT: the ask stays behind, flagged allocated;
   (b) the node is removed: the ask stays behind, flagged allocated; the node registers again under its id.
   A request for the key with another resource then books the difference on application, queues and node although no
   allocation exists: kind 301 (application ledger vs. its allocations); the node ledger breaks as well (C01). *)
Definition stale_steps : list ostep :=
  [ ex_step (OpNodeAdd 1 [(1%N, 1000); (2%N, 16)] false) [];
    ex_step (OpAppAdd 1 3 1 false false None false 0 None) [];
    ex_step (OpAlloc (e2_req 10 1 0 [(1%N, 100)])) [];
    ex_step OpSched [ENewAlloc 10 1 1 [(1%N, 100)] false];
    ex_step (OpRelease 1 10 TT_Timeout) [];
    ex_step (OpAlloc (e2_req 10 1 1 [(1%N, 150)])) [] ].
Definition stale2_steps : list ostep :=
  [ ex_step (OpNodeAdd 1 [(1%N, 1000); (2%N, 16)] false) [];
    ex_step (OpAppAdd 1 3 1 false false None false 0 None) [];
    ex_step (OpAlloc (e2_req 10 1 0 [(1%N, 100)])) [];
    ex_step OpSched [ENewAlloc 10 1 1 [(1%N, 100)] false];
    ex_step (OpNodeRemove 1) [];
    ex_step (OpNodeAdd 1 [(1%N, 1000); (2%N, 16)] false) [];
    ex_step (OpAlloc (e2_req 10 1 1 [(1%N, 150)])) [] ].

(* the first-fragment hypotheses ([Bounded] in every state, [StepOK] = [ReqOK] for every request) hold along the run *)
Fixpoint run_ok1_b (deny : list (N * N)) (s : ostate) (steps : list ostep) : bool :=
  match steps with
  | [] => true
  | st :: t => bounded_b s && step_ok_b s st && match m_step2 deny s st with Some s' => run_ok1_b deny s' t | None => true end
  end.

Theorem update_stale_allocated_refuted :
  exists s0 steps, Books s0 /\ Inv s0 /\ m_run2_len [] s0 steps = length steps /\ run_ok1_b [] s0 steps = true /\
    c03_state (m_run2 [] s0 steps) = [301%N] /\ nodes_ledger_ok (m_run2 [] s0 steps) = false.
Proof. exists e2_s0, stale_steps. split; [exact e2_books0|]. split; [exact e2_inv0|]. vm_compute. auto. Qed.
Theorem update_stale_allocated_noderemove_refuted :
  exists s0 steps, Books s0 /\ Inv s0 /\ m_run2_len [] s0 steps = length steps /\ run_ok1_b [] s0 steps = true /\
    c03_state (m_run2 [] s0 steps) = [301%N] /\ nodes_ledger_ok (m_run2 [] s0 steps) = false.
Proof. exists e2_s0, stale2_steps. split; [exact e2_books0|]. split; [exact e2_inv0|]. vm_compute. auto. Qed.
