(* C11 - proofs about the component model Core/MaxApps.v: the clauses of the property as invariants
   over all operation sequences of the model. *)
From Coq Require Import List ZArith NArith Bool Lia ZifyBool ZifyNat ZifyN.
From YK Require Import Core.Obs Core.MaxApps.
Import ListNotations.
Open Scope N_scope.

(* ---------- list lemmas ---------- *)
Definition b2n (b : bool) : nat := if b then 1%nat else 0%nat.
Definition count {A} (p : A -> bool) (l : list A) : nat := length (filter p l).

Lemma count_cons {A} (p : A -> bool) x l : count p (x :: l) = (b2n (p x) + count p l)%nat.
Proof. unfold count; cbn [filter]. destruct (p x); reflexivity. Qed.

Lemma count_zero {A} (p : A -> bool) l : (forall a, In a l -> p a = false) -> count p l = 0%nat.
Proof.
  induction l as [|x t IH]; intro H; [reflexivity|]. rewrite count_cons, (H x (or_introl eq_refl)).
  cbn [b2n]. apply IH. intros a Ha. apply H. right. exact Ha.
Qed.

Lemma count_app {A} (p : A -> bool) l1 l2 : count p (l1 ++ l2) = (count p l1 + count p l2)%nat.
Proof. unfold count. rewrite filter_app, app_length. reflexivity. Qed.

Lemma count_upd_first {A} (p sel : A -> bool) f l x :
  find sel l = Some x ->
  (count p (upd_first sel f l) + b2n (p x) = count p l + b2n (p (f x)))%nat.
Proof.
  induction l as [|y t IH]; cbn [find upd_first]; intro H; [discriminate|].
  destruct (sel y) eqn:E.
  - inversion H; subst. rewrite !count_cons. lia.
  - rewrite !count_cons. specialize (IH H). lia.
Qed.

Lemma count_upd_first_none {A} (sel : A -> bool) f l :
  find sel l = None -> upd_first sel f l = l.
Proof.
  induction l as [|y t IH]; cbn [find upd_first]; intro H; [reflexivity|].
  destruct (sel y); [discriminate|]. rewrite IH; auto.
Qed.

Lemma count_del_first {A} (p sel : A -> bool) l x :
  find sel l = Some x -> (count p (del_first sel l) + b2n (p x) = count p l)%nat.
Proof.
  induction l as [|y t IH]; cbn [find del_first]; intro H; [discriminate|].
  destruct (sel y) eqn:E.
  - inversion H; subst. rewrite count_cons. lia.
  - rewrite !count_cons. specialize (IH H). lia.
Qed.

Lemma find_upd_first {A} (sel : A -> bool) f l :
  (forall x, sel (f x) = sel x) ->
  find sel (upd_first sel f l) = option_map f (find sel l).
Proof.
  intro Hs. induction l as [|y t IH]; cbn [find upd_first option_map]; [reflexivity|].
  destruct (sel y) eqn:E; cbn [find].
  - rewrite Hs, E. reflexivity.
  - rewrite E. exact IH.
Qed.

Lemma in_upd_first {A} (sel : A -> bool) f l w :
  In w l -> In w (upd_first sel f l) \/ In (f w) (upd_first sel f l).
Proof.
  induction l as [|y t IH]; cbn [upd_first]; intro H; [contradiction|].
  destruct H as [H|H].
  - subst. destruct (sel w); [right|left]; left; reflexivity.
  - destruct (sel y).
    + left. right. exact H.
    + destruct (IH H); [left|right]; right; assumption.
Qed.

Lemma in_del_first_other {A} (sel : A -> bool) l a w :
  find sel l = Some a -> In w l -> w <> a -> In w (del_first sel l).
Proof.
  induction l as [|y t IH]; cbn [find del_first]; intros Hf Hi Hn; [contradiction|].
  destruct (sel y) eqn:E.
  - inversion Hf; subst. destruct Hi as [Hi|Hi]; [congruence|exact Hi].
  - destruct Hi as [Hi|Hi]; [left; exact Hi|right; apply IH; assumption].
Qed.

Lemma in_del_first_sub {A} (sel : A -> bool) l w : In w (del_first sel l) -> In w l.
Proof.
  induction l as [|y t IH]; cbn [del_first]; intro H; [contradiction|].
  destruct (sel y); [right; exact H|].
  destruct H; [left; assumption|right; apply IH; assumption].
Qed.

Lemma memN_true x l : memN x l = true <-> In x l.
Proof.
  unfold memN. rewrite existsb_exists. split.
  - intros [y [Hy He]]. apply N.eqb_eq in He. subst. exact Hy.
  - intro H. exists x. split; [exact H|apply N.eqb_refl].
Qed.

Lemma in_set_del x y l : In x (set_del y l) <-> In x l /\ x <> y.
Proof.
  unfold set_del. rewrite filter_In. rewrite negb_true_iff, N.eqb_neq. tauto.
Qed.

Lemma in_set_add x y l : In x (set_add y l) -> x = y \/ In x l.
Proof.
  unfold set_add. destruct (memN y l); cbn [In]; intuition.
Qed.

(* ---------- gate ---------- *)
Lemma canRunApp_gate s chain app :
  canRunApp s chain app =
  forallb (fun qid => match m_find_q s qid with Some x => gate_q x app | None => true end) chain.
Proof.
  induction chain as [|q ps IH]; cbn [canRunApp forallb]; [reflexivity|].
  rewrite IH. destruct (forallb _ ps); [rewrite andb_true_r; reflexivity|rewrite andb_false_r; reflexivity].
Qed.

(* gate_sound: the model admits a scheduling result for an application in the Accepted state (the only
   not-yet-running state the code gates) only if the leaf and every ancestor with a maximum leave room:
   runningApps + |allocatingAccepted| + 1 <= max, or the queue already lists the application itself as
   allocating (exactly the comparison of canRunApp). *)
Lemma gate_sound_l s id to s' a :
  step s (MSched id to) = Some s' -> m_find_app s id = Some a -> ma_state a = ST_Accepted -> gate s a = true.
Proof.
  intros Hs Hf Ha. cbn [step] in Hs. rewrite Hf in Hs. rewrite Ha in Hs.
  change (ST_Accepted =? ST_Accepted) with true in Hs. cbn [andb] in Hs.
  destruct (canRunApp s (ma_chain a) id) eqn:E; cbn [negb] in Hs; [|discriminate].
  unfold gate. rewrite canRunApp_gate in E.
  assert (Hid : ma_id a = id).
  { unfold m_find_app in Hf. apply find_some in Hf. destruct Hf as [_ Hf]. apply N.eqb_eq in Hf. exact Hf. }
  rewrite Hid. exact E.
Qed.

(* the other not-Running states are not gated by the code: a Resuming application (soft gang style after
   the placeholder timeout) with a fresh ask is admitted although the queue is full *)
Definition ungated_witness : list mop :=
  [MAddQueue 1 1; MAddApp 1 [1]; MTo 1 ST_Accepted; MTo 1 ST_Running;
   MAddApp 2 [1]; MTo 2 ST_Resuming; MSched 2 (Some ST_Accepted)].
Lemma gate_other_states_refuted :
  exists s a s', run m_init (firstn 6 ungated_witness) = Some s /\ m_find_app s 2 = Some a /\
                 ma_state a <> ST_Running /\ gate s a = false /\ step s (MSched 2 (Some ST_Accepted)) = Some s'.
Proof.
  eexists. eexists. eexists. repeat split; try (vm_compute; reflexivity). vm_compute. discriminate.
Qed.

(* ---------- invariants: generic shape ---------- *)
Definition Pq (qid : N) (a : mapp) : bool := (ma_state a =? ST_Running) && memN qid (ma_chain a).

Lemma actual_count s q : actual s q = N.of_nat (count (Pq (mq_id q)) (m_apps s)).
Proof. reflexivity. Qed.

Definition InvA (s : mst) : Prop :=
  forall q, In q (m_queues s) -> (N.to_nat (mq_running q) <= count (Pq (mq_id q)) (m_apps s))%nat.

Lemma InvA_bool s : InvA s <-> running_le_actual s = true.
Proof.
  unfold InvA, running_le_actual. rewrite forallb_forall. split; intros H q Hq; specialize (H q Hq).
  - rewrite actual_count. apply N.leb_le. lia.
  - rewrite actual_count in H. apply N.leb_le in H. lia.
Qed.

Lemma find_app_id s id a : m_find_app s id = Some a -> ma_id a = id /\ In a (m_apps s).
Proof.
  unfold m_find_app. intro H. apply find_some in H. destruct H as [Hi He]. apply N.eqb_eq in He. auto.
Qed.

Lemma in_on_chain chain f qs q' :
  In q' (on_chain chain f qs) -> exists q, In q qs /\ q' = (if in_chain q chain then f q else q).
Proof.
  unfold on_chain. rewrite in_map_iff. intros [q [He Hi]]. exists q. auto.
Qed.

Lemma set_state_find s a st' :
  m_find_app s (ma_id a) = Some a ->
  forall p, (count p (set_state (ma_id a) st' (m_apps s)) + b2n (p a)
             = count p (m_apps s) + b2n (p (mkMA (ma_id a) (ma_chain a) st')))%nat.
Proof.
  intros Hf p. unfold set_state.
  exact (count_upd_first p (fun x => ma_id x =? ma_id a) (fun a0 => mkMA (ma_id a0) (ma_chain a0) st') (m_apps s) a Hf).
Qed.

(* trans preserves running <= actual *)
Lemma trans_InvA s a st' : InvA s -> m_find_app s (ma_id a) = Some a -> InvA (trans s a st').
Proof.
  intros HI Hf q' Hq'. unfold trans in *. cbn [m_queues m_apps] in *.
  pose proof (set_state_find s a st' Hf) as Hc.
  destruct (ma_state a =? ST_Running) eqn:ER; destruct (st' =? ST_Running) eqn:ER'; cbn [andb negb] in Hq'.
  - (* Running -> Running *)
    specialize (HI q' Hq'). specialize (Hc (Pq (mq_id q'))). unfold Pq at 2 4 in Hc. cbn [ma_state ma_chain] in Hc.
    rewrite ER, ER' in Hc. lia.
  - (* leaves Running *)
    apply in_on_chain in Hq'. destruct Hq' as [q [Hq He]]. specialize (HI q Hq).
    specialize (Hc (Pq (mq_id q))). unfold Pq at 2 4 in Hc. cbn [ma_state ma_chain] in Hc. rewrite ER, ER' in Hc.
    cbn [andb] in Hc. unfold in_chain in He.
    destruct (memN (mq_id q) (ma_chain a)) eqn:EM; subst q'.
    + cbn [dec1 mq_id mq_running b2n] in *. destruct (0 <? mq_running q) eqn:E0; lia.
    + cbn [b2n] in Hc. lia.
  - (* enters Running *)
    apply in_on_chain in Hq'. destruct Hq' as [q [Hq He]]. specialize (HI q Hq).
    specialize (Hc (Pq (mq_id q))). unfold Pq at 2 4 in Hc. cbn [ma_state ma_chain] in Hc. rewrite ER, ER' in Hc.
    cbn [andb] in Hc. unfold in_chain in He.
    destruct (memN (mq_id q) (ma_chain a)) eqn:EM; subst q'.
    + cbn [inc1 mq_id mq_running b2n] in *.
      destruct ((0 <? mq_max q) && (mq_max q <? mq_running q + 1)) eqn:E0; lia.
    + cbn [b2n] in Hc. lia.
  - specialize (HI q' Hq'). specialize (Hc (Pq (mq_id q'))). unfold Pq at 2 4 in Hc. cbn [ma_state ma_chain] in Hc.
    rewrite ER, ER' in Hc. cbn [andb b2n] in Hc. lia.
Qed.

Lemma find_self s id a : m_find_app s id = Some a -> m_find_app s (ma_id a) = Some a.
Proof. intro H. destruct (find_app_id _ _ _ H) as [E _]. rewrite E. exact H. Qed.

Lemma fire_InvA s id e : InvA s -> InvA (fire s id e).
Proof.
  intro HI. unfold fire. destruct (m_find_app s id) as [a|] eqn:Hf; [|exact HI].
  destruct (fsm (ma_state a) e); [|exact HI]. apply trans_InvA; [exact HI|eapply find_self; eauto].
Qed.

(* after a completeApplication event the application is not Running *)
Lemma find_after_trans s a st' :
  m_find_app s (ma_id a) = Some a ->
  m_find_app (trans s a st') (ma_id a) = Some (mkMA (ma_id a) (ma_chain a) st').
Proof.
  intro Hf. unfold m_find_app, trans, set_state in *. cbn [m_apps].
  rewrite find_upd_first; [rewrite Hf; reflexivity|]. intro x. reflexivity.
Qed.

Lemma fsm_complete_not_running st : match fsm st EvComplete with Some st' => st' <> ST_Running | None => st <> ST_Running end.
Proof.
  cbn [fsm]. destruct (st =? ST_Accepted) eqn:E1; cbn [orb].
  - discriminate.
  - destruct (st =? ST_Running) eqn:E2; [discriminate|].
    apply N.eqb_neq in E2. destruct (st =? ST_Completing); [discriminate|exact E2].
Qed.

Lemma fire_complete_not_running s id a2 :
  m_find_app (fire s id EvComplete) id = Some a2 -> ma_state a2 <> ST_Running.
Proof.
  unfold fire. destruct (m_find_app s id) as [a|] eqn:Hf; [|congruence].
  pose proof (fsm_complete_not_running (ma_state a)) as Hc.
  destruct (fsm (ma_state a) EvComplete) as [st'|].
  - pose proof (find_self _ _ _ Hf) as Hs. destruct (find_app_id _ _ _ Hf) as [Eid _].
    rewrite <- Eid. rewrite (find_after_trans s a st' Hs). intro H. inversion H; subst. exact Hc.
  - rewrite Hf. intro H. inversion H; subst. exact Hc.
Qed.

Lemma unlink_InvA s a : InvA s -> m_find_app s (ma_id a) = Some a -> ma_state a <> ST_Running -> InvA (unlink s a).
Proof.
  intros HI Hf Hn q' Hq'. unfold unlink in *. cbn [m_queues m_apps] in *.
  apply in_on_chain in Hq'. destruct Hq' as [q [Hq He]]. specialize (HI q Hq).
  pose proof (count_del_first (Pq (mq_id q)) (fun x => ma_id x =? ma_id a) (m_apps s) a Hf) as Hc.
  assert (Pq (mq_id q) a = false) as HP.
  { unfold Pq. apply N.eqb_neq in Hn. rewrite Hn. reflexivity. }
  rewrite HP in Hc. cbn [b2n] in Hc.
  destruct (in_chain q (ma_chain a)); subst q'; cbn [unalloc1 mq_id mq_running]; lia.
Qed.

Lemma step_InvA s o s' : InvA s -> step s o = Some s' -> InvA s'.
Proof.
  intros HI Hs. destruct o; cbn [step] in Hs.
  - (* MAddQueue *)
    destruct (m_find_q s id); [discriminate|]. inversion Hs; subst. intros q Hq. cbn [m_queues m_apps] in *.
    apply in_app_or in Hq. destruct Hq as [Hq|[Hq|[]]]; [apply HI; exact Hq|]. subst. cbn [mq_running]. lia.
  - inversion Hs; subst. intros q Hq. cbn [m_queues m_apps] in *. apply filter_In in Hq. apply HI. tauto.
  - inversion Hs; subst. intros q Hq. cbn [m_queues m_apps] in *. apply in_map_iff in Hq.
    destruct Hq as [q0 [He Hq]]. specialize (HI q0 Hq). destruct (mq_id q0 =? id); subst q; cbn [mq_id mq_running]; exact HI.
  - destruct (m_find_app s id); [discriminate|]. inversion Hs; subst. intros q Hq. cbn [m_queues m_apps] in *.
    specialize (HI q Hq). rewrite count_app, count_cons. lia.
  - destruct (m_find_app s id) as [a|] eqn:Hf; [|discriminate].
    destruct (fsm_can (ma_state a) st); [|discriminate]. inversion Hs; subst.
    apply trans_InvA; [exact HI|eapply find_self; eauto].
  - (* MSched *)
    destruct (m_find_app s id) as [a|] eqn:Hf; [|discriminate].
    destruct ((ma_state a =? ST_Accepted) && negb (canRunApp s (ma_chain a) id)); [discriminate|].
    assert (Hs1 : exists s1, InvA s1 /\
              (if (match to with Some st' => st' | None => ma_state a end) =? ST_Accepted
               then Some (mkMS (on_chain (ma_chain a) (alloc1 id) (m_queues s1)) (m_apps s1)) else Some s1) = Some s').
    { destruct to as [st'|].
      - destruct (fsm_can (ma_state a) st'); [|discriminate]. exists (trans s a st'). split; [|exact Hs].
        apply trans_InvA; [exact HI|eapply find_self; eauto].
      - exists s. split; [exact HI|exact Hs]. }
    destruct Hs1 as [s1 [HI1 Hs1]].
    destruct ((match to with Some st' => st' | None => ma_state a end) =? ST_Accepted); inversion Hs1; subst; [|exact HI1].
    intros q' Hq'. cbn [m_queues m_apps] in *. apply in_on_chain in Hq'. destruct Hq' as [q [Hq He]].
    specialize (HI1 q Hq). destruct (in_chain q (ma_chain a)); subst q'; cbn [alloc1 mq_id mq_running]; exact HI1.
  - (* MRemoveApp *)
    destruct (m_find_app s id) as [a|] eqn:Hf; [|discriminate].
    destruct twice.
    + destruct (m_find_app (fire (fire s id EvComplete) id EvComplete) id) as [a2|] eqn:Hf2; [|discriminate].
      inversion Hs; subst. apply unlink_InvA.
      * apply fire_InvA. apply fire_InvA. exact HI.
      * eapply find_self; eauto.
      * eapply fire_complete_not_running; eauto.
    + destruct (m_find_app (fire s id EvComplete) id) as [a2|] eqn:Hf2; [|discriminate].
      inversion Hs; subst. apply unlink_InvA.
      * apply fire_InvA. exact HI.
      * eapply find_self; eauto.
      * eapply fire_complete_not_running; eauto.
  - (* MTerminated *)
    destruct (m_find_app s id) as [a|] eqn:Hf; [|discriminate].
    destruct ((ma_state a =? ST_Completed) || (ma_state a =? ST_Failed)) eqn:E; [|discriminate].
    inversion Hs; subst. apply unlink_InvA; [exact HI|eapply find_self; eauto|].
    intro HR. rewrite HR in E. vm_compute in E. discriminate.
Qed.

Lemma run_inv (I : mst -> Prop) :
  (forall s o s', I s -> step s o = Some s' -> I s') ->
  forall ops s s', I s -> run s ops = Some s' -> I s'.
Proof.
  intros Hstep. induction ops as [|o t IH]; cbn [run]; intros s s' HI Hr.
  - inversion Hr; subst; exact HI.
  - destruct (step s o) as [s1|] eqn:E; [|discriminate]. eapply IH; [|exact Hr]. eapply Hstep; eauto.
Qed.

Lemma running_le_actual_l ops s : run m_init ops = Some s -> running_le_actual s = true.
Proof.
  intro H. apply InvA_bool. eapply (run_inv InvA step_InvA); [|exact H].
  intros q Hq. cbn in Hq. contradiction.
Qed.

(* ---------- allocating sets list live applications of the subtree ---------- *)
Definition InvL (s : mst) : Prop :=
  forall q x, In q (m_queues s) -> In x (mq_allocating q) ->
    exists a, In a (m_apps s) /\ ma_id a = x /\ memN (mq_id q) (ma_chain a) = true.

Lemma InvL_bool s : InvL s <-> allocating_live s = true.
Proof.
  unfold InvL, allocating_live. rewrite forallb_forall. split.
  - intros H q Hq. apply forallb_forall. intros x Hx. destruct (H q x Hq Hx) as [a [Ha [Hi Hm]]].
    apply existsb_exists. exists a. split; [exact Ha|]. unfold below, in_chain. rewrite Hm, Hi, N.eqb_refl. reflexivity.
  - intros H q x Hq Hx. specialize (H q Hq). rewrite forallb_forall in H. specialize (H x Hx).
    apply existsb_exists in H. destruct H as [a [Ha Hb]]. apply andb_true_iff in Hb. destruct Hb as [Hb1 Hb2].
    apply N.eqb_eq in Hb1. exists a. auto.
Qed.

Lemma set_state_keeps id st l w :
  In w l -> exists w', In w' (set_state id st l) /\ ma_id w' = ma_id w /\ ma_chain w' = ma_chain w.
Proof.
  intro H. unfold set_state.
  destruct (in_upd_first (fun a => ma_id a =? id) (fun a => mkMA (ma_id a) (ma_chain a) st) l w H) as [H1|H1].
  - exists w. auto.
  - eexists. split; [exact H1|]. split; reflexivity.
Qed.

Lemma trans_InvL s a st' : InvL s -> InvL (trans s a st').
Proof.
  intros HI q' x Hq' Hx. unfold trans in *. cbn [m_queues m_apps] in *.
  assert (exists q, In q (m_queues s) /\ mq_id q' = mq_id q /\ (In x (mq_allocating q))) as [q [Hq [Eid Hxq]]].
  { destruct ((ma_state a =? ST_Running) && negb (st' =? ST_Running));
    destruct (negb (ma_state a =? ST_Running) && (st' =? ST_Running)).
    - apply in_on_chain in Hq'. destruct Hq' as [q1 [Hq1 He1]]. apply in_on_chain in Hq1. destruct Hq1 as [q [Hq He]].
      exists q. split; [exact Hq|]. subst q' q1.
      destruct (in_chain q (ma_chain a)) eqn:E1; cbn [dec1 in_chain mq_id] in *; unfold in_chain in *; cbn [dec1 mq_id] in *;
        rewrite ?E1 in *; cbn [inc1 mq_id mq_allocating dec1] in *; split; auto; try (apply in_set_del in Hx; tauto).
    - apply in_on_chain in Hq'. destruct Hq' as [q [Hq He]]. exists q. split; [exact Hq|]. subst q'.
      destruct (in_chain q (ma_chain a)); cbn [dec1 mq_id mq_allocating] in *; auto.
    - apply in_on_chain in Hq'. destruct Hq' as [q [Hq He]]. exists q. split; [exact Hq|]. subst q'.
      destruct (in_chain q (ma_chain a)); cbn [inc1 mq_id mq_allocating] in *; auto.
      split; auto. apply in_set_del in Hx. tauto.
    - exists q'. auto. }
  destruct (HI q x Hq Hxq) as [w [Hw [Hi Hm]]].
  destruct (set_state_keeps (ma_id a) st' (m_apps s) w Hw) as [w' [Hw' [Ei Ec]]].
  exists w'. split; [exact Hw'|]. rewrite Ei, Ec, Eid. auto.
Qed.

Lemma fire_InvL s id e : InvL s -> InvL (fire s id e).
Proof.
  intro HI. unfold fire. destruct (m_find_app s id) as [a|]; [|exact HI].
  destruct (fsm (ma_state a) e); [|exact HI]. apply trans_InvL; exact HI.
Qed.

Lemma unlink_InvL s a : InvL s -> m_find_app s (ma_id a) = Some a -> InvL (unlink s a).
Proof.
  intros HI Hf q' x Hq' Hx. unfold unlink in *. cbn [m_queues m_apps] in *.
  apply in_on_chain in Hq'. destruct Hq' as [q [Hq He]].
  destruct (in_chain q (ma_chain a)) eqn:EC; subst q'.
  - cbn [unalloc1 mq_id mq_allocating] in *. apply in_set_del in Hx. destruct Hx as [Hx Hne].
    destruct (HI q x Hq Hx) as [w [Hw [Hi Hm]]]. exists w. split; [|auto].
    eapply in_del_first_other; [exact Hf|exact Hw|]. intro E. subst w. congruence.
  - destruct (HI q x Hq Hx) as [w [Hw [Hi Hm]]]. exists w. split; [|auto].
    eapply in_del_first_other; [exact Hf|exact Hw|]. intro E. subst w. unfold in_chain in EC. congruence.
Qed.

Lemma step_InvL s o s' : InvL s -> step s o = Some s' -> InvL s'.
Proof.
  intros HI Hs. destruct o; cbn [step] in Hs.
  - destruct (m_find_q s id); [discriminate|]. inversion Hs; subst. intros q x Hq Hx. cbn [m_queues m_apps] in *.
    apply in_app_or in Hq. destruct Hq as [Hq|[Hq|[]]]; [apply (HI q x Hq Hx)|]. subst. cbn in Hx. contradiction.
  - inversion Hs; subst. intros q x Hq Hx. cbn [m_queues m_apps] in *. apply filter_In in Hq. apply (HI q x); tauto.
  - inversion Hs; subst. intros q x Hq Hx. cbn [m_queues m_apps] in *. apply in_map_iff in Hq.
    destruct Hq as [q0 [He Hq]]. destruct (mq_id q0 =? id); subst q; cbn [mq_id mq_allocating] in *; apply (HI q0 x Hq Hx).
  - destruct (m_find_app s id); [discriminate|]. inversion Hs; subst. intros q x Hq Hx. cbn [m_queues m_apps] in *.
    destruct (HI q x Hq Hx) as [w [Hw H2]]. exists w. split; [apply in_or_app; left; exact Hw|exact H2].
  - destruct (m_find_app s id) as [a|] eqn:Hf; [|discriminate].
    destruct (fsm_can (ma_state a) st); [|discriminate]. inversion Hs; subst. apply trans_InvL; exact HI.
  - (* MSched *)
    destruct (m_find_app s id) as [a|] eqn:Hf; [|discriminate].
    destruct ((ma_state a =? ST_Accepted) && negb (canRunApp s (ma_chain a) id)); [discriminate|].
    destruct (find_app_id _ _ _ Hf) as [Eid Hin].
    assert (Hs1 : exists s1, InvL s1 /\
              (exists w, In w (m_apps s1) /\ ma_id w = id /\ ma_chain w = ma_chain a) /\
              (if (match to with Some st' => st' | None => ma_state a end) =? ST_Accepted
               then Some (mkMS (on_chain (ma_chain a) (alloc1 id) (m_queues s1)) (m_apps s1)) else Some s1) = Some s').
    { destruct to as [st'|].
      - destruct (fsm_can (ma_state a) st'); [|discriminate]. exists (trans s a st'). split; [apply trans_InvL; exact HI|].
        split; [|exact Hs]. unfold trans. cbn [m_apps].
        destruct (set_state_keeps (ma_id a) st' (m_apps s) a Hin) as [w' [Hw' [Ei Ec]]]. exists w'. rewrite Ei. auto.
      - exists s. split; [exact HI|]. split; [|exact Hs]. exists a. auto. }
    destruct Hs1 as [s1 [HI1 [[w [Hw [Ewi Ewc]]] Hs1]]].
    destruct ((match to with Some st' => st' | None => ma_state a end) =? ST_Accepted); inversion Hs1; subst s'; [|exact HI1].
    intros q' x Hq' Hx. cbn [m_queues m_apps] in *. apply in_on_chain in Hq'. destruct Hq' as [q [Hq He]].
    destruct (in_chain q (ma_chain a)) eqn:EC; subst q'.
    + cbn [alloc1 mq_id mq_allocating] in *. apply in_set_add in Hx. destruct Hx as [Hx|Hx].
      * subst x. exists w. split; [exact Hw|]. split; [exact Ewi|]. rewrite Ewc. exact EC.
      * apply (HI1 q x Hq Hx).
    + apply (HI1 q x Hq Hx).
  - destruct (m_find_app s id) as [a|] eqn:Hf; [|discriminate].
    destruct twice.
    + destruct (m_find_app (fire (fire s id EvComplete) id EvComplete) id) as [a2|] eqn:Hf2; [|discriminate].
      inversion Hs; subst. apply unlink_InvL; [apply fire_InvL; apply fire_InvL; exact HI|eapply find_self; eauto].
    + destruct (m_find_app (fire s id EvComplete) id) as [a2|] eqn:Hf2; [|discriminate].
      inversion Hs; subst. apply unlink_InvL; [apply fire_InvL; exact HI|eapply find_self; eauto].
  - destruct (m_find_app s id) as [a|] eqn:Hf; [|discriminate].
    destruct ((ma_state a =? ST_Completed) || (ma_state a =? ST_Failed)); [|discriminate].
    inversion Hs; subst. apply unlink_InvL; [exact HI|eapply find_self; eauto].
Qed.

Lemma allocating_live_l ops s : run m_init ops = Some s -> allocating_live s = true.
Proof.
  intro H. apply InvL_bool. eapply (run_inv InvL step_InvL); [|exact H].
  intros q x Hq. cbn in Hq. contradiction.
Qed.

(* the behaviour before the fix: Queue.RemoveApplication cleaned the leaf only; the ancestors kept the id *)
Definition leak_state : mst :=
  mkMS [mkMQ 1 0 0 [7]; mkMQ 2 2 0 [7]] [mkMA 7 [1; 2] ST_Failed].
Lemma allocating_leak_before_fix :
  allocating_live leak_state = true /\
  allocating_live (unlink_leaf_only leak_state (mkMA 7 [1; 2] ST_Failed)) = false /\
  allocating_live (unlink leak_state (mkMA 7 [1; 2] ST_Failed)) = true.
Proof. repeat split; vm_compute; reflexivity. Qed.

(* ---------- empty queue reports zero ---------- *)
Lemma empty_zero_from s : running_le_actual s = true -> allocating_live s = true -> empty_zero s = true.
Proof.
  intros HA HL. apply InvA_bool in HA. apply InvL_bool in HL.
  unfold empty_zero. apply forallb_forall. intros q Hq.
  destruct (existsb (below q) (m_apps s)) eqn:E; [reflexivity|]. cbn [orb].
  assert (Hnone : forall a, In a (m_apps s) -> memN (mq_id q) (ma_chain a) = false).
  { intros a Ha. destruct (memN (mq_id q) (ma_chain a)) eqn:EM; [|reflexivity].
    assert (existsb (below q) (m_apps s) = true) as X; [|congruence].
    apply existsb_exists. exists a. split; [exact Ha|exact EM]. }
  apply andb_true_iff. split.
  - specialize (HA q Hq). assert (count (Pq (mq_id q)) (m_apps s) = 0%nat) as Hz.
    { apply count_zero. intros a Ha. unfold Pq. rewrite (Hnone a Ha). apply andb_false_r. }
    rewrite Hz in HA. apply N.eqb_eq. lia.
  - destruct (mq_allocating q) as [|x t] eqn:EA; [reflexivity|].
    destruct (HL q x Hq) as [a [Ha [_ Hm]]]; [rewrite EA; left; reflexivity|].
    rewrite (Hnone a Ha) in Hm. discriminate.
Qed.

Lemma empty_zero_l ops s : run m_init ops = Some s -> empty_zero s = true.
Proof. intro H. apply empty_zero_from; [eapply running_le_actual_l|eapply allocating_live_l]; eauto. Qed.

(* ---------- running <= max ---------- *)
Lemma rmax_inc1 a q : running_le_max_q q = true -> running_le_max_q (inc1 a q) = true.
Proof.
  unfold running_le_max_q. cbn [inc1 mq_max mq_running]. intro H.
  destruct (mq_max q =? 0) eqn:E0; [reflexivity|]. cbn [orb] in *.
  destruct ((0 <? mq_max q) && (mq_max q <? mq_running q + 1)) eqn:E; lia.
Qed.
Lemma rmax_dec1 q : running_le_max_q q = true -> running_le_max_q (dec1 q) = true.
Proof.
  unfold running_le_max_q. cbn [dec1 mq_max mq_running]. intro H.
  destruct (mq_max q =? 0) eqn:E0; [reflexivity|]. cbn [orb] in *.
  destruct (0 <? mq_running q) eqn:E; lia.
Qed.

(* step form: holds for every step of the model, including reloads that lower a maximum *)
Definition QRel (q q' : mq) : Prop :=
  mq_id q' = mq_id q /\ mq_max q' = mq_max q /\
  (running_le_max_q q = true -> running_le_max_q q' = true) /\
  (mq_running q' <= mq_running q \/ running_le_max_q q' = true).

Lemma QRel_refl q : QRel q q.
Proof. unfold QRel. repeat split; auto. left. lia. Qed.

Lemma QRel_trans q1 q2 q3 : QRel q1 q2 -> QRel q2 q3 -> QRel q1 q3.
Proof.
  intros [I1 [M1 [P1 R1]]] [I2 [M2 [P2 R2]]]. unfold QRel. repeat split; try congruence; auto.
  destruct R2 as [R2|R2]; [|right; exact R2]. destruct R1 as [R1|R1]; [left; lia|right; auto].
Qed.

Lemma QRel_ok q q' : QRel q q' -> max_step_ok q q' = true.
Proof.
  intros [Hid [Hm [Hp Hr]]]. unfold max_step_ok. destruct (running_le_max_q q') eqn:E; [reflexivity|]. cbn [orb].
  rewrite Hm, N.eqb_refl. cbn [negb orb].
  destruct (running_le_max_q q) eqn:E2; [specialize (Hp eq_refl); discriminate|]. cbn [negb andb].
  destruct Hr as [Hr|Hr]; [apply N.leb_le; exact Hr|discriminate].
Qed.

Lemma QRel_inc1 a q : QRel q (inc1 a q).
Proof.
  unfold QRel. split; [reflexivity|]. split; [reflexivity|]. split; [apply rmax_inc1|].
  unfold running_le_max_q. cbn [inc1 mq_max mq_running].
  destruct ((0 <? mq_max q) && (mq_max q <? mq_running q + 1)) eqn:E.
  - right. lia.
  - destruct (mq_max q =? 0) eqn:E0; [right; reflexivity|]. cbn [orb]. right. lia.
Qed.
Lemma QRel_dec1 q : QRel q (dec1 q).
Proof.
  unfold QRel. split; [reflexivity|]. split; [reflexivity|]. split; [apply rmax_dec1|].
  left. cbn [dec1 mq_running]. destruct (0 <? mq_running q) eqn:E; lia.
Qed.
Lemma QRel_alloc1 a q : QRel q (alloc1 a q).
Proof. unfold QRel. repeat split; auto. left. cbn. lia. Qed.
Lemma QRel_unalloc1 a q : QRel q (unalloc1 a q).
Proof. unfold QRel. repeat split; auto. left. cbn. lia. Qed.

Definition LRel (qs qs' : list mq) : Prop := forall q', In q' qs' -> exists q, In q qs /\ QRel q q'.
Lemma LRel_refl qs : LRel qs qs.
Proof. intros q Hq. exists q. split; [exact Hq|apply QRel_refl]. Qed.
Lemma LRel_trans a b c : LRel a b -> LRel b c -> LRel a c.
Proof.
  intros H1 H2 q3 H3. destruct (H2 q3 H3) as [q2 [Hq2 R2]]. destruct (H1 q2 Hq2) as [q1 [Hq1 R1]].
  exists q1. split; [exact Hq1|eapply QRel_trans; eauto].
Qed.
Lemma LRel_on_chain chain f qs : (forall q, QRel q (f q)) -> LRel qs (on_chain chain f qs).
Proof.
  intros Hf q' Hq'. apply in_on_chain in Hq'. destruct Hq' as [q [Hq He]]. exists q. split; [exact Hq|].
  destruct (in_chain q chain); subst q'; [apply Hf|apply QRel_refl].
Qed.

Lemma trans_LRel s a st' : LRel (m_queues s) (m_queues (trans s a st')).
Proof.
  unfold trans. cbn [m_queues].
  destruct ((ma_state a =? ST_Running) && negb (st' =? ST_Running));
  destruct (negb (ma_state a =? ST_Running) && (st' =? ST_Running)).
  - eapply LRel_trans; [apply (LRel_on_chain (ma_chain a) dec1); apply QRel_dec1|apply LRel_on_chain; apply QRel_inc1].
  - apply LRel_on_chain; apply QRel_dec1.
  - apply LRel_on_chain; apply QRel_inc1.
  - apply LRel_refl.
Qed.
Lemma fire_LRel s id e : LRel (m_queues s) (m_queues (fire s id e)).
Proof.
  unfold fire. destruct (m_find_app s id) as [a|]; [|apply LRel_refl].
  destruct (fsm (ma_state a) e); [apply trans_LRel|apply LRel_refl].
Qed.
Lemma unlink_LRel s a : LRel (m_queues s) (m_queues (unlink s a)).
Proof. unfold unlink. cbn [m_queues]. apply LRel_on_chain. apply QRel_unalloc1. Qed.

Lemma LRel_pred s s' : LRel (m_queues s) (m_queues s') -> max_step_pred s s' = true.
Proof.
  intro H. unfold max_step_pred. apply forallb_forall. intros q' Hq'. destruct (H q' Hq') as [q [Hq R]].
  apply orb_true_iff. right. apply existsb_exists. exists q. split; [exact Hq|].
  destruct R as [Hid R']. rewrite Hid, N.eqb_refl. cbn [andb]. apply QRel_ok. split; [exact Hid|exact R'].
Qed.

Lemma max_step_l s o s' : step s o = Some s' -> max_step_pred s s' = true.
Proof.
  intro Hs. destruct o; cbn [step] in Hs.
  - destruct (m_find_q s id); [discriminate|]. inversion Hs; subst. unfold max_step_pred. cbn [m_queues].
    apply forallb_forall. intros q' Hq'. apply in_app_or in Hq'. destruct Hq' as [Hq'|[Hq'|[]]].
    + apply orb_true_iff. right. apply existsb_exists. exists q'. split; [exact Hq'|].
      rewrite N.eqb_refl. cbn [andb]. apply QRel_ok. apply QRel_refl.
    + subst q'. assert (running_le_max_q (mkMQ id max 0 []) = true) as X.
      { unfold running_le_max_q. cbn [mq_max mq_running]. lia. }
      rewrite X. reflexivity.
  - inversion Hs; subst. apply LRel_pred. cbn [m_queues]. intros q' Hq'. apply filter_In in Hq'.
    exists q'. split; [tauto|apply QRel_refl].
  - inversion Hs; subst. unfold max_step_pred. cbn [m_queues]. apply forallb_forall. intros q' Hq'.
    apply in_map_iff in Hq'. destruct Hq' as [q [He Hq]]. apply orb_true_iff. right. apply existsb_exists.
    exists q. split; [exact Hq|]. destruct (mq_id q =? id); subst q'.
    + cbn [mq_id]. rewrite N.eqb_refl. cbn [andb]. unfold max_step_ok.
      destruct (mq_max q =? max) eqn:EM.
      * apply N.eqb_eq in EM. subst max. apply QRel_ok. unfold QRel. cbn [mq_id mq_max mq_running].
        repeat split; auto. left. lia.
      * cbn [mq_max]. rewrite EM. cbn [negb]. rewrite orb_true_r. reflexivity.
    + rewrite N.eqb_refl. cbn [andb]. apply QRel_ok. apply QRel_refl.
  - destruct (m_find_app s id); [discriminate|]. inversion Hs; subst. apply LRel_pred. apply LRel_refl.
  - destruct (m_find_app s id) as [a|]; [|discriminate].
    destruct (fsm_can (ma_state a) st); [|discriminate]. inversion Hs; subst. apply LRel_pred. apply trans_LRel.
  - destruct (m_find_app s id) as [a|]; [|discriminate].
    destruct ((ma_state a =? ST_Accepted) && negb (canRunApp s (ma_chain a) id)); [discriminate|].
    assert (Hs1 : exists s1, LRel (m_queues s) (m_queues s1) /\
              (if (match to with Some st' => st' | None => ma_state a end) =? ST_Accepted
               then Some (mkMS (on_chain (ma_chain a) (alloc1 id) (m_queues s1)) (m_apps s1)) else Some s1) = Some s').
    { destruct to as [st'|].
      - destruct (fsm_can (ma_state a) st'); [|discriminate]. exists (trans s a st'). split; [apply trans_LRel|exact Hs].
      - exists s. split; [apply LRel_refl|exact Hs]. }
    destruct Hs1 as [s1 [HI1 Hs1]]. apply LRel_pred.
    destruct ((match to with Some st' => st' | None => ma_state a end) =? ST_Accepted); inversion Hs1; subst s'; [|exact HI1].
    cbn [m_queues]. eapply LRel_trans; [exact HI1|]. apply LRel_on_chain. apply QRel_alloc1.
  - destruct (m_find_app s id) as [a|]; [|discriminate]. destruct twice.
    + destruct (m_find_app (fire (fire s id EvComplete) id EvComplete) id) as [a2|]; [|discriminate].
      inversion Hs; subst. apply LRel_pred.
      eapply LRel_trans; [apply fire_LRel|]. eapply LRel_trans; [apply fire_LRel|]. apply unlink_LRel.
    + destruct (m_find_app (fire s id EvComplete) id) as [a2|]; [|discriminate].
      inversion Hs; subst. apply LRel_pred. eapply LRel_trans; [apply fire_LRel|]. apply unlink_LRel.
  - destruct (m_find_app s id) as [a|]; [|discriminate].
    destruct ((ma_state a =? ST_Completed) || (ma_state a =? ST_Failed)); [|discriminate].
    inversion Hs; subst. apply LRel_pred. apply unlink_LRel.
Qed.

(* the invariant form needs the hypothesis that no reload lowers a maximum below the running count *)
Definition InvM (s : mst) : Prop := forall q, In q (m_queues s) -> running_le_max_q q = true.
Lemma InvM_bool s : InvM s <-> running_le_max s = true.
Proof. unfold InvM, running_le_max. rewrite forallb_forall. tauto. Qed.

Lemma on_chain_InvM chain f qs :
  (forall q, running_le_max_q q = true -> running_le_max_q (f q) = true) ->
  (forall q, In q qs -> running_le_max_q q = true) ->
  forall q', In q' (on_chain chain f qs) -> running_le_max_q q' = true.
Proof.
  intros Hp HI q' Hq'. apply in_on_chain in Hq'. destruct Hq' as [q [Hq He]].
  destruct (in_chain q chain); subst q'; auto.
Qed.

Lemma trans_InvM s a st' : InvM s -> InvM (trans s a st').
Proof.
  intros HI. unfold InvM, trans. cbn [m_queues].
  destruct ((ma_state a =? ST_Running) && negb (st' =? ST_Running));
  destruct (negb (ma_state a =? ST_Running) && (st' =? ST_Running)).
  - apply on_chain_InvM; [apply rmax_inc1|]. apply on_chain_InvM; [apply rmax_dec1|exact HI].
  - apply on_chain_InvM; [apply rmax_dec1|exact HI].
  - apply on_chain_InvM; [apply rmax_inc1|exact HI].
  - exact HI.
Qed.

Lemma fire_InvM s id e : InvM s -> InvM (fire s id e).
Proof.
  intro HI. unfold fire. destruct (m_find_app s id) as [a|]; [|exact HI].
  destruct (fsm (ma_state a) e); [|exact HI]. apply trans_InvM; exact HI.
Qed.

Lemma unlink_InvM s a : InvM s -> InvM (unlink s a).
Proof.
  intro HI. unfold InvM, unlink. cbn [m_queues]. apply on_chain_InvM; [|exact HI].
  intros q H. exact H.
Qed.

Lemma step_InvM s o s' : InvM s -> lowers s o = false -> step s o = Some s' -> InvM s'.
Proof.
  intros HI Hl Hs. destruct o; cbn [step] in Hs.
  - destruct (m_find_q s id); [discriminate|]. inversion Hs; subst. intros q Hq. cbn [m_queues] in Hq.
    apply in_app_or in Hq. destruct Hq as [Hq|[Hq|[]]]; [apply HI; exact Hq|]. subst. unfold running_le_max_q. cbn. lia.
  - inversion Hs; subst. intros q Hq. cbn [m_queues] in Hq. apply filter_In in Hq. apply HI. tauto.
  - inversion Hs; subst. intros q Hq. cbn [m_queues] in Hq. apply in_map_iff in Hq. destruct Hq as [q0 [He Hq]].
    destruct (mq_id q0 =? id) eqn:Ei; subst q; [|apply HI; exact Hq].
    cbn [lowers] in Hl. unfold running_le_max_q. cbn [mq_max mq_running].
    destruct (max =? 0) eqn:E0; [reflexivity|]. cbn [orb].
    assert (existsb (fun q => (mq_id q =? id) && (0 <? max) && (max <? mq_running q)) (m_queues s) = false -> (max <? mq_running q0) = false) as X.
    { intro Hx. destruct (max <? mq_running q0) eqn:E; [|reflexivity].
      assert (existsb (fun q => (mq_id q =? id) && (0 <? max) && (max <? mq_running q)) (m_queues s) = true) as Y; [|congruence].
      apply existsb_exists. exists q0. split; [exact Hq|]. rewrite Ei, E. cbn [andb]. lia. }
    specialize (X Hl). lia.
  - destruct (m_find_app s id); [discriminate|]. inversion Hs; subst. exact HI.
  - destruct (m_find_app s id) as [a|]; [|discriminate].
    destruct (fsm_can (ma_state a) st); [|discriminate]. inversion Hs; subst. apply trans_InvM; exact HI.
  - destruct (m_find_app s id) as [a|]; [|discriminate].
    destruct ((ma_state a =? ST_Accepted) && negb (canRunApp s (ma_chain a) id)); [discriminate|].
    assert (Hs1 : exists s1, InvM s1 /\
              (if (match to with Some st' => st' | None => ma_state a end) =? ST_Accepted
               then Some (mkMS (on_chain (ma_chain a) (alloc1 id) (m_queues s1)) (m_apps s1)) else Some s1) = Some s').
    { destruct to as [st'|].
      - destruct (fsm_can (ma_state a) st'); [|discriminate]. exists (trans s a st'). split; [apply trans_InvM; exact HI|exact Hs].
      - exists s. split; [exact HI|exact Hs]. }
    destruct Hs1 as [s1 [HI1 Hs1]].
    destruct ((match to with Some st' => st' | None => ma_state a end) =? ST_Accepted); inversion Hs1; subst s'; [|exact HI1].
    unfold InvM. cbn [m_queues]. apply on_chain_InvM; [|exact HI1]. intros q H; exact H.
  - destruct (m_find_app s id) as [a|]; [|discriminate]. destruct twice.
    + destruct (m_find_app (fire (fire s id EvComplete) id EvComplete) id) as [a2|]; [|discriminate].
      inversion Hs; subst. apply unlink_InvM. apply fire_InvM. apply fire_InvM. exact HI.
    + destruct (m_find_app (fire s id EvComplete) id) as [a2|]; [|discriminate].
      inversion Hs; subst. apply unlink_InvM. apply fire_InvM. exact HI.
  - destruct (m_find_app s id) as [a|]; [|discriminate].
    destruct ((ma_state a =? ST_Completed) || (ma_state a =? ST_Failed)); [|discriminate].
    inversion Hs; subst. apply unlink_InvM. exact HI.
Qed.

Lemma running_le_max_l ops : forall s, run_nolower m_init ops = Some s -> running_le_max s = true.
Proof.
  assert (G : forall l s0 s, InvM s0 -> run_nolower s0 l = Some s -> InvM s).
  { induction l as [|o t IH]; cbn [run_nolower]; intros s0 s HI Hr.
    - inversion Hr; subst; exact HI.
    - destruct (lowers s0 o) eqn:El; [discriminate|]. destruct (step s0 o) as [s1|] eqn:E; [|discriminate].
      eapply IH; [|exact Hr]. eapply step_InvM; eauto. }
  intros s H. apply InvM_bool. eapply G; [|exact H]. intros q Hq. cbn in Hq. contradiction.
Qed.

(* without the hypothesis the clause is false of the model (and of the code): lowering the maximum by a
   reload leaves the running count above it *)
Definition lower_witness : list mop :=
  [MAddQueue 1 0; MAddApp 1 [1]; MTo 1 ST_Accepted; MTo 1 ST_Running;
   MAddApp 2 [1]; MTo 2 ST_Accepted; MTo 2 ST_Running; MSetMax 1 1].
Lemma running_le_max_refuted : exists s, run m_init lower_witness = Some s /\ running_le_max s = false.
Proof. eexists. split; vm_compute; reflexivity. Qed.

(* ---------- the hypotheses are satisfiable on non-trivial states ---------- *)
(* parent 2 (max 2) above leaf 1 (max 1): application 1 allocates placeholders (Accepted, tracked as
   allocating), application 2 in the same leaf is refused, application 3 in leaf 3 under the same parent is
   admitted and starts running; application 1 then fails and is cleaned up on every level *)
Definition ex_ops : list mop :=
  [MAddQueue 2 2; MAddQueue 1 1; MAddQueue 3 0;
   MAddApp 1 [1; 2]; MTo 1 ST_Accepted; MSched 1 None;
   MAddApp 2 [1; 2]; MTo 2 ST_Accepted;
   MAddApp 3 [3; 2]; MTo 3 ST_Accepted; MSched 3 (Some ST_Running)].
Example ex_reachable :
  exists s, run m_init ex_ops = Some s /\
            map (fun q => (mq_id q, mq_running q, mq_allocating q)) (m_queues s) = [(2, 1, [1]); (1, 0, [1]); (3, 1, [])] /\
            step s (MSched 2 None) = None /\
            running_le_actual s = true /\ allocating_live s = true /\ empty_zero s = true /\ running_le_max s = true.
Proof. eexists. repeat split; vm_compute; reflexivity. Qed.
Example ex_cleanup :
  exists s, run m_init (ex_ops ++ [MTo 1 ST_Failing; MTo 1 ST_Failed; MTerminated 1; MSched 2 None]) = Some s /\
            map (fun q => (mq_id q, mq_running q, mq_allocating q)) (m_queues s) = [(2, 1, [2]); (1, 0, [2]); (3, 1, [])].
Proof. eexists. split; vm_compute; reflexivity. Qed.
