(* C03 over the gang fragment (Core/Model3.v): releases that are not the confirmation of a replacement, part 3:
   the walk [remove_allocs_from_nodes] over ALL allocations of one application (removeAllocation with an empty key,
   Core/Model3ProofsO4d.v), for states with in-flight records on the nodes.
   [WQ σ L]: the state reached while the allocations L are still to be removed - every node lists what it listed in the
   start state s minus the allocations of the application that are not in L, with a correct ledger; the sum over the
   not-in-flight records dropped by what was removed.  [WQ_run]: the walk ends in [WQ _ []].
   Also: [total_fold], the accumulated total handed to DecAllocatedResource. *)
From Coq Require Import List ZArith NArith Bool Lia ZifyBool.
From YK Require Import Base.Int64 Base.Res Base.ResSpec Base.ResLemmas Base.ResLaws Base.ResLaws2 Base.ResLawsPred
  Core.Obs Core.Model Core.Model2 Core.Model3 Core.Ledger
  Core.BooksLemmas Core.BooksDefs Core.BooksTree Core.BooksQueue Core.BooksApp Core.BooksState Core.BooksDrain Core.BooksOps
  Core.BooksOps2 Core.BooksOps3 Core.Model2ProofsB1 Core.Model2ProofsB2 Core.Model2ProofsB4 Core.Model3ProofsD Core.Model3ProofsD2
  Core.Model3ProofsG1 Core.Model3ProofsG2 Core.Model3ProofsG6 Core.Model3ProofsO4.
Import ListNotations.
Open Scope Z_scope.
Set Default Timeout 30.

(* ================================================================== 1. tools *)
Lemma forall2_refl {A} (R : A -> A -> Prop) l : (forall z, In z l -> R z z) -> Forall2 R l l.
Proof. induction l as [|z t IH]; intros H; constructor; [apply H; left; reflexivity|apply IH; intros y Hy; apply H; right; exact Hy]. Qed.
Lemma forall2_in_l {A B} (R : A -> B -> Prop) l l' z : Forall2 R l l' -> In z l -> exists z', In z' l' /\ R z z'.
Proof. induction 1 as [|y y' t t' Hr _ IH]; intros Hin; [contradiction|]. destruct Hin as [->|Hin]; [exists y'; split; [left; reflexivity|exact Hr]|].
  destruct (IH Hin) as (z' & Hz' & Rz). exists z'. split; [right; exact Hz'|exact Rz]. Qed.
Lemma forall2_in_r {A B} (R : A -> B -> Prop) l l' z' : Forall2 R l l' -> In z' l' -> exists z, In z l /\ R z z'.
Proof. induction 1 as [|y y' t t' Hr _ IH]; intros Hin; [contradiction|]. destruct Hin as [->|Hin]; [exists y; split; [left; reflexivity|exact Hr]|].
  destruct (IH Hin) as (z & Hz & Rz). exists z. split; [right; exact Hz|exact Rz]. Qed.
Lemma forall2_map_r {A B} (R R' : A -> B -> Prop) (g : B -> B) l l' : Forall2 R l l' ->
  (forall z z', In z l -> In z' l' -> R z z' -> R' z (g z')) -> Forall2 R' l (map g l').
Proof. induction 1 as [|y y' t t' Hr _ IH]; intros H; cbn [map]; constructor.
  - apply H; [left; reflexivity|left; reflexivity|exact Hr].
  - apply IH. intros z z' Hz Hz'. apply H; right; assumption. Qed.
Lemma forall2_ids {A} (R : A -> onode -> Prop) (f : A -> N) l l' : Forall2 R l l' -> (forall z z', R z z' -> on_id z' = f z) -> map on_id l' = map f l.
Proof. induction 1 as [|y y' t t' Hr _ IH]; intros H; [reflexivity|]. cbn [map]. rewrite (H y y' Hr), (IH H). reflexivity. Qed.

Lemma asum_filter_between (P : oalloc -> bool) l k : (forall y, In y l -> rnonneg (oa_res y)) -> 0 <= asum (filter P l) k <= asum l k.
Proof. intros Hnn. rewrite (asum_split P l k). split.
  - apply asum_nonneg. intros y Hy. apply filter_In in Hy. apply Hnn. tauto.
  - assert (0 <= asum (filter (fun y => negb (P y)) l) k) by (apply asum_nonneg; intros y Hy; apply filter_In in Hy; apply Hnn; tauto). lia. Qed.

Lemma memN_cons k k0 l : memN k (k0 :: l) = (k =? k0)%N || memN k l. Proof. reflexivity. Qed.
Lemma filter_filter_and {A} (P Q : A -> bool) l : filter Q (filter P l) = filter (fun y => P y && Q y) l.
Proof. induction l as [|y t IH]; [reflexivity|]. cbn [filter]. destruct (P y) eqn:Ep; cbn [filter andb]; [destruct (Q y)|]; rewrite IH; reflexivity. Qed.

(* the total that one DecAllocatedResource gives back: the sum of the allocations the nodes listed *)
Lemma total_fold (P : oalloc -> bool) L : forall tot,
  (forall x, In x L -> P x = true /\ wf (oa_res x) /\ rb (oa_res x) /\ rnonneg (oa_res x)) -> wf tot -> (forall k, 0 <= getz tot k) ->
  (forall k, getz tot k + asum L k < 2^62) ->
  wf (fold_left (fun tot x => if P x then addTo tot (oa_res x) else tot) L tot) /\
  forall k, getz (fold_left (fun tot x => if P x then addTo tot (oa_res x) else tot) L tot) k = getz tot k + asum L k.
Proof. induction L as [|x t IH]; intros tot HL Wt Nt Bt; cbn [fold_left]; [split; [exact Wt|intros k; rewrite asum_nil; lia]|].
  destruct (HL x (or_introl eq_refl)) as (Px & Wx & Bx & Nx). rewrite Px.
  assert (Nn : forall k, 0 <= asum t k) by (intros k; apply asum_nonneg; intros y Hy; apply (HL y (or_intror Hy))).
  assert (G : forall k, getz (addTo tot (oa_res x)) k = getz tot k + getz (oa_res x) k).
  { intros k. apply addTo_getz; [exact Wx| |exact Bx]. intros j. specialize (Nt j). specialize (Bt j). rewrite asum_cons in Bt.
    pose proof (rnonneg_fnonneg _ Nx j). specialize (Nn j). unfold bnd. lia. }
  destruct (IH (addTo tot (oa_res x))) as [W' G'].
  - intros y Hy. apply HL. right. exact Hy.
  - apply addTo_wf. exact Wt.
  - intros k. rewrite G. specialize (Nt k). pose proof (rnonneg_fnonneg _ Nx k). lia.
  - intros k. rewrite G. specialize (Bt k). rewrite asum_cons in Bt. lia.
  - split; [exact W'|]. intros k. rewrite G', G, asum_cons. lia. Qed.

(* ================================================================== 2. the walk *)
(* what a node keeps while the allocations L of the application (allocation list A) are still to be removed *)
Definition keepf (A L : list oalloc) (y : oalloc) : bool := negb (memN (oa_key y) (akeys A)) || memN (oa_key y) (akeys L).
Definition NR (A L : list oalloc) (m m' : onode) : Prop :=
  on_id m' = on_id m /\ on_allocs m' = filter (keepf A L) (on_allocs m) /\ wf (on_allocated m') /\
  forall k, getz (on_allocated m') k = asum (on_allocs m') k.

Lemma keepf_all A y : keepf A A y = true.
Proof. unfold keepf. destruct (memN _ _); reflexivity. Qed.
Lemma keepf_tail A x t y : In x A -> NoDup (akeys (x :: t)) ->
  keepf A (x :: t) y && negb (oa_key y =? oa_key x)%N = keepf A t y.
Proof. intros Hx Hnd. unfold keepf. cbn [akeys map]. rewrite memN_cons. fold (akeys t). destruct (N.eqb_spec (oa_key y) (oa_key x)) as [E|E].
  - rewrite andb_false_r. rewrite E. inversion Hnd as [|? ? Hni _]; subst.
    rewrite (proj2 (memN_in (oa_key x) (akeys A))) by (apply in_map; exact Hx). rewrite (proj2 (memN_false _ _) Hni). reflexivity.
  - rewrite andb_true_r. reflexivity. Qed.
Lemma keepf_other A x t y : oa_key y <> oa_key x -> keepf A (x :: t) y = keepf A t y.
Proof. intros E. unfold keepf. cbn [akeys map]. rewrite memN_cons. destruct (N.eqb_spec (oa_key y) (oa_key x)); [contradiction|reflexivity]. Qed.

Section WalkG.
  Variables (s : ostate) (a : oapp).
  Hypothesis HI : InvG s.
  Hypothesis HBd : Bounded3 s.
  Hypothesis Ha : In a (s_apps s).
  Let A := ap_allocs a.
  Let W := ig_app_wf s HI a Ha.

  Record WQ (σ : ostate) (L : list oalloc) : Prop := mkWQ {
    wq_rel : Forall2 (NR A L) (s_nodes s) (s_nodes σ);
    wq_sum : forall k, asum (filter ninfl (node_records σ)) k = asum (filter ninfl (node_records s)) k - (asum A k - asum L k) }.

  Lemma wq_node_rec_nn m y : In m (s_nodes s) -> In y (on_allocs m) -> rnonneg (oa_res y).
  Proof. intros Hm Hy. destruct (ig_owned s HI m y Hm Hy) as (b & Hb & _ & Ho). apply (a3_nn _ y (g_record_ok s b y HI Hb (ownedby_record b y Ho))). Qed.

  Lemma WQ_init σ : s_nodes σ = s_nodes s -> WQ σ A.
  Proof. intros En. constructor.
    - rewrite En. apply forall2_refl. intros m Hm. destruct (ig_nodes s HI m Hm) as [K1 K2 K3 K4]. split; [reflexivity|]. split; [|split; assumption].
      symmetry. apply filter_all. intros y _. apply keepf_all.
    - intros k. unfold node_records. rewrite En. lia. Qed.

  Lemma wq_ids σ L : WQ σ L -> map on_id (s_nodes σ) = map on_id (s_nodes s).
  Proof. intros [R _]. apply (forall2_ids _ on_id _ _ R). intros z z' Hr. apply Hr. Qed.

  Lemma WQ_step σ x t : WQ σ (x :: t) -> incl (x :: t) A -> NoDup (akeys (x :: t)) ->
    exists m', find_node σ (oa_node x) = Some m' /\ WQ (upd_node σ (on_id m') (fun _ => n_remove m' (oa_key x))) t.
  Proof. intros HQ Hincl Hnd. pose proof (wq_ids σ _ HQ) as Eids. destruct HQ as [R S].
    assert (Hx : In x A) by (apply Hincl; left; reflexivity).
    destruct (ig_onnode s HI a x Ha Hx) as (m & Hm & Em & Hxm).
    destruct (forall2_in_l _ _ _ m R Hm) as (m' & Hm' & Ei & Eal & Wm' & Lm').
    assert (Hnd' : NoDup (map on_id (s_nodes σ))) by (rewrite Eids; apply (ig_node_ids s HI)).
    assert (Efn : find_node σ (oa_node x) = Some m').
    { rewrite <- Em, <- Ei, find_node_findk. apply (findk_in on_id); assumption. }
    assert (Kn : NoDup (akeys (on_allocs m'))) by (rewrite Eal; apply akeys_filter_nodup; apply (k3_keys m (ig_nodes s HI m Hm))).
    assert (Hxm' : In x (on_allocs m')).
    { rewrite Eal. apply filter_In. split; [exact Hxm|]. unfold keepf. cbn [akeys map]. rewrite memN_cons, N.eqb_refl. apply orb_true_r. }
    assert (Hf : find_alloc (on_allocs m') (oa_key x) = Some x) by (apply find_alloc_in; assumption).
    exists m'. split; [exact Efn|]. unfold n_remove. rewrite Hf. fold (node_unbound m' x). set (n2 := node_unbound m' x).
    destruct (w3_alloc a W x Hx) as [Wx Nx _ _ _]. pose proof (abd_alloc a (bd_apps s (b3_base s HBd) a Ha) x Hx) as Bx.
    assert (Bm' : rb (on_allocated m')).
    { intros k. rewrite Lm', Eal. pose proof (asum_filter_between (keepf A (x :: t)) (on_allocs m) k (fun y Hy => wq_node_rec_nn m y Hm Hy)) as Hb.
      rewrite <- (k3_ledger m (ig_nodes s HI m Hm) k) in Hb. pose proof (bd_nodes s (b3_base s HBd) m Hm k) as H. unfold bnd in *. unfold A in *. clear - Hb H. lia. }
    assert (G2 : forall k, getz (on_allocated n2) k = getz (on_allocated m') k - getz (oa_res x) k).
    { intros k. cbn [n2 node_unbound n_with on_allocated]. rewrite Prune_getz by (apply subFrom_wf; exact Wm'). apply subFrom_getz; assumption. }
    assert (E2 : on_allocs n2 = filter (keepf A t) (on_allocs m)).
    { cbn [n2 node_unbound n_with on_allocs]. rewrite Eal. unfold del_alloc. rewrite filter_filter_and. apply filter_ext. intros y.
      apply (keepf_tail A x t y Hx Hnd). }
    assert (Enodes : s_nodes (upd_node σ (on_id m') (fun _ => n2)) = updk on_id (s_nodes σ) (on_id m') (fun _ => n2)) by reflexivity.
    constructor.
    - rewrite Enodes. unfold updk. apply (forall2_map_r (NR A (x :: t))); [exact R|]. intros z z' Hz Hz' (Zi & Zal & Zw & Zl).
      destruct (N.eqb_spec (on_id z') (on_id m')) as [E|E].
      + assert (z' = m') by (apply (nodup_key_inj on_id (s_nodes σ)); assumption). subst z'.
        assert (z = m) by (apply (g_same_node s m z HI Hm Hz); congruence). subst z.
        split; [exact Ei|]. split; [exact E2|]. split; [cbn [n2 node_unbound n_with on_allocated]; apply Prune_wf, subFrom_wf; exact Wm'|].
        intros k. rewrite G2, Lm'. cbn [n2 node_unbound n_with on_allocs]. rewrite asum_del, Hf by exact Kn. reflexivity.
      + split; [exact Zi|]. split; [|split; assumption]. rewrite Zal. apply filter_ext_in'. intros y Hy. apply keepf_other. intros Ek.
        apply E. destruct (g_record_one_node s z m y x HI Hz Hm Hy Hxm Ek) as [_ ->]. congruence.
    - intros k. unfold node_records. rewrite Enodes, (flat_map_sum_updk ninfl (s_nodes σ) m' n2 k Hnd' Hm').
      fold (node_records σ). rewrite S. cbn [n2 node_unbound n_with on_allocs]. rewrite asum_filter_del, Hf by exact Kn.
      rewrite (alloc_ninfl a x W Hx), asum_cons. unfold node_records. lia. Qed.

  Lemma WQ_run : forall L σ, WQ σ L -> incl L A -> NoDup (akeys L) -> WQ (remove_allocs_from_nodes σ L) [].
  Proof. induction L as [|x t IH]; intros σ HQ Hincl Hnd; [exact HQ|]. cbn [remove_allocs_from_nodes].
    destruct (WQ_step σ x t HQ Hincl Hnd) as (m' & Efn & HQ'). rewrite Efn. apply IH; [exact HQ'| |].
    - intros y Hy. apply Hincl. right. exact Hy.
    - cbn [akeys map] in Hnd. inversion Hnd. assumption. Qed.
End WalkG.
