(* The hypotheses of C01d are satisfiable: the nine step history of Core/Model4ProofsEx.v (a node is reserved, an allocation is
   released while the reservation is held, the reserved ask is allocated on its node), with sound boolean forms of the run
   hypotheses of C01d. *)
From Coq Require Import List ZArith NArith Bool Lia ZifyBool.
From YK Require Import Base.Int64 Base.Res Base.ResSpec Core.Obs Core.Model Core.Model2 Core.Ledger Core.Model4 Core.NodeProofs Core.QueueProofs
  Core.StepProofs Core.LedgerExamples Core.Model2ProofsN Core.Model2ProofsNEx Core.Model4ProofsF Core.Model4ProofsN Core.Model4ProofsN2 Oracles.CoreC01.
Import ListNotations.
Open Scope Z_scope.

Definition sched_fresh_b (s : ostate) (st : ostep) : bool :=
  forallb (fun x : N * N * N * bool => match find_node s (snd (fst x)) with Some n => negb (key_in (on_allocs n) (fst (fst (fst x)))) | None => true end)
          (new_allocs (st_events st)).
Lemma sched_fresh_b_sound s st : sched_fresh_b s st = true -> sched_fresh s st.
Proof. unfold sched_fresh_b, sched_fresh. rewrite forallb_forall. intros H k a nid ph n Hin En. specialize (H _ Hin). cbn [fst snd] in H. rewrite En in H.
  apply key_in_false. exact H. Qed.
Definition step_ok4_b (s : ostate) (st : ostep) : bool :=
  match st_op st with
  | OpSched => sched_fresh_b s st
  | OpRelease _ key _ => negb (key =? 0)%N || allocs_nonneg_b s
  | _ => true
  end.
Lemma step_ok4_b_sound s st : step_ok4_b s st = true -> step_ok4 s st.
Proof. unfold step_ok4_b, step_ok4. destruct (st_op st); auto.
  - intros H Ek. subst key. cbn [N.eqb negb orb] in H. apply allocs_nonneg_b_sound. exact H.
  - apply sched_fresh_b_sound. Qed.
Fixpoint run_ok4_b (deny : list (N * N)) (s : ostate) (steps : list ostep) : bool :=
  match steps with
  | [] => true
  | st :: t => bounded_b s && step_ok2_b s st && step_ok4_b s st &&
               match m_step4 deny s st with Some s' => run_ok4_b deny s' t | None => true end
  end.
Lemma run_ok4_b_sound deny steps : forall s, run_ok4_b deny s steps = true -> run_ok4 deny s steps.
Proof. induction steps as [|st t IH]; intros s H; [exact I|]. cbn [run_ok4_b run_ok4] in *. rewrite !andb_true_iff in H.
  destruct H as [[[H1 H2] H3] H4]. split; [apply bounded_b_sound; assumption|]. split; [apply step_ok2_b_sound; assumption|].
  split; [apply step_ok4_b_sound; assumption|]. destruct (m_step4 deny s st); auto. Qed.

Definition x4_queue (id parent : N) (leaf : bool) : oqueue := mkOQ id parent leaf true QS_Active None None [] [] [] 0 0 [] [] [].
Definition x4_s0 : ostate := mkOS [] [] [x4_queue 1 0 false; x4_queue 2 1 false; x4_queue 3 2 true; x4_queue 4 1 true] None 0 0 0 [] [] [] [].
Definition x4_obs (res : list (N * N)) (nres : Z) : ostate :=
  mkOS [] [mkOApp 1 3 ST_Running 1%N [] [] [] [] [] [] res [] [] false false false false] [] None 0 0 nres [] [] [] [].
Definition x4_step (o : oop) (evs : list oevent) (obs : ostate) : ostep := mkStep o false evs [] false false obs.
Definition x4_steps : list ostep :=
  [ x4_step (OpNodeAdd 1 [(1%N, 10)] false) [] x4_s0;
    x4_step (OpAppAdd 1 3 1 false false None false 0 None) [] x4_s0;
    x4_step (OpAlloc (n2_req 9 1 0 [(1%N, 8)])) [] x4_s0;
    x4_step OpSched [ENewAlloc 9 1 1 [(1%N, 8)] false] (x4_obs [] 0);
    x4_step (OpAlloc (n2_req 10 1 0 [(1%N, 5)])) [] x4_s0;
    x4_step OpSched [] (x4_obs [(1%N, 10%N)] 1);
    x4_step (OpRelease 1 9 TT_StoppedByRM) [] x4_s0;
    x4_step OpSched [ENewAlloc 10 1 1 [(1%N, 5)] false] (x4_obs [] 0);
    x4_step (OpAppRemove 1) [] x4_s0 ].

Example x4_sinv0 : SInv x4_s0.
Proof. apply sinv_b_sound. vm_compute. reflexivity. Qed.
Example x4_run_ok : run_ok4 [] x4_s0 x4_steps.
Proof. apply run_ok4_b_sound. vm_compute. reflexivity. Qed.
Example x4_covered : length (m_run4 [] x4_s0 x4_steps) = 9%nat.
Proof. vm_compute. reflexivity. Qed.
Lemma x4_hyps : SInv x4_s0 /\ run_ok4 [] x4_s0 x4_steps /\ length (m_run4 [] x4_s0 x4_steps) = 9%nat.
Proof. exact (conj x4_sinv0 (conj x4_run_ok x4_covered)). Qed.
(* the theorem applies, and agrees with the direct evaluation of the oracle *)
Example x4_ledger : forall s', In s' (m_run4 [] x4_s0 x4_steps) -> nodes_ledger_ok s' = true.
Proof. apply (m_run4_nodes_ledger [] x4_steps x4_s0 x4_sinv0 x4_run_ok). Qed.
Example x4_ledger_direct : forallb nodes_ledger_ok (m_run4 [] x4_s0 x4_steps) = true.
Proof. vm_compute. reflexivity. Qed.
(* the allocation of the reserved ask in step 8 is an AllocatedReserved decision on the node the ask holds reserved *)
Example x4_reserved_state : map on_reservations (s_nodes (nth 5 (m_run4 [] x4_s0 x4_steps) x4_s0)) = [[(1%N, 10%N)]] /\
  map on_reservations (s_nodes (nth 7 (m_run4 [] x4_s0 x4_steps) x4_s0)) = [[]].
Proof. vm_compute. split; reflexivity. Qed.
