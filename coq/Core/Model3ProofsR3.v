(* C03 over mixed runs of [m_step3]: the steps answered by the second fragment [m_step2] (Core/Model2.v) re-proved under the
   gang invariant [InvG2].  Part 3:
     [m_app_add_stepG]        AddApplication for a plain application;
     [m_fire_state_stepG]     timeoutStateTimer: a Completing application that holds nothing leaves the live list;
     [upd_real_stepG]         in-place resize of an ALLOCATED REAL allocation (UpdateAllocationResources + Node.UpdateAllocatedResource):
                              the analogue of [upd_alloc_stepG] (Core/Model3ProofsO2b.v, allocated placeholder) for the allocated ledger;
     [m_update_existing_stepG], [m_alloc2_stepG]   UpdateAllocation for a key the application holds as a real ask / allocation
                              (pending resize = [upd_mid_step] of O2b verbatim; placement = [sched_core_step] of O2). *)
From Coq Require Import List ZArith NArith Bool Lia ZifyBool.
From YK Require Import Base.Int64 Base.Res Base.ResSpec Base.ResLemmas Base.ResLaws Base.ResLaws2 Base.ResLawsPred
  Core.Obs Core.Model Core.Model2 Core.Model3 Core.Ledger
  Core.BooksLemmas Core.BooksDefs Core.BooksTree Core.BooksQueue Core.BooksApp Core.BooksState Core.BooksDrain Core.BooksOps
  Core.BooksOps2 Core.Model2ProofsB1 Core.Model2ProofsB2 Core.Model3ProofsD Core.Model3ProofsD2 Core.Model3ProofsG1 Core.Model3ProofsG2
  Core.Model3ProofsG4 Core.Model3ProofsG5 Core.Model3ProofsG6 Core.Model3ProofsA1 Core.Model3ProofsA2 Core.Model3ProofsA3
  Core.Model3ProofsO1 Core.Model3ProofsO1b Core.Model3ProofsO2 Core.Model3ProofsO2b Core.Model3ProofsO4 Core.Model3ProofsR1 Core.Model3ProofsR2.
Import ListNotations.
Open Scope Z_scope.
Set Default Timeout 60.

(* ================================================================== AddApplication, plain *)
Theorem m_app_add_stepG s s' id queue user forced nougi phask tagmaxapps tagmax : InvG2 s -> BooksG s ->
  m_app_add s id queue user forced nougi phask tagmaxapps tagmax = Some s' -> InvG2 s' /\ BooksG s'.
Proof. intros [HI HL] HB H. unfold m_app_add in H. destruct (find_app s id) eqn:Enew; [inversion H; subst s'; split; [split|]; assumption|].
  destruct (nougi || forced || _ || _ || _); [discriminate|]. destruct (find_queue s queue) as [q|] eqn:Eqq; [|discriminate].
  destruct (q_leaf q && (q_state q =? QS_Active)%N && negb (q_parent q =? 0)%N) eqn:Eg; [|discriminate].
  rewrite !andb_true_iff in Eg. destruct Eg as [[El _] _]. inversion H; subst s'; clear H.
  destruct (gang_app_facts id queue user forced []) as (F1 & F2 & F3 & F4).
  assert (G : InvG (set_apps s (s_apps s ++ [new_app id queue user forced])) /\ BooksG (set_apps s (s_apps s ++ [new_app id queue user forced]))).
  { apply (add_app_stepG s _ (new_app id queue user forced) HI HB); try reflexivity; try assumption. exists q. auto. }
  destruct G as [I' B']. split; [|exact B']. split; [exact I'|].
  apply (linkok_add_app s _ (new_app id queue user forced)); auto. Qed.

(* ================================================================== timeoutStateTimer *)
Theorem m_fire_state_stepG s s' id : InvG2 s -> BooksG s -> m_fire_state s id = Some s' -> InvG2 s' /\ BooksG s'.
Proof. intros HI2 HB H. pose proof HI2 as [HI HL]. unfold m_fire_state in H. destruct (find_app s id) as [a|] eqn:Ea; [|discriminate].
  destruct (negb (ap_statetimer a)); [inversion H; subst s'; split; assumption|].
  match type of H with (if ?c then _ else _) = _ => destruct c eqn:Eg; [|discriminate] end. inversion H; subst s'; clear H.
  rewrite !andb_true_iff in Eg. destruct Eg as [[[_ Zph] Zp] Za]. destruct (find_app_some s id a Ea) as [Ha Eid].
  pose proof (ig_app_wf s HI a Ha) as W. pose proof (bg_apps s HB a Ha) as B.
  assert (Eal : ap_allocs a = []).
  { apply (two_filters_nil oa_ph); [apply (zero_phalloc_no_ph a W B Zph)|apply (zero_allocated_no_real a W B Za)]. }
  assert (Hempty : forall b, In b (s_apps s) -> ap_id b = id -> AppEmpty b).
  { intros b Hb Eb. assert (b = a) by (apply (g_same_app s a b HI Ha Hb); congruence). subst b. constructor; [exact Eal| | |].
    - apply (IsZero_iff _ (w3_allocated a W)). exact Za.
    - apply (IsZero_iff _ (w3_phalloc a W)). exact Zph.
    - apply (IsZero_iff _ (w3_pending a W)). exact Zp. }
  assert (Hnorec : forall n y, In n (s_nodes s) -> In y (on_allocs n) -> oa_app y <> id).
  { intros n y Hn Hy E. destruct (g_owner s n y a HI Hn Hy Ha) as [Ho|(Hi & _)]; [congruence|rewrite Eal in Ho; contradiction|].
    destruct (lk_1 s HL n y Hn Hy Hi) as (b & ph & Hb & Eb & Hph & _).
    assert (b = a) by (apply (g_same_app s a b HI Ha Hb); congruence). subst b. rewrite Eal in Hph. contradiction. }
  assert (G : InvG (set_apps s (filter (fun b => negb (ap_id b =? id)%N) (s_apps s))) /\ BooksG (set_apps s (filter (fun b => negb (ap_id b =? id)%N) (s_apps s)))).
  { apply (drop_app_stepG s _ id HI HB); try reflexivity; assumption. }
  destruct G as [I' B']. split; [|exact B']. split; [exact I'|].
  apply (linkok_drop_app s _ id); auto. intros b Hb Eb. apply (ae_allocs b (Hempty b Hb Eb)). Qed.

(* ================================================================== an allocated real allocation changes size *)
(* the record of Core/Model2.v [m_update_existing], allocated branch *)
Definition upd_res_real_app (a : oapp) (x : oalloc) (newres : res) : oapp :=
  ap_set_lists (ap_set_ledgers a (ap_pending a) (Prune (Add (Some (ap_allocated a)) (Some (res_delta newres (oa_res x))))) (ap_phalloc a))
               (map_key (oa_key x) (fun y => oa_with_res y newres) (ap_requests a))
               (map_key (oa_key x) (fun y => oa_with_res y newres) (ap_allocs a)).

Lemma upd_res_real_ok a x newres : AppWF3 a -> AppBooks a -> AppBounded3 a -> In x (ap_allocs a) -> oa_ph x = false ->
  wf newres -> rb newres -> rnonneg newres -> positive newres ->
  AppBooks (upd_res_real_app a x newres) /\ AppWF3 (upd_res_real_app a x newres) /\
  ap_pending (upd_res_real_app a x newres) = ap_pending a /\ ap_phalloc (upd_res_real_app a x newres) = ap_phalloc a /\
  forall k, getz (ap_allocated (upd_res_real_app a x newres)) k = getz (ap_allocated a) k + (getz newres k - getz (oa_res x) k).
Proof. intros W B Bd Hx Hph Wn Bn Nn Pn. apply AppBooks_iff in B. destruct B as (B1 & B2 & B3).
  apply AppBounded3_sides in Bd. destruct Bd as [(Ba & Bp & Bl) BdP].
  destruct (w3_alloc a W x Hx) as [Wx Nx Px Ax Fx]. pose proof (Bl x Hx) as Bx.
  destruct (res_delta_ok newres (oa_res x) Wn Wx Bn Bx Nn Nx) as (Wd & Bdd & Gd).
  pose proof (w3_alloc_keys a W) as Hnd. pose proof (w3_allocated a W) as Wp.
  set (f := fun y => oa_with_res y newres).
  assert (R : WF3 (ap_id a) (map_key (oa_key x) f (ap_requests a)) (map_key (oa_key x) f (ap_allocs a))).
  { apply WF3_map_alloc; [|intros y E; exact E|].
    - apply WF3_map_req; [apply AppWF3_raw; assumption|intros y E; exact E|].
      intros y Hy E. split; [apply AllocOK3_with_res; try assumption; apply (w3_req a W y Hy)|].
      cbn [f oa_with_res oa_allocated]. intros Hy'. rewrite <- E. apply (w3_pending_fresh a W y Hy Hy').
    - intros y Hy E. cbn [f oa_with_res oa_ph oa_release]. split; [apply AllocOK3_with_res; try assumption; apply (w3_alloc a W y Hy)|].
      split; [apply (w3_real_nolink a W y Hy)|apply (w3_link a W y Hy)]. }
  split; [|split; [|split; [reflexivity|split; [reflexivity|]]]].
  - apply AppBooks_iff. unfold upd_res_real_app. apc. fold f. split; [|split].
    + apply (LBk_pmove _ _ (ap_allocs a)); try assumption.
      * intros y Hy. apply (a3_nn _ y (f3_alloc _ _ _ R y Hy)).
      * intros k. rewrite (asum_filter_map_key_one is_real _ _ _ x) by (try assumption; reflexivity).
        unfold is_real. cbn [f oa_with_res oa_ph oa_res]. rewrite Hph, Gd. cbn [negb]. lia.
    + apply (LBk_same _ _ (ap_allocs a)); [|exact B2]. intros k. rewrite (asum_filter_map_key_one oa_ph _ _ _ x) by (try assumption; reflexivity).
      cbn [f oa_with_res oa_ph]. rewrite Hph. lia.
    + apply (LBk_same _ _ (ap_requests a)); [|exact B3]. intros k. rewrite !asum_filter_as_sum. unfold map_key. rewrite map_map. f_equal.
      apply map_ext_in. intros y Hy. destruct (N.eqb_spec (oa_key y) (oa_key x)) as [E|E]; [|reflexivity].
      unfold is_pending. cbn [f oa_with_res oa_allocated oa_res]. destruct (oa_allocated y) eqn:Ey; [reflexivity|]. exfalso.
      apply (w3_pending_fresh a W y Hy Ey). rewrite E. apply in_map. exact Hx.
  - apply (AppWF3_intro _ (ap_id a) (map_key (oa_key x) f (ap_requests a)) (map_key (oa_key x) f (ap_allocs a))); try reflexivity; try apply W; [exact R|].
    unfold upd_res_real_app. apc. apply Prune_wf, Add_wf. exact Wp.
  - intros k. unfold upd_res_real_app. apc. rewrite PruneAdd_exact, Gd by assumption. reflexivity. Qed.
(* the state after UpdateAllocationResources + Node.UpdateAllocatedResource; the proof is the one of [upd_alloc_stepG]
   (Core/Model3ProofsO2b.v) with the allocated ledger in the place of the placeholder ledger *)
Definition m_upd_alloc_state (s : ostate) (a : oapp) (x : oalloc) (nr : res) (n : onode) : ostate :=
  let d := res_delta nr (oa_res x) in
  upd_node (q_inc (upd_app s (ap_id a) (fun _ => upd_res_real_app a x nr)) (ap_queue a) d) (on_id n)
           (fun _ => n_update_alloc n (oa_key x) nr d).

Section UpdRealG.
  Variables (s : ostate) (a : oapp) (x : oalloc) (nr : res) (n : onode).
  Hypothesis HI2 : InvG2 s.
  Hypothesis HB : BooksG s.
  Hypothesis HBd : Bounded3 s.
  Hypothesis Ha : In a (s_apps s).
  (* the allocation is listed by the application (record identity with the addressed request) ... *)
  Hypothesis Hxa : In x (ap_allocs a).
  Hypothesis Xph : oa_ph x = false.
  (* ... and carries no link (guard of m_update_existing) *)
  Hypothesis Xl : oa_release x = 0%N.
  Hypothesis Wn : wf nr.
  Hypothesis Bn : rb nr.
  Hypothesis Nn : rnonneg nr.
  Hypothesis Pn : positive nr.
  Hypothesis Hn : In n (s_nodes s).
  Hypothesis Enx : on_id n = oa_node x.

  Let HI : InvG s := ig2_inv s HI2.
  Let HL : LinkOK s := ig2_link s HI2.
  Let W := ig_app_wf s HI a Ha.
  Let B := bg_apps s HB a Ha.
  Let key := oa_key x.
  Let f := fun y : oalloc => oa_with_res y nr.
  Let img := fun z : oalloc => if (oa_key z =? key)%N then f z else z.
  Let d := res_delta nr (oa_res x).
  Let a' := upd_res_real_app a x nr.
  Let n' := n_update_alloc n key nr d.
  Let s' := m_upd_alloc_state s a x nr n.

  Lemma ur3_apps : s_apps s' = updk ap_id (s_apps s) (ap_id a) (fun _ => a'). Proof. reflexivity. Qed.
  Lemma ur3_nodes : s_nodes s' = updk on_id (s_nodes s) (on_id n) (fun _ => n'). Proof. reflexivity. Qed.
  Lemma ur3_nid : on_id n' = on_id n. Proof. reflexivity. Qed.
  Lemma ur3_nallocs : on_allocs n' = map_key key f (on_allocs n). Proof. reflexivity. Qed.
  Lemma ur3_allocs : ap_allocs a' = map_key key f (ap_allocs a). Proof. reflexivity. Qed.
  Lemma ur3_requests : ap_requests a' = map_key key f (ap_requests a). Proof. reflexivity. Qed.

  Lemma ur3_img_key z : oa_key (img z) = oa_key z. Proof. unfold img. destruct (_ =? _)%N; reflexivity. Qed.
  Lemma ur3_img_other z : oa_key z <> key -> img z = z.
  Proof. intros H. unfold img. destruct (N.eqb_spec (oa_key z) key); [contradiction|reflexivity]. Qed.
  Lemma ur3_img_x : img x = f x. Proof. unfold img, key. rewrite N.eqb_refl. reflexivity. Qed.
  Lemma ur3_img_fields z : oa_app (img z) = oa_app z /\ oa_node (img z) = oa_node z /\ oa_ph (img z) = oa_ph z /\
    oa_release (img z) = oa_release z /\ oa_allocated (img z) = oa_allocated z /\ infl (img z) = infl z.
  Proof. unfold img. destruct (_ =? _)%N; repeat split. Qed.
  Lemma ur3_in_img l z : In z l -> In (img z) (map_key key f l).
  Proof. intros H. apply in_map_key. exists z. auto. Qed.
  Lemma ur3_in_img_inv l y : In y (map_key key f l) -> exists z, In z l /\ y = img z.
  Proof. intros H. apply in_map_key in H. exact H. Qed.

  Lemma ur3_x_on_n : In x (on_allocs n).
  Proof. destruct (ig_onnode s HI a x Ha Hxa) as (m & Hm & Em & Hxm).
    assert (m = n) by (apply (g_same_node s n m HI Hn Hm); congruence). subst m. assumption. Qed.
  (* a record on a node with x's key is x on n *)
  Lemma ur3_key_x m y : In m (s_nodes s) -> In y (on_allocs m) -> oa_key y = key -> y = x /\ m = n.
  Proof. intros Hm Hy E. apply (g_record_one_node s m n y x HI Hm Hn Hy ur3_x_on_n E). Qed.
  (* a record of the application with x's key in the allocation list is x *)
  Lemma ur3_alloc_x z : In z (ap_allocs a) -> oa_key z = key -> z = x.
  Proof. intros Hz E. apply (nodup_key_inj oa_key (ap_allocs a)); auto. apply (w3_alloc_keys a W). Qed.
  (* records of other applications have other keys *)
  Lemma ur3_key_other b z : In b (s_apps s) -> ap_id b <> ap_id a -> In z (app_records b) -> oa_key z <> key.
  Proof. intros Hb Hne Hz E. apply Hne. f_equal. apply (g_key_owner s b a z x HI Hb Ha Hz); [apply in_records; auto|exact E]. Qed.
  (* where the records of the nodes of s' come from *)
  Lemma ur3_orig m' y' : In m' (s_nodes s') -> In y' (on_allocs m') ->
    exists m z, In m (s_nodes s) /\ In z (on_allocs m) /\ y' = img z /\ on_id m' = on_id m.
  Proof. intros Hm' Hy'. apply (g_in_nodes' s s' n n' HI Hn ur3_nodes) in Hm'. destruct Hm' as [->|[Hm Hne]].
    - rewrite ur3_nallocs in Hy'. apply ur3_in_img_inv in Hy'. destruct Hy' as (z & Hz & ->). exists n, z. auto.
    - exists m', y'. split; [assumption|]. split; [assumption|]. split; [|reflexivity]. symmetry. apply ur3_img_other.
      intros E. destruct (ur3_key_x m' y' Hm Hy' E) as [_ ->]. contradiction. Qed.
  (* ... and where the records of the nodes of s go *)
  Lemma ur3_kept m z : In m (s_nodes s) -> In z (on_allocs m) ->
    exists m', In m' (s_nodes s') /\ on_id m' = on_id m /\ In (img z) (on_allocs m').
  Proof. intros Hm Hz. destruct (N.eq_dec (on_id m) (on_id n)) as [E|E].
    - assert (m = n) by (apply (g_same_node s n m HI Hn Hm E)). subst m. exists n'.
      split; [apply (g_in_nodes' s s' n n' HI Hn ur3_nodes); auto|]. split; [reflexivity|]. rewrite ur3_nallocs. apply ur3_in_img. assumption.
    - exists m. split; [apply (g_in_nodes' s s' n n' HI Hn ur3_nodes); auto|]. split; [reflexivity|]. rewrite ur3_img_other; [assumption|].
      intros Ek. destruct (ur3_key_x m z Hm Hz Ek) as [_ ->]. contradiction. Qed.

  Lemma ur3_ownedby z : OwnedBy a z -> OwnedBy a' (img z).
  Proof. intros [Ho|(H1 & H2 & H3 & H4)].
    - left. rewrite ur3_allocs. apply ur3_in_img. assumption.
    - assert (Hne : oa_key z <> key). { intros E. apply H4. rewrite E. apply in_akeys. exact Hxa. }
      rewrite (ur3_img_other z Hne). right. split; [assumption|]. split; [|split; [assumption|]].
      + rewrite ur3_requests. rewrite <- (ur3_img_other z Hne). apply ur3_in_img. assumption.
      + rewrite ur3_allocs, akeys_map_key by (intros y E; exact E). assumption. Qed.

  Lemma ur3_delta : wf d /\ rb d /\ forall k, getz d k = getz nr k - getz (oa_res x) k.
  Proof. destruct (w3_alloc a W x Hxa) as [Wx Nx _ _ _]. pose proof (abd_alloc a (bd_apps s (b3_base s HBd) a Ha) x Hxa) as Bx.
    apply (res_delta_ok nr (oa_res x) Wn Wx Bn Bx Nn Nx). Qed.

  Lemma ur3_node_ok : NodeOK3 n'.
  Proof. destruct ur3_delta as (Wd & Bdd & Gd). pose proof (ig_nodes s HI n Hn) as [K1 K2 K3 K4]. constructor.
    - rewrite ur3_nallocs, akeys_map_key by (intros y E; exact E). assumption.
    - intros y Hy. rewrite ur3_nallocs in Hy. apply ur3_in_img_inv in Hy. destruct Hy as (z & Hz & ->).
      destruct (ur3_img_fields z) as (_ & -> & _). apply (K2 z Hz).
    - intros k. change (on_allocated n') with (Prune (addTo (on_allocated n) d)). rewrite Prune_getz by (apply addTo_wf; exact K4).
      rewrite addTo_getz by (try assumption; apply (bd_nodes s (b3_base s HBd) n Hn)).
      change (on_allocs n') with (set_res key nr (on_allocs n)). rewrite (asum_set_res key nr (on_allocs n) x k K1 ur3_x_on_n eq_refl), K3, Gd. reflexivity.
    - change (on_allocated n') with (Prune (addTo (on_allocated n) d)). apply Prune_wf, addTo_wf. exact K4. Qed.

  Lemma ur3_inv : InvG s' /\ BooksG s'.
  Proof. destruct ur3_delta as (Wd & Bdd & Gd).
    assert (Bd3 : AppBounded3 a) by (split; [apply (bd_apps s (b3_base s HBd) a Ha)|apply (b3_ph s HBd a Ha)]).
    destruct (upd_res_real_ok a x nr W B Bd3 Hxa Xph Wn Bn Nn Pn) as (B' & W' & E1 & E2 & D').
    apply (gang_step s s' a a' (F_inc d) (getz d) zero3 HI HB Ha ur3_apps); try reflexivity; auto.
    - exact (g_q_inc_queues s (upd_app s (ap_id a) (fun _ => a')) (ap_queue a) d eq_refl).
    - intros q Hq Hp. apply F_inc_Q; [apply (g_qok s q HI HB HBd Hq)|exact Wd|exact Bdd|].
      intros k. rewrite Gd. pose proof (g_alloc_le_allocated a x k W B Hxa Xph). pose proof (g_allocated_dominated s a HI HB Ha q k Hq Hp).
      pose proof (rnonneg_fnonneg _ Nn k). lia.
    - apply rec_keys_incl. unfold app_records. rewrite !(map_app oa_key). fold (akeys (ap_requests a')) (akeys (ap_allocs a')) (akeys (ap_requests a)) (akeys (ap_allocs a)).
      rewrite ur3_allocs, ur3_requests, !akeys_map_key by (intros y E; exact E). apply incl_refl.
    - intros k. fold a' in E2, D'. rewrite E2, D', Gd. lia.
    - intros k. fold a' in E1. rewrite E1. unfold zero3. lia.
    - apply (g_node_ids' s s' n n' HI ur3_nodes ur3_nid).
    - apply (g_nodes_ok' s s' n n' HI Hn ur3_nodes ur3_node_ok).
    - apply (owned_step s s' a a' HI Ha ur3_apps eq_refl). intros m' y' Hm' Hy'.
      destruct (ur3_orig m' y' Hm' Hy') as (m & z & Hm & Hz & -> & _). destruct (ur3_img_fields z) as (Eapp & _). rewrite Eapp.
      destruct (N.eq_dec (oa_app z) (ap_id a)) as [E|E].
      + right. split; [assumption|]. apply ur3_ownedby. apply (g_owner s m z a HI Hm Hz Ha). congruence.
      + left. split; [assumption|]. exists m. split; [assumption|]. rewrite ur3_img_other; [assumption|].
        intros Ek. destruct (ur3_key_x m z Hm Hz Ek) as [-> _]. apply E. apply (g_record_app s a x HI Ha). apply in_records. auto.
    - apply (onnode_step s s' a a' HI Ha ur3_apps).
      + intros z' Hz'. rewrite ur3_allocs in Hz'. apply ur3_in_img_inv in Hz'. destruct Hz' as (z & Hz & ->).
        destruct (ig_onnode s HI a z Ha Hz) as (m & Hm & Em & Hzm). destruct (ur3_kept m z Hm Hzm) as (m' & Hm' & Em' & Hzm').
        exists m'. split; [assumption|]. split; [|assumption]. destruct (ur3_img_fields z) as (_ & -> & _). congruence.
      + intros m y Hm Hy Hne. destruct (ur3_kept m y Hm Hy) as (m' & Hm' & Em' & Hym'). exists m'. split; [assumption|]. split; [assumption|].
        rewrite ur3_img_other in Hym'; [assumption|]. intros Ek. destruct (ur3_key_x m y Hm Hy Ek) as [-> _]. apply Hne.
        apply (g_record_app s a x HI Ha). apply in_records. auto.
    - apply (g_count_step s s' a a' HI Ha ur3_apps 0); [|change (s_nallocs s') with (s_nallocs s); lia].
      rewrite ur3_allocs. unfold map_key. rewrite map_length. lia.
    - intros k. rewrite (records_sum_upd s s' n n' HI Hn ur3_nodes ninfl k), ur3_nallocs.
      rewrite (asum_filter_map_key_one ninfl key f (on_allocs n) x k (k3_keys n (ig_nodes s HI n Hn)) ur3_x_on_n eq_refl).
      assert (Ex : ninfl x = true) by (unfold ninfl; rewrite (infl_nolink x Xl); reflexivity).
      assert (Efx : ninfl (f x) = true) by (unfold ninfl; rewrite (infl_nolink (f x) Xl); reflexivity).
      rewrite Ex, Efx, Gd. cbn [f oa_with_res oa_res]. lia. Qed.

  Lemma ur3_link : LinkOK s'.
  Proof. constructor.
    - intros m' y' Hm' Hy' Hi. destruct (ur3_orig m' y' Hm' Hy') as (m & z & Hm & Hz & -> & _).
      destruct (ur3_img_fields z) as (Eapp & Enode & _ & Erel & _ & Einfl). rewrite Einfl in Hi.
      destruct (lk_1 s HL m z Hm Hz Hi) as (b & ph & Hb & Eb & Hph & Pph & Ek & Er & Hnn). rewrite ur3_img_key, Eapp, Enode, Erel.
      destruct (N.eq_dec (ap_id b) (ap_id a)) as [E|E].
      + assert (b = a) by (apply (g_same_app s a b HI Ha Hb E)). subst b. exists a', (img ph).
        destruct (ur3_img_fields ph) as (_ & Enp & Epp & Erp & _). rewrite ur3_img_key, Enp, Epp, Erp.
        split; [apply (g_in_apps' s s' a a' HI Ha ur3_apps); auto|]. split; [exact Eb|]. split; [rewrite ur3_allocs; apply ur3_in_img; assumption|].
        repeat split; assumption.
      + exists b, ph. split; [apply (g_in_apps' s s' a a' HI Ha ur3_apps); auto|]. repeat split; assumption.
    - assert (Tr : forall b ph r, In b (s_apps s) -> In ph (ap_allocs b) -> oa_ph ph = true -> oa_release ph <> 0%N ->
                 In r (ap_requests b) -> oa_key r = oa_release ph -> oa_ph r = false -> oa_allocated r = true -> oa_key r <> key ->
                 oa_release r = oa_key ph /\ (forall k, getz (oa_res r) k <= getz (oa_res ph) k) /\
                 (oa_node r = oa_node ph -> forall m y, In m (s_nodes s') -> In y (on_allocs m) -> oa_key y <> oa_key r) /\
                 (oa_node r <> oa_node ph -> exists m, In m (s_nodes s') /\ on_id m = oa_node r /\ In r (on_allocs m))).
      { intros b ph r Hb Hph Pph Hl Hr Ek Pr Ar Hne. destruct (lk_2 s HL b ph r Hb Hph Pph Hl Hr Ek Pr Ar) as (C1 & C2 & C3 & C4).
        split; [exact C1|]. split; [exact C2|]. split.
        - intros E m' y' Hm' Hy'. destruct (ur3_orig m' y' Hm' Hy') as (m & z & Hm & Hz & -> & _). rewrite ur3_img_key. apply (C3 E m z Hm Hz).
        - intros E. destruct (C4 E) as (m & Hm & Em & Hrm). destruct (ur3_kept m r Hm Hrm) as (m' & Hm' & Em' & Hrm').
          rewrite (ur3_img_other r Hne) in Hrm'. exists m'. split; [assumption|]. split; [congruence|assumption]. }
      intros b ph' r' Hb Hph' Pph Hl Hr' Ek Pr Ar. apply (g_in_apps' s s' a a' HI Ha ur3_apps) in Hb. destruct Hb as [->|[Hb Hne]].
      + rewrite ur3_allocs in Hph'. apply ur3_in_img_inv in Hph'. destruct Hph' as (ph & Hph & ->).
        destruct (ur3_img_fields ph) as (_ & _ & Epp & Erp & _). rewrite Epp in Pph. rewrite Erp in Hl, Ek.
        assert (Hpk : oa_key ph <> key). { intros E. apply Hl. rewrite (ur3_alloc_x ph Hph E). exact Xl. }
        rewrite (ur3_img_other ph Hpk). rewrite ur3_requests in Hr'. apply ur3_in_img_inv in Hr'. destruct Hr' as (r & Hr & ->).
        destruct (ur3_img_fields r) as (_ & _ & Epr & _ & Ear & _). rewrite Epr in Pr. rewrite Ear in Ar. rewrite ur3_img_key in Ek.
        assert (Hrk : oa_key r <> key). { intros E. apply (w3_link a W ph Hph Pph Hl). rewrite <- Ek, E. apply in_akeys. exact Hxa. }
        rewrite (ur3_img_other r Hrk). apply (Tr a ph r Ha Hph Pph Hl Hr Ek Pr Ar Hrk).
      + apply (Tr b ph' r' Hb Hph' Pph Hl Hr' Ek Pr Ar). apply (ur3_key_other b r' Hb Hne). apply in_records. auto. Qed.

  Theorem upd_real_stepG : InvG2 (m_upd_alloc_state s a x nr n) /\ BooksG (m_upd_alloc_state s a x nr n).
  Proof. destruct ur3_inv as [I' B']. split; [|exact B']. constructor; [exact I'|exact ur3_link]. Qed.
End UpdRealG.

(* ================================================================== UpdateAllocation for a known real key: the dispatcher *)
(* [m_update_existing] in terms of the named intermediate states; the pending branch is literally [g_upd_mid] of O2b *)
Lemma m_update_existing_eq s a x r : m_update_existing s a x r =
  if oa_ph x || negb (oa_release x =? 0)%N || negb (no_res a) then None else
  let nr := oget (rq_res r) in
  if oa_allocated x then
    match find_node s (oa_node x) with
    | None => Some s
    | Some n => Some (if negb (res_changed nr x) then s else m_upd_alloc_state s a x nr n)
    end
  else
    let s1 := g_upd_mid s a x nr in
    if (rq_node r =? 0)%N then Some s1 else
    match find_app s1 (ap_id a), find_node s1 (rq_node r) with
    | Some a1, Some n =>
        match find_alloc (ap_requests a1) (oa_key x) with
        | None => None
        | Some ask =>
            match n_add n (oa_bound ask (rq_node r)) true with
            | None => None
            | Some n' =>
                Some (add_counts (upd_node (q_inc (q_dec_pending (upd_app s1 (ap_id a) (fun _ => sched_app a1 ask (rq_node r)))
                                                                 (ap_queue a) (oa_res ask)) (ap_queue a) (oa_res ask))
                                           (on_id n) (fun _ => n')) 1 0)
            end
        end
    | _, _ => None
    end.
Proof. unfold m_update_existing. destruct (oa_ph x || negb (oa_release x =? 0)%N || negb (no_res a)); [reflexivity|]. cbv zeta.
  destruct (oa_allocated x); cbn [andb orb].
  - destruct (find_node s (oa_node x)) as [n|] eqn:En; [|reflexivity]. unfold res_changed, res_delta.
    destruct (negb (negb (IsZero _) && negb (IsZero _))); [reflexivity|].
    change (find_node (q_inc (upd_app s (ap_id a) (fun _ => _)) (ap_queue a) _) (oa_node x)) with (find_node s (oa_node x)).
    rewrite En. reflexivity.
  - reflexivity. Qed.

Lemma upd_mid_ph s a x nr a1 ask : InvG s -> In a (s_apps s) -> In x (ap_requests a) ->
  find_app (g_upd_mid s a x nr) (ap_id a) = Some a1 -> find_alloc (ap_requests a1) (oa_key x) = Some ask -> oa_ph ask = oa_ph x.
Proof. intros HI Ha Hx E1 E2. pose proof (ig_app_wf s HI a Ha) as W. unfold g_upd_mid in E1. destruct (negb _).
  - rewrite (g_find_app_in s a HI Ha) in E1. inversion E1; subst a1. rewrite (find_alloc_in _ x (w3_req_keys a W) Hx) in E2. inversion E2; subst ask. reflexivity.
  - rewrite (g_find_app' s (g_upd_pend_state s a x nr) a (upd_res_ask_app a x nr) HI Ha eq_refl eq_refl) in E1. inversion E1; subst a1.
    change (ap_requests (upd_res_ask_app a x nr)) with (map_key (oa_key x) (fun y => oa_with_res y nr) (ap_requests a)) in E2.
    rewrite find_alloc_map_key in E2 by (intros y E; exact E). rewrite (find_alloc_in _ x (w3_req_keys a W) Hx) in E2. cbn [option_map] in E2.
    rewrite N.eqb_refl in E2. inversion E2; subst ask. reflexivity. Qed.

(* Side hypotheses as for [g_update_existing_step] (O2b); the link of x is 0 by the guard of [m_update_existing]. *)
Theorem m_update_existing_stepG s s' a x r : InvG2 s -> BooksG s -> Bounded3 s ->
  wf (oget (rq_res r)) -> rb (oget (rq_res r)) -> StrictlyGreaterThanZero (rq_res r) = true ->
  In a (s_apps s) -> In x (ap_requests a) ->
  (oa_allocated x = true -> res_changed (oget (rq_res r)) x = true -> In x (ap_allocs a)) ->
  (oa_allocated x = false -> rq_node r <> 0%N -> unlinked (ap_allocs a) (oa_key x) /\ Bounded3 (g_upd_mid s a x (oget (rq_res r)))) ->
  m_update_existing s a x r = Some s' -> InvG2 s' /\ BooksG s'.
Proof. intros HI2 HB HBd Wn Bn Hs Ha Hx Hal Hpl H. pose proof (ig2_inv s HI2) as HI.
  assert (Same : InvG2 s /\ BooksG s) by (split; assumption).
  assert (Nn : rnonneg (oget (rq_res r))) by (destruct (rq_res r) as [rr|]; [apply sgtz_rnonneg; exact Hs|discriminate]).
  assert (Pn : positive (oget (rq_res r))) by (destruct (rq_res r) as [rr|]; [apply sgtz_positive; exact Hs|discriminate]).
  rewrite m_update_existing_eq in H. destruct (oa_ph x) eqn:Xph; [discriminate|]. cbn [orb] in H.
  destruct (N.eqb_spec (oa_release x) 0) as [Xl|_]; [|discriminate]. cbn [negb orb] in H.
  destruct (negb (no_res a)); [discriminate|]. cbv zeta in H. set (nr := oget (rq_res r)) in *.
  destruct (oa_allocated x) eqn:Xal.
  - (* allocated: in place *) destruct (find_node s (oa_node x)) as [n|] eqn:En; [|inversion H; subst; exact Same].
    destruct (res_changed nr x) eqn:Ech; cbn [negb] in H; [|inversion H; subst; exact Same].
    inversion H; subst s'; clear H. pose proof (Hal eq_refl eq_refl) as Hxa.
    apply find_node_some in En. destruct En as [Hn Enid].
    exact (upd_real_stepG s a x nr n HI2 HB HBd Ha Hxa Xph Xl Wn Bn Nn Pn Hn Enid).
  - pose proof (upd_mid_step s a x nr HI2 HB HBd Ha Hx Xal Wn Bn Nn Pn) as Hm.
    destruct (N.eqb_spec (rq_node r) 0) as [E0|E0]; [inversion H; subst; exact Hm|].
    destruct (Hpl eq_refl E0) as (Xu & HBd1). fold nr in HBd1. destruct Hm as [HI21 HB1]. pose proof (ig2_inv _ HI21) as HI1.
    destruct (find_app (g_upd_mid s a x nr) (ap_id a)) as [a1|] eqn:Ea1; [|discriminate].
    destruct (find_node (g_upd_mid s a x nr) (rq_node r)) as [n|] eqn:En; [|discriminate].
    destruct (find_alloc (ap_requests a1) (oa_key x)) as [ask|] eqn:Eask; [|discriminate].
    destruct (upd_mid_app3 s a x nr a1 ask HI Ha Hx Ea1 Eask) as (Eid1 & Eq1 & Eal1 & Eall & Erel & Ekey).
    pose proof (upd_mid_ph s a x nr a1 ask HI Ha Hx Ea1 Eask) as Eph.
    destruct (find_app_some _ _ _ Ea1) as [Ha1 _]. destruct (find_alloc_some _ _ _ Eask) as [Hask _].
    destruct (find_node_some _ _ _ En) as [Hn Enid].
    destruct (n_add n (oa_bound ask (rq_node r)) true) as [n'|] eqn:Eadd; [|discriminate].
    apply n_add_native in Eadd; [|apply (a3_native _ _ (w3_req a1 (ig_app_wf _ HI1 a1 Ha1) ask Hask))]. subst n'.
    inversion H; subst s'; clear H. rewrite <- Eid1, <- Eq1, <- Enid.
    apply (sched_core_step (g_upd_mid s a x nr) _ a1 (sched_app a1 ask (on_id n)) n ask (fun q => F_inc (oa_res ask) (F_dec_pending (oa_res ask) q))
             HI21 HB1 HBd1 Ha1 Hn Hask); try reflexivity.
    + congruence.
    + congruence.
    + rewrite Eal1, Ekey. exact Xu.
    + apply sched_app_same. congruence.
    + cbn [add_counts upd_node s_queues]. apply q_inc_after; [|reflexivity|reflexivity]. apply g_q_dec_pending_queues. reflexivity.
    + intros q Hq Hp. apply (sched_qf_id _ a1 ask q HI1 HB1 HBd1 Ha1 Hask); [congruence|exact Hq|exact Hp]. Qed.

(* the environment assumptions of a request for a known REAL key (the clauses of [UpdOK3], O2b, for a real ask; the
   first one is [UpdOK] (i) of Core/Model2ProofsB3.v: necessary, known finding stale-allocated-ask-update) *)
Definition UpdOK3r (s : ostate) (r : oreq) : Prop :=
  forall a x, find_app s (rq_app r) = Some a -> find_alloc (ap_requests a) (rq_key r) = Some x -> oa_ph x = false ->
    (oa_allocated x = true -> res_changed (oget (rq_res r)) x = true -> In x (ap_allocs a)) /\
    (oa_allocated x = false -> rq_node r <> 0%N -> unlinked (ap_allocs a) (oa_key x) /\ Bounded3 (g_upd_mid s a x (oget (rq_res r)))).

Theorem m_alloc2_stepG s s' r : InvG2 s -> BooksG s -> Bounded3 s -> ReqOK3 s r -> UpdOK3r s r -> m_alloc2 s r = Some s' -> InvG2 s' /\ BooksG s'.
Proof. intros HI2 HB HBd RO UO H. unfold m_alloc2 in H. destruct (negb (rq_partition_ok r) || rq_foreign r); [discriminate|].
  destruct (find_app s (rq_app r)) as [a|] eqn:Ea; [|discriminate]. destruct (negb (rq_node r =? 0)%N && _); [discriminate|].
  destruct (IsZero (rq_res r) || negb (StrictlyGreaterThanZero (rq_res r))) eqn:Ez; [discriminate|].
  apply orb_false_iff in Ez. destruct Ez as [_ Ez]. apply negb_false_iff in Ez.
  destruct (find_alloc (ap_requests a) (rq_key r)) as [x|] eqn:Ex; [|discriminate].
  destruct (find_app_some _ _ _ Ea) as [Ha _]. destruct (find_alloc_some _ _ _ Ex) as [Hx _]. destruct RO as (Wn & Bn & _).
  destruct (oa_ph x) eqn:Xph; [unfold m_update_existing in H; rewrite Xph in H; discriminate|].
  destruct (UO a x Ea Ex Xph) as [U1 U2].
  apply (m_update_existing_stepG s s' a x r HI2 HB HBd Wn Bn Ez Ha Hx U1 U2 H). Qed.
