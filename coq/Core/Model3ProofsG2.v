(* C03 over the gang fragment (Core/Model3.v), generic layer, part 2.
   - [gang_step]: the master lemma (one application + the queues on its ancestor path + an arbitrary node side
     described on the post-state), analogue of [native_step] (Core/BooksStep.v) for [InvG] / [BooksG];
     variants [gang_app_step] (no ledger moves, queues untouched) and [gang_frame_step] (applications untouched,
     queues mapped by a function that keeps identifiers, parents, leaf flags and both ledgers);
   - helpers for the node side: [owned_step] / [onnode_step] and their corollaries when the node list is unchanged,
     one node replaced ([g_in_nodes'], [records_sum_upd], [ninfl_put], [ninfl_del], [ninfl_replace]),
     the allocation counter ([g_count_step]). *)
From Coq Require Import List ZArith NArith Bool Lia ZifyBool.
From YK Require Import Base.Int64 Base.Res Base.ResSpec Base.ResLemmas Base.ResLaws Base.ResLaws2 Base.ResLawsPred
  Core.Obs Core.Model Core.Model2 Core.Model3 Core.Ledger
  Core.BooksLemmas Core.BooksDefs Core.BooksTree Core.BooksQueue Core.BooksApp Core.BooksState Core.BooksDrain Core.BooksOps
  Core.BooksOps2 Core.Model2ProofsB2 Core.Model3ProofsD Core.Model3ProofsG1.
Import ListNotations.
Open Scope Z_scope.
Set Default Timeout 30.

(* keys of the new application record: inherited from the old one, or fresh in the whole partition *)
Definition RecKeysOK (s : ostate) (a a' : oapp) : Prop :=
  forall r', In r' (app_records a') ->
    (exists r, In r (app_records a) /\ oa_key r = oa_key r') \/ KeyFresh3 s (oa_key r').
Lemma rec_keys_incl s a a' : incl (akeys (app_records a')) (akeys (app_records a)) -> RecKeysOK s a a'.
Proof. intros H r' Hr'. left. assert (Hk : In (oa_key r') (akeys (app_records a))) by (apply H; apply in_map; assumption).
  unfold akeys in Hk. apply in_map_iff in Hk. destruct Hk as (r & E & Hr). eauto. Qed.

(* ================================================================== 5. one application and its path *)
Section GangStep.
  Variables (s s' : ostate) (a a' : oapp) (F : oqueue -> oqueue) (dA dP : tid -> Z).
  Hypothesis HI : InvG s.
  Hypothesis HB : BooksG s.
  Hypothesis Ha : In a (s_apps s).
  Hypothesis Eapps : s_apps s' = updk ap_id (s_apps s) (ap_id a) (fun _ => a').
  Hypothesis Eq : s_queues s' = map (fun q => if memN (q_id q) (path_ids s (ap_queue a)) then F q else q) (s_queues s).
  Hypothesis Ef : s_foreign s' = s_foreign s.
  Hypothesis Fid : forall q, q_id (F q) = q_id q.
  Hypothesis Fpar : forall q, q_parent (F q) = q_parent q.
  Hypothesis Fleaf : forall q, q_leaf (F q) = q_leaf q.
  (* = Fwf /\ FA /\ FP /\ Fnn of [native_step] *)
  Hypothesis FQ : forall q, In q (s_queues s) -> In (q_id q) (path_ids s (ap_queue a)) -> QFacts q (F q) dA dP.
  Hypothesis Eid : ap_id a' = ap_id a.
  Hypothesis Equeue : ap_queue a' = ap_queue a.
  Hypothesis Ba' : AppBooks a'.
  Hypothesis Wa' : AppWF3 a'.
  Hypothesis Hkeys : RecKeysOK s a a'.
  Hypothesis HdA : forall k, getz (ap_allocated a') k + getz (ap_phalloc a') k =
                             getz (ap_allocated a) k + getz (ap_phalloc a) k + dA k.
  Hypothesis HdP : forall k, getz (ap_pending a') k = getz (ap_pending a) k + dP k.
  (* node side, on the post-state *)
  Hypothesis Hnid : NoDup (map on_id (s_nodes s')).
  Hypothesis Hnodes : forall n, In n (s_nodes s') -> NodeOK3 n.
  Hypothesis HO' : Owned s'.
  Hypothesis HP' : OnNode s'.
  Hypothesis Hcount : s_nallocs s' = Z.of_nat (length (all_allocs s')).
  Hypothesis Hsum : forall k, asum (filter ninfl (node_records s')) k = asum (filter ninfl (node_records s)) k + dA k.

  Let g := fun q => if memN (q_id q) (path_ids s (ap_queue a)) then F q else q.
  Lemma gs_id q : q_id (g q) = q_id q. Proof. unfold g. destruct (memN _ _); auto. Qed.
  Lemma gs_par q : q_parent (g q) = q_parent q. Proof. unfold g. destruct (memN _ _); auto. Qed.
  Lemma gs_leaf q : q_leaf (g q) = q_leaf q. Proof. unfold g. destruct (memN _ _); auto. Qed.
  Lemma gs_in_apps b' : In b' (s_apps s') <-> b' = a' \/ (In b' (s_apps s) /\ ap_id b' <> ap_id a).
  Proof. rewrite Eapps. apply in_updk_const; [apply (ig_app_ids s HI)|assumption]. Qed.
  Lemma gs_app_ids : map ap_id (s_apps s') = map ap_id (s_apps s).
  Proof. rewrite Eapps. apply updk_keys. intros b Hb. congruence. Qed.

  Lemma gang_inv : InvG s'.
  Proof. constructor.
    - rewrite gs_app_ids. apply (ig_app_ids s HI).
    - assumption.
    - apply (tree_map s s' g Eq gs_id gs_par gs_leaf). apply (ig_tree s HI).
    - intros b' Hb'. apply gs_in_apps in Hb'.
      assert (Hb : exists b, In b (s_apps s) /\ ap_queue b' = ap_queue b).
      { destruct Hb' as [->|[Hb _]]; [exists a; auto|exists b'; auto]. }
      destruct Hb as (b & Hb & ->). destruct (ig_app_leaf s HI b Hb) as (q & E & L). exists (g q).
      rewrite (find_queue_map' s s' g Eq gs_id), E, gs_leaf. auto.
    - intros b' Hb'. apply gs_in_apps in Hb'. destruct Hb' as [->|[Hb _]]; [assumption|apply (ig_app_wf s HI b' Hb)].
    - intros q' Hq'. apply (in_queues_map s s' g Eq) in Hq'. destruct Hq' as (q & Hq & ->). unfold g.
      destruct (memN (q_id q) (path_ids s (ap_queue a))) eqn:Em; [|apply (ig_q_wf s HI q Hq)].
      apply memN_in in Em. apply (FQ q Hq Em).
    - intros b1 b2 x1 x2 H1 H2 Hx1 Hx2 Ek. apply gs_in_apps in H1, H2.
      destruct H1 as [->|[H1 N1]], H2 as [->|[H2 N2]].
      + reflexivity.
      + rewrite Eid. destruct (Hkeys x1 Hx1) as [(r & Hr & Er)|[Fr _]].
        * apply (ig_keys s HI a b2 r x2); auto. congruence.
        * exfalso. apply (Fr b2 x2 H2 Hx2). congruence.
      + rewrite Eid. destruct (Hkeys x2 Hx2) as [(r & Hr & Er)|[Fr _]].
        * apply (ig_keys s HI b1 a x1 r); auto. congruence.
        * exfalso. apply (Fr b1 x1 H1 Hx1). congruence.
      + apply (ig_keys s HI b1 b2 x1 x2); auto.
    - intros f b' x Hf Hb' Hx. rewrite Ef in Hf. apply gs_in_apps in Hb'. destruct Hb' as [->|[Hb _]].
      + destruct (Hkeys x Hx) as [(r & Hr & Er)|[_ Fr]].
        * rewrite <- Er. apply (ig_foreign s HI f a r); auto.
        * auto.
      + apply (ig_foreign s HI f b' x); auto.
    - assumption.
    - assumption.
    - assumption.
    - assumption. Qed.

  Lemma gang_books : BooksG s'.
  Proof. constructor.
    - intros b' Hb'. apply gs_in_apps in Hb'. destruct Hb' as [->|[Hb _]]; [assumption|apply (bg_apps s HB b' Hb)].
    - apply (queue_books_stepG s s' a a' F dA dP HI HB Ha Eapps Eq Fid Fpar Fleaf Equeue HdA HdP).
      + intros q Hq Hin. apply (FQ q Hq Hin).
      + intros q Hq Hin. apply (FQ q Hq Hin).
      + intros q Hq Hin. apply (FQ q Hq Hin).
    - intros r' Er' k. rewrite (root_queue_map s s' g Eq gs_par) in Er'. destruct (root_queue s) as [r|] eqn:Er; [|discriminate].
      cbn [option_map] in Er'. inversion Er'; subst r'. clear Er'.
      destruct (ig_app_leaf s HI a Ha) as (lq & Elq & _).
      pose proof (root_on_path s (ig_tree s HI) _ lq r Elq Er) as Hin.
      destruct (root_queue_some s r Er) as [Hr _]. unfold g. rewrite (proj2 (memN_in _ _) Hin).
      destruct (FQ r Hr Hin) as (_ & FA & _). rewrite FA, (bg_root s HB r Er k), Hsum. reflexivity. Qed.

  Theorem gang_step : InvG s' /\ BooksG s'.
  Proof. split; [apply gang_inv|apply gang_books]. Qed.
End GangStep.

(* the four fact groups given separately, exactly as [native_step] takes them *)
Theorem gang_step4 s s' a a' F dA dP : InvG s -> BooksG s -> In a (s_apps s) ->
  s_apps s' = updk ap_id (s_apps s) (ap_id a) (fun _ => a') ->
  s_queues s' = map (fun q => if memN (q_id q) (path_ids s (ap_queue a)) then F q else q) (s_queues s) ->
  s_foreign s' = s_foreign s ->
  (forall q, q_id (F q) = q_id q) -> (forall q, q_parent (F q) = q_parent q) -> (forall q, q_leaf (F q) = q_leaf q) ->
  (forall q, In q (s_queues s) -> In (q_id q) (path_ids s (ap_queue a)) -> wf (q_alloc (F q)) /\ wf (q_pending (F q))) ->
  (forall q, In q (s_queues s) -> In (q_id q) (path_ids s (ap_queue a)) -> forall k, getz (q_alloc (F q)) k = getz (q_alloc q) k + dA k) ->
  (forall q, In q (s_queues s) -> In (q_id q) (path_ids s (ap_queue a)) -> forall k, getz (q_pending (F q)) k = getz (q_pending q) k + dP k) ->
  (forall q, In q (s_queues s) -> In (q_id q) (path_ids s (ap_queue a)) -> rnonneg (q_alloc (F q)) /\ rnonneg (q_pending (F q))) ->
  ap_id a' = ap_id a -> ap_queue a' = ap_queue a -> AppBooks a' -> AppWF3 a' -> RecKeysOK s a a' ->
  (forall k, getz (ap_allocated a') k + getz (ap_phalloc a') k = getz (ap_allocated a) k + getz (ap_phalloc a) k + dA k) ->
  (forall k, getz (ap_pending a') k = getz (ap_pending a) k + dP k) ->
  NoDup (map on_id (s_nodes s')) -> (forall n, In n (s_nodes s') -> NodeOK3 n) -> Owned s' -> OnNode s' ->
  s_nallocs s' = Z.of_nat (length (all_allocs s')) ->
  (forall k, asum (filter ninfl (node_records s')) k = asum (filter ninfl (node_records s)) k + dA k) ->
  InvG s' /\ BooksG s'.
Proof. intros HI HB Ha Eapps Eq Ef Fid Fpar Fleaf Fwf FA FP Fnn. apply (gang_step s s' a a' F dA dP HI HB Ha Eapps Eq Ef Fid Fpar Fleaf).
  intros q Hq Hin. split; [apply (Fwf q Hq Hin)|]. split; [apply (FA q Hq Hin)|]. split; [apply (FP q Hq Hin)|apply (Fnn q Hq Hin)]. Qed.

(* ------------------------------------------------------------------ variant: no ledger of the application moves,
   the queue list is untouched (flags, links, state, timers, placeholder data; records exchanged at equal sums) *)
Theorem gang_app_step s s' a a' : InvG s -> BooksG s -> In a (s_apps s) ->
  s_apps s' = updk ap_id (s_apps s) (ap_id a) (fun _ => a') -> s_queues s' = s_queues s -> s_foreign s' = s_foreign s ->
  ap_id a' = ap_id a -> ap_queue a' = ap_queue a -> AppBooks a' -> AppWF3 a' -> RecKeysOK s a a' ->
  (forall k, getz (ap_allocated a') k + getz (ap_phalloc a') k = getz (ap_allocated a) k + getz (ap_phalloc a) k) ->
  (forall k, getz (ap_pending a') k = getz (ap_pending a) k) ->
  NoDup (map on_id (s_nodes s')) -> (forall n, In n (s_nodes s') -> NodeOK3 n) -> Owned s' -> OnNode s' ->
  s_nallocs s' = Z.of_nat (length (all_allocs s')) ->
  (forall k, asum (filter ninfl (node_records s')) k = asum (filter ninfl (node_records s)) k) ->
  InvG s' /\ BooksG s'.
Proof. intros HI HB Ha Eapps Eq Ef Eid Equeue Ba' Wa' Hkeys HdA HdP Hnid Hnodes HO' HP' Hcount Hsum.
  apply (gang_step s s' a a' (fun q => q) zero3 zero3 HI HB Ha Eapps); auto.
  - rewrite Eq. symmetry. apply (path_map_id s (ap_queue a)).
  - intros q Hq _. destruct (ig_q_wf s HI q Hq). pose proof (bg_queues s HB q Hq) as QB. unfold QFacts, zero3.
    split; [auto|]. split; [intros; lia|]. split; [intros; lia|]. split; [apply (qb_nn_alloc s q QB)|apply (qb_nn_pend s q QB)].
  - intros k. rewrite HdA. unfold zero3. lia.
  - intros k. rewrite HdP. unfold zero3. lia.
  - intros k. rewrite Hsum. unfold zero3. lia. Qed.

(* ------------------------------------------------------------------ variant: the applications are untouched, the queues change
   by a function that keeps identifiers, parents, leaf flags and both ledgers (partition total, node registration ...) *)
Section GangFrame.
  Variables (s s' : ostate) (g : oqueue -> oqueue).
  Hypothesis HI : InvG s.
  Hypothesis HB : BooksG s.
  Hypothesis Ea : s_apps s' = s_apps s.
  Hypothesis Eq : s_queues s' = map g (s_queues s).
  Hypothesis G1 : forall q, q_id (g q) = q_id q.
  Hypothesis G2 : forall q, q_parent (g q) = q_parent q.
  Hypothesis G3 : forall q, q_leaf (g q) = q_leaf q.
  Hypothesis G4 : forall q, q_alloc (g q) = q_alloc q.
  Hypothesis G5 : forall q, q_pending (g q) = q_pending q.
  Hypothesis Hf : forall f a x, In f (s_foreign s') -> In a (s_apps s) -> In x (app_records a) -> oa_key f <> oa_key x.
  Hypothesis Hnid : NoDup (map on_id (s_nodes s')).
  Hypothesis Hnodes : forall n, In n (s_nodes s') -> NodeOK3 n.
  Hypothesis HO' : Owned s'.
  Hypothesis HP' : OnNode s'.
  Hypothesis Hcount : s_nallocs s' = Z.of_nat (length (all_allocs s')).
  Hypothesis Hsum : forall k, asum (filter ninfl (node_records s')) k = asum (filter ninfl (node_records s)) k.

  Theorem gang_frame_step : InvG s' /\ BooksG s'.
  Proof. destruct HI as [I1 I2 I3 I4 I5 I6 I7 I8 I9 I10 I11 I12]. split.
    - constructor; rewrite ?Ea; auto.
      + apply (tree_map s s' g Eq G1 G2 G3 I3).
      + intros b Hb. destruct (I4 b Hb) as (q & E & L). exists (g q). rewrite (find_queue_map' s s' g Eq G1), E, G3. auto.
      + intros q' Hq'. apply (in_queues_map s s' g Eq) in Hq'. destruct Hq' as (q & Hq & ->). rewrite G4, G5. auto.
    - destruct HB as [B1 B2 B3]. constructor.
      + rewrite Ea. assumption.
      + apply (queue_books_frame s s' g Ea Eq G1 G2 G3 G4 G5 B2).
      + intros r' Er' k. rewrite (root_queue_map s s' g Eq G2) in Er'. destruct (root_queue s) as [r|] eqn:Er; [|discriminate].
        cbn [option_map] in Er'. inversion Er'; subst r'. rewrite G4, Hsum. apply (B3 r eq_refl k). Qed.
End GangFrame.

(* ================================================================== 6. the node side *)
Lemma node_records_same s s' : s_nodes s' = s_nodes s -> node_records s' = node_records s.
Proof. unfold node_records. intros ->. reflexivity. Qed.

(* ------------------------------------------------------------------ (a) one application replaced *)
Section AppUpd.
  Variables (s s' : ostate) (a a' : oapp).
  Hypothesis HI : InvG s.
  Hypothesis Ha : In a (s_apps s).
  Hypothesis Eapps : s_apps s' = updk ap_id (s_apps s) (ap_id a) (fun _ => a').
  Hypothesis Eid : ap_id a' = ap_id a.

  Lemma g_in_apps' b' : In b' (s_apps s') <-> b' = a' \/ (In b' (s_apps s) /\ ap_id b' <> ap_id a).
  Proof. rewrite Eapps. apply in_updk_const; [apply (ig_app_ids s HI)|assumption]. Qed.
  Lemma g_app_ids' : NoDup (map ap_id (s_apps s')).
  Proof. rewrite Eapps, updk_keys; [apply (ig_app_ids s HI)|]. intros b Hb. congruence. Qed.
  Lemma g_find_app' : find_app s' (ap_id a) = Some a'.
  Proof. rewrite <- Eid. apply (findk_in ap_id); [apply g_app_ids'|]. apply g_in_apps'. auto. Qed.
  Lemma g_find_app_other' id : id <> ap_id a -> find_app s' id = find_app s id.
  Proof. intros Hne. unfold find_app. rewrite Eapps. fold (findk ap_id (updk ap_id (s_apps s) (ap_id a) (fun _ => a')) id).
    rewrite (findk_updk ap_id) by (intros; congruence). fold (findk ap_id (s_apps s) id).
    destruct (findk ap_id (s_apps s) id) as [b|] eqn:E; [|reflexivity]. cbn [option_map].
    apply (findk_some ap_id) in E. destruct E as [_ E]. destruct (N.eqb_spec (ap_id b) (ap_id a)); [congruence|reflexivity]. Qed.

  (* every record a node of s' lists is an old record of another application, or is held by a' *)
  Lemma owned_step :
    (forall n' y, In n' (s_nodes s') -> In y (on_allocs n') ->
       (oa_app y <> ap_id a /\ exists n, In n (s_nodes s) /\ In y (on_allocs n)) \/ (oa_app y = ap_id a /\ OwnedBy a' y)) ->
    Owned s'.
  Proof. intros H n' y Hn' Hy. destruct (H n' y Hn' Hy) as [[Hne (n & Hn & Hyn)]|[E Ho]].
    - destruct (ig_owned s HI n y Hn Hyn) as (b & Hb & Eb & Hob). exists b. split; [|auto]. apply g_in_apps'. right. split; [assumption|congruence].
    - exists a'. split; [apply g_in_apps'; auto|]. split; [congruence|exact Ho]. Qed.
  (* every allocation of a' is on its node, and the records of the other applications stay on nodes with the same id *)
  Lemma onnode_step :
    (forall x, In x (ap_allocs a') -> exists n', In n' (s_nodes s') /\ on_id n' = oa_node x /\ In x (on_allocs n')) ->
    (forall n y, In n (s_nodes s) -> In y (on_allocs n) -> oa_app y <> ap_id a ->
       exists n', In n' (s_nodes s') /\ on_id n' = on_id n /\ In y (on_allocs n')) ->
    OnNode s'.
  Proof. intros H1 H2 b' x Hb' Hx. apply g_in_apps' in Hb'. destruct Hb' as [->|[Hb Hne]]; [apply (H1 x Hx)|].
    destruct (ig_onnode s HI b' x Hb Hx) as (n & Hn & En & Hxn).
    assert (Ex : oa_app x = ap_id b') by (apply (g_record_app s b' x HI Hb); apply in_records; auto).
    destruct (H2 n x Hn Hxn) as (n' & Hn' & En' & Hxn'); [congruence|]. exists n'. split; [assumption|]. split; [congruence|assumption]. Qed.

  (* the node list is untouched *)
  Lemma owned_nodes_same : s_nodes s' = s_nodes s ->
    (forall n y, In n (s_nodes s) -> In y (on_allocs n) -> OwnedBy a y -> OwnedBy a' y) -> Owned s'.
  Proof. intros En H. apply owned_step. intros n' y Hn' Hy. rewrite En in Hn'.
    destruct (N.eq_dec (oa_app y) (ap_id a)) as [E|E]; [right|left; split; [assumption|eauto]].
    split; [assumption|]. apply (H n' y Hn' Hy). apply (g_owner s n' y a HI Hn' Hy Ha). congruence. Qed.
  Lemma onnode_nodes_same : s_nodes s' = s_nodes s -> incl (ap_allocs a') (ap_allocs a) -> OnNode s'.
  Proof. intros En Hi. apply onnode_step.
    - intros x Hx. rewrite En. apply (ig_onnode s HI a x Ha). apply Hi. assumption.
    - intros n y Hn Hy _. exists n. rewrite En. auto. Qed.

  (* the allocation counter *)
  Lemma g_count_step dc : Z.of_nat (length (ap_allocs a')) = Z.of_nat (length (ap_allocs a)) + dc ->
    s_nallocs s' = s_nallocs s + dc -> s_nallocs s' = Z.of_nat (length (all_allocs s')).
  Proof using HI Ha Eapps. clear Eid. intros Hlen Hc. unfold all_allocs. rewrite Eapps.
    pose proof (length_flat_map_updk ap_id ap_allocs (s_apps s) a a' (ig_app_ids s HI) Ha) as L.
    rewrite Hc, (ig_count s HI). unfold all_allocs. lia. Qed.
End AppUpd.

(* how [OwnedBy] moves with the lists of the application *)
Lemma ownedby_same_lists a a' y : ap_requests a' = ap_requests a -> ap_allocs a' = ap_allocs a -> OwnedBy a y -> OwnedBy a' y.
Proof. unfold OwnedBy. intros -> ->. auto. Qed.
Lemma ownedby_reqs a a' y : ap_allocs a' = ap_allocs a ->
  (In y (ap_requests a) -> infl y = true -> oa_allocated y = true -> In y (ap_requests a')) -> OwnedBy a y -> OwnedBy a' y.
Proof. unfold OwnedBy. intros -> H [Ho|(H1 & H2 & H3 & H4)]; [left; assumption|right; auto]. Qed.
Lemma ownedby_put_req a a' x y : ap_allocs a' = ap_allocs a -> ap_requests a' = put_alloc x (ap_requests a) ->
  ~ In (oa_key x) (akeys (ap_requests a)) -> OwnedBy a y -> OwnedBy a' y.
Proof. intros Eal Er Hfr. apply ownedby_reqs; [assumption|]. intros Hy _ _. rewrite Er. apply in_put_alloc. right. split; [assumption|].
  intros C. apply Hfr. rewrite <- C. apply in_map. assumption. Qed.
Lemma ownedby_del_req a a' key y : ap_allocs a' = ap_allocs a -> ap_requests a' = del_alloc key (ap_requests a) ->
  (forall r, In r (ap_requests a) -> oa_key r = key -> infl r = true -> oa_allocated r = true -> False) -> OwnedBy a y -> OwnedBy a' y.
Proof. intros Eal Er Hno. apply ownedby_reqs; [assumption|]. intros Hy Hi Hal. rewrite Er. apply in_del_alloc. split; [assumption|].
  intros C. apply (Hno y Hy C Hi Hal). Qed.
(* an allocation leaves the allocation list *)
Lemma ownedby_del_alloc a a' key y : ap_requests a' = ap_requests a -> ap_allocs a' = del_alloc key (ap_allocs a) ->
  oa_key y <> key -> OwnedBy a y -> OwnedBy a' y.
Proof. unfold OwnedBy. intros -> -> Hne [Ho|(H1 & H2 & H3 & H4)].
  - left. apply in_del_alloc. auto.
  - right. repeat split; auto. intros C. apply akeys_del in C. tauto. Qed.

(* ------------------------------------------------------------------ (b) one node replaced *)
Lemma flat_map_sum_updk (P : oalloc -> bool) (l : list onode) n n' k : NoDup (map on_id l) -> In n l ->
  asum (filter P (flat_map on_allocs (updk on_id l (on_id n) (fun _ => n')))) k =
  asum (filter P (flat_map on_allocs l)) k + asum (filter P (on_allocs n')) k - asum (filter P (on_allocs n)) k.
Proof. induction l as [|x t IH]; [contradiction|]. cbn [map]. intros Hnd Hin. inversion Hnd as [|? ? Hni Hnd']; subst.
  unfold updk. cbn [map flat_map]. fold (updk on_id t (on_id n) (fun _ => n')). rewrite !filter_app, !asum_app. destruct Hin as [->|Hin].
  - rewrite N.eqb_refl. rewrite (updk_fresh on_id t (on_id n) _ Hni). lia.
  - destruct (N.eqb_spec (on_id x) (on_id n)) as [E|E]; [exfalso; apply Hni; rewrite E; apply in_map; assumption|].
    rewrite (IH Hnd' Hin). lia. Qed.

Section NodeUpd.
  Variables (s s' : ostate) (n n' : onode).
  Hypothesis HI : InvG s.
  Hypothesis Hn : In n (s_nodes s).
  Hypothesis Enodes : s_nodes s' = updk on_id (s_nodes s) (on_id n) (fun _ => n').
  Hypothesis Enid : on_id n' = on_id n.

  Lemma g_in_nodes' m' : In m' (s_nodes s') <-> m' = n' \/ (In m' (s_nodes s) /\ on_id m' <> on_id n).
  Proof. rewrite Enodes. apply in_updk_const; [apply (ig_node_ids s HI)|assumption]. Qed.
  Lemma g_node_ids' : NoDup (map on_id (s_nodes s')).
  Proof. rewrite Enodes, updk_keys; [apply (ig_node_ids s HI)|]. intros m Hm. congruence. Qed.
  Lemma g_nodes_ok' : NodeOK3 n' -> forall m', In m' (s_nodes s') -> NodeOK3 m'.
  Proof. intros K m' Hm'. apply g_in_nodes' in Hm'. destruct Hm' as [->|[Hm _]]; [assumption|apply (ig_nodes s HI m' Hm)]. Qed.
  Lemma g_find_node' : find_node s' (on_id n) = Some n'.
  Proof. rewrite <- Enid. apply (findk_in on_id); [apply g_node_ids'|]. apply g_in_nodes'. auto. Qed.
  (* a node of s other than n is a node of s' *)
  Lemma g_node_kept m : In m (s_nodes s) -> on_id m <> on_id n -> In m (s_nodes s').
  Proof. intros Hm Hne. apply g_in_nodes'. auto. Qed.
  (* where the records of s are in s' *)
  Lemma g_record_kept m y : In m (s_nodes s) -> In y (on_allocs m) -> (m = n -> In y (on_allocs n')) ->
    exists m', In m' (s_nodes s') /\ on_id m' = on_id m /\ In y (on_allocs m').
  Proof. intros Hm Hy H. destruct (N.eq_dec (on_id m) (on_id n)) as [E|E].
    - assert (m = n) by (apply (g_same_node s n m HI Hn Hm E)). subst m. exists n'. split; [apply g_in_nodes'; auto|]. split; [assumption|auto].
    - exists m. split; [apply g_node_kept; assumption|auto]. Qed.

  (* sums over the records the nodes list change by what n's list changed *)
  Lemma records_sum_upd (P : oalloc -> bool) k :
    asum (filter P (node_records s')) k =
    asum (filter P (node_records s)) k + asum (filter P (on_allocs n')) k - asum (filter P (on_allocs n)) k.
  Proof. unfold node_records. rewrite Enodes. apply flat_map_sum_updk; [apply (ig_node_ids s HI)|assumption]. Qed.
  (* Node.AddAllocation *)
  Lemma ninfl_put x k : on_allocs n' = put_alloc x (on_allocs n) ->
    asum (filter ninfl (node_records s')) k = asum (filter ninfl (node_records s)) k + (if ninfl x then getz (oa_res x) k else 0)
      - match find_alloc (on_allocs n) (oa_key x) with Some y => if ninfl y then getz (oa_res y) k else 0 | None => 0 end.
  Proof. intros E. rewrite records_sum_upd, E, asum_filter_put by (apply (k3_keys n (ig_nodes s HI n Hn))). lia. Qed.
  Lemma ninfl_put_fresh x k : on_allocs n' = put_alloc x (on_allocs n) -> ~ In (oa_key x) (akeys (on_allocs n)) ->
    asum (filter ninfl (node_records s')) k = asum (filter ninfl (node_records s)) k + (if ninfl x then getz (oa_res x) k else 0).
  Proof. intros E Hfr. rewrite (ninfl_put x k E). apply find_alloc_none in Hfr. rewrite Hfr. lia. Qed.
  (* Node.RemoveAllocation *)
  Lemma ninfl_del y k : In y (on_allocs n) -> on_allocs n' = del_alloc (oa_key y) (on_allocs n) ->
    asum (filter ninfl (node_records s')) k = asum (filter ninfl (node_records s)) k - (if ninfl y then getz (oa_res y) k else 0).
  Proof. intros Hy E. rewrite records_sum_upd, E, asum_filter_del by (apply (k3_keys n (ig_nodes s HI n Hn))).
    rewrite (g_find_node_alloc_in s n y HI Hn Hy). lia. Qed.
  Lemma ninfl_del_none key k : ~ In key (akeys (on_allocs n)) -> on_allocs n' = del_alloc key (on_allocs n) ->
    asum (filter ninfl (node_records s')) k = asum (filter ninfl (node_records s)) k.
  Proof. intros Hno E. rewrite records_sum_upd, E, del_alloc_fresh by assumption. lia. Qed.
  (* Node.ReplaceAllocation: y leaves, x (another key) arrives *)
  Lemma ninfl_replace y x k : In y (on_allocs n) -> on_allocs n' = put_alloc x (del_alloc (oa_key y) (on_allocs n)) ->
    ~ In (oa_key x) (akeys (on_allocs n)) ->
    asum (filter ninfl (node_records s')) k = asum (filter ninfl (node_records s)) k
      + (if ninfl x then getz (oa_res x) k else 0) - (if ninfl y then getz (oa_res y) k else 0).
  Proof. intros Hy E Hfr. pose proof (k3_keys n (ig_nodes s HI n Hn)) as Hnd.
    rewrite records_sum_upd, E, asum_filter_put by (apply akeys_del_nodup; assumption).
    assert (Ex : find_alloc (del_alloc (oa_key y) (on_allocs n)) (oa_key x) = None).
    { apply find_alloc_none. intros C. apply akeys_del in C. tauto. }
    rewrite Ex, asum_filter_del by assumption. rewrite (g_find_node_alloc_in s n y HI Hn Hy). lia. Qed.
End NodeUpd.

(* the node invariant after the three node operations, from the ledger equation *)
Lemma nodeok3_put n n' x : NodeOK3 n -> on_id n' = on_id n -> on_allocs n' = put_alloc x (on_allocs n) -> oa_node x = on_id n ->
  wf (on_allocated n') ->
  (forall k, getz (on_allocated n') k = getz (on_allocated n) k + getz (oa_res x) k
             - match find_alloc (on_allocs n) (oa_key x) with Some y => getz (oa_res y) k | None => 0 end) -> NodeOK3 n'.
Proof. intros [K1 K2 K3 K4] Ei Ea Ex Hwf Hled. constructor; auto.
  - rewrite Ea. apply akeys_put_nodup. assumption.
  - intros y Hy. rewrite Ea in Hy. apply in_put_alloc in Hy. rewrite Ei. destruct Hy as [->|[Hy _]]; auto.
  - intros k. rewrite Hled, Ea, asum_put, K3 by assumption. reflexivity. Qed.
Lemma nodeok3_del n n' key : NodeOK3 n -> on_id n' = on_id n -> on_allocs n' = del_alloc key (on_allocs n) -> wf (on_allocated n') ->
  (forall k, getz (on_allocated n') k = getz (on_allocated n) k
             - match find_alloc (on_allocs n) key with Some y => getz (oa_res y) k | None => 0 end) -> NodeOK3 n'.
Proof. intros [K1 K2 K3 K4] Ei Ea Hwf Hled. constructor; auto.
  - rewrite Ea. apply akeys_del_nodup. assumption.
  - intros y Hy. rewrite Ea in Hy. apply in_del_alloc in Hy. rewrite Ei. apply K2. tauto.
  - intros k. rewrite Hled, Ea, asum_del, K3 by assumption. reflexivity. Qed.
Lemma nodeok3_same_allocs n n' : NodeOK3 n -> on_id n' = on_id n -> on_allocs n' = on_allocs n -> on_allocated n' = on_allocated n -> NodeOK3 n'.
Proof. intros [K1 K2 K3 K4] Ei Ea El. constructor; rewrite ?Ea, ?El, ?Ei; auto. Qed.
