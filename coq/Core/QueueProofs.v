(* C02, queue level: soundness of allocatedResFits / TryIncAllocatedResource of the operational model
   (Core/Model.v, transcriptions of objects/queue.go) against the oracle predicates of Core/Ledger.v
   ([over_max_at], [queue_max_ok_after]).  Hypotheses: wf / rsmall as in Core/NodeProofs.v; maxima have no negative
   entry (config validation rejects them; the root maximum is the sum of node capacities); root usage is non-negative;
   the parent chain of the leaf reaches a root within the fuel ([path_wf], true of every tree). *)
From Coq Require Import List ZArith NArith Bool Lia ZifyBool.
From YK Require Import Base.Int64 Base.Int64Laws Base.Res Base.ResSpec Base.ResLemmas Base.ResLaws Base.ResLaws2
  Base.ResLawsPred Core.Obs Core.Model Core.Ledger Core.NodeProofs.
Import ListNotations.
Open Scope Z_scope.

Ltac sm := unfold small, lim, in_range, MIN, MAX in *; lia.
Ltac qproj := cbn [q_with q_id q_parent q_leaf q_managed q_state q_max q_guar q_alloc q_pending q_preempting q_running
                   q_maxrunning q_allocating q_reserved q_apps].

(* ------------------------------------------------------------------ lookups in a mapped queue list *)
Lemma find_queue_some s id q : find_queue s id = Some q -> In q (s_queues s) /\ q_id q = id.
Proof. unfold find_queue. intros H. apply find_some in H. destruct H as [H1 H2]. apply N.eqb_eq in H2. auto. Qed.

Lemma find_map {A} (p : A -> bool) (g : A -> A) l : (forall x, p (g x) = p x) -> find p (map g l) = option_map g (find p l).
Proof. intros H. induction l as [|x t IH]; [reflexivity|]. cbn [map find]. rewrite H. destruct (p x); [reflexivity|assumption]. Qed.

Section Mapped.
  Variables (s s' : ostate) (g : oqueue -> oqueue).
  Hypothesis Hq : s_queues s' = map g (s_queues s).
  Hypothesis Hid : forall q, q_id (g q) = q_id q.
  Hypothesis Hpar : forall q, q_parent (g q) = q_parent q.

  Lemma find_queue_map id : find_queue s' id = option_map g (find_queue s id).
  Proof. unfold find_queue. rewrite Hq. apply find_map. intros q. rewrite Hid. reflexivity. Qed.
  Lemma ancestors_fuel_map fuel : forall id, ancestors_fuel fuel s' id = map g (ancestors_fuel fuel s id).
  Proof. induction fuel as [|f IH]; intros id; [reflexivity|]. cbn [ancestors_fuel]. rewrite find_queue_map.
    destruct (find_queue s id) as [q|]; cbn [option_map]; [|reflexivity]. cbn [map]. rewrite Hpar. f_equal.
    destruct (q_parent q =? 0)%N; [reflexivity|apply IH]. Qed.
  Lemma ancestors_map id : ancestors s' id = map g (ancestors s id).
  Proof. unfold ancestors. rewrite Hq, map_length. apply ancestors_fuel_map. Qed.
End Mapped.

Lemma path_ids_fuel_anc s fuel : forall id, path_ids_fuel fuel s id = map q_id (ancestors_fuel fuel s id).
Proof. induction fuel as [|f IH]; intros id; [reflexivity|]. cbn [path_ids_fuel ancestors_fuel].
  destruct (find_queue s id) as [q|] eqn:E; [|reflexivity]. cbn [map]. apply find_queue_some in E. destruct E as [_ E]. rewrite E.
  f_equal. destruct (q_parent q =? 0)%N; [reflexivity|apply IH]. Qed.
Lemma path_ids_anc s id : path_ids s id = map q_id (ancestors s id).
Proof. apply path_ids_fuel_anc. Qed.
Lemma ancestors_fuel_find s fuel : forall id q, In q (ancestors_fuel fuel s id) -> find_queue s (q_id q) = Some q.
Proof. induction fuel as [|f IH]; intros id q; [intros []|]. cbn [ancestors_fuel].
  destruct (find_queue s id) as [q0|] eqn:E; [|intros []]. intros [<-|Hin].
  - destruct (find_queue_some _ _ _ E) as [_ ->]. assumption.
  - destruct (q_parent q0 =? 0)%N; [destruct Hin|]. eapply IH; eassumption. Qed.
Lemma ancestors_find s id q : In q (ancestors s id) -> find_queue s (q_id q) = Some q.
Proof. apply ancestors_fuel_find. Qed.
Lemma memN_In x l : memN x l = true <-> In x l.
Proof. unfold memN. rewrite existsb_exists. split; [intros (y & H & E); apply N.eqb_eq in E; subst; assumption|].
  intros H. exists x. split; [assumption|apply N.eqb_refl]. Qed.
Lemma ancestors_on_path s id q : In q (ancestors s id) -> memN (q_id q) (path_ids s id) = true.
Proof. intros H. apply memN_In. rewrite path_ids_anc. apply in_map. assumption. Qed.

(* ------------------------------------------------------------------ allocatedResFits *)
Definition max_nonneg (q : oqueue) : Prop := forall m k l, q_max q = Some m -> get m k = Some l -> 0 <= l.

Lemma fitIn_addOnly_entry mx r a skip k v :
  fitIn mx (AddOnlyExisting (Some r) (Some a)) skip false = true -> In (k, v) r ->
  match get (oget mx) k with
  | None => if skip then True else addVal v (getz a k) <= 0
  | Some lv => addVal v (getz a k) <= Z.max 0 lv
  end.
Proof. unfold fitIn, AddOnlyExisting. rewrite forallb_forall. intros H Hin.
  specialize (H (k, addVal v (getz a k))). cbn [fst snd] in H.
  assert (Hi : In (k, addVal v (getz a k)) (map (fun kv => (fst kv, addVal (snd kv) (getz a (fst kv)))) r))
    by (apply in_map_iff; exists (k, v); split; [reflexivity|assumption]).
  specialize (H Hi). destruct (get (oget mx) k) as [lv|]; [rewrite zmax_max in H; lia|]. destruct skip; [exact I|lia]. Qed.

(* the value the check compares: usage + request at a requested type *)
Lemma q_fits_entry q r k v : q_fits q r = true -> In (k, v) r -> small v -> small (getz (q_alloc q) k) ->
  match get (oget (q_max q)) k with
  | None => if (q_parent q =? 0)%N then v + getz (q_alloc q) k <= 0 else True
  | Some lv => v + getz (q_alloc q) k <= Z.max 0 lv
  end.
Proof. unfold q_fits. intros H Hin Sv Sa.
  assert (E : addVal v (getz (q_alloc q) k) = v + getz (q_alloc q) k) by (apply addVal_exact; sm).
  destruct (q_parent q =? 0)%N; [unfold FitIn in H|unfold FitInMaxUndef in H];
    pose proof (fitIn_addOnly_entry _ _ _ _ _ _ H Hin) as F; rewrite E in F; exact F. Qed.

Lemma has_entry r k : has r k = true -> exists v, In (k, v) r /\ getz r k = v.
Proof. unfold has, getz. destruct (get r k) as [v|] eqn:E; [|discriminate]. intros _. exists v. split; [apply get_some_in; assumption|reflexivity]. Qed.

Lemma Add_getz_small a r k : wf r -> small (getz a k) -> small (getz r k) ->
  getz (Add (Some a) (Some r)) k = getz a k + getz r k.
Proof. intros W Sa Sr. cbn [Add oget]. apply addTo_getz; try assumption; sm. Qed.

(* C02.7: an accepted request keeps usage + request within every type the maximum defines *)
Theorem q_fits_sound q r : wf r -> rsmall r -> rsmall (q_alloc q) -> q_fits q r = true ->
  forall m k l, q_max q = Some m -> get m k = Some l -> 0 <= l -> has r k = true ->
  getz (Add (Some (q_alloc q)) (Some r)) k <= l.
Proof. intros W Sr Sa H m k l Em El Hl Hk. destruct (has_entry _ _ Hk) as (v & Hin & Ev).
  rewrite Add_getz_small by auto. rewrite Ev.
  pose proof (q_fits_entry q r k v H Hin) as F. rewrite Em in F. cbn [oget] in F. rewrite El in F.
  specialize (Sr k). specialize (Sa k). rewrite Ev in Sr. specialize (F Sr Sa). lia. Qed.

(* at the root (FitIn: a type the maximum does not define counts as 0) a positively requested type must be
   defined in the root maximum, i.e. some registered node provides it *)
Theorem q_fits_sound_root q r : q_parent q = 0%N -> wf r -> rsmall r -> rsmall (q_alloc q) -> res_nonnegP (q_alloc q) ->
  q_fits q r = true -> forall k, 0 < getz r k -> has (oget (q_max q)) k = true.
Proof. intros Hp W Sr Sa Na H k Hk. assert (Hh : has r k = true) by (unfold has, getz in *; destruct (get r k); [reflexivity|lia]).
  destruct (has_entry _ _ Hh) as (v & Hin & Ev). pose proof (q_fits_entry q r k v H Hin) as F.
  specialize (Sr k). specialize (Sa k). rewrite Ev in Sr. specialize (F Sr Sa). rewrite Hp in F. cbn [N.eqb] in F.
  unfold has. destruct (get (oget (q_max q)) k); [reflexivity|]. specialize (Na k). lia. Qed.

Definition q_plus (r : res) (q : oqueue) : oqueue := q_with q (q_max q) (Add (Some (q_alloc q)) (Some r)) (q_pending q).

Lemma q_fits_not_over q r k : wf r -> rsmall r -> rsmall (q_alloc q) -> max_nonneg q ->
  q_fits q r = true -> has r k = true -> over_max_at (q_plus r q) k = false.
Proof. intros W Sr Sa Mn H Hk. unfold over_max_at, q_plus. qproj. destruct (q_max q) as [m|] eqn:Em; [|reflexivity].
  destruct (get m k) as [l|] eqn:El; [|reflexivity].
  pose proof (q_fits_sound q r W Sr Sa H m k l Em El (Mn m k l Em El) Hk). lia. Qed.
Lemma q_plus_other q r k : wf r -> has r k = false -> over_max_at (q_plus r q) k = over_max_at q k.
Proof. intros W Hk. unfold over_max_at, q_plus. qproj. destruct (q_max q) as [m|]; [|reflexivity].
  destruct (get m k) as [l|]; [|reflexivity]. cbn [Add oget]. unfold getz.
  rewrite addTo_get_none; [reflexivity|assumption|]. unfold has in Hk. destruct (get r k); [discriminate|reflexivity]. Qed.

(* ------------------------------------------------------------------ TryIncAllocatedResource *)
Definition path_wf (s : ostate) (leaf : N) : Prop := existsb (fun q => (q_parent q =? 0)%N) (ancestors s leaf) = true.
Definition has_positive (r : res) : Prop := exists k v, In (k, v) r /\ 0 < v.

Record PathOK (s : ostate) (leaf : N) : Prop := mkPO {
  po_wf : path_wf s leaf;
  po_small : forall q, In q (ancestors s leaf) -> rsmall (q_alloc q);
  po_max : forall q, In q (ancestors s leaf) -> max_nonneg q;
  po_root : forall q, In q (ancestors s leaf) -> q_parent q = 0%N -> res_nonnegP (q_alloc q) }.

Definition on_path_fn (s : ostate) (leaf : N) (f : oqueue -> oqueue) (q : oqueue) : oqueue :=
  if memN (q_id q) (path_ids s leaf) then f q else q.

Lemma q_try_inc_inv s leaf r s' : q_try_inc s leaf r = Some s' ->
  (forall q, In q (ancestors s leaf) -> q_fits q r = true) /\ s' = on_path s (path_ids s leaf) (q_plus r).
Proof. unfold q_try_inc. destruct (forallb _ (path_ids s leaf)) eqn:E; [|discriminate]. intros H. inversion H; subst s'. split; [|reflexivity].
  intros q Hin. rewrite forallb_forall in E. specialize (E (q_id q)). rewrite (ancestors_find _ _ _ Hin) in E. apply E.
  apply memN_In. apply ancestors_on_path. assumption. Qed.

Lemma on_path_queues s path f : s_queues (on_path s path f) = map (fun q => if memN (q_id q) path then f q else q) (s_queues s).
Proof. reflexivity. Qed.

Lemma ancestors_on_path_map s leaf f : (forall q, q_id (f q) = q_id q) -> (forall q, q_parent (f q) = q_parent q) ->
  ancestors (on_path s (path_ids s leaf) f) leaf = map f (ancestors s leaf).
Proof. intros Hid Hpar.
  rewrite (ancestors_map s (on_path s (path_ids s leaf) f) (on_path_fn s leaf f)).
  - apply map_ext_in. intros q Hin. unfold on_path_fn. rewrite (ancestors_on_path _ _ _ Hin). reflexivity.
  - reflexivity.
  - intros q. unfold on_path_fn. destruct (memN _ _); [apply Hid|reflexivity].
  - intros q. unfold on_path_fn. destruct (memN _ _); [apply Hpar|reflexivity]. Qed.

Lemma queue_max_ok_after_intro post qid r l :
  ancestors post qid = l ->
  (forall q kv, In q l -> In kv r -> 0 < snd kv -> over_max_at q (fst kv) = false) ->
  (exists root m, find (fun q => (q_parent q =? 0)%N) l = Some root /\ q_max root = Some m /\
                  forall kv, In kv r -> 0 < snd kv -> has m (fst kv) = true) ->
  queue_max_ok_after post qid r = true.
Proof. intros El H1 (root & m & Ef & Em & H2). unfold queue_max_ok_after. rewrite El, Ef, Em. apply andb_true_iff. split.
  - apply forallb_forall. intros q Hq. apply forallb_forall. intros kv Hkv. specialize (H1 q kv Hq Hkv).
    destruct (Z.ltb_spec 0 (snd kv)); [rewrite H1 by assumption|]; reflexivity.
  - apply forallb_forall. intros kv Hkv. specialize (H2 kv Hkv). destruct (Z.ltb_spec 0 (snd kv)); [rewrite H2 by assumption|]; reflexivity. Qed.

Lemma in_has r k v : In (k, v) r -> has r k = true.
Proof. intros H. apply has_iff. change k with (fst (k, v)). apply in_map. assumption. Qed.

(* C02.8 *)
Theorem q_try_inc_sound s leaf r s' : q_try_inc s leaf r = Some s' ->
  wf r -> rsmall r -> has_positive r -> PathOK s leaf ->
  queue_max_ok_after s' leaf r = true.
Proof. intros H W Sr (kp & vp & Hinp & Hvp) [Pw Ps Pm Pr]. destruct (q_try_inc_inv _ _ _ _ H) as [Hfit ->].
  apply (queue_max_ok_after_intro _ _ _ (map (q_plus r) (ancestors s leaf))).
  - apply ancestors_on_path_map; reflexivity.
  - intros q' [k v] Hq' Hkv Hv. apply in_map_iff in Hq'. destruct Hq' as (q & <- & Hq). cbn [fst snd] in *.
    apply q_fits_not_over; auto. eapply in_has; eassumption.
  - unfold path_wf in Pw. apply existsb_exists in Pw. destruct Pw as (q0 & Hq0 & Hp0).
    destruct (find (fun q => (q_parent q =? 0)%N) (ancestors s leaf)) as [root|] eqn:Ef;
      [|apply (find_none _ _ Ef) in Hq0; congruence].
    destruct (find_some _ _ Ef) as [Hroot Hpr]. apply N.eqb_eq in Hpr.
    assert (Sa := Ps _ Hroot). assert (Na := Pr _ Hroot Hpr). assert (Fr := Hfit _ Hroot).
    assert (Hdef : forall k, 0 < getz r k -> has (oget (q_max root)) k = true) by (apply q_fits_sound_root; assumption).
    destruct (q_max root) as [m|] eqn:Em.
    + exists (q_plus r root), m. split; [rewrite find_map by reflexivity; rewrite Ef; reflexivity|]. split; [exact Em|].
      intros [k v] Hkv Hv. cbn [fst snd] in *. apply Hdef. rewrite (wf_entry_getz r k v W Hkv). assumption.
    + exfalso. specialize (Hdef kp). rewrite (wf_entry_getz r kp vp W Hinp) in Hdef. specialize (Hdef Hvp). discriminate. Qed.

(* queues off the path are unchanged; every queue on the path gets exactly +r on its allocated usage *)
Theorem q_try_inc_only_path s leaf r s' : q_try_inc s leaf r = Some s' ->
  s_queues s' = map (on_path_fn s leaf (q_plus r)) (s_queues s) /\
  s_nodes s' = s_nodes s /\ s_apps s' = s_apps s /\ s_foreign s' = s_foreign s /\ s_total s' = s_total s /\
  forall id, find_queue s' id =
             match find_queue s id with
             | Some q => Some (if memN id (path_ids s leaf) then q_plus r q else q)
             | None => None
             end.
Proof. intros H. destruct (q_try_inc_inv _ _ _ _ H) as [_ ->]. repeat (split; [reflexivity|]). intros id.
  rewrite (find_queue_map s _ (on_path_fn s leaf (q_plus r))); [|reflexivity|].
  - destruct (find_queue s id) as [q|] eqn:E; [|reflexivity]. cbn [option_map]. unfold on_path_fn.
    destruct (find_queue_some _ _ _ E) as [_ ->]. reflexivity.
  - intros q. unfold on_path_fn. destruct (memN _ _); reflexivity. Qed.
Lemma q_plus_spec q r : q_id (q_plus r q) = q_id q /\ q_parent (q_plus r q) = q_parent q /\ q_max (q_plus r q) = q_max q /\
  q_pending (q_plus r q) = q_pending q /\ q_guar (q_plus r q) = q_guar q /\
  (wf r -> rsmall r -> rsmall (q_alloc q) -> forall k, getz (q_alloc (q_plus r q)) k = getz (q_alloc q) k + getz r k).
Proof. repeat (split; [reflexivity|]). intros W Sr Sa k. unfold q_plus. qproj. apply Add_getz_small; auto. Qed.

(* ------------------------------------------------------------------ states whose queues differ in fields the limits do not read *)
Lemma over_max_at_ext q q' k : q_max q' = q_max q -> q_alloc q' = q_alloc q -> over_max_at q' k = over_max_at q k.
Proof. unfold over_max_at. intros -> ->. reflexivity. Qed.

Lemma forallb_map_c {A B} (f : B -> bool) (g : A -> B) l : forallb f (map g l) = forallb (fun x => f (g x)) l.
Proof. induction l as [|x t IH]; [reflexivity|]. cbn [map forallb]. rewrite IH. reflexivity. Qed.
Lemma forallb_ext_c {A} (f g : A -> bool) l : (forall x, f x = g x) -> forallb f l = forallb g l.
Proof. intros H. induction l as [|x t IH]; [reflexivity|]. cbn [forallb]. rewrite H, IH. reflexivity. Qed.

Lemma queue_max_ok_after_map s s' g leaf r : s_queues s' = map g (s_queues s) ->
  (forall q, q_id (g q) = q_id q /\ q_parent (g q) = q_parent q /\ q_max (g q) = q_max q /\ q_alloc (g q) = q_alloc q) ->
  queue_max_ok_after s' leaf r = queue_max_ok_after s leaf r.
Proof. intros Hq Hg. unfold queue_max_ok_after.
  rewrite (ancestors_map s s' g Hq (fun q => proj1 (Hg q)) (fun q => proj1 (proj2 (Hg q)))).
  rewrite forallb_map_c. rewrite find_map by (intros q; destruct (Hg q) as (_ & -> & _); reflexivity). f_equal.
  - apply forallb_ext_c. intros q. apply forallb_ext_c. intros kv. destruct (Hg q) as (_ & _ & E1 & E2).
    rewrite (over_max_at_ext q (g q) (fst kv) E1 E2). reflexivity.
  - destruct (find _ (ancestors s leaf)) as [root|]; [|reflexivity]. cbn [option_map]. destruct (Hg root) as (_ & _ & -> & _). reflexivity. Qed.

(* ------------------------------------------------------------------ the hypotheses are satisfiable *)
Definition ex_q (id parent : N) (mx : ores) (alloc : res) : oqueue :=
  mkOQ id parent (negb (id =? 1)%N) true QS_Active mx None alloc [] [] 0%N 0%N [] [] [].
Definition ex_qstate : ostate :=
  mkOS [] [] [ex_q 1 0 (Some [(1%N, 100); (2%N, 8)]) [(1%N, 30); (2%N, 3)];
              ex_q 2 1 (Some [(1%N, 50)]) [(1%N, 30); (2%N, 3)];
              ex_q 3 2 None [(1%N, 30); (2%N, 3)];
              ex_q 4 1 (Some [(1%N, 10)]) []]
       (Some [(1%N, 100); (2%N, 8)]) 0 0 0 [] [] [] [].
Lemma res_nonneg_sound r : res_nonneg r = true -> res_nonnegP r.
Proof. intros H k. unfold getz. destruct (get r k) as [v|] eqn:E; [|lia]. apply get_some_in in E.
  unfold res_nonneg in H. rewrite forallb_forall in H. specialize (H _ E). cbn [snd] in H. lia. Qed.
Definition res_small_b (r : res) : bool := forallb (fun kv => (- lim <=? snd kv) && (snd kv <=? lim)) r.
Definition path_ok_b (s : ostate) (leaf : N) : bool :=
  existsb (fun q => (q_parent q =? 0)%N) (ancestors s leaf) &&
  forallb (fun q => res_small_b (q_alloc q) && match q_max q with Some m => res_nonneg m | None => true end &&
                    (negb (q_parent q =? 0)%N || res_nonneg (q_alloc q))) (ancestors s leaf).
Lemma path_ok_b_sound s leaf : path_ok_b s leaf = true -> PathOK s leaf.
Proof. unfold path_ok_b. rewrite andb_true_iff, forallb_forall. intros [H1 H2]. split; [exact H1| | |].
  - intros q Hq. specialize (H2 q Hq). apply rsmall_check. unfold res_small_b in H2. destruct (forallb _ (q_alloc q)); [reflexivity|discriminate].
  - intros q Hq m k l Em El. specialize (H2 q Hq). rewrite Em in H2. rewrite !andb_true_iff in H2. destruct H2 as [[_ H2] _].
    apply res_nonneg_sound in H2. specialize (H2 k). unfold getz in H2. rewrite El in H2. exact H2.
  - intros q Hq Hp. specialize (H2 q Hq). rewrite Hp in H2. rewrite !andb_true_iff in H2. destruct H2 as [_ H2]. cbn in H2.
    apply res_nonneg_sound. exact H2. Qed.

Example ex_path_ok : PathOK ex_qstate 3%N /\ wf [(1%N, 20); (2%N, 5)] /\ rsmall [(1%N, 20); (2%N, 5)] /\ has_positive [(1%N, 20); (2%N, 5)].
Proof. split; [apply path_ok_b_sound; vm_compute; reflexivity|]. split; [apply wf_check; vm_compute; reflexivity|].
  split; [apply rsmall_check; vm_compute; reflexivity|]. exists 1%N, 20. split; [left; reflexivity|lia]. Qed.
Example ex_try_inc :
  match q_try_inc ex_qstate 3%N [(1%N, 20); (2%N, 5)] with Some s' => queue_max_ok_after s' 3%N [(1%N, 20); (2%N, 5)] | None => false end = true /\
  q_try_inc ex_qstate 3%N [(1%N, 21)] = None /\ q_try_inc ex_qstate 3%N [(3%N, 1)] = None /\ q_try_inc ex_qstate 3%N [(2%N, 6)] = None.
Proof. vm_compute. repeat split. Qed.

(* ------------------------------------------------------------------ C02.11: GetMaxResource / internalGetMax
   A transcription of objects/queue.go GetMaxResource (recursion over the parent chain, with fuel) and
   internalGetMax. NOT tied to the code by the correspondence run (the effective maximum is not observed). *)
Definition internalGetMax (q : oqueue) (parentLimit : ores) : ores :=
  match parentLimit with
  | None => q_max q
  | Some _ => match q_max q with None => parentLimit | Some _ => ComponentWiseMin parentLimit (q_max q) end
  end.
Fixpoint get_max_fuel (fuel : nat) (s : ostate) (qid : N) : ores :=
  match fuel with
  | O => None
  | S f => match find_queue s qid with
           | None => None
           | Some q => internalGetMax q (if (q_parent q =? 0)%N then None else get_max_fuel f s (q_parent q))
           end
  end.
Definition GetMaxResource (s : ostate) (qid : N) : ores := get_max_fuel (S (length (s_queues s))) s qid.

Lemma internalGetMax_wf q pl : owf pl -> owf (q_max q) -> owf (internalGetMax q pl).
Proof. intros Wp Wq. unfold internalGetMax. destruct pl as [p|]; [|assumption]. destruct (q_max q) as [m|] eqn:E; [|assumption].
  apply ComponentWiseMin_wf; assumption. Qed.
(* the effective limit is never looser than the parent's effective limit, nor than the queue's own maximum *)
Lemma internalGetMax_le_parent q pl k l : owf pl -> owf (q_max q) -> get (oget pl) k = Some l ->
  exists v, get (oget (internalGetMax q pl)) k = Some v /\ v <= l.
Proof. intros Wp Wq El. unfold internalGetMax. destruct pl as [p|]; [|discriminate]. destruct (q_max q) as [m|] eqn:E.
  - rewrite ComponentWiseMin_get by assumption. rewrite El. cbn [oget cwmin_at].
    destruct (get m k) as [y|]; eexists; (split; [reflexivity|lia]).
  - exists l. split; [assumption|lia]. Qed.
Lemma internalGetMax_le_own q pl k l : owf pl -> owf (q_max q) -> get (oget (q_max q)) k = Some l ->
  exists v, get (oget (internalGetMax q pl)) k = Some v /\ v <= l.
Proof. intros Wp Wq El. unfold internalGetMax. destruct pl as [p|]; [|exists l; split; [assumption|lia]].
  destruct (q_max q) as [m|] eqn:E; [|discriminate].
  rewrite ComponentWiseMin_get by assumption. cbn [oget] in *. rewrite El. unfold cwmin_at.
  destruct (get p k) as [y|]; eexists; (split; [reflexivity|lia]). Qed.
Lemma get_max_fuel_wf s : (forall q, In q (s_queues s) -> owf (q_max q)) -> forall fuel qid, owf (get_max_fuel fuel s qid).
Proof. intros H. induction fuel as [|f IH]; intros qid; [apply wf_nil|]. cbn [get_max_fuel].
  destruct (find_queue s qid) as [q|] eqn:E; [|apply wf_nil]. destruct (find_queue_some _ _ _ E) as [Hin _].
  apply internalGetMax_wf; [|auto]. destruct (q_parent q =? 0)%N; [apply wf_nil|apply IH]. Qed.
Theorem effective_max_monotone s fuel qid q k l : (forall q, In q (s_queues s) -> owf (q_max q)) ->
  find_queue s qid = Some q -> (q_parent q =? 0)%N = false ->
  get (oget (get_max_fuel fuel s (q_parent q))) k = Some l ->
  exists v, get (oget (get_max_fuel (S fuel) s qid)) k = Some v /\ v <= l.
Proof. intros H E Hp El. cbn [get_max_fuel]. rewrite E, Hp. destruct (find_queue_some _ _ _ E) as [Hin _].
  apply internalGetMax_le_parent; [apply get_max_fuel_wf; assumption|auto|assumption]. Qed.
Example ex_effective_max : GetMaxResource ex_qstate 3%N = Some [(1%N, 50); (2%N, 8)] /\
  GetMaxResource ex_qstate 4%N = Some [(1%N, 10); (2%N, 8)] /\ GetMaxResource ex_qstate 1%N = Some [(1%N, 100); (2%N, 8)].
Proof. vm_compute. repeat split. Qed.
