(* C03 over the gang fragment (Core/Model3.v): the replacement protocol, part 3: the confirmation of a replacement,
   node side and dispatcher.
     [ConfirmSame]   real allocation and placeholder on the same node: Node.ReplaceAllocation ([n_replace]);
     [ConfirmCross]  the real allocation sits on another node already: Node.RemoveAllocation of the placeholder, the
                     link on the node copy of the real allocation is cleared ([obj_upd]): TWO nodes change;
     both instantiate [confirm_core_step] (Core/Model3ProofsO3b.v);
     [confirm_tail]  RemoveAllocationAsk(placeholder key) ([app_remove_ask_step2], Core/Model3ProofsO1b.v) and
                     moveTerminatedApp (the identity: the application is live);
     [g_release_confirm_step]  the [confirm] branch of [g_release]. *)
From Coq Require Import List ZArith NArith Bool Lia ZifyBool.
From YK Require Import Base.Int64 Base.Res Base.ResSpec Base.ResLemmas Base.ResLaws Base.ResLaws2 Base.ResLawsPred
  Core.Obs Core.Model Core.Model2 Core.Model3 Core.Ledger
  Core.BooksLemmas Core.BooksDefs Core.BooksTree Core.BooksQueue Core.BooksApp Core.BooksState Core.BooksDrain Core.BooksOps
  Core.BooksOps2 Core.Model2ProofsB2 Core.Model3ProofsD Core.Model3ProofsD2 Core.Model3ProofsG1 Core.Model3ProofsG2
  Core.Model3ProofsG3 Core.Model3ProofsG5 Core.Model3ProofsG6 Core.Model3ProofsA1 Core.Model3ProofsA2 Core.Model3ProofsA3
  Core.Model3ProofsO1 Core.Model3ProofsO1b Core.Model3ProofsO3 Core.Model3ProofsO3b.
Import ListNotations.
Open Scope Z_scope.
Set Default Timeout 30.

(* ------------------------------------------------------------------ small tools *)
Lemma conf_tail_same s2 leaf t : same_but_queues s2 (if StrictlyGreaterThanZero (Some t) then q_dec s2 leaf t else s2).
Proof. destruct (StrictlyGreaterThanZero _); [apply q_dec_same|constructor; reflexivity]. Qed.
Lemma nodeok3_rmap h m : (forall y, oa_key (h y) = oa_key y) -> (forall y, oa_node (h y) = oa_node y) -> (forall y, oa_res (h y) = oa_res y) ->
  NodeOK3 m -> NodeOK3 (rmap_node h m).
Proof. intros Hk Hn Hr [K1 K2 K3 K4]. unfold rmap_node. constructor; cbn [n_with on_id on_allocs on_allocated]; auto.
  - unfold akeys. rewrite map_map. rewrite (map_ext _ oa_key Hk). exact K1.
  - intros y' Hy'. apply in_map_iff in Hy'. destruct Hy' as (y & <- & Hy). rewrite Hn. auto.
  - intros k. rewrite K3. unfold asum. rewrite map_map. rewrite (map_ext _ oa_res Hr). reflexivity. Qed.
Lemma terminate_live3 s id a : find_app s id = Some a -> is_terminal (ap_state a) = false -> terminate_if_done s id = s.
Proof. intros E T. unfold terminate_if_done. rewrite E, T. reflexivity. Qed.
Lemma sub_delta_spec r p : wf r -> wf p -> rb r -> rb p -> rnonneg r -> rnonneg p ->
  wf (Sub (Some r) (Some p)) /\ rb (Sub (Some r) (Some p)) /\ forall k, getz (Sub (Some r) (Some p)) k = getz r k - getz p k.
Proof. intros Wr Wp Br Bp Nr Np. assert (D : forall k, getz (Sub (Some r) (Some p)) k = getz r k - getz p k) by (intros k; apply Sub_exact; assumption).
  split; [apply Sub_wf; exact Wr|]. split; [|exact D]. intros k. rewrite D.
  pose proof (rnonneg_fnonneg _ Nr k). pose proof (rnonneg_fnonneg _ Np k). specialize (Br k). specialize (Bp k). unfold bnd in *. lia. Qed.

(* ================================================================== hypotheses common to both cases *)
Section ConfirmNode.
  Variables (s : ostate) (a : oapp) (x real0 : oalloc) (ttype : N) (n : onode).
  Hypothesis HI2 : InvG2 s.
  Hypothesis HB : BooksG s.
  Hypothesis HBd : Bounded3 s.
  Hypothesis Ha : In a (s_apps s).
  Hypothesis Hx : In x (ap_allocs a).
  Hypothesis Xph : oa_ph x = true.
  Hypothesis Xl : oa_release x <> 0%N.
  Hypothesis Hr : In real0 (ap_requests a).
  Hypothesis Rk : oa_key real0 = oa_release x.
  Hypothesis Rph : oa_ph real0 = false.
  Hypothesis Ral : oa_allocated real0 = true.
  Hypothesis T : is_terminal (ap_state (app_remove_alloc a x ttype)) = false.
  Hypothesis Hn : In n (s_nodes s).
  Hypothesis En : on_id n = oa_node x.

  Let HI := ig2_inv s HI2.
  Let W := ig_app_wf s HI a Ha.
  Let real := oa_set_link real0 0.
  Let b := confirm_app a x ttype real0.
  Let total := conf_total (oa_res real0) (oa_res x).
  Let key := oa_key x.
  Let s1 := upd_app s (ap_id a) (fun _ => b).

  Lemma cn_pair : oa_release real0 = oa_key x /\ (forall k, getz (oa_res real0) k <= getz (oa_res x) k) /\
    (oa_node real0 = oa_node x -> forall m y, In m (s_nodes s) -> In y (on_allocs m) -> oa_key y <> oa_key real0) /\
    (oa_node real0 <> oa_node x -> exists m, In m (s_nodes s) /\ on_id m = oa_node real0 /\ In real0 (on_allocs m)).
  Proof. apply (cf_pair s a x real0 HI2 Ha Hx Xph Xl Hr Rk Rph Ral). Qed.
  Lemma cn_x_on_n : In x (on_allocs n).
  Proof. apply (unbind_x_on_n s a n HI Ha Hn x Hx). symmetry. exact En. Qed.
  Lemma cn_find_x : find_alloc (on_allocs n) key = Some x.
  Proof. apply (g_find_node_alloc_in s n x HI Hn cn_x_on_n). Qed.
  Lemma cn_key_x m y : In m (s_nodes s) -> In y (on_allocs m) -> oa_key y = oa_key x -> y = x /\ m = n.
  Proof. intros Hm Hy E. apply (g_record_one_node s m n y x HI Hm Hn Hy cn_x_on_n E). Qed.
  Lemma cn_x_res : wf (oa_res x) /\ rnonneg (oa_res x) /\ rb (oa_res x).
  Proof. destruct (cf_x_ok s a x HI2 Ha Hx) as [H1 H2 _ _ _]. split; [exact H1|]. split; [exact H2|]. apply (cf_x_rb s a x HBd Ha Hx). Qed.
  Lemma cn_real_res : wf (oa_res real0) /\ rnonneg (oa_res real0) /\ rb (oa_res real0).
  Proof. destruct (cf_real_ok s a real0 HI2 Ha Hr) as [H1 H2 _ _ _]. split; [exact H1|]. split; [exact H2|]. apply (cf_real_rb s a real0 HBd Ha Hr). Qed.
  Lemma cn_n_rb : rb (on_allocated n). Proof. apply (bd_nodes s (b3_base s HBd) n Hn). Qed.
  Lemma cn_ninfl_x : ninfl x = true. Proof. apply (alloc_ninfl a x W Hx). Qed.
  Lemma cn_ninfl_real : ninfl real = true. Proof. unfold ninfl, infl. cbn [real oa_set_link oa_release]. rewrite N.eqb_refl, andb_false_r. reflexivity. Qed.
  Lemma cn_total_wf : wf total /\ dominated s (ap_queue a) total.
  Proof. split; [apply (cf_total s a x real0 HI2 HBd Ha Hx Xph Xl Hr Rk Rph Ral)|apply (cf_dominated s a x real0 ttype HI2 HB HBd Ha Hx Xph Xl Hr Rk Rph Ral T)]. Qed.

  (* ================================================================ same node: Node.ReplaceAllocation *)
  Section Same.
    Variable n' : onode.
    Hypothesis Esame : oa_node real0 = oa_node x.
    Hypothesis Hrep : n_replace n key real (Sub (Some (oa_res real)) (Some (oa_res x))) = Some n'.
    Let s2 := upd_node s1 (on_id n) (fun _ => n').
    Let s3 := if StrictlyGreaterThanZero (Some total) then q_dec s2 (ap_queue a) total else s2.
    Let s4 := add_counts s3 0 (-1).
    Let delta := Sub (Some (oa_res real0)) (Some (oa_res x)).

    Lemma cs_n' : n' = n_with n (on_occupied n) (addTo (on_allocated n) delta) (Prune (subFrom (on_available n) delta))
                               (put_alloc real (del_alloc key (on_allocs n))) (on_foreign n).
    Proof. unfold n_replace in Hrep. rewrite cn_find_x in Hrep. inversion Hrep. reflexivity. Qed.
    Lemma cs_nid : on_id n' = on_id n. Proof. rewrite cs_n'. reflexivity. Qed.
    Lemma cs_allocs : on_allocs n' = put_alloc real (del_alloc (oa_key x) (on_allocs n)). Proof. rewrite cs_n'. reflexivity. Qed.
    Lemma cs_fresh : ~ In (oa_key real) (akeys (on_allocs n)).
    Proof. destruct cn_pair as (_ & _ & Q3 & _). intros C. unfold akeys in C. apply in_map_iff in C. destruct C as (y & E & Hy). apply (Q3 Esame n y Hn Hy E). Qed.
    Lemma cs_ledger : wf (on_allocated n') /\ forall k, getz (on_allocated n') k = getz (on_allocated n) k + getz (oa_res real0) k - getz (oa_res x) k.
    Proof. destruct cn_x_res as (W1 & N1 & B1). destruct cn_real_res as (W2 & N2 & B2).
      destruct (sub_delta_spec _ _ W2 W1 B2 B1 N2 N1) as (Wd & Bd & Gd). fold delta in Wd, Bd, Gd. rewrite cs_n'. cbn [n_with on_allocated]. split.
      - apply addTo_wf, (k3_wf n (ig_nodes s HI n Hn)).
      - intros k. rewrite addTo_getz, Gd; [lia|exact Wd|apply cn_n_rb|exact Bd]. Qed.
    Lemma cs_nodes : s_nodes s4 = updk on_id (s_nodes s) (on_id n) (fun _ => n').
    Proof. unfold s4. cbn [add_counts s_nodes]. unfold s3. rewrite (sq_nodes _ _ (conf_tail_same s2 (ap_queue a) total)). reflexivity. Qed.
    Lemma cs_apps : s_apps s4 = updk ap_id (s_apps s) (ap_id a) (fun _ => b).
    Proof. unfold s4. cbn [add_counts s_apps]. unfold s3. rewrite (sq_apps _ _ (conf_tail_same s2 (ap_queue a) total)). reflexivity. Qed.
    Lemma cs_foreign : s_foreign s4 = s_foreign s.
    Proof. unfold s4. cbn [add_counts s_foreign]. unfold s3. rewrite (sq_foreign _ _ (conf_tail_same s2 (ap_queue a) total)). reflexivity. Qed.
    Lemma cs_count : s_nallocs s4 = s_nallocs s.
    Proof. unfold s4. cbn [add_counts s_nallocs]. unfold s3. rewrite (sq_nallocs _ _ (conf_tail_same s2 (ap_queue a) total)). cbn. lia. Qed.
    Lemma cs_queues : s_queues s4 = path_map s (ap_queue a) (conf_F total).
    Proof. unfold s4. cbn [add_counts s_queues]. unfold s3. destruct cn_total_wf as [Wt Hd]. apply (conf_queues s s2 (ap_queue a) total eq_refl Wt Hd). Qed.
    Lemma cs_node_ok : NodeOK3 n'.
    Proof. destruct (ig_nodes s HI n Hn) as [K1 K2 K3 K4]. destruct cs_ledger as [Wl Gl]. constructor.
      - rewrite cs_allocs. apply akeys_put_nodup, akeys_del_nodup. exact K1.
      - intros y Hy. rewrite cs_allocs in Hy. apply in_put_alloc in Hy. rewrite cs_nid. destruct Hy as [->|[Hy _]].
        + cbn [real oa_set_link oa_node]. rewrite Esame. symmetry. exact En.
        + apply in_del_alloc in Hy. apply K2. tauto.
      - intros k. rewrite Gl, cs_allocs, asum_put by (apply akeys_del_nodup; exact K1).
        assert (E : find_alloc (del_alloc (oa_key x) (on_allocs n)) (oa_key real) = None).
        { apply find_alloc_none. intros C. apply akeys_del in C. apply cs_fresh. tauto. }
        rewrite E, asum_del, K3 by exact K1. fold key. rewrite cn_find_x. cbn [real oa_set_link oa_res]. lia.
      - exact Wl. Qed.

    Theorem confirm_same_core : ConfPost s4 (ap_id a) (oa_key x) b.
    Proof. pose proof cs_nodes as Enodes. pose proof cs_nid as Enid. destruct cn_pair as (_ & Hle & Q3 & _).
      apply (confirm_core_full s s4 a x real0 ttype HI2 HB HBd Ha Hx Xph Xl Hr Rk Rph Ral T cs_apps cs_queues cs_foreign cs_count).
      - apply (g_node_ids' s s4 n n' HI Enodes Enid).
      - apply (g_nodes_ok' s s4 n n' HI Hn Enodes cs_node_ok).
      - intros k. rewrite (ninfl_replace s s4 n n' HI Hn Enodes Enid x real k cn_x_on_n cs_allocs cs_fresh), cn_ninfl_x, cn_ninfl_real.
        cbn [real oa_set_link oa_res]. lia.
      - intros m' y' Hm' Hy'. apply (g_in_nodes' s s4 n n' HI Hn Enodes) in Hm'. destruct Hm' as [->|[Hm' Hne]].
        + rewrite cs_allocs in Hy'. apply in_put_alloc in Hy'. destruct Hy' as [->|[Hy' _]]; [left; reflexivity|right]. apply in_del_alloc in Hy'.
          exists n. split; [exact Hn|]. split; [tauto|]. split; [tauto|]. apply (Q3 Esame n y' Hn). tauto.
        + right. exists m'. split; [exact Hm'|]. split; [exact Hy'|]. split; [|apply (Q3 Esame m' y' Hm' Hy')].
          intros C. destruct (cn_key_x m' y' Hm' Hy' C) as [_ ->]. contradiction.
      - exists n'. split; [apply (g_in_nodes' s s4 n n' HI Hn Enodes); auto|]. split; [rewrite Enid, En; symmetry; exact Esame|].
        rewrite cs_allocs. apply in_put_alloc. auto.
      - intros m y Hm Hy K1 K2. apply (g_record_kept s s4 n n' HI Hn Enodes Enid m y Hm Hy). intros ->. rewrite cs_allocs. apply in_put_alloc. right.
        split; [apply in_del_alloc; auto|exact K2].
      - intros m' Hm'. apply (g_in_nodes' s s4 n n' HI Hn Enodes) in Hm'. destruct Hm' as [->|[Hm' _]]; [|exists m'; split; [exact Hm'|intros; lia]].
        exists n. split; [exact Hn|]. intros k. destruct cs_ledger as [_ Gl]. rewrite Gl. specialize (Hle k). lia. Qed.
  End Same.

  (* ================================================================ other node: Node.RemoveAllocation + the link of the node copy *)
  Section Cross.
    Hypothesis Ecross : oa_node real0 <> oa_node x.
    Hypothesis Kx : oa_key x <> 0%N.
    Let f0 := fun y : oalloc => oa_set_link y 0%N.
    Let h := hk (ap_id a) (oa_key real0) f0.
    Let n_rm := n_remove n key.
    Let s2 := obj_upd (upd_node s1 (on_id n) (fun _ => n_rm)) (ap_id a) (oa_key real) f0.
    Let s3 := if StrictlyGreaterThanZero (Some total) then q_dec s2 (ap_queue a) total else s2.
    Let s4 := add_counts s3 0 (-1).

    Lemma cx_n_rm : n_rm = n_with n (on_occupied n) (Prune (subFrom (on_allocated n) (oa_res x))) (addTo (on_available n) (oa_res x))
                                  (del_alloc key (on_allocs n)) (on_foreign n).
    Proof. unfold n_rm, n_remove. rewrite cn_find_x. reflexivity. Qed.
    Lemma cx_h_key y : oa_key (h y) = oa_key y. Proof. unfold h, hk. destruct (_ && _); reflexivity. Qed.
    Lemma cx_h_node y : oa_node (h y) = oa_node y. Proof. unfold h, hk. destruct (_ && _); reflexivity. Qed.
    Lemma cx_h_res y : oa_res (h y) = oa_res y. Proof. unfold h, hk. destruct (_ && _); reflexivity. Qed.

    (* the node that lists the in-flight real allocation *)
    Section WithM.
      Variable m : onode.
      Hypothesis Hm : In m (s_nodes s).
      Hypothesis Em : on_id m = oa_node real0.
      Hypothesis Hrm : In real0 (on_allocs m).
      Let m_fl := rmap_node h m.
      Lemma cx_mn : on_id m <> on_id n. Proof. rewrite Em, En. exact Ecross. Qed.
      Lemma cx_key_real m0 y : In m0 (s_nodes s) -> In y (on_allocs m0) -> oa_key y = oa_key real0 -> y = real0 /\ m0 = m.
      Proof. intros Hm0 Hy E. apply (g_record_one_node s m0 m y real0 HI Hm0 Hm Hy Hrm E). Qed.
      Lemma cx_h_rec m0 y : In m0 (s_nodes s) -> In y (on_allocs m0) -> (h y = y /\ oa_key y <> oa_key real0) \/ (y = real0 /\ m0 = m /\ h y = real).
      Proof. intros Hm0 Hy. unfold h, hk. destruct (N.eqb_spec (oa_key y) (oa_key real0)) as [E|E]; [|left; auto].
        destruct (cx_key_real m0 y Hm0 Hy E) as [-> ->]. right. split; [reflexivity|]. split; [reflexivity|].
        rewrite (a3_app _ _ (cf_real_ok s a real0 HI2 Ha Hr)), N.eqb_refl. reflexivity. Qed.
      Lemma cx_rmap_same m0 : In m0 (s_nodes s) -> m0 <> m -> rmap_node h m0 = m0.
      Proof. intros Hm0 Hne. unfold rmap_node. rewrite map_id_in; [apply n_with_same|]. intros y Hy.
        destruct (cx_h_rec m0 y Hm0 Hy) as [[E _]|(_ & C & _)]; [exact E|contradiction]. Qed.
      Lemma cx_rmap_nrm : rmap_node h n_rm = n_rm.
      Proof. unfold rmap_node. rewrite map_id_in; [apply n_with_same|]. intros y Hy. rewrite cx_n_rm in Hy. cbn [n_with on_allocs] in Hy.
        apply in_del_alloc in Hy. destruct (cx_h_rec n y Hn (proj1 Hy)) as [[E _]|(_ & C & _)]; [exact E|]. exfalso. apply cx_mn. rewrite C. reflexivity. Qed.
      Lemma cx_nrm_id : on_id n_rm = on_id n. Proof. rewrite cx_n_rm. reflexivity. Qed.

      Let L1 := updk on_id (s_nodes s) (on_id n) (fun _ => n_rm).
      Lemma cx_nodes2 : s_nodes s2 = updk on_id L1 (on_id m) (fun _ => m_fl).
      Proof. change (s_nodes s2) with (map (rmap_node h) L1). unfold L1, updk. rewrite !map_map. apply map_ext_in. intros m0 Hm0.
        destruct (N.eqb_spec (on_id m0) (on_id n)) as [E|E].
        - rewrite cx_nrm_id. destruct (N.eqb_spec (on_id n) (on_id m)) as [C|_]; [exfalso; apply cx_mn; symmetry; exact C|]. apply cx_rmap_nrm.
        - destruct (N.eqb_spec (on_id m0) (on_id m)) as [E'|E'].
          + assert (m0 = m) by (apply (g_same_node s m m0 HI Hm Hm0 E')). subst m0. reflexivity.
          + apply cx_rmap_same; [exact Hm0|]. intros ->. apply E'. reflexivity. Qed.
      Lemma cx_L1_ids : map on_id L1 = map on_id (s_nodes s).
      Proof. unfold L1. apply updk_keys. intros m0 E. rewrite cx_nrm_id. symmetry. exact E. Qed.
      Lemma cx_L1_nodup : NoDup (map on_id L1). Proof. rewrite cx_L1_ids. apply (ig_node_ids s HI). Qed.
      Lemma cx_in_L1 m1 : In m1 L1 <-> m1 = n_rm \/ (In m1 (s_nodes s) /\ on_id m1 <> on_id n).
      Proof. unfold L1. apply (in_updk_const on_id); [apply (ig_node_ids s HI)|exact Hn]. Qed.
      Lemma cx_m_L1 : In m L1. Proof. apply cx_in_L1. right. split; [exact Hm|apply cx_mn]. Qed.
      Lemma cx_in_nodes2 m2 : In m2 (s_nodes s2) <-> m2 = m_fl \/ m2 = n_rm \/ (In m2 (s_nodes s) /\ on_id m2 <> on_id n /\ on_id m2 <> on_id m).
      Proof. rewrite cx_nodes2, (in_updk_const on_id L1 m m_fl m2 cx_L1_nodup cx_m_L1), cx_in_L1. split.
        - intros [H|[[H|[H1 H2]] H3]]; [auto|auto|right; right; auto].
        - intros [H|[H|(H1 & H2 & H3)]]; [auto| |right; split; [right; auto|exact H3]].
          right. split; [left; exact H|]. rewrite H, cx_nrm_id. intros C. apply cx_mn. symmetry. exact C. Qed.

      Lemma cx_nodes4 : s_nodes s4 = s_nodes s2.
      Proof. unfold s4. cbn [add_counts s_nodes]. unfold s3. apply (sq_nodes _ _ (conf_tail_same s2 (ap_queue a) total)). Qed.
      Lemma cx_apps : s_apps s4 = updk ap_id (s_apps s) (ap_id a) (fun _ => b).
      Proof. unfold s4. cbn [add_counts s_apps]. unfold s3. rewrite (sq_apps _ _ (conf_tail_same s2 (ap_queue a) total)).
        unfold s2. rewrite Model3ProofsG3.obj_upd_apps. change (s_apps (upd_node s1 (on_id n) (fun _ => n_rm))) with (updk ap_id (s_apps s) (ap_id a) (fun _ => b)).
        rewrite (updk_const_then ap_id (s_apps s) (ap_id a) b) by (apply confirm_id).
        change (updk ap_id (s_apps s) (ap_id a) (fun _ => flag_app b (oa_key real0) (fun y => oa_set_link y 0%N)) = updk ap_id (s_apps s) (ap_id a) (fun _ => b)).
        unfold b. rewrite confirm_relink. reflexivity. Qed.

      Lemma cx_foreign : s_foreign s4 = s_foreign s.
      Proof. unfold s4. cbn [add_counts s_foreign]. unfold s3. rewrite (sq_foreign _ _ (conf_tail_same s2 (ap_queue a) total)). reflexivity. Qed.
      Lemma cx_count : s_nallocs s4 = s_nallocs s.
      Proof. unfold s4. cbn [add_counts s_nallocs]. unfold s3. rewrite (sq_nallocs _ _ (conf_tail_same s2 (ap_queue a) total)). cbn. lia. Qed.
      Lemma cx_queues : s_queues s4 = path_map s (ap_queue a) (conf_F total).
      Proof. unfold s4. cbn [add_counts s_queues]. unfold s3. destruct cn_total_wf as [Wt Hd]. apply (conf_queues s s2 (ap_queue a) total eq_refl Wt Hd). Qed.

      Lemma cx_nrm_allocs : on_allocs n_rm = del_alloc key (on_allocs n). Proof. rewrite cx_n_rm. reflexivity. Qed.
      Lemma cx_nrm_ledger : wf (on_allocated n_rm) /\ forall k, getz (on_allocated n_rm) k = getz (on_allocated n) k - getz (oa_res x) k.
      Proof. destruct cn_x_res as (W1 & N1 & B1). pose proof (k3_wf n (ig_nodes s HI n Hn)) as Wn. rewrite cx_n_rm. cbn [n_with on_allocated]. split.
        - apply Prune_wf, subFrom_wf. exact Wn.
        - intros k. rewrite Prune_getz by (apply subFrom_wf; exact Wn). apply subFrom_getz; [exact W1|apply cn_n_rb|exact B1]. Qed.
      Lemma cx_nrm_ok : NodeOK3 n_rm.
      Proof. destruct cx_nrm_ledger as [Wl Gl]. apply (nodeok3_del n n_rm key (ig_nodes s HI n Hn) cx_nrm_id cx_nrm_allocs Wl).
        intros k. rewrite Gl, cn_find_x. reflexivity. Qed.
      Lemma cx_mfl_ok : NodeOK3 m_fl.
      Proof. apply (nodeok3_rmap h m cx_h_key cx_h_node cx_h_res (ig_nodes s HI m Hm)). Qed.
      Lemma cx_nodes_ok m2 : In m2 (s_nodes s2) -> NodeOK3 m2.
      Proof. intros H. apply cx_in_nodes2 in H. destruct H as [->|[->|(H & _)]]; [apply cx_mfl_ok|apply cx_nrm_ok|apply (ig_nodes s HI m2 H)]. Qed.
      Lemma cx_nid : NoDup (map on_id (s_nodes s2)).
      Proof. rewrite cx_nodes2, updk_keys; [apply cx_L1_nodup|]. intros m0 E. rewrite E. reflexivity. Qed.
      Lemma cx_mfl_allocs : on_allocs m_fl = map_key (oa_key real0) f0 (on_allocs m).
      Proof. unfold m_fl, rmap_node. cbn [n_with on_allocs]. unfold map_key. apply map_ext_in. intros y Hy. unfold h, hk.
        destruct (N.eqb_spec (oa_key y) (oa_key real0)) as [E|E]; [|reflexivity]. destruct (cx_key_real m y Hm Hy E) as [-> _].
        rewrite (a3_app _ _ (cf_real_ok s a real0 HI2 Ha Hr)), N.eqb_refl. reflexivity. Qed.
      Lemma cx_infl_real0 : infl real0 = true.
      Proof. destruct cn_pair as (Q1 & _). unfold infl. rewrite Rph, Q1. destruct (N.eqb_spec (oa_key x) 0); [contradiction|reflexivity]. Qed.
      Lemma cx_sum k : asum (filter ninfl (node_records s2)) k = asum (filter ninfl (node_records s)) k + (getz (oa_res real0) k - getz (oa_res x) k).
      Proof. unfold node_records. rewrite cx_nodes2, (flat_map_sum_updk ninfl L1 m m_fl k cx_L1_nodup cx_m_L1). unfold L1.
        rewrite (flat_map_sum_updk ninfl (s_nodes s) n n_rm k (ig_node_ids s HI) Hn).
        rewrite cx_mfl_allocs, (asum_filter_map_key_one ninfl (oa_key real0) f0 (on_allocs m) real0 k (k3_keys m (ig_nodes s HI m Hm)) Hrm eq_refl).
        rewrite cx_nrm_allocs. unfold key. rewrite (asum_filter_del_in ninfl (on_allocs n) x k (k3_keys n (ig_nodes s HI n Hn)) cn_x_on_n).
        rewrite cn_ninfl_x. change (f0 real0) with real. rewrite cn_ninfl_real. assert (E : ninfl real0 = false) by (unfold ninfl; rewrite cx_infl_real0; reflexivity). rewrite E. cbn [real oa_set_link oa_res]. lia. Qed.

      Theorem confirm_cross_core_m : ConfPost s4 (ap_id a) (oa_key x) b.
      Proof. pose proof cx_nodes4 as E4.
        apply (confirm_core_full s s4 a x real0 ttype HI2 HB HBd Ha Hx Xph Xl Hr Rk Rph Ral T cx_apps cx_queues cx_foreign cx_count).
        - rewrite E4. apply cx_nid.
        - rewrite E4. apply cx_nodes_ok.
        - intros k. change (node_records s4) with (flat_map on_allocs (s_nodes s4)). rewrite E4. apply cx_sum.
        - intros m2 y' Hm2 Hy'. rewrite E4 in Hm2. apply cx_in_nodes2 in Hm2. destruct Hm2 as [->|[->|(Hm2 & D1 & D2)]].
          + cbn [m_fl rmap_node n_with on_allocs] in Hy'. apply in_map_iff in Hy'. destruct Hy' as (y & <- & Hy).
            destruct (cx_h_rec m y Hm Hy) as [[E K]|(_ & _ & E)]; [|left; exact E]. rewrite E. right. exists m. split; [exact Hm|]. split; [exact Hy|]. split; [|exact K].
            intros C. destruct (cn_key_x m y Hm Hy C) as [_ C']. apply cx_mn. rewrite C'. reflexivity.
          + rewrite cx_nrm_allocs in Hy'. apply in_del_alloc in Hy'. destruct Hy' as [Hy' K]. right. exists n. split; [exact Hn|]. split; [exact Hy'|]. split; [exact K|].
            intros C. destruct (cx_key_real n y' Hn Hy' C) as [_ C']. apply cx_mn. rewrite C'. reflexivity.
          + right. exists m2. split; [exact Hm2|]. split; [exact Hy'|]. split; intros C.
            * destruct (cn_key_x m2 y' Hm2 Hy' C) as [_ C']. apply D1. rewrite C'. reflexivity.
            * destruct (cx_key_real m2 y' Hm2 Hy' C) as [_ C']. apply D2. rewrite C'. reflexivity.
        - exists m_fl. split; [rewrite E4; apply cx_in_nodes2; auto|]. split; [exact Em|]. cbn [m_fl rmap_node n_with on_allocs]. apply in_map_iff. exists real0. split; [|exact Hrm].
          destruct (cx_h_rec m real0 Hm Hrm) as [[_ C]|(_ & _ & E)]; [contradiction|exact E].
        - intros m0 y Hm0 Hy K1 K2. rewrite E4. destruct (N.eq_dec (on_id m0) (on_id n)) as [D1|D1].
          + assert (m0 = n) by (apply (g_same_node s n m0 HI Hn Hm0 D1)). subst m0. exists n_rm. split; [apply cx_in_nodes2; auto|]. split; [apply cx_nrm_id|].
            rewrite cx_nrm_allocs. apply in_del_alloc. auto.
          + destruct (N.eq_dec (on_id m0) (on_id m)) as [D2|D2].
            * assert (m0 = m) by (apply (g_same_node s m m0 HI Hm Hm0 D2)). subst m0. exists m_fl. split; [apply cx_in_nodes2; auto|]. split; [reflexivity|].
              cbn [m_fl rmap_node n_with on_allocs]. destruct (cx_h_rec m y Hm Hy) as [[E _]|(C & _)]; [|subst y; contradiction]. rewrite <- E. apply in_map. exact Hy.
            * exists m0. split; [apply cx_in_nodes2; right; right; auto|]. auto.
        - intros m2 Hm2. rewrite E4 in Hm2. apply cx_in_nodes2 in Hm2. destruct Hm2 as [->|[->|(Hm2 & _)]].
          + exists m. split; [exact Hm|]. intros k. cbn. lia.
          + exists n. split; [exact Hn|]. intros k. destruct cx_nrm_ledger as [_ Gl]. rewrite Gl. destruct cn_x_res as (_ & N1 & _). pose proof (rnonneg_fnonneg _ N1 k). lia.
          + exists m2. split; [exact Hm2|]. intros k. lia. Qed.
    End WithM.
  End Cross.
End ConfirmNode.

(* ================================================================== the tail: RemoveAllocationAsk(placeholder key), moveTerminatedApp *)
Lemma confirm_tail s4 id key b s' : ConfPost s4 id key b ->
  match app_remove_ask s4 id key with Some s5 => Some (terminate_if_done s5 id) | None => None end = Some s' ->
  InvG2 s' /\ BooksG s' /\ Bounded3 s'.
Proof. intros ((HI4 & HB4 & HBd4) & Eb & Tb & Hno) H.
  destruct (app_remove_ask s4 id key) as [s5|] eqn:E5; [|discriminate]. inversion H; subst s'; clear H.
  assert (R : InvG2 s5 /\ BooksG s5 /\ Bounded3 s5).
  { apply (app_remove_ask_step2 s4 id key s5 HI4 HB4 HBd4); [|exact E5]. intros a0 r m _ _ Ek _ _ Hm C. apply (Hno m r Hm C Ek). }
  assert (L : exists b5, find_app s5 id = Some b5 /\ is_terminal (ap_state b5) = false).
  { rewrite Model3ProofsA3.app_remove_ask_eq, Eb in E5. destruct (negb (no_res b)); [discriminate|].
    destruct (ap_requests b) as [|r0 t]; [inversion E5; subst s5; exists b; auto|]. inversion E5 as [E]; clear E5.
    destruct (find_app_some s4 id b Eb) as [Hb Eid]. subst id. exists (asks_state_check (remove_ask_rec b key)). split.
    - apply (g_find_app' s4 _ b (asks_state_check (remove_ask_rec b key)) (ig2_inv s4 HI4) Hb).
      + change (s_apps (upd_app (q_dec_pending (upd_app s4 (ap_id b) (fun _ => remove_ask_rec b key)) (ap_queue b) (remove_ask_delta b key)) (ap_id b) asks_state_check))
          with (updk ap_id (updk ap_id (s_apps s4) (ap_id b) (fun _ => remove_ask_rec b key)) (ap_id b) asks_state_check).
        apply updk_const_then. apply remove_ask_id.
      + destruct (state_check_ok (remove_ask_rec b key)) as (_ & _ & _ & -> & _). apply remove_ask_id.
    - destruct (state_check_ok (remove_ask_rec b key)) as (_ & _ & _ & _ & _ & ->). rewrite remove_ask_state. exact Tb. }
  destruct L as (b5 & E & Tl). rewrite (terminate_live3 s5 id b5 E Tl). exact R. Qed.

(* ================================================================== the confirmation branch of g_release *)
(* [a], [x]: the application and the listed allocation the release addresses; the third hypothesis is [confirm = true].
   Side hypothesis T: the removal of the placeholder does not terminate the application (Failing -> Failed; Completing ->
   Completed with the state timer cleared or nothing else held).  Otherwise the real allocation is added to an application
   that leaves the live list (known finding "terminated with allocations"; [known_trigger] sees it only on the observed
   post-state, triggers 3 / 4). *)
Theorem g_release_confirm_step s app key ttype s' a x : InvG2 s -> BooksG s -> Bounded3 s ->
  find_app s app = Some a -> find_alloc (ap_allocs a) key = Some x ->
  ((ttype =? TT_PlaceholderReplaced)%N && negb (oa_release x =? 0)%N = true) ->
  is_terminal (ap_state (app_remove_alloc a x ttype)) = false ->
  g_release s app key ttype = Some s' -> InvG2 s' /\ BooksG s' /\ Bounded3 s'.
Proof. intros HI2 HB HBd Ea Ex Hc T. unfold g_release. rewrite Ea.
  destruct ((key =? 0)%N || negb (no_res a)) eqn:G0; [discriminate|]. rewrite Ex. destruct (oa_preempted x); [discriminate|]. cbv zeta. rewrite Hc.
  destruct (negb (oa_ph x) && negb (oa_release x =? 0)%N) eqn:G1; [discriminate|].
  destruct (find_node s (oa_node x)) as [n|] eqn:En; [|discriminate].
  destruct (find_alloc (ap_requests a) (oa_release x)) as [real0|] eqn:Er; [|discriminate].
  destruct (oa_ph real0 || negb (oa_allocated real0)) eqn:G2; [discriminate|].
  destruct (find_app_some s app a Ea) as [Ha Eid]. destruct (find_alloc_some _ _ _ Ex) as [Hx Ekx]. destruct (find_alloc_some _ _ _ Er) as [Hr Rk].
  destruct (find_node_some s _ n En) as [Hn Enid].
  apply orb_false_iff in G0. destruct G0 as [K0 _]. apply N.eqb_neq in K0.
  apply andb_true_iff in Hc. destruct Hc as [_ Xl]. apply negb_true_iff in Xl. rewrite Xl in G1. rewrite andb_true_r in G1. apply negb_false_iff in G1. apply N.eqb_neq in Xl.
  apply orb_false_iff in G2. destruct G2 as [Rph Ral]. apply negb_false_iff in Ral.
  subst app key.
  destruct (oa_node (oa_set_link real0 0) =? oa_node x)%N eqn:Enode.
  - apply N.eqb_eq in Enode. destruct (n_replace n (oa_key x) _ _) as [n'|] eqn:Erep; [|discriminate]. intros H.
    refine (confirm_tail _ _ _ _ _ (confirm_same_core s a x real0 ttype n HI2 HB HBd Ha Hx G1 Xl Hr Rk Rph Ral T Hn Enid n' Enode Erep) H).
  - apply N.eqb_neq in Enode. intros H.
    destruct (cf_pair s a x real0 HI2 Ha Hx G1 Xl Hr Rk Rph Ral) as (_ & _ & _ & Q4). destruct (Q4 Enode) as (m & Hm & Em & Hrm).
    refine (confirm_tail _ _ _ _ _ (confirm_cross_core_m s a x real0 ttype n HI2 HB HBd Ha Hx G1 Xl Hr Rk Rph Ral T Hn Enid Enode K0 m Hm Em Hrm) H). Qed.

(* ------------------------------------------------------------------ executable form of the side hypothesis, and the theorem with it *)
Definition confirm_ok_b (s : ostate) (app key ttype : N) : bool :=
  match find_app s app with
  | Some a => match find_alloc (ap_allocs a) key with
              | Some x => negb ((ttype =? TT_PlaceholderReplaced)%N && negb (oa_release x =? 0)%N) ||
                          negb (is_terminal (ap_state (app_remove_alloc a x ttype)))
              | None => true end
  | None => true
  end.
Corollary g_release_confirm_step_b s app key ttype s' a x : InvG2 s -> BooksG s -> Bounded3 s ->
  find_app s app = Some a -> find_alloc (ap_allocs a) key = Some x ->
  ((ttype =? TT_PlaceholderReplaced)%N && negb (oa_release x =? 0)%N = true) ->
  confirm_ok_b s app key ttype = true ->
  g_release s app key ttype = Some s' -> InvG2 s' /\ BooksG s' /\ Bounded3 s'.
Proof. intros HI2 HB HBd Ea Ex Hc Hok. apply (g_release_confirm_step s app key ttype s' a x HI2 HB HBd Ea Ex Hc).
  unfold confirm_ok_b in Hok. rewrite Ea, Ex, Hc in Hok. cbn [negb orb] in Hok. apply negb_true_iff in Hok. exact Hok. Qed.

(* ================================================================== SwapOK survives the cancellations that precede the replacement in
   one scheduling cycle ([g_sched]: [g_cancel_all], flag-only), so it may be checked on the pre-state of the step *)
Lemma find_map_pres {A} (key : A -> N) (g : A -> A) (l : list A) id : (forall y, key (g y) = key y) ->
  find (fun y => (key y =? id)%N) (map g l) = option_map g (find (fun y => (key y =? id)%N) l).
Proof. intros Hk. induction l as [|y t IH]; [reflexivity|]. cbn [map find]. rewrite Hk. destruct (key y =? id)%N; [reflexivity|exact IH]. Qed.
Lemma swap_ok_rmap s h obs app phk : FlagOnly h -> SwapOK s obs app phk -> SwapOK (rmap h s) obs app phk.
Proof. intros [F1 F2 F3 F4 F5 F6 F7 F8] [Hnz H]. split; [exact Hnz|]. intros a1 a' ph1 ph' Ea1 Ea' Eph1 Eph'.
  unfold find_app in Ea1. rewrite rmap_apps, (find_map_pres ap_id (rmap_app h) (s_apps s) app) in Ea1 by reflexivity.
  destruct (find (fun y => (ap_id y =? app)%N) (s_apps s)) as [a|] eqn:Ea; [|discriminate]. cbn [option_map] in Ea1. inversion Ea1; subst a1; clear Ea1.
  cbn [rmap_app ap_set_lists ap_with ap_allocs ap_requests] in Eph1 |- *.
  unfold find_alloc in Eph1. rewrite (find_map_pres oa_key h (ap_allocs a) phk F1) in Eph1.
  destruct (find (fun y => (oa_key y =? phk)%N) (ap_allocs a)) as [ph|] eqn:Eph; [|discriminate]. cbn [option_map] in Eph1. inversion Eph1; subst ph1; clear Eph1.
  destruct (H a a' ph ph' Ea Ea' Eph Eph') as [H1 H2]. split.
  - intros r1 Hr1 Ek. apply in_map_iff in Hr1. destruct Hr1 as (r & <- & Hr). rewrite F7. apply (H1 r Hr). rewrite <- (F1 r), Ek. apply F8.
  - intros y1 Hy1 Yph Yl. apply in_map_iff in Hy1. destruct Hy1 as (y & <- & Hy). rewrite F5 in Yph. rewrite F8 in Yl |- *. apply (H2 y Hy Yph Yl). Qed.
Lemma swap_ok_cancel_all obs app phk l : forall s s1, InvG2 s -> BooksG s -> g_cancel_all s l = Some s1 ->
  SwapOK s obs app phk -> SwapOK s1 obs app phk.
Proof. induction l as [|[[k app'] t] l IH]; intros s s1 HI HB H Hok; cbn [g_cancel_all] in H; [inversion H; subst s1; exact Hok|].
  destruct (g_cancel_larger s app' k) as [s0|] eqn:E; [|discriminate]. destruct (g_cancel_larger_step2 s app' k s0 HI HB E) as [HI0 HB0].
  apply (IH s0 s1 HI0 HB0 H). unfold g_cancel_larger in E. destruct (find_app s app') as [a|]; [|discriminate].
  destruct (find_alloc (ap_allocs a) k) as [ph|]; [|discriminate]. destruct (_ && _); [|discriminate]. inversion E; subst s0.
  rewrite (obj_upd_rmapG s app' k _ (ig2_inv s HI)). apply swap_ok_rmap; [|exact Hok]. apply flag_only_hk, flag_only_released. Qed.
(* the replacement branch of one scheduling cycle: cancellations, then the start of the replacement *)
Corollary g_sched_swap_step deny s obs app phk l s1 s' : InvG2 s -> BooksG s -> Bounded3 s -> SwapOK s obs app phk ->
  g_cancel_all s l = Some s1 -> g_swap_start deny s1 obs app phk = Some s' -> InvG2 s' /\ BooksG s'.
Proof. intros HI HB HBd Hok E1 E2. destruct (g_cancel_all_step2 l s s1 HI HB E1) as [HI1 HB1].
  apply (g_swap_start_step deny s1 obs app phk s' HI1 HB1 (g_cancel_all_bounded3 l s s1 HI HB HBd E1) (swap_ok_cancel_all obs app phk l s s1 HI HB E1 Hok) E2). Qed.
