(* Component model of a configuration reload of a running partition (property C16), definitions only.
   Go sources: pkg/scheduler/partition.go (updatePartitionDetails, updateQueues), objects/queue.go (applyConf,
   setResources, mergeProperties, filterParentProperty, UpdateQueueProperties, MarkQueueForRemoval, RemoveQueue,
   IsEmpty), partition_manager.go (cleanQueues), objects/object_state.go, placement/placement.go (draining guard).

   What is modelled: the queue hierarchy as a tree of queue records [mq] (configuration part: leaf/managed/
   state/max/guaranteed/max applications/properties and the settings UpdateQueueProperties derives from the
   properties; ledger part: allocated, pending, preempting, running count, allocating set, reservations,
   application ids - carried along and never written by any function of this file).
   NOT modelled: ACLs, child templates, the quota preemption timer, durations (preemption.delay ...), ugm limits,
   placement rule replacement, node sort policy. Queue paths are interned numbers (the harness interns the
   lower-cased full path), strings (property keys and values) are lists of bytes.
   Sibling processing: the Go loop over the configured children is sequential with look-ups in the live tree;
   for configurations whose sibling names are distinct (guaranteed by validation, configvalidator.checkQueues)
   processing one configured child only touches that child's subtree, so the model maps over the configured
   children. *)
From Coq Require Import List ZArith NArith Bool.
From YK Require Import Base.Res Core.Obs.
Import ListNotations.
Open Scope N_scope.

(* ---- strings ---- *)
Definition str := list N.
Fixpoint str_eqb (a b : str) : bool :=
  match a, b with
  | [], [] => true
  | x :: s, y :: t => (x =? y) && str_eqb s t
  | _, _ => false
  end.
Definition lower_byte (c : N) : N := if (65 <=? c) && (c <=? 90) then c + 32 else c.
Definition lower (s : str) : str := map lower_byte s.   (* strings.ToLower on ASCII *)

Definition s_default : str := [100;101;102;97;117;108;116].
Definition s_fence : str := [102;101;110;99;101].
Definition s_disabled : str := [100;105;115;97;98;108;101;100].
Definition s_enabled : str := [101;110;97;98;108;101;100].
Definition s_fifo : str := [102;105;102;111].
Definition s_fair : str := [102;97;105;114].
Definition s_stateaware : str := [115;116;97;116;101;97;119;97;114;101].
Definition s_zero : str := [48].
Definition k_sort_policy : str := [97;112;112;108;105;99;97;116;105;111;110;46;115;111;114;116;46;112;111;108;105;99;121].
Definition k_sort_priority : str := [97;112;112;108;105;99;97;116;105;111;110;46;115;111;114;116;46;112;114;105;111;114;105;116;121].
Definition k_priority_policy : str := [112;114;105;111;114;105;116;121;46;112;111;108;105;99;121].
Definition k_priority_offset : str := [112;114;105;111;114;105;116;121;46;111;102;102;115;101;116].
Definition k_preemption_policy : str := [112;114;101;101;109;112;116;105;111;110;46;112;111;108;105;99;121].

Definition props := list (str * str).
Fixpoint plookup (k : str) (p : props) : option str :=
  match p with
  | [] => None
  | (k', v) :: t => if str_eqb k k' then Some v else plookup k t
  end.
Definition pkeys (p : props) : list str := map fst p.
Definition ostr_eqb (a b : option str) : bool :=
  match a, b with Some x, Some y => str_eqb x y | None, None => true | _, _ => false end.
(* equality as maps *)
Definition props_eqb (a b : props) : bool :=
  forallb (fun k => ostr_eqb (plookup k a) (plookup k b)) (pkeys a ++ pkeys b).

(* ---- the object state machine (object_state.go); hand-written 3x3 table, tied by correspondence ---- *)
Definition EV_Remove := 0. Definition EV_Start := 1. Definition EV_Stop := 2.
Definition fsm_event (ev st : N) : option N :=
  if ev =? EV_Remove then (if (st =? QS_Active) || (st =? QS_Draining) then Some QS_Draining else None)
  else if ev =? EV_Start then (if (st =? QS_Active) || (st =? QS_Stopped) || (st =? QS_Draining) then Some QS_Active else None)
  else if ev =? EV_Stop then (if (st =? QS_Active) || (st =? QS_Stopped) then Some QS_Stopped else None)
  else None.
(* handleQueueEvent: an event that is not allowed in the current state is logged and leaves the state *)
Definition q_event (ev st : N) : N := match fsm_event ev st with Some s => s | None => st end.

(* ---- queue records ---- *)
Definition SORT_fifo := 1. Definition SORT_fair := 2.
Definition PRE_default := 0. Definition PRE_fence := 1. Definition PRE_disabled := 2.

Record ledger := mkL {
  l_alloc : res; l_pending : res; l_preempting : res; l_running : N;
  l_allocating : list N; l_reserved : list (N * N); l_apps : list N }.
Definition empty_ledger : ledger := mkL [] [] [] 0 [] [] [].

Record derived := mkD { d_sort : N; d_priosort : bool; d_preempt : N; d_priopol : N; d_priooff : Z }.

Record mq := mkMQ {
  m_id : N; m_parent : N; m_leaf : bool; m_managed : bool; m_state : N;
  m_max : ores; m_guar : ores; m_maxapps : N; m_props : props;
  m_derived : derived;
  m_ledger : ledger }.

Inductive qtree := QT (q : mq) (kids : list qtree).
Definition troot (t : qtree) : mq := match t with QT q _ => q end.
Definition tkids (t : qtree) : list qtree := match t with QT _ k => k end.
Definition qid (t : qtree) : N := m_id (troot t).
Fixpoint flatten (t : qtree) : list mq := match t with QT q kids => q :: flat_map flatten kids end.
Definition find_kid (id : N) (kids : list qtree) : option qtree := find (fun k => qid k =? id) kids.

(* a queue of a configuration as loaded (after validation); resources already parsed (NewResourceFromConf) *)
Inductive conf_tree := CT (id : N) (parent : bool) (max guar : res) (maxapps : N) (cprops : props) (kids : list conf_tree).
Definition ct_id (c : conf_tree) : N := match c with CT id _ _ _ _ _ _ => id end.
Definition ct_parent (c : conf_tree) : bool := match c with CT _ p _ _ _ _ _ => p end.
Definition ct_max (c : conf_tree) : res := match c with CT _ _ m _ _ _ _ => m end.
Definition ct_guar (c : conf_tree) : res := match c with CT _ _ _ g _ _ _ => g end.
Definition ct_maxapps (c : conf_tree) : N := match c with CT _ _ _ _ a _ _ => a end.
Definition ct_props (c : conf_tree) : props := match c with CT _ _ _ _ _ p _ => p end.
Definition ct_kids (c : conf_tree) : list conf_tree := match c with CT _ _ _ _ _ _ k => k end.
(* applyConf: isLeaf = !conf.Parent, forced to false when the configuration lists children *)
Definition ct_leaf (c : conf_tree) : bool := match ct_kids c with [] => negb (ct_parent c) | _ => false end.

(* ---- queue.go ---- *)
(* setResources: a value that is not strictly greater than zero clears the setting (or leaves it nil) *)
Definition set_res (r : res) : ores := if StrictlyGreaterThanZero (Some r) then Some r else None.

(* filterParentProperty *)
Definition filter_parent (k v : str) : str :=
  if str_eqb k k_priority_policy then s_default
  else if str_eqb k k_priority_offset then s_zero
  else if str_eqb k k_preemption_policy then (if str_eqb (lower v) s_disabled then v else s_default)
  else v.
(* mergeProperties: filtered parent properties, overridden by the queue's own configuration *)
Definition merge_props (parent own : props) : props :=
  own ++ filter (fun kv => match plookup (fst kv) own with Some _ => false | None => true end)
                (map (fun kv => (fst kv, filter_parent (fst kv) (snd kv))) parent).

(* strconv.ParseInt(value, 10, 32) *)
Fixpoint digits (s : str) (acc : Z) : option Z :=
  match s with
  | [] => Some acc
  | c :: t => if (48 <=? c) && (c <=? 57) then digits t (acc * 10 + Z.of_N (c - 48))%Z else None
  end.
Definition parse_int32 (s : str) : option Z :=
  match s with
  | [] => None
  | c :: t =>
      let '(neg, body) := if c =? 43 then (false, t) else if c =? 45 then (true, t) else (false, s) in
      match body with
      | [] => None
      | _ => match digits body 0 with
             | None => None
             | Some v => let v := if neg then (- v)%Z else v in
                         if ((- 2147483648 <=? v) && (v <=? 2147483647))%Z then Some v else None
             end
      end
  end.

(* resetProperties + the property loop of UpdateQueueProperties (durations and back-off not modelled) *)
Definition derive (leaf : bool) (p : props) : derived :=
  mkD
    (if leaf then
       match plookup k_sort_policy p with
       | Some v => if str_eqb v s_fair then SORT_fair else SORT_fifo   (* fifo, "", stateaware, undefined -> fifo *)
       | None => SORT_fifo
       end
     else SORT_fair)
    (match plookup k_sort_priority p with
     | Some v => if str_eqb (lower v) s_disabled then false else true
     | None => true end)
    (match plookup k_preemption_policy p with
     | Some v => if str_eqb (lower v) s_fence then PRE_fence else if str_eqb (lower v) s_disabled then PRE_disabled else PRE_default
     | None => PRE_default end)
    (match plookup k_priority_policy p with
     | Some v => if str_eqb (lower v) s_fence then 1 else 0
     | None => 0 end)
    (match plookup k_priority_offset p with
     | Some v => match parse_int32 v with Some z => z | None => 0%Z end
     | None => 0%Z end).

Definition is_rootq (q : mq) : bool := m_parent q =? 0.

(* applyConf on an existing queue (root keeps resources and max applications) *)
Definition apply_conf (c : conf_tree) (q : mq) : mq :=
  mkMQ (m_id q) (m_parent q) (ct_leaf c) true
       (if m_state q =? QS_Active then m_state q else q_event EV_Start (m_state q))
       (if is_rootq q then m_max q else set_res (ct_max c))
       (if is_rootq q then m_guar q else set_res (ct_guar c))
       (if is_rootq q then m_maxapps q else ct_maxapps c)
       (ct_props c) (m_derived q) (m_ledger q).
Definition with_props (p : props) (q : mq) : mq :=
  mkMQ (m_id q) (m_parent q) (m_leaf q) (m_managed q) (m_state q) (m_max q) (m_guar q) (m_maxapps q) p (m_derived q) (m_ledger q).
(* MergeParentProperties *)
Definition merge_parent (pq q : mq) : mq := with_props (merge_props (m_props pq) (m_props q)) q.
(* UpdateQueueProperties *)
Definition update_props (q : mq) : mq :=
  mkMQ (m_id q) (m_parent q) (m_leaf q) (m_managed q) (m_state q) (m_max q) (m_guar q) (m_maxapps q) (m_props q)
       (derive (m_leaf q) (m_props q)) (m_ledger q).
(* NewConfiguredQueue below parent pq *)
Definition new_queue (c : conf_tree) (pq : mq) : mq :=
  update_props (mkMQ (ct_id c) (m_id pq) (ct_leaf c) true QS_Active (set_res (ct_max c)) (set_res (ct_guar c)) (ct_maxapps c)
                     (merge_props (m_props pq) (ct_props c)) (mkD SORT_fifo true PRE_default 0 0%Z) empty_ledger).

Definition with_state (s : N) (q : mq) : mq :=
  mkMQ (m_id q) (m_parent q) (m_leaf q) (m_managed q) s (m_max q) (m_guar q) (m_maxapps q) (m_props q) (m_derived q) (m_ledger q).

(* MarkQueueForRemoval: no-op on an unmanaged queue; otherwise Remove event, then the children *)
Fixpoint mark (t : qtree) : qtree :=
  match t with
  | QT q kids => if m_managed q then QT (with_state (q_event EV_Remove (m_state q)) q) (map mark kids) else t
  end.

(* updateQueues for one configured queue c below the (already updated) parent record pq;
   [existing] is the queue found by getQueueInternal *)
Fixpoint upd (c : conf_tree) (pq : mq) (existing : option qtree) {struct c} : qtree :=
  match c with
  | CT id par mx gu ma pr ckids =>
      let q := match existing with
               | Some (QT q0 _) => update_props (merge_parent pq (apply_conf (CT id par mx gu ma pr ckids) q0))
               | None => new_queue (CT id par mx gu ma pr ckids) pq
               end in
      let k0 := match existing with Some (QT _ k0) => k0 | None => [] end in
      QT q (map (fun c1 => upd c1 q (find_kid (ct_id c1) k0)) ckids
            ++ map mark (filter (fun k => negb (memN (qid k) (map ct_id ckids))) k0))
  end.
Definition upd_kids (ckids : list conf_tree) (q : mq) (k0 : list qtree) : list qtree :=
  map (fun c1 => upd c1 q (find_kid (ct_id c1) k0)) ckids
  ++ map mark (filter (fun k => negb (memN (qid k) (map ct_id ckids))) k0).

(* updatePartitionDetails below the lock: root.ApplyConf, root.UpdateQueueProperties, updateQueues *)
Definition reload_tree (c : conf_tree) (t : qtree) : qtree :=
  match t with
  | QT q0 k0 => let q := update_props (apply_conf c q0) in QT q (upd_kids (ct_kids c) q k0)
  end.

(* the checked variant: NewConfiguredQueue fails (addChildQueue) below a leaf or a draining parent; such an
   error would leave the partition half updated. The checked functions return None in that case. *)
Definition can_add_child (pq : mq) : bool := negb (m_leaf pq) && negb (m_state pq =? QS_Draining).
Fixpoint all_some {A} (l : list (option A)) : option (list A) :=
  match l with
  | [] => Some []
  | Some x :: t => match all_some t with Some r => Some (x :: r) | None => None end
  | None :: _ => None
  end.
Fixpoint upd_chk (c : conf_tree) (pq : mq) (existing : option qtree) {struct c} : option qtree :=
  match c with
  | CT id par mx gu ma pr ckids =>
      if negb (match existing with None => can_add_child pq | Some _ => true end) then None else
      let q := match existing with
               | Some (QT q0 _) => update_props (merge_parent pq (apply_conf (CT id par mx gu ma pr ckids) q0))
               | None => new_queue (CT id par mx gu ma pr ckids) pq
               end in
      let k0 := match existing with Some (QT _ k0) => k0 | None => [] end in
      match all_some (map (fun c1 => upd_chk c1 q (find_kid (ct_id c1) k0)) ckids) with
      | Some vis => Some (QT q (vis ++ map mark (filter (fun k => negb (memN (qid k) (map ct_id ckids))) k0)))
      | None => None
      end
  end.
Definition reload_tree_chk (c : conf_tree) (t : qtree) : option qtree :=
  match t with
  | QT q0 k0 =>
      let q := update_props (apply_conf c q0) in
      match all_some (map (fun c1 => upd_chk c1 q (find_kid (ct_id c1) k0)) (ct_kids c)) with
      | Some vis => Some (QT q (vis ++ map mark (filter (fun k => negb (memN (qid k) (map ct_id (ct_kids c)))) k0)))
      | None => None
      end
  end.

(* stages of UpdateRMSchedulerConfig: every rejection is decided before the first write *)
Inductive verdict := VLoadFails | VDryRunFails | VRulesFail | VAccepted.
Definition reload {R : Type} (v : verdict) (c : conf_tree) (s : qtree * R) : qtree * R :=
  match v with
  | VAccepted => (reload_tree c (fst s), snd s)
  | _ => s
  end.

(* ---- cleanQueues (partition_manager.go) with RemoveQueue / IsEmpty ---- *)
Definition no_apps (q : mq) : bool := match l_apps (m_ledger q) with [] => true | _ => false end.
Definition no_kids (k : list qtree) : bool := match k with [] => true | _ => false end.
Definition is_empty (q : mq) (kids : list qtree) : bool := if m_leaf q then no_apps q else no_kids kids.
Definition removable (q : mq) (kids : list qtree) : bool :=
  negb (m_managed q && (m_state q =? QS_Active)) && no_kids kids && no_apps q.
Fixpoint clean (t : qtree) : option qtree :=
  match t with
  | QT q kids =>
      let kids' := flat_map (fun k => match clean k with Some k' => [k'] | None => [] end) kids in
      if ((m_state q =? QS_Draining) || negb (m_managed q)) && is_empty q kids' && removable q kids'
      then None else Some (QT q kids')
  end.
Inductive outcome := Ok (t : qtree) | Crash.
(* RemoveQueue on the root dereferences the nil parent *)
Definition clean_root (t : qtree) : outcome := match clean t with Some t' => Ok t' | None => Crash end.

(* ---- placement guard (placement.go PlaceApplication, provided rule followed by the recovery rule) ---- *)
Inductive placed := PlQueue (id : N) | PlRecovery | PlRejected.
Definition place_existing (q : mq) (acl_ok forced : bool) : placed :=
  if m_leaf q && acl_ok && negb (m_state q =? QS_Draining) then PlQueue (m_id q)
  else if forced then PlRecovery else PlRejected.

(* ---- well-formed trees: the children map of a queue has one entry per name, only the root has no parent,
   states are the three states of the object state machine ---- *)
Fixpoint nodupb (l : list N) : bool := match l with [] => true | x :: t => negb (memN x t) && nodupb t end.
Definition valid_state (s : N) : bool := (s =? QS_Active) || (s =? QS_Draining) || (s =? QS_Stopped).
Fixpoint tree_okb (t : qtree) : bool :=
  match t with
  | QT q kids => valid_state (m_state q) && nodupb (map qid kids) &&
                 forallb (fun k => negb (is_rootq (troot k)) && tree_okb k) kids
  end.

(* ---- extra observation of the reload engine and conversion of observations into the model's records ---- *)
Record qextra := mkQX { qx_id : N; qx_props : props; qx_sort : N; qx_priosort : bool; qx_preempt : N; qx_priopol : N; qx_priooff : Z }.
Record rcase := mkRCase { rc_hist : ohistory; rc_extras : list (list qextra); rc_confs : list (option conf_tree) }.

Definition find_extra (xs : list qextra) (id : N) : qextra :=
  match find (fun x => qx_id x =? id) xs with Some x => x | None => mkQX id [] 0 true 0 0 0%Z end.
Definition mq_of (xs : list qextra) (q : oqueue) : mq :=
  let x := find_extra xs (q_id q) in
  mkMQ (q_id q) (q_parent q) (q_leaf q) (q_managed q) (q_state q) (q_max q) (q_guar q) (q_maxrunning q) (qx_props x)
       (mkD (qx_sort x) (qx_priosort x) (qx_preempt x) (qx_priopol x) (qx_priooff x))
       (mkL (q_alloc q) (q_pending q) (q_preempting q) (q_running q) (q_allocating q) (q_reserved q) (q_apps q)).
Definition mqs_of (xs : list qextra) (s : ostate) : list mq := map (mq_of xs) (s_queues s).

Fixpoint build (fuel : nat) (qs : list mq) (q : mq) : qtree :=
  QT q (match fuel with
        | O => []
        | S f => map (build f qs) (filter (fun k => (m_parent k =? m_id q) && negb (m_id k =? m_id q)) qs)
        end).
Definition build_tree (qs : list mq) : option qtree :=
  match find is_rootq qs with Some r => Some (build (length qs) qs r) | None => None end.
