(* C03 over the gang fragment (Core/Model3.v): application-record lemmas, part 3.
   The records the gang operations build, as named definitions mirroring Core/Model3.v, with their books,
   well-formedness and exact ledger movements. *)
From Coq Require Import List ZArith NArith Bool Lia ZifyBool.
From YK Require Import Base.Int64 Base.Res Base.ResSpec Base.ResLemmas Base.ResLaws Base.ResLaws2 Core.Obs Core.Model Core.Model2
  Core.Model3 Core.Ledger Core.BooksLemmas Core.BooksDefs Core.BooksApp Core.Model3ProofsD Core.Model3ProofsA1 Core.Model3ProofsA2.
Import ListNotations.
Open Scope Z_scope.
Set Default Timeout 30.

Lemma obj_upd_apps s app k f : s_apps (obj_upd s app k f) = s_apps (upd_app s app (fun a => flag_app a k f)).
Proof. reflexivity. Qed.
Lemma same_alloc_refl a : same_alloc a a. Proof. repeat split. Qed.
Lemma same_alloc_trans a b c : same_alloc a b -> same_alloc b c -> same_alloc a c.
Proof. unfold same_alloc. intros (E1 & E2 & E3) (F1 & F2 & F3). repeat split; congruence. Qed.

(* ================================================================== 1. AddAllocationAsk (g_new_ask) *)
Definition new_ask_app3 (a : oapp) (x : oalloc) : oapp :=
  let a1 := if ((ap_state a =? ST_New) || (ap_state a =? ST_Completing))%N then app_fire a AvRun else a in
  let a2 := ap_set_lists a1 (put_alloc x (ap_requests a1)) (ap_allocs a1) in
  let a3 := if oa_ph x then ap_with_ph a2 (pd_add (oa_tg x) (ap_phdata a2)) (ap_phtimer a2) (ap_statetimer a2) (ap_hasph a2) else a2 in
  ap_set_ledgers a3 (Prune (Add (Some (ap_pending a3)) (Some (oa_res x)))) (ap_allocated a3) (ap_phalloc a3).
Lemma g_new_ask_eq s a x : g_new_ask s a x = q_inc_pending (upd_app s (ap_id a) (fun _ => new_ask_app3 a x)) (ap_queue a) (oa_res x).
Proof. reflexivity. Qed.
Ltac naf := unfold new_ask_app3; cbv zeta; ifs; apc; autorewrite with apf3; reflexivity.
Lemma new_ask3_id a x : ap_id (new_ask_app3 a x) = ap_id a. Proof. naf. Qed.
Lemma new_ask3_queue a x : ap_queue (new_ask_app3 a x) = ap_queue a. Proof. naf. Qed.
Lemma new_ask3_requests a x : ap_requests (new_ask_app3 a x) = put_alloc x (ap_requests a). Proof. naf. Qed.
Lemma new_ask3_pending a x : ap_pending (new_ask_app3 a x) = Prune (Add (Some (ap_pending a)) (Some (oa_res x))). Proof. naf. Qed.
Lemma new_ask3_same_alloc a x : same_alloc a (new_ask_app3 a x). Proof. repeat split; naf. Qed.
Lemma new_ask3_terminal a x : is_terminal (ap_state (new_ask_app3 a x)) = is_terminal (ap_state a).
Proof. unfold new_ask_app3; cbv zeta; ifs; apc; rewrite ?app_fire_terminal_run; reflexivity. Qed.
Lemma new_ask3_ok a x : AppWF3 a -> PendBooks a -> PendBd a -> AllocOK3 (ap_id a) x -> rb (oa_res x) -> oa_allocated x = false ->
  ~ In (oa_key x) (akeys (ap_requests a)) -> ~ In (oa_key x) (akeys (ap_allocs a)) ->
  PendBooks (new_ask_app3 a x) /\ AppWF3 (new_ask_app3 a x) /\
  forall k, getz (ap_pending (new_ask_app3 a x)) k = getz (ap_pending a) k + getz (oa_res x) k.
Proof. intros W BP Bd Xok Xb Xna Xfr Xfa. destruct Xok as [Wx Nx Px Ax Fx].
  apply (pend_padd a _ (oa_res x)); try assumption.
  - apply new_ask3_id.
  - apply new_ask3_same_alloc.
  - apply new_ask3_pending.
  - intros k. rewrite new_ask3_requests, asum_filter_put_fresh by (try assumption; apply W). unfold is_pending. rewrite Xna. reflexivity.
  - rewrite new_ask3_requests. apply WF3_put_req; [apply AppWF3_raw; assumption|constructor; assumption|auto]. Qed.

(* ================================================================== 2. allocateAsk: a pending ask becomes allocated *)
Definition alloc_ask_app (a : oapp) (ask : oalloc) (nid : N) : oapp :=
  ap_set_lists (ap_set_ledgers a (Prune (Sub (Some (ap_pending a)) (Some (oa_res ask)))) (ap_allocated a) (ap_phalloc a))
               (put_alloc (oa_bound ask nid) (ap_requests a)) (ap_allocs a).
Lemma alloc_ask_same_alloc a ask nid : same_alloc a (alloc_ask_app a ask nid). Proof. repeat split. Qed.
Lemma alloc_ask_ok a ask nid : AppWF3 a -> PendBooks a -> PendBd a -> In ask (ap_requests a) -> oa_allocated ask = false ->
  PendBooks (alloc_ask_app a ask nid) /\ AppWF3 (alloc_ask_app a ask nid) /\ PendBd (alloc_ask_app a ask nid) /\
  forall k, getz (ap_pending (alloc_ask_app a ask nid)) k = getz (ap_pending a) k - getz (oa_res ask) k.
Proof. intros W BP Bd Hin Hna. destruct (w3_req a W ask Hin) as [Wx Nx Px Ax Fx]. pose proof (proj2 Bd ask Hin) as Bx.
  apply (pend_psub a _ (oa_res ask)); try assumption; try reflexivity.
  - apply alloc_ask_same_alloc.
  - intros k. unfold alloc_ask_app. apc. rewrite (asum_filter_put_over is_pending _ _ ask) by (try assumption; try reflexivity; apply W).
    unfold is_pending. rewrite Hna. cbn [oa_bound oa_allocated negb]. lia.
  - unfold alloc_ask_app. apc. apply WF3_put_req; [apply AppWF3_raw; assumption|apply AllocOK3_bound; constructor; assumption|discriminate].
  - unfold alloc_ask_app. apc. intros y Hy. apply in_put_alloc in Hy. destruct Hy as [->|[Hy _]]; [exact Bx|apply (proj2 Bd y Hy)]. Qed.

(* ================================================================== 3. scheduling of a placeholder ask (g_sched_ph) *)
Definition sched_ph_app (a : oapp) (ask : oalloc) (nid : N) : oapp := app_add_alloc (alloc_ask_app a ask nid) false (oa_bound ask nid).
Lemma g_sched_ph_eq deny s a k nid : g_sched_ph deny s a k nid =
  match find_alloc (ap_requests a) k, find_node s nid with
  | Some ask, Some n =>
      if (oa_allocated ask || negb (oa_ph ask) || negb (no_res a) || negb (oa_reqnode ask =? 0) || negb (node_unreserved n))%N then None else
      if negb (m_node_guard deny n ask) then None else
      match n_add n (oa_bound ask nid) false with
      | None => None
      | Some n' =>
          match q_try_inc s (ap_queue a) (oa_res ask) with
          | None => None
          | Some s1 => Some (add_counts (upd_app (q_dec_pending (upd_node s1 nid (fun _ => n')) (ap_queue a) (oa_res ask)) (ap_id a)
                                                 (fun _ => sched_ph_app a ask nid)) 1 1)
          end
      end
  | _, _ => None
  end.
Proof. reflexivity. Qed.
(* the ask may be a placeholder or a real one; it carries no link and no placeholder is linked to it *)
Lemma sched_ph_ok a ask nid : AppWF3 a -> AppBooks a -> AppBounded3 a -> In ask (ap_requests a) -> oa_allocated ask = false ->
  oa_release ask = 0%N -> unlinked (ap_allocs a) (oa_key ask) ->
  AppBooks (sched_ph_app a ask nid) /\ AppWF3 (sched_ph_app a ask nid) /\ PendBd (sched_ph_app a ask nid) /\
  ap_id (sched_ph_app a ask nid) = ap_id a /\ ap_queue (sched_ph_app a ask nid) = ap_queue a /\
  ap_requests (sched_ph_app a ask nid) = put_alloc (oa_bound ask nid) (ap_requests a) /\
  ap_allocs (sched_ph_app a ask nid) = put_alloc (oa_bound ask nid) (ap_allocs a) /\
  forall k, getz (ap_pending (sched_ph_app a ask nid)) k = getz (ap_pending a) k - getz (oa_res ask) k /\
            getz (ap_allocated (sched_ph_app a ask nid)) k = getz (ap_allocated a) k + (if oa_ph ask then 0 else getz (oa_res ask) k) /\
            getz (ap_phalloc (sched_ph_app a ask nid)) k = getz (ap_phalloc a) k + (if oa_ph ask then getz (oa_res ask) k else 0).
Proof. intros W B Bd Hin Hna Hl Hu. apply AppBooks_sides in B. destruct B as [BA BP]. apply AppBounded3_sides in Bd. destruct Bd as [BdA BdP].
  destruct (alloc_ask_ok a ask nid W BP BdP Hin Hna) as (BP1 & W1 & BdP1 & D1). set (a1 := alloc_ask_app a ask nid) in *.
  pose proof (alloc_ask_same_alloc a ask nid) as SA. fold a1 in SA.
  pose proof (same_alloc_books a a1 SA BA) as BA1. pose proof (same_alloc_bd a a1 SA BdA) as BdA1.
  pose proof (w3_req a W ask Hin) as Aok. pose proof (proj2 BdP ask Hin) as Ab.
  assert (Hf : ~ In (oa_key ask) (akeys (ap_allocs a))) by (apply (w3_pending_fresh a W ask Hin Hna)).
  unfold sched_ph_app. fold a1. split; [|split; [|split]].
  - apply add_alloc_books; try assumption; [apply AppBooks_sides; auto|apply AllocOK3_bound; exact Aok].
  - apply add_alloc_wf3; try assumption.
    + apply AllocOK3_bound. exact Aok.
    + intros _. exact Hl.
    + intros _ C. exfalso. apply C. exact Hl.
    + intros q Hq E. unfold a1, alloc_ask_app in Hq. apc. apply in_put_alloc in Hq. destruct Hq as [->|[_ C]]; [reflexivity|contradiction].
  - apply add_alloc_pend_bd. assumption.
  - rewrite app_add_alloc_id, app_add_alloc_queue, app_add_alloc_requests, app_add_alloc_allocs, app_add_alloc_pending. repeat split; try reflexivity.
    + apply D1.
    + destruct (add_alloc_delta a1 false (oa_bound ask nid) k (a3_wf _ _ Aok) Ab BdA1) as [E _]. exact E.
    + destruct (add_alloc_delta a1 false (oa_bound ask nid) k (a3_wf _ _ Aok) Ab BdA1) as [_ E]. exact E. Qed.

(* ================================================================== 4. a recovered (already bound) placeholder (g_recovered) *)
Definition recovered_pre (a : oapp) (x : oalloc) : oapp :=
  let a1 := ap_set_lists a (put_alloc x (ap_requests a)) (ap_allocs a) in
  let a2 := ap_with_ph a1 (pd_add (oa_tg x) (ap_phdata a1)) (ap_phtimer a1) (ap_statetimer a1) (ap_hasph a1) in
  if (ap_state a2 =? ST_New)%N then app_fire a2 AvRun else a2.
Definition recovered_app3 (a : oapp) (x : oalloc) : oapp := app_add_alloc (recovered_pre a x) false x.
Lemma g_recovered_eq s a n x : g_recovered s a n x =
  match n_add n x true with
  | None => None
  | Some n' => Some (add_counts (upd_app (upd_node (q_inc s (ap_queue a) (oa_res x)) (on_id n) (fun _ => n')) (ap_id a)
                                         (fun _ => recovered_app3 a x)) 1 1)
  end.
Proof. reflexivity. Qed.
Ltac rpf := unfold recovered_pre; cbv zeta; ifs; apc; autorewrite with apf3; reflexivity.
Lemma recovered_pre_id a x : ap_id (recovered_pre a x) = ap_id a. Proof. rpf. Qed.
Lemma recovered_pre_queue a x : ap_queue (recovered_pre a x) = ap_queue a. Proof. rpf. Qed.
Lemma recovered_pre_requests a x : ap_requests (recovered_pre a x) = put_alloc x (ap_requests a). Proof. rpf. Qed.
Lemma recovered_pre_pending a x : ap_pending (recovered_pre a x) = ap_pending a. Proof. rpf. Qed.
Lemma recovered_pre_same_alloc a x : same_alloc a (recovered_pre a x). Proof. repeat split; rpf. Qed.
Lemma recovered3_ok a x : AppWF3 a -> AppBooks a -> AppBounded3 a -> AllocOK3 (ap_id a) x -> rb (oa_res x) -> oa_allocated x = true ->
  ~ In (oa_key x) (akeys (ap_requests a)) -> ~ In (oa_key x) (akeys (ap_allocs a)) ->
  oa_release x = 0%N -> unlinked (ap_allocs a) (oa_key x) ->
  AppBooks (recovered_app3 a x) /\ AppWF3 (recovered_app3 a x) /\
  ap_id (recovered_app3 a x) = ap_id a /\ ap_queue (recovered_app3 a x) = ap_queue a /\
  ap_requests (recovered_app3 a x) = put_alloc x (ap_requests a) /\ ap_allocs (recovered_app3 a x) = put_alloc x (ap_allocs a) /\
  ap_pending (recovered_app3 a x) = ap_pending a /\
  forall k, getz (ap_allocated (recovered_app3 a x)) k = getz (ap_allocated a) k + (if oa_ph x then 0 else getz (oa_res x) k) /\
            getz (ap_phalloc (recovered_app3 a x)) k = getz (ap_phalloc a) k + (if oa_ph x then getz (oa_res x) k else 0).
Proof. intros W B Bd Xok Xb Xal Xfr Xfa Xl Xu. apply AppBooks_sides in B. destruct B as [BA BP]. apply AppBounded3_sides in Bd. destruct Bd as [BdA BdP].
  pose proof (recovered_pre_same_alloc a x) as SA. pose proof (recovered_pre_id a x) as Eid. pose proof (recovered_pre_requests a x) as Er.
  pose proof (recovered_pre_queue a x) as Eq. pose proof (recovered_pre_pending a x) as Ep.
  assert (H : PendBooks (recovered_pre a x) /\ AppWF3 (recovered_pre a x) /\ PendBd (recovered_pre a x)).
  { apply (pend_same a); try assumption.
    - intros k. rewrite Er, asum_filter_put_fresh by (try assumption; apply W). unfold is_pending. rewrite Xal. cbn [negb]. lia.
    - rewrite Er. apply WF3_put_req; [apply AppWF3_raw; assumption|assumption|]. rewrite Xal. discriminate.
    - rewrite Er. intros y Hy. apply in_put_alloc in Hy. destruct Hy as [->|[Hy _]]; [exact Xb|apply (proj2 BdP y Hy)]. }
  destruct H as (BP1 & W1 & BdP1). set (a1 := recovered_pre a x) in *. destruct SA as (S1 & S2 & S3).
  pose proof (same_alloc_books a a1 (conj S1 (conj S2 S3)) BA) as BA1. pose proof (same_alloc_bd a a1 (conj S1 (conj S2 S3)) BdA) as BdA1.
  unfold recovered_app3. fold a1. rewrite <- Eid in Xok. rewrite <- S3 in Xfa, Xu. split; [|split].
  - apply add_alloc_books; try assumption. apply AppBooks_sides; auto.
  - apply add_alloc_wf3; try assumption.
    + intros _. exact Xl.
    + intros _ C. exfalso. apply C. exact Xl.
    + intros q Hq E. rewrite Er in Hq. apply in_put_alloc in Hq. destruct Hq as [->|[_ C]]; [exact Xal|contradiction].
  - rewrite app_add_alloc_id, app_add_alloc_queue, app_add_alloc_requests, app_add_alloc_allocs, app_add_alloc_pending, Eid, Er, S3, Eq, Ep.
    repeat split; try reflexivity.
    + destruct (add_alloc_delta a1 false x k (a3_wf _ _ Xok) Xb BdA1) as [E _]. rewrite E, S1. reflexivity.
    + destruct (add_alloc_delta a1 false x k (a3_wf _ _ Xok) Xb BdA1) as [_ E]. rewrite E, S2. reflexivity. Qed.

(* ================================================================== 5. the start of a replacement (g_swap_start) *)
(* allocateAsk + SetRelease + SetNodeID on the real ask *)
Definition swap_a1 (a : oapp) (real : oalloc) (rk phk target : N) : oapp :=
  ap_set_lists (ap_set_ledgers a (Prune (Sub (Some (ap_pending a)) (Some (oa_res real)))) (ap_allocated a) (ap_phalloc a))
               (map_key rk (fun _ => oa_set_link (oa_bound real target) phk) (ap_requests a)) (ap_allocs a).
(* ... followed by obj_upd on the placeholder: SetRelease, SetReleased *)
Definition swap_start_app (a : oapp) (real : oalloc) (rk phk target : N) : oapp :=
  flag_app (swap_a1 a real rk phk target) phk (fun y => oa_set_released (oa_set_link y rk) true).
Lemma swap_a1_same_alloc a real rk phk target : same_alloc a (swap_a1 a real rk phk target). Proof. repeat split. Qed.
Lemma swap_a1_ok a real rk phk target : AppWF3 a -> PendBooks a -> PendBd a -> In real (ap_requests a) -> oa_key real = rk ->
  oa_allocated real = false ->
  PendBooks (swap_a1 a real rk phk target) /\ AppWF3 (swap_a1 a real rk phk target) /\ PendBd (swap_a1 a real rk phk target) /\
  forall k, getz (ap_pending (swap_a1 a real rk phk target)) k = getz (ap_pending a) k - getz (oa_res real) k.
Proof. intros W BP Bd Hin Ek Hna. destruct (w3_req a W real Hin) as [Wx Nx Px Ax Fx]. pose proof (proj2 Bd real Hin) as Bx.
  pose proof (w3_req_keys a W) as Hnd.
  assert (Hsame : forall y, In y (ap_requests a) -> oa_key y = rk -> y = real).
  { intros y Hy E. apply (nodup_key_inj oa_key (ap_requests a)); auto. congruence. }
  apply (pend_psub a _ (oa_res real)); try assumption; try reflexivity.
  - apply swap_a1_same_alloc.
  - intros k. unfold swap_a1. apc. rewrite (asum_filter_map_key_one is_pending rk _ _ real) by assumption.
    unfold is_pending. rewrite Hna. cbn [oa_set_link oa_bound oa_allocated negb]. lia.
  - unfold swap_a1. apc. apply WF3_map_req; [apply AppWF3_raw; assumption|intros y _; exact Ek|].
    intros y Hy E. split; [|discriminate]. apply AllocOK3_link, AllocOK3_bound. constructor; assumption.
  - unfold swap_a1. apc. intros y Hy. apply in_map_key in Hy. destruct Hy as (z & Hz & ->).
    destruct (_ =? _)%N; [exact Bx|apply (proj2 Bd z Hz)]. Qed.
Lemma swap_start_ok a real ph rk phk target : AppWF3 a -> AppBooks a -> AppBounded3 a ->
  In real (ap_requests a) -> oa_key real = rk -> oa_allocated real = false ->
  In ph (ap_allocs a) -> oa_key ph = phk -> oa_ph ph = true ->
  AppBooks (swap_start_app a real rk phk target) /\ AppWF3 (swap_start_app a real rk phk target) /\
  AppBounded3 (swap_start_app a real rk phk target) /\
  ap_id (swap_start_app a real rk phk target) = ap_id a /\ ap_queue (swap_start_app a real rk phk target) = ap_queue a /\
  ap_allocated (swap_start_app a real rk phk target) = ap_allocated a /\ ap_phalloc (swap_start_app a real rk phk target) = ap_phalloc a /\
  ap_allocs (swap_start_app a real rk phk target) = map_key phk (fun y => oa_set_released (oa_set_link y rk) true) (ap_allocs a) /\
  (forall k, getz (ap_pending (swap_start_app a real rk phk target)) k = getz (ap_pending a) k - getz (oa_res real) k) /\
  rk <> phk.
Proof. intros W B Bd Hr Ek Hna Hp Epk Hph. pose proof B as B0. apply AppBooks_sides in B. destruct B as [BA BP].
  pose proof Bd as Bd0. apply AppBounded3_sides in Bd. destruct Bd as [BdA BdP].
  destruct (swap_a1_ok a real rk phk target W BP BdP Hr Ek Hna) as (BP1 & W1 & BdP1 & D1).
  pose proof (swap_a1_same_alloc a real rk phk target) as SA.
  assert (Hfr : ~ In rk (akeys (ap_allocs a))) by (rewrite <- Ek; apply (w3_pending_fresh a W real Hr Hna)).
  assert (Hne : rk <> phk). { intros C. apply Hfr. rewrite C, <- Epk. apply in_map. exact Hp. }
  pose proof (flag3_released_link rk true) as Ff. unfold swap_start_app. split; [|split; [|split]].
  - apply flag_app_books; [exact Ff|]. apply AppBooks_sides. split; [apply (same_alloc_books a _ SA BA)|exact BP1].
  - apply flag_app_wf3; [exact Ff|exact W1|]. intros y Hy E. change (ap_allocs (swap_a1 a real rk phk target)) with (ap_allocs a) in *.
    assert (y = ph) by (apply (nodup_key_inj oa_key (ap_allocs a)); auto; [apply W|congruence]). subst y.
    split; [congruence|]. intros _ _. exact Hfr.
  - apply flag_app_bounded3; [exact Ff|]. apply AppBounded3_sides. split; [apply (same_alloc_bd a _ SA BdA)|exact BdP1].
  - repeat split; try reflexivity; [exact D1|exact Hne]. Qed.

(* ================================================================== 6. the confirmation of a replacement (g_release, g_remove_node_allocs) *)
(* ReplaceAllocation: the placeholder x goes, the real allocation (the allocated request real0, link cleared) comes *)
Definition confirm_app (a : oapp) (x : oalloc) (ttype : N) (real0 : oalloc) : oapp :=
  let real := oa_set_link real0 0 in
  let a1 := app_remove_alloc a x ttype in
  let a2 := app_add_alloc a1 true real in
  ap_set_lists a2 (map_key (oa_key real) (fun _ => real) (ap_requests a2)) (ap_allocs a2).
Lemma confirm_id a x t r0 : ap_id (confirm_app a x t r0) = ap_id a.
Proof. unfold confirm_app. apc. rewrite app_add_alloc_id. apply app_remove_alloc_id. Qed.
Lemma confirm_queue a x t r0 : ap_queue (confirm_app a x t r0) = ap_queue a.
Proof. unfold confirm_app. apc. rewrite app_add_alloc_queue. apply app_remove_alloc_queue. Qed.
Lemma confirm_pending a x t r0 : ap_pending (confirm_app a x t r0) = ap_pending a.
Proof. unfold confirm_app. apc. rewrite app_add_alloc_pending. apply app_remove_alloc_pending. Qed.
Lemma confirm_allocs a x t r0 : ap_allocs (confirm_app a x t r0) = put_alloc (oa_set_link r0 0) (del_alloc (oa_key x) (ap_allocs a)).
Proof. unfold confirm_app. apc. rewrite app_add_alloc_allocs, app_remove_alloc_allocs. reflexivity. Qed.
Lemma confirm_requests a x t r0 :
  ap_requests (confirm_app a x t r0) = map_key (oa_key r0) (fun _ => oa_set_link r0 0) (ap_requests (app_remove_alloc a x t)).
Proof. unfold confirm_app. apc. rewrite app_add_alloc_requests. reflexivity. Qed.
Lemma confirm_allocated a x t r0 : oa_ph x = true -> oa_ph r0 = false ->
  ap_allocated (confirm_app a x t r0) = Add (Some (ap_allocated a)) (Some (oa_res r0)).
Proof. intros H1 H2. unfold confirm_app. apc. rewrite app_add_alloc_allocated, app_remove_alloc_allocated. cbn [oa_set_link oa_ph oa_res]. rewrite H1, H2. reflexivity. Qed.
Lemma confirm_phalloc a x t r0 : oa_ph x = true -> oa_ph r0 = false ->
  ap_phalloc (confirm_app a x t r0) = Prune (Sub (Some (ap_phalloc a)) (Some (oa_res x))).
Proof. intros H1 H2. unfold confirm_app. apc. rewrite app_add_alloc_phalloc, app_remove_alloc_phalloc. cbn [oa_set_link oa_ph oa_res]. rewrite H1, H2. reflexivity. Qed.
Lemma confirm_terminal a x t r0 : is_terminal (ap_state (confirm_app a x t r0)) = is_terminal (ap_state a) || remove_terminates a x.
Proof. unfold confirm_app. apc. rewrite app_add_alloc_terminal. apply app_remove_alloc_terminal. Qed.
(* on the cross-node path obj_upd clears the link of the real allocation once more: nothing changes *)
Lemma confirm_relink a x t r0 : flag_app (confirm_app a x t r0) (oa_key r0) (fun y => oa_set_link y 0%N) = confirm_app a x t r0.
Proof. unfold flag_app. rewrite !map_key_id; [apply ap_set_lists_same| |].
  - intros y Hy E. rewrite confirm_allocs in Hy. apply in_put_alloc in Hy. destruct Hy as [->|[_ C]]; [reflexivity|].
    exfalso. apply C. exact E.
  - intros y Hy E. rewrite confirm_requests in Hy. apply in_map_key in Hy. destruct Hy as (z & Hz & ->).
    destruct (N.eqb_spec (oa_key z) (oa_key r0)) as [_|C]; [reflexivity|contradiction]. Qed.

(* x: the placeholder, listed, linked to the real ask real0 which is an allocated real request; no other placeholder
   is linked to the same ask (this does not follow from AppWF3) *)
Section Confirm.
  Variables (a : oapp) (x : oalloc) (ttype : N) (real0 : oalloc).
  Hypothesis W : AppWF3 a.
  Hypothesis BdA : AllocBd a.
  Hypothesis Hx : In x (ap_allocs a).
  Hypothesis Xph : oa_ph x = true.
  Hypothesis Xl : oa_release x <> 0%N.
  Hypothesis Hr : In real0 (ap_requests a).
  Hypothesis Rk : oa_key real0 = oa_release x.
  Hypothesis Rph : oa_ph real0 = false.
  Hypothesis Ral : oa_allocated real0 = true.
  Hypothesis Rb : rb (oa_res real0).
  Hypothesis Hinj : forall y, In y (ap_allocs a) -> oa_ph y = true -> oa_release y = oa_release x -> oa_key y = oa_key x.
  Local Notation real := (oa_set_link real0 0).
  Local Notation a1 := (app_remove_alloc a x ttype).
  Local Notation b := (confirm_app a x ttype real0).

  Lemma confirm_key_fresh : ~ In (oa_key real0) (akeys (ap_allocs a)).
  Proof using W Hx Xph Xl Rk. rewrite Rk. apply (w3_link a W x Hx Xph Xl). Qed.
  Lemma confirm_wf3 : AppWF3 b.
  Proof using W Hx Xph Xl Hr Rk Rph Ral Hinj. pose proof (remove_alloc_wf3 a x ttype W) as W1.
    assert (Rok : AllocOK3 (ap_id a1) real) by (rewrite app_remove_alloc_id; apply AllocOK3_link, (w3_req a W real0 Hr)).
    assert (W2 : AppWF3 (app_add_alloc a1 true real)).
    { apply add_alloc_wf3; try assumption.
      - intros _. reflexivity.
      - cbn [oa_set_link oa_ph]. congruence.
      - intros q Hq E. apply (app_remove_alloc_requests_incl a x ttype) in Hq.
        assert (q = real0) by (apply (nodup_key_inj oa_key (ap_requests a)); auto; apply W). subst q. exact Ral.
      - intros y Hy Hph Hl C. rewrite app_remove_alloc_allocs in Hy. apply in_del_alloc in Hy. destruct Hy as [Hy Hne].
        apply Hne. apply (Hinj y Hy Hph). rewrite C. exact Rk. }
    pose proof (AppWF3_raw _ W2) as R2. unfold confirm_app.
    apply (AppWF3_intro _ (ap_id (app_add_alloc a1 true real)) (map_key (oa_key real) (fun _ => real) (ap_requests (app_add_alloc a1 true real)))
                        (ap_allocs (app_add_alloc a1 true real))); try reflexivity; try apply W2.
    apply WF3_map_req; [exact R2|reflexivity|]. intros y Hy E. split; [|cbn [oa_set_link oa_allocated]; congruence].
    rewrite app_add_alloc_id. exact Rok. Qed.
  Lemma confirm_alloc_books : AllocBooks a -> AllocBooks b.
  Proof using W BdA Hx Xph Xl Hr Rk Rb. intros BA. pose proof (remove_alloc_wf3 a x ttype W) as W1.
    pose proof (remove_alloc_alloc_books a x ttype W BdA BA Hx) as BA1. pose proof (remove_alloc_alloc_bd a x ttype W BdA BA Hx) as Bd1.
    assert (BA2 : AllocBooks (app_add_alloc a1 true real)).
    { apply add_alloc_alloc_books; try assumption.
      - rewrite app_remove_alloc_id. apply AllocOK3_link, (w3_req a W real0 Hr).
      - rewrite app_remove_alloc_allocs. intros C. apply akeys_del in C. apply confirm_key_fresh. tauto. }
    unfold confirm_app. apply (same_alloc_books (app_add_alloc a1 true real)); [repeat split|exact BA2]. Qed.
  Lemma confirm_delta k :
    getz (ap_allocated b) k = getz (ap_allocated a) k + getz (oa_res real0) k /\
    getz (ap_phalloc b) k = getz (ap_phalloc a) k - getz (oa_res x) k /\ ap_pending b = ap_pending a.
  Proof using W BdA Hx Xph Hr Rph Rb. rewrite confirm_allocated, confirm_phalloc, confirm_pending by assumption.
    destruct BdA as (B1 & B2 & B3). pose proof (a3_wf _ _ (w3_req a W real0 Hr)) as Wr. pose proof (a3_wf _ _ (w3_alloc a W x Hx)) as Wx.
    pose proof (w3_phalloc a W) as Wp. pose proof (B3 x Hx) as Bx. rewrite Add_exact, PruneSub_exact by assumption. auto. Qed.
  (* the application stays live *)
  Lemma confirm_requests_live : is_terminal (ap_state a1) = false ->
    ap_requests b = map_key (oa_key real0) (fun _ => oa_set_link real0 0) (ap_requests a).
  Proof using. intros T. rewrite confirm_requests. rewrite app_remove_alloc_requests_live by assumption. reflexivity. Qed.
  Lemma confirm_pend_books : PendBooks a -> is_terminal (ap_state a1) = false -> PendBooks b.
  Proof using W Hr Ral. intros BP T. unfold PendBooks. rewrite confirm_pending, (confirm_requests_live T).
    apply (LBk_same _ _ (ap_requests a)); [|exact BP]. intros k. apply asum_filter_map_key. intros y Hy E.
    assert (y = real0) by (apply (nodup_key_inj oa_key (ap_requests a)); auto; apply W). subst y. unfold is_pending. cbn [oa_set_link oa_res oa_allocated]. auto. Qed.
  Lemma confirm_books : AppBooks a -> is_terminal (ap_state a1) = false -> AppBooks b.
  Proof using W BdA Hx Xph Xl Hr Rk Ral Rb. intros B T. apply AppBooks_sides in B. destruct B as [BA BP]. apply AppBooks_sides.
    split; [apply confirm_alloc_books|apply confirm_pend_books]; assumption. Qed.
  Lemma confirm_pend_bd : PendBd a -> PendBd b.
  Proof using Hr. intros [H1 H2]. split; [rewrite confirm_pending; exact H1|]. intros y Hy. rewrite confirm_requests in Hy.
    apply in_map_key in Hy. destruct Hy as (z & Hz & ->). apply (app_remove_alloc_requests_incl a x ttype) in Hz.
    destruct (N.eqb_spec (oa_key z) (oa_key real0)) as [E|E]; [|auto]. apply (H2 real0 Hr). Qed.
End Confirm.

(* the application terminates with the placeholder's removal: the request list is dropped *)
Lemma confirm_requests_term a x t r0 : is_terminal (ap_state a) = false -> remove_terminates a x = true ->
  ap_requests (confirm_app a x t r0) = [].
Proof. intros H1 H2. rewrite confirm_requests, app_remove_alloc_requests_term by assumption. reflexivity. Qed.
(* the injectivity hypothesis of [confirm_wf3] follows when every placeholder linked to real0 is the one real0 links back to *)
Lemma confirm_inj_of_backlink a x real0 : In x (ap_allocs a) -> oa_ph x = true -> oa_key real0 = oa_release x ->
  (forall y, In y (ap_allocs a) -> oa_ph y = true -> oa_release y = oa_key real0 -> oa_key y = oa_release real0) ->
  forall y, In y (ap_allocs a) -> oa_ph y = true -> oa_release y = oa_release x -> oa_key y = oa_key x.
Proof. intros Hx Xph Rk H y Hy Yph E. rewrite (H y Hy Yph), (H x Hx Xph); congruence. Qed.

(* ================================================================== 7. removeAsksInternal *)
(* one key; the state check follows ([asks_state_check]: same ledgers, never terminal) *)
Definition remove_ask_rec (a : oapp) (key : N) : oapp :=
  match find_alloc (ap_requests a) key with
  | None => a
  | Some x => ap_set_lists (ap_set_ledgers a (if oa_allocated x then ap_pending a else Prune (Sub (Some (ap_pending a)) (Some (oa_res x))))
                                           (ap_allocated a) (ap_phalloc a))
                           (del_alloc key (ap_requests a)) (ap_allocs a)
  end.
Definition remove_ask_delta (a : oapp) (key : N) : res :=
  match find_alloc (ap_requests a) key with Some x => if oa_allocated x then [] else oa_res x | None => [] end.
Lemma app_remove_ask_eq s id key : app_remove_ask s id key =
  match find_app s id with
  | None => Some s
  | Some a => if negb (no_res a) then None else
              match ap_requests a with
              | [] => Some s
              | _ => Some (upd_app (q_dec_pending (upd_app s id (fun _ => remove_ask_rec a key)) (ap_queue a) (remove_ask_delta a key)) id asks_state_check)
              end
  end.
Proof. unfold app_remove_ask, remove_ask_rec, remove_ask_delta. destruct (find_app s id) as [a|]; [|reflexivity].
  destruct (negb (no_res a)); [reflexivity|]. destruct (ap_requests a) as [|r0 t]; [reflexivity|].
  destruct (find_alloc (r0 :: t) key); reflexivity. Qed.
Lemma remove_ask_id a key : ap_id (remove_ask_rec a key) = ap_id a. Proof. unfold remove_ask_rec. destruct (find_alloc _ _); reflexivity. Qed.
Lemma remove_ask_queue a key : ap_queue (remove_ask_rec a key) = ap_queue a. Proof. unfold remove_ask_rec. destruct (find_alloc _ _); reflexivity. Qed.
Lemma remove_ask_state a key : ap_state (remove_ask_rec a key) = ap_state a. Proof. unfold remove_ask_rec. destruct (find_alloc _ _); reflexivity. Qed.
Lemma remove_ask_same_alloc a key : same_alloc a (remove_ask_rec a key).
Proof. unfold remove_ask_rec. destruct (find_alloc _ _); repeat split. Qed.
Lemma remove_ask_requests a key : ap_requests (remove_ask_rec a key) = del_alloc key (ap_requests a).
Proof. unfold remove_ask_rec. destruct (find_alloc _ _) eqn:E; [reflexivity|]. apply find_alloc_none in E. rewrite del_alloc_fresh by assumption. reflexivity. Qed.
Lemma remove_ask_ok a key : AppWF3 a -> PendBooks a -> PendBd a ->
  PendBooks (remove_ask_rec a key) /\ AppWF3 (remove_ask_rec a key) /\ PendBd (remove_ask_rec a key) /\
  forall k, getz (ap_pending (remove_ask_rec a key)) k = getz (ap_pending a) k - getz (remove_ask_delta a key) k.
Proof. intros W BP Bd. pose proof (remove_ask_requests a key) as Er. pose proof (remove_ask_same_alloc a key) as SA. pose proof (remove_ask_id a key) as Eid.
  pose proof (w3_req_keys a W) as Hnd.
  assert (R : WF3 (ap_id a) (ap_requests (remove_ask_rec a key)) (ap_allocs a)) by (rewrite Er; apply WF3_del_req, AppWF3_raw; assumption).
  assert (Hb : forall y, In y (ap_requests (remove_ask_rec a key)) -> rb (oa_res y)).
  { rewrite Er. intros y Hy. apply in_del_alloc in Hy. apply (proj2 Bd y). tauto. }
  unfold remove_ask_delta. destruct (find_alloc (ap_requests a) key) as [x|] eqn:E.
  - apply find_alloc_some in E. destruct E as [Hx Ek]. destruct (oa_allocated x) eqn:Eal; cbv beta iota.
    + assert (Ep : ap_pending (remove_ask_rec a key) = ap_pending a).
      { unfold remove_ask_rec. rewrite <- Ek, (find_alloc_in _ x Hnd Hx), Eal. reflexivity. }
      destruct (pend_same a (remove_ask_rec a key)) as (H1 & H2 & H3); try assumption.
      * intros k. rewrite Er, <- Ek, asum_filter_del_in by assumption. unfold is_pending. rewrite Eal. cbn [negb]. lia.
      * split; [exact H1|split; [exact H2|split; [exact H3|]]]. intros k. rewrite Ep, getz_nil. lia.
    + destruct (w3_req a W x Hx) as [Wx Nx _ _ _]. apply (pend_psub a _ (oa_res x)); try assumption.
      * unfold remove_ask_rec. rewrite <- Ek, (find_alloc_in _ x Hnd Hx), Eal. reflexivity.
      * apply (proj2 Bd x Hx).
      * intros k. rewrite Er, <- Ek, asum_filter_del_in by assumption. unfold is_pending. rewrite Eal. reflexivity.
  - assert (Ep : ap_pending (remove_ask_rec a key) = ap_pending a) by (unfold remove_ask_rec; rewrite E; reflexivity).
    destruct (pend_same a (remove_ask_rec a key)) as (H1 & H2 & H3); try assumption.
    + intros k. rewrite Er. apply find_alloc_none in E. rewrite del_alloc_fresh by assumption. reflexivity.
    + split; [exact H1|split; [exact H2|split; [exact H3|]]]. intros k. rewrite Ep, getz_nil. lia. Qed.
(* what is given back to the queue is a well-formed, bounded, non-negative vector below the pending ledger *)
Lemma remove_ask_delta_ok a key : AppWF3 a -> PendBd a -> wf (remove_ask_delta a key) /\ rb (remove_ask_delta a key) /\ rnonneg (remove_ask_delta a key).
Proof. intros W Bd. unfold remove_ask_delta. destruct (find_alloc _ _) as [x|] eqn:E; [|split; [apply NoDup_nil|split; [apply rb_nil|apply rnonneg_nil]]].
  apply find_alloc_some in E. destruct E as [Hx _]. destruct (oa_allocated x); [split; [apply NoDup_nil|split; [apply rb_nil|apply rnonneg_nil]]|].
  destruct (w3_req a W x Hx) as [Wx Nx _ _ _]. split; [exact Wx|split; [apply (proj2 Bd x Hx)|exact Nx]]. Qed.

(* all asks *)
Definition remove_all_asks_rec (a : oapp) : oapp := ap_set_lists (ap_set_ledgers a [] (ap_allocated a) (ap_phalloc a)) [] (ap_allocs a).
Lemma app_remove_all_asks_eq s id : app_remove_all_asks s id =
  match find_app s id with
  | None => Some s
  | Some a => if negb (no_res a) then None else
              match ap_requests a with
              | [] => Some s
              | _ => Some (upd_app (q_dec_pending (upd_app s id (fun _ => remove_all_asks_rec a)) (ap_queue a) (ap_pending a)) id asks_state_check)
              end
  end.
Proof. reflexivity. Qed.
Lemma remove_all_asks_same_alloc a : same_alloc a (remove_all_asks_rec a). Proof. repeat split. Qed.
Lemma remove_all_asks_ok a : AppWF3 a ->
  PendBooks (remove_all_asks_rec a) /\ AppWF3 (remove_all_asks_rec a) /\ PendBd (remove_all_asks_rec a) /\
  ap_pending (remove_all_asks_rec a) = [] /\ ap_requests (remove_all_asks_rec a) = [].
Proof. intros W. split; [apply LBk_nil|]. split; [|split; [split; [apply rb_nil|intros y []]|split; reflexivity]].
  apply (AppWF3_intro _ (ap_id a) [] (ap_allocs a)); try reflexivity; try apply W; [|apply NoDup_nil].
  apply (WF3_nil_req _ (ap_requests a)). apply AppWF3_raw. assumption. Qed.

(* ================================================================== 8. DeallocateAsk (app_deallocate) *)
(* the request r (key k, allocated, not an allocation) goes back to pending: flag on every copy, pending + res (not pruned) *)
Definition dealloc_app (a : oapp) (k : N) (r : oalloc) : oapp :=
  let b := flag_app a k (fun y => oa_set_allocated y false) in
  ap_set_ledgers b (Add (Some (ap_pending b)) (Some (oa_res r))) (ap_allocated b) (ap_phalloc b).
Lemma app_deallocate_apps s a k r : find_alloc (ap_requests a) k = Some r -> oa_allocated r = true ->
  s_apps (app_deallocate s a k) =
  s_apps (upd_app (upd_app s (ap_id a) (fun b => flag_app b k (fun y => oa_set_allocated y false))) (ap_id a)
                  (fun b => ap_set_ledgers b (Add (Some (ap_pending b)) (Some (oa_res r))) (ap_allocated b) (ap_phalloc b))).
Proof. intros E1 E2. unfold app_deallocate. rewrite E1, E2. reflexivity. Qed.
Lemma dealloc_ok a k r : AppWF3 a -> PendBooks a -> PendBd a -> In r (ap_requests a) -> oa_key r = k -> oa_allocated r = true ->
  ~ In k (akeys (ap_allocs a)) ->
  PendBooks (dealloc_app a k r) /\ AppWF3 (dealloc_app a k r) /\ same_alloc a (dealloc_app a k r) /\
  ap_id (dealloc_app a k r) = ap_id a /\ ap_queue (dealloc_app a k r) = ap_queue a /\
  ap_requests (dealloc_app a k r) = map_key k (fun y => oa_set_allocated y false) (ap_requests a) /\
  forall j, getz (ap_pending (dealloc_app a k r)) j = getz (ap_pending a) j + getz (oa_res r) j.
Proof. intros W BP Bd Hr Ek Hal Hf. destruct (w3_req a W r Hr) as [Wx Nx Px Ax Fx]. pose proof (proj2 Bd r Hr) as Bx.
  assert (SA : same_alloc a (dealloc_app a k r)).
  { unfold dealloc_app, flag_app. cbv zeta. apc. repeat split. apply map_key_fresh. exact Hf. }
  assert (H : PendBooks (dealloc_app a k r) /\ AppWF3 (dealloc_app a k r) /\
              forall j, getz (ap_pending (dealloc_app a k r)) j = getz (ap_pending a) j + getz (oa_res r) j).
  { apply (pend_add a _ (oa_res r)); try assumption; try reflexivity.
    - intros j. unfold dealloc_app, flag_app. cbv zeta. apc. rewrite (asum_filter_map_key_one is_pending k _ _ r) by (try assumption; apply W).
      unfold is_pending. rewrite Hal. cbn [oa_set_allocated oa_allocated oa_res negb]. lia.
    - unfold dealloc_app, flag_app. cbv zeta. apc. apply WF3_map_req; [apply AppWF3_raw; assumption|intros y E; exact E|].
      intros y Hy E. split; [apply AllocOK3_allocated, (w3_req a W y Hy)|intros _; exact Hf]. }
  destruct H as (H1 & H2 & H3). split; [exact H1|split; [exact H2|split; [exact SA|]]]. repeat split; try reflexivity. exact H3. Qed.

(* ================================================================== 9. plain release of an allocation (g_release, g_node_remove_plain) *)
Definition release_ph_app (a : oapp) (x : oalloc) (ttype : N) : oapp := app_remove_alloc a x ttype.
Lemma release_ph_app_eq a x ttype : release_ph_app a x ttype = app_remove_alloc a x ttype. Proof. reflexivity. Qed.

(* ================================================================== 10. RemoveAllAllocations (g_release_all) *)
Lemma remove_all_allocs_ok a b : AppWF3 a -> ap_id b = ap_id a -> ap_requests b = ap_requests a \/ ap_requests b = [] ->
  ap_pending b = ap_pending a -> ap_allocated b = [] -> ap_phalloc b = [] -> ap_allocs b = [] ->
  AllocBooks b /\ AppWF3 b /\ (ap_requests b = ap_requests a -> PendBooks a -> PendBooks b).
Proof. intros W Eid Er Ep E1 E2 E3. split; [|split].
  - unfold AllocBooks. rewrite E1, E2, E3. split; apply LBk_nil.
  - apply (AppWF3_intro b (ap_id a) (ap_requests b) []); auto; rewrite ?Ep, ?E1, ?E2; try apply W; try apply NoDup_nil.
    apply (WF3_nil_alloc _ _ (ap_allocs a)). apply (WF3_incl_req _ (ap_requests a)); [assumption|apply AppWF3_raw; assumption].
  - intros E BP. apply (same_pend_books a); [split; assumption|assumption]. Qed.

(* ================================================================== 11. UpdateAllocationResources (g_update_existing) *)
Definition res_delta (newres old : res) : res := Prune (Sub (Some newres) (Some old)).
(* allocated placeholder x: allocatedPlaceholder moves by the delta, every copy of the object gets the new resource *)
Definition upd_res_alloc_app (a : oapp) (x : oalloc) (newres : res) : oapp :=
  ap_set_lists (ap_set_ledgers a (ap_pending a) (ap_allocated a) (Prune (Add (Some (ap_phalloc a)) (Some (res_delta newres (oa_res x))))))
               (map_key (oa_key x) (fun y => oa_with_res y newres) (ap_requests a))
               (map_key (oa_key x) (fun y => oa_with_res y newres) (ap_allocs a)).
(* pending ask x: the pending ledger moves *)
Definition upd_res_ask_app (a : oapp) (x : oalloc) (newres : res) : oapp :=
  ap_set_lists (ap_set_ledgers a (Prune (Add (Some (ap_pending a)) (Some (res_delta newres (oa_res x))))) (ap_allocated a) (ap_phalloc a))
               (map_key (oa_key x) (fun y => oa_with_res y newres) (ap_requests a)) (ap_allocs a).
Lemma res_delta_ok newres old : wf newres -> wf old -> rb newres -> rb old -> rnonneg newres -> rnonneg old ->
  wf (res_delta newres old) /\ rb (res_delta newres old) /\ forall k, getz (res_delta newres old) k = getz newres k - getz old k.
Proof. intros W1 W2 B1 B2 N1 N2.
  assert (G : forall k, getz (res_delta newres old) k = getz newres k - getz old k) by (intros k; apply PruneSub_exact; assumption).
  split; [apply Prune_wf, Sub_wf; exact W1|]. split; [|exact G]. intros k. rewrite G.
  pose proof (rnonneg_fnonneg _ N1 k). pose proof (rnonneg_fnonneg _ N2 k). specialize (B1 k). specialize (B2 k). unfold bnd in *. lia. Qed.
Lemma AllocOK3_with_res id y r : AllocOK3 id y -> wf r -> rnonneg r -> positive r -> AllocOK3 id (oa_with_res y r).
Proof. intros [H1 H2 H3 H4 H5] W N P. constructor; assumption. Qed.

Lemma upd_res_ask_ok a x newres : AppWF3 a -> PendBooks a -> PendBd a -> In x (ap_requests a) -> oa_allocated x = false ->
  wf newres -> rb newres -> rnonneg newres -> positive newres ->
  PendBooks (upd_res_ask_app a x newres) /\ AppWF3 (upd_res_ask_app a x newres) /\ same_alloc a (upd_res_ask_app a x newres) /\
  forall k, getz (ap_pending (upd_res_ask_app a x newres)) k = getz (ap_pending a) k + (getz newres k - getz (oa_res x) k).
Proof. intros W BP Bd Hx Hna Wn Bn Nn Pn. destruct (w3_req a W x Hx) as [Wx Nx Px Ax Fx]. pose proof (proj2 Bd x Hx) as Bx.
  destruct (res_delta_ok newres (oa_res x) Wn Wx Bn Bx Nn Nx) as (Wd & Bdd & Gd).
  assert (SA : same_alloc a (upd_res_ask_app a x newres)) by (repeat split).
  assert (H : PendBooks (upd_res_ask_app a x newres) /\ AppWF3 (upd_res_ask_app a x newres) /\
              forall k, getz (ap_pending (upd_res_ask_app a x newres)) k = getz (ap_pending a) k + getz (res_delta newres (oa_res x)) k).
  { apply (pend_pmove a _ (res_delta newres (oa_res x))); try assumption; try reflexivity.
    - intros k. unfold upd_res_ask_app. apc. rewrite (asum_filter_map_key_one is_pending _ _ _ x) by (try assumption; try reflexivity; apply W).
      unfold is_pending. cbn [oa_with_res oa_allocated oa_res]. rewrite Hna, Gd. cbn [negb]. lia.
    - unfold upd_res_ask_app. apc. apply WF3_map_req; [apply AppWF3_raw; assumption|intros y E; exact E|].
      intros y Hy E. split; [apply AllocOK3_with_res; try assumption; apply (w3_req a W y Hy)|].
      cbn [oa_with_res oa_allocated]. intros Hy'. rewrite <- E. apply (w3_pending_fresh a W y Hy Hy'). }
  destruct H as (H1 & H2 & H3). split; [exact H1|split; [exact H2|split; [exact SA|]]]. intros k. rewrite H3, Gd. reflexivity. Qed.

Lemma upd_res_alloc_ok a x newres : AppWF3 a -> AppBooks a -> AppBounded3 a -> In x (ap_allocs a) -> oa_ph x = true ->
  wf newres -> rb newres -> rnonneg newres -> positive newres ->
  AppBooks (upd_res_alloc_app a x newres) /\ AppWF3 (upd_res_alloc_app a x newres) /\
  ap_pending (upd_res_alloc_app a x newres) = ap_pending a /\ ap_allocated (upd_res_alloc_app a x newres) = ap_allocated a /\
  forall k, getz (ap_phalloc (upd_res_alloc_app a x newres)) k = getz (ap_phalloc a) k + (getz newres k - getz (oa_res x) k).
Proof. intros W B Bd Hx Hph Wn Bn Nn Pn. apply AppBooks_iff in B. destruct B as (B1 & B2 & B3).
  apply AppBounded3_sides in Bd. destruct Bd as [(Ba & Bp & Bl) BdP].
  destruct (w3_alloc a W x Hx) as [Wx Nx Px Ax Fx]. pose proof (Bl x Hx) as Bx.
  destruct (res_delta_ok newres (oa_res x) Wn Wx Bn Bx Nn Nx) as (Wd & Bdd & Gd).
  pose proof (w3_alloc_keys a W) as Hnd. pose proof (w3_phalloc a W) as Wp.
  set (f := fun y => oa_with_res y newres).
  assert (Hsame : forall y, In y (ap_allocs a) -> oa_key y = oa_key x -> y = x).
  { intros y Hy E. apply (nodup_key_inj oa_key (ap_allocs a)); auto. }
  assert (R : WF3 (ap_id a) (map_key (oa_key x) f (ap_requests a)) (map_key (oa_key x) f (ap_allocs a))).
  { apply WF3_map_alloc; [|intros y E; exact E|].
    - apply WF3_map_req; [apply AppWF3_raw; assumption|intros y E; exact E|].
      intros y Hy E. split; [apply AllocOK3_with_res; try assumption; apply (w3_req a W y Hy)|].
      cbn [f oa_with_res oa_allocated]. intros Hy'. rewrite <- E. apply (w3_pending_fresh a W y Hy Hy').
    - intros y Hy E. cbn [f oa_with_res oa_ph oa_release]. split; [apply AllocOK3_with_res; try assumption; apply (w3_alloc a W y Hy)|].
      split; [apply (w3_real_nolink a W y Hy)|apply (w3_link a W y Hy)]. }
  split; [|split; [|split; [reflexivity|split; [reflexivity|]]]].
  - apply AppBooks_iff. unfold upd_res_alloc_app. apc. fold f. split; [|split].
    + apply (LBk_same _ _ (ap_allocs a)); [|exact B1]. intros k. rewrite (asum_filter_map_key_one is_real _ _ _ x) by (try assumption; reflexivity).
      unfold is_real. cbn [f oa_with_res oa_ph]. rewrite Hph. cbn [negb]. lia.
    + apply (LBk_pmove _ _ (ap_allocs a)); try assumption.
      * intros y Hy. apply (a3_nn _ y (f3_alloc _ _ _ R y Hy)).
      * intros k. rewrite (asum_filter_map_key_one oa_ph _ _ _ x) by (try assumption; reflexivity).
        cbn [f oa_with_res oa_ph oa_res]. rewrite Hph, Gd. lia.
    + apply (LBk_same _ _ (ap_requests a)); [|exact B3]. intros k. rewrite !asum_filter_as_sum. unfold map_key. rewrite map_map. f_equal.
      apply map_ext_in. intros y Hy. destruct (N.eqb_spec (oa_key y) (oa_key x)) as [E|E]; [|reflexivity].
      unfold is_pending. cbn [f oa_with_res oa_allocated oa_res]. destruct (oa_allocated y) eqn:Ey; [reflexivity|]. exfalso.
      apply (w3_pending_fresh a W y Hy Ey). rewrite E. apply in_map. exact Hx.
  - apply (AppWF3_intro _ (ap_id a) (map_key (oa_key x) f (ap_requests a)) (map_key (oa_key x) f (ap_allocs a))); try reflexivity; try apply W; [exact R|].
    unfold upd_res_alloc_app. apc. apply Prune_wf, Add_wf. exact Wp.
  - intros k. unfold upd_res_alloc_app. apc. rewrite PruneAdd_exact, Gd by assumption. reflexivity. Qed.

(* ================================================================== 12. full books of the request-side records *)
Lemma AppBooks_pend a : AppBooks a -> PendBooks a. Proof. intros B. apply AppBooks_sides in B. tauto. Qed.
Lemma AppBooks_alloc a : AppBooks a -> AllocBooks a. Proof. intros B. apply AppBooks_sides in B. tauto. Qed.
Lemma new_ask3_books a x : AppWF3 a -> AppBooks a -> PendBd a -> AllocOK3 (ap_id a) x -> rb (oa_res x) -> oa_allocated x = false ->
  ~ In (oa_key x) (akeys (ap_requests a)) -> ~ In (oa_key x) (akeys (ap_allocs a)) -> AppBooks (new_ask_app3 a x).
Proof. intros W B Bd H1 H2 H3 H4 H5. apply (books_of_sides a); [apply new_ask3_same_alloc|exact B|].
  apply (new_ask3_ok a x W (AppBooks_pend a B) Bd H1 H2 H3 H4 H5). Qed.
Lemma alloc_ask_books a ask nid : AppWF3 a -> AppBooks a -> PendBd a -> In ask (ap_requests a) -> oa_allocated ask = false ->
  AppBooks (alloc_ask_app a ask nid).
Proof. intros W B Bd H1 H2. apply (books_of_sides a); [apply alloc_ask_same_alloc|exact B|].
  apply (alloc_ask_ok a ask nid W (AppBooks_pend a B) Bd H1 H2). Qed.
Lemma swap_a1_books a real rk phk target : AppWF3 a -> AppBooks a -> PendBd a -> In real (ap_requests a) -> oa_key real = rk ->
  oa_allocated real = false -> AppBooks (swap_a1 a real rk phk target).
Proof. intros W B Bd H1 H2 H3. apply (books_of_sides a); [apply swap_a1_same_alloc|exact B|].
  apply (swap_a1_ok a real rk phk target W (AppBooks_pend a B) Bd H1 H2 H3). Qed.
Lemma remove_ask_books a key : AppWF3 a -> AppBooks a -> PendBd a -> AppBooks (remove_ask_rec a key).
Proof. intros W B Bd. apply (books_of_sides a); [apply remove_ask_same_alloc|exact B|]. apply (remove_ask_ok a key W (AppBooks_pend a B) Bd). Qed.
Lemma remove_all_asks_books a : AppWF3 a -> AppBooks a -> AppBooks (remove_all_asks_rec a).
Proof. intros W B. apply (books_of_sides a); [apply remove_all_asks_same_alloc|exact B|]. apply (remove_all_asks_ok a W). Qed.
Lemma dealloc_books a k r : AppWF3 a -> AppBooks a -> PendBd a -> In r (ap_requests a) -> oa_key r = k -> oa_allocated r = true ->
  ~ In k (akeys (ap_allocs a)) -> AppBooks (dealloc_app a k r).
Proof. intros W B Bd H1 H2 H3 H4. destruct (dealloc_ok a k r W (AppBooks_pend a B) Bd H1 H2 H3 H4) as (P & _ & SA & _).
  apply (books_of_sides a); assumption. Qed.
Lemma upd_res_ask_books a x newres : AppWF3 a -> AppBooks a -> PendBd a -> In x (ap_requests a) -> oa_allocated x = false ->
  wf newres -> rb newres -> rnonneg newres -> positive newres -> AppBooks (upd_res_ask_app a x newres).
Proof. intros W B Bd H1 H2 H3 H4 H5 H6. destruct (upd_res_ask_ok a x newres W (AppBooks_pend a B) Bd H1 H2 H3 H4 H5 H6) as (P & _ & SA & _).
  apply (books_of_sides a); assumption. Qed.
(* the state check after removeAsksInternal keeps everything *)
Lemma state_check_ok a : (AppBooks a -> AppBooks (asks_state_check a)) /\ (AppWF3 a -> AppWF3 (asks_state_check a)) /\
  (AppBounded3 a -> AppBounded3 (asks_state_check a)) /\ ap_id (asks_state_check a) = ap_id a /\ ap_queue (asks_state_check a) = ap_queue a /\
  is_terminal (ap_state (asks_state_check a)) = is_terminal (ap_state a).
Proof. pose proof (same_ledgers_state_check a) as S. split; [apply (same_ledgers_books _ _ S)|]. split; [apply (same_ledgers_wf3 _ _ S)|].
  split; [apply (same_ledgers_bounded3 _ _ S)|]. split; [apply (sl_id _ _ S)|]. split; [apply (sl_queue _ _ S)|apply asks_state_check_terminal]. Qed.
