(* C03 over the gang fragment (Core/Model3.v): application-record lemmas, part 1.
   - field equations of the record updaters ([ap_with_ph], [ap_set_lists], [ap_set_ledgers], [oa_set_*], [oa_bound]);
   - the application FSM with its callbacks ([fsm3], [app_fire], [asks_state_check]): which events can reach a terminal
     state, what happens to the request list;
   - [app_add_alloc] / [app_remove_alloc]: field equations and the exact condition [remove_terminates] under which the
     removal of an allocation terminates the application;
   - [map_key];
   - small arithmetic ([IsZero], [positive]);
   - the books and the well-formedness of an application on RAW data ([LBk], [WF3]): one lemma per elementary list /
     ledger transformation.  Core/Model3ProofsA2.v instantiates them on the records the gang operations build. *)
From Coq Require Import List ZArith NArith Bool Lia ZifyBool.
From YK Require Import Base.Int64 Base.Res Base.ResSpec Base.ResLemmas Base.ResLaws Base.ResLaws2 Core.Obs Core.Model Core.Model2
  Core.Model3 Core.Ledger Core.BooksLemmas Core.BooksDefs Core.BooksApp Core.Model3ProofsD.
Import ListNotations.
Open Scope Z_scope.
Set Default Timeout 30.

(* ================================================================== 1. record updaters *)
Ltac apc := cbn [ap_id ap_queue ap_state ap_user ap_pending ap_allocated ap_phalloc ap_phask ap_requests ap_allocs ap_phdata
                 ap_phtimer ap_statetimer ap_hasph ap_statelog ap_set_lists ap_set_ledgers ap_with ap_with_ph].

Lemma ap_with_ph_id a d t1 t2 h : ap_id (ap_with_ph a d t1 t2 h) = ap_id a. Proof. reflexivity. Qed.
Lemma ap_with_ph_queue a d t1 t2 h : ap_queue (ap_with_ph a d t1 t2 h) = ap_queue a. Proof. reflexivity. Qed.
Lemma ap_with_ph_state a d t1 t2 h : ap_state (ap_with_ph a d t1 t2 h) = ap_state a. Proof. reflexivity. Qed.
Lemma ap_with_ph_user a d t1 t2 h : ap_user (ap_with_ph a d t1 t2 h) = ap_user a. Proof. reflexivity. Qed.
Lemma ap_with_ph_pending a d t1 t2 h : ap_pending (ap_with_ph a d t1 t2 h) = ap_pending a. Proof. reflexivity. Qed.
Lemma ap_with_ph_allocated a d t1 t2 h : ap_allocated (ap_with_ph a d t1 t2 h) = ap_allocated a. Proof. reflexivity. Qed.
Lemma ap_with_ph_phalloc a d t1 t2 h : ap_phalloc (ap_with_ph a d t1 t2 h) = ap_phalloc a. Proof. reflexivity. Qed.
Lemma ap_with_ph_phask a d t1 t2 h : ap_phask (ap_with_ph a d t1 t2 h) = ap_phask a. Proof. reflexivity. Qed.
Lemma ap_with_ph_requests a d t1 t2 h : ap_requests (ap_with_ph a d t1 t2 h) = ap_requests a. Proof. reflexivity. Qed.
Lemma ap_with_ph_allocs a d t1 t2 h : ap_allocs (ap_with_ph a d t1 t2 h) = ap_allocs a. Proof. reflexivity. Qed.
Lemma ap_with_ph_statetimer a d t1 t2 h : ap_statetimer (ap_with_ph a d t1 t2 h) = t2. Proof. reflexivity. Qed.
Lemma ap_with_ph_phtimer a d t1 t2 h : ap_phtimer (ap_with_ph a d t1 t2 h) = t1. Proof. reflexivity. Qed.
Lemma ap_with_ph_phdata a d t1 t2 h : ap_phdata (ap_with_ph a d t1 t2 h) = d. Proof. reflexivity. Qed.

Lemma ap_set_lists_id a l1 l2 : ap_id (ap_set_lists a l1 l2) = ap_id a. Proof. reflexivity. Qed.
Lemma ap_set_lists_queue a l1 l2 : ap_queue (ap_set_lists a l1 l2) = ap_queue a. Proof. reflexivity. Qed.
Lemma ap_set_lists_state a l1 l2 : ap_state (ap_set_lists a l1 l2) = ap_state a. Proof. reflexivity. Qed.
Lemma ap_set_lists_user a l1 l2 : ap_user (ap_set_lists a l1 l2) = ap_user a. Proof. reflexivity. Qed.
Lemma ap_set_lists_pending a l1 l2 : ap_pending (ap_set_lists a l1 l2) = ap_pending a. Proof. reflexivity. Qed.
Lemma ap_set_lists_allocated a l1 l2 : ap_allocated (ap_set_lists a l1 l2) = ap_allocated a. Proof. reflexivity. Qed.
Lemma ap_set_lists_phalloc a l1 l2 : ap_phalloc (ap_set_lists a l1 l2) = ap_phalloc a. Proof. reflexivity. Qed.
Lemma ap_set_lists_requests a l1 l2 : ap_requests (ap_set_lists a l1 l2) = l1. Proof. reflexivity. Qed.
Lemma ap_set_lists_allocs a l1 l2 : ap_allocs (ap_set_lists a l1 l2) = l2. Proof. reflexivity. Qed.
Lemma ap_set_lists_statetimer a l1 l2 : ap_statetimer (ap_set_lists a l1 l2) = ap_statetimer a. Proof. reflexivity. Qed.
Lemma ap_set_lists_same a : ap_set_lists a (ap_requests a) (ap_allocs a) = a. Proof. destruct a; reflexivity. Qed.

Lemma ap_set_ledgers_id a p q r : ap_id (ap_set_ledgers a p q r) = ap_id a. Proof. reflexivity. Qed.
Lemma ap_set_ledgers_queue a p q r : ap_queue (ap_set_ledgers a p q r) = ap_queue a. Proof. reflexivity. Qed.
Lemma ap_set_ledgers_state a p q r : ap_state (ap_set_ledgers a p q r) = ap_state a. Proof. reflexivity. Qed.
Lemma ap_set_ledgers_user a p q r : ap_user (ap_set_ledgers a p q r) = ap_user a. Proof. reflexivity. Qed.
Lemma ap_set_ledgers_pending a p q r : ap_pending (ap_set_ledgers a p q r) = p. Proof. reflexivity. Qed.
Lemma ap_set_ledgers_allocated a p q r : ap_allocated (ap_set_ledgers a p q r) = q. Proof. reflexivity. Qed.
Lemma ap_set_ledgers_phalloc a p q r : ap_phalloc (ap_set_ledgers a p q r) = r. Proof. reflexivity. Qed.
Lemma ap_set_ledgers_requests a p q r : ap_requests (ap_set_ledgers a p q r) = ap_requests a. Proof. reflexivity. Qed.
Lemma ap_set_ledgers_allocs a p q r : ap_allocs (ap_set_ledgers a p q r) = ap_allocs a. Proof. reflexivity. Qed.
Lemma ap_set_ledgers_statetimer a p q r : ap_statetimer (ap_set_ledgers a p q r) = ap_statetimer a. Proof. reflexivity. Qed.
Global Hint Rewrite ap_with_ph_id ap_with_ph_queue ap_with_ph_state ap_with_ph_pending ap_with_ph_allocated ap_with_ph_phalloc
  ap_with_ph_requests ap_with_ph_allocs ap_with_ph_statetimer ap_set_lists_id ap_set_lists_queue ap_set_lists_state
  ap_set_lists_pending ap_set_lists_allocated ap_set_lists_phalloc ap_set_lists_requests ap_set_lists_allocs ap_set_lists_statetimer
  ap_set_ledgers_id ap_set_ledgers_queue ap_set_ledgers_state ap_set_ledgers_pending ap_set_ledgers_allocated ap_set_ledgers_phalloc
  ap_set_ledgers_requests ap_set_ledgers_allocs ap_set_ledgers_statetimer : apf3.

(* the allocation record updaters change one field *)
Lemma oa_set_released_proj x b : oa_key (oa_set_released x b) = oa_key x /\ oa_app (oa_set_released x b) = oa_app x /\
  oa_node (oa_set_released x b) = oa_node x /\ oa_res (oa_set_released x b) = oa_res x /\ oa_ph (oa_set_released x b) = oa_ph x /\
  oa_tg (oa_set_released x b) = oa_tg x /\ oa_allocated (oa_set_released x b) = oa_allocated x /\ oa_released (oa_set_released x b) = b /\
  oa_release (oa_set_released x b) = oa_release x /\ oa_foreign (oa_set_released x b) = oa_foreign x /\
  oa_preempted (oa_set_released x b) = oa_preempted x.
Proof. repeat split. Qed.
Lemma oa_set_link_proj x k : oa_key (oa_set_link x k) = oa_key x /\ oa_app (oa_set_link x k) = oa_app x /\
  oa_node (oa_set_link x k) = oa_node x /\ oa_res (oa_set_link x k) = oa_res x /\ oa_ph (oa_set_link x k) = oa_ph x /\
  oa_tg (oa_set_link x k) = oa_tg x /\ oa_allocated (oa_set_link x k) = oa_allocated x /\ oa_released (oa_set_link x k) = oa_released x /\
  oa_release (oa_set_link x k) = k /\ oa_foreign (oa_set_link x k) = oa_foreign x /\ oa_preempted (oa_set_link x k) = oa_preempted x.
Proof. repeat split. Qed.
Lemma oa_set_allocated_proj x b : oa_key (oa_set_allocated x b) = oa_key x /\ oa_app (oa_set_allocated x b) = oa_app x /\
  oa_node (oa_set_allocated x b) = oa_node x /\ oa_res (oa_set_allocated x b) = oa_res x /\ oa_ph (oa_set_allocated x b) = oa_ph x /\
  oa_tg (oa_set_allocated x b) = oa_tg x /\ oa_allocated (oa_set_allocated x b) = b /\ oa_released (oa_set_allocated x b) = oa_released x /\
  oa_release (oa_set_allocated x b) = oa_release x /\ oa_foreign (oa_set_allocated x b) = oa_foreign x /\
  oa_preempted (oa_set_allocated x b) = oa_preempted x.
Proof. repeat split. Qed.
Lemma oa_bound_proj x n : oa_key (oa_bound x n) = oa_key x /\ oa_app (oa_bound x n) = oa_app x /\
  oa_node (oa_bound x n) = n /\ oa_res (oa_bound x n) = oa_res x /\ oa_ph (oa_bound x n) = oa_ph x /\
  oa_tg (oa_bound x n) = oa_tg x /\ oa_allocated (oa_bound x n) = true /\ oa_released (oa_bound x n) = oa_released x /\
  oa_release (oa_bound x n) = oa_release x /\ oa_foreign (oa_bound x n) = oa_foreign x /\ oa_preempted (oa_bound x n) = oa_preempted x.
Proof. repeat split. Qed.
Lemma oa_set_link_idem x k : oa_set_link (oa_set_link x k) k = oa_set_link x k. Proof. reflexivity. Qed.
Lemma oa_set_link_same x : oa_set_link x (oa_release x) = x. Proof. destruct x; reflexivity. Qed.

(* AllocOK3 looks at resource, owner and origin only *)
Lemma AllocOK3_ext id x y : oa_res y = oa_res x -> oa_app y = oa_app x -> oa_foreign y = oa_foreign x -> AllocOK3 id x -> AllocOK3 id y.
Proof. intros E1 E2 E3 [H1 H2 H3 H4 H5]. constructor; rewrite ?E1, ?E2, ?E3; assumption. Qed.
Lemma AllocOK3_released id x b : AllocOK3 id x -> AllocOK3 id (oa_set_released x b). Proof. apply AllocOK3_ext; reflexivity. Qed.
Lemma AllocOK3_link id x k : AllocOK3 id x -> AllocOK3 id (oa_set_link x k). Proof. apply AllocOK3_ext; reflexivity. Qed.
Lemma AllocOK3_allocated id x b : AllocOK3 id x -> AllocOK3 id (oa_set_allocated x b). Proof. apply AllocOK3_ext; reflexivity. Qed.
Lemma AllocOK3_bound id x n : AllocOK3 id x -> AllocOK3 id (oa_bound x n). Proof. apply AllocOK3_ext; reflexivity. Qed.

(* ================================================================== 2. the application FSM *)
Lemma fsm3_terminal st e : is_terminal st = true -> fsm3 st e = None.
Proof. unfold is_terminal. intros H. apply orb_true_iff in H. destruct H as [H|H]; apply N.eqb_eq in H; subst st; destruct e; reflexivity. Qed.
Lemma fsm3_run st st' : fsm3 st AvRun = Some st' -> is_terminal st' = false.
Proof. unfold fsm3. destruct (_ || _); [intros [= <-]; reflexivity|]. destruct (_ || _); [intros [= <-]; reflexivity|discriminate]. Qed.
Lemma fsm3_resume st st' : fsm3 st AvResume = Some st' -> is_terminal st' = false.
Proof. unfold fsm3. destruct (_ || _); [intros [= <-]; reflexivity|discriminate]. Qed.
Lemma fsm3_complete st st' : fsm3 st AvComplete = Some st' -> is_terminal st' = (st =? ST_Completing)%N.
Proof. unfold fsm3. destruct (N.eqb_spec st ST_Accepted) as [->|]; [intros [= <-]; reflexivity|].
  destruct (N.eqb_spec st ST_Running) as [->|]; [intros [= <-]; reflexivity|]. cbn [orb].
  destruct (N.eqb_spec st ST_Completing); [intros [= <-]; reflexivity|discriminate]. Qed.
Lemma fsm3_fail st st' : fsm3 st AvFail = Some st' -> is_terminal st' = (st =? ST_Failing)%N.
Proof. unfold fsm3. destruct (N.eqb_spec st ST_New) as [->|]; [intros [= <-]; reflexivity|].
  destruct (N.eqb_spec st ST_Accepted) as [->|]; [intros [= <-]; reflexivity|].
  destruct (N.eqb_spec st ST_Running) as [->|]; [intros [= <-]; reflexivity|]. cbn [orb].
  destruct (N.eqb_spec st ST_Failing); [intros [= <-]; reflexivity|discriminate]. Qed.

Ltac fire := unfold app_fire; destruct (fsm3 _ _) as [?st|]; [destruct (_ =? _)%N|]; reflexivity.
Lemma app_fire_id a e : ap_id (app_fire a e) = ap_id a. Proof. fire. Qed.
Lemma app_fire_queue a e : ap_queue (app_fire a e) = ap_queue a. Proof. fire. Qed.
Lemma app_fire_user a e : ap_user (app_fire a e) = ap_user a. Proof. fire. Qed.
Lemma app_fire_pending a e : ap_pending (app_fire a e) = ap_pending a. Proof. fire. Qed.
Lemma app_fire_allocated a e : ap_allocated (app_fire a e) = ap_allocated a. Proof. fire. Qed.
Lemma app_fire_phalloc a e : ap_phalloc (app_fire a e) = ap_phalloc a. Proof. fire. Qed.
Lemma app_fire_phask a e : ap_phask (app_fire a e) = ap_phask a. Proof. fire. Qed.
Lemma app_fire_allocs a e : ap_allocs (app_fire a e) = ap_allocs a. Proof. fire. Qed.
Lemma app_fire_phdata a e : ap_phdata (app_fire a e) = ap_phdata a. Proof. fire. Qed.
Lemma app_fire_hasph a e : ap_hasph (app_fire a e) = ap_hasph a. Proof. fire. Qed.
Lemma app_fire_state a e : ap_state (app_fire a e) = match fsm3 (ap_state a) e with Some st' => st' | None => ap_state a end.
Proof. unfold app_fire. destruct (fsm3 _ _) as [st'|]; [|reflexivity]. destruct (N.eqb_spec st' (ap_state a)); [symmetry; assumption|reflexivity]. Qed.
(* the request list is kept, or - exactly when a terminal state is entered - emptied (cleanupAsks) *)
Lemma app_fire_requests a e :
  ap_requests (app_fire a e) = if is_terminal (ap_state (app_fire a e)) && negb (is_terminal (ap_state a)) then [] else ap_requests a.
Proof. destruct (is_terminal (ap_state a)) eqn:T.
  - rewrite andb_false_r. unfold app_fire. rewrite fsm3_terminal by assumption. reflexivity.
  - rewrite andb_true_r. unfold app_fire. destruct (fsm3 _ _) as [st'|]; [destruct (N.eqb_spec st' (ap_state a))|]; apc; rewrite ?T; reflexivity. Qed.
Lemma app_fire_requests_live a e : is_terminal (ap_state (app_fire a e)) = false -> ap_requests (app_fire a e) = ap_requests a.
Proof. intros H. rewrite app_fire_requests, H. reflexivity. Qed.
Lemma app_fire_requests_incl a e : incl (ap_requests (app_fire a e)) (ap_requests a).
Proof. rewrite app_fire_requests. destruct (_ && _); [intros y []|apply incl_refl]. Qed.

Lemma app_fire_terminal_run a : is_terminal (ap_state (app_fire a AvRun)) = is_terminal (ap_state a).
Proof. rewrite app_fire_state. destruct (fsm3 _ _) eqn:E; [|reflexivity]. rewrite (fsm3_run _ _ E).
  destruct (is_terminal (ap_state a)) eqn:T; [|reflexivity]. rewrite fsm3_terminal in E by assumption. discriminate. Qed.
Lemma app_fire_terminal_resume a : is_terminal (ap_state (app_fire a AvResume)) = is_terminal (ap_state a).
Proof. rewrite app_fire_state. destruct (fsm3 _ _) eqn:E; [|reflexivity]. rewrite (fsm3_resume _ _ E).
  destruct (is_terminal (ap_state a)) eqn:T; [|reflexivity]. rewrite fsm3_terminal in E by assumption. discriminate. Qed.
Lemma app_fire_terminal_complete a :
  is_terminal (ap_state (app_fire a AvComplete)) = is_terminal (ap_state a) || (ap_state a =? ST_Completing)%N.
Proof. rewrite app_fire_state. destruct (fsm3 _ _) eqn:E.
  - rewrite (fsm3_complete _ _ E). destruct (is_terminal (ap_state a)) eqn:T; [|reflexivity]. rewrite fsm3_terminal in E by assumption. discriminate.
  - destruct (N.eqb_spec (ap_state a) ST_Completing) as [e|]; [rewrite e in E; discriminate|rewrite orb_false_r; reflexivity]. Qed.
Lemma app_fire_terminal_fail a :
  is_terminal (ap_state (app_fire a AvFail)) = is_terminal (ap_state a) || (ap_state a =? ST_Failing)%N.
Proof. rewrite app_fire_state. destruct (fsm3 _ _) eqn:E.
  - rewrite (fsm3_fail _ _ E). destruct (is_terminal (ap_state a)) eqn:T; [|reflexivity]. rewrite fsm3_terminal in E by assumption. discriminate.
  - destruct (N.eqb_spec (ap_state a) ST_Failing) as [e|]; [rewrite e in E; discriminate|rewrite orb_false_r; reflexivity]. Qed.
Lemma app_fire_run_requests a : ap_requests (app_fire a AvRun) = ap_requests a.
Proof. rewrite app_fire_requests, app_fire_terminal_run. destruct (is_terminal _); reflexivity. Qed.
Lemma app_fire_resume_requests a : ap_requests (app_fire a AvResume) = ap_requests a.
Proof. rewrite app_fire_requests, app_fire_terminal_resume. destruct (is_terminal _); reflexivity. Qed.
Global Hint Rewrite app_fire_id app_fire_queue app_fire_pending app_fire_allocated app_fire_phalloc app_fire_allocs
  app_fire_run_requests app_fire_resume_requests : apf3.

Lemma same_ledgers_fire_run a : same_ledgers a (app_fire a AvRun).
Proof. constructor; autorewrite with apf3; reflexivity. Qed.
Lemma same_ledgers_fire_resume a : same_ledgers a (app_fire a AvResume).
Proof. constructor; autorewrite with apf3; reflexivity. Qed.
Lemma same_ledgers_fire_live a e : is_terminal (ap_state (app_fire a e)) = false -> same_ledgers a (app_fire a e).
Proof. intros H. constructor; autorewrite with apf3; try reflexivity. apply app_fire_requests_live. assumption. Qed.
Lemma same_ledgers_with_ph a d t1 t2 h : same_ledgers a (ap_with_ph a d t1 t2 h). Proof. constructor; reflexivity. Qed.

(* the state check at the end of removeAsksInternal never terminates the application *)
Lemma asks_state_check_terminal a : is_terminal (ap_state (asks_state_check a)) = is_terminal (ap_state a).
Proof. unfold asks_state_check. destruct (_ && _) eqn:C; [|reflexivity]. rewrite app_fire_terminal_complete.
  rewrite !andb_true_iff in C. destruct C as [[_ C] _]. destruct (ap_state a =? ST_Completing)%N; [discriminate|apply orb_false_r]. Qed.
Lemma same_ledgers_state_check a : same_ledgers a (asks_state_check a).
Proof. destruct (is_terminal (ap_state a)) eqn:T.
  - unfold asks_state_check. destruct (_ && _); [|apply same_ledgers_refl]. unfold app_fire. rewrite fsm3_terminal by assumption. apply same_ledgers_refl.
  - pose proof (asks_state_check_terminal a) as H. rewrite T in H. unfold asks_state_check in *. destruct (_ && _); [|apply same_ledgers_refl].
    apply same_ledgers_fire_live. assumption. Qed.
(* ================================================================== 3. addAllocationInternal / removeAllocationInternal *)
Ltac ifs := repeat match goal with |- context [if ?c then _ else _] => destruct c end.
Ltac addf := unfold app_add_alloc; cbv zeta; destruct (oa_ph _); ifs; apc; autorewrite with apf3; reflexivity.
Lemma app_add_alloc_id a r x : ap_id (app_add_alloc a r x) = ap_id a. Proof. addf. Qed.
Lemma app_add_alloc_queue a r x : ap_queue (app_add_alloc a r x) = ap_queue a. Proof. addf. Qed.
Lemma app_add_alloc_pending a r x : ap_pending (app_add_alloc a r x) = ap_pending a. Proof. addf. Qed.
Lemma app_add_alloc_requests a r x : ap_requests (app_add_alloc a r x) = ap_requests a. Proof. addf. Qed.
Lemma app_add_alloc_allocs a r x : ap_allocs (app_add_alloc a r x) = put_alloc x (ap_allocs a). Proof. addf. Qed.
Lemma app_add_alloc_allocated a r x :
  ap_allocated (app_add_alloc a r x) = if oa_ph x then ap_allocated a else Add (Some (ap_allocated a)) (Some (oa_res x)).
Proof. unfold app_add_alloc; cbv zeta; destruct (oa_ph _); ifs; apc; autorewrite with apf3; reflexivity. Qed.
Lemma app_add_alloc_phalloc a r x :
  ap_phalloc (app_add_alloc a r x) = if oa_ph x then Add (Some (ap_phalloc a)) (Some (oa_res x)) else ap_phalloc a.
Proof. unfold app_add_alloc; cbv zeta; destruct (oa_ph _); ifs; apc; autorewrite with apf3; reflexivity. Qed.
Lemma app_add_alloc_terminal a r x : is_terminal (ap_state (app_add_alloc a r x)) = is_terminal (ap_state a).
Proof. unfold app_add_alloc; cbv zeta; destruct (oa_ph _); ifs; apc; rewrite ?app_fire_terminal_run; reflexivity. Qed.

Ltac remf := unfold app_remove_alloc; cbv zeta; destruct (oa_ph _); ifs; apc; autorewrite with apf3; reflexivity.
Lemma app_remove_alloc_id a x t : ap_id (app_remove_alloc a x t) = ap_id a. Proof. remf. Qed.
Lemma app_remove_alloc_queue a x t : ap_queue (app_remove_alloc a x t) = ap_queue a. Proof. remf. Qed.
Lemma app_remove_alloc_pending a x t : ap_pending (app_remove_alloc a x t) = ap_pending a. Proof. remf. Qed.
Lemma app_remove_alloc_allocs a x t : ap_allocs (app_remove_alloc a x t) = del_alloc (oa_key x) (ap_allocs a). Proof. remf. Qed.
Lemma app_remove_alloc_allocated a x t :
  ap_allocated (app_remove_alloc a x t) = if oa_ph x then ap_allocated a else Prune (Sub (Some (ap_allocated a)) (Some (oa_res x))).
Proof. remf. Qed.
Lemma app_remove_alloc_phalloc a x t :
  ap_phalloc (app_remove_alloc a x t) = if oa_ph x then Prune (Sub (Some (ap_phalloc a)) (Some (oa_res x))) else ap_phalloc a.
Proof. remf. Qed.

(* the removal of allocation x terminates the (live) application exactly in these cases *)
Definition remove_terminates (a : oapp) (x : oalloc) : bool :=
  if oa_ph x then
    IsZero (Some (Prune (Sub (Some (ap_phalloc a)) (Some (oa_res x))))) &&
    ((ap_state a =? ST_Failing)%N ||
     ((ap_state a =? ST_Completing)%N && (negb (ap_statetimer a) || (IsZero (Some (ap_pending a)) && IsZero (Some (ap_allocated a))))))
  else IsZero (Some (ap_pending a)) && IsZero (Some (Prune (Sub (Some (ap_allocated a)) (Some (oa_res x))))) && (ap_state a =? ST_Completing)%N.

Lemma app_remove_alloc_terminal a x t :
  is_terminal (ap_state (app_remove_alloc a x t)) = is_terminal (ap_state a) || remove_terminates a x.
Proof. unfold app_remove_alloc, remove_terminates. cbv zeta. destruct (oa_ph x).
  - apc. destruct (IsZero (Some (Prune _))); [|apc; rewrite orb_false_r; reflexivity]. cbn [andb].
    destruct a as [id q st u pe al ph pa rq als rs pd sl t1 t2 fo hp]. apc.
    destruct (N.eqb_spec st ST_Failing) as [->|F].
    { cbn [orb andb]. rewrite orb_true_r. cbn [orb]. apc. rewrite app_fire_terminal_fail. reflexivity. }
    destruct (N.eqb_spec st ST_Resuming) as [->|R].
    { cbn [orb andb]. rewrite orb_true_r. cbn [orb]. apc. rewrite app_fire_terminal_run. reflexivity. }
    cbn [orb]. rewrite !orb_false_r.
    destruct (st =? ST_Completing)%N eqn:Cg, (negb t2), (IsZero (Some pe) && IsZero (Some al)); cbn [andb orb]; apc;
      rewrite ?app_fire_terminal_complete; apc; rewrite ?Cg, ?orb_true_r, ?orb_false_r; reflexivity.
  - apc. destruct (_ && _); apc; [|rewrite orb_false_r; reflexivity]. rewrite app_fire_terminal_complete. apc. reflexivity. Qed.
(* requests: kept, or emptied together with entering a terminal state *)
Lemma app_remove_alloc_requests a x t :
  ap_requests (app_remove_alloc a x t) =
  if is_terminal (ap_state (app_remove_alloc a x t)) && negb (is_terminal (ap_state a)) then [] else ap_requests a.
Proof. unfold app_remove_alloc. cbv zeta. destruct (oa_ph x); apc.
  - destruct (IsZero _); apc; [|destruct (is_terminal _); reflexivity]. destruct (_ || _); apc; [|destruct (is_terminal _); reflexivity].
    rewrite app_fire_requests. reflexivity.
  - destruct (_ && _); apc; [|destruct (is_terminal _); reflexivity]. rewrite app_fire_requests. reflexivity. Qed.
Lemma app_remove_alloc_requests_live a x t : is_terminal (ap_state (app_remove_alloc a x t)) = false ->
  ap_requests (app_remove_alloc a x t) = ap_requests a.
Proof. intros H. rewrite app_remove_alloc_requests, H. reflexivity. Qed.
Lemma app_remove_alloc_live a x t : is_terminal (ap_state a) = false -> remove_terminates a x = false ->
  is_terminal (ap_state (app_remove_alloc a x t)) = false.
Proof. intros H1 H2. rewrite app_remove_alloc_terminal, H1, H2. reflexivity. Qed.
Lemma app_remove_alloc_requests_term a x t : is_terminal (ap_state a) = false -> remove_terminates a x = true ->
  ap_requests (app_remove_alloc a x t) = [].
Proof. intros H1 H2. rewrite app_remove_alloc_requests, app_remove_alloc_terminal, H1, H2. reflexivity. Qed.
Lemma app_remove_alloc_requests_incl a x t : incl (ap_requests (app_remove_alloc a x t)) (ap_requests a).
Proof. rewrite app_remove_alloc_requests. destruct (_ && _); [intros y []|apply incl_refl]. Qed.

(* ================================================================== 4. map_key *)
Lemma map_key_updk k f l : map_key k f l = updk oa_key l k f. Proof. reflexivity. Qed.
Lemma in_map_key k f l y : In y (map_key k f l) <-> exists z, In z l /\ y = if (oa_key z =? k)%N then f z else z.
Proof. apply (in_updk oa_key). Qed.
Lemma akeys_map_key k f l : (forall y, oa_key y = k -> oa_key (f y) = k) -> akeys (map_key k f l) = akeys l.
Proof. intros H. apply (updk_keys oa_key). intros y E. rewrite (H y E). auto. Qed.
Lemma map_key_fresh k f l : ~ In k (akeys l) -> map_key k f l = l.
Proof. apply (updk_fresh oa_key). Qed.
Lemma map_key_id k f l : (forall y, In y l -> oa_key y = k -> f y = y) -> map_key k f l = l.
Proof. intros H. unfold map_key. rewrite <- (map_id l) at 2. apply map_ext_in. intros y Hy.
  destruct (N.eqb_spec (oa_key y) k); auto. Qed.
Lemma in_map_key_nodup k f l x y : NoDup (akeys l) -> In x l -> oa_key x = k ->
  (In y (map_key k f l) <-> y = f x \/ (In y l /\ oa_key y <> k)).
Proof. intros Hnd Hx Ek. rewrite in_map_key. split.
  - intros (z & Hz & ->). destruct (N.eqb_spec (oa_key z) k) as [E|E]; [left|right; auto]. f_equal.
    apply (nodup_key_inj oa_key l); auto. congruence.
  - intros [->|[Hy Hne]]; [exists x; subst k; rewrite N.eqb_refl; auto|]. exists y. split; [assumption|].
    destruct (N.eqb_spec (oa_key y) k); [contradiction|reflexivity]. Qed.
Lemma find_alloc_map_key k f l k' : (forall y, oa_key y = k -> oa_key (f y) = k) ->
  find_alloc (map_key k f l) k' = option_map (fun y => if (oa_key y =? k)%N then f y else y) (find_alloc l k').
Proof. intros H. apply (findk_updk oa_key). intros y E. rewrite (H y E). auto. Qed.
Lemma map_res_map_key k f l : (forall y, In y l -> oa_key y = k -> oa_res (f y) = oa_res y) -> map oa_res (map_key k f l) = map oa_res l.
Proof. intros H. unfold map_key. rewrite map_map. apply map_ext_in. intros y Hy. destruct (N.eqb_spec (oa_key y) k); auto. Qed.
Lemma asum_map_key k f l j : (forall y, In y l -> oa_key y = k -> oa_res (f y) = oa_res y) -> asum (map_key k f l) j = asum l j.
Proof. intros H. unfold asum. rewrite map_res_map_key by assumption. reflexivity. Qed.
Lemma filter_map_key (P : oalloc -> bool) k f l : (forall y, In y l -> oa_key y = k -> P (f y) = P y) ->
  filter P (map_key k f l) = map_key k f (filter P l).
Proof. induction l as [|y t IH]; intros H; [reflexivity|]. unfold map_key in *. cbn [map filter].
  assert (E : P (if (oa_key y =? k)%N then f y else y) = P y).
  { destruct (N.eqb_spec (oa_key y) k); [apply H; [left; reflexivity|assumption]|reflexivity]. }
  rewrite E. destruct (P y); cbn [map]; rewrite IH; auto; intros z Hz; apply H; right; assumption. Qed.
Lemma asum_filter_as_sum (P : oalloc -> bool) l j : asum (filter P l) j = sumz (map (fun y => if P y then oa_res y else []) l) j.
Proof. induction l as [|y t IH]; [reflexivity|]. cbn [filter map]. rewrite sumz_cons, <- IH. destruct (P y); [rewrite asum_cons|rewrite getz_nil]; lia. Qed.
(* flags that do not touch key, resource and the filter *)
Lemma asum_filter_map_key (P : oalloc -> bool) k f l j :
  (forall y, In y l -> oa_key y = k -> oa_res (f y) = oa_res y /\ P (f y) = P y) -> asum (filter P (map_key k f l)) j = asum (filter P l) j.
Proof. intros H. rewrite !asum_filter_as_sum. unfold map_key. rewrite map_map. f_equal. apply map_ext_in. intros y Hy.
  destruct (N.eqb_spec (oa_key y) k) as [E|E]; [|reflexivity]. destruct (H y Hy E) as [-> ->]. reflexivity. Qed.
(* the record with key k is replaced *)
Lemma asum_filter_map_key_one (P : oalloc -> bool) k f l x j : NoDup (akeys l) -> In x l -> oa_key x = k ->
  asum (filter P (map_key k f l)) j =
  asum (filter P l) j + (if P (f x) then getz (oa_res (f x)) j else 0) - (if P x then getz (oa_res x) j else 0).
Proof. intros Hnd Hx Ek. rewrite !asum_filter_as_sum, map_key_updk.
  rewrite (sumz_updk oa_key (fun y => if P y then oa_res y else []) l k f x j Hnd Hx Ek).
  destruct (P (f x)), (P x); rewrite ?getz_nil; lia. Qed.
Lemma asum_filter_put_fresh (P : oalloc -> bool) l x j : NoDup (akeys l) -> ~ In (oa_key x) (akeys l) ->
  asum (filter P (put_alloc x l)) j = asum (filter P l) j + (if P x then getz (oa_res x) j else 0).
Proof. intros Hnd Hf. rewrite asum_filter_put by assumption. apply find_alloc_none in Hf. rewrite Hf. lia. Qed.
Lemma asum_filter_put_over (P : oalloc -> bool) l x y j : NoDup (akeys l) -> In y l -> oa_key y = oa_key x ->
  asum (filter P (put_alloc x l)) j =
  asum (filter P l) j + (if P x then getz (oa_res x) j else 0) - (if P y then getz (oa_res y) j else 0).
Proof. intros Hnd Hy E. rewrite asum_filter_put by assumption. rewrite <- E, (find_alloc_in l y Hnd Hy). reflexivity. Qed.
Lemma asum_filter_del_in (P : oalloc -> bool) l x j : NoDup (akeys l) -> In x l ->
  asum (filter P (del_alloc (oa_key x) l)) j = asum (filter P l) j - (if P x then getz (oa_res x) j else 0).
Proof. intros Hnd Hx. rewrite asum_filter_del by assumption. rewrite (find_alloc_in l x Hnd Hx). reflexivity. Qed.

(* ================================================================== 5. small arithmetic *)
Lemma IsZero_iff r : wf r -> (IsZero (Some r) = true <-> forall k, getz r k = 0).
Proof. intros Hwf. cbn [IsZero]. rewrite forallb_forall. split.
  - intros H k. unfold getz. destruct (get r k) as [v|] eqn:E; [|reflexivity]. apply get_some_in in E. specialize (H _ E). cbn [snd] in H. lia.
  - intros H [k v] Hin. cbn [snd]. specialize (H k). unfold getz in H. rewrite (in_get r k v Hwf Hin) in H. lia. Qed.
Lemma forallb_false_witness {A} (f : A -> bool) l : forallb f l = false -> exists x, In x l /\ f x = false.
Proof. induction l as [|x t IH]; [discriminate|]. cbn [forallb]. destruct (f x) eqn:E; [|intros _; exists x; split; [left; reflexivity|assumption]].
  cbn [andb]. intros H. destruct (IH H) as (y & Hy & Ey). exists y. split; [right; assumption|assumption]. Qed.
Lemma IsZero_false_iff r : wf r -> (IsZero (Some r) = false <-> exists k, getz r k <> 0).
Proof. intros Hwf. split.
  - cbn [IsZero]. intros H. destruct (forallb_false_witness _ r H) as ([k v] & Hin & Hv). exists k. cbn [snd] in Hv.
    unfold getz. rewrite (in_get r k v Hwf Hin). lia.
  - intros [k Hk]. destruct (IsZero (Some r)) eqn:E; [|reflexivity]. exfalso. apply Hk. apply (proj1 (IsZero_iff r Hwf)). exact E. Qed.
Lemma positive_not_zero r : positive r -> IsZero (Some r) = false.
Proof. intros [kv [Hin Hv]]. cbn [IsZero]. destruct (forallb _ r) eqn:E; [|reflexivity]. rewrite forallb_forall in E. specialize (E kv Hin). lia. Qed.
Lemma positive_getz r : wf r -> positive r -> exists k, 0 < getz r k.
Proof. intros Hwf [[k v] [Hin Hv]]. exists k. unfold getz. rewrite (in_get r k v Hwf Hin). exact Hv. Qed.

(* ================================================================== 6. one ledger = the sum of one filtered list *)
(* [LBk P r l]: ledger r is the sum of the records of l that satisfy P, and is not negative.
   AppBooks = three instances (allocated / real allocations, placeholder / placeholder allocations, pending / pending asks). *)
Definition LBk (P : oalloc -> bool) (r : res) (l : list oalloc) : Prop :=
  (forall k, getz r k = asum (filter P l) k) /\ rnonneg r.
Definition is_real (x : oalloc) : bool := negb (oa_ph x).
Definition is_pending (x : oalloc) : bool := negb (oa_allocated x).
Lemma AppBooks_iff a : AppBooks a <->
  LBk is_real (ap_allocated a) (ap_allocs a) /\ LBk oa_ph (ap_phalloc a) (ap_allocs a) /\ LBk is_pending (ap_pending a) (ap_requests a).
Proof. split.
  - intros [B1 B2 B3 B4 B5 B6]. unfold LBk. auto.
  - intros ([B1 B4] & [B2 B5] & [B3 B6]). constructor; assumption. Qed.
(* the records of a list: well-formed, non-negative, bounded resources *)
Definition ROK (l : list oalloc) : Prop := forall y, In y l -> wf (oa_res y) /\ rnonneg (oa_res y) /\ rb (oa_res y).
Lemma ROK_nn l : ROK l -> forall y, In y l -> rnonneg (oa_res y). Proof. intros H y Hy. apply (H y Hy). Qed.
Lemma ROK_incl l l' : incl l' l -> ROK l -> ROK l'. Proof. intros Hi H y Hy. apply H, Hi, Hy. Qed.
Lemma ROK_put x l : wf (oa_res x) -> rnonneg (oa_res x) -> rb (oa_res x) -> ROK l -> ROK (put_alloc x l).
Proof. intros H1 H2 H3 H y Hy. apply in_put_alloc in Hy. destruct Hy as [->|[Hy _]]; auto. Qed.
Lemma ROK_del k l : ROK l -> ROK (del_alloc k l). Proof. apply ROK_incl. apply incl_filter. Qed.
Lemma ROK_map_key k f l : (forall y, In y l -> oa_key y = k -> oa_res (f y) = oa_res y) -> ROK l -> ROK (map_key k f l).
Proof. intros Hf H y Hy. apply in_map_key in Hy. destruct Hy as (z & Hz & ->). destruct (N.eqb_spec (oa_key z) k) as [E|E]; [|auto].
  rewrite (Hf z Hz E). auto. Qed.

Lemma LBk_nil P : LBk P [] []. Proof. split; [intros k; reflexivity|apply rnonneg_nil]. Qed.
Lemma LBk_same P r l l' : (forall k, asum (filter P l') k = asum (filter P l) k) -> LBk P r l -> LBk P r l'.
Proof. intros E [H1 H2]. split; [|assumption]. intros k. rewrite E. apply H1. Qed.
Lemma LBk_le P r l x k : ROK l -> LBk P r l -> In x l -> P x = true -> getz (oa_res x) k <= getz r k.
Proof. intros Hok [H1 _] Hx Px. rewrite H1. apply asum_ge_member.
  - intros y Hy. apply filter_In in Hy. apply (ROK_nn l Hok). tauto.
  - apply filter_In. auto. Qed.
(* r + d (Add: not pruned) *)
Lemma LBk_add P r l l' d : wf r -> wf d -> rb r -> rb d -> rnonneg d ->
  (forall k, asum (filter P l') k = asum (filter P l) k + getz d k) -> LBk P r l -> LBk P (Add (Some r) (Some d)) l'.
Proof. intros Wr Wd Br Bd Nd E [H1 H2]. split.
  - intros k. rewrite Add_exact, E, H1 by assumption. reflexivity.
  - apply fnonneg_rnonneg; [apply Add_wf; exact Wr|]. intros k. rewrite Add_exact by assumption.
    pose proof (rnonneg_fnonneg _ H2 k). pose proof (rnonneg_fnonneg _ Nd k). lia. Qed.
(* r + d pruned *)
Lemma LBk_padd P r l l' d : wf r -> wf d -> rb r -> rb d -> rnonneg d ->
  (forall k, asum (filter P l') k = asum (filter P l) k + getz d k) -> LBk P r l -> LBk P (Prune (Add (Some r) (Some d))) l'.
Proof. intros Wr Wd Br Bd Nd E [H1 H2]. split.
  - intros k. rewrite PruneAdd_exact, E, H1 by assumption. reflexivity.
  - apply rnonneg_Prune. apply fnonneg_rnonneg; [apply Add_wf; exact Wr|]. intros k. rewrite Add_exact by assumption.
    pose proof (rnonneg_fnonneg _ H2 k). pose proof (rnonneg_fnonneg _ Nd k). lia. Qed.
(* r - d pruned; the remaining records are not negative *)
Lemma LBk_psub P r l l' d : wf r -> wf d -> rb r -> rb d -> (forall y, In y l' -> rnonneg (oa_res y)) ->
  (forall k, asum (filter P l') k = asum (filter P l) k - getz d k) -> LBk P r l -> LBk P (Prune (Sub (Some r) (Some d))) l'.
Proof. intros Wr Wd Br Bd Nl E [H1 H2].
  assert (G : forall k, getz (Prune (Sub (Some r) (Some d))) k = asum (filter P l') k).
  { intros k. rewrite PruneSub_exact, E, H1 by assumption. reflexivity. }
  split; [exact G|]. apply fnonneg_rnonneg; [apply Prune_wf, Sub_wf; exact Wr|]. intros k. rewrite G. apply asum_nonneg.
  intros y Hy. apply filter_In in Hy. apply Nl. tauto. Qed.
(* r + d pruned, d of any sign; the records of the new list are not negative *)
Lemma LBk_pmove P r l l' d : wf r -> wf d -> rb r -> rb d -> (forall y, In y l' -> rnonneg (oa_res y)) ->
  (forall k, asum (filter P l') k = asum (filter P l) k + getz d k) -> LBk P r l -> LBk P (Prune (Add (Some r) (Some d))) l'.
Proof. intros Wr Wd Br Bd Nl E [H1 H2].
  assert (G : forall k, getz (Prune (Add (Some r) (Some d))) k = asum (filter P l') k).
  { intros k. rewrite PruneAdd_exact, E, H1 by assumption. reflexivity. }
  split; [exact G|]. apply fnonneg_rnonneg; [apply Prune_wf, Add_wf; exact Wr|]. intros k. rewrite G. apply asum_nonneg.
  intros y Hy. apply filter_In in Hy. apply Nl. tauto. Qed.
Lemma LBk_nil_zero P r : LBk P r [] -> forall k, getz r k = 0.
Proof. intros [H _] k. rewrite H. reflexivity. Qed.
(* a zero ledger over positive records: nothing is listed *)
Lemma LBk_zero_nil P r l : (forall y, In y l -> wf (oa_res y) /\ rnonneg (oa_res y) /\ positive (oa_res y)) ->
  LBk P r l -> (forall k, getz r k = 0) -> filter P l = [].
Proof. intros Hok [H1 _] Hz.
  assert (A : forall x, In x (filter P l) -> False).
  { intros x Hx. pose proof Hx as Hx'. apply filter_In in Hx'. destruct Hx' as [Hx' _].
    destruct (Hok x Hx') as (Wx & _ & Px). destruct (positive_getz _ Wx Px) as [k Hk].
    assert (G : getz (oa_res x) k <= asum (filter P l) k).
    { apply asum_ge_member; [|assumption]. intros y Hy. apply filter_In in Hy. apply (Hok y). tauto. }
    rewrite <- H1, Hz in G. lia. }
  destruct (filter P l) as [|x t]; [reflexivity|]. exfalso. apply (A x). left. reflexivity. Qed.

(* ================================================================== 7. well-formedness on raw data *)
Record WF3 (id : N) (reqs allocs : list oalloc) : Prop := mkWF3 {
  f3_req_keys : NoDup (akeys reqs);
  f3_alloc_keys : NoDup (akeys allocs);
  f3_req : forall x, In x reqs -> AllocOK3 id x;
  f3_alloc : forall x, In x allocs -> AllocOK3 id x;
  f3_real_nolink : forall x, In x allocs -> oa_ph x = false -> oa_release x = 0%N;
  f3_pending_fresh : forall r, In r reqs -> oa_allocated r = false -> ~ In (oa_key r) (akeys allocs);
  f3_link : forall x, In x allocs -> oa_ph x = true -> oa_release x <> 0%N -> ~ In (oa_release x) (akeys allocs) }.
Lemma AppWF3_iff a : AppWF3 a <->
  WF3 (ap_id a) (ap_requests a) (ap_allocs a) /\ wf (ap_pending a) /\ wf (ap_allocated a) /\ wf (ap_phalloc a).
Proof. split.
  - intros [W1 W2 W3 W4 W5 W6 W7 W8 W9 W10]. split; [constructor; assumption|auto].
  - intros ([W1 W2 W3 W4 W5 W6 W7] & W8 & W9 & W10). constructor; assumption. Qed.

Section WF3.
  Variables (id : N) (reqs allocs : list oalloc).
  Hypothesis W : WF3 id reqs allocs.

  (* ---- the allocation list *)
  Lemma WF3_del_alloc k : WF3 id reqs (del_alloc k allocs).
  Proof. destruct W as [W1 W2 W3 W4 W5 W6 W7]. constructor; auto.
    - apply akeys_del_nodup. assumption.
    - intros x Hx. apply in_del_alloc in Hx. apply W4. tauto.
    - intros x Hx. apply in_del_alloc in Hx. apply W5. tauto.
    - intros r Hr Hna C. apply akeys_del in C. apply (W6 r Hr Hna). tauto.
    - intros x Hx Hph Hl C. apply in_del_alloc in Hx. apply akeys_del in C. apply (W7 x); tauto. Qed.
  (* x enters the allocation list (replacing the record with its key, if any) *)
  Lemma WF3_put_alloc x : AllocOK3 id x ->
    (oa_ph x = false -> oa_release x = 0%N) ->
    (oa_ph x = true -> oa_release x <> 0%N -> oa_release x <> oa_key x /\ ~ In (oa_release x) (akeys allocs)) ->
    (forall r, In r reqs -> oa_key r = oa_key x -> oa_allocated r = true) ->
    (forall y, In y allocs -> oa_ph y = true -> oa_key y <> oa_key x -> oa_release y <> 0%N -> oa_release y <> oa_key x) ->
    WF3 id reqs (put_alloc x allocs).
  Proof. intros Xok Xnl Xl Xr Xt. destruct W as [W1 W2 W3 W4 W5 W6 W7]. constructor; auto.
    - apply akeys_put_nodup. assumption.
    - intros y Hy. apply in_put_alloc in Hy. destruct Hy as [->|[Hy _]]; auto.
    - intros y Hy. apply in_put_alloc in Hy. destruct Hy as [->|[Hy _]]; auto.
    - intros r Hr Hna C. apply akeys_put in C. destruct C as [C|C]; [|apply (W6 r Hr Hna C)]. rewrite (Xr r Hr C) in Hna. discriminate.
    - intros y Hy Hph Hl C. apply akeys_put in C. apply in_put_alloc in Hy. destruct Hy as [->|[Hy Hne]].
      + destruct (Xl Hph Hl) as [X1 X2]. destruct C; auto.
      + destruct C as [C|C]; [apply (Xt y Hy Hph Hne Hl C)|apply (W7 y Hy Hph Hl C)]. Qed.
  (* the record with key k is changed by f *)
  Lemma WF3_map_alloc k f : (forall y, oa_key y = k -> oa_key (f y) = k) ->
    (forall y, In y allocs -> oa_key y = k ->
       AllocOK3 id (f y) /\ (oa_ph (f y) = false -> oa_release (f y) = 0%N) /\
       (oa_ph (f y) = true -> oa_release (f y) <> 0%N -> ~ In (oa_release (f y)) (akeys allocs))) ->
    WF3 id reqs (map_key k f allocs).
  Proof. intros Hk Hf. destruct W as [W1 W2 W3 W4 W5 W6 W7]. constructor; rewrite ?akeys_map_key by assumption; auto.
    - intros y Hy. apply in_map_key in Hy. destruct Hy as (z & Hz & ->). destruct (N.eqb_spec (oa_key z) k) as [E|E]; [apply (Hf z Hz E)|auto].
    - intros y Hy. apply in_map_key in Hy. destruct Hy as (z & Hz & ->). destruct (N.eqb_spec (oa_key z) k) as [E|E]; [apply (Hf z Hz E)|auto].
    - intros y Hy. apply in_map_key in Hy. destruct Hy as (z & Hz & ->). destruct (N.eqb_spec (oa_key z) k) as [E|E]; [apply (Hf z Hz E)|auto]. Qed.

  (* ---- the request list *)
  Lemma WF3_del_req k : WF3 id (del_alloc k reqs) allocs.
  Proof. destruct W as [W1 W2 W3 W4 W5 W6 W7]. constructor; auto.
    - apply akeys_del_nodup. assumption.
    - intros x Hx. apply in_del_alloc in Hx. apply W3. tauto.
    - intros r Hr. apply in_del_alloc in Hr. apply W6. tauto. Qed.
  Lemma WF3_nil_req : WF3 id [] allocs.
  Proof. destruct W as [W1 W2 W3 W4 W5 W6 W7]. constructor; auto; try apply NoDup_nil; intros x []. Qed.
  Lemma WF3_put_req x : AllocOK3 id x -> (oa_allocated x = false -> ~ In (oa_key x) (akeys allocs)) -> WF3 id (put_alloc x reqs) allocs.
  Proof. intros Xok Xf. destruct W as [W1 W2 W3 W4 W5 W6 W7]. constructor; auto.
    - apply akeys_put_nodup. assumption.
    - intros y Hy. apply in_put_alloc in Hy. destruct Hy as [->|[Hy _]]; auto.
    - intros y Hy. apply in_put_alloc in Hy. destruct Hy as [->|[Hy _]]; auto. Qed.
  Lemma WF3_map_req k f : (forall y, oa_key y = k -> oa_key (f y) = k) ->
    (forall y, In y reqs -> oa_key y = k -> AllocOK3 id (f y) /\ (oa_allocated (f y) = false -> ~ In k (akeys allocs))) ->
    WF3 id (map_key k f reqs) allocs.
  Proof. intros Hk Hf. destruct W as [W1 W2 W3 W4 W5 W6 W7]. constructor; rewrite ?akeys_map_key by assumption; auto.
    - intros y Hy. apply in_map_key in Hy. destruct Hy as (z & Hz & ->). destruct (N.eqb_spec (oa_key z) k) as [E|E]; [apply (Hf z Hz E)|auto].
    - intros y Hy. apply in_map_key in Hy. destruct Hy as (z & Hz & ->). destruct (N.eqb_spec (oa_key z) k) as [E|E]; [|auto].
      rewrite (Hk z E). apply (Hf z Hz E). Qed.
End WF3.
(* the requests a terminating application drops *)
Lemma WF3_incl_req id reqs reqs' allocs : reqs' = reqs \/ reqs' = [] -> WF3 id reqs allocs -> WF3 id reqs' allocs.
Proof. intros [->| ->] W; [assumption|apply (WF3_nil_req id reqs allocs W)]. Qed.
Lemma WF3_nil_alloc id reqs allocs : WF3 id reqs allocs -> WF3 id reqs [].
Proof. intros [W1 W2 W3 W4 W5 W6 W7]. constructor; auto; try apply NoDup_nil; try (intros x []). Qed.
(* resource data of the records, from the invariants of the application *)
Definition AppBounded3 (a : oapp) : Prop := AppBounded a /\ rb (ap_phalloc a).
Lemma ROK_allocs a : AppWF3 a -> AppBounded a -> ROK (ap_allocs a).
Proof. intros W Bd y Hy. pose proof (w3_alloc a W y Hy) as [H1 H2 _ _ _]. split; [exact H1|split; [exact H2|apply (abd_alloc a Bd y Hy)]]. Qed.
Lemma ROK_requests a : AppWF3 a -> AppBounded a -> ROK (ap_requests a).
Proof. intros W Bd y Hy. pose proof (w3_req a W y Hy) as [H1 H2 _ _ _]. split; [exact H1|split; [exact H2|apply (abd_req a Bd y Hy)]]. Qed.
