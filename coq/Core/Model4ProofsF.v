(* Frames of the fourth fragment (Core/Model4.v): state changes that touch only the reservation views, the partition
   reservation counter, the preempting ledger and the preempted mark of allocation objects.  [LFrame s s'] says that
   [s'] is [s] with every application / node / queue record mapped by a function that keeps all ledger fields, and every
   allocation record mapped by one function [f] that keeps everything but the mark.  All writers of Model4.v that are
   not ledger writers are such frames; frames compose; the invariants of C01 (here) and C03 (Model4ProofsG.v) are
   transported along frames. *)
From Coq Require Import List ZArith NArith Bool Lia ZifyBool.
From YK Require Import Base.Int64 Base.Res Base.ResSpec Core.Obs Core.Model Core.Model2 Core.Ledger Core.Model4
  Core.NodeProofs Core.StepProofs.
Import ListNotations.
Open Scope Z_scope.
Set Default Timeout 30.

(* ------------------------------------------------------------------ what is kept *)
Record FP (f : oalloc -> oalloc) : Prop := mkFP {
  fp_key : forall x, oa_key (f x) = oa_key x;
  fp_app : forall x, oa_app (f x) = oa_app x;
  fp_node : forall x, oa_node (f x) = oa_node x;
  fp_res : forall x, oa_res (f x) = oa_res x;
  fp_ph : forall x, oa_ph (f x) = oa_ph x;
  fp_allocated : forall x, oa_allocated (f x) = oa_allocated x;
  fp_release : forall x, oa_release (f x) = oa_release x;
  fp_foreign : forall x, oa_foreign (f x) = oa_foreign x;
  fp_reqnode : forall x, oa_reqnode (f x) = oa_reqnode x;
  fp_released : forall x, oa_released (f x) = oa_released x;
  fp_mono : forall x, oa_preempted x = true -> oa_preempted (f x) = true }.

Record asame (f : oalloc -> oalloc) (a a' : oapp) : Prop := mkAS {
  as_id : ap_id a' = ap_id a; as_queue : ap_queue a' = ap_queue a; as_state : ap_state a' = ap_state a;
  as_pending : ap_pending a' = ap_pending a; as_allocated : ap_allocated a' = ap_allocated a; as_phalloc : ap_phalloc a' = ap_phalloc a;
  as_requests : ap_requests a' = map f (ap_requests a); as_allocs : ap_allocs a' = map f (ap_allocs a);
  as_statetimer : ap_statetimer a' = ap_statetimer a; as_phtimer : ap_phtimer a' = ap_phtimer a }.
Record nsame (f : oalloc -> oalloc) (n n' : onode) : Prop := mkNSm {
  ns_id : on_id n' = on_id n; ns_tot : on_total n' = on_total n; ns_occupied : on_occupied n' = on_occupied n;
  ns_allocated : on_allocated n' = on_allocated n; ns_available : on_available n' = on_available n; ns_sched : on_sched n' = on_sched n;
  ns_allocs' : on_allocs n' = map f (on_allocs n); ns_foreign' : on_foreign n' = on_foreign n }.
Record qsame (q q' : oqueue) : Prop := mkQS {
  qs_id : q_id q' = q_id q; qs_parent : q_parent q' = q_parent q; qs_leaf : q_leaf q' = q_leaf q; qs_max : q_max q' = q_max q;
  qs_alloc : q_alloc q' = q_alloc q; qs_pending : q_pending q' = q_pending q; qs_state : q_state q' = q_state q }.

Record LF (fa : oapp -> oapp) (fn : onode -> onode) (fq : oqueue -> oqueue) (s s' : ostate) : Prop := mkLF {
  lf_apps : s_apps s' = map fa (s_apps s); lf_nodes : s_nodes s' = map fn (s_nodes s); lf_queues : s_queues s' = map fq (s_queues s);
  lf_total : s_total s' = s_total s; lf_nallocs : s_nallocs s' = s_nallocs s; lf_foreign : s_foreign s' = s_foreign s }.

Definition LFrameF (f : oalloc -> oalloc) (s s' : ostate) : Prop :=
  exists fa fn fq, FP f /\ (forall a, asame f a (fa a)) /\ (forall n, nsame f n (fn n)) /\ (forall q, qsame q (fq q)) /\ LF fa fn fq s s'.
(* a frame that keeps every allocation record as it is (reservation views, counters, preempting ledger) *)
Definition RFrame (s s' : ostate) : Prop := LFrameF (fun x => x) s s'.
Definition LFrame (s s' : ostate) : Prop := exists f, LFrameF f s s'.

Lemma FP_id : FP (fun x => x).
Proof. constructor; intros; auto. Qed.
Lemma FP_comp f g : FP f -> FP g -> FP (fun x => g (f x)).
Proof. intros [a1 a2 a3 a4 a5 a6 a7 a8 a9 a10 a11] [b1 b2 b3 b4 b5 b6 b7 b8 b9 b10 b11]. constructor; intros x; try congruence. auto. Qed.
Lemma FP_mark aid k : FP (mark_fn aid k).
Proof. constructor; intros x; unfold mark_fn; destruct ((oa_key x =? k)%N && (oa_app x =? aid)%N); try reflexivity; auto. Qed.

Lemma asame_refl a : asame (fun x => x) a a.
Proof. constructor; try reflexivity; symmetry; apply map_id. Qed.
Lemma nsame_refl n : nsame (fun x => x) n n.
Proof. constructor; try reflexivity; symmetry; apply map_id. Qed.
Lemma qsame_refl q : qsame q q.
Proof. constructor; reflexivity. Qed.

Theorem RFrame_refl s : RFrame s s.
Proof. exists (fun a => a), (fun n => n), (fun q => q).
  split; [apply FP_id|]. split; [apply asame_refl|]. split; [apply nsame_refl|]. split; [apply qsame_refl|].
  constructor; try reflexivity; symmetry; apply map_id. Qed.

Theorem LFrameF_trans f g s1 s2 s3 : LFrameF f s1 s2 -> LFrameF g s2 s3 -> LFrameF (fun x => g (f x)) s1 s3.
Proof. intros (fa & fn & fq & F1 & A1 & N1 & Q1 & L1) (ga & gn & gq & F2 & A2 & N2 & Q2 & L2).
  exists (fun a => ga (fa a)), (fun n => gn (fn n)), (fun q => gq (fq q)).
  split; [apply FP_comp; assumption|]. split; [|split; [|split]].
  - intros a. destruct (A1 a) as [a1 a2 a3 a4 a5 a6 a7 a8 a9 a10], (A2 (fa a)) as [b1 b2 b3 b4 b5 b6 b7 b8 b9 b10].
    constructor; try congruence; [rewrite b7, a7|rewrite b8, a8]; apply map_map.
  - intros n. destruct (N1 n) as [a1 a2 a3 a4 a5 a6 a7 a8], (N2 (fn n)) as [b1 b2 b3 b4 b5 b6 b7 b8].
    constructor; try congruence. rewrite b7, a7. apply map_map.
  - intros q. destruct (Q1 q) as [a1 a2 a3 a4 a5 a6 a7], (Q2 (fq q)) as [b1 b2 b3 b4 b5 b6 b7]. constructor; congruence.
  - destruct L1 as [a1 a2 a3 a4 a5 a6], L2 as [b1 b2 b3 b4 b5 b6]. constructor; try congruence.
    + rewrite b1, a1. apply map_map.
    + rewrite b2, a2. apply map_map.
    + rewrite b3, a3. apply map_map. Qed.
Theorem RFrame_trans s1 s2 s3 : RFrame s1 s2 -> RFrame s2 s3 -> RFrame s1 s3.
Proof. intros H1 H2. exact (LFrameF_trans _ _ _ _ _ H1 H2). Qed.
Theorem RFrame_LFrame s s' : RFrame s s' -> LFrame s s'.
Proof. intros H. exists (fun x => x). exact H. Qed.
Theorem LFrame_refl s : LFrame s s.
Proof. apply RFrame_LFrame. apply RFrame_refl. Qed.
Theorem LFrame_trans s1 s2 s3 : LFrame s1 s2 -> LFrame s2 s3 -> LFrame s1 s3.
Proof. intros (f & H1) (g & H2). exists (fun x => g (f x)). eapply LFrameF_trans; eassumption. Qed.

(* ------------------------------------------------------------------ the primitive frames *)
Definition only_res_app (g : oapp -> oapp) : Prop := forall a, asame (fun x => x) a (g a).
Definition only_res_node (g : onode -> onode) : Prop := forall n, nsame (fun x => x) n (g n).
Definition only_res_queue (g : oqueue -> oqueue) : Prop := forall q, qsame q (g q).

Lemma ap_set_res_only l : only_res_app (fun a => ap_set_res a l).
Proof. intros a. constructor; try reflexivity; symmetry; apply map_id. Qed.
Lemma n_set_res_only (h : onode -> list (N * N)) : only_res_node (fun n => n_set_res n (h n)).
Proof. intros n. constructor; try reflexivity; symmetry; apply map_id. Qed.

Lemma RFrame_upd_app s id g : only_res_app g -> RFrame s (upd_app s id g).
Proof. intros Hg. exists (fun a => if (ap_id a =? id)%N then g a else a), (fun n => n), (fun q => q).
  split; [apply FP_id|]. split; [|split; [apply nsame_refl|split; [apply qsame_refl|]]].
  - intros a. destruct (ap_id a =? id)%N; [apply Hg|apply asame_refl].
  - constructor; try reflexivity; cbn [upd_app s_nodes s_queues]; symmetry; apply map_id. Qed.
Lemma RFrame_upd_node s id g : only_res_node g -> RFrame s (upd_node s id g).
Proof. intros Hg. exists (fun a => a), (fun n => if (on_id n =? id)%N then g n else n), (fun q => q).
  split; [apply FP_id|]. split; [apply asame_refl|split; [|split; [apply qsame_refl|]]].
  - intros n. destruct (on_id n =? id)%N; [apply Hg|apply nsame_refl].
  - constructor; try reflexivity; cbn [upd_node s_apps s_queues]; symmetry; apply map_id. Qed.
Lemma RFrame_upd_queues s g : only_res_queue g -> RFrame s (upd_queues s g).
Proof. intros Hg. exists (fun a => a), (fun n => n), g.
  split; [apply FP_id|]. split; [apply asame_refl|split; [apply nsame_refl|split; [exact Hg|]]].
  constructor; try reflexivity; cbn [upd_queues s_apps s_nodes]; symmetry; apply map_id. Qed.
Lemma RFrame_add_nres s d : RFrame s (add_nres s d).
Proof. exists (fun a => a), (fun n => n), (fun q => q).
  split; [apply FP_id|]. split; [apply asame_refl|split; [apply nsame_refl|split; [apply qsame_refl|]]].
  constructor; try reflexivity; cbn [add_nres s_apps s_nodes s_queues]; symmetry; apply map_id. Qed.
Lemma RFrame_on_path s path g : only_res_queue g -> RFrame s (on_path s path g).
Proof. intros Hg. unfold on_path. apply RFrame_upd_queues. intros q. destruct (memN (q_id q) path); [apply Hg|apply qsame_refl]. Qed.
Lemma LFrame_relabel s f : FP f -> LFrame s (relabel f s).
Proof. intros Hf. exists f. eexists _, _, (fun q => q). split; [exact Hf|]. split; [|split; [|split; [apply qsame_refl|]]].
  3: { constructor; try reflexivity. cbn [relabel s_queues]. symmetry; apply map_id. }
  - intros a. constructor; reflexivity.
  - intros n. constructor; reflexivity. Qed.

Lemma q_set_reserved_only (h : oqueue -> list (N * N)) : only_res_queue (fun q => q_set_reserved q (h q)).
Proof. intros q. constructor; reflexivity. Qed.
Lemma q_set_preempting_only (h : oqueue -> res) : only_res_queue (fun q => q_set_preempting q (h q)).
Proof. intros q. constructor; reflexivity. Qed.

Lemma RFrame_hide s id : RFrame s (hide_res s id).
Proof. apply RFrame_upd_app. apply ap_set_res_only. Qed.
Lemma RFrame_show s id l : RFrame s (show_res s id l).
Proof. apply RFrame_upd_app. apply ap_set_res_only. Qed.
Lemma RFrame_queue_reserve s qid aid : RFrame s (r_queue_reserve s qid aid).
Proof. apply RFrame_upd_queues. intros q. destruct (q_id q =? qid)%N; [constructor; reflexivity|apply qsame_refl]. Qed.
Lemma RFrame_queue_unreserve s qid aid num : RFrame s (r_queue_unreserve s qid aid num).
Proof. apply RFrame_upd_queues. intros q. destruct (q_id q =? qid)%N; [constructor; reflexivity|apply qsame_refl]. Qed.
Lemma RFrame_inc_preempting s leaf r : RFrame s (q_inc_preempting s leaf r).
Proof. apply RFrame_on_path. intros q. constructor; reflexivity. Qed.
Lemma RFrame_dec_preempting s leaf r : RFrame s (q_dec_preempting s leaf r).
Proof. apply RFrame_on_path. intros q. constructor; reflexivity. Qed.

Lemma RFrame_unreserve_internal s aid nid k : RFrame s (fst (r_unreserve_internal s aid nid k)).
Proof. unfold r_unreserve_internal.
  assert (H1 : RFrame s (upd_node s nid (fun n => n_set_res n (drop_key k (on_reservations n))))).
  { apply RFrame_upd_node. apply (n_set_res_only (fun n => drop_key k (on_reservations n))). }
  destruct (find_app _ aid) as [a|]; [|exact H1]. destruct (existsb _ _); [|exact H1]. cbn [fst].
  eapply RFrame_trans; [exact H1|]. apply RFrame_upd_app. intros b. constructor; try reflexivity; symmetry; apply map_id. Qed.
Lemma RFrame_cancel s aid k : RFrame s (fst (r_cancel s aid k)).
Proof. unfold r_cancel. destruct (find_app s aid) as [a|]; [|apply RFrame_refl].
  destruct (find _ _) as [p|]; [|apply RFrame_refl].
  pose proof (RFrame_unreserve_internal s aid (fst p) k) as H. destruct (r_unreserve_internal s aid (fst p) k) as [s1 num]. cbn [fst] in *.
  eapply RFrame_trans; [exact H|]. apply RFrame_queue_unreserve. Qed.
Lemma RFrame_part_unreserve s aid k : RFrame s (r_part_unreserve s aid k).
Proof. unfold r_part_unreserve. pose proof (RFrame_cancel s aid k) as H. destruct (r_cancel s aid k) as [s1 num]. cbn [fst] in H.
  eapply RFrame_trans; [exact H|]. apply RFrame_add_nres. Qed.

Lemma RFrame_fold {A} (step : ostate -> A -> ostate) (l : list A) :
  (forall s x, RFrame s (step s x)) -> forall s, RFrame s (fold_left step l s).
Proof. intros H. induction l as [|x t IH]; intros s; [apply RFrame_refl|]. cbn [fold_left].
  eapply RFrame_trans; [apply H|apply IH]. Qed.

Lemma RFrame_cancel_all s a : RFrame s (r_cancel_all s a).
Proof. unfold r_cancel_all.
  assert (H : forall l acc, RFrame s (fst acc) ->
            RFrame s (fst (fold_left (fun acc p => let '(s', n) := r_unreserve_internal (fst acc) (ap_id a) (fst p) (snd p) in (s', (snd acc + n)%N)) l acc))).
  { induction l as [|p t IH]; intros acc Hacc; [exact Hacc|]. cbn [fold_left]. apply IH.
    pose proof (RFrame_unreserve_internal (fst acc) (ap_id a) (fst p) (snd p)) as H.
    destruct (r_unreserve_internal (fst acc) (ap_id a) (fst p) (snd p)) as [s' n]. cbn [fst] in *. eapply RFrame_trans; eassumption. }
  specialize (H (ap_reservations a) (s, 0%N) (RFrame_refl s)).
  destruct (fold_left _ _ _) as [s1 tot]. cbn [fst] in H. eapply RFrame_trans; [exact H|]. apply RFrame_queue_unreserve. Qed.

Lemma RFrame_part_reserve s a n ask s' : r_part_reserve s a n ask = Some s' -> RFrame s s'.
Proof. unfold r_part_reserve. destruct (oa_allocated ask); [intros H; inversion H; apply RFrame_refl|].
  destruct (r_node_reserve_ok s n ask) as [[|]|]; intros H; inversion H; subst s'; clear H; [|apply RFrame_refl].
  eapply RFrame_trans; [|apply RFrame_add_nres]. eapply RFrame_trans; [|apply RFrame_queue_reserve].
  eapply RFrame_trans; [apply RFrame_upd_node|apply RFrame_upd_app].
  - apply (n_set_res_only (fun m => drop_key (oa_key ask) (on_reservations m) ++ [(ap_id a, oa_key ask)])).
  - intros b. constructor; try reflexivity; symmetry; apply map_id. Qed.

Lemma LFrame_mark_victim s aid k s' : m_mark_victim s aid k = Some s' -> LFrame s s'.
Proof. unfold m_mark_victim. destruct (find_app s aid) as [a|]; [|discriminate]. destruct (find_alloc _ _) as [x|]; [|discriminate].
  destruct (_ || _); [discriminate|]. intros H. inversion H; subst s'; clear H.
  eapply LFrame_trans; [apply LFrame_relabel; apply FP_mark|apply RFrame_LFrame; apply RFrame_inc_preempting]. Qed.
Lemma LFrame_mark_victims l : forall s s', m_mark_victims s l = Some s' -> LFrame s s'.
Proof. induction l as [|p t IH]; intros s s' H; cbn [m_mark_victims] in H; [inversion H; apply LFrame_refl|].
  destruct (m_mark_victim s (snd p) (fst p)) as [s1|] eqn:E; [|discriminate].
  eapply LFrame_trans; [eapply LFrame_mark_victim; exact E|apply IH; exact H]. Qed.

Lemma RFrame_cancel_one s0 cnt mv s t : RFrame s (m_cancel_one s0 cnt mv s t).
Proof. unfold m_cancel_one. destruct (_ || _); [apply RFrame_part_unreserve|apply RFrame_cancel]. Qed.
Lemma RFrame_cancel_phase s0 cnt mv l : RFrame s0 (m_cancel_phase s0 cnt mv l).
Proof. unfold m_cancel_phase. apply RFrame_fold. intros s t. apply RFrame_cancel_one. Qed.

Lemma RFrame_reserve4 deny s pre aid nid k s' : m_reserve4 deny s pre aid nid k = Some s' -> RFrame s s'.
Proof. unfold m_reserve4. destruct (find_app s aid) as [a|]; [|discriminate]. destruct (find_node s nid) as [n|]; [|discriminate].
  destruct (find_alloc _ _) as [ask|]; [|discriminate]. destruct (existsb _ _); [discriminate|].
  destruct (negb _); [discriminate|]. apply RFrame_part_reserve. Qed.

(* the same as (weaker) frames *)
Lemma LFrame_upd_app s id g : only_res_app g -> LFrame s (upd_app s id g). Proof. intros H. apply RFrame_LFrame, RFrame_upd_app, H. Qed.
Lemma LFrame_upd_node s id g : only_res_node g -> LFrame s (upd_node s id g). Proof. intros H. apply RFrame_LFrame, RFrame_upd_node, H. Qed.
Lemma LFrame_upd_queues s g : only_res_queue g -> LFrame s (upd_queues s g). Proof. intros H. apply RFrame_LFrame, RFrame_upd_queues, H. Qed.
Lemma LFrame_add_nres s d : LFrame s (add_nres s d). Proof. apply RFrame_LFrame, RFrame_add_nres. Qed.
Lemma LFrame_hide s id : LFrame s (hide_res s id). Proof. apply RFrame_LFrame, RFrame_hide. Qed.
Lemma LFrame_show s id l : LFrame s (show_res s id l). Proof. apply RFrame_LFrame, RFrame_show. Qed.
Lemma LFrame_inc_preempting s leaf r : LFrame s (q_inc_preempting s leaf r). Proof. apply RFrame_LFrame, RFrame_inc_preempting. Qed.
Lemma LFrame_dec_preempting s leaf r : LFrame s (q_dec_preempting s leaf r). Proof. apply RFrame_LFrame, RFrame_dec_preempting. Qed.
Lemma LFrame_cancel s aid k : LFrame s (fst (r_cancel s aid k)). Proof. apply RFrame_LFrame, RFrame_cancel. Qed.
Lemma LFrame_part_unreserve s aid k : LFrame s (r_part_unreserve s aid k). Proof. apply RFrame_LFrame, RFrame_part_unreserve. Qed.
Lemma LFrame_cancel_all s a : LFrame s (r_cancel_all s a). Proof. apply RFrame_LFrame, RFrame_cancel_all. Qed.
Lemma LFrame_part_reserve s a n ask s' : r_part_reserve s a n ask = Some s' -> LFrame s s'. Proof. intros H. eapply RFrame_LFrame, RFrame_part_reserve, H. Qed.
Lemma LFrame_cancel_phase s0 cnt mv l : LFrame s0 (m_cancel_phase s0 cnt mv l). Proof. apply RFrame_LFrame, RFrame_cancel_phase. Qed.
Lemma LFrame_reserve4 deny s pre aid nid k s' : m_reserve4 deny s pre aid nid k = Some s' -> LFrame s s'. Proof. intros H. eapply RFrame_LFrame, RFrame_reserve4, H. Qed.
Lemma LFrame_fold {A} (step : ostate -> A -> ostate) (l : list A) :
  (forall s x, LFrame s (step s x)) -> forall s, LFrame s (fold_left step l s).
Proof. intros H. induction l as [|x t IH]; intros s; [apply LFrame_refl|]. cbn [fold_left].
  eapply LFrame_trans; [apply H|apply IH]. Qed.

(* ------------------------------------------------------------------ lookups along a frame *)
Lemma find_map {A} (key : A -> N) (g : A -> A) id l : (forall x, key (g x) = key x) ->
  find (fun x => (key x =? id)%N) (map g l) = option_map g (find (fun x => (key x =? id)%N) l).
Proof. intros Hk. induction l as [|x t IH]; [reflexivity|]. cbn [map find]. rewrite Hk. destruct (key x =? id)%N; [reflexivity|exact IH]. Qed.

Section Along.
  Variables (s s' : ostate) (f : oalloc -> oalloc) (fa : oapp -> oapp) (fn : onode -> onode) (fq : oqueue -> oqueue).
  Hypothesis Hf : FP f.
  Hypothesis HA : forall a, asame f a (fa a).
  Hypothesis HN : forall n, nsame f n (fn n).
  Hypothesis HQ : forall q, qsame q (fq q).
  Hypothesis HL : LF fa fn fq s s'.

  Lemma al_find_app id : find_app s' id = option_map fa (find_app s id).
  Proof. unfold find_app. rewrite (lf_apps _ _ _ _ _ HL). apply (find_map ap_id). intros a. apply (as_id _ _ _ (HA a)). Qed.
  Lemma al_find_node id : find_node s' id = option_map fn (find_node s id).
  Proof. unfold find_node. rewrite (lf_nodes _ _ _ _ _ HL). apply (find_map on_id). intros n. apply (ns_id _ _ _ (HN n)). Qed.
  Lemma al_find_queue id : find_queue s' id = option_map fq (find_queue s id).
  Proof. unfold find_queue. rewrite (lf_queues _ _ _ _ _ HL). apply (find_map q_id). intros q. apply (qs_id _ _ (HQ q)). Qed.
  Lemma al_find_alloc l k : find_alloc (map f l) k = option_map f (find_alloc l k).
  Proof. unfold find_alloc. induction l as [|x t IH]; [reflexivity|]. cbn [map find]. rewrite (fp_key f Hf). destruct (oa_key x =? k)%N; [reflexivity|exact IH]. Qed.
  Lemma al_akeys l : akeys (map f l) = akeys l.
  Proof. unfold akeys. rewrite map_map. apply map_ext. intros x. apply (fp_key f Hf). Qed.
  Lemma al_ares l : map oa_res (map f l) = map oa_res l.
  Proof. rewrite map_map. apply map_ext. intros x. apply (fp_res f Hf). Qed.
  Lemma al_asum l k : asum (map f l) k = asum l k.
  Proof. unfold asum. rewrite al_ares. reflexivity. Qed.

  Lemma al_node_ledger n : NodeLedger n -> NodeLedger (fn n).
  Proof. intros [L1 L2 L3]. destruct (HN n) as [E1 E2 E3 E4 E5 E6 E7 E8]. constructor; intros k; rewrite ?E2, ?E3, ?E4, ?E5, ?E7, ?E8, ?al_asum; auto. Qed.
  Lemma al_node_wf n : NodeWF n -> NodeWF (fn n).
  Proof. intros [W1 W2 W3 W4 W5 W6 W7 W8]. destruct (HN n) as [E1 E2 E3 E4 E5 E6 E7 E8].
    constructor; rewrite ?E2, ?E3, ?E4, ?E5, ?E7, ?E8, ?al_akeys; auto.
    intros x Hx. apply in_map_iff in Hx. destruct Hx as (y & <- & Hy). rewrite (fp_res f Hf). auto. Qed.
  Lemma al_node_small n : NodeSmall n -> NodeSmall (fn n).
  Proof. intros [W1 W2 W3 W4 W5 W6]. destruct (HN n) as [E1 E2 E3 E4 E5 E6 E7 E8].
    constructor; rewrite ?E2, ?E3, ?E4, ?E5, ?E7, ?E8; auto.
    intros x Hx. apply in_map_iff in Hx. destruct Hx as (y & <- & Hy). rewrite (fp_res f Hf). auto. Qed.

  Lemma al_reqs (P : oalloc -> Prop) : (forall x, P x -> P (f x)) -> reqs_from P s -> reqs_from P s'.
  Proof. intros HP H a' x' Ha' Hx'. rewrite (lf_apps _ _ _ _ _ HL) in Ha'. apply in_map_iff in Ha'. destruct Ha' as (a & <- & Ha).
    rewrite (as_requests _ _ _ (HA a)) in Hx'. apply in_map_iff in Hx'. destruct Hx' as (x & <- & Hx). apply HP. eapply H; eassumption. Qed.

  Lemma al_sinv : SInv s -> SInv s'.
  Proof. intros [H1 H2 H3]. constructor.
    - intros n' Hn'. rewrite (lf_nodes _ _ _ _ _ HL) in Hn'. apply in_map_iff in Hn'. destruct Hn' as (n & <- & Hn). apply al_node_ledger. auto.
    - intros n' Hn'. rewrite (lf_nodes _ _ _ _ _ HL) in Hn'. apply in_map_iff in Hn'. destruct Hn' as (n & <- & Hn). apply al_node_wf. auto.
    - apply (al_reqs req_ok); [|exact H3]. intros x [W F]. split; [rewrite (fp_res f Hf)|rewrite (fp_foreign f Hf)]; assumption. Qed.
  Lemma al_bounded : Bounded s -> Bounded s'.
  Proof. intros [H1 H2 H3]. constructor.
    - intros n' Hn'. rewrite (lf_nodes _ _ _ _ _ HL) in Hn'. apply in_map_iff in Hn'. destruct Hn' as (n & <- & Hn). apply al_node_small. auto.
    - apply (al_reqs req_small); [|exact H2]. intros x Hx. unfold req_small. rewrite (fp_res f Hf). exact Hx.
    - intros q' Hq'. rewrite (lf_queues _ _ _ _ _ HL) in Hq'. apply in_map_iff in Hq'. destruct Hq' as (q & <- & Hq).
      rewrite (qs_alloc _ _ (HQ q)). auto. Qed.
  Lemma al_allocs_nonneg : allocs_nonneg s -> allocs_nonneg s'.
  Proof. intros H n' x' Hn' Hx'. rewrite (lf_nodes _ _ _ _ _ HL) in Hn'. apply in_map_iff in Hn'. destruct Hn' as (n & <- & Hn).
    destruct (HN n) as [E1 E2 E3 E4 E5 E6 E7 E8]. rewrite E7, E8 in Hx'. destruct Hx' as [Hx'|Hx'].
    - apply in_map_iff in Hx'. destruct Hx' as (x & <- & Hx). rewrite (fp_res f Hf). apply (H n x Hn). left. exact Hx.
    - apply (H n x' Hn). right. exact Hx'. Qed.
  Lemma al_no_negative : no_negative s -> no_negative s'.
  Proof. intros H n' Hn'. rewrite (lf_nodes _ _ _ _ _ HL) in Hn'. apply in_map_iff in Hn'. destruct Hn' as (n & <- & Hn).
    unfold node_has_negative. rewrite (ns_available _ _ _ (HN n)). apply (H n Hn). Qed.
End Along.

Theorem LFrame_sinv s s' : LFrame s s' -> SInv s -> SInv s'.
Proof. intros (f & fa & fn & fq & F & A & Nn & Q & L). eapply al_sinv; eassumption. Qed.
Theorem LFrame_bounded s s' : LFrame s s' -> Bounded s -> Bounded s'.
Proof. intros (f & fa & fn & fq & F & A & Nn & Q & L). eapply al_bounded; eassumption. Qed.
Theorem LFrame_allocs_nonneg s s' : LFrame s s' -> allocs_nonneg s -> allocs_nonneg s'.
Proof. intros (f & fa & fn & fq & F & A & Nn & Q & L). eapply al_allocs_nonneg; eassumption. Qed.
Theorem LFrame_no_negative s s' : LFrame s s' -> no_negative s -> no_negative s'.
Proof. intros (f & fa & fn & fq & F & A & Nn & Q & L). eapply al_no_negative; eassumption. Qed.

(* what a frame keeps of a node / an application, in terms of lookups *)
Theorem LFrame_find_node s s' id : LFrame s s' ->
  match find_node s id, find_node s' id with
  | Some n, Some n' => exists f, FP f /\ nsame f n n'
  | None, None => True
  | _, _ => False
  end.
Proof. intros (f & fa & fn & fq & F & A & Nn & Q & L). rewrite (al_find_node s s' f fa fn fq Nn L id).
  destruct (find_node s id) as [n|]; cbn [option_map]; [|exact I]. exists f. split; [exact F|apply Nn]. Qed.
Theorem LFrame_find_app s s' id : LFrame s s' ->
  match find_app s id, find_app s' id with
  | Some a, Some a' => exists f, FP f /\ asame f a a'
  | None, None => True
  | _, _ => False
  end.
Proof. intros (f & fa & fn & fq & F & A & Nn & Q & L). rewrite (al_find_app s s' f fa fn fq A L id).
  destruct (find_app s id) as [a|]; cbn [option_map]; [|exact I]. exists f. split; [exact F|apply A]. Qed.

(* a record-preserving frame keeps the requests and allocations of every application *)
Theorem RFrame_find_app s s' id a' : RFrame s s' -> find_app s' id = Some a' ->
  exists a, find_app s id = Some a /\ ap_requests a' = ap_requests a /\ ap_allocs a' = ap_allocs a /\ ap_id a' = ap_id a /\ ap_queue a' = ap_queue a /\
            ap_pending a' = ap_pending a /\ ap_allocated a' = ap_allocated a /\ ap_state a' = ap_state a.
Proof. intros (fa & fn & fq & F & A & Nn & Q & L) E. rewrite (al_find_app s s' (fun x => x) fa fn fq A L id) in E.
  destruct (find_app s id) as [a|]; [|discriminate]. cbn [option_map] in E. inversion E; subst a'. exists a. split; [reflexivity|].
  destruct (A a) as [E1 E2 E3 E4 E5 E6 E7 E8 E9 E10]. rewrite E7, E8, !map_id. auto 10. Qed.
Theorem RFrame_find_node s s' id n' : RFrame s s' -> find_node s' id = Some n' ->
  exists n, find_node s id = Some n /\ on_allocs n' = on_allocs n /\ on_id n' = on_id n /\ on_total n' = on_total n /\ on_available n' = on_available n /\
            on_sched n' = on_sched n.
Proof. intros (fa & fn & fq & F & A & Nn & Q & L) E. rewrite (al_find_node s s' (fun x => x) fa fn fq Nn L id) in E.
  destruct (find_node s id) as [n|]; [|discriminate]. cbn [option_map] in E. inversion E; subst n'. exists n. split; [reflexivity|].
  destruct (Nn n) as [E1 E2 E3 E4 E5 E6 E7 E8]. rewrite E7, map_id. auto 10. Qed.
