(* C11 - max-applications gate. Component model of the admission counters of the queue hierarchy
   (objects/queue.go: canRunApp, incRunningApps, decRunningApps, setAllocatingAccepted, RemoveApplication,
   SetMaxRunningApps; objects/application_state.go: enter_Running / leave_Running; partition.go:
   removeApplication, moveTerminatedApp) and the predicates of the property.  Definitions only.

   Modelling decisions (see notes/gang.md):
   * a queue's ancestors never change (the path is fixed when the queue is created, an application never
     changes its queue), so an application carries the list of queue ids of its leaf and all ancestors
     ([ma_chain], leaf first).  The recursive functions of queue.go ("parent first, then this queue") act
     on exactly the queues of that list, each once.
   * the application FSM (eventDesc) is transcribed as [fsm]; an event without transition is ignored
     (HandleApplicationEvent maps "no transition" to nil, other errors are only logged). *)
From Coq Require Import List ZArith NArith Bool.
From YK Require Import Core.Obs.
Import ListNotations.
Open Scope N_scope.

Record mq := mkMQ { mq_id : N; mq_max : N; mq_running : N; mq_allocating : list N }.
Record mapp := mkMA { ma_id : N; ma_chain : list N; ma_state : N }.
Record mst := mkMS { m_queues : list mq; m_apps : list mapp }.

Definition m_init : mst := mkMS [] [].

(* ---- application FSM (application_state.go eventDesc) ---- *)
Inductive mev := EvRun | EvReject | EvComplete | EvFail | EvExpire | EvResume.
Definition all_events : list mev := [EvRun; EvReject; EvComplete; EvFail; EvExpire; EvResume].

Definition fsm (st : N) (e : mev) : option N :=
  match e with
  | EvReject => if st =? ST_New then Some ST_Rejected else None
  | EvRun => if (st =? ST_New) || (st =? ST_Resuming) then Some ST_Accepted
             else if (st =? ST_Accepted) || (st =? ST_Running) || (st =? ST_Completing) then Some ST_Running
             else None
  | EvComplete => if (st =? ST_Accepted) || (st =? ST_Running) then Some ST_Completing
                  else if st =? ST_Completing then Some ST_Completed else None
  | EvFail => if (st =? ST_New) || (st =? ST_Accepted) || (st =? ST_Running) then Some ST_Failing
              else if st =? ST_Failing then Some ST_Failed else None
  | EvResume => if (st =? ST_New) || (st =? ST_Accepted) then Some ST_Resuming else None
  | EvExpire => if (st =? ST_Completed) || (st =? ST_Failed) || (st =? ST_Rejected) then Some ST_Expired else None
  end.

Definition optN_eqb (a b : option N) : bool :=
  match a, b with Some x, Some y => x =? y | None, None => true | _, _ => false end.
(* st -> st' is a transition of the FSM *)
Definition fsm_can (st st' : N) : bool := existsb (fun e => optN_eqb (fsm st e) (Some st')) all_events.

(* ---- generic list helpers ---- *)
Fixpoint upd_first {A} (p : A -> bool) (f : A -> A) (l : list A) : list A :=
  match l with [] => [] | x :: t => if p x then f x :: t else x :: upd_first p f t end.
Fixpoint del_first {A} (p : A -> bool) (l : list A) : list A :=
  match l with [] => [] | x :: t => if p x then t else x :: del_first p t end.
Definition set_add (x : N) (l : list N) : list N := if memN x l then l else x :: l.
Definition set_del (x : N) (l : list N) : list N := filter (fun y => negb (y =? x)) l.

Definition m_find_app (s : mst) (id : N) : option mapp := find (fun a => ma_id a =? id) (m_apps s).
Definition m_find_q (s : mst) (id : N) : option mq := find (fun q => mq_id q =? id) (m_queues s).
Definition in_chain (q : mq) (chain : list N) : bool := memN (mq_id q) chain.
Definition below (q : mq) (a : mapp) : bool := in_chain q (ma_chain a).

(* ---- the writers of queue.go, applied to every queue of the chain ---- *)
(* incRunningApps: delete from allocatingAcceptedApps, runningApps++, clamp to max *)
Definition inc1 (app : N) (q : mq) : mq :=
  let r := mq_running q + 1 in
  mkMQ (mq_id q) (mq_max q) (if (0 <? mq_max q) && (mq_max q <? r) then mq_max q else r) (set_del app (mq_allocating q)).
(* decRunningApps: floor at 0 *)
Definition dec1 (q : mq) : mq :=
  mkMQ (mq_id q) (mq_max q) (if 0 <? mq_running q then mq_running q - 1 else 0) (mq_allocating q).
(* setAllocatingAccepted *)
Definition alloc1 (app : N) (q : mq) : mq :=
  mkMQ (mq_id q) (mq_max q) (mq_running q) (set_add app (mq_allocating q)).
Definition unalloc1 (app : N) (q : mq) : mq :=
  mkMQ (mq_id q) (mq_max q) (mq_running q) (set_del app (mq_allocating q)).
Definition on_chain (chain : list N) (f : mq -> mq) (qs : list mq) : list mq :=
  map (fun q => if in_chain q chain then f q else q) qs.

(* canRunApp: recursive, parent first; a missing queue object (nil receiver) answers true *)
Definition gate_q (q : mq) (app : N) : bool :=
  (mq_max q =? 0) || memN app (mq_allocating q) ||
  (mq_running q + (N.of_nat (length (mq_allocating q)) + 1) <=? mq_max q).
Fixpoint canRunApp (s : mst) (chain : list N) (app : N) : bool :=
  match chain with
  | [] => true
  | q :: parents =>
      if canRunApp s parents app then
        match m_find_q s q with Some x => gate_q x app | None => true end
      else false
  end.

(* ---- operations ---- *)
Inductive mop :=
| MAddQueue (id max : N)              (* configured / dynamic queue created *)
| MDelQueue (id : N)                  (* queue removed (cleanup of an empty queue) *)
| MSetMax (id max : N)                (* reload, template, SetMaxRunningApps from an application tag *)
| MAddApp (id : N) (chain : list N)   (* partition.AddApplication: leaf and ancestors *)
| MTo (id st : N)                     (* an FSM transition of the application *)
| MSched (id : N) (to : option N)     (* Queue.TryAllocate / TryReservedAllocate returned a result for the application;
                                         [to] = the state change the allocation caused inside tryAllocate, if any *)
| MRemoveApp (id : N) (twice : bool)  (* partition.removeApplication: completeApplication fired once or twice, then unlink *)
| MTerminated (id : N).               (* moveTerminatedApp (callback of enter_Completed / enter_Failed) *)

Definition set_state (id st : N) (apps : list mapp) : list mapp :=
  upd_first (fun a => ma_id a =? id) (fun a => mkMA (ma_id a) (ma_chain a) st) apps.

(* leave_Running / enter_Running callbacks around the state switch *)
Definition trans (s : mst) (a : mapp) (st' : N) : mst :=
  let qs1 := if (ma_state a =? ST_Running) && negb (st' =? ST_Running)
             then on_chain (ma_chain a) dec1 (m_queues s) else m_queues s in
  let qs2 := if negb (ma_state a =? ST_Running) && (st' =? ST_Running)
             then on_chain (ma_chain a) (inc1 (ma_id a)) qs1 else qs1 in
  mkMS qs2 (set_state (ma_id a) st' (m_apps s)).

(* an event: ignored when the FSM has no transition *)
Definition fire (s : mst) (id : N) (e : mev) : mst :=
  match m_find_app s id with
  | None => s
  | Some a => match fsm (ma_state a) e with Some st' => trans s a st' | None => s end
  end.

(* Queue.RemoveApplication (+ removal from the partition's application map).
   [unlink_leaf_only] is the behaviour of the code before the fix of finding C11-allocating-leak:
   allocatingAcceptedApps was cleaned on the leaf only. *)
Definition unlink (s : mst) (a : mapp) : mst :=
  mkMS (on_chain (ma_chain a) (unalloc1 (ma_id a)) (m_queues s))
       (del_first (fun x => ma_id x =? ma_id a) (m_apps s)).
Definition unlink_leaf_only (s : mst) (a : mapp) : mst :=
  mkMS (on_chain (firstn 1 (ma_chain a)) (unalloc1 (ma_id a)) (m_queues s))
       (del_first (fun x => ma_id x =? ma_id a) (m_apps s)).

Definition step (s : mst) (o : mop) : option mst :=
  match o with
  | MAddQueue id mx =>
      match m_find_q s id with
      | Some _ => None
      | None => Some (mkMS (m_queues s ++ [mkMQ id mx 0 []]) (m_apps s))
      end
  | MDelQueue id => Some (mkMS (filter (fun q => negb (mq_id q =? id)) (m_queues s)) (m_apps s))
  | MSetMax id mx =>
      Some (mkMS (map (fun q => if mq_id q =? id then mkMQ (mq_id q) mx (mq_running q) (mq_allocating q) else q) (m_queues s)) (m_apps s))
  | MAddApp id chain =>
      match m_find_app s id with
      | Some _ => None
      | None => Some (mkMS (m_queues s) (m_apps s ++ [mkMA id chain ST_New]))
      end
  | MTo id st' =>
      match m_find_app s id with
      | None => None
      | Some a => if fsm_can (ma_state a) st' then Some (trans s a st') else None
      end
  | MSched id to =>
      match m_find_app s id with
      | None => None
      | Some a =>
          (* TryAllocate: if app.IsAccepted() && !canRunApp -> continue (no result for this application) *)
          if (ma_state a =? ST_Accepted) && negb (canRunApp s (ma_chain a) id) then None
          else
            let s1 := match to with
                      | None => Some s
                      | Some st' => if fsm_can (ma_state a) st' then Some (trans s a st') else None
                      end in
            match s1 with
            | None => None
            | Some s1 =>
                let st1 := match to with Some st' => st' | None => ma_state a end in
                (* if app.IsAccepted() { sq.setAllocatingAccepted(appID) } *)
                if st1 =? ST_Accepted
                then Some (mkMS (on_chain (ma_chain a) (alloc1 id) (m_queues s1)) (m_apps s1))
                else Some s1
            end
      end
  | MRemoveApp id twice =>
      match m_find_app s id with
      | None => None
      | Some a =>
          let s1 := fire s id EvComplete in
          let s2 := if twice then fire s1 id EvComplete else s1 in
          match m_find_app s2 id with Some a2 => Some (unlink s2 a2) | None => None end
      end
  | MTerminated id =>
      match m_find_app s id with
      | None => None
      | Some a => if (ma_state a =? ST_Completed) || (ma_state a =? ST_Failed) then Some (unlink s a) else None
      end
  end.

Fixpoint run (s : mst) (ops : list mop) : option mst :=
  match ops with
  | [] => Some s
  | o :: t => match step s o with Some s1 => run s1 t | None => None end
  end.

(* ---- the predicates of the property (used by the theorems and, on projected observations, by the oracle) ---- *)
(* number of applications in the Running state in the subtree of q *)
Definition actual (s : mst) (q : mq) : N :=
  N.of_nat (length (filter (fun a => (ma_state a =? ST_Running) && below q a) (m_apps s))).

(* gate: the leaf and every ancestor with a maximum leave room for one more (an application the queue
   already lists as allocating passes that queue) *)
Definition gate (s : mst) (a : mapp) : bool :=
  forallb (fun qid => match m_find_q s qid with Some x => gate_q x (ma_id a) | None => true end) (ma_chain a).

Definition running_le_max_q (q : mq) : bool := (mq_max q =? 0) || (mq_running q <=? mq_max q).
(* step form: the count is within the maximum, or the maximum was changed by this step, or it was already
   above (after a lowered maximum) and did not grow *)
Definition max_step_ok (q q' : mq) : bool :=
  running_le_max_q q' || negb (mq_max q =? mq_max q') ||
  (negb (running_le_max_q q) && (mq_running q' <=? mq_running q)).
Definition max_step_pred (s s' : mst) : bool :=
  forallb (fun q' => running_le_max_q q' ||
                     existsb (fun q => (mq_id q =? mq_id q') && max_step_ok q q') (m_queues s)) (m_queues s').
Definition running_le_max (s : mst) : bool := forallb running_le_max_q (m_queues s).

Definition running_le_actual (s : mst) : bool := forallb (fun q => mq_running q <=? actual s q) (m_queues s).
Definition allocating_live (s : mst) : bool :=
  forallb (fun q => forallb (fun x => existsb (fun a => (ma_id a =? x) && below q a) (m_apps s)) (mq_allocating q))
          (m_queues s).
Definition empty_zero (s : mst) : bool :=
  forallb (fun q => existsb (below q) (m_apps s) ||
                    ((mq_running q =? 0) && match mq_allocating q with [] => true | _ => false end)) (m_queues s).

(* MSetMax that lowers a maximum below the current running count (the hypothesis of running_le_max) *)
Definition lowers (s : mst) (o : mop) : bool :=
  match o with
  | MSetMax id mx => existsb (fun q => (mq_id q =? id) && (0 <? mx) && (mx <? mq_running q)) (m_queues s)
  | _ => false
  end.
Fixpoint run_nolower (s : mst) (ops : list mop) : option mst :=
  match ops with
  | [] => Some s
  | o :: t => if lowers s o then None else match step s o with Some s1 => run_nolower s1 t | None => None end
  end.
