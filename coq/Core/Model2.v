(* Second fragment of the operational model: application add / remove, node removal, the state timer.
   [m_step2] extends [m_step] of Core/Model.v (which is frozen: its theorems are in Core/*Proofs.v). *)
From Coq Require Import List ZArith NArith Bool.
From YK Require Import Base.Int64 Base.Res Core.Obs Core.Model.
Import ListNotations.
Open Scope N_scope.

Definition no_res (a : oapp) : bool := match ap_reservations a with [] => true | _ => false end.
Definition plain_allocs (a : oapp) : bool :=
  forallb (fun x => negb (oa_ph x) && (oa_release x =? 0)) (ap_allocs a) &&
  forallb (fun x => negb (oa_ph x) && (oa_release x =? 0)) (ap_requests a).

Definition new_app (id queue user : N) (forced : bool) : oapp :=
  mkOApp id queue ST_New user [] [] [] [] [] [] [] [] [] false false forced false.

(* handleRMUpdateApplicationEvent + AddApplication for a plain application (no gang request, no quota tags)
   placed by the provided rule into an existing, active leaf queue; a duplicate id is rejected *)
Definition m_app_add (s : ostate) (id queue user : N) (forced nougi : bool) (phask : ores) (tagmaxapps : N) (tagmax : ores) : option ostate :=
  match find_app s id with
  | Some _ => Some s
  | None =>
      if nougi || forced || negb (IsZero phask) || negb (tagmaxapps =? 0) || negb (is_nil tagmax) then None else
      match find_queue s queue with
      | Some q => if q_leaf q && (q_state q =? QS_Active) && negb (q_parent q =? 0)
                  then Some (set_apps s (s_apps s ++ [new_app id queue user forced])) else None
      | None => None
      end
  end.

Fixpoint remove_allocs_from_nodes (s : ostate) (l : list oalloc) : ostate :=
  match l with
  | [] => s
  | x :: t => remove_allocs_from_nodes
                (match find_node s (oa_node x) with
                 | Some n => upd_node s (on_id n) (fun _ => n_remove n (oa_key x))
                 | None => s end) t
  end.

(* removeApplication: RemoveAllocationAsk(""), Queue.RemoveApplication, RemoveAllAllocations, node cleanup *)
Definition m_app_remove (s : ostate) (id : N) : option ostate :=
  match find_app s id with
  | None => Some s
  | Some a =>
      if negb (no_res a) || negb (plain_allocs a) then None else
      (* pending of all ancestors decreased by the application's pending; allocated likewise *)
      let s1 := if IsZero (Some (ap_pending a)) then s else q_dec_pending s (ap_queue a) (ap_pending a) in
      let s2 := if IsZero (Some (ap_allocated a)) then s1 else q_dec s1 (ap_queue a) (ap_allocated a) in
      let s3 := remove_allocs_from_nodes s2 (ap_allocs a) in
      let s4 := set_apps s3 (filter (fun b => negb (ap_id b =? id)) (s_apps s3)) in
      Some (add_counts s4 (- Z.of_nat (length (ap_allocs a))) 0)
  end.

(* removeNodeAllocations for allocations without in-flight link *)
Fixpoint remove_node_allocs (s : ostate) (l : list oalloc) : ostate * Z :=
  match l with
  | [] => (s, 0%Z)
  | x :: t =>
      match find_app s (oa_app x) with
      | None => remove_node_allocs s t
      | Some a =>
          match find_alloc (ap_allocs a) (oa_key x) with
          | None => remove_node_allocs s t
          | Some _ =>
              let allocated' := Prune (Sub (Some (ap_allocated a)) (Some (oa_res x))) in
              let zero := IsZero (Some (ap_pending a)) && IsZero (Some allocated') in
              let a1 := ap_event a (if zero then fsm_complete (ap_state a) else ap_state a) in
              let a2 := ap_with a1 (ap_state a1) (ap_pending a1) allocated' (ap_phalloc a1) (ap_requests a1)
                                (del_alloc (oa_key x) (ap_allocs a1)) (ap_statelog a1) in
              let s1 := upd_app s (ap_id a) (fun _ => a2) in
              let s2 := q_dec s1 (ap_queue a) (oa_res x) in
              let '(s3, n) := remove_node_allocs s2 t in (s3, (n + 1)%Z)
          end
      end
  end.

(* updateNode DECOMISSION: removeNode *)
Definition m_node_remove (s : ostate) (id : N) : option ostate :=
  match find_node s id with
  | None => Some s
  | Some n =>
      if negb (match on_reservations n with [] => true | _ => false end)
         || negb (forallb (fun x => negb (oa_ph x) && (oa_release x =? 0)) (on_allocs n)) then None else
      let s0 := set_nodes s (filter (fun m => negb (on_id m =? id)) (s_nodes s)) in
      let '(s1, cnt) := remove_node_allocs s0 (on_allocs n) in
      let s2 := part_update_total s1 (Multiply (Some (on_total n)) (-1)) in
      Some (add_counts s2 (- cnt) 0)
  end.

(* timeoutStateTimer for a Completing application without placeholders: Completing -> Completed,
   the application leaves the live list (moveTerminatedApp) *)
Definition m_fire_state (s : ostate) (id : N) : option ostate :=
  match find_app s id with
  | None => None      (* terminated applications (Expire) are outside the fragment *)
  | Some a =>
      if negb (ap_statetimer a) then Some s else
      if (ap_state a =? ST_Completing) && IsZero (Some (ap_phalloc a)) && IsZero (Some (ap_pending a)) && IsZero (Some (ap_allocated a))
      then Some (set_apps s (filter (fun b => negb (ap_id b =? id)) (s_apps s)))
      else None
  end.

(* UpdateAllocation for a key the application already has (no in-flight swap, not a placeholder):
   resource change first (UpdateAllocationResources + Node.UpdateAllocatedResource), then the transition
   from requested to allocated when the shim reports a node *)
Definition m_update_existing (s : ostate) (a : oapp) (x : oalloc) (r : oreq) : option ostate :=
  if oa_ph x || negb (oa_release x =? 0) || negb (no_res a) then None else
  let newres := oget (rq_res r) in
  let delta := Prune (Sub (Some newres) (Some (oa_res x))) in
  (* existing allocated on a node that is gone: rejected before anything changes *)
  if oa_allocated x && match find_node s (oa_node x) with None => true | _ => false end then Some s else
  let changed := negb (IsZero (Some delta)) && negb (IsZero (Some newres)) in
  let s1 :=
    if negb changed then s else
    if oa_allocated x then
      let a1 := ap_with a (ap_state a) (ap_pending a) (Prune (Add (Some (ap_allocated a)) (Some delta))) (ap_phalloc a)
                        (map (fun y => if oa_key y =? oa_key x then oa_with_res y newres else y) (ap_requests a))
                        (map (fun y => if oa_key y =? oa_key x then oa_with_res y newres else y) (ap_allocs a)) (ap_statelog a) in
      let s0 := q_inc (upd_app s (ap_id a) (fun _ => a1)) (ap_queue a) delta in
      match find_node s0 (oa_node x) with
      | Some n => upd_node s0 (on_id n) (fun _ => n_update_alloc n (oa_key x) newres delta)
      | None => s0 end
    else
      let a1 := ap_with a (ap_state a) (Prune (Add (Some (ap_pending a)) (Some delta))) (ap_allocated a) (ap_phalloc a)
                        (map (fun y => if oa_key y =? oa_key x then oa_with_res y newres else y) (ap_requests a))
                        (ap_allocs a) (ap_statelog a) in
      q_inc_pending (upd_app s (ap_id a) (fun _ => a1)) (ap_queue a) delta in
  if oa_allocated x || (rq_node r =? 0) then Some s1 else
  (* transitioning from requested to allocated: allocateAsk, IncAllocatedResource, Node.AddAllocation(force), AddAllocation *)
  match find_app s1 (ap_id a), find_node s1 (rq_node r) with
  | Some a1, Some n =>
      match find_alloc (ap_requests a1) (oa_key x) with
      | None => None
      | Some ask =>
          let bound := oa_bound ask (rq_node r) in
          match n_add n bound true with
          | None => None
          | Some n' =>
              let a2 := ap_event a1 (fsm_run (ap_state a1)) in
              let a3 := ap_with a2 (ap_state a2) (Prune (Sub (Some (ap_pending a2)) (Some (oa_res ask))))
                                (Add (Some (ap_allocated a2)) (Some (oa_res ask))) (ap_phalloc a2)
                                (put_alloc bound (ap_requests a2)) (put_alloc bound (ap_allocs a2)) (ap_statelog a2) in
              let s2 := q_dec_pending (upd_app s1 (ap_id a) (fun _ => a3)) (ap_queue a) (oa_res ask) in
              let s3 := q_inc s2 (ap_queue a) (oa_res ask) in
              Some (add_counts (upd_node s3 (on_id n) (fun _ => n')) 1 0)
          end
      end
  | _, _ => None
  end.

Definition m_alloc2 (s : ostate) (r : oreq) : option ostate :=
  if negb (rq_partition_ok r) || rq_foreign r then None else
  match find_app s (rq_app r) with
  | None => None
  | Some a =>
      if negb (rq_node r =? 0) && match find_node s (rq_node r) with None => true | _ => false end then None else
      if IsZero (rq_res r) || negb (StrictlyGreaterThanZero (rq_res r)) then None else
      match find_alloc (ap_requests a) (rq_key r) with
      | Some x => m_update_existing s a x r
      | None => None
      end
  end.

Definition m_step2 (deny : list (N * N)) (s : ostate) (st : ostep) : option ostate :=
  match m_step deny s st with
  | Some r => Some r
  | None =>
      if st_panic st then None else
      match st_op st with
      | OpAppAdd id queue user forced nougi phask hard tagmaxapps tagmax => m_app_add s id queue user forced nougi phask tagmaxapps tagmax
      | OpAppRemove id => m_app_remove s id
      | OpNodeRemove id => m_node_remove s id
      | OpFireState id => m_fire_state s id
      | OpFirePh id => match find_app s id with Some a => if ap_phtimer a then None else Some s | None => None end
      | OpAlloc r => m_alloc2 s r
      | _ => None
      end
  end.
