(* C03 over the gang fragment: executable (boolean) forms of the step hypotheses [StepOK3x] of Core/Model3ProofsT.v,
   each sound for its proposition, so that the hypotheses of the step theorem [m_step_gang_books] can be decided by
   vm_compute on concrete states and histories:
     [live_ok_b] / [node_keys_nz_b] / [state_ok3_b]   for  [LiveOK] / [NodeKeysNZ] / [StateOK3]
     [completing_ok_b] / [release_ok3_b]              for  [CompletingOK] / [ReleaseOK3]
     [unlinked_b]                                     for  [unlinked]
     [sched_ok3_b] / [fire_ph_ok_b]                   for  [SchedOK3] / [FirePhOK]
     [upd_ok3_b] / [rec_ok3_b]                        for  [UpdOK3] / [RecOK3]
     [step_ok3x_b nr_b]                               for  [StepOK3x NR]   (given a sound checker [nr_b] for [NR])
   histories: [RunOK3x] with [run3x_ok_b]; the example histories of Core/Model3ProofsEx.v are re-validated against the
   new hypotheses; [m_step_gang_books_b] is the step theorem with boolean premises and the oracle as conclusion.
   The node-removal hypothesis stays a parameter ([NR] / [nr_b]) throughout. *)
From Coq Require Import List ZArith NArith Bool Lia ZifyBool.
From YK Require Import Base.Int64 Base.Res Base.ResSpec Base.ResLemmas Core.Obs Core.Model Core.Model2 Core.Model3 Core.Ledger
  Core.BooksLemmas Core.BooksDefs Core.Model3ProofsD Core.Model3ProofsD2 Core.Model3ProofsA2
  Core.Model3ProofsO2b Core.Model3ProofsO3 Core.Model3ProofsO3c Core.Model3ProofsO4b
  Core.Model3ProofsC1 Core.Model3ProofsEx Core.Model3ProofsT Oracles.CoreC01.
Import ListNotations.
Open Scope Z_scope.
Set Default Timeout 60.

(* ================================================================== per-state hypotheses *)
Definition live_ok_b (s : ostate) : bool := forallb (fun a => negb (Model3.is_terminal (ap_state a))) (s_apps s).
Lemma live_ok_b_spec s : live_ok_b s = true -> LiveOK s.
Proof. intros H a Ha. pose proof (fa_in _ _ a H Ha) as H0. cbn beta in H0. apply negb_true_iff in H0. exact H0. Qed.

Definition node_keys_nz_b (s : ostate) : bool :=
  forallb (fun n => forallb (fun y => negb (oa_key y =? 0)%N) (on_allocs n)) (s_nodes s).
Lemma node_keys_nz_b_spec s : node_keys_nz_b s = true -> NodeKeysNZ s.
Proof. intros H n y Hn Hy. pose proof (fa_in _ _ y (fa_in _ _ n H Hn) Hy) as H0. cbn beta in H0.
  apply negb_true_iff, N.eqb_neq in H0. exact H0. Qed.

Definition state_ok3_b (s : ostate) : bool := live_ok_b s && node_keys_nz_b s.
Lemma state_ok3_b_spec s : state_ok3_b s = true -> StateOK3 s.
Proof. unfold state_ok3_b. rewrite andb_true_iff. intros [H1 H2].
  constructor; [apply live_ok_b_spec|apply node_keys_nz_b_spec]; assumption. Qed.

(* ================================================================== small pieces *)
Definition is_nil {A} (l : list A) : bool := match l with [] => true | _ => false end.
Lemma is_nil_spec {A} (l : list A) : is_nil l = true -> l = [].
Proof. destruct l; [reflexivity|discriminate]. Qed.

Definition completing_ok_b (a : oapp) : bool :=
  negb (ap_state a =? ST_Completing)%N || is_nil (real_allocs a) || is_nil (ph_allocs a).
Lemma completing_ok_b_spec a : completing_ok_b a = true -> CompletingOK a.
Proof. unfold completing_ok_b, CompletingOK. intros H E. rewrite E in H. cbn [negb orb] in H.
  apply orb_true_iff in H. destruct H as [H|H]; [left|right]; apply is_nil_spec; exact H. Qed.

Definition unlinked_b (l : list oalloc) (k : N) : bool :=
  forallb (fun y => negb (oa_ph y) || (oa_release y =? 0)%N || negb (oa_release y =? k)%N) l.
Lemma unlinked_b_spec l k : unlinked_b l k = true -> unlinked l k.
Proof. intros H y Hy Yph Yl C. pose proof (fa_in _ _ y H Hy) as H0. cbn beta in H0. rewrite Yph in H0.
  apply N.eqb_neq in Yl. rewrite Yl in H0. apply N.eqb_eq in C. rewrite C in H0. discriminate. Qed.

(* ================================================================== release of one key *)
Definition release_ok3_b (s : ostate) (app key ttype : N) : bool :=
  match find_app s app with
  | None => true
  | Some a =>
      completing_ok_b a && confirm_ok_b s app key ttype &&
      match find_alloc (ap_allocs a) key with
      | Some _ => true
      | None => negb (existsb (fun x => (oa_key x =? key)%N) (xnode_inflight_reals a))
      end
  end.
Lemma release_ok3_b_spec s app key ttype : release_ok3_b s app key ttype = true -> ReleaseOK3 s app key ttype.
Proof. unfold release_ok3_b, ReleaseOK3. intros H a Ea. rewrite Ea in H. rewrite !andb_true_iff in H.
  destruct H as [[H1 H2] H3]. split; [apply completing_ok_b_spec; exact H1|]. split; [exact H2|].
  intros En. rewrite En in H3. apply negb_true_iff in H3. exact H3. Qed.

(* ================================================================== a scheduling cycle *)
Definition sched_ok3_b (s : ostate) (st : ostep) : bool :=
  let rels := releases_of (st_events st) in
  let touts := filter (fun p => (snd p =? TT_Timeout)%N) rels in
  let repl := filter (fun p => (snd p =? TT_PlaceholderReplaced)%N) rels in
  match repl with
  | [(phk, app, _)] => swap_ok_b s (st_obs st) app phk
  | _ => true
  end &&
  match g_cancel_all s touts, newallocs_of (st_events st) with
  | Some s1, [(k, app, _)] =>
      match find_app s1 app with
      | Some a =>
          match find_alloc (ap_requests a) k with Some ask => (oa_release ask =? 0)%N | None => true end &&
          unlinked_b (ap_allocs a) k
      | None => true
      end
  | _, _ => true
  end.
Lemma sched_ok3_b_spec s st : sched_ok3_b s st = true -> SchedOK3 s st.
Proof. unfold sched_ok3_b, SchedOK3. cbv zeta. rewrite andb_true_iff. intros [H1 H2]. split.
  - intros phk app t E. rewrite E in H1. apply swap_ok_b_sound. exact H1.
  - intros s1 k app nid a Ec En Ea. rewrite Ec, En, Ea in H2. apply andb_true_iff in H2. destruct H2 as [H2 H3]. split.
    + intros ask Eask. rewrite Eask in H2. apply N.eqb_eq. exact H2.
    + apply unlinked_b_spec. exact H3. Qed.

(* ================================================================== the placeholder timer *)
Definition fire_ph_ok_b (s : ostate) (evs : list oevent) (id : N) : bool :=
  match find_app s id with
  | Some a => negb (ap_state a =? ST_Failing)%N || negb (has_state_event evs id ST_Failing)
  | None => true
  end.
Lemma fire_ph_ok_b_spec s evs id : fire_ph_ok_b s evs id = true -> FirePhOK s evs id.
Proof. unfold fire_ph_ok_b, FirePhOK. intros H a Ea E. rewrite Ea, E in H. cbn [N.eqb negb orb] in H.
  rewrite N.eqb_refl in H. cbn [negb orb] in H. apply negb_true_iff in H. exact H. Qed.

(* ================================================================== requests *)
Definition upd_ok3_b (s : ostate) (r : oreq) : bool :=
  match find_app s (rq_app r) with
  | None => true
  | Some a =>
      match find_alloc (ap_requests a) (rq_key r) with
      | None => true
      | Some x =>
          negb (oa_ph x) ||
          (if oa_allocated x
           then negb (res_changed (oget (rq_res r)) x) || (inb x (ap_allocs a) && (oa_release x =? 0)%N)
           else (rq_node r =? 0)%N ||
                ((oa_release x =? 0)%N && unlinked_b (ap_allocs a) (oa_key x) &&
                 bounded3_b (g_upd_mid s a x (oget (rq_res r)))))
      end
  end.
Lemma upd_ok3_b_spec s r : upd_ok3_b s r = true -> UpdOK3 s r.
Proof. unfold upd_ok3_b, UpdOK3. intros H a x Ea Ex Xph. rewrite Ea, Ex, Xph in H. cbn [negb orb] in H. split.
  - intros Xal Ech. rewrite Xal, Ech in H. cbn [negb orb] in H. apply andb_true_iff in H. destruct H as [H1 H2].
    split; [apply inb_spec; exact H1|apply N.eqb_eq; exact H2].
  - intros Xal En. rewrite Xal in H. apply N.eqb_neq in En. rewrite En in H. cbn [orb] in H.
    rewrite !andb_true_iff in H. destruct H as [[H1 H2] H3].
    split; [apply N.eqb_eq; exact H1|]. split; [apply unlinked_b_spec; exact H2|apply bounded3_b_spec; exact H3]. Qed.

Definition rec_ok3_b (s : ostate) (r : oreq) : bool :=
  match find_app s (rq_app r) with
  | None => true
  | Some a =>
      match find_alloc (ap_requests a) (rq_key r) with
      | Some _ => true
      | None => (rq_node r =? 0)%N || unlinked_b (ap_allocs a) (rq_key r)
      end
  end.
Lemma rec_ok3_b_spec s r : rec_ok3_b s r = true -> RecOK3 s r.
Proof. unfold rec_ok3_b, RecOK3. intros H a Ea En Hn. rewrite Ea, En in H. apply N.eqb_neq in Hn. rewrite Hn in H.
  cbn [orb] in H. apply unlinked_b_spec. exact H. Qed.

(* ================================================================== the step hypothesis *)
Definition step_ok3x_b (nr_b : ostate -> ostep -> N -> bool) (s : ostate) (st : ostep) : bool :=
  step_ok3_b s st && state_ok3_b s &&
  match st_op st with
  | OpAlloc r => upd_ok3_b s r && rec_ok3_b s r
  | OpRelease app key ttype => release_ok3_b s app key ttype
  | OpSched => sched_ok3_b s st
  | OpFirePh id => fire_ph_ok_b s (st_events st) id
  | OpNodeRemove id => nr_b s st id
  | _ => true
  end.
Theorem step_ok3x_b_spec (NR : ostate -> ostep -> N -> Prop) (nr_b : ostate -> ostep -> N -> bool) :
  (forall s st id, nr_b s st id = true -> NR s st id) ->
  forall s st, step_ok3x_b nr_b s st = true -> StepOK3x NR s st.
Proof. intros Hnr s st. unfold step_ok3x_b, StepOK3x. rewrite !andb_true_iff. intros [[H1 H2] H3].
  split; [apply step_ok3_b_spec; exact H1|]. split; [apply state_ok3_b_spec; exact H2|].
  destruct (st_op st); try exact I.
  - apply Hnr. exact H3.
  - apply andb_true_iff in H3. destruct H3 as [H3 H4]. split; [apply upd_ok3_b_spec|apply rec_ok3_b_spec]; assumption.
  - apply release_ok3_b_spec. exact H3.
  - apply sched_ok3_b_spec. exact H3.
  - apply fire_ph_ok_b_spec. exact H3. Qed.

(* ================================================================== histories *)
(* the carried hypotheses with the extended step hypothesis: in every state the run goes through the ledgers are bounded
   and the next step satisfies [StepOK3x] and the environment assumptions of the second fragment *)
Fixpoint RunOK3x (NR : ostate -> ostep -> N -> Prop) (deny : list (N * N)) (s : ostate) (steps : list ostep) : Prop :=
  match steps with
  | [] => True
  | st :: t => Bounded3 s /\ StepOK3x NR s st /\ StepOK2if deny s st /\
               match m_step3 deny s st with Some s' => RunOK3x NR deny s' t | None => True end
  end.
(* hypotheses AND conclusions (invariant with links, books), evaluated along the run *)
Fixpoint run3x_ok_b (nr_b : ostate -> ostep -> N -> bool) (deny : list (N * N)) (s : ostate) (steps : list ostep) : bool :=
  invg2_b s && books_b s &&
  match steps with
  | [] => true
  | st :: t => bounded3_b s && step_ok3x_b nr_b s st && step_ok2if_b deny s st &&
               match m_step3 deny s st with Some s' => run3x_ok_b nr_b deny s' t | None => true end
  end.

Section Run.
  Variable NR : ostate -> ostep -> N -> Prop.
  Variable nr_b : ostate -> ostep -> N -> bool.
  Hypothesis nr_b_sound : forall s st id, nr_b s st id = true -> NR s st id.

  Theorem run3x_ok_b_spec deny : forall steps s, run3x_ok_b nr_b deny s steps = true -> RunOK3x NR deny s steps.
  Proof. induction steps as [|st t IH]; intros s H; [exact I|]. cbn [run3x_ok_b RunOK3x] in *. rewrite !andb_true_iff in H.
    destruct H as [_ [[[H1 H2] H3] H4]]. split; [apply bounded3_b_spec; assumption|].
    split; [apply (step_ok3x_b_spec NR nr_b nr_b_sound); assumption|].
    split; [apply step_ok2if_b_spec; assumption|]. destruct (m_step3 deny s st); auto. Qed.

  (* the extended hypotheses contain the old ones *)
  Lemma run3x_ok_b_old deny : forall steps s, run3x_ok_b nr_b deny s steps = true -> run3_ok_b deny s steps = true.
  Proof. induction steps as [|st t IH]; intros s H; cbn [run3x_ok_b run3_ok_b] in *; [exact H|]. rewrite !andb_true_iff in H.
    destruct H as [[H1 H2] [[[H3 H4] H5] H6]]. unfold step_ok3x_b in H4. rewrite !andb_true_iff in H4. destruct H4 as [[H4 _] _].
    rewrite H1, H2, H3, H4, H5. cbn [andb]. destruct (m_step3 deny s st); auto. Qed.
  Corollary run3x_ok_b_good deny steps s : run3x_ok_b nr_b deny s steps = true -> RunGood3 deny s steps.
  Proof. intros H. apply run3_ok_b_good. apply run3x_ok_b_old. exact H. Qed.
End Run.

Lemma RunOK3x_old NR deny : forall steps s, RunOK3x NR deny s steps -> RunOK3 deny s steps.
Proof. induction steps as [|st t IH]; intros s H; [exact I|]. cbn [RunOK3x RunOK3] in *.
  destruct H as (H1 & (H2 & _) & H3 & H4). split; [exact H1|]. split; [exact H2|]. split; [exact H3|].
  destruct (m_step3 deny s st); auto. Qed.

(* ================================================================== the example histories, against the new hypotheses *)
(* the node-removal hypothesis is not fixed yet: the trivial checker stands for it *)
Definition nr_any : ostate -> ostep -> N -> bool := fun _ _ _ => true.

Theorem ex3_run_okx : run3x_ok_b nr_any ex3_deny ex3_s0 ex3_steps = true.
Proof. vm_compute. reflexivity. Qed.
Theorem to3_run_okx : run3x_ok_b nr_any [] ex3_s0 to3_steps = true.
Proof. vm_compute. reflexivity. Qed.
Theorem nr3_run_okx : run3x_ok_b nr_any ex3_deny ex3_s0 nr3_steps = true.
Proof. vm_compute. reflexivity. Qed.

(* ================================================================== the step theorem with boolean premises *)
Theorem m_step_gang_books_b (NR : ostate -> ostep -> N -> Prop) (nr_b : ostate -> ostep -> N -> bool) :
  (forall s st id, nr_b s st id = true -> NR s st id) ->
  (forall s st id s', InvG2 s -> BooksG s -> Bounded3 s -> StateOK3 s ->
     (forall a, In a (s_apps s) -> TermOK a) -> NR s st id ->
     g_node_remove s (st_events st) id = Some s' -> InvG2 s' /\ BooksG s') ->
  forall deny s st s', invg2_b s = true -> c03_state s = [] -> bounded3_b s = true -> step_ok3x_b nr_b s st = true ->
    m_step_gang deny s st = Some s' -> InvG2 s' /\ c03_state s' = [].
Proof. intros Hnr Hstep deny s st s' HI HB HBd Hok H.
  destruct (m_step_gang_books NR Hstep deny s st s' (invg2_b_spec s HI) (proj2 (books_reflect s) HB)
              (bounded3_b_spec s HBd) (step_ok3x_b_spec NR nr_b Hnr s st Hok) H) as [HI' HB'].
  split; [exact HI'|apply (proj1 (books_reflect s')); exact HB']. Qed.
