(* C03, state level: how the auxiliary invariant and the membership / root clauses of the books move from a
   state s to a state s' described by lookups (one application replaced, one node replaced, the queue list
   mapped by a function that keeps identifiers, parents and leaf flags). *)
From Coq Require Import List ZArith NArith Bool Lia ZifyBool.
From YK Require Import Base.Int64 Base.Res Base.ResSpec Base.ResLemmas Core.Obs Core.Model Core.Ledger
  Core.BooksLemmas Core.BooksDefs Core.BooksTree.
Import ListNotations.
Open Scope Z_scope.

(* ------------------------------------------------------------------ membership, as propositions *)
Definition NodeOwnedP (s : ostate) : Prop := forall n y, In n (s_nodes s) -> In y (on_allocs n) ->
  exists ap, In ap (s_apps s) /\ ap_id ap = oa_app y /\ In (oa_key y) (akeys (ap_allocs ap)).
Definition AppOnNodeP (s : ostate) : Prop := forall a x, In a (s_apps s) -> In x (ap_allocs a) ->
  exists n, In n (s_nodes s) /\ on_id n = oa_node x /\ In (oa_key x) (akeys (on_allocs n)).

Lemma owned_P_of s : Inv s -> NodeOwned s -> NodeOwnedP s.
Proof. intros HI H n y Hn Hy. pose proof (nk_node s n (inv_nodes s HI n Hn) y Hy) as [_ Hrel].
  destruct (owned_extract s y Hrel (H n y Hn Hy)) as (ap & z & E1 & E2). apply find_app_some in E1. destruct E1 as [Hap Eid].
  exists ap. split; [assumption|]. split; [assumption|]. apply find_alloc_some in E2. destruct E2 as [Hz Ek]. rewrite <- Ek.
  apply in_map. assumption. Qed.
Lemma owned_of_P s : NoDup (map ap_id (s_apps s)) -> NodeOwnedP s -> NodeOwned s.
Proof. intros Hnd H n y Hn Hy. destruct (H n y Hn Hy) as (ap & Hap & Eid & Hk).
  assert (E1 : find_app s (oa_app y) = Some ap) by (rewrite <- Eid; apply (findk_in ap_id); assumption).
  destruct (find_alloc (ap_allocs ap) (oa_key y)) as [z|] eqn:E2; [apply (owned_intro s y ap z E1 E2)|].
  apply find_alloc_none in E2. contradiction. Qed.
Lemma onnode_P_of s : AppOnNode s -> AppOnNodeP s.
Proof. intros H a x Ha Hx. destruct (onnode_extract s x (H a x Ha Hx)) as (n & E & Hk). apply find_node_some in E.
  exists n. tauto. Qed.
Lemma onnode_of_P s : NoDup (map on_id (s_nodes s)) -> AppOnNodeP s -> AppOnNode s.
Proof. intros Hnd H a x Ha Hx. destruct (H a x Ha Hx) as (n & Hn & Eid & Hk).
  apply (onnode_intro s x n); [|assumption]. rewrite <- Eid. apply (findk_in on_id); assumption. Qed.

(* ------------------------------------------------------------------ the queue tree under a ledger update *)
Section TreeMap.
  Variables (s s' : ostate) (g : oqueue -> oqueue).
  Hypothesis Eq : s_queues s' = map g (s_queues s).
  Hypothesis Gid : forall q, q_id (g q) = q_id q.
  Hypothesis Gpar : forall q, q_parent (g q) = q_parent q.
  Hypothesis Gleaf : forall q, q_leaf (g q) = q_leaf q.

  Lemma in_queues_map q' : In q' (s_queues s') <-> exists q, In q (s_queues s) /\ q' = g q.
  Proof. rewrite Eq, in_map_iff. split; intros (q & H1 & H2); exists q; auto. Qed.
  Lemma tree_map : TreeOK s -> TreeOK s'.
  Proof. intros [T1 T2 T3 T4 T5]. constructor.
    - rewrite Eq, map_map. erewrite map_ext; [exact T1|]. intros q. apply Gid.
    - intros q' Hq'. apply in_queues_map in Hq'. destruct Hq' as (q & Hq & ->). rewrite Gid. auto.
    - intros q1' q2' H1 H2. apply in_queues_map in H1, H2. destruct H1 as (q1 & H1 & ->). destruct H2 as (q2 & H2 & ->).
      rewrite !Gid, !Gpar. auto.
    - intros q' Hq'. apply in_queues_map in Hq'. destruct Hq' as (q & Hq & ->). rewrite Gid.
      rewrite (path_ids_map s s' g _ Eq Gid Gpar). destruct (T4 q Hq) as [N C]. split; [assumption|].
      unfold complete in *. rewrite (parent_of_map s s' g _ Eq Gid Gpar). assumption.
    - intros c' p' H1 H2. apply in_queues_map in H1, H2. destruct H1 as (c & H1 & ->). destruct H2 as (p & H2 & ->).
      rewrite !Gid, !Gpar, Gleaf. intros E. apply (T5 c p); assumption. Qed.
  Lemma find_queue_map' id : find_queue s' id = option_map g (find_queue s id).
  Proof. apply find_queue_map; assumption. Qed.
  Lemma root_queue_map : root_queue s' = option_map g (root_queue s).
  Proof. unfold root_queue. rewrite Eq. generalize (s_queues s). intros l. induction l as [|x t IH]; [reflexivity|]. cbn [map find].
    rewrite Gpar. destruct (q_parent x =? 0)%N; [reflexivity|apply IH]. Qed.
End TreeMap.

(* ------------------------------------------------------------------ assembling the invariant after an application update *)
(* request keys of the new record: inherited from the old one, or fresh in the partition *)
Definition ReqKeysOK (s : ostate) (a a' : oapp) : Prop :=
  forall r', In r' (ap_requests a') ->
    (exists r, In r (ap_requests a) /\ oa_key r = oa_key r') \/
    ((forall b z, In b (s_apps s) -> In z (ap_requests b) -> oa_key z <> oa_key r') /\
     (forall f, In f (s_foreign s) -> oa_key f <> oa_key r')).

Section Assemble.
  Variables (s s' : ostate) (a a' : oapp) (g : oqueue -> oqueue).
  Hypothesis HI : Inv s.
  Hypothesis Ha : In a (s_apps s).
  Hypothesis Eapps : s_apps s' = updk ap_id (s_apps s) (ap_id a) (fun _ => a').
  Hypothesis Eq : s_queues s' = map g (s_queues s).
  Hypothesis Ef : s_foreign s' = s_foreign s.
  Hypothesis Gid : forall q, q_id (g q) = q_id q.
  Hypothesis Gpar : forall q, q_parent (g q) = q_parent q.
  Hypothesis Gleaf : forall q, q_leaf (g q) = q_leaf q.
  Hypothesis Gwf : forall q, In q (s_queues s) -> wf (q_alloc (g q)) /\ wf (q_pending (g q)).
  Hypothesis Eid : ap_id a' = ap_id a.
  Hypothesis Equeue : ap_queue a' = ap_queue a.
  Hypothesis Wa' : AppWF a'.
  Hypothesis Hkeys : ReqKeysOK s a a'.

  Lemma in_apps' b' : In b' (s_apps s') <-> b' = a' \/ (In b' (s_apps s) /\ ap_id b' <> ap_id a).
  Proof. rewrite Eapps. apply in_updk_const; [apply (inv_app_ids s HI)|assumption]. Qed.
  Lemma app_ids' : map ap_id (s_apps s') = map ap_id (s_apps s).
  Proof. rewrite Eapps. apply updk_keys. intros b Hb. congruence. Qed.

  Lemma inv_assemble :
    NoDup (map on_id (s_nodes s')) -> (forall n, In n (s_nodes s') -> NodeOK s' n) ->
    s_nallocs s' = Z.of_nat (length (all_allocs s')) -> Inv s'.
  Proof. intros Hnid Hnodes Hcount. constructor.
    - rewrite app_ids'. apply (inv_app_ids s HI).
    - assumption.
    - apply (tree_map s s' g Eq Gid Gpar Gleaf). apply (inv_tree s HI).
    - intros b' Hb'. apply in_apps' in Hb'.
      assert (Hb : exists b, In b (s_apps s) /\ ap_queue b' = ap_queue b).
      { destruct Hb' as [->|[Hb _]]; [exists a; auto|exists b'; auto]. }
      destruct Hb as (b & Hb & ->). destruct (inv_app_leaf s HI b Hb) as (q & E & L). exists (g q).
      rewrite (find_queue_map' s s' g Eq Gid), E, Gleaf. auto.
    - intros b' Hb'. apply in_apps' in Hb'. destruct Hb' as [->|[Hb _]]; [assumption|apply (inv_app_wf s HI b' Hb)].
    - intros q' Hq'. apply (in_queues_map s s' g Eq) in Hq'. destruct Hq' as (q & Hq & ->). apply Gwf. assumption.
    - intros b1 b2 x1 x2 H1 H2 Hx1 Hx2 Ek. apply in_apps' in H1, H2.
      destruct H1 as [->|[H1 N1]], H2 as [->|[H2 N2]].
      + reflexivity.
      + rewrite Eid. destruct (Hkeys x1 Hx1) as [(r & Hr & Er)|[Fr _]].
        * apply (inv_keys s HI a b2 r x2); auto. congruence.
        * exfalso. apply (Fr b2 x2 H2 Hx2). congruence.
      + rewrite Eid. destruct (Hkeys x2 Hx2) as [(r & Hr & Er)|[Fr _]].
        * apply (inv_keys s HI b1 a x1 r); auto. congruence.
        * exfalso. apply (Fr b1 x1 H1 Hx1). congruence.
      + apply (inv_keys s HI b1 b2 x1 x2); auto.
    - intros f b' x Hf Hb' Hx. rewrite Ef in Hf. apply in_apps' in Hb'. destruct Hb' as [->|[Hb _]].
      + destruct (Hkeys x Hx) as [(r & Hr & Er)|[_ Fr]].
        * rewrite <- Er. apply (inv_foreign s HI f a r); auto.
        * auto.
      + apply (inv_foreign s HI f b' x); auto.
    - assumption.
    - assumption. Qed.
End Assemble.

(* the allocation counter after one application's allocation list changed *)
Lemma count_step s s' a a' dc : Inv s -> In a (s_apps s) ->
  s_apps s' = updk ap_id (s_apps s) (ap_id a) (fun _ => a') ->
  Z.of_nat (length (ap_allocs a')) = Z.of_nat (length (ap_allocs a)) + dc ->
  s_nallocs s' = s_nallocs s + dc -> s_nallocs s' = Z.of_nat (length (all_allocs s')).
Proof. intros HI Ha Eapps Hlen Hc. unfold all_allocs. rewrite Eapps.
  pose proof (length_flat_map_updk ap_id ap_allocs (s_apps s) a a' (inv_app_ids s HI) Ha) as L.
  rewrite Hc, (inv_count s HI). unfold all_allocs. lia. Qed.

(* ------------------------------------------------------------------ node invariant under shrinking lists *)
Lemma nodeok_sub s s' m m' :
  (forall b', In b' (s_apps s') -> exists b, In b (s_apps s) /\ incl (ap_allocs b') (ap_allocs b)) ->
  on_id m' = on_id m -> incl (on_allocs m') (on_allocs m) -> NoDup (akeys (on_allocs m')) ->
  (forall k, getz (on_allocated m') k = asum (on_allocs m') k) -> wf (on_allocated m') ->
  NodeOK s m -> NodeOK s' m'.
Proof. intros Hsub Eid Hincl Hnd Hled Hwf [K1 K2 K3 K4 K5]. constructor; auto.
  - intros y Hy. rewrite Eid. apply K2. apply Hincl. assumption.
  - intros y b' x Hy Hb' Hx E. destruct (Hsub b' Hb') as (b & Hb & Hi). apply (K3 y b x); auto. Qed.

(* ------------------------------------------------------------------ membership: frame *)
Definition apps_sim (s s' : ostate) : Prop :=
  (forall b', In b' (s_apps s') -> exists b, In b (s_apps s) /\ ap_id b' = ap_id b /\ ap_allocs b' = ap_allocs b) /\
  (forall b, In b (s_apps s) -> exists b', In b' (s_apps s') /\ ap_id b' = ap_id b /\ ap_allocs b' = ap_allocs b).
Definition nodes_sim (s s' : ostate) : Prop :=
  (forall m', In m' (s_nodes s') -> on_allocs m' = [] \/ exists m, In m (s_nodes s) /\ on_id m' = on_id m /\ on_allocs m' = on_allocs m) /\
  (forall m, In m (s_nodes s) -> exists m', In m' (s_nodes s') /\ on_id m' = on_id m /\ on_allocs m' = on_allocs m).

Lemma member_frame s s' : apps_sim s s' -> nodes_sim s s' -> NodeOwnedP s -> AppOnNodeP s -> NodeOwnedP s' /\ AppOnNodeP s'.
Proof. intros [A1 A2] [N1 N2] HO HP. split.
  - intros m' y Hm' Hy. destruct (N1 m' Hm') as [E|(m & Hm & Ei & Ea)]; [rewrite E in Hy; contradiction|].
    rewrite Ea in Hy. destruct (HO m y Hm Hy) as (ap & Hap & Eid & Hk). destruct (A2 ap Hap) as (ap' & Hap' & Ei' & Ea').
    exists ap'. rewrite Ei', Ea'. auto.
  - intros b' x Hb' Hx. destruct (A1 b' Hb') as (b & Hb & Ei & Ea). rewrite Ea in Hx.
    destruct (HP b x Hb Hx) as (m & Hm & Eid & Hk). destruct (N2 m Hm) as (m' & Hm' & Ei' & Ea').
    exists m'. rewrite Ei', Ea'. auto. Qed.
Lemma apps_sim_refl s s' : s_apps s' = s_apps s -> apps_sim s s'.
Proof. intros E. split; intros b Hb; exists b; rewrite E in *; auto. Qed.
Lemma nodes_sim_refl s s' : s_nodes s' = s_nodes s -> nodes_sim s s'.
Proof. intros E. split; [intros b Hb; right|intros b Hb]; exists b; rewrite E in *; auto. Qed.
Lemma apps_sim_upd s s' a a' : Inv s -> In a (s_apps s) -> s_apps s' = updk ap_id (s_apps s) (ap_id a) (fun _ => a') ->
  ap_id a' = ap_id a -> ap_allocs a' = ap_allocs a -> apps_sim s s'.
Proof. intros HI Ha E Eid Eal. split.
  - intros b' Hb'. rewrite E in Hb'. apply (in_updk_const ap_id) in Hb'; [|apply (inv_app_ids s HI)|assumption].
    destruct Hb' as [->|[Hb _]]; [exists a|exists b']; auto.
  - intros b Hb. destruct (N.eq_dec (ap_id b) (ap_id a)) as [Eb|Eb].
    + assert (b = a) by (apply (nodup_key_inj ap_id (s_apps s)); auto; apply (inv_app_ids s HI)). subst b.
      exists a'. split; [|auto]. rewrite E. apply (in_updk_const ap_id); [apply (inv_app_ids s HI)|assumption|auto].
    + exists b. split; [|auto]. rewrite E. apply (in_updk_const ap_id); [apply (inv_app_ids s HI)|assumption|auto]. Qed.
Lemma nodes_sim_upd s s' n n' : Inv s -> In n (s_nodes s) -> s_nodes s' = updk on_id (s_nodes s) (on_id n) (fun _ => n') ->
  on_id n' = on_id n -> on_allocs n' = on_allocs n -> nodes_sim s s'.
Proof. intros HI Hn E Eid Eal. split.
  - intros b' Hb'. right. rewrite E in Hb'. apply (in_updk_const on_id) in Hb'; [|apply (inv_node_ids s HI)|assumption].
    destruct Hb' as [->|[Hb _]]; [exists n|exists b']; auto.
  - intros b Hb. destruct (N.eq_dec (on_id b) (on_id n)) as [Eb|Eb].
    + assert (b = n) by (apply (nodup_key_inj on_id (s_nodes s)); auto; apply (inv_node_ids s HI)). subst b.
      exists n'. split; [|auto]. rewrite E. apply (in_updk_const on_id); [apply (inv_node_ids s HI)|assumption|auto].
    + exists b. split; [|auto]. rewrite E. apply (in_updk_const on_id); [apply (inv_node_ids s HI)|assumption|auto]. Qed.

(* ------------------------------------------------------------------ membership: an allocation added to / removed from
   one application and one node *)
Section MemberNode.
  Variables (s s' : ostate) (a a' : oapp) (n n' : onode).
  Hypothesis HI : Inv s.
  Hypothesis HO : NodeOwnedP s.
  Hypothesis HP : AppOnNodeP s.
  Hypothesis Ha : In a (s_apps s).
  Hypothesis Hn : In n (s_nodes s).
  Hypothesis Eapps : s_apps s' = updk ap_id (s_apps s) (ap_id a) (fun _ => a').
  Hypothesis Enodes : s_nodes s' = updk on_id (s_nodes s) (on_id n) (fun _ => n').
  Hypothesis Eid : ap_id a' = ap_id a.
  Hypothesis Enid : on_id n' = on_id n.

  Lemma in_apps_upd b' : In b' (s_apps s') <-> b' = a' \/ (In b' (s_apps s) /\ ap_id b' <> ap_id a).
  Proof. rewrite Eapps. apply in_updk_const; [apply (inv_app_ids s HI)|assumption]. Qed.
  Lemma in_nodes_upd m' : In m' (s_nodes s') <-> m' = n' \/ (In m' (s_nodes s) /\ on_id m' <> on_id n).
  Proof. rewrite Enodes. apply in_updk_const; [apply (inv_node_ids s HI)|assumption]. Qed.
  Lemma same_app b : In b (s_apps s) -> ap_id b = ap_id a -> b = a.
  Proof. intros Hb E. apply (nodup_key_inj ap_id (s_apps s)); auto. apply (inv_app_ids s HI). Qed.
  Lemma same_node m : In m (s_nodes s) -> on_id m = on_id n -> m = n.
  Proof. intros Hm E. apply (nodup_key_inj on_id (s_nodes s)); auto. apply (inv_node_ids s HI). Qed.
  Lemma node_ids' : NoDup (map on_id (s_nodes s')).
  Proof. rewrite Enodes, updk_keys; [apply (inv_node_ids s HI)|]. intros m Hm. congruence. Qed.

  Section Add.
    Variable x : oalloc.
    Hypothesis Ealloc : ap_allocs a' = put_alloc x (ap_allocs a).
    Hypothesis Enalloc : on_allocs n' = put_alloc x (on_allocs n).
    Hypothesis Xapp : oa_app x = ap_id a.
    Hypothesis Xnode : oa_node x = on_id n.
    Hypothesis Xrel : oa_release x = 0%N.
    Hypothesis Xfresh : forall b, In b (s_apps s) -> ~ In (oa_key x) (akeys (ap_allocs b)).

    Lemma fresh_on_nodes m : In m (s_nodes s) -> ~ In (oa_key x) (akeys (on_allocs m)).
    Proof. intros Hm C. unfold akeys in C. apply in_map_iff in C. destruct C as (y & Ek & Hy).
      destruct (HO m y Hm Hy) as (ap & Hap & _ & Hk). apply (Xfresh ap Hap). rewrite <- Ek. assumption. Qed.

    Lemma add_owned : NodeOwnedP s'.
    Proof. intros m' y Hm' Hy. apply in_nodes_upd in Hm'.
      assert (Hold : forall m, In m (s_nodes s) -> In y (on_allocs m) ->
                exists ap, In ap (s_apps s') /\ ap_id ap = oa_app y /\ In (oa_key y) (akeys (ap_allocs ap))).
      { intros m Hm Hym. destruct (HO m y Hm Hym) as (ap & Hap & Ei & Hk).
        destruct (N.eq_dec (ap_id ap) (ap_id a)) as [E|E].
        - pose proof (same_app ap Hap E). subst ap. exists a'. split; [apply in_apps_upd; auto|]. split; [congruence|].
          rewrite Ealloc. apply akeys_put. auto.
        - exists ap. split; [apply in_apps_upd; auto|auto]. }
      destruct Hm' as [->|[Hm _]]; [|apply (Hold m' Hm Hy)].
      rewrite Enalloc in Hy. apply in_put_alloc in Hy. destruct Hy as [->|[Hy _]]; [|apply (Hold n Hn Hy)].
      exists a'. split; [apply in_apps_upd; auto|]. split; [congruence|]. rewrite Ealloc. apply akeys_put. auto. Qed.

    Lemma add_onnode : AppOnNodeP s'.
    Proof. intros b' z Hb' Hz. apply in_apps_upd in Hb'.
      assert (Hold : forall b, In b (s_apps s) -> In z (ap_allocs b) ->
                exists m, In m (s_nodes s') /\ on_id m = oa_node z /\ In (oa_key z) (akeys (on_allocs m))).
      { intros b Hb Hzb. destruct (HP b z Hb Hzb) as (m & Hm & Ei & Hk).
        destruct (N.eq_dec (on_id m) (on_id n)) as [E|E].
        - pose proof (same_node m Hm E). subst m. exists n'. split; [apply in_nodes_upd; auto|]. split; [congruence|].
          rewrite Enalloc. apply akeys_put. auto.
        - exists m. split; [apply in_nodes_upd; auto|auto]. }
      destruct Hb' as [->|[Hb _]]; [|apply (Hold b' Hb Hz)].
      rewrite Ealloc in Hz. apply in_put_alloc in Hz. destruct Hz as [->|[Hz _]]; [|apply (Hold a Ha Hz)].
      exists n'. split; [apply in_nodes_upd; auto|]. split; [congruence|]. rewrite Enalloc. apply akeys_put. auto. Qed.

    Lemma add_nodeok_new : (forall k, getz (on_allocated n') k = asum (on_allocs n') k) -> wf (on_allocated n') -> NodeOK s' n'.
    Proof. intros Hled Hwf. destruct (inv_nodes s HI n Hn) as [K1 K2 K3 K4 K5]. constructor; auto.
      - rewrite Enalloc. apply akeys_put_nodup. assumption.
      - intros y Hy. rewrite Enalloc in Hy. apply in_put_alloc in Hy. rewrite Enid. destruct Hy as [->|[Hy _]]; auto.
      - intros y b' z Hy Hb' Hz Ek. rewrite Enalloc in Hy. apply in_put_alloc in Hy. apply in_apps_upd in Hb'.
        destruct Hb' as [->|[Hb Nb]].
        + rewrite Ealloc in Hz. apply in_put_alloc in Hz. destruct Hz as [->|[Hz Nz]], Hy as [->|[Hy Ny]]; try congruence.
          apply (K3 y a z); auto.
        + destruct Hy as [->|[Hy Ny]].
          * exfalso. apply (Xfresh b' Hb). rewrite <- Ek. apply in_map. assumption.
          * apply (K3 y b' z); auto. Qed.
    Lemma add_nodeok_other m : In m (s_nodes s) -> on_id m <> on_id n -> NodeOK s' m.
    Proof. intros Hm Hne. destruct (inv_nodes s HI m Hm) as [K1 K2 K3 K4 K5]. constructor; auto.
      intros y b' z Hy Hb' Hz Ek. apply in_apps_upd in Hb'. destruct Hb' as [->|[Hb Nb]]; [|apply (K3 y b' z); auto].
      rewrite Ealloc in Hz. apply in_put_alloc in Hz. destruct Hz as [->|[Hz Nz]]; [|apply (K3 y a z); auto].
      exfalso. apply (fresh_on_nodes m Hm). rewrite Ek. apply in_map. assumption. Qed.
    Lemma add_nodes_ok : (forall k, getz (on_allocated n') k = asum (on_allocs n') k) -> wf (on_allocated n') ->
      forall m', In m' (s_nodes s') -> NodeOK s' m'.
    Proof. intros Hled Hwf m' Hm'. apply in_nodes_upd in Hm'. destruct Hm' as [->|[Hm Hne]];
      [apply add_nodeok_new; assumption|apply add_nodeok_other; assumption]. Qed.
  End Add.

  Section Del.
    Variable x : oalloc.
    Hypothesis Hx : In x (ap_allocs a).
    Hypothesis Ealloc : ap_allocs a' = del_alloc (oa_key x) (ap_allocs a).
    Hypothesis Enalloc : on_allocs n' = del_alloc (oa_key x) (on_allocs n).
    Hypothesis Xnode : oa_node x = on_id n.

    Lemma del_owned : NodeOwnedP s'.
    Proof. intros m' y Hm' Hy. apply in_nodes_upd in Hm'.
      assert (Hold : forall m, In m (s_nodes s) -> In y (on_allocs m) -> (on_id m = on_id n -> oa_key y <> oa_key x) ->
                exists ap, In ap (s_apps s') /\ ap_id ap = oa_app y /\ In (oa_key y) (akeys (ap_allocs ap))).
      { intros m Hm Hym Hkey. destruct (HO m y Hm Hym) as (ap & Hap & Ei & Hk).
        destruct (N.eq_dec (ap_id ap) (ap_id a)) as [E|E].
        - pose proof (same_app ap Hap E). subst ap. exists a'. split; [apply in_apps_upd; auto|]. split; [congruence|].
          rewrite Ealloc. apply akeys_del. split; [assumption|]. intros C.
          pose proof (nk_same s m (inv_nodes s HI m Hm) y a x Hym Ha Hx (eq_sym C)) as Exy. subst y.
          apply Hkey; [|reflexivity]. rewrite <- Xnode. symmetry. apply (nk_node s m (inv_nodes s HI m Hm) x Hym).
        - exists ap. split; [apply in_apps_upd; auto|auto]. }
      destruct Hm' as [->|[Hm Hne]]; [|apply (Hold m' Hm Hy); intros; contradiction].
      rewrite Enalloc in Hy. apply in_del_alloc in Hy. destruct Hy as [Hy Hk]. apply (Hold n Hn Hy). auto. Qed.

    Lemma del_onnode : AppOnNodeP s'.
    Proof. intros b' z Hb' Hz. apply in_apps_upd in Hb'.
      assert (Hold : forall b, In b (s_apps s) -> In z (ap_allocs b) -> oa_key z <> oa_key x ->
                exists m, In m (s_nodes s') /\ on_id m = oa_node z /\ In (oa_key z) (akeys (on_allocs m))).
      { intros b Hb Hzb Hkey. destruct (HP b z Hb Hzb) as (m & Hm & Ei & Hk).
        destruct (N.eq_dec (on_id m) (on_id n)) as [E|E].
        - pose proof (same_node m Hm E). subst m. exists n'. split; [apply in_nodes_upd; auto|]. split; [congruence|].
          rewrite Enalloc. apply akeys_del. auto.
        - exists m. split; [apply in_nodes_upd; auto|auto]. }
      destruct Hb' as [->|[Hb Nb]].
      - rewrite Ealloc in Hz. apply in_del_alloc in Hz. destruct Hz as [Hz Hk]. apply (Hold a Ha Hz Hk).
      - apply (Hold b' Hb Hz). intros C. apply Nb.
        destruct (aw_allocreq b' (inv_app_wf s HI b' Hb) z Hz) as (r1 & Hr1 & E1 & _).
        destruct (aw_allocreq a (inv_app_wf s HI a Ha) x Hx) as (r2 & Hr2 & E2 & _).
        apply (inv_keys s HI b' a r1 r2); auto. congruence. Qed.

    Lemma del_nodes_ok : (forall k, getz (on_allocated n') k = asum (on_allocs n') k) -> wf (on_allocated n') ->
      forall m', In m' (s_nodes s') -> NodeOK s' m'.
    Proof. intros Hled Hwf m' Hm'.
      assert (Hsub : forall b', In b' (s_apps s') -> exists b, In b (s_apps s) /\ incl (ap_allocs b') (ap_allocs b)).
      { intros b' Hb'. apply in_apps_upd in Hb'. destruct Hb' as [->|[Hb _]]; [exists a|exists b'; split; [assumption|apply incl_refl]].
        split; [assumption|]. rewrite Ealloc. intros y Hy. apply in_del_alloc in Hy. tauto. }
      apply in_nodes_upd in Hm'. destruct Hm' as [->|[Hm Hne]].
      - apply (nodeok_sub s s' n n' Hsub Enid); auto.
        + rewrite Enalloc. intros y Hy. apply in_del_alloc in Hy. tauto.
        + rewrite Enalloc. apply akeys_del_nodup. apply (nk_keys s n (inv_nodes s HI n Hn)).
        + apply (inv_nodes s HI n Hn).
      - pose proof (inv_nodes s HI m' Hm) as K. apply (nodeok_sub s s' m' m' Hsub eq_refl); auto.
        + apply incl_refl.
        + apply (nk_keys s m' K).
        + apply (nk_ledger s m' K).
        + apply (nk_wf s m' K). Qed.
  End Del.
End MemberNode.

(* nodes unchanged or only their non-ledger fields changed, applications' allocation lists unchanged *)
Lemma nodes_ok_frame s s' : Inv s ->
  (forall b', In b' (s_apps s') -> exists b, In b (s_apps s) /\ incl (ap_allocs b') (ap_allocs b)) ->
  (forall m', In m' (s_nodes s') -> (on_allocs m' = [] /\ on_allocated m' = []) \/
     exists m, In m (s_nodes s) /\ on_id m' = on_id m /\ on_allocs m' = on_allocs m /\ on_allocated m' = on_allocated m) ->
  forall m', In m' (s_nodes s') -> NodeOK s' m'.
Proof. intros HI Hsub Hn m' Hm'. destruct (Hn m' Hm') as [[E1 E2]|(m & Hm & Ei & Ea & El)].
  - constructor; rewrite ?E1, ?E2; try (intros; contradiction); [constructor|reflexivity|constructor].
  - pose proof (inv_nodes s HI m Hm) as K. apply (nodeok_sub s s' m m' Hsub Ei); rewrite ?Ea, ?El.
    + apply incl_refl.
    + apply (nk_keys s m K).
    + apply (nk_ledger s m K).
    + apply (nk_wf s m K).
    + assumption. Qed.
