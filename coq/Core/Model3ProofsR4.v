(* C03 over mixed runs of [m_step3]: the steps answered by the second fragment [m_step2] (Core/Model2.v) re-proved under the
   gang invariant [InvG2].  Part 4: removeApplication for a plain application ([m_app_remove]) - the walk over the nodes is
   [RQG] of Core/Model3ProofsO5.v, the queue side is Queue.RemoveApplication without placeholder usage; the proof is the one
   of [app_remove_coreG] (O5) without the RemoveAllocationAsk("") prefix (Core/Model2.v drops the application with its asks). *)
From Coq Require Import List ZArith NArith Bool Lia ZifyBool.
From YK Require Import Base.Int64 Base.Res Base.ResSpec Base.ResLemmas Base.ResLaws Base.ResLaws2 Base.ResLawsPred
  Core.Obs Core.Model Core.Model2 Core.Model3 Core.Ledger
  Core.BooksLemmas Core.BooksDefs Core.BooksTree Core.BooksQueue Core.BooksApp Core.BooksState Core.BooksDrain Core.BooksOps
  Core.BooksOps2 Core.Model2ProofsB1 Core.Model2ProofsB2 Core.Model2ProofsB4 Core.Model3ProofsD Core.Model3ProofsD2 Core.Model3ProofsG1 Core.Model3ProofsG2
  Core.Model3ProofsG4 Core.Model3ProofsG5 Core.Model3ProofsG6 Core.Model3ProofsA1 Core.Model3ProofsA2 Core.Model3ProofsA3
  Core.Model3ProofsO1 Core.Model3ProofsO2 Core.Model3ProofsO4 Core.Model3ProofsO5 Core.Model3ProofsC1 Core.Model3ProofsR1 Core.Model3ProofsR2.
Import ListNotations.
Open Scope Z_scope.
Set Default Timeout 60.

(* the pending decrement as the code does it: skipped when the amount is zero *)
Definition cpend (r : res) : oqueue -> oqueue := if IsZero (Some r) then (fun q => q) else F_dec_pending r.
Lemma cpend_keep r q : q_id (cpend r q) = q_id q /\ q_parent (cpend r q) = q_parent q /\ q_leaf (cpend r q) = q_leaf q.
Proof. unfold cpend. destruct (IsZero _); auto. Qed.
Lemma cpend_Q q r : QOK q -> wf r -> rb r -> rnonneg r -> (forall k, getz r k <= getz (q_pending q) k) ->
  QFacts q (cpend r q) zero3 (fun k => - getz r k) /\ QOK (cpend r q).
Proof. intros Q Wr Br Nr Hle. unfold cpend. destruct (IsZero (Some r)) eqn:Ez.
  - pose proof (IsZero_getz _ Ez) as Z. split; [|assumption].
    apply (QFacts_ext q q zero3 zero3); [reflexivity|intros k; rewrite Z; reflexivity|apply QFacts_id; assumption].
  - split; [apply F_dec_pending_Q; assumption|apply F_dec_pending_QOK; assumption]. Qed.
Lemma cpend_state s leaf r :
  let σ' := if IsZero (Some r) then s else q_dec_pending s leaf r in
  s_queues σ' = path_map s leaf (cpend r) /\ s_nodes σ' = s_nodes s /\ s_apps σ' = s_apps s /\
  s_foreign σ' = s_foreign s /\ s_nallocs σ' = s_nallocs s.
Proof. cbv zeta. unfold cpend. destruct (IsZero (Some r)).
  - split; [symmetry; apply path_map_id|auto].
  - split; [apply (g_q_dec_pending_queues s s leaf r eq_refl)|auto]. Qed.

Section AppRemoveM.
  Variables (s : ostate) (a : oapp).
  Hypothesis HI : InvG s.
  Hypothesis HB : BooksG s.
  Hypothesis HBd : Bounded3 s.
  Hypothesis Ha : In a (s_apps s).
  Hypothesis Hni : NoInfl s (ap_id a).
  Hypothesis Hplain : IsZero (Some (ap_phalloc a)) = true.

  Let W := ig_app_wf s HI a Ha.
  Let B := bg_apps s HB a Ha.
  Let Bd := bd_apps s (b3_base s HBd) a Ha.
  Let leaf := ap_queue a.

  Definition FallM (q : oqueue) : oqueue := cdec (ap_allocated a) (cpend (ap_pending a) q).
  Lemma FallM_keep q : q_id (FallM q) = q_id q /\ q_parent (FallM q) = q_parent q /\ q_leaf (FallM q) = q_leaf q.
  Proof. unfold FallM. destruct (cdec_keep (ap_allocated a) (cpend (ap_pending a) q)) as (E4 & E5 & E6). destruct (cpend_keep (ap_pending a) q) as (E7 & E8 & E9).
    rewrite E4, E5, E6. auto. Qed.
  Lemma FallM_Q q : In q (s_queues s) -> In (q_id q) (path_ids s leaf) ->
    QFacts q (FallM q) (fun k => - getz (ap_allocated a) k - getz (ap_phalloc a) k) (fun k => - getz (ap_pending a) k) /\
    (forall k, getz (ap_allocated a) k <= getz (q_alloc (cpend (ap_pending a) q)) k).
  Proof. intros Hq Hin. pose proof (g_qok s q HI HB HBd Hq) as Q. pose proof (IsZero_getz _ Hplain) as Zph.
    assert (Hle : forall k, getz (ap_pending a) k <= getz (q_pending q) k) by (intros k; apply (g_pending_dominated s a HI HB Ha q k Hq Hin)).
    destruct (cpend_Q q (ap_pending a) Q (w3_pending a W) (abd_pending a Bd) (ab_nn_pend a B) Hle) as [P1 Q1].
    assert (L1 : forall k, getz (ap_allocated a) k <= getz (q_alloc (cpend (ap_pending a) q)) k).
    { intros k. destruct P1 as (_ & A & _). rewrite A. unfold zero3. pose proof (g_allocated_dominated s a HI HB Ha q k Hq Hin). lia. }
    destruct (cdec_Q (cpend (ap_pending a) q) (ap_allocated a) Q1 (w3_allocated a W) (abd_allocated a Bd) (ab_nn_alloc a B) L1) as [P2 _].
    split; [|exact L1]. unfold FallM.
    apply (QFacts_ext q _ (fun k => zero3 k + - getz (ap_allocated a) k) (fun k => - getz (ap_pending a) k + zero3 k));
      try (intros k; unfold zero3; rewrite ?Zph; lia).
    apply (QFacts_trans q _ _ _ _ _ _ P1 P2). Qed.

  Let s1 := if IsZero (Some (ap_pending a)) then s else q_dec_pending s (ap_queue a) (ap_pending a).
  Let s2 := if IsZero (Some (ap_allocated a)) then s1 else q_dec s1 (ap_queue a) (ap_allocated a).
  Let s3 := remove_allocs_from_nodes s2 (ap_allocs a).
  Let s' := add_counts (set_apps s3 (filter (fun b => negb (ap_id b =? ap_id a)%N) (s_apps s3))) (- Z.of_nat (length (ap_allocs a))) 0.
  Let Cz := fun k => asum (filter ninfl (node_records s)) k - asum (ap_allocs a) k.

  Lemma mar_s2 : s_queues s2 = path_map s leaf FallM /\ s_nodes s2 = s_nodes s /\ s_apps s2 = s_apps s /\ s_foreign s2 = s_foreign s /\ s_nallocs s2 = s_nallocs s.
  Proof. pose proof (cpend_state s leaf (ap_pending a)) as H1. cbv zeta in H1. destruct H1 as (Q1 & N1 & A1 & F1 & C1).
    assert (H2 := cdec_state s s1 leaf (cpend (ap_pending a)) (ap_allocated a)). cbv zeta in H2. unfold s2, s1 in *. unfold leaf in *.
    destruct H2 as (Q2 & N2 & A2 & F2 & C2).
    { exact Q1. } { intros q; apply cpend_keep. } { intros q; apply cpend_keep. } { apply (w3_allocated a W). }
    { intros q Hq Hin. apply (FallM_Q q Hq Hin). }
    rewrite N2, A2, F2, C2, N1, A1, F1, C1. auto. Qed.

  Lemma mar_walk : RQG s a Cz s3 [].
  Proof. destruct mar_s2 as (_ & N2 & _). unfold s3.
    apply (RQG_run s a Cz HI HBd Ha). apply (RQG_init s a Cz HI HBd Ha s2 N2). reflexivity. Qed.

  Lemma mar_norec m y : In m (s_nodes s3) -> In y (on_allocs m) -> oa_app y <> ap_id a.
  Proof. intros Hm Hy E. destruct mar_walk as [_ R2 _ _ R5 _ _]. destruct (nqg_mem s m (R2 m Hm) y Hy) as (m0 & Hm0 & _ & Hy0).
    destruct (g_owner s m0 y a HI Hm0 Hy0 Ha (eq_sym E)) as [Ho|(Hi & _)].
    - apply (R5 m y Hm Hy Ho).
    - rewrite (Hni m0 y Hm0 Hy0 E) in Hi. discriminate. Qed.

  Lemma mar_alloc_sum k : asum (ap_allocs a) k = getz (ap_allocated a) k + getz (ap_phalloc a) k.
  Proof. rewrite (ab_alloc a B k), (ab_ph a B k), (asum_split oa_ph (ap_allocs a) k). unfold real_allocs, ph_allocs. lia. Qed.

  Theorem app_remove_coreM : InvG s' /\ BooksG s' /\ Stripped s s' (ap_id a).
  Proof. destruct mar_walk as [R1 R2 _ _ R5 R6 R7]. destruct mar_s2 as (Q3 & N3 & A3 & F3 & C3).
    destruct (rafn_other (ap_allocs a) s2) as (A4 & Q4 & F4 & C4). fold s3 in A4, Q4, F4, C4.
    set (ae := emptied a).
    set (smid := mkOS (s_nodes s3) (updk ap_id (s_apps s) (ap_id a) (fun _ => ae)) (s_queues s3) (s_total s3)
                      (s_nallocs s - Z.of_nat (length (ap_allocs a))) (s_nph s3) (s_nres s3) (s_foreign s3) (s_completed s3) (s_rejected s3) (s_ugm s3)).
    assert (Eapps : s_apps smid = updk ap_id (s_apps s) (ap_id a) (fun _ => ae)) by reflexivity.
    assert (Eq : s_queues smid = map (fun q => if memN (q_id q) (path_ids s (ap_queue a)) then FallM q else q) (s_queues s)).
    { change (s_queues smid) with (s_queues s3). rewrite Q4. exact Q3. }
    assert (Ef : s_foreign smid = s_foreign s) by (change (s_foreign smid) with (s_foreign s3); rewrite F4; exact F3).
    assert (Hin : forall b', In b' (s_apps smid) <-> b' = ae \/ (In b' (s_apps s) /\ ap_id b' <> ap_id a)).
    { intros b'. rewrite Eapps. apply in_updk_const; [apply (ig_app_ids s HI)|assumption]. }
    assert (Hother : forall b z, In b (s_apps s) -> ap_id b <> ap_id a -> In z (ap_allocs b) -> ~ In z (ap_allocs a)).
    { intros b z Hb Hne Hz Hza. apply Hne. f_equal. apply (g_key_owner s b a z z HI Hb Ha); [apply in_records; auto|apply in_records; auto|reflexivity]. }
    assert (Hmid : InvG smid /\ BooksG smid).
    { apply (gang_step s smid a ae FallM (fun k => - getz (ap_allocated a) k - getz (ap_phalloc a) k) (fun k => - getz (ap_pending a) k) HI HB Ha Eapps Eq Ef).
      - intros q. apply FallM_keep.
      - intros q. apply FallM_keep.
      - intros q. apply FallM_keep.
      - intros q Hq Hi. apply (FallM_Q q Hq Hi).
      - reflexivity.
      - reflexivity.
      - constructor; try (intros k; reflexivity); apply rnonneg_nil.
      - constructor; cbn [ae emptied ap_with ap_requests ap_allocs ap_pending ap_allocated ap_phalloc]; try constructor; intros; contradiction.
      - intros r' Hr'. contradiction.
      - intros k. cbn [ae emptied ap_with ap_allocated ap_phalloc]. rewrite getz_nil. lia.
      - intros k. cbn [ae emptied ap_with ap_pending]. rewrite getz_nil. lia.
      - exact R1.
      - intros m Hm. apply (nqg_ok s m (R2 m Hm)).
      - intros m y Hm Hy. destruct (nqg_mem s m (R2 m Hm) y Hy) as (m0 & Hm0 & _ & Hy0).
        destruct (ig_owned s HI m0 y Hm0 Hy0) as (b & Hb & Eb & Ho). exists b. split; [|auto]. apply Hin. right. split; [assumption|].
        rewrite Eb. apply (mar_norec m y Hm Hy).
      - intros b' z Hb' Hz. apply Hin in Hb'. destruct Hb' as [->|[Hb' Hne]]; [contradiction|].
        destruct (ig_onnode s HI b' z Hb' Hz) as (m0 & Hm0 & Em0 & Hzm0).
        destruct (R6 m0 z Hm0 Hzm0 (Hother b' z Hb' Hne Hz)) as (m & Hm & Em & Hzm). exists m. split; [assumption|]. split; [congruence|assumption].
      - apply (g_count_step s smid a ae HI Ha Eapps (- Z.of_nat (length (ap_allocs a)))); [cbn; lia|]. cbn [smid s_nallocs]. lia.
      - intros k. specialize (R7 k). rewrite asum_nil in R7. change (node_records smid) with (node_records s3). unfold Cz in R7. rewrite mar_alloc_sum in R7. lia. }
    destruct Hmid as [HIm HBm].
    assert (Eapps' : s_apps s' = filter (fun b => negb (ap_id b =? ap_id a)%N) (s_apps smid)).
    { change (s_apps s') with (filter (fun b => negb (ap_id b =? ap_id a)%N) (s_apps s3)). rewrite A4, A3, Eapps.
      rewrite filter_updk_out by (intros b _; auto). reflexivity. }
    assert (Hdrop : InvG s' /\ BooksG s').
    { apply (drop_app_stepG smid s' (ap_id a) HIm HBm Eapps'); try reflexivity.
      - change (s_nallocs s3 + - Z.of_nat (length (ap_allocs a)) = s_nallocs s - Z.of_nat (length (ap_allocs a))). rewrite C4, C3. lia.
      - intros b Hb Eb. apply Hin in Hb. destruct Hb as [->|[_ Hne]]; [|contradiction]. constructor; intros; reflexivity.
      - intros m y Hm Hy. apply (mar_norec m y Hm Hy). }
    destruct Hdrop as [HI' HB']. split; [assumption|]. split; [assumption|]. constructor.
    - intros m y Hm Hy. apply (nqg_mem s m (R2 m Hm) y Hy).
    - intros m0 y Hm0 Hy Hne. apply (R6 m0 y Hm0 Hy). intros Hya. apply Hne. apply (g_record_app s a y HI Ha). apply in_records. auto.
    - intros m y Hm Hy. apply (mar_norec m y Hm Hy).
    - intros b. rewrite Eapps', Eapps, filter_updk_out by (intros b0 _; auto). rewrite filter_In.
      destruct (N.eqb_spec (ap_id b) (ap_id a)); cbn [negb]; intuition congruence. Qed.
End AppRemoveM.

(* removeApplication for a plain application (no placeholder, no link on any request or allocation: guard [plain_allocs]) *)
Theorem m_app_remove_stepG s s' id : InvG2 s -> BooksG s -> Bounded3 s -> m_app_remove s id = Some s' -> InvG2 s' /\ BooksG s'.
Proof. intros HI2 HB HBd H. pose proof HI2 as [HI HL]. unfold m_app_remove in H.
  destruct (find_app s id) as [a|] eqn:Ea; [|inversion H; subst s'; split; assumption].
  destruct (find_app_some _ _ _ Ea) as [Ha Eid]. subst id.
  destruct (no_res a) eqn:Hnr; [|discriminate]. destruct (plain_allocs a) eqn:Hpl; [|discriminate]. cbn [negb orb] in H.
  inversion H; subst s'; clear H. unfold plain_allocs in Hpl. apply andb_true_iff in Hpl. destruct Hpl as [P1 P2].
  pose proof (ig_app_wf s HI a Ha) as W. pose proof (bg_apps s HB a Ha) as B.
  assert (Hni : NoInfl s (ap_id a)).
  { intros n y Hn Hy Eapp. destruct (g_owner s n y a HI Hn Hy Ha (eq_sym Eapp)) as [Ho|(_ & Hr & _)].
    - pose proof (fa_in _ _ y P1 Ho) as E. cbn beta in E. apply andb_true_iff in E. destruct E as [_ E]. apply N.eqb_eq in E. apply infl_nolink. exact E.
    - pose proof (fa_in _ _ y P2 Hr) as E. cbn beta in E. apply andb_true_iff in E. destruct E as [_ E]. apply N.eqb_eq in E. apply infl_nolink. exact E. }
  assert (Hplain : IsZero (Some (ap_phalloc a)) = true).
  { apply (no_ph_zero_phalloc a W B). unfold ph_allocs. apply filter_nil. intros y Hy. pose proof (fa_in _ _ y P1 Hy) as E. cbn beta in E.
    apply andb_true_iff in E. destruct E as [E _]. apply negb_true_iff in E. exact E. }
  destruct (app_remove_coreM s a HI HB HBd Ha Hni Hplain) as (HI' & HB' & HS).
  split; [|assumption]. split; [assumption|]. apply (stripped_linkok s _ (ap_id a) HI HL Hni HS). Qed.

