(* C09 bridge, part 6: the partition counter and the writers of the reservation views.  [NresOK s]: the number of reservations held
   by live applications is at most the partition counter [s_nres s] (clause 991 of the oracle, [counter_ge_card] of Core/Reserve.v;
   it implies clause 903).  It is kept by every writer of Core/Model4.v that removes or adds a reservation:
     r_unreserve_internal / r_cancel   remove at least [num] entries, counter untouched      (no hypothesis)
     r_part_unreserve                  removes at least [num], subtracts exactly [num]         (no hypothesis)
     r_cancel_all, m_cancel_one, m_cancel_phase                                                 (no hypothesis)
     r_part_reserve, m_reserve4        one entry more, counter + 1                              (application ids unique)
     m_mark_victims                    reservation lists and counter untouched
   NOT proved: [NresOK] along the runs of [m_step4] - the ledger functions of Model.v / Model2.v rewrite whole application records
   ([upd_app s (ap_id a) (fun _ => a2)]); that they keep the reservation lists is proved inside the [..._rinv] lemmas of
   Model4ProofsR5/R6 only, not exported per step. *)
From Coq Require Import List ZArith NArith Bool Lia ZifyBool ZifyNat ZifyN.
From YK Require Import Base.Int64 Base.Res Core.Obs Core.Model Core.Model2 Core.Ledger Core.Model4 Core.StepProofs Core.Model4ProofsBr2.
From YK Require Core.Model4ProofsBr4.
Import ListNotations.
Open Scope nat_scope.
Set Default Timeout 60.

Definition rc (l : list oapp) : nat := length (flat_map ap_reservations l).
Definition rcount (s : ostate) : nat := rc (s_apps s).
Lemma nres_ok_rcount s : NresOK s <-> (Z.of_nat (rcount s) <= s_nres s)%Z.
Proof. reflexivity. Qed.
Lemma rc_cons a l : rc (a :: l) = length (ap_reservations a) + rc l.
Proof. unfold rc. cbn [flat_map]. apply app_length. Qed.

Lemma rc_map_le f l : (forall b, length (ap_reservations (f b)) <= length (ap_reservations b)) -> rc (map f l) <= rc l.
Proof. intros Hf. induction l as [|h t IH]; [apply le_n|]. cbn [map]. rewrite !rc_cons. specialize (Hf h). lia. Qed.
Lemma rc_upd_le id f l : (forall b, length (ap_reservations (f b)) <= length (ap_reservations b)) ->
  rc (map (fun a => if (ap_id a =? id)%N then f a else a) l) <= rc l.
Proof. intros Hf. apply rc_map_le. intros b. destruct (ap_id b =? id)%N; [apply Hf|apply le_n]. Qed.
Lemma rc_upd_lt id f l a : find (fun a => (ap_id a =? id)%N) l = Some a ->
  (forall b, length (ap_reservations (f b)) <= length (ap_reservations b)) -> length (ap_reservations (f a)) + 1 <= length (ap_reservations a) ->
  rc (map (fun a => if (ap_id a =? id)%N then f a else a) l) + 1 <= rc l.
Proof. intros Hfind Hf Ha. induction l as [|h t IH]; [discriminate|]. cbn [find] in Hfind. cbn [map]. rewrite !rc_cons. destruct (ap_id h =? id)%N.
  - apply Some_inj in Hfind. subst h. pose proof (rc_upd_le id f t Hf). lia.
  - specialize (IH Hfind). lia. Qed.
Lemma rc_upd_add id f l : NoDup (map ap_id l) -> (forall b, length (ap_reservations (f b)) <= length (ap_reservations b) + 1) ->
  rc (map (fun a => if (ap_id a =? id)%N then f a else a) l) <= rc l + 1.
Proof. intros Hn Hf. induction l as [|h t IH]; [cbn; lia|]. cbn [map] in *. inversion Hn as [|? ? Hh Ht]; subst. rewrite !rc_cons.
  destruct (N.eqb_spec (ap_id h) id) as [E|E].
  - assert (X : map (fun a => if (ap_id a =? id)%N then f a else a) t = t).
    { rewrite <- (map_id t) at 2. apply map_ext_in. intros b Hb. destruct (N.eqb_spec (ap_id b) id) as [C|C]; [|reflexivity].
      exfalso. apply Hh. rewrite E, <- C. apply in_map. exact Hb. }
    rewrite X. specialize (Hf h). lia.
  - specialize (IH Ht). lia. Qed.

Lemma drop_key_le k l : length (drop_key k l) <= length l.
Proof. unfold drop_key. induction l as [|h t IH]; [apply le_n|]. cbn [filter]. destruct (negb (key_is k h)); cbn [length]; lia. Qed.
Lemma drop_key_lt k l : existsb (key_is k) l = true -> length (drop_key k l) + 1 <= length l.
Proof. unfold drop_key. induction l as [|h t IH]; [discriminate|]. cbn [existsb filter]. destruct (key_is k h); cbn [negb orb length].
  - intros _. pose proof (drop_key_le k t) as X. unfold drop_key in X. lia.
  - intros H. specialize (IH H). lia. Qed.

(* ------------------------------------------------------------------ removal *)
Lemma rui_count s aid nid k :
  rcount (fst (r_unreserve_internal s aid nid k)) + N.to_nat (snd (r_unreserve_internal s aid nid k)) <= rcount s /\
  s_nres (fst (r_unreserve_internal s aid nid k)) = s_nres s.
Proof. unfold r_unreserve_internal. cbv zeta. set (s1 := upd_node s nid _). assert (E1 : s_apps s1 = s_apps s) by reflexivity.
  destruct (find_app s1 aid) as [a|] eqn:E; [destruct (existsb (key_is k) (ap_reservations a)) eqn:Ex|]; cbn [fst snd]; (split; [|reflexivity]).
  - unfold rcount. cbn [upd_app s_apps]. rewrite E1. unfold find_app in E. rewrite E1 in E. change (N.to_nat 1) with 1.
    apply (rc_upd_lt aid _ (s_apps s) a E); cbn [ap_set_res ap_reservations]; [intros b; apply drop_key_le|apply drop_key_lt; exact Ex].
  - unfold rcount. rewrite E1. cbn. lia.
  - unfold rcount. rewrite E1. cbn. lia. Qed.
Lemma r_cancel_count s aid k :
  rcount (fst (r_cancel s aid k)) + N.to_nat (snd (r_cancel s aid k)) <= rcount s /\ s_nres (fst (r_cancel s aid k)) = s_nres s.
Proof. unfold r_cancel. destruct (find_app s aid) as [a|]; [|cbn; split; [lia|reflexivity]].
  destruct (find (key_is k) (ap_reservations a)) as [p|]; [|cbn; split; [lia|reflexivity]].
  pose proof (rui_count s aid (fst p) k) as [H1 H2]. destruct (r_unreserve_internal s aid (fst p) k) as [s1 num]. cbn [fst snd] in *.
  split; [exact H1|exact H2]. Qed.
Theorem nres_ok_cancel s aid k : NresOK s -> NresOK (fst (r_cancel s aid k)).
Proof. rewrite !nres_ok_rcount. pose proof (r_cancel_count s aid k) as [H1 H2]. rewrite H2. lia. Qed.
Theorem nres_ok_part_unreserve s aid k : NresOK s -> NresOK (r_part_unreserve s aid k).
Proof. rewrite !nres_ok_rcount. unfold r_part_unreserve. pose proof (r_cancel_count s aid k) as [H1 H2]. destruct (r_cancel s aid k) as [s1 num].
  cbn [fst snd] in *. unfold rcount in *. cbn [add_nres s_apps s_nres]. lia. Qed.
Theorem nres_ok_cancel_all s a : NresOK s -> NresOK (r_cancel_all s a).
Proof. rewrite !nres_ok_rcount. unfold r_cancel_all.
  assert (G : forall l acc, rcount (fst (fold_left (fun acc p => let '(s', n) := r_unreserve_internal (fst acc) (ap_id a) (fst p) (snd p) in (s', (snd acc + n)%N)) l acc)) <= rcount (fst acc) /\
                            s_nres (fst (fold_left (fun acc p => let '(s', n) := r_unreserve_internal (fst acc) (ap_id a) (fst p) (snd p) in (s', (snd acc + n)%N)) l acc)) = s_nres (fst acc)).
  { induction l as [|p t IH]; intros acc; [split; [apply le_n|reflexivity]|]. cbn [fold_left].
    pose proof (rui_count (fst acc) (ap_id a) (fst p) (snd p)) as [H1 H2]. destruct (r_unreserve_internal (fst acc) (ap_id a) (fst p) (snd p)) as [s1 n].
    cbn [fst snd] in *. destruct (IH (s1, (snd acc + n)%N)) as [I1 I2]. cbn [fst] in *. split; [lia|congruence]. }
  specialize (G (ap_reservations a) (s, 0%N)). destruct (fold_left _ _ _) as [s1 tot]. cbn [fst] in G. destruct G as [G1 G2].
  unfold rcount in *. cbn [r_queue_unreserve upd_queues s_apps s_nres]. lia. Qed.
Theorem nres_ok_cancel_one s0 cnt mv s t : NresOK s -> NresOK (m_cancel_one s0 cnt mv s t).
Proof. unfold m_cancel_one. cbv zeta. destruct (_ || _ || _); [apply nres_ok_part_unreserve|apply nres_ok_cancel]. Qed.
Theorem nres_ok_cancel_phase s0 cnt mv l : NresOK s0 -> NresOK (m_cancel_phase s0 cnt mv l).
Proof. unfold m_cancel_phase. generalize s0 at 1 3. induction l as [|t u IH]; intros s H; [exact H|]. cbn [fold_left]. apply IH. apply nres_ok_cancel_one. exact H. Qed.

(* ------------------------------------------------------------------ addition *)
Theorem nres_ok_part_reserve s a n ask s' : NoDup (map ap_id (s_apps s)) -> r_part_reserve s a n ask = Some s' -> NresOK s -> NresOK s'.
Proof. intros Hn H. unfold r_part_reserve in H. destruct (oa_allocated ask); [apply Some_inj in H; subst; auto|].
  destruct (r_node_reserve_ok s n ask) as [[|]|]; [|apply Some_inj in H; subst; auto|discriminate]. cbv zeta in H. apply Some_inj in H. subst s'.
  rewrite !nres_ok_rcount. unfold rcount. cbn [add_nres r_queue_reserve upd_queues upd_app upd_node s_apps s_nres].
  pose proof (rc_upd_add (ap_id a) (fun b => ap_set_res b (ap_reservations b ++ [(on_id n, oa_key ask)])) (s_apps s) Hn) as X.
  assert (Y : forall b, length (ap_reservations (ap_set_res b (ap_reservations b ++ [(on_id n, oa_key ask)]))) <= length (ap_reservations b) + 1).
  { intros b. cbn [ap_set_res ap_reservations]. rewrite app_length. cbn [length]. lia. }
  specialize (X Y). lia. Qed.
Theorem nres_ok_reserve4 deny s pre aid nid k s' : NoDup (map ap_id (s_apps s)) -> m_reserve4 deny s pre aid nid k = Some s' -> NresOK s -> NresOK s'.
Proof. intros Hn H. unfold m_reserve4 in H. destruct (find_app s aid) as [a|]; [|discriminate]. destruct (find_node s nid) as [n|]; [|discriminate].
  destruct (find_alloc (ap_requests a) k) as [ask|]; [|discriminate]. destruct (existsb _ _); [discriminate|]. destruct (negb _); [discriminate|].
  eapply nres_ok_part_reserve; eassumption. Qed.

(* ------------------------------------------------------------------ marking victims *)
Lemma rc_map_same f l : (forall b, ap_reservations (f b) = ap_reservations b) -> rc (map f l) = rc l.
Proof. intros Hf. induction l as [|h t IH]; [reflexivity|]. cbn [map]. rewrite !rc_cons, IH, Hf. reflexivity. Qed.
Theorem nres_ok_mark_victims l : forall s s', m_mark_victims s l = Some s' -> NresOK s -> NresOK s'.
Proof. induction l as [|p t IH]; intros s s' H; cbn [m_mark_victims] in H; [apply Some_inj in H; subst; auto|].
  destruct (m_mark_victim s (snd p) (fst p)) as [s1|] eqn:E; [|discriminate]. intros HN. apply (IH _ _ H).
  unfold m_mark_victim in E. destruct (find_app s (snd p)) as [a|]; [|discriminate]. destruct (find_alloc _ _) as [x|]; [|discriminate].
  destruct (_ || _); [discriminate|]. apply Some_inj in E. subst s1. rewrite nres_ok_rcount in *. unfold rcount in *.
  cbn [q_inc_preempting on_path upd_queues relabel s_apps s_nres]. rewrite rc_map_same; [exact HN|reflexivity]. Qed.

Lemma m_step2_cn deny s st s' : m_step2 deny s st = Some s' -> s_completed s' = s_completed s /\ s_nres s' = s_nres s.
Proof. intros H. apply Model4ProofsBr4.cn_m_step2 in H. unfold Model4ProofsBr4.cn in H. inversion H. auto. Qed.
