(* C03 over the gang fragment (Core/Model3.v), generic layer, part 5: application records that differ only in fields
   the books do not read ([same_core]; the FSM [app_fire], [ap_with_ph]), and one operation proved on top of the generic
   layer as a template for the others: AddAllocationAsk for a new key ([g_new_ask_step], Core/Model3.v [g_new_ask]). *)
From Coq Require Import List ZArith NArith Bool Lia ZifyBool.
From YK Require Import Base.Int64 Base.Res Base.ResSpec Base.ResLemmas Base.ResLaws Base.ResLaws2 Base.ResLawsPred
  Core.Obs Core.Model Core.Model2 Core.Model3 Core.Ledger
  Core.BooksLemmas Core.BooksDefs Core.BooksTree Core.BooksQueue Core.BooksApp Core.BooksState Core.BooksDrain Core.BooksOps
  Core.BooksOps2 Core.Model2ProofsB2 Core.Model3ProofsD Core.Model3ProofsG1 Core.Model3ProofsG2.
Import ListNotations.
Open Scope Z_scope.
Set Default Timeout 30.

(* ------------------------------------------------------------------ records with the same identity, ledgers and lists *)
Record same_core (a b : oapp) : Prop := mkSC {
  sc_id : ap_id b = ap_id a; sc_queue : ap_queue b = ap_queue a;
  sc_pending : ap_pending b = ap_pending a; sc_allocated : ap_allocated b = ap_allocated a; sc_phalloc : ap_phalloc b = ap_phalloc a;
  sc_requests : ap_requests b = ap_requests a; sc_allocs : ap_allocs b = ap_allocs a }.
Lemma same_core_refl a : same_core a a. Proof. constructor; reflexivity. Qed.
Lemma same_core_trans a b c : same_core a b -> same_core b c -> same_core a c.
Proof. intros [] []. constructor; congruence. Qed.
Lemma same_core_books a b : same_core a b -> AppBooks a -> AppBooks b.
Proof. intros [S1 S2 S3 S4 S5 S6 S7] [B1 B2 B3 B4 B5 B6]. unfold real_allocs, ph_allocs, pending_asks in *.
  constructor; unfold real_allocs, ph_allocs, pending_asks; rewrite ?S3, ?S4, ?S5, ?S6, ?S7; assumption. Qed.
Lemma same_core_wf3 a b : same_core a b -> AppWF3 a -> AppWF3 b.
Proof. intros [S1 S2 S3 S4 S5 S6 S7] [W1 W2 W3 W4 W5 W6 W7 W8 W9 W10].
  constructor; rewrite ?S1, ?S3, ?S4, ?S5, ?S6, ?S7; assumption. Qed.
Lemma same_core_records a b : same_core a b -> app_records b = app_records a.
Proof. intros [S1 S2 S3 S4 S5 S6 S7]. unfold app_records. rewrite S6, S7. reflexivity. Qed.
Lemma same_core_ownedby a b y : same_core a b -> OwnedBy a y -> OwnedBy b y.
Proof. intros S. apply ownedby_same_lists; [apply (sc_requests a b S)|apply (sc_allocs a b S)]. Qed.

(* the FSM: every field the books read is kept, except that entering a terminal state empties the request map *)
Lemma app_fire_fields a e : ap_id (app_fire a e) = ap_id a /\ ap_queue (app_fire a e) = ap_queue a /\
  ap_pending (app_fire a e) = ap_pending a /\ ap_allocated (app_fire a e) = ap_allocated a /\ ap_phalloc (app_fire a e) = ap_phalloc a /\
  ap_allocs (app_fire a e) = ap_allocs a /\ (ap_requests (app_fire a e) = ap_requests a \/ ap_requests (app_fire a e) = []).
Proof. unfold app_fire. destruct (fsm3 (ap_state a) e) as [st'|]; [|repeat split; auto].
  destruct (st' =? ap_state a)%N; [repeat split; auto|]. cbn. destruct (is_terminal st'); repeat split; auto. Qed.
Lemma app_fire_core a e : (forall st', fsm3 (ap_state a) e = Some st' -> is_terminal st' = false) -> same_core a (app_fire a e).
Proof. intros H. unfold app_fire. destruct (fsm3 (ap_state a) e) as [st'|] eqn:E; [|apply same_core_refl].
  destruct (st' =? ap_state a)%N; [apply same_core_refl|]. constructor; cbn; try reflexivity. rewrite (H st' eq_refl). reflexivity. Qed.
Lemma app_fire_run_core a : same_core a (app_fire a AvRun).
Proof. apply app_fire_core. intros st'. cbn [fsm3]. destruct (_ || _); [intros E; inversion E; reflexivity|].
  destruct (_ || _ || _); [intros E; inversion E; reflexivity|discriminate]. Qed.
Lemma app_fire_resume_core a : same_core a (app_fire a AvResume).
Proof. apply app_fire_core. intros st'. cbn [fsm3]. destruct (_ || _); [intros E; inversion E; reflexivity|discriminate]. Qed.
Lemma ap_with_ph_core a pd t1 t2 hp : same_core a (ap_with_ph a pd t1 t2 hp). Proof. constructor; reflexivity. Qed.

(* ================================================================== AddAllocationAsk for a new key (placeholder asks; real asks in
   Failing / Resuming) *)
Section NewAskG.
  Variables (s : ostate) (a : oapp) (x : oalloc).
  Hypothesis HI : InvG s.
  Hypothesis HB : BooksG s.
  Hypothesis HBd : Bounded3 s.
  Hypothesis Ha : In a (s_apps s).
  Hypothesis Xok : AllocOK3 (ap_id a) x.
  Hypothesis Xb : rb (oa_res x).
  Hypothesis Xna : oa_allocated x = false.
  Hypothesis Xfresh : KeyFresh3 s (oa_key x).

  Let a1 := if ((ap_state a =? ST_New) || (ap_state a =? ST_Completing))%N then app_fire a AvRun else a.
  Let a2 := ap_set_lists a1 (put_alloc x (ap_requests a1)) (ap_allocs a1).
  Let a3 := if oa_ph x then ap_with_ph a2 (pd_add (oa_tg x) (ap_phdata a2)) (ap_phtimer a2) (ap_statetimer a2) (ap_hasph a2) else a2.
  Let a4 := ap_set_ledgers a3 (Prune (Add (Some (ap_pending a3)) (Some (oa_res x)))) (ap_allocated a3) (ap_phalloc a3).

  Lemma na_a1 : same_core a a1.
  Proof. unfold a1. destruct (_ || _); [apply app_fire_run_core|apply same_core_refl]. Qed.
  Lemma na_a3 : same_core a2 a3.
  Proof. unfold a3. destruct (oa_ph x); [apply ap_with_ph_core|apply same_core_refl]. Qed.
  Lemma na_fields : ap_id a4 = ap_id a /\ ap_queue a4 = ap_queue a /\ ap_allocated a4 = ap_allocated a /\ ap_phalloc a4 = ap_phalloc a /\
    ap_allocs a4 = ap_allocs a /\ ap_requests a4 = put_alloc x (ap_requests a) /\
    ap_pending a4 = Prune (Add (Some (ap_pending a)) (Some (oa_res x))).
  Proof. destruct na_a1 as [S1 S2 S3 S4 S5 S6 S7]. destruct na_a3 as [T1 T2 T3 T4 T5 T6 T7].
    unfold a4. cbn [ap_set_ledgers ap_with ap_id ap_queue ap_allocated ap_phalloc ap_allocs ap_requests ap_pending].
    rewrite T1, T2, T3, T4, T5, T6, T7. unfold a2. cbn [ap_set_lists ap_with ap_id ap_queue ap_allocated ap_phalloc ap_allocs ap_requests ap_pending].
    rewrite S1, S2, S3, S4, S5, S6, S7. repeat split; reflexivity. Qed.

  Lemma na_fresh_req : find_alloc (ap_requests a) (oa_key x) = None.
  Proof. apply find_alloc_none. intros C. unfold akeys in C. apply in_map_iff in C. destruct C as (z & E & Hz).
    apply (proj1 Xfresh a z Ha); [apply in_records; auto|assumption]. Qed.
  Lemma na_fresh_alloc : ~ In (oa_key x) (akeys (ap_allocs a)).
  Proof. intros C. unfold akeys in C. apply in_map_iff in C. destruct C as (z & E & Hz).
    apply (proj1 Xfresh a z Ha); [apply in_records; auto|assumption]. Qed.

  Lemma na_pending k : getz (ap_pending a4) k = getz (ap_pending a) k + getz (oa_res x) k.
  Proof. destruct na_fields as (_ & _ & _ & _ & _ & _ & ->). pose proof (ig_app_wf s HI a Ha) as W.
    apply PruneAdd_exact; [apply (w3_pending a W)|apply (a3_wf _ x Xok)|apply (abd_pending a (bd_apps s (b3_base s HBd) a Ha))|exact Xb]. Qed.
  Lemma na_books : AppBooks a4.
  Proof. destruct na_fields as (F1 & F2 & F3 & F4 & F5 & F6 & F7). pose proof (ig_app_wf s HI a Ha) as W.
    destruct (bg_apps s HB a Ha) as [B1 B2 B3 B4 B5 B6]. constructor.
    - intros k. unfold real_allocs. rewrite F3, F5. apply B1.
    - intros k. unfold ph_allocs. rewrite F4, F5. apply B2.
    - intros k. rewrite na_pending. unfold pending_asks. rewrite F6.
      rewrite (asum_filter_put (fun y => negb (oa_allocated y))) by apply (w3_req_keys a W).
      rewrite na_fresh_req, Xna. cbn [negb]. rewrite (B3 k). unfold pending_asks. lia.
    - rewrite F3. assumption.
    - rewrite F4. assumption.
    - apply fnonneg_rnonneg.
      + rewrite F7. apply Prune_wf, Add_wf. apply (w3_pending a W).
      + intros k. rewrite na_pending. pose proof (rnonneg_fnonneg _ B6 k). pose proof (rnonneg_fnonneg _ (a3_nn _ x Xok) k). lia. Qed.
  Lemma na_wf : AppWF3 a4.
  Proof. destruct na_fields as (F1 & F2 & F3 & F4 & F5 & F6 & F7). destruct (ig_app_wf s HI a Ha) as [W1 W2 W3 W4 W5 W6 W7 W8 W9 W10].
    constructor; rewrite ?F1, ?F3, ?F4, ?F5, ?F6, ?F7; auto.
    - apply akeys_put_nodup. assumption.
    - intros y Hy. apply in_put_alloc in Hy. destruct Hy as [->|[Hy _]]; auto.
    - intros r Hr Hal. apply in_put_alloc in Hr. destruct Hr as [->|[Hr _]]; [apply na_fresh_alloc|apply (W6 r Hr Hal)].
    - apply Prune_wf, Add_wf. assumption. Qed.

  Theorem g_new_ask_step : InvG (g_new_ask s a x) /\ BooksG (g_new_ask s a x).
  Proof. destruct na_fields as (F1 & F2 & F3 & F4 & F5 & F6 & F7).
    set (s' := g_new_ask s a x).
    assert (Eapps : s_apps s' = updk ap_id (s_apps s) (ap_id a) (fun _ => a4)) by reflexivity.
    assert (Enodes : s_nodes s' = s_nodes s) by reflexivity.
    assert (Eq : s_queues s' = path_map s (ap_queue a) (F_inc_pending (oa_res x))).
    { unfold s', g_new_ask. fold a1 a2 a3 a4. apply g_q_inc_pending_queues. reflexivity. }
    apply (gang_step s s' a a4 (F_inc_pending (oa_res x)) zero3 (getz (oa_res x)) HI HB Ha Eapps Eq eq_refl); try reflexivity; auto.
    - intros q Hq _. apply F_inc_pending_Q_nn; [apply (g_qok s q HI HB HBd Hq)|apply (a3_wf _ x Xok)|exact Xb|apply (a3_nn _ x Xok)].
    - apply na_books.
    - apply na_wf.
    - intros r' Hr'. apply in_records in Hr'. rewrite F5, F6 in Hr'. destruct Hr' as [Hr'|Hr'].
      + apply in_put_alloc in Hr'. destruct Hr' as [->|[Hr' _]]; [right; exact Xfresh|left; exists r'; split; [apply in_records; auto|reflexivity]].
      + left. exists r'. split; [apply in_records; auto|reflexivity].
    - intros k. rewrite F3, F4. unfold zero3. lia.
    - apply na_pending.
    - rewrite Enodes. apply (ig_node_ids s HI).
    - rewrite Enodes. apply (ig_nodes s HI).
    - apply (owned_nodes_same s s' a a4 HI Ha Eapps F1 Enodes). intros n y Hn Hy.
      apply (ownedby_put_req a a4 x y F5 F6). apply find_alloc_none. apply na_fresh_req.
    - apply (onnode_nodes_same s s' a a4 HI Ha Eapps Enodes). rewrite F5. apply incl_refl.
    - apply (g_count_step s s' a a4 HI Ha Eapps 0); [rewrite F5; lia|change (s_nallocs s') with (s_nallocs s); lia].
    - intros k. rewrite (node_records_same s s' Enodes). unfold zero3. lia. Qed.
End NewAskG.
