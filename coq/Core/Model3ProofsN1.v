(* C01 over the gang fragment of the operational model (Core/Model3.v, [m_step_gang] / [m_step3]), part 1:
   Node.ReplaceAllocation keeps the node ledger; the tool kit used by the per-operation proofs:
     - [nsim] / [lflag]: nodes that differ only in flags / links / node ids of the allocations they list (every change
       of the shared Allocation object, [obj_upd], is of this kind) satisfy the same ledger predicates;
     - [rv_stable] predicates on requests (they depend on resource and foreign flag only) and the request lists of
       the application-level functions of Model3.v;
     - frames of the queue / application / termination helpers. *)
From Coq Require Import List ZArith NArith Bool Lia ZifyBool.
From YK Require Import Base.Int64 Base.Int64Laws Base.Res Base.ResSpec Base.ResLemmas Base.ResLaws Base.ResLaws2
  Base.ResLawsPred Core.Obs Core.Model Core.Model2 Core.Ledger Core.Model3 Core.NodeProofs Core.QueueProofs Core.StepProofs
  Core.Model2ProofsN Oracles.CoreC01.
Import ListNotations.
Open Scope Z_scope.
Set Default Timeout 30.

(* ------------------------------------------------------------------ Node.ReplaceAllocation *)
(* delta = replacement - placeholder as functions, for the allocation [old] the node lists under the key.
   No bound on delta is assumed: both operands are within the bound, so two additions stay exact.
   The foreign flag of the replacement is irrelevant (ReplaceAllocation always writes the yunikorn map). *)
Theorem n_replace_ledger n k x delta old n' :
  n_replace n k x delta = Some n' -> NodeLedger n -> NodeWF n -> NodeSmall n ->
  find_alloc (on_allocs n) k = Some old -> wf (oa_res x) -> rsmall (oa_res x) ->
  (oa_key x = k \/ ~ In (oa_key x) (akeys (on_allocs n))) ->
  wf delta -> (forall t, getz delta t = getz (oa_res x) t - getz (oa_res old) t) ->
  NodeLedger n'.
Proof. unfold n_replace. intros H [L1 L2 L3] [Wt Wo Wa Wv Wl Wf Kl Kf] [St So Sa Sv Sl Sf] E Wx Sx Hk Wd Hd.
  rewrite E in H. apply Some_inj in H. subst n'.
  destruct (find_alloc_some _ _ _ E) as [Hold Ek].
  assert (Sold : rsmall (oa_res old)) by (apply Sl; assumption).
  assert (Hfresh : ~ In (oa_key x) (akeys (del_alloc k (on_allocs n)))).
  { intros C. apply akeys_del in C. destruct C as [C1 C2]. destruct Hk as [Hk|Hk]; auto. }
  assert (Kd : NoDup (akeys (del_alloc k (on_allocs n)))) by (apply akeys_del_nodup; assumption).
  split; nproj; intros t; specialize (St t); specialize (So t); specialize (Sa t); specialize (Sv t); specialize (Sx t);
    specialize (Sold t); specialize (Hd t).
  - rewrite addTo_getz; try assumption; try sm.
    rewrite asum_put, (find_alloc_none _ _ Hfresh), asum_del, E, L1 by assumption. lia.
  - apply L2.
  - rewrite Prune_getz by (apply subFrom_wf; assumption).
    rewrite subFrom_getz; try assumption; try sm. rewrite addTo_getz; try assumption; try sm. rewrite L3. lia. Qed.

Lemma n_replace_wf n k x delta n' : n_replace n k x delta = Some n' -> NodeWF n -> wf (oa_res x) -> NodeWF n'.
Proof. unfold n_replace. intros H [Wt Wo Wa Wv Wl Wf Kl Kf] Wx. destruct (find_alloc (on_allocs n) k); [|discriminate].
  apply Some_inj in H. subst n'. split; nproj; try assumption.
  - apply addTo_wf. assumption.
  - apply Prune_wf, subFrom_wf. assumption.
  - apply allocs_wf_put; [assumption|]. apply allocs_wf_del. assumption.
  - apply akeys_put_nodup, akeys_del_nodup. assumption. Qed.

Lemma n_replace_id n k x delta n' : n_replace n k x delta = Some n' ->
  on_id n' = on_id n /\ on_sched n' = on_sched n /\ on_total n' = on_total n /\ on_reservations n' = on_reservations n /\
  on_foreign n' = on_foreign n /\ on_occupied n' = on_occupied n.
Proof. unfold n_replace. intros H. destruct (find_alloc (on_allocs n) k); [|discriminate]. apply Some_inj in H. subst n'.
  repeat split. Qed.

(* the difference the partition passes: Sub(real, placeholder), not pruned *)
Lemma sub_delta l r : wf l -> wf r -> rsmall l -> rsmall r ->
  wf (Sub (Some l) (Some r)) /\ forall t, getz (Sub (Some l) (Some r)) t = getz l t - getz r t.
Proof. intros Wl Wr Sl Sr. split; [apply Sub_wf; exact Wl|]. intros t. cbn [Sub oget]. specialize (Sl t). specialize (Sr t).
  apply subFrom_getz; try assumption; sm. Qed.

(* the instance used by processAllocationRelease: the application's copy [ph] of the placeholder carries the resource
   of the copy the node lists *)
Theorem n_replace_sub_ledger n k real ph old n' :
  n_replace n k real (Sub (Some (oa_res real)) (Some (oa_res ph))) = Some n' -> NodeLedger n -> NodeWF n -> NodeSmall n ->
  find_alloc (on_allocs n) k = Some old -> oa_res old = oa_res ph -> wf (oa_res real) -> rsmall (oa_res real) ->
  (oa_key real = k \/ ~ In (oa_key real) (akeys (on_allocs n))) ->
  NodeLedger n' /\ NodeWF n'.
Proof. intros H L W S E Eres Wx Sx Hk. rewrite <- Eres in H.
  assert (Wold : wf (oa_res old)) by (apply (allocs_wf_find _ _ _ (nw_allocs _ W) E)).
  assert (Sold : rsmall (oa_res old)) by (apply (ns_allocs _ S); apply (find_alloc_some _ _ _ E)).
  destruct (sub_delta _ _ Wx Wold Sx Sold) as [Wd Gd]. split.
  - eapply n_replace_ledger; eassumption.
  - eapply n_replace_wf; eassumption. Qed.

(* ------------------------------------------------------------------ predicates on requests *)
(* the request predicates of [SInv] / [Bounded] look at the resource and the foreign flag only *)
Definition rv_stable (P : oalloc -> Prop) : Prop :=
  forall x y, oa_res y = oa_res x -> oa_foreign y = oa_foreign x -> P x -> P y.
Lemma rv_req_ok : rv_stable req_ok.
Proof. intros x y E1 E2 [H1 H2]. unfold req_ok. rewrite E1, E2. split; assumption. Qed.
Lemma rv_req_small : rv_stable req_small.
Proof. intros x y E1 E2 H. unfold req_small in *. rewrite E1. exact H. Qed.

(* a change of flags / link / node of an allocation record *)
Definition flagf (f : oalloc -> oalloc) : Prop :=
  forall y, oa_key (f y) = oa_key y /\ oa_res (f y) = oa_res y /\ oa_foreign (f y) = oa_foreign y.
Lemma flagf_released b : flagf (fun y => oa_set_released y b). Proof. intros y. repeat split. Qed.
Lemma flagf_link k : flagf (fun y => oa_set_link y k). Proof. intros y. repeat split. Qed.
Lemma flagf_allocated b : flagf (fun y => oa_set_allocated y b). Proof. intros y. repeat split. Qed.
Lemma flagf_rel_link k : flagf (fun y => oa_set_released (oa_set_link y k) true). Proof. intros y. repeat split. Qed.
Lemma flagf_bound nid : flagf (fun y => oa_bound y nid). Proof. intros y. repeat split. Qed.
Lemma flagf_P (P : oalloc -> Prop) f y : rv_stable P -> flagf f -> P y -> P (f y).
Proof. intros HP Hf Hy. destruct (Hf y) as (_ & E1 & E2). exact (HP y (f y) E1 E2 Hy). Qed.

Definition LP (P : oalloc -> Prop) (l : list oalloc) : Prop := forall y, In y l -> P y.
Lemma LP_incl (P : oalloc -> Prop) l l' : incl l' l -> LP P l -> LP P l'.
Proof. intros Hi H y Hy. apply H, Hi, Hy. Qed.
Lemma LP_nil (P : oalloc -> Prop) : LP P []. Proof. intros y []. Qed.
Lemma del_alloc_incl k l : incl (del_alloc k l) l. Proof. apply incl_filter. Qed.
Lemma LP_put (P : oalloc -> Prop) x l : P x -> LP P l -> LP P (put_alloc x l).
Proof. intros Hx Hl y Hy. apply in_put_alloc in Hy. destruct Hy as [->|Hy]; auto. Qed.
Lemma LP_map_key (P : oalloc -> Prop) k f l : (forall y, In y l -> P (f y)) -> LP P l -> LP P (map_key k f l).
Proof. intros Hf Hl y Hy. unfold map_key in Hy. apply in_map_iff in Hy. destruct Hy as (y0 & E & Hy0).
  destruct (oa_key y0 =? k)%N; subst y; auto. Qed.
Lemma LP_map_key_flag (P : oalloc -> Prop) k f l : rv_stable P -> flagf f -> LP P l -> LP P (map_key k f l).
Proof. intros HP Hf Hl. apply LP_map_key; [|exact Hl]. intros y Hy. apply flagf_P; auto. Qed.

(* ---- request lists of the application-level functions *)
Lemma app_fire_reqs a e : incl (ap_requests (app_fire a e)) (ap_requests a).
Proof. unfold app_fire. destruct (fsm3 (ap_state a) e) as [st'|]; [|apply incl_refl].
  destruct (st' =? ap_state a)%N; [apply incl_refl|]. cbn [ap_requests]. destruct (is_terminal st'); [apply incl_nil_l|apply incl_refl]. Qed.
Lemma app_fire_id a e : ap_id (app_fire a e) = ap_id a.
Proof. unfold app_fire. destruct (fsm3 (ap_state a) e) as [st'|]; [|reflexivity]. destruct (st' =? ap_state a)%N; reflexivity. Qed.
Lemma app_add_alloc_reqs a b x : incl (ap_requests (app_add_alloc a b x)) (ap_requests a).
Proof. unfold app_add_alloc. destruct (oa_ph x).
  - cbn [ap_set_lists ap_with ap_requests]. destruct (Equals _ _).
    + eapply incl_tran; [apply app_fire_reqs|]. cbn [ap_set_ledgers ap_with ap_requests]. destruct (IsZero _); apply incl_refl.
    + cbn [ap_set_ledgers ap_with ap_requests]. destruct (IsZero _); apply incl_refl.
  - cbn [ap_set_lists ap_set_ledgers ap_with ap_requests]. destruct (_ || _ || _); [apply app_fire_reqs|apply incl_refl]. Qed.
Lemma app_remove_alloc_reqs a x t : incl (ap_requests (app_remove_alloc a x t)) (ap_requests a).
Proof. unfold app_remove_alloc. destruct (oa_ph x).
  - cbn [ap_set_lists ap_with ap_requests]. destruct (IsZero _); [|apply incl_refl].
    destruct (_ || _ || _ || _); [|apply incl_refl]. eapply incl_tran; [apply app_fire_reqs|apply incl_refl].
  - cbn [ap_set_lists ap_with ap_requests]. destruct (_ && _); [|apply incl_refl]. eapply incl_tran; [apply app_fire_reqs|apply incl_refl]. Qed.
Lemma asks_state_check_reqs a : incl (ap_requests (asks_state_check a)) (ap_requests a).
Proof. unfold asks_state_check. destruct (_ && _ && _ && _ && _); [apply app_fire_reqs|apply incl_refl]. Qed.

(* ---- requests of a state *)
Definition rpres (s s' : ostate) : Prop := forall P, rv_stable P -> reqs_from P s -> reqs_from P s'.
Lemma rpres_refl s : rpres s s. Proof. intros P _ H. exact H. Qed.
Lemma rpres_trans s1 s2 s3 : rpres s1 s2 -> rpres s2 s3 -> rpres s1 s3.
Proof. intros H1 H2 P HP H. apply H2; [exact HP|]. apply H1; assumption. Qed.
Lemma rpres_apps s s' : s_apps s' = s_apps s -> rpres s s'.
Proof. intros E P _ H. eapply reqs_same; eassumption. Qed.
Lemma rpres_upd_app_incl s id f : (forall b, In b (s_apps s) -> ap_id b = id -> incl (ap_requests (f b)) (ap_requests b)) ->
  rpres s (upd_app s id f).
Proof. intros Hf P _ H. apply reqs_upd_app; [exact H|]. intros b x Hb Eid Hx. eapply H; [exact Hb|]. apply (Hf b Hb Eid). exact Hx. Qed.
(* the record of application [a] is replaced by one whose requests inherit every stable predicate *)
Lemma rpres_upd_app_const s id a a' : In a (s_apps s) ->
  (forall P, rv_stable P -> LP P (ap_requests a) -> LP P (ap_requests a')) -> rpres s (upd_app s id (fun _ => a')).
Proof. intros Ha Hf P HP H. apply reqs_upd_app; [exact H|]. intros b x _ _ Hx. apply (Hf P HP); [|exact Hx]. intros y Hy. eapply H; eassumption. Qed.
Lemma rpres_filter s f : rpres s (set_apps s (filter f (s_apps s))).
Proof. intros P _ H. apply reqs_filter. exact H. Qed.

(* ------------------------------------------------------------------ nodes up to flags of the listed allocations *)
Definition kr (x : oalloc) : N * res := (oa_key x, oa_res x).
Record nsim (n n' : onode) : Prop := mkNSim {
  nsm_id : on_id n' = on_id n; nsm_total : on_total n' = on_total n; nsm_occ : on_occupied n' = on_occupied n;
  nsm_alloc : on_allocated n' = on_allocated n; nsm_avail : on_available n' = on_available n;
  nsm_foreign : on_foreign n' = on_foreign n; nsm_allocs : map kr (on_allocs n') = map kr (on_allocs n) }.

Lemma kr_res l l' : map kr l' = map kr l -> map oa_res l' = map oa_res l.
Proof. intros H. apply (f_equal (map snd)) in H. rewrite !map_map in H. exact H. Qed.
Lemma kr_keys l l' : map kr l' = map kr l -> akeys l' = akeys l.
Proof. intros H. apply (f_equal (map fst)) in H. rewrite !map_map in H. exact H. Qed.
Lemma kr_in l l' x : map kr l' = map kr l -> In x l' -> exists y, In y l /\ oa_key y = oa_key x /\ oa_res y = oa_res x.
Proof. intros H Hx. apply (in_map kr) in Hx. rewrite H in Hx. apply in_map_iff in Hx. destruct Hx as (y & E & Hy).
  exists y. inversion E. auto. Qed.

Lemma nsim_refl n : nsim n n. Proof. split; reflexivity. Qed.
Lemma nsim_trans n1 n2 n3 : nsim n1 n2 -> nsim n2 n3 -> nsim n1 n3.
Proof. intros [A1 A2 A3 A4 A5 A6 A7] [B1 B2 B3 B4 B5 B6 B7]. split; congruence. Qed.
Lemma nsim_ledger n n' : nsim n n' -> NodeLedger n -> NodeLedger n'.
Proof. intros [A1 A2 A3 A4 A5 A6 A7] [L1 L2 L3]. split; intros k.
  - rewrite A4. unfold asum. rewrite (kr_res _ _ A7). apply L1.
  - rewrite A3, A6. apply L2.
  - rewrite A5, A2, A4, A3. apply L3. Qed.
Lemma nsim_wf n n' : nsim n n' -> NodeWF n -> NodeWF n'.
Proof. intros [A1 A2 A3 A4 A5 A6 A7] [Wt Wo Wa Wv Wl Wf Kl Kf]. split; rewrite ?A2, ?A3, ?A4, ?A5, ?A6; try assumption.
  - intros x Hx. destruct (kr_in _ _ x A7 Hx) as (y & Hy & _ & E). rewrite <- E. apply Wl. exact Hy.
  - rewrite (kr_keys _ _ A7). exact Kl. Qed.
Lemma nsim_small n n' : nsim n n' -> NodeSmall n -> NodeSmall n'.
Proof. intros [A1 A2 A3 A4 A5 A6 A7] [St So Sa Sv Sl Sf]. split; rewrite ?A2, ?A3, ?A4, ?A5, ?A6; try assumption.
  intros x Hx. destruct (kr_in _ _ x A7 Hx) as (y & Hy & _ & E). rewrite <- E. apply Sl. exact Hy. Qed.
Lemma nsim_keys n n' : nsim n n' -> akeys (on_allocs n') = akeys (on_allocs n).
Proof. intros H. apply kr_keys. apply H. Qed.
Lemma nsim_nonneg n n' : nsim n n' -> (forall x, In x (on_allocs n) \/ In x (on_foreign n) -> res_nonnegP (oa_res x)) ->
  forall x, In x (on_allocs n') \/ In x (on_foreign n') -> res_nonnegP (oa_res x).
Proof. intros [A1 A2 A3 A4 A5 A6 A7] H x [Hx|Hx].
  - destruct (kr_in _ _ x A7 Hx) as (y & Hy & _ & E). rewrite <- E. apply H. auto.
  - rewrite A6 in Hx. apply H. auto. Qed.

(* a list of nodes changed by flag updates only *)
Definition lflag (l l' : list onode) : Prop := exists g, l' = map g l /\ forall n, nsim n (g n).
Lemma lflag_refl l : lflag l l.
Proof. exists (fun n => n). split; [symmetry; apply map_id|apply nsim_refl]. Qed.
Lemma lflag_eq l l' : l' = l -> lflag l l'. Proof. intros ->. apply lflag_refl. Qed.
Lemma lflag_trans l1 l2 l3 : lflag l1 l2 -> lflag l2 l3 -> lflag l1 l3.
Proof. intros (g1 & -> & H1) (g2 & -> & H2). exists (fun n => g2 (g1 n)). split; [apply map_map|].
  intros n. eapply nsim_trans; [apply H1|apply H2]. Qed.
Lemma lflag_in l l' n' : lflag l l' -> In n' l' -> exists n, In n l /\ nsim n n'.
Proof. intros (g & -> & H) Hin. apply in_map_iff in Hin. destruct Hin as (n & <- & Hn). eauto. Qed.
Lemma lflag_find s s' id n' : lflag (s_nodes s) (s_nodes s') -> find_node s' id = Some n' ->
  exists n, find_node s id = Some n /\ nsim n n'.
Proof. intros (g & E & H) Hf. unfold find_node in *. rewrite E in Hf.
  rewrite (find_map (fun n => (on_id n =? id)%N) g) in Hf by (intros x; rewrite (nsm_id _ _ (H x)); reflexivity).
  destruct (find _ (s_nodes s)) as [n|]; [|discriminate]. apply Some_inj in Hf. subst n'. eauto. Qed.
Lemma lflag_find_fwd s s' id n : lflag (s_nodes s) (s_nodes s') -> find_node s id = Some n ->
  exists n', find_node s' id = Some n' /\ nsim n n'.
Proof. intros (g & E & H) Hf. unfold find_node in *. rewrite E.
  rewrite (find_map (fun n => (on_id n =? id)%N) g) by (intros x; rewrite (nsm_id _ _ (H x)); reflexivity).
  rewrite Hf. cbn [option_map]. eauto. Qed.

(* the node part of SInv / Bounded *)
Definition LOK (l : list onode) : Prop := forall n, In n l -> NodeLedger n /\ NodeWF n.
Definition LSm (l : list onode) : Prop := forall n, In n l -> NodeSmall n.
Lemma SInv_LOK s : SInv s -> LOK (s_nodes s).
Proof. intros [H1 H2 _] n Hn. auto. Qed.
Lemma SInv_of s : LOK (s_nodes s) -> reqs_from req_ok s -> SInv s.
Proof. intros H HR. split; [intros n Hn; apply (H n Hn)|intros n Hn; apply (H n Hn)|exact HR]. Qed.
Lemma LOK_flag l l' : lflag l l' -> LOK l -> LOK l'.
Proof. intros Hf H n' Hn'. destruct (lflag_in _ _ _ Hf Hn') as (n & Hn & Hs). destruct (H n Hn). split; [eapply nsim_ledger|eapply nsim_wf]; eassumption. Qed.
Lemma LSm_flag l l' : lflag l l' -> LSm l -> LSm l'.
Proof. intros Hf H n' Hn'. destruct (lflag_in _ _ _ Hf Hn') as (n & Hn & Hs). eapply nsim_small; [exact Hs|auto]. Qed.
Lemma LOK_set l id n' : LOK l -> NodeLedger n' -> NodeWF n' -> LOK (set_node l id n').
Proof. intros H L W. unfold LOK. apply (set_node_forall (fun m => NodeLedger m /\ NodeWF m) l id n'); auto. Qed.
Lemma LOK_filter l f : LOK l -> LOK (filter f l).
Proof. intros H n Hn. apply filter_In in Hn. apply H. tauto. Qed.

(* ------------------------------------------------------------------ a change of the shared Allocation object *)
Definition nflag (app k : N) (f : oalloc -> oalloc) (n : onode) : onode :=
  n_with n (on_occupied n) (on_allocated n) (on_available n)
         (map (fun y => if (oa_key y =? k)%N && (oa_app y =? app)%N then f y else y) (on_allocs n)) (on_foreign n).
Lemma obj_upd_nodes s app k f : s_nodes (obj_upd s app k f) = map (nflag app k f) (s_nodes s).
Proof. reflexivity. Qed.
Lemma obj_upd_queues s app k f : s_queues (obj_upd s app k f) = s_queues s.
Proof. reflexivity. Qed.
Lemma nflag_sim app k f n : flagf f -> nsim n (nflag app k f n).
Proof. intros Hf. split; try reflexivity. unfold nflag. nproj. rewrite map_map. apply map_ext. intros y.
  destruct (_ && _); [|reflexivity]. destruct (Hf y) as (E1 & E2 & _). unfold kr. rewrite E1, E2. reflexivity. Qed.
Lemma obj_upd_lflag s app k f : flagf f -> lflag (s_nodes s) (s_nodes (obj_upd s app k f)).
Proof. intros Hf. exists (nflag app k f). split; [reflexivity|]. intros n. apply nflag_sim. exact Hf. Qed.
Lemma obj_upd_rpres s app k f : flagf f -> rpres s (obj_upd s app k f).
Proof. intros Hf P HP H. eapply (reqs_same P (upd_app s app _)); [reflexivity|]. apply reqs_upd_app; [exact H|].
  intros b x Hb _ Hx. cbn [ap_set_lists ap_with ap_requests] in Hx. revert x Hx. apply LP_map_key_flag; [exact HP|exact Hf|].
  intros y Hy. eapply H; eassumption. Qed.

(* flag-only changes (oa_set_released / oa_set_link / oa_set_allocated ...) preserve everything *)
Theorem obj_upd_sinv s app k f : flagf f -> SInv s -> SInv (obj_upd s app k f).
Proof. intros Hf HI. apply SInv_of.
  - eapply LOK_flag; [apply obj_upd_lflag; exact Hf|apply SInv_LOK; exact HI].
  - apply (obj_upd_rpres s app k f Hf req_ok rv_req_ok). apply HI. Qed.
Theorem obj_upd_bounded s app k f : flagf f -> Bounded s -> Bounded (obj_upd s app k f).
Proof. intros Hf [B1 B2 B3]. split.
  - apply (LSm_flag (s_nodes s)); [apply obj_upd_lflag; exact Hf|exact B1].
  - apply (obj_upd_rpres s app k f Hf req_small rv_req_small). exact B2.
  - exact B3. Qed.

(* ------------------------------------------------------------------ flag steps *)
(* s' differs from s on the node side by flags of listed allocations only; its requests inherit stable predicates *)
Definition fstep (s s' : ostate) : Prop := lflag (s_nodes s) (s_nodes s') /\ rpres s s'.
Lemma fstep_refl s : fstep s s. Proof. split; [apply lflag_refl|apply rpres_refl]. Qed.
Lemma fstep_trans s1 s2 s3 : fstep s1 s2 -> fstep s2 s3 -> fstep s1 s3.
Proof. intros [A1 A2] [B1 B2]. split; [eapply lflag_trans|eapply rpres_trans]; eassumption. Qed.
Lemma fstep_sinv s s' : fstep s s' -> SInv s -> SInv s'.
Proof. intros [H1 H2] HI. apply SInv_of; [eapply LOK_flag; [exact H1|apply SInv_LOK; exact HI]|]. apply (H2 req_ok rv_req_ok). apply HI. Qed.
Lemma fstep_bounded s s' : fstep s s' -> s_queues s' = s_queues s -> Bounded s -> Bounded s'.
Proof. intros [H1 H2] Eq [B1 B2 B3]. split; [apply (LSm_flag _ _ H1); exact B1|apply (H2 req_small rv_req_small); exact B2|rewrite Eq; exact B3]. Qed.

Definition same_na (s s' : ostate) : Prop := s_nodes s' = s_nodes s /\ s_apps s' = s_apps s.
Lemma same_na_fstep s s' : same_na s s' -> fstep s s'.
Proof. intros [E1 E2]. split; [apply lflag_eq; exact E1|apply rpres_apps; exact E2]. Qed.
Lemma same_na_refl s : same_na s s. Proof. split; reflexivity. Qed.
Lemma same_na_trans s1 s2 s3 : same_na s1 s2 -> same_na s2 s3 -> same_na s1 s3.
Proof. intros [A1 A2] [B1 B2]. split; congruence. Qed.
Lemma same_na_q_inc s l r : same_na s (q_inc s l r). Proof. split; reflexivity. Qed.
Lemma same_na_q_inc_pending s l r : same_na s (q_inc_pending s l r). Proof. split; reflexivity. Qed.
Lemma same_na_q_dec_pending s l r : same_na s (q_dec_pending s l r). Proof. split; reflexivity. Qed.
Lemma same_na_q_dec s l r : same_na s (q_dec s l r). Proof. apply q_dec_frame. Qed.
Lemma same_na_q_try_inc s l r s' : q_try_inc s l r = Some s' -> same_na s s'.
Proof. intros H. destruct (q_try_inc_only_path _ _ _ _ H) as (_ & H1 & H2 & _). split; assumption. Qed.
Lemma same_na_add_counts s a b : same_na s (add_counts s a b). Proof. split; reflexivity. Qed.
Lemma same_na_set_completed s l : same_na s (set_completed s l). Proof. split; reflexivity. Qed.
Lemma same_na_total s d : same_na s (part_update_total s d). Proof. split; reflexivity. Qed.
Lemma same_na_if (c : bool) s s' : same_na s s' -> same_na s (if c then s' else s).
Proof. intros H. destruct c; [exact H|apply same_na_refl]. Qed.
Lemma same_na_ifn (c : bool) s s' : same_na s s' -> same_na s (if c then s else s').
Proof. intros H. destruct c; [apply same_na_refl|exact H]. Qed.

Ltac sna :=
  match goal with
  | |- same_na ?s ?s => apply same_na_refl
  | |- same_na ?s (q_dec ?s1 _ _) => apply (same_na_trans s s1); [sna|apply same_na_q_dec]
  | |- same_na ?s (q_dec_pending ?s1 _ _) => apply (same_na_trans s s1); [sna|apply same_na_q_dec_pending]
  | |- same_na ?s (q_inc ?s1 _ _) => apply (same_na_trans s s1); [sna|apply same_na_q_inc]
  | |- same_na ?s (q_inc_pending ?s1 _ _) => apply (same_na_trans s s1); [sna|apply same_na_q_inc_pending]
  | |- same_na ?s (add_counts ?s1 _ _) => apply (same_na_trans s s1); [sna|apply same_na_add_counts]
  | |- same_na ?s (set_completed ?s1 _) => apply (same_na_trans s s1); [sna|apply same_na_set_completed]
  | |- same_na ?s (part_update_total ?s1 _) => apply (same_na_trans s s1); [sna|apply same_na_total]
  | |- same_na ?s (if ?c then _ else _) => destruct c; sna
  end.

Lemma fstep_upd_app_const s id a a' : In a (s_apps s) ->
  (forall P, rv_stable P -> LP P (ap_requests a) -> LP P (ap_requests a')) -> fstep s (upd_app s id (fun _ => a')).
Proof. intros Ha Hf. split; [apply lflag_refl|eapply rpres_upd_app_const; eassumption]. Qed.
Lemma fstep_upd_app_incl s id f : (forall b, incl (ap_requests (f b)) (ap_requests b)) -> fstep s (upd_app s id f).
Proof. intros Hf. split; [apply lflag_refl|apply rpres_upd_app_incl; intros b _ _; apply Hf]. Qed.
Lemma fstep_obj_upd s app k f : flagf f -> fstep s (obj_upd s app k f).
Proof. intros Hf. split; [apply obj_upd_lflag|apply obj_upd_rpres]; exact Hf. Qed.

(* ---- removeAsksInternal *)
Lemma app_remove_ask_fstep s id key s' : app_remove_ask s id key = Some s' -> fstep s s' /\ s_nodes s' = s_nodes s.
Proof. unfold app_remove_ask. intros H. destruct (find_app s id) as [a|] eqn:Ea; [|apply Some_inj in H; subst; split; [apply fstep_refl|reflexivity]].
  destruct (find_app_some _ _ _ Ea) as [Hina _]. destruct (negb (no_res a)); [discriminate|].
  destruct (ap_requests a) as [|r0 rs] eqn:Er; [apply Some_inj in H; subst; split; [apply fstep_refl|reflexivity]|].
  cbv iota in H. rewrite <- Er in H. clear Er r0 rs.
  match type of H with (let '(delta, a1) := ?X in _) = _ => destruct X as [delta a1] eqn:EX end. apply Some_inj in H. subst s'.
  split; [|reflexivity].
  assert (Ha1 : incl (ap_requests a1) (ap_requests a)).
  { destruct (find_alloc (ap_requests a) key) as [x|]; inversion EX; subst; [|apply incl_refl].
    cbn [ap_set_lists ap_set_ledgers ap_with ap_requests]. apply del_alloc_incl. }
  eapply fstep_trans; [eapply (fstep_upd_app_const s id a a1 Hina); intros P _ HL; eapply LP_incl; eassumption|].
  eapply fstep_trans; [apply same_na_fstep, same_na_q_dec_pending|]. apply fstep_upd_app_incl. intros b. apply asks_state_check_reqs. Qed.

Lemma app_remove_all_asks_fstep s id s' : app_remove_all_asks s id = Some s' -> fstep s s' /\ s_nodes s' = s_nodes s.
Proof. unfold app_remove_all_asks. intros H. destruct (find_app s id) as [a|] eqn:Ea; [|apply Some_inj in H; subst; split; [apply fstep_refl|reflexivity]].
  destruct (find_app_some _ _ _ Ea) as [Hina _]. destruct (negb (no_res a)); [discriminate|].
  destruct (ap_requests a) as [|r0 rs]; [apply Some_inj in H; subst; split; [apply fstep_refl|reflexivity]|].
  apply Some_inj in H. subst s'. split; [|reflexivity].
  match goal with |- fstep s (upd_app (q_dec_pending (upd_app s id (fun _ => ?A)) _ _) _ _) => set (a1 := A) end.
  apply (fstep_trans s (upd_app s id (fun _ => a1))); [apply (fstep_upd_app_const s id a a1 Hina); intros P _ HL; apply LP_nil|].
  eapply fstep_trans; [apply same_na_fstep, same_na_q_dec_pending|]. apply fstep_upd_app_incl. intros b. apply asks_state_check_reqs. Qed.

(* ---- moveTerminatedApp *)
Lemma terminate_fstep s id : fstep s (terminate_if_done s id) /\ s_nodes (terminate_if_done s id) = s_nodes s.
Proof. unfold terminate_if_done. destruct (find_app s id) as [a|]; [|split; [apply fstep_refl|reflexivity]].
  destruct (negb (is_terminal (ap_state a))); [split; [apply fstep_refl|reflexivity]|]. cbv zeta.
  set (s1 := if IsZero (Some (ap_pending a)) then s else _). set (s2 := if IsZero (Some (ap_allocated a)) then s1 else _).
  set (s3 := if IsZero (Some (ap_phalloc a)) then s2 else _).
  assert (E3 : same_na s s3) by (unfold s3, s2, s1; sna).
  destruct E3 as [En Ea]. split; [|exact En]. split; [apply lflag_eq; exact En|].
  eapply rpres_trans; [apply rpres_apps; exact Ea|]. intros P HP HR b x Hb Hx. cbn [set_completed set_apps s_apps] in Hb. apply filter_In in Hb. eapply HR; [apply Hb|exact Hx]. Qed.
Lemma terminate_fold_fstep (l : list oalloc) : forall s,
  fstep s (fold_left (fun acc y => terminate_if_done acc (oa_app y)) l s).
Proof. induction l as [|y t IH]; intros s; [apply fstep_refl|]. cbn [fold_left]. eapply fstep_trans; [apply terminate_fstep|apply IH]. Qed.

(* ---- released marks (timers), cancelled placeholders *)
Lemma release_marks_fstep app l : forall s, fstep s (release_marks s app l) /\ s_queues (release_marks s app l) = s_queues s.
Proof. unfold release_marks. induction l as [|x t IH]; intros s; [split; [apply fstep_refl|reflexivity]|]. cbn [fold_left].
  destruct (oa_preempted x); [apply IH|]. destruct (IH (obj_upd s app (oa_key x) (fun y => oa_set_released y true))) as [F Q].
  split; [|rewrite Q; reflexivity]. eapply fstep_trans; [apply fstep_obj_upd, flagf_released|exact F]. Qed.

Lemma g_cancel_larger_fstep s app k s' : g_cancel_larger s app k = Some s' -> fstep s s' /\ s_queues s' = s_queues s.
Proof. unfold g_cancel_larger. intros H. destruct (find_app s app) as [a|]; [|discriminate].
  destruct (find_alloc (ap_allocs a) k) as [ph|]; [|discriminate]. destruct (_ && _ && _ && _ && _); [|discriminate].
  apply Some_inj in H. subst s'. split; [apply fstep_obj_upd, flagf_released|reflexivity]. Qed.
Lemma g_cancel_all_fstep l : forall s s', g_cancel_all s l = Some s' -> fstep s s' /\ s_queues s' = s_queues s.
Proof. induction l as [|[[k app] t] rest IH]; intros s s' H; cbn [g_cancel_all] in H.
  - apply Some_inj in H. subst. split; [apply fstep_refl|reflexivity].
  - destruct (g_cancel_larger s app k) as [s1|] eqn:E; [|discriminate]. destruct (g_cancel_larger_fstep _ _ _ _ E) as [F1 Q1].
    destruct (IH _ _ H) as [F2 Q2]. split; [eapply fstep_trans; eassumption|congruence]. Qed.
