(* Proofs about the reload model, part 2: accept_applies, missing_drains, removed_only_empty, no failure after the
   first write, the placement guard, and the refuted clause (finding 19). *)
From Coq Require Import List ZArith NArith Bool Lia.
From YK Require Import Base.Res Core.Obs Core.Reload Core.ReloadSpec Core.ReloadProofs.
Import ListNotations.
Open Scope N_scope.

(* ---- state machine facts ---- *)
Lemma start_active st : valid_state st = true -> (if st =? QS_Active then st else q_event EV_Start st) = QS_Active.
Proof.
  unfold valid_state. intros H. destruct (N.eqb_spec st QS_Active) as [He|Hne]; [exact He|].
  cbn [orb] in H. apply orb_true_iff in H as [H|H]; apply N.eqb_eq in H; rewrite H; reflexivity.
Qed.
Lemma start_not_draining st : (if st =? QS_Active then st else q_event EV_Start st) <> QS_Draining.
Proof.
  destruct (N.eqb_spec st QS_Active) as [He|Hne]; [rewrite He; discriminate|].
  unfold q_event, fsm_event. cbn [N.eqb EV_Start EV_Remove]. change (EV_Start =? EV_Remove) with false. cbv iota.
  change (EV_Start =? EV_Start) with true. cbv iota.
  destruct ((st =? QS_Active) || (st =? QS_Stopped) || (st =? QS_Draining)) eqn:E; [discriminate|].
  apply orb_false_iff in E as [_ E]. apply N.eqb_neq in E. assumption.
Qed.
Lemma remove_draining st : (st =? QS_Active) || (st =? QS_Draining) = true -> q_event EV_Remove st = QS_Draining.
Proof. intros H. unfold q_event, fsm_event. change (EV_Remove =? EV_Remove) with true. cbv iota. rewrite H. reflexivity. Qed.

(* ---- accept_applies ---- *)
Definition ex_ok (c : conf_tree) (ex : option qtree) : Prop :=
  match ex with
  | Some t => qid t = ct_id c /\ is_rootq (troot t) = false /\ tree_okb t = true
  | None => True
  end.
Lemma tree_okb_state t : tree_okb t = true -> valid_state (m_state (troot t)) = true.
Proof. destruct t as [q kids]. intros H. apply tree_okb_inv in H as (H & _). assumption. Qed.

Lemma upd_root_id c pq ex : ex_ok c ex -> m_id (upd_root c pq ex) = ct_id c.
Proof. destruct c. destruct ex as [[q0 k0]|]; cbn; [intros (H & _); exact H|reflexivity]. Qed.

Ltac refl_all := rewrite ?N.eqb_refl, ?eqb_reflx, ?ores_eqm_refl, ?props_eqb_refl, ?derived_eqb_refl; cbn [andb].

Lemma upd_root_ok c pq ex : ex_ok c ex -> node_okb c pq (upd_root c pq ex) = true.
Proof.
  destruct ex as [[q0 k0]|]; intros Hex.
  - destruct Hex as (Hid & Hnr & Hok). unfold qid in Hid. cbn [troot] in Hid, Hnr. apply tree_okb_state in Hok. cbn [troot] in Hok.
    unfold node_okb, upd_root, update_props, merge_parent, with_props, apply_conf.
    cbn [m_id m_parent m_leaf m_managed m_state m_max m_guar m_maxapps m_props m_derived m_ledger].
    rewrite Hnr, Hid, (start_active _ Hok). refl_all. reflexivity.
  - unfold node_okb, upd_root, new_queue, update_props.
    cbn [m_id m_parent m_leaf m_managed m_state m_max m_guar m_maxapps m_props m_derived m_ledger].
    refl_all. reflexivity.
Qed.

Lemma find_ex_ok c1 k0 : NoDup (map qid k0) -> (forall k, In k k0 -> is_rootq (troot k) = false /\ tree_okb k = true) ->
  ex_ok c1 (find_kid (ct_id c1) k0).
Proof.
  intros _ Hk. destruct (find_kid (ct_id c1) k0) as [k|] eqn:Hf; [|exact I].
  apply find_kid_some in Hf as [Hin Hid]. destruct (Hk k Hin) as [Ha Hb]. repeat split; assumption.
Qed.
Lemma ex_kids_ok c ex : ex_ok c ex ->
  NoDup (map qid (ex_kids ex)) /\ (forall k, In k (ex_kids ex) -> is_rootq (troot k) = false /\ tree_okb k = true).
Proof.
  destruct ex as [[q0 k0]|]; cbn [ex_ok ex_kids].
  - intros (_ & _ & Hok). apply tree_okb_inv in Hok as (_ & Hnd & Hk). split; assumption.
  - intros _. split; [constructor|intros k []].
Qed.

Definition edge_ok (post : list mq) (e : conf_tree * conf_tree) : Prop :=
  exists yp y, In yp post /\ In y post /\ m_id yp = ct_id (fst e) /\ node_okb (snd e) yp y = true.

Lemma kids_edges id par mx gu ma pr ckids q k0 :
  let c := CT id par mx gu ma pr ckids in
  m_id q = id ->
  NoDup (map qid k0) -> (forall k, In k k0 -> is_rootq (troot k) = false /\ tree_okb k = true) ->
  Forall (fun c1 => forall pq ex, ex_ok c1 ex -> forall e, In e (conf_edges c1) -> edge_ok (flatten (upd c1 pq ex)) e) ckids ->
  forall e, In e (conf_edges c) -> edge_ok (flatten (QT q (upd_kids ckids q k0))) e.
Proof.
  intros c Hq Hnd Hk IH e He. unfold c in He. cbn [conf_edges] in He. apply in_app_or in He as [He|He].
  - apply in_map_iff in He as (c1 & <- & Hc1). cbn [fst snd].
    pose proof (find_ex_ok c1 k0 Hnd Hk) as Hex.
    exists q, (upd_root c1 q (find_kid (ct_id c1) k0)). split; [cbn; left; reflexivity|]. split.
    + eapply in_flatten_kid; [apply in_upd_kids_visited; exact Hc1|]. rewrite upd_unfold. cbn. left. reflexivity.
    + split; [exact Hq|]. apply upd_root_ok. assumption.
  - apply in_flat_map in He as (c1 & Hc1 & He). rewrite Forall_forall in IH.
    pose proof (find_ex_ok c1 k0 Hnd Hk) as Hex.
    destruct (IH c1 Hc1 q _ Hex e He) as (yp & y & Hyp & Hy & Hid & Hok).
    exists yp, y. repeat split; try assumption; (eapply in_flatten_kid; [apply in_upd_kids_visited; exact Hc1|assumption]).
Qed.

Lemma upd_edges c : forall pq ex, ex_ok c ex -> forall e, In e (conf_edges c) -> edge_ok (flatten (upd c pq ex)) e.
Proof.
  induction c as [id par mx gu ma pr ckids IH] using conf_tree_ind'. intros pq ex Hex e He.
  rewrite upd_unfold. cbn [ct_kids]. destruct (ex_kids_ok _ ex Hex) as [Hnd Hk].
  apply (kids_edges id par mx gu ma pr ckids); try assumption.
  apply (upd_root_id (CT id par mx gu ma pr ckids) pq ex Hex).
Qed.

Lemma root_ok c q0 : valid_state (m_state q0) = true -> root_okb c (update_props (apply_conf c q0)) = true.
Proof.
  intros Hv. unfold root_okb, update_props, apply_conf.
  cbn [m_id m_parent m_leaf m_managed m_state m_max m_guar m_maxapps m_props m_derived m_ledger].
  rewrite (start_active _ Hv). refl_all. reflexivity.
Qed.

Theorem accept_applies_thm c t : tree_okb t = true -> qid t = ct_id c -> P_applies c (flatten (reload_tree c t)) = true.
Proof.
  destruct t as [q0 k0]. intros Hok Hid. unfold qid in Hid. cbn [troot] in Hid. rewrite reload_tree_unfold.
  pose proof (tree_okb_inv _ _ Hok) as (Hv & Hnd & Hk).
  unfold P_applies. apply andb_true_intro. split.
  - apply existsb_exists. exists (update_props (apply_conf c q0)). split; [cbn; left; reflexivity|].
    apply andb_true_intro. split; [cbn; rewrite Hid; apply N.eqb_refl|apply root_ok; assumption].
  - apply forallb_forall. intros e He. destruct c as [id par mx gu ma pr ckids].
    assert (IH : Forall (fun c1 => forall pq ex, ex_ok c1 ex -> forall e, In e (conf_edges c1) -> edge_ok (flatten (upd c1 pq ex)) e) ckids).
    { apply Forall_forall. intros c1 _. apply upd_edges. }
    destruct (kids_edges id par mx gu ma pr ckids (update_props (apply_conf (CT id par mx gu ma pr ckids) q0)) k0 Hid Hnd Hk IH e He)
      as (yp & y & Hyp & Hy & Hi & Hn).
    cbn [ct_kids]. apply existsb_exists. exists yp. split; [assumption|]. apply andb_true_intro. split.
    + rewrite Hi. apply N.eqb_refl.
    + apply existsb_exists. exists y. split; assumption.
Qed.

(* reappear_reactivates: the record of a queue that exists (in whatever state) and is listed again is Active *)
Theorem reappear_reactivates_thm c pq t : ex_ok c (Some t) -> m_state (troot (upd c pq (Some t))) = QS_Active.
Proof.
  intros Hex. pose proof (upd_root_ok c pq (Some t) Hex) as H. rewrite upd_unfold. cbn [troot].
  unfold node_okb in H. repeat (apply andb_prop in H as [H ?]). apply N.eqb_eq. assumption.
Qed.

(* ---- missing_drains ---- *)
Lemma mark_mreach t : forall x, In x (mreach_list t) -> In (marked x) (flatten (mark t)).
Proof.
  induction t as [q kids IH] using qtree_ind'. intros x Hx. cbn [mreach_list] in Hx. cbn [mark].
  destruct (m_managed q); [|contradiction]. destruct Hx as [<-|Hx]; [cbn; left; reflexivity|].
  apply in_flat_map in Hx as (k & Hk & Hx). rewrite Forall_forall in IH.
  eapply in_flatten_kid; [apply in_map; exact Hk|apply IH; assumption].
Qed.

Definition drained (post : list mq) (x : mq) : Prop := exists y, In y post /\ same_core x y = true /\ m_state y = QS_Draining.

Lemma kids_drains ckids q k0 :
  Forall (fun c1 => forall pq t x, In x (exp_drain c1 t) -> drained (flatten (upd c1 pq (Some t))) x) ckids ->
  forall x,
  In x (flat_map (fun k => filter (fun x => (m_state x =? QS_Active) || (m_state x =? QS_Draining)) (mreach_list k)) (unvisited ckids k0)
        ++ flat_map (fun c1 => match find_kid (ct_id c1) k0 with Some k1 => exp_drain c1 k1 | None => [] end) ckids) ->
  exists r, In r (upd_kids ckids q k0) /\ drained (flatten r) x.
Proof.
  intros IH x Hx. apply in_app_or in Hx as [Hx|Hx].
  - apply in_flat_map in Hx as (k & Hk & Hx). apply filter_In in Hx as [Hx Hst].
    unfold unvisited in Hk. apply filter_In in Hk as [Hk Hm]. apply negb_true_iff in Hm.
    exists (mark k). split; [apply in_upd_kids_unvisited; assumption|].
    exists (marked x). split; [apply mark_mreach; assumption|]. split; [apply core_eq_same, marked_core|].
    unfold marked. cbn. apply remove_draining. assumption.
  - apply in_flat_map in Hx as (c1 & Hc1 & Hx). destruct (find_kid (ct_id c1) k0) as [k1|] eqn:Hf; [|contradiction].
    rewrite Forall_forall in IH. exists (upd c1 q (find_kid (ct_id c1) k0)).
    split; [apply in_upd_kids_visited; assumption|]. rewrite Hf. apply IH; assumption.
Qed.
Lemma upd_drains c : forall pq t x, In x (exp_drain c t) -> drained (flatten (upd c pq (Some t))) x.
Proof.
  induction c as [id par mx gu ma pr ckids IH] using conf_tree_ind'. intros pq [q0 k0] x Hx.
  rewrite upd_unfold. cbn [ct_kids ex_kids]. cbn [exp_drain tkids] in Hx.
  destruct (kids_drains ckids (upd_root (CT id par mx gu ma pr ckids) pq (Some (QT q0 k0))) k0 IH x Hx) as (r & Hr & y & Hy & Hc & Hs).
  exists y. split; [eapply in_flatten_kid; eassumption|]. split; assumption.
Qed.

Lemma kids_untouched ckids q k0 :
  Forall (fun c1 => forall pq t x, In x (exp_untouched c1 t) -> In x (flatten (upd c1 pq (Some t)))) ckids ->
  forall x,
  In x (flat_map (fun k => if m_managed (troot k) then [] else flatten k) (unvisited ckids k0)
        ++ flat_map (fun c1 => match find_kid (ct_id c1) k0 with Some k1 => exp_untouched c1 k1 | None => [] end) ckids) ->
  exists r, In r (upd_kids ckids q k0) /\ In x (flatten r).
Proof.
  intros IH x Hx. apply in_app_or in Hx as [Hx|Hx].
  - apply in_flat_map in Hx as (k & Hk & Hx). destruct (m_managed (troot k)) eqn:Hm; [contradiction|].
    unfold unvisited in Hk. apply filter_In in Hk as [Hk Hv]. apply negb_true_iff in Hv.
    exists (mark k). split; [apply in_upd_kids_unvisited; assumption|]. rewrite (mark_unmanaged k Hm). assumption.
  - apply in_flat_map in Hx as (c1 & Hc1 & Hx). destruct (find_kid (ct_id c1) k0) as [k1|] eqn:Hf; [|contradiction].
    rewrite Forall_forall in IH. exists (upd c1 q (find_kid (ct_id c1) k0)).
    split; [apply in_upd_kids_visited; assumption|]. rewrite Hf. apply IH; assumption.
Qed.
Lemma upd_untouched c : forall pq t x, In x (exp_untouched c t) -> In x (flatten (upd c pq (Some t))).
Proof.
  induction c as [id par mx gu ma pr ckids IH] using conf_tree_ind'. intros pq [q0 k0] x Hx.
  rewrite upd_unfold. cbn [ct_kids ex_kids]. cbn [exp_untouched tkids] in Hx.
  destruct (kids_untouched ckids (upd_root (CT id par mx gu ma pr ckids) pq (Some (QT q0 k0))) k0 IH x Hx) as (r & Hr & Hy).
  eapply in_flatten_kid; eassumption.
Qed.

Theorem missing_drains_thm c t : P_drains c t (flatten (reload_tree c t)) = true.
Proof.
  destruct t as [q0 k0]. destruct c as [id par mx gu ma pr ckids]. rewrite reload_tree_unfold. cbn [ct_kids].
  unfold P_drains. apply andb_true_intro. split; apply forallb_forall; intros x Hx.
  - cbn [exp_drain tkids] in Hx.
    assert (IH : Forall (fun c1 => forall pq t x, In x (exp_drain c1 t) -> drained (flatten (upd c1 pq (Some t))) x) ckids).
    { apply Forall_forall. intros c1 _. apply upd_drains. }
    destruct (kids_drains ckids (update_props (apply_conf (CT id par mx gu ma pr ckids) q0)) k0 IH x Hx) as (r & Hr & y & Hy & Hc & Hs).
    apply existsb_exists. exists y. split; [eapply in_flatten_kid; eassumption|]. rewrite Hc, Hs. reflexivity.
  - cbn [exp_untouched tkids] in Hx.
    assert (IH : Forall (fun c1 => forall pq t x, In x (exp_untouched c1 t) -> In x (flatten (upd c1 pq (Some t)))) ckids).
    { apply Forall_forall. intros c1 _. apply upd_untouched. }
    destruct (kids_untouched ckids (update_props (apply_conf (CT id par mx gu ma pr ckids) q0)) k0 IH x Hx) as (r & Hr & Hy).
    apply existsb_exists. exists x. split; [eapply in_flatten_kid; eassumption|apply mq_eqb_refl].
Qed.

(* ---- removed_only_empty ---- *)
Definition clean_kids (kids : list qtree) : list qtree :=
  flat_map (fun k => match clean k with Some k' => [k'] | None => [] end) kids.
Lemma clean_unfold q kids :
  clean (QT q kids) =
  if ((m_state q =? QS_Draining) || negb (m_managed q)) && is_empty q (clean_kids kids) && removable q (clean_kids kids)
  then None else Some (QT q (clean_kids kids)).
Proof. reflexivity. Qed.
Lemma in_clean_kids kids k' : In k' (clean_kids kids) <-> exists k, In k kids /\ clean k = Some k'.
Proof.
  unfold clean_kids. rewrite in_flat_map. split.
  - intros (k & Hk & H). exists k. split; [assumption|]. destruct (clean k) as [k2|]; [|contradiction].
    destruct H as [->|[]]. reflexivity.
  - intros (k & Hk & H). exists k. split; [assumption|]. rewrite H. left. reflexivity.
Qed.

Lemma clean_incl t : forall t', clean t = Some t' -> incl (flatten t') (flatten t).
Proof.
  induction t as [q kids IH] using qtree_ind'. intros t' H. rewrite clean_unfold in H.
  destruct (_ && _ && _); [discriminate|]. injection H as <-. intros x Hx.
  apply in_flatten_inv in Hx as [->|(k' & Hk' & Hx)]; [cbn; left; reflexivity|].
  apply in_clean_kids in Hk' as (k & Hk & Hc). rewrite Forall_forall in IH.
  eapply in_flatten_kid; [exact Hk|]. apply (IH k Hk k' Hc). assumption.
Qed.

Definition gone_ok (x : mq) : Prop := no_apps x = true /\ (m_managed x = false \/ m_state x = QS_Draining).
Lemma clean_removed t : forall x, In x (flatten t) -> In (m_id x) (map m_id (flatten_opt (clean t))) \/ gone_ok x.
Proof.
  induction t as [q kids IH] using qtree_ind'. intros x Hx. rewrite clean_unfold.
  destruct (((m_state q =? QS_Draining) || negb (m_managed q)) && is_empty q (clean_kids kids) && removable q (clean_kids kids)) eqn:Hc.
  - (* this queue is removed: its cleaned children list is empty *)
    apply andb_prop in Hc as [Hc Hrem]. apply andb_prop in Hc as [Hdm _].
    unfold removable in Hrem. apply andb_prop in Hrem as [Hrem Hna]. apply andb_prop in Hrem as [_ Hnk].
    apply in_flatten_inv in Hx as [->|(k & Hk & Hx)].
    + right. split; [assumption|]. apply orb_true_iff in Hdm as [H|H].
      * right. apply N.eqb_eq. assumption.
      * left. apply negb_true_iff. assumption.
    + rewrite Forall_forall in IH. destruct (IH k Hk x Hx) as [Hin|Hg]; [|right; assumption].
      destruct (clean k) as [k'|] eqn:Hck; [|contradiction].
      assert (In k' (clean_kids kids)) as Hin' by (apply in_clean_kids; exists k; split; assumption).
      destruct (clean_kids kids); [contradiction|discriminate].
  - apply in_flatten_inv in Hx as [->|(k & Hk & Hx)]; [left; cbn; left; reflexivity|].
    rewrite Forall_forall in IH. destruct (IH k Hk x Hx) as [Hin|Hg]; [|right; assumption].
    destruct (clean k) as [k'|] eqn:Hck; [|contradiction]. left. cbn [flatten_opt] in *.
    apply in_map_iff in Hin as (y & Hid & Hy). apply in_map_iff. exists y. split; [assumption|].
    eapply in_flatten_kid; [apply in_clean_kids; exists k; split; eassumption|assumption].
Qed.

Theorem removed_only_empty_thm t : P_clean t (flatten_opt (clean t)) = true.
Proof.
  unfold P_clean. apply andb_true_intro. split; apply forallb_forall.
  - intros y Hy. destruct (clean t) as [t'|] eqn:Hc; [|contradiction]. apply existsb_exists. exists y.
    split; [apply (clean_incl t t' Hc); assumption|apply mq_eqb_refl].
  - intros x Hx. apply orb_true_iff. destruct (clean_removed t x Hx) as [Hin|(Hna & Hor)].
    + left. apply memN_In. assumption.
    + right. rewrite Hna. cbn [andb]. apply orb_true_iff. destruct Hor as [Hm|Hs].
      * left. rewrite Hm. reflexivity.
      * right. rewrite Hs. reflexivity.
Qed.
(* the root of a running partition (managed, active) is never removed: cleaning does not crash *)
Theorem clean_root_no_crash t : m_managed (troot t) = true -> m_state (troot t) = QS_Active -> clean_root t <> Crash.
Proof.
  destruct t as [q kids]. cbn [troot]. intros Hm Hs. unfold clean_root. rewrite clean_unfold. rewrite Hm, Hs. cbn. discriminate.
Qed.

(* ---- the reload never fails after its first write ---- *)
Lemma all_some_map {A B} (f : A -> option B) (g : A -> B) l : (forall x, In x l -> f x = Some (g x)) -> all_some (map f l) = Some (map g l).
Proof.
  induction l as [|x t IH]; intros H; [reflexivity|]. cbn [map all_some]. rewrite (H x (or_introl eq_refl)).
  rewrite IH; [reflexivity|]. intros y Hy. apply H. right. assumption.
Qed.
Lemma can_add_after_conf c pq ex : ct_kids c <> [] -> can_add_child (upd_root c pq ex) = true.
Proof.
  intros Hk. unfold can_add_child. apply andb_true_intro. split; apply negb_true_iff.
  - destruct c as [id par mx gu ma pr ckids]. cbn [ct_kids] in Hk.
    destruct ex as [[q0 k0]|]; cbn; unfold ct_leaf; cbn [ct_kids]; destruct ckids; congruence.
  - apply N.eqb_neq. destruct ex as [[q0 k0]|]; cbn; [apply start_not_draining|discriminate].
Qed.
Lemma upd_chk_unfold c pq ex :
  upd_chk c pq ex =
  if negb (match ex with None => can_add_child pq | Some _ => true end) then None else
  match all_some (map (fun c1 => upd_chk c1 (upd_root c pq ex) (find_kid (ct_id c1) (ex_kids ex))) (ct_kids c)) with
  | Some vis => Some (QT (upd_root c pq ex) (vis ++ map mark (filter (fun k => negb (memN (qid k) (map ct_id (ct_kids c)))) (ex_kids ex))))
  | None => None
  end.
Proof. destruct c; destruct ex as [[q0 k0]|]; reflexivity. Qed.
Lemma upd_chk_ok c : forall pq ex, (ex = None -> can_add_child pq = true) -> upd_chk c pq ex = Some (upd c pq ex).
Proof.
  induction c as [id par mx gu ma pr ckids IH] using conf_tree_ind'. intros pq ex Hadd.
  rewrite upd_unfold, upd_chk_unfold. cbn [ct_kids]. unfold upd_kids.
  set (c := CT id par mx gu ma pr ckids). set (q := upd_root c pq ex).
  assert (Hvis : all_some (map (fun c1 => upd_chk c1 q (find_kid (ct_id c1) (ex_kids ex))) ckids)
                 = Some (map (fun c1 => upd c1 q (find_kid (ct_id c1) (ex_kids ex))) ckids)).
  { apply all_some_map. intros c1 Hc1. rewrite Forall_forall in IH. apply IH; [assumption|].
    intros _. apply can_add_after_conf. cbn. intros E. rewrite E in Hc1. contradiction. }
  rewrite Hvis. destruct ex as [[q0 k0]|]; [reflexivity|]. rewrite (Hadd eq_refl). reflexivity.
Qed.
Theorem reload_never_fails_midway c t : reload_tree_chk c t = Some (reload_tree c t).
Proof.
  destruct t as [q0 k0]. rewrite reload_tree_unfold. unfold reload_tree_chk, upd_kids.
  set (q := update_props (apply_conf c q0)).
  rewrite (all_some_map _ (fun c1 => upd c1 q (find_kid (ct_id c1) k0))); [reflexivity|].
  intros c1 Hc1. apply upd_chk_ok. intros _. unfold q, can_add_child. apply andb_true_intro. split; apply negb_true_iff.
  - cbn. unfold ct_leaf. destruct (ct_kids c); [contradiction|reflexivity].
  - apply N.eqb_neq. cbn. apply start_not_draining.
Qed.

Theorem reject_noop_thm {R} (v : verdict) c (s : qtree * R) : v <> VAccepted -> reload v c s = s.
Proof. destruct v; intros H; try reflexivity. contradiction. Qed.
Theorem accept_keeps_rest {R} c (s : qtree * R) : snd (reload VAccepted c s) = snd s.
Proof. reflexivity. Qed.

(* ---- draining_rejects_new ---- *)
Theorem draining_rejects_new_thm q acl forced : P_no_new_app q (place_existing q acl forced) = true.
Proof.
  unfold place_existing, P_no_new_app. destruct (m_state q =? QS_Draining) eqn:E.
  - rewrite andb_false_r. destruct forced; reflexivity.
  - destruct (m_leaf q && acl && negb false); [rewrite andb_false_r; reflexivity|destruct forced; reflexivity].
Qed.

(* ---- existing applications keep running: refuted (finding 19) ---- *)
Definition blank (id parent : N) (leaf : bool) (apps : list N) : mq :=
  mkMQ id parent leaf true QS_Active None None 0 [] (mkD SORT_fifo true PRE_default 0 0%Z) (mkL [] [] [] 0 [] [] apps).
Definition w19_tree : qtree := QT (blank 1 0 false []) [QT (blank 2 1 true [7]) []].
Definition w19_conf : conf_tree := CT 1 true [] [] 0 [] [CT 2 false [] [] 0 [] [CT 3 false [] [] 0 [] []]].
Theorem apps_stay_reachable_refuted :
  exists c t, tree_okb t = true /\ qid t = ct_id c /\ P_reach t (reload_tree c t) = false /\ window19 c t (reload_tree c t) = true.
Proof. exists w19_conf, w19_tree. vm_compute. repeat split. Qed.

(* ---- the hypotheses are satisfiable on a non-trivial state ---- *)
Definition ex_tree : qtree :=
  QT (blank 1 0 false [])
     [QT (blank 2 1 true [7]) [];
      QT (blank 4 1 false []) [QT (blank 5 4 true [8; 9]) []];
      QT (mkMQ 6 1 true false QS_Active None None 0 [] (mkD SORT_fifo true PRE_default 0 0%Z) (mkL [(1, 3%Z)] [] [] 1 [] [] [10])) [];
      QT (mkMQ 11 1 true false QS_Active None None 0 [] (mkD SORT_fifo true PRE_default 0 0%Z) empty_ledger) []].
Definition ex_conf : conf_tree :=
  CT 1 true [] [] 0 [(k_preemption_policy, s_disabled)]
     [CT 2 false [(1, 10%Z)] [(1, 5%Z)] 2 [(k_priority_offset, [53])] []; CT 3 false [] [] 0 [] []].
Example ex_hypotheses :
  tree_okb ex_tree = true /\ qid ex_tree = ct_id ex_conf /\
  map m_id (exp_drain ex_conf ex_tree) = [4; 5] /\ map m_id (exp_untouched ex_conf ex_tree) = [6; 11] /\
  map m_id (flatten (reload_tree ex_conf ex_tree)) = [1; 2; 3; 4; 5; 6; 11] /\
  map m_id (flatten_opt (clean (reload_tree ex_conf ex_tree))) = [1; 2; 3; 4; 5; 6].
Proof. vm_compute. repeat split. Qed.
