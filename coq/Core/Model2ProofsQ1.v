(* C02 over the second fragment of the operational model (Core/Model2.v, [m_step2]), part 1: how one step changes the
   record of a queue.  Every queue update of the model is a map over the queue list; the relation between the record of
   a queue before and after the step ([QStep R s s']) is classified per operation:
     [Down]  limits unchanged, usage (allocated ledger) nowhere larger: releases, application removal, and everything
             that does not touch the allocated ledger;
     [DownR] as [Down], but the maximum of a queue without parent (the root) may change: node add / update / removal;
     [Sched] a scheduling decision: +request on the path of the application's queue, each of them having passed
             allocatedResFits; other queues unchanged;
     anything for OpAlloc (RM placement, recovery, in-place resize use IncAllocatedResource: no limit check).
   New step hypothesis [release_ok]: what an application removal / a node removal releases is non-negative (a release
   of a negative quantity raises usage: see Core/Model2ProofsQ4.v for the witnesses). *)
From Coq Require Import List ZArith NArith Bool Lia ZifyBool.
From YK Require Import Base.Int64 Base.Int64Laws Base.Res Base.ResSpec Base.ResLemmas Base.ResLaws Base.ResLaws2
  Base.ResLawsPred Core.Obs Core.Model Core.Model2 Core.Ledger Core.NodeProofs Core.QueueProofs Core.StepProofs
  Core.QueueStepProofs Core.Model2ProofsN Oracles.CoreC01.
Import ListNotations.
Open Scope Z_scope.
Set Default Timeout 30.

(* ------------------------------------------------------------------ relations between two records of a queue *)
Record Down (q0 q1 : oqueue) : Prop := mkDown {
  dn_id : q_id q1 = q_id q0; dn_parent : q_parent q1 = q_parent q0; dn_max : q_max q1 = q_max q0;
  dn_wf : wf (q_alloc q0) -> wf (q_alloc q1);
  dn_le : wf (q_alloc q0) -> rsmall (q_alloc q0) -> rsmall (q_alloc q1) /\ forall k, getz (q_alloc q1) k <= getz (q_alloc q0) k }.

Record DownR (q0 q1 : oqueue) : Prop := mkDownR {
  dr_id : q_id q1 = q_id q0; dr_parent : q_parent q1 = q_parent q0;
  dr_max : (q_parent q0 =? 0)%N = false -> q_max q1 = q_max q0;
  dr_wf : wf (q_alloc q0) -> wf (q_alloc q1);
  dr_le : wf (q_alloc q0) -> rsmall (q_alloc q0) -> rsmall (q_alloc q1) /\ forall k, getz (q_alloc q1) k <= getz (q_alloc q0) k }.

Lemma Down_refl q : Down q q.
Proof. split; auto. intros _ S. split; [exact S|intros k; lia]. Qed.
Lemma Down_trans q0 q1 q2 : Down q0 q1 -> Down q1 q2 -> Down q0 q2.
Proof. intros [A1 A2 A3 A4 A5] [B1 B2 B3 B4 B5]. split; try congruence; [auto|].
  intros W S. destruct (A5 W S) as [S1 L1]. destruct (B5 (A4 W) S1) as [S2 L2]. split; [exact S2|].
  intros k. specialize (L1 k). specialize (L2 k). lia. Qed.
Lemma Down_DownR q0 q1 : Down q0 q1 -> DownR q0 q1.
Proof. intros [A1 A2 A3 A4 A5]. split; auto. Qed.
Lemma DownR_trans q0 q1 q2 : DownR q0 q1 -> DownR q1 q2 -> DownR q0 q2.
Proof. intros [A1 A2 A3 A4 A5] [B1 B2 B3 B4 B5]. split; try congruence; [| auto |].
  - intros Hp. rewrite B3 by (rewrite A2; exact Hp). auto.
  - intros W S. destruct (A5 W S) as [S1 L1]. destruct (B5 (A4 W) S1) as [S2 L2]. split; [exact S2|].
    intros k. specialize (L1 k). specialize (L2 k). lia. Qed.
Lemma Down_limits q0 q1 : q_id q1 = q_id q0 -> q_parent q1 = q_parent q0 -> q_max q1 = q_max q0 -> q_alloc q1 = q_alloc q0 -> Down q0 q1.
Proof. intros E1 E2 E3 E4. split; try assumption; rewrite E4; [auto|]. intros _ S. split; [exact S|intros k; lia]. Qed.

(* ------------------------------------------------------------------ steps as maps over the queue list *)
(* what every queue update of the model preserves, whatever the record *)
Definition gstruct (g : oqueue -> oqueue) : Prop :=
  forall q, q_id (g q) = q_id q /\ q_parent (g q) = q_parent q /\ (wf (q_alloc q) -> wf (q_alloc (g q))) /\
            ((q_parent q =? 0)%N = false -> q_max (g q) = q_max q).

(* [R] relates the record found under an identifier before the step to its image *)
Definition QStep (R : oqueue -> oqueue -> Prop) (s s' : ostate) : Prop :=
  exists g, s_queues s' = map g (s_queues s) /\ gstruct g /\ forall q, find_queue s (q_id q) = Some q -> R q (g q).

Lemma gstruct_id : gstruct (fun q => q).
Proof. intros q. auto. Qed.
Lemma gstruct_comp g1 g2 : gstruct g1 -> gstruct g2 -> gstruct (fun q => g2 (g1 q)).
Proof. intros H1 H2 q. destruct (H1 q) as (A1 & A2 & A3 & A4). destruct (H2 (g1 q)) as (B1 & B2 & B3 & B4).
  split; [congruence|]. split; [congruence|]. split; [auto|]. intros Hp. rewrite B4 by (rewrite A2; exact Hp). auto. Qed.
Lemma gstruct_limits g : limits_same g -> gstruct g.
Proof. intros H q. destruct (H q) as (E1 & E2 & E3 & E4). rewrite E4. auto. Qed.

Lemma QStep_same (R : oqueue -> oqueue -> Prop) s s' : (forall q, R q q) -> s_queues s' = s_queues s -> QStep R s s'.
Proof. intros HR E. exists (fun q => q). split; [rewrite map_id; exact E|]. split; [apply gstruct_id|auto]. Qed.
Lemma QStep_weaken (R R' : oqueue -> oqueue -> Prop) s s' : (forall a b, R a b -> R' a b) -> QStep R s s' -> QStep R' s s'.
Proof. intros H (g & E & G & HR). exists g. auto. Qed.
Lemma QStep_eq (R : oqueue -> oqueue -> Prop) s s' s'' : s_queues s'' = s_queues s' -> QStep R s s' -> QStep R s s''.
Proof. intros E' (g & E & G & HR). exists g. rewrite E'. auto. Qed.
Lemma QStep_eq_l (R : oqueue -> oqueue -> Prop) s0 s s' : s_queues s = s_queues s0 -> QStep R s s' -> QStep R s0 s'.
Proof. intros E0 (g & E & G & HR). exists g. rewrite <- E0. split; [exact E|]. split; [exact G|].
  intros q Hq. apply HR. rewrite (find_queue_same s0 s _ E0). exact Hq. Qed.

Lemma gstruct_find s s' g id : s_queues s' = map g (s_queues s) -> gstruct g -> find_queue s' id = option_map g (find_queue s id).
Proof. intros E G. apply (find_queue_map s s' g E). intros q. apply (G q). Qed.

Lemma QStep_trans (R1 R2 R : oqueue -> oqueue -> Prop) s s1 s2 : (forall a b c, R1 a b -> R2 b c -> R a c) ->
  QStep R1 s s1 -> QStep R2 s1 s2 -> QStep R s s2.
Proof. intros HR (g1 & E1 & G1 & H1) (g2 & E2 & G2 & H2). exists (fun q => g2 (g1 q)). split; [rewrite E2, E1, map_map; reflexivity|].
  split; [apply gstruct_comp; assumption|]. intros q Hq. apply (HR _ (g1 q)); [apply H1; exact Hq|]. apply H2.
  destruct (G1 q) as (Eid & _). rewrite Eid. rewrite (gstruct_find s s1 g1 _ E1 G1), Hq. reflexivity. Qed.

Lemma QStep_find (R : oqueue -> oqueue -> Prop) s s' id q0 q1 : QStep R s s' -> find_queue s id = Some q0 -> find_queue s' id = Some q1 ->
  R q0 q1 /\ q_id q1 = q_id q0 /\ q_parent q1 = q_parent q0 /\ (wf (q_alloc q0) -> wf (q_alloc q1)) /\
  ((q_parent q0 =? 0)%N = false -> q_max q1 = q_max q0).
Proof. intros (g & E & G & HR) E0 E1. rewrite (gstruct_find s s' g id E G), E0 in E1. cbn [option_map] in E1. inversion E1; subst q1.
  destruct (find_queue_some _ _ _ E0) as [_ Eid]. split; [apply HR; rewrite Eid; exact E0|]. apply (G q0). Qed.

(* the structure of the tree is untouched *)
Lemma QStep_shape (R : oqueue -> oqueue -> Prop) s s' : QStep R s s' ->
  map (fun q => (q_id q, q_parent q)) (s_queues s') = map (fun q => (q_id q, q_parent q)) (s_queues s).
Proof. intros (g & E & G & _). rewrite E, map_map. apply map_ext. intros q. destruct (G q) as (-> & -> & _). reflexivity. Qed.

(* ------------------------------------------------------------------ the individual queue updates *)
Lemma on_path_gstruct (path : list N) f : (forall q, q_id (f q) = q_id q /\ q_parent (f q) = q_parent q /\ (wf (q_alloc q) -> wf (q_alloc (f q))) /\ q_max (f q) = q_max q) ->
  gstruct (fun q => if memN (q_id q) path then f q else q).
Proof. intros H q. destruct (memN (q_id q) path); [|auto]. destruct (H q) as (A & B & C & D). auto. Qed.

Lemma q_minus_props r q : q_id (q_minus r q) = q_id q /\ q_parent (q_minus r q) = q_parent q /\
  (wf (q_alloc q) -> wf (q_alloc (q_minus r q))) /\ q_max (q_minus r q) = q_max q.
Proof. unfold q_minus. qproj. repeat split. intros W. apply Prune_wf, Sub_wf. exact W. Qed.
Lemma q_plus_props r q : q_id (q_plus r q) = q_id q /\ q_parent (q_plus r q) = q_parent q /\
  (wf (q_alloc q) -> wf (q_alloc (q_plus r q))) /\ q_max (q_plus r q) = q_max q.
Proof. unfold q_plus. qproj. repeat split. intros W. apply Add_wf. exact W. Qed.

(* DecAllocatedResource of a non-negative quantity that passed the guard *)
Lemma q_minus_down r q : wf r -> rsmall r -> res_nonnegP r -> FitInActual (Some (q_alloc q)) (Some r) = true -> Down q (q_minus r q).
Proof. intros Wr Sr Nr Hfit. destruct (q_minus_props r q) as (E1 & E2 & E3 & E4). split; try assumption. intros Wa Sa.
  assert (G : forall k, getz (q_alloc (q_minus r q)) k = getz (q_alloc q) k - getz r k).
  { intros k. unfold q_minus. qproj. cbn [Sub oget]. rewrite Prune_getz by (apply subFrom_wf; exact Wa).
    specialize (Sa k). specialize (Sr k). apply subFrom_getz; try assumption; sm. }
  split.
  - intros k. rewrite G. pose proof (Sa k) as Sak. pose proof (Sr k) as Srk. pose proof (Nr k) as Nrk.
    pose proof (proj1 (FitInActual_spec (Some (q_alloc q)) (Some r) Wr) Hfit k) as Hf. cbn [oget] in Hf.
    unfold getz in *. destruct (get r k) as [v|]; [|sm]. destruct (get (q_alloc q) k) as [l|]; [|sm].
    specialize (Hf v l eq_refl eq_refl). sm.
  - intros k. rewrite G. specialize (Nr k). lia. Qed.

Lemma q_dec_down s leaf r : wf r -> rsmall r -> res_nonnegP r -> QStep Down s (q_dec s leaf r).
Proof. intros Wr Sr Nr. unfold q_dec. destruct (forallb _ (path_ids s leaf)) eqn:Eg; [|apply QStep_same; [apply Down_refl|reflexivity]].
  exists (fun q => if memN (q_id q) (path_ids s leaf) then q_minus r q else q). split; [reflexivity|].
  split; [apply on_path_gstruct; intros q; apply q_minus_props|]. intros q Hq.
  destruct (memN (q_id q) (path_ids s leaf)) eqn:Em; [|apply Down_refl].
  rewrite forallb_forall in Eg. apply memN_In in Em. specialize (Eg _ Em). rewrite Hq in Eg. apply q_minus_down; assumption. Qed.

Lemma q_dec_pending_down s leaf r : QStep Down s (q_dec_pending s leaf r).
Proof. destruct (q_dec_pending_queues s leaf r) as (g & E & Hg). exists g. split; [exact E|]. split; [apply gstruct_limits; exact Hg|].
  intros q _. destruct (Hg q) as (E1 & E2 & E3 & E4). apply Down_limits; assumption. Qed.
Lemma q_inc_pending_down s leaf r : QStep Down s (q_inc_pending s leaf r).
Proof. exists (fun q => if memN (q_id q) (path_ids s leaf) then q_with q (q_max q) (q_alloc q) (Add (Some (q_pending q)) (Some r)) else q).
  split; [reflexivity|]. split.
  - apply on_path_gstruct. intros q. qproj. auto.
  - intros q _. destruct (memN _ _); [|apply Down_refl]. apply Down_limits; reflexivity. Qed.
Lemma q_inc_any s leaf r : QStep (fun _ _ => True) s (q_inc s leaf r).
Proof. exists (fun q => if memN (q_id q) (path_ids s leaf) then q_plus r q else q). split; [reflexivity|].
  split; [apply on_path_gstruct; intros q; apply q_plus_props|auto]. Qed.

(* updatePartitionResource: only the maximum of queues without parent *)
Lemma part_update_total_downr s d : QStep DownR s (part_update_total s d).
Proof. unfold part_update_total. set (t := Prune _).
  exists (fun q => if (q_parent q =? 0)%N then q_with q (Some t) (q_alloc q) (q_pending q) else q). split; [reflexivity|]. split.
  - intros q. destruct (q_parent q =? 0)%N eqn:Ep; qproj; auto. repeat split; auto. intros C; discriminate.
  - intros q _. destruct (q_parent q =? 0)%N eqn:Ep; [|apply Down_DownR, Down_refl]. split; qproj; auto.
    + intros C; congruence.
    + intros _ S. split; [exact S|intros k; lia]. Qed.

(* ------------------------------------------------------------------ the step hypothesis of this property *)
Definition release_ok (s : ostate) (st : ostep) : Prop :=
  match st_op st with
  | OpAppRemove id => forall a, find_app s id = Some a ->
      wf (ap_allocated a) /\ rsmall (ap_allocated a) /\ res_nonnegP (ap_allocated a)
  | OpNodeRemove id => forall n x, find_node s id = Some n -> In x (on_allocs n) -> res_nonnegP (oa_res x)
  | _ => True
  end.

(* the allocations applications list: resources are Go maps within the bound (third clause of [QInv]) *)
Definition AInv (s : ostate) : Prop := forall a x, In a (s_apps s) -> In x (ap_allocs a) -> wf (oa_res x) /\ rsmall (oa_res x).

(* ------------------------------------------------------------------ operations of the first fragment *)
Lemma m_node_add_qstep s id cap drain s' : m_node_add s id cap drain = Some s' -> QStep DownR s s'.
Proof. unfold m_node_add. intros H. destruct (find_node s id); apply Some_inj in H; subst s'.
  - apply QStep_same; [intros q; apply Down_DownR, Down_refl|reflexivity].
  - eapply QStep_eq_l; [|apply part_update_total_downr]. reflexivity. Qed.

Lemma m_node_update_qstep s id cap s' : m_node_update s id cap = Some s' -> QStep DownR s s'.
Proof. unfold m_node_update. intros H.
  assert (Same : forall s1, s_queues s1 = s_queues s -> QStep DownR s s1) by (intros s1 E; apply QStep_same; [intros q; apply Down_DownR, Down_refl|exact E]).
  destruct (find_node s id) as [n|]; [|apply Some_inj in H; subst s'; apply Same; reflexivity].
  destruct cap as [c|]; [|apply Some_inj in H; subst s'; apply Same; reflexivity].
  destruct (n_set_capacity n c) as [n' [d|]]; apply Some_inj in H; subst s'; [|apply Same; reflexivity].
  eapply QStep_eq_l; [|apply part_update_total_downr]. reflexivity. Qed.

Lemma m_release_qstep s app key ttype s' : m_release s app key ttype = Some s' -> AInv s -> QStep Down s s'.
Proof. unfold m_release. intros H HA.
  assert (Same : forall s1, s_queues s1 = s_queues s -> QStep Down s s1) by (intros s1 E; apply QStep_same; [apply Down_refl|exact E]).
  destruct (app =? 0)%N.
  - destruct (find_alloc (s_foreign s) key) as [f|]; apply Some_inj in H; subst s'; [|apply Same; reflexivity].
    destruct (find_node _ (oa_node f)); apply Same; reflexivity.
  - destruct (find_app s app) as [a|] eqn:Eapp; [|apply Some_inj in H; subst s'; apply Same; reflexivity].
    destruct (find_app_some _ _ _ Eapp) as [Hina _].
    destruct ((key =? 0)%N || (ttype =? TT_PlaceholderReplaced)%N); [discriminate|].
    destruct (find_alloc (ap_allocs a) key) as [x|] eqn:Ex.
    + unfold m_release_alloc in H.
      destruct (oa_ph x || negb (oa_release x =? 0)%N || negb match ap_reservations a with [] => true | _ => false end); [discriminate|].
      destruct (find_node s (oa_node x)) as [n|]; [|discriminate]. apply Some_inj in H; subst s'.
      destruct (StrictlyGreaterThanZero (Some (oa_res x))) eqn:Epos; [|apply Same; reflexivity].
      destruct (find_alloc_some _ _ _ Ex) as [Hx _]. destruct (HA a x Hina Hx) as [Wx Sx].
      apply (StrictlyGreaterThanZero_spec _ Wx) in Epos.
      eapply QStep_eq; [|eapply QStep_eq_l; [|apply (q_dec_down _ (ap_queue a) (oa_res x) Wx Sx (proj1 Epos))]]; reflexivity.
    + destruct (find_alloc (ap_requests a) key) as [x|]; [|apply Some_inj in H; subst s'; apply Same; reflexivity].
      destruct (ttype =? TT_Timeout)%N; [apply Some_inj in H; subst s'; apply Same; reflexivity|].
      unfold m_release_ask in H. destruct (oa_allocated x || _); [discriminate|]. apply Some_inj in H; subst s'.
      match goal with |- QStep _ _ (if ?c then _ else _) => destruct c end;
        (eapply QStep_eq; [|eapply QStep_eq_l; [|apply (q_dec_pending_down _ (ap_queue a) (oa_res x))]]; reflexivity). Qed.
