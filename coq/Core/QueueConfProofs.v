(* The configured-maximum clause of C02 (Oracles/CoreC02Conf.v, kind 204) follows from the queue-object clause
   (queue_max_ok_after, proved for every decision the model admits: QueueStepProofs.sched_queue_max_ok) whenever
   the queue objects carry the maximum the configuration in force gives them - which is what the reload theorems
   (Props/C16.v accept_applies) establish for every accepted reload. *)
From Coq Require Import List ZArith NArith Bool Lia.
From YK Require Import Base.Res Core.Obs Core.Ledger Core.Reload Core.ReloadSpec Oracles.CoreC01 Oracles.CoreC02Conf.
Import ListNotations.
Open Scope N_scope.

(* the queue objects on the path carry the configured maximum *)
Definition carries_conf (cur : conf_tree) (post : ostate) (qid : N) : Prop :=
  forall q c, In q (ancestors post qid) -> q_managed q = true -> (q_parent q =? 0) = false ->
    conf_lookup cur (q_id q) = Some c -> conf_max_defines (ct_max c) = true -> q_max q = Some (ct_max c).

Lemma over_confmax_implies_over_max cur pre post qid q k :
  carries_conf cur post qid -> In q (ancestors post qid) ->
  over_confmax_at cur pre q k = true -> over_max_at q k = true.
Proof.
  intros Hc Hin H. unfold over_confmax_at in H.
  destruct (q_parent q =? 0) eqn:Hroot; [discriminate H|].
  destruct (q_managed q) eqn:Hm; [|discriminate H]. cbn [negb orb] in H.
  destruct (conf_lookup cur (q_id q)) as [c|] eqn:Hl; [|discriminate H].
  destruct (conf_max_defines (ct_max c)) eqn:Hd; [|discriminate H]. cbn [negb] in H.
  destruct (get (ct_max c) k) as [v|] eqn:Hg; [|discriminate H].
  apply andb_true_iff in H. destruct H as [Hover _].
  unfold over_max_at. rewrite (Hc q c Hin Hm Hroot Hl Hd), Hg. exact Hover.
Qed.

Theorem confmax_ok_from_objmax cur pre post qid r :
  carries_conf cur post qid ->
  queue_max_ok_after post qid r = true -> queue_confmax_ok_after cur pre post qid r = true.
Proof.
  intros Hc H. unfold queue_max_ok_after in H. apply andb_true_iff in H. destruct H as [H _].
  unfold queue_confmax_ok_after. rewrite forallb_forall in *. intros q Hq.
  specialize (H q Hq). rewrite forallb_forall in *. intros kv Hkv. specialize (H kv Hkv).
  destruct (0 <? snd kv)%Z; [|reflexivity]. cbn [andb] in *.
  destruct (over_confmax_at cur pre q (fst kv)) eqn:Ho; [|reflexivity].
  rewrite (over_confmax_implies_over_max cur pre post qid q (fst kv) Hc Hq Ho) in H. exact H.
Qed.
